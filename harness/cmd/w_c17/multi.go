// multi.go: the multi-instance / builder-reuse layer of the C17 monitor.
//
// A scenario is a small *builder program* (make / copy / With… / Build steps on
// numbered builder variables, exactly what user code does with the by-value
// simplebankedmemory.Builder) that yields 2..4 components, plus one interleaved
// request stream that deliberately touches the same local addresses on
// different components. The harness interprets the program twice: on the real
// builder, and on its own reference notion of a by-value builder (every With…
// changes one field of a copy, Build snapshots the value). From the reference
// it knows, per component, the address conversion and which storage the
// component is supposed to own or share, and judges
//
//   - every component against its own flat byte array (components that were
//     given the same storage explicitly with WithStorage: against one common
//     array, addresses converted per component as configured);
//   - what Build returned against what was asked for (name, engine, frequency,
//     converter objects, explicit storage, distinct private storages, which
//     custom bank selector object was consulted);
//   - the timing of every component against a *solo twin*: the same effective
//     configuration built alone from a fresh builder chain on a fresh engine
//     and fed the same stream must see every request arrive and every
//     response leave at the same simulated time (a component must not be
//     affected by what was done to the builder value before or after its
//     Build, nor by its siblings).
package main

import (
	"bytes"
	"encoding/json"
	"fmt"
	"math"
	"sort"
	"strconv"

	"github.com/sarchlab/akita/v4/mem/mem"
	"github.com/sarchlab/akita/v4/sim"
	"github.com/sarchlab/mgpusim/v4/amd/timing/mem/simplebankedmemory"

	"verifharness/vlib"
	"verifharness/vlib/simkit"
)

// every With… option of simplebankedmemory.Builder
const (
	oEngine     = "Engine"
	oFreq       = "Freq"
	oNumBanks   = "NumBanks"
	oWidth      = "BankPipelineWidth"
	oDepth      = "BankPipelineDepth"
	oStageLat   = "StageLatency"
	oTopBuf     = "TopPortBufferSize"
	oPostBuf    = "PostPipelineBufferSize"
	oSelType    = "BankSelectorType"
	oLog2Inter  = "Log2InterleaveSize"
	oSelector   = "BankSelector"
	oStorage    = "Storage"
	oNewStorage = "NewStorage"
	oAddrConv   = "AddressConverter"
	oRowLog2    = "RowBufferSizeLog2"
	oRowMiss    = "RowMissDelay"
	oBankConv   = "BankAddressConverter"
)

var allOpts = []string{oEngine, oFreq, oNumBanks, oWidth, oDepth, oStageLat, oTopBuf, oPostBuf, oSelType,
	oLog2Inter, oSelector, oStorage, oNewStorage, oAddrConv, oRowLog2, oRowMiss, oBankConv}

const explicitStorageCap = 1 << 30
const numExplicitStorages = 2

// ---------------------------------------------------------------------------
// option values that are objects

type convSpec struct {
	Inter uint64 `json:"inter"`
	Total int    `json:"total"`
	Idx   int    `json:"idx"`
}

func (c convSpec) toExternal(in uint64) uint64 {
	round := c.Inter * uint64(c.Total)
	return in/c.Inter*round + uint64(c.Idx)*c.Inter + in%c.Inter
}

func (c convSpec) toInternal(ext uint64) (uint64, bool) {
	round := c.Inter * uint64(c.Total)
	if int(ext%round/c.Inter) != c.Idx {
		return 0, false
	}
	return ext/round*c.Inter + ext%c.Inter, true
}

func (c convSpec) object() *mem.InterleavingConverter {
	return &mem.InterleavingConverter{InterleavingSize: c.Inter, TotalNumOfElements: c.Total, CurrentElementIndex: c.Idx}
}

type selSpec struct {
	Kind  string `json:"kind"` // "xor" | "rev"
	Shift uint64 `json:"shift"`
}

// recSelector is a custom bank selector that counts how often it is consulted.
type recSelector struct {
	spec  selSpec
	calls int64
}

func (s *recSelector) Select(a uint64, nb int) int {
	s.calls++
	if nb <= 0 {
		return 0
	}
	if s.spec.Kind == "xor" {
		return int(((a >> s.spec.Shift) ^ (a >> (s.spec.Shift + 3))) % uint64(nb))
	}
	return nb - 1 - int((a>>s.spec.Shift)%uint64(nb))
}

// ---------------------------------------------------------------------------
// builder programs

type step struct {
	K     string    `json:"k"` // make | copy | with | build
	Dst   int       `json:"dst"`
	Src   int       `json:"src"`
	Opt   string    `json:"opt,omitempty"`
	N     int64     `json:"n,omitempty"`
	S     string    `json:"s,omitempty"`
	Conv  *convSpec `json:"conv,omitempty"`
	Sel   *selSpec  `json:"sel,omitempty"`
	Name  string    `json:"name,omitempty"`
	Decoy bool      `json:"decoy,omitempty"` // value is overwritten before the next Build
}

type reqCfg struct {
	InBuf    int `json:"in_buf"`
	StallPct int `json:"stall_pct"`
}

type mop struct {
	Inst int `json:"inst"`
	op
}

type multiScenario struct {
	Name  string   `json:"name"`
	Shape string   `json:"shape"`
	Steps []step   `json:"steps"`
	Reqs  []reqCfg `json:"requesters"`
	Ops   []mop    `json:"ops"`
}

// bstate is the harness' reference notion of a builder value.
type bstate struct {
	Engine       int             `json:"engine"` // -1: none
	FreqMHz      int64           `json:"freq_mhz"`
	Banks        int             `json:"banks"`
	Width        int             `json:"pipe_width"`
	Depth        int             `json:"pipe_depth"`
	StageLat     int             `json:"stage_latency"`
	TopBuf       int             `json:"top_buf"`
	PostBuf      int             `json:"post_buf"`
	SelType      string          `json:"selector_type"`
	Log2Inter    uint64          `json:"log2_interleave"`
	Sel          *selSpec        `json:"selector,omitempty"`
	SelStep      int             `json:"selector_step"`
	Storage      int             `json:"storage"` // -1: none passed (private storage)
	Capacity     uint64          `json:"capacity"`
	Ambig        bool            `json:"storage_then_newstorage"` // WithStorage(s) then WithNewStorage: either contract accepted
	AddrConv     *convSpec       `json:"address_converter,omitempty"`
	AddrConvStep int             `json:"address_converter_step"`
	BankConv     *convSpec       `json:"bank_address_converter,omitempty"`
	BankConvStep int             `json:"bank_address_converter_step"`
	RowLog2      uint64          `json:"row_log2"`
	RowMiss      int             `json:"row_miss_delay"`
	Set          map[string]bool `json:"set"`

	hist       []string // options in the order they were applied along this value's lineage
	builds     int      // Build calls along the lineage so far
	afterBuild []string // options applied after a Build of the lineage
}

func defaultState() *bstate { // simplebankedmemory.MakeBuilder
	return &bstate{Engine: -1, FreqMHz: 1000, Banks: 4, Width: 1, Depth: 1, StageLat: 10, TopBuf: 16, PostBuf: 1,
		SelType: "interleaved", Log2Inter: 6, Storage: -1, Capacity: 4 << 30, Set: map[string]bool{}}
}

func (b *bstate) clone() *bstate {
	c := *b
	c.Set = map[string]bool{}
	for k, v := range b.Set {
		c.Set[k] = v
	}
	c.hist = append([]string(nil), b.hist...)
	c.afterBuild = append([]string(nil), b.afterBuild...)
	return &c
}

func (b *bstate) apply(st step, idx int) {
	switch st.Opt {
	case oEngine:
		b.Engine = int(st.N)
	case oFreq:
		b.FreqMHz = st.N
	case oNumBanks:
		b.Banks = int(st.N)
	case oWidth:
		b.Width = int(st.N)
	case oDepth:
		b.Depth = int(st.N)
	case oStageLat:
		b.StageLat = int(st.N)
	case oTopBuf:
		b.TopBuf = int(st.N)
	case oPostBuf:
		b.PostBuf = int(st.N)
	case oSelType:
		b.SelType = st.S
	case oLog2Inter:
		b.Log2Inter = uint64(st.N)
	case oSelector:
		b.Sel, b.SelStep = st.Sel, idx
	case oStorage:
		b.Storage, b.Ambig = int(st.N), false
	case oNewStorage:
		b.Capacity = uint64(st.N)
		if b.Storage >= 0 {
			b.Ambig = true
		}
	case oAddrConv:
		b.AddrConv, b.AddrConvStep = st.Conv, idx
	case oRowLog2:
		b.RowLog2 = uint64(st.N)
	case oRowMiss:
		b.RowMiss = int(st.N)
	case oBankConv:
		b.BankConv, b.BankConvStep = st.Conv, idx
	default:
		panic("unknown option " + st.Opt)
	}
	b.Set[st.Opt] = true
	b.hist = append(b.hist, st.Opt)
	if b.builds > 0 {
		b.afterBuild = append(b.afterBuild, st.Opt)
	}
}

// external: an address of the component's own (internal) address space ->
// the external address that belongs to this component.
func (b *bstate) external(internal uint64) uint64 {
	if b.BankConv != nil {
		return b.BankConv.toExternal(internal)
	}
	if b.AddrConv != nil {
		return b.AddrConv.toExternal(internal)
	}
	return internal
}

// storageAddr: the storage address the component must use for ext.
func (b *bstate) storageAddr(ext uint64) (uint64, bool) {
	if b.AddrConv != nil {
		return b.AddrConv.toInternal(ext)
	}
	return ext, true
}

func (b *bstate) period() float64 { return 1e-6 / float64(b.FreqMHz) }

type inst struct {
	Name string  `json:"name"`
	Var  int     `json:"var"`
	Step int     `json:"step"`
	Cfg  *bstate `json:"cfg"`
}

type progCoverage struct {
	orderPairs map[string]bool // "X<Y": X applied before Y on the lineage of a built value
	afterBuild map[string]bool // option changed after a Build of the lineage and built again
	twice      map[string]bool // option applied twice on a lineage (last one wins)
}

// interpret runs a builder program on the reference builder.
func interpret(steps []step) ([]inst, progCoverage) {
	cov := progCoverage{map[string]bool{}, map[string]bool{}, map[string]bool{}}
	vars := map[int]*bstate{}
	var out []inst
	for i, st := range steps {
		switch st.K {
		case "make":
			vars[st.Dst] = defaultState()
		case "copy":
			vars[st.Dst] = vars[st.Src].clone()
		case "with":
			nb := vars[st.Src].clone()
			nb.apply(st, i)
			vars[st.Dst] = nb
		case "build":
			v := vars[st.Src]
			for a := 0; a < len(v.hist); a++ {
				for b := a + 1; b < len(v.hist); b++ {
					if v.hist[a] == v.hist[b] {
						cov.twice[v.hist[a]] = true
					} else {
						cov.orderPairs[v.hist[a]+"<"+v.hist[b]] = true
					}
				}
			}
			for _, o := range v.afterBuild {
				cov.afterBuild[o] = true
			}
			out = append(out, inst{Name: st.Name, Var: st.Src, Step: i, Cfg: v.clone()})
			v.builds++
		default:
			panic("unknown step " + st.K)
		}
	}
	return out, cov
}

// world holds the real objects a builder program refers to.
type world struct {
	engines  [2]sim.Engine
	logs     [2]*simkit.Log
	storages []*mem.Storage
	convs    map[int]*mem.InterleavingConverter // step index -> object passed
	convSpec map[int]convSpec
	sels     map[int]*recSelector
}

func newWorld() *world {
	w := &world{convs: map[int]*mem.InterleavingConverter{}, convSpec: map[int]convSpec{}, sels: map[int]*recSelector{}}
	for i := range w.engines {
		w.engines[i] = sim.NewSerialEngine()
		w.logs[i] = simkit.NewLog(w.engines[i], 1*sim.GHz)
	}
	for i := 0; i < numExplicitStorages; i++ {
		w.storages = append(w.storages, mem.NewStorage(explicitStorageCap))
	}
	return w
}

func (w *world) applyReal(b simplebankedmemory.Builder, st step, idx int) simplebankedmemory.Builder {
	switch st.Opt {
	case oEngine:
		return b.WithEngine(w.engines[st.N])
	case oFreq:
		return b.WithFreq(sim.Freq(st.N) * sim.MHz)
	case oNumBanks:
		return b.WithNumBanks(int(st.N))
	case oWidth:
		return b.WithBankPipelineWidth(int(st.N))
	case oDepth:
		return b.WithBankPipelineDepth(int(st.N))
	case oStageLat:
		return b.WithStageLatency(int(st.N))
	case oTopBuf:
		return b.WithTopPortBufferSize(int(st.N))
	case oPostBuf:
		return b.WithPostPipelineBufferSize(int(st.N))
	case oSelType:
		return b.WithBankSelectorType(st.S)
	case oLog2Inter:
		return b.WithLog2InterleaveSize(uint64(st.N))
	case oSelector:
		if st.Sel == nil {
			return b.WithBankSelector(nil)
		}
		s := &recSelector{spec: *st.Sel}
		w.sels[idx] = s
		return b.WithBankSelector(s)
	case oStorage:
		if st.N < 0 {
			return b.WithStorage(nil)
		}
		return b.WithStorage(w.storages[st.N])
	case oNewStorage:
		return b.WithNewStorage(uint64(st.N))
	case oAddrConv:
		if st.Conv == nil {
			return b.WithAddressConverter(nil)
		}
		o := st.Conv.object()
		w.convs[idx], w.convSpec[idx] = o, *st.Conv
		return b.WithAddressConverter(o)
	case oRowLog2:
		return b.WithRowBufferSizeLog2(uint64(st.N))
	case oRowMiss:
		return b.WithRowMissDelay(int(st.N))
	case oBankConv:
		if st.Conv == nil {
			return b.WithBankAddressConverter(nil)
		}
		o := st.Conv.object()
		w.convs[idx], w.convSpec[idx] = o, *st.Conv
		return b.WithBankAddressConverter(o)
	}
	panic("unknown option " + st.Opt)
}

// buildAll runs the program on the real builder.
func (w *world) buildAll(steps []step) (comps []*simplebankedmemory.Comp, pv any) {
	defer func() {
		if r := recover(); r != nil {
			pv = r
		}
	}()
	vars := map[int]simplebankedmemory.Builder{}
	for i, st := range steps {
		switch st.K {
		case "make":
			vars[st.Dst] = simplebankedmemory.MakeBuilder()
		case "copy":
			vars[st.Dst] = vars[st.Src]
		case "with":
			vars[st.Dst] = w.applyReal(vars[st.Src], st, i)
		case "build":
			comps = append(comps, vars[st.Src].Build(st.Name))
		}
	}
	return comps, nil
}

// buildTwin builds the component an instance is supposed to be, alone, from a
// fresh chain in a fixed order; only options that were set along the lineage
// are set (so the twin does not depend on the harness knowing the defaults).
func buildTwin(c *bstate, engine sim.Engine, name string) *simplebankedmemory.Comp {
	b := simplebankedmemory.MakeBuilder().WithEngine(engine)
	set := c.Set
	if set[oFreq] {
		b = b.WithFreq(sim.Freq(c.FreqMHz) * sim.MHz)
	}
	if set[oNumBanks] {
		b = b.WithNumBanks(c.Banks)
	}
	if set[oLog2Inter] {
		b = b.WithLog2InterleaveSize(c.Log2Inter)
	}
	if set[oWidth] {
		b = b.WithBankPipelineWidth(c.Width)
	}
	if set[oDepth] {
		b = b.WithBankPipelineDepth(c.Depth)
	}
	if set[oStageLat] {
		b = b.WithStageLatency(c.StageLat)
	}
	if set[oTopBuf] {
		b = b.WithTopPortBufferSize(c.TopBuf)
	}
	if set[oPostBuf] {
		b = b.WithPostPipelineBufferSize(c.PostBuf)
	}
	if set[oSelType] {
		b = b.WithBankSelectorType(c.SelType)
	}
	if c.Sel != nil {
		b = b.WithBankSelector(&recSelector{spec: *c.Sel})
	}
	if set[oRowLog2] {
		b = b.WithRowBufferSizeLog2(c.RowLog2)
	}
	if set[oRowMiss] {
		b = b.WithRowMissDelay(c.RowMiss)
	}
	if c.BankConv != nil {
		b = b.WithBankAddressConverter(c.BankConv.object())
	}
	if c.AddrConv != nil {
		b = b.WithAddressConverter(c.AddrConv.object())
	}
	if c.Storage >= 0 {
		b = b.WithStorage(mem.NewStorage(explicitStorageCap))
	} else if set[oNewStorage] {
		b = b.WithNewStorage(c.Capacity)
	}
	return b.Build(name)
}

// ---------------------------------------------------------------------------
// running one set of requesters against a set of components

func stallSeed(ms *multiScenario, i int) uint64 {
	return uint64(len(ms.Ops))*7919 + uint64(ms.Reqs[i].StallPct)*31 + uint64(i)*104729
}

// wire creates requester i for the component's Top port and plans the ops of
// instance i (all instances if only < 0 ... no: exactly instance i).
func wire(ms *multiScenario, i int, engine sim.Engine, top sim.Port, idToO map[string]int) *simkit.Requester {
	rq := ms.Reqs[i]
	req := simkit.NewRequester("Req"+strconv.Itoa(i), engine, 1*sim.GHz, rq.InBuf, 4)
	if rq.StallPct > 0 {
		stall := vlib.NewPRNG(stallSeed(ms, i))
		req.StallFn = func(int64) bool { return stall.Intn(100) < rq.StallPct }
	}
	simkit.Connect(engine, 1*sim.GHz, "Conn"+strconv.Itoa(i), req.Out, top)
	cycle := int64(1)
	for oi, o := range ms.Ops {
		cycle += int64(o.Gap)
		if o.Inst != i {
			continue
		}
		var m sim.Msg
		if o.Write {
			wb := mem.WriteReqBuilder{}.WithSrc(req.Out.AsRemote()).WithDst(top.AsRemote()).
				WithAddress(o.Addr).WithData(append([]byte(nil), o.Data...))
			if o.Mask != nil {
				wb = wb.WithDirtyMask(append([]bool(nil), o.Mask...))
			}
			m = wb.Build()
		} else {
			m = mem.ReadReqBuilder{}.WithSrc(req.Out.AsRemote()).WithDst(top.AsRemote()).
				WithAddress(o.Addr).WithByteSize(uint64(o.Size)).Build()
		}
		idToO[m.Meta().ID] = oi
		req.Plan = append(req.Plan, simkit.Planned{NotBefore: cycle, Msg: m})
	}
	req.TickLater()
	return req
}

func ps(t sim.VTimeInSec) int64 { return int64(math.Round(float64(t) * 1e12)) }

// opTiming: when op arrived at the Top port, when its response left the Top
// port, when the requester took the response (ps; -1 = never).
type opTiming [3]int64

func timings(ms *multiScenario, evs []simkit.Event, label string, req *simkit.Requester, idToO map[string]int) map[int]opTiming {
	out := map[int]opTiming{}
	get := func(oi int) opTiming {
		if t, ok := out[oi]; ok {
			return t
		}
		return opTiming{-1, -1, -1}
	}
	for _, e := range evs {
		if e.Port != label {
			continue
		}
		switch e.Kind {
		case simkit.KRecv:
			if oi, ok := idToO[e.Msg.Meta().ID]; ok {
				t := get(oi)
				t[0] = ps(e.Time)
				out[oi] = t
			}
		case simkit.KSend:
			if r, ok := e.Msg.(sim.Rsp); ok {
				if oi, ok := idToO[r.GetRspTo()]; ok {
					t := get(oi)
					t[1] = ps(e.Time)
					out[oi] = t
				}
			}
		}
	}
	for _, g := range req.Got {
		if r, ok := g.Msg.(sim.Rsp); ok {
			if oi, ok := idToO[r.GetRspTo()]; ok {
				t := get(oi)
				t[2] = ps(g.Time)
				out[oi] = t
			}
		}
	}
	return out
}

type viol struct {
	key, what string
	extra     map[string]any
}

type marr struct {
	eng   int
	seq   int
	time  sim.VTimeInSec
	inst  int
	req   mem.AccessReq
	opIdx int
}

func eventLimit(ms *multiScenario, insts []inst) int64 {
	worst := 0
	for _, in := range insts {
		if v := in.Cfg.RowMiss + in.Cfg.Depth*in.Cfg.StageLat; v > worst {
			worst = v
		}
	}
	return int64(len(ms.Ops))*int64(4000+40*worst) + 200000
}

func runMulti(rec vlib.Recorder, ms multiScenario) {
	rec.Eval()
	cnt := map[string]int64{} // flushed at the end (one lock per counter instead of one per byte)
	defer func() {
		for k, v := range cnt {
			rec.Count(k, v)
		}
	}()
	insts, cov := interpret(ms.Steps)
	n := len(insts)
	wit := func(extra map[string]any) map[string]any {
		m := map[string]any{"multi": ms, "instances": insts}
		for k, v := range extra {
			m[k] = v
		}
		return m
	}
	report := func(v *viol) { rec.Violation(v.key, ms.Shape+"/"+ms.Name+": "+v.what, wit(v.extra)) }

	w := newWorld()
	comps, pv := w.buildAll(ms.Steps)
	if pv != nil || len(comps) != n {
		report(&viol{"C17|builder-reuse|build-panicked", fmt.Sprintf("a valid builder program panicked: %v", pv), nil})
		return
	}

	// ---- run ----
	idToO := map[string]int{}
	reqs := make([]*simkit.Requester, n)
	for i := range insts {
		e := insts[i].Cfg.Engine
		top := comps[i].GetPortByName("Top")
		reqs[i] = wire(&ms, i, w.engines[e], top, idToO)
		w.logs[e].Attach(top, strconv.Itoa(i))
	}
	var liveness *viol
	for e := range w.engines {
		nEv, livelock, pv := simkit.RunBounded(w.engines[e], eventLimit(&ms, insts))
		cnt["engine_events"] += nEv
		if pv != nil && liveness == nil {
			liveness = &viol{"C17|crash|multi", fmt.Sprintf("memory model panicked on a valid request stream: %v", pv), nil}
		}
		if livelock && liveness == nil {
			liveness = &viol{"C17|no-termination|multi", "engine exceeded the event bound (requests never all answered)", nil}
		}
	}

	// ---- what Build returned vs what was asked for ----
	readback := readbacks(w, insts, comps)

	// ---- gather the port logs ----
	var arrivals []marr
	rsps := map[string][]sim.Msg{}
	var evs [2][]simkit.Event
	for e := range w.logs {
		evs[e] = w.logs[e].Snapshot()
		for _, ev := range evs[e] {
			i, _ := strconv.Atoi(ev.Port)
			switch ev.Kind {
			case simkit.KRecv:
				if ar, ok := ev.Msg.(mem.AccessReq); ok {
					arrivals = append(arrivals, marr{eng: e, seq: ev.Seq, time: ev.Time, inst: i, req: ar, opIdx: idToO[ar.Meta().ID]})
				}
			case simkit.KSend:
				if r, ok := ev.Msg.(sim.Rsp); ok {
					rsps[r.GetRspTo()] = append(rsps[r.GetRspTo()], ev.Msg)
				}
			}
		}
	}
	cnt["requests_arrived"] += int64(len(arrivals))
	if liveness == nil {
		done := true
		for _, r := range reqs {
			done = done && r.Done()
		}
		if len(arrivals) != len(ms.Ops) || !done {
			liveness = &viol{"C17|request-not-accepted|multi",
				fmt.Sprintf("engines went idle with %d of %d requests delivered", len(arrivals), len(ms.Ops)), nil}
		}
	}
	if liveness == nil {
		got := map[string]int{}
		for _, r := range reqs {
			for _, g := range r.Got {
				if rs, ok := g.Msg.(sim.Rsp); ok {
					got[rs.GetRspTo()]++
				}
			}
		}
		for _, a := range arrivals {
			id := a.req.Meta().ID
			if k := len(rsps[id]); k != 1 {
				liveness = &viol{fmt.Sprintf("C17|responses-sent=%d|multi", k),
					fmt.Sprintf("op %d on instance %d got %d responses at the Top port", a.opIdx, a.inst, k), map[string]any{"op": a.opIdx}}
				break
			}
			if got[id] != 1 {
				liveness = &viol{fmt.Sprintf("C17|responses-delivered=%d|multi", got[id]),
					fmt.Sprintf("requester received %d responses for op %d", got[id], a.opIdx), map[string]any{"op": a.opIdx}}
				break
			}
		}
	}
	if liveness != nil {
		// a wrong engine / name / converter explains it more precisely
		if len(readback) > 0 {
			report(readback[0])
			return
		}
		report(liveness)
		return
	}
	cnt["responses_checked"] += int64(len(arrivals))

	// ---- storage groups ----
	gid := make([]string, n)
	members := map[string][]int{}
	gStorage := map[string]*mem.Storage{}
	for i, in := range insts {
		c := in.Cfg
		if c.Storage >= 0 && (!c.Ambig || comps[i].Storage == w.storages[c.Storage]) {
			gid[i] = "S" + strconv.Itoa(c.Storage)
			gStorage[gid[i]] = w.storages[c.Storage]
		} else {
			gid[i] = "I" + strconv.Itoa(i)
			gStorage[gid[i]] = comps[i].Storage
		}
		members[gid[i]] = append(members[gid[i]], i)
		if c.Ambig {
			cnt["mi_storage_then_newstorage_instances"] += 1
			rec.Distinct("storage_then_newstorage_resolves_to", gid[i][:1])
		}
	}

	// arrivals of two instances of one shared group at the same storage line
	// within two component cycles of each other have no defined order
	// (each component applies a request at its own next tick): not judged
	sort.SliceStable(arrivals, func(a, b int) bool {
		if arrivals[a].eng != arrivals[b].eng {
			return arrivals[a].eng < arrivals[b].eng
		}
		return arrivals[a].seq < arrivals[b].seq
	})
	sAddr := make([]uint64, len(arrivals))
	for ai, a := range arrivals {
		sa, ok := insts[a.inst].Cfg.storageAddr(a.req.GetAddress())
		if !ok {
			report(&viol{"C17|harness|foreign-address", "harness generated an address that does not belong to the instance", map[string]any{"op": a.opIdx}})
			return
		}
		sAddr[ai] = sa
	}
	ambiguous := make([]bool, len(arrivals))
	type lk struct {
		g    string
		line uint64
	}
	byLine := map[lk][]int{}
	for ai, a := range arrivals {
		if len(members[gid[a.inst]]) > 1 {
			k := lk{gid[a.inst], sAddr[ai] >> 6}
			byLine[k] = append(byLine[k], ai)
		}
	}
	for _, l := range byLine {
		for x := 0; x < len(l); x++ {
			for y := x + 1; y < len(l); y++ {
				a, b := arrivals[l[x]], arrivals[l[y]]
				if a.inst == b.inst || a.eng != b.eng {
					continue
				}
				_, aw := a.req.(*mem.WriteReq)
				_, bw := b.req.(*mem.WriteReq)
				if !aw && !bw {
					continue
				}
				win := 2*math.Max(insts[a.inst].Cfg.period(), insts[b.inst].Cfg.period()) + 1e-12
				if math.Abs(float64(a.time-b.time)) <= win {
					ambiguous[l[x]], ambiguous[l[y]] = true, true
				}
			}
		}
	}

	// ---- replay on the flat models ----
	type wr struct{ ai, inst int }
	model := map[string]map[uint64]byte{}
	lastW := map[string]map[uint64]wr{}
	tainted := map[string]map[uint64]bool{}
	ever := map[string]map[uint64][]byte{} // every value a group ever wrote to a byte
	for g := range members {
		model[g], lastW[g], tainted[g], ever[g] = map[uint64]byte{}, map[uint64]wr{}, map[uint64]bool{}, map[uint64][]byte{}
	}
	// lines touched per instance (storage address space), for the counters
	touched := map[uint64]map[int]bool{}
	var discr, sharedCross int64
	cnt["mi_scenarios"] += 1
	cnt["mi_instances"] += int64(n)
	rec.Distinct("mi_shape", ms.Shape)
	for ai, a := range arrivals {
		g := gid[a.inst]
		sa := sAddr[ai]
		line := sa >> 6
		if touched[line] == nil {
			touched[line] = map[int]bool{}
		}
		for j := range touched[line] {
			if j != a.inst {
				cnt["mi_same_addr_other_instance_accesses"] += 1
				break
			}
		}
		touched[line][a.inst] = true
		switch r := a.req.(type) {
		case *mem.WriteReq:
			cnt["writes"] += 1
			if r.DirtyMask != nil {
				cnt["masked_writes"] += 1
				cnt["mi_masked_writes"] += 1
			}
			if ambiguous[ai] {
				cnt["mi_unordered_cross_instance_accesses"] += 1
			}
			for j := range r.Data {
				if r.DirtyMask == nil || r.DirtyMask[j] {
					ad := sa + uint64(j)
					model[g][ad] = r.Data[j]
					lastW[g][ad] = wr{ai, a.inst}
					tainted[g][ad] = ambiguous[ai]
					ever[g][ad] = append(ever[g][ad], r.Data[j])
				}
			}
		case *mem.ReadReq:
			cnt["reads"] += 1
			rsp, ok := rsps[r.ID][0].(*mem.DataReadyRsp)
			if !ok {
				report(&viol{"C17|wrong-response-type|multi", "read answered by a non-data response", map[string]any{"op": a.opIdx}})
				return
			}
			if uint64(len(rsp.Data)) != r.AccessByteSize {
				report(&viol{"C17|read-size|multi", fmt.Sprintf("read of %d bytes answered with %d bytes", r.AccessByteSize, len(rsp.Data)), map[string]any{"op": a.opIdx}})
				return
			}
			if ambiguous[ai] {
				cnt["mi_unordered_cross_instance_accesses"] += 1
				continue
			}
			for j := uint64(0); j < r.AccessByteSize; j++ {
				ad := sa + j
				if tainted[g][ad] {
					continue
				}
				want := model[g][ad]
				lw, written := lastW[g][ad]
				if written {
					cnt["read_bytes_after_write"] += 1
					if lw.inst != a.inst {
						cnt["mi_shared_cross_instance_read_bytes"] += 1
						sharedCross++
					}
				} else {
					cnt["mi_never_written_read_bytes"] += 1
				}
				// does another storage group hold something else at this address?
				sibling, sibHolds := -1, false
				for g2, m2 := range model {
					if g2 == g {
						continue
					}
					if v2, ok := m2[ad]; ok && v2 != want {
						sibHolds = true
						if v2 == rsp.Data[j] {
							sibling = lastW[g2][ad].inst
						}
					}
				}
				if sibling < 0 && rsp.Data[j] != want { // an older value of a sibling (several components on one store)
					for g2 := range model {
						if g2 != g && bytes.IndexByte(ever[g2][ad], rsp.Data[j]) >= 0 {
							sibling = lastW[g2][ad].inst
						}
					}
				}
				if sibHolds {
					cnt["mi_discriminating_read_bytes"] += 1
					discr++
					if !written {
						cnt["mi_never_written_sibling_written_read_bytes"] += 1
					}
				}
				if rsp.Data[j] == want {
					continue
				}
				v := &viol{key: "C17|stale-or-wrong-read|multi", extra: map[string]any{"op": a.opIdx, "byte": j, "instance": a.inst}}
				v.what = fmt.Sprintf("op %d on instance %d (%s): read of 0x%x byte %d returned 0x%02x, the instance's own flat model gives 0x%02x",
					a.opIdx, a.inst, insts[a.inst].Name, a.req.GetAddress(), j, rsp.Data[j], want)
				switch {
				case sibling >= 0 && !written:
					v.key = "C17|multi-instance|read-returns-sibling-data"
					v.what += fmt.Sprintf(" (these bytes were never written on this instance; 0x%02x is what instance %d (%s), which must have its own storage, holds at the same local address)",
						rsp.Data[j], sibling, insts[sibling].Name)
				case sibling >= 0:
					v.key = "C17|multi-instance|write-visible-in-sibling"
					v.what += fmt.Sprintf(" (0x%02x is what a write on instance %d (%s), which must have its own storage, put at the same local address)",
						rsp.Data[j], sibling, insts[sibling].Name)
				case len(members[g]) > 1:
					v.key = "C17|multi-instance|explicitly-shared-storage-not-one-array"
					v.what += " (the instances of this group were all given the same storage with WithStorage)"
				}
				report(v)
				return
			}
		}
	}

	// ---- readbacks ----
	if len(readback) > 0 {
		report(readback[0])
		return
	}

	// ---- final storage ----
	var finalBytes int64
	for g, m := range model {
		st := gStorage[g]
		i0 := members[g][0]
		for ad, v := range m {
			if tainted[g][ad] {
				continue
			}
			d, err := st.Read(ad, 1)
			if err != nil || d[0] != v {
				vi := &viol{key: "C17|final-storage|multi", extra: map[string]any{"storage_addr": ad, "group": g}}
				got := byte(0)
				if err == nil {
					got = d[0]
				}
				vi.what = fmt.Sprintf("final storage of %s (instance %d) byte 0x%x = 0x%02x (err %v), model 0x%02x", g, i0, ad, got, err, v)
				for g2, m2 := range model {
					if v2, ok := m2[ad]; ok && g2 != g && v2 == got && err == nil {
						vi.key = "C17|multi-instance|write-visible-in-sibling"
						vi.what += fmt.Sprintf(" (0x%02x is what group %s holds at that address)", got, g2)
					}
				}
				report(vi)
				return
			}
			finalBytes++
		}
		// what only siblings wrote must still be zero here
		for g2, m2 := range model {
			if g2 == g {
				continue
			}
			for ad, v2 := range m2 {
				if _, own := m[ad]; own || ad >= st.Capacity {
					continue
				}
				d, err := st.Read(ad, 1)
				if err == nil && d[0] != 0 {
					report(&viol{"C17|multi-instance|write-visible-in-sibling",
						fmt.Sprintf("final storage of %s (instance %d) byte 0x%x = 0x%02x although nothing was ever written there through its instances; group %s wrote 0x%02x there",
							g, i0, ad, d[0], g2, v2), map[string]any{"storage_addr": ad, "group": g}})
					return
				}
				finalBytes++
			}
		}
	}
	cnt["final_bytes_compared"] += finalBytes

	// ---- private storages are distinct objects ----
	for i := 0; i < n; i++ {
		for j := i + 1; j < n; j++ {
			if gid[i] != gid[j] && comps[i].Storage == comps[j].Storage {
				report(&viol{"C17|multi-instance|storage-object-shared",
					fmt.Sprintf("instances %d (%s) and %d (%s) use the same Storage object although they were not given a common storage", i, insts[i].Name, j, insts[j].Name), nil})
				return
			}
		}
		if gid[i][0] == 'I' {
			for s, st := range w.storages {
				if comps[i].Storage == st && !(insts[i].Cfg.Ambig && insts[i].Cfg.Storage == s) {
					report(&viol{"C17|multi-instance|storage-object-shared",
						fmt.Sprintf("instance %d (%s) uses explicit storage %d that its builder value was not given", i, insts[i].Name, s), nil})
					return
				}
			}
		}
	}

	// ---- custom bank selectors: consulted by exactly the instances built with them ----
	nReq := make([]int64, n)
	for _, a := range arrivals {
		nReq[a.inst]++
	}
	for idx, s := range w.sels {
		var expect int64
		for i, in := range insts {
			if in.Cfg.Sel != nil && in.Cfg.SelStep == idx {
				expect += nReq[i]
			}
		}
		if (expect == 0) != (s.calls == 0) || s.calls < expect {
			report(&viol{"C17|builder-reuse|bank-selector-of-other-build",
				fmt.Sprintf("the bank selector passed in step %d was consulted %d times; the instances built with it received %d requests", idx, s.calls, expect),
				map[string]any{"step": idx}})
			return
		}
		cnt["mi_selector_objects_checked"] += 1
	}

	// ---- solo twins: same timing as when built alone from a fresh chain ----
	for i := range insts {
		if nReq[i] == 0 {
			continue
		}
		label := strconv.Itoa(i)
		mt := timings(&ms, evs[insts[i].Cfg.Engine], label, reqs[i], idToO)
		te := sim.NewSerialEngine()
		var twin *simplebankedmemory.Comp
		func() {
			defer func() {
				if r := recover(); r != nil {
					twin = nil
				}
			}()
			twin = buildTwin(insts[i].Cfg, te, insts[i].Name)
		}()
		if twin == nil {
			report(&viol{"C17|builder-reuse|fresh-build-panicked", fmt.Sprintf("building instance %d alone from a fresh chain panicked", i), map[string]any{"instance": i}})
			return
		}
		tIDs := map[string]int{}
		treq := wire(&ms, i, te, twin.GetPortByName("Top"), tIDs)
		tlog := simkit.NewLog(te, 1*sim.GHz)
		tlog.Attach(twin.GetPortByName("Top"), label)
		_, ll, tpv := simkit.RunBounded(te, eventLimit(&ms, insts))
		if ll || tpv != nil {
			report(&viol{"C17|builder-reuse|differs-from-fresh-build|liveness",
				fmt.Sprintf("instance %d built alone from a fresh chain does not finish the stream (livelock=%v panic=%v) although it did inside the scenario", i, ll, tpv), map[string]any{"instance": i}})
			return
		}
		tt := timings(&ms, tlog.Snapshot(), label, treq, tIDs)
		for oi := range ms.Ops {
			if ms.Ops[oi].Inst != i {
				continue
			}
			if mt[oi] != tt[oi] {
				report(&viol{"C17|builder-reuse|differs-from-fresh-build|timing",
					fmt.Sprintf("instance %d (%s): op %d arrives / is answered / is received at %v ps inside the scenario but at %v ps when the same configuration is built alone from a fresh builder chain and fed the same stream",
						i, insts[i].Name, oi, mt[oi], tt[oi]), map[string]any{"instance": i, "op": oi}})
				return
			}
			cnt["mi_twin_ops_compared"] += 1
		}
	}

	// ---- coverage ----
	for k := range cov.orderPairs {
		rec.Distinct("mi_opt_order", k)
	}
	for k := range cov.afterBuild {
		rec.Distinct("mi_opt_changed_after_build", k)
	}
	for k := range cov.twice {
		rec.Distinct("mi_opt_set_twice", k)
	}
	for _, in := range insts {
		c := *in.Cfg
		c.Set, c.hist, c.afterBuild, c.builds, c.SelStep, c.AddrConvStep, c.BankConvStep = nil, nil, nil, 0, 0, 0, 0
		j, _ := json.Marshal(c)
		rec.Distinct("mi_instance_config", string(j))
	}
	if discr > 0 || sharedCross > 0 {
		rec.Nontrivial("mi:" + ms.Name)
		cnt["mi_nontrivial_scenarios"] += 1
	}
	rec.Sample(map[string]any{"name": ms.Name, "shape": ms.Shape, "instances": n, "steps": len(ms.Steps), "ops": len(ms.Ops)})
}

// sameConverter: the object that was passed, or a copy of it.
func sameConverter(got, want mem.AddressConverter, spec *convSpec) bool {
	if got == want {
		return true
	}
	g, ok := got.(*mem.InterleavingConverter)
	return ok && g != nil && spec != nil && *g == *spec.object()
}

func readbacks(w *world, insts []inst, comps []*simplebankedmemory.Comp) []*viol {
	var out []*viol
	add := func(key, what string, i int) {
		out = append(out, &viol{key, what, map[string]any{"instance": i}})
	}
	for i, in := range insts {
		c, cfg := comps[i], in.Cfg
		if c.Name() != in.Name || c.GetPortByName("Top").Name() != in.Name+".TopPort" {
			add("C17|builder-reuse|name-of-other-build", fmt.Sprintf("Build(%q) returned a component named %q with Top port %q", in.Name, c.Name(), c.GetPortByName("Top").Name()), i)
		}
		if c.Engine != w.engines[cfg.Engine] {
			add("C17|builder-reuse|engine-of-other-build", fmt.Sprintf("instance %d (%s) runs on another engine than its builder value was given", i, in.Name), i)
		}
		if cfg.Set[oFreq] && c.Freq != sim.Freq(cfg.FreqMHz)*sim.MHz {
			add("C17|builder-reuse|freq-of-other-build", fmt.Sprintf("instance %d (%s) has frequency %v, its builder value was given %d MHz", i, in.Name, c.Freq, cfg.FreqMHz), i)
		}
		var wantA, wantB mem.AddressConverter
		if cfg.AddrConv != nil {
			wantA = w.convs[cfg.AddrConvStep]
		}
		if cfg.BankConv != nil {
			wantB = w.convs[cfg.BankConvStep]
		}
		if !sameConverter(c.AddressConverter, wantA, cfg.AddrConv) {
			add("C17|builder-reuse|address-converter-of-other-build", fmt.Sprintf("instance %d (%s): AddressConverter is %+v, its builder value was given %+v", i, in.Name, c.AddressConverter, cfg.AddrConv), i)
		}
		if !sameConverter(c.BankAddressConverter, wantB, cfg.BankConv) {
			add("C17|builder-reuse|bank-address-converter-of-other-build", fmt.Sprintf("instance %d (%s): BankAddressConverter is %+v, its builder value was given %+v", i, in.Name, c.BankAddressConverter, cfg.BankConv), i)
		}
		if cfg.Storage >= 0 && !cfg.Ambig && c.Storage != w.storages[cfg.Storage] {
			add("C17|multi-instance|explicit-storage-not-used", fmt.Sprintf("instance %d (%s) does not use the storage passed with WithStorage", i, in.Name), i)
		}
	}
	var idxs []int
	for idx := range w.convs {
		idxs = append(idxs, idx)
	}
	sort.Ints(idxs)
	for _, idx := range idxs {
		o := w.convs[idx]
		if *o != *w.convSpec[idx].object() {
			out = append(out, &viol{"C17|builder-reuse|converter-mutated-by-build",
				fmt.Sprintf("the address converter passed in step %d was %+v and is now %+v", idx, w.convSpec[idx], *o), map[string]any{"step": idx}})
		}
	}
	return out
}
