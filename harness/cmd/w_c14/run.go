package main

import (
	"fmt"
	"strings"

	"github.com/sarchlab/akita/v4/mem/mem"
	"github.com/sarchlab/akita/v4/mem/vm"
	"github.com/sarchlab/akita/v4/sim"
	"github.com/sarchlab/akita/v4/tracing"
	"github.com/sarchlab/mgpusim/v4/amd/emu"
	"github.com/sarchlab/mgpusim/v4/amd/emu/cdna3"
	"github.com/sarchlab/mgpusim/v4/amd/insts"
	"github.com/sarchlab/mgpusim/v4/amd/kernels"
	"github.com/sarchlab/mgpusim/v4/amd/protocol"
	"github.com/sarchlab/mgpusim/v4/amd/timing/cu"
	"github.com/sarchlab/mgpusim/v4/amd/timing/rob"

	"verifharness/vlib"
	"verifharness/vlib/simkit"
)

type envConfig struct {
	Scoreboard bool       `json:"scoreboard"`
	ROB        bool       `json:"reorder_buffers"`
	Inst       memProfile `json:"inst_mem"`
	Scalar     memProfile `json:"scalar_mem"`
	Vector     memProfile `json:"vector_mem"`
	Disp       dispConfig `json:"dispatcher"`
	Seed       uint64     `json:"seed"`
}

type scenario struct {
	Name   string     `json:"name"`
	Kernel kernelSpec `json:"kernel"`
	Env    envConfig  `json:"env"`
}

func packetFor(k kernelSpec) *kernels.HsaKernelDispatchPacket {
	return &kernels.HsaKernelDispatchPacket{
		WorkgroupSizeX: uint16(k.wgSize()), WorkgroupSizeY: 1, WorkgroupSizeZ: 1,
		GridSizeX: uint32(k.total()), GridSizeY: 1, GridSizeZ: 1,
		GroupSegmentSize: uint32(k.ldsBytes()),
		KernelObject:     addrCode, KernargAddress: addrKernarg,
	}
}

// sentCompletion is a WGCompletionMsg seen leaving the compute unit.
type sentCompletion struct {
	cycle int64
	rspTo []string
}

type runOutcome struct {
	events   int64
	livelock bool
	panicVal any
	store    []byte
	disp     *fakeDisp
	rec      *recorder
	sent     []sentCompletion
	rspAt    map[string]int64 // request id -> cycle the CU retrieved its response
	mems     [3]*fakeMem
	endCycle int64
}

func connectMem(engine sim.Engine, freq sim.Freq, name string, cuPort sim.Port, m *fakeMem, useROB bool) sim.Port {
	if !useROB {
		simkit.Connect(engine, freq, "Conn"+name, cuPort, m.port)
		return m.port
	}
	r := rob.MakeBuilder().WithEngine(engine).WithFreq(freq).WithBufferSize(128).WithNumReqPerCycle(4).
		WithBottomUnit(m.port.AsRemote()).Build("ROB" + name)
	simkit.Connect(engine, freq, "ConnTop"+name, cuPort, r.GetPortByName("Top"))
	simkit.Connect(engine, freq, "ConnBot"+name, r.GetPortByName("Bottom"), m.port)
	return r.GetPortByName("Top")
}

func runTiming(sc scenario, bk *builtKernel, d kernelData, l layout) *runOutcome {
	engine := sim.NewSerialEngine()
	freq := 1 * sim.GHz
	out := &runOutcome{rspAt: map[string]int64{}}
	out.store = initialImage(bk, d, l)
	bld := cu.MakeBuilder().WithEngine(engine).WithFreq(freq).WithRegisterScoreboard(sc.Env.Scoreboard)
	if sc.Kernel.cdna3() {
		// as timingconfig/mi300a builds its compute units: CDNA3 ALU, CDNA3 decoding, register scoreboard
		bld = bld.WithALUFactory(func(sa emu.StorageAccessor) emu.ALU { return cdna3.NewALU(sa) }).WithCDNA3Decoding(true).WithRegisterScoreboard(true)
	}
	c := bld.Build("CU")
	base := vlib.NewPRNG(sc.Env.Seed)
	profs := [3]memProfile{sc.Env.Inst, sc.Env.Scalar, sc.Env.Vector}
	names := [3]string{"I", "S", "V"}
	cuPorts := [3]sim.Port{c.ToInstMem, c.ToScalarMem, c.ToVectorMem}
	var tops [3]sim.Port
	for i := range profs {
		p := profs[i]
		if !sc.Env.ROB {
			p.Reorder = false // the compute unit relies on in-order responses per port
		}
		out.mems[i] = newFakeMem("Mem"+names[i], engine, freq, p, out.store, base.ForkN("mem", i))
		tops[i] = connectMem(engine, freq, names[i], cuPorts[i], out.mems[i], sc.Env.ROB)
	}
	c.InstMem = tops[0]
	c.ScalarMem = tops[1]
	c.VectorMemModules = &mem.SinglePortMapper{Port: tops[2].AsRemote()}

	disp := newFakeDisp(engine, freq, sc.Env.Disp, base.Fork("disp"), newCUAlloc(false))
	disp.cu = c.ToACE.AsRemote()
	wgs := bk.Spec.wgSize()
	disp.snap = func(w *wgRec) []uint32 {
		off := l.B + 4*uint64(w.wg.IDX*wgs)
		return bytesU32(append([]byte(nil), out.store[off:off+4*uint64(wgs)]...))
	}
	disp.setGrid(bk.CO, packetFor(bk.Spec), addrPacket)
	simkit.Connect(engine, freq, "ConnACE", c.ToACE, disp.port)
	out.disp = disp

	out.rec = newRecorder(engine, freq, addrCode)
	tracing.CollectTrace(c, out.rec)
	log := simkit.NewLog(engine, freq)
	log.OnEvent = func(e simkit.Event) {
		switch e.Kind {
		case simkit.KSend:
			if m, ok := e.Msg.(*protocol.WGCompletionMsg); ok && e.Port == "ToACE" {
				out.sent = append(out.sent, sentCompletion{cycle: e.Cycle, rspTo: append([]string(nil), m.RspTo...)})
			}
		case simkit.KRetrieve:
			if r, ok := e.Msg.(mem.AccessRsp); ok && (e.Port == "ToScalarMem" || e.Port == "ToVectorMem") {
				out.rspAt[r.GetRspTo()] = e.Cycle
			}
		}
	}
	log.Attach(c.ToACE, "ToACE")
	log.Attach(c.ToScalarMem, "ToScalarMem")
	log.Attach(c.ToVectorMem, "ToVectorMem")
	// the log keeps every event; only the callback is used here
	disp.TickLater()
	out.events, out.livelock, out.panicVal = simkit.RunBounded(engine, eventLimit(sc))
	out.endCycle = simkit.Cycle(engine.CurrentTime(), freq)
	return out
}

// eventLimit is the livelock bound: more than ten times the largest run of the
// thorough tier (864 090 events at seed 1).
func eventLimit(sc scenario) int64 { return 10_000_000 }

// ---------------------------------------------------------------------------
// emulation reference: the same code object, the same fake dispatcher, the
// real emulation compute unit on a flat storage with an identity page table.

type emuOutcome struct {
	panicVal any
	livelock bool
	store    *mem.Storage
	disp     *fakeDisp
	groups   []*groupRec
	B, C     []uint32
}

type emuHook struct {
	seq    int64
	waves  map[string]*waveRec
	groups map[*kernels.WorkGroup]*groupRec
	order  []*groupRec
}

func (h *emuHook) Func(ctx sim.HookCtx) {
	wf, ok := ctx.Item.(*emu.Wavefront)
	if !ok {
		return
	}
	in, ok := ctx.Detail.(*insts.Inst)
	if !ok {
		return
	}
	h.seq++
	w := h.waves[wf.UID]
	if w == nil {
		gr := h.groups[wf.WG]
		if gr == nil {
			gr = &groupRec{ID: [3]int{wf.WG.IDX, wf.WG.IDY, wf.WG.IDZ}, Waves: map[int]*waveRec{}}
			h.groups[wf.WG] = gr
			h.order = append(h.order, gr)
		}
		w = &waveRec{UID: wf.UID, Group: gr, Index: wf.FirstWiFlatID / 64}
		gr.Waves[w.Index] = w
		h.waves[wf.UID] = w
	}
	pc := wf.PC() - uint64(in.ByteSize) // the hook runs after the PC moved on
	ir := &instRec{Wave: w, PC: pc, Off: int(pc - addrCode), Inst: in, Class: classify(in), Seq: len(w.Insts), Start: h.seq,
		Ends: []int64{h.seq}, TrueEnd: h.seq}
	w.Insts = append(w.Insts, ir)
}

func runEmu(sc scenario, bk *builtKernel, d kernelData, l layout) *emuOutcome {
	engine := sim.NewSerialEngine()
	freq := 1 * sim.GHz
	out := &emuOutcome{}
	out.store = mem.NewStorage(uint64(align(l.End, 1<<12)) + 1<<12)
	img := initialImage(bk, d, l)
	if err := out.store.Write(0, img); err != nil {
		out.panicVal = err
		return out
	}
	pt := vm.NewPageTable(12)
	for a := uint64(0); a < l.End+4096; a += 4096 {
		pt.Insert(vm.Page{PID: 1, VAddr: a, PAddr: a, PageSize: 4096, Valid: true})
	}
	dis := insts.NewDisassembler()
	dis.IsCDNA3 = sc.Kernel.cdna3()
	c := emu.BuildComputeUnitWithALU("EmuCU", engine, dis, pt, 12, out.store, nil, func(sa emu.StorageAccessor) emu.ALU {
		if sc.Kernel.cdna3() {
			return cdna3.NewALU(sa)
		}
		return emu.NewALU(sa)
	}, sc.Kernel.cdna3())
	h := &emuHook{waves: map[string]*waveRec{}, groups: map[*kernels.WorkGroup]*groupRec{}}
	c.AcceptHook(h)
	dc := sc.Env.Disp
	dc.InBuf = 4
	disp := newFakeDisp(engine, freq, dc, vlib.NewPRNG(sc.Env.Seed).Fork("emudisp"), newCUAlloc(true))
	disp.cu = c.ToDispatcher.AsRemote()
	disp.setGrid(bk.CO, packetFor(bk.Spec), addrPacket)
	simkit.Connect(engine, freq, "ConnEmu", c.ToDispatcher, disp.port)
	out.disp = disp
	disp.TickLater()
	_, out.livelock, out.panicVal = simkit.RunBounded(engine, 5_000_000)
	out.groups = h.order
	if b, err := out.store.Read(l.B, 4*uint64(bk.Spec.lenB())); err == nil {
		out.B = bytesU32(b)
	}
	if b, err := out.store.Read(l.C, 4*uint64(bk.Spec.lenC())); err == nil {
		out.C = bytesU32(b)
	}
	return out
}

func sanitize(v any) string {
	s := fmt.Sprint(v)
	s = strings.Map(func(r rune) rune {
		if r >= '0' && r <= '9' {
			return -1
		}
		if r == '|' || r == '\n' {
			return ' '
		}
		return r
	}, s)
	if len(s) > 70 {
		s = s[:70]
	}
	return strings.TrimSpace(s)
}
