package main

import (
	"fmt"

	"github.com/sarchlab/akita/v4/mem/mem"
	"github.com/sarchlab/akita/v4/sim"
	"github.com/sarchlab/akita/v4/tracing"
	"github.com/sarchlab/mgpusim/v4/amd/insts"
	"github.com/sarchlab/mgpusim/v4/amd/kernels"
	"github.com/sarchlab/mgpusim/v4/amd/protocol"
	"github.com/sarchlab/mgpusim/v4/amd/timing/wavefront"

	"verifharness/vlib"
	"verifharness/vlib/simkit"
)

// ---------------------------------------------------------------------------
// flat storage (virtual = physical)

const (
	addrCode    = 0x1000
	addrKernarg = 0x8000
	addrPacket  = 0x9000
	addrA       = 0x10000
)

type layout struct {
	A, B, C, T uint64
	End        uint64
}

func align(x, a uint64) uint64 { return (x + a - 1) / a * a }

func layoutFor(k kernelSpec) layout {
	var l layout
	l.A = addrA
	l.B = align(l.A+4*uint64(k.lenA()), 4096)
	l.C = align(l.B+4*uint64(k.lenB()), 4096)
	l.T = align(l.C+4*uint64(k.lenC()), 4096)
	l.End = align(l.T+4*uint64(k.lenT()), 4096) + 4096
	return l
}

func initialImage(bk *builtKernel, d kernelData, l layout) []byte {
	img := make([]byte, l.End)
	copy(img[addrCode:], bk.Code)
	karg := make([]uint32, 8)
	for i, p := range []uint64{l.A, l.B, l.C, l.T} {
		karg[2*i] = uint32(p)
		karg[2*i+1] = uint32(p >> 32)
	}
	copy(img[addrKernarg:], u32Bytes(karg))
	copy(img[l.A:], u32Bytes(d.A))
	fill := make([]uint32, bk.Spec.lenB())
	for i := range fill {
		fill[i] = bFill
	}
	copy(img[l.B:], u32Bytes(fill))
	copy(img[l.C:], u32Bytes(d.C))
	copy(img[l.T:], u32Bytes(d.T))
	return img
}

// ---------------------------------------------------------------------------
// fake memory: serves one flat byte array shared by the three memory ports.
// A request takes effect (is linearised) when the memory takes it from its
// port; the response leaves after a PRNG latency. In FIFO mode responses leave
// in arrival order (what the CU gets from the reorder buffers of the shipped
// shader array); in reorder mode any ready response may leave first (only used
// behind a real reorder buffer).

type memProfile struct {
	Name         string `json:"name"`
	LatLo        int    `json:"lat_lo"`
	LatHi        int    `json:"lat_hi"`
	StragglerPct int    `json:"straggler_pct"`
	BigLo        int    `json:"big_lo"`
	BigHi        int    `json:"big_hi"`
	TakePerCycle int    `json:"take_per_cycle"`
	TakeStallPct int    `json:"take_stall_pct"`
	SendPerCycle int    `json:"send_per_cycle"`
	SendStallPct int    `json:"send_stall_pct"`
	InBuf        int    `json:"in_buf"`
	OutBuf       int    `json:"out_buf"`
	Reorder      bool   `json:"reorder"`
	// SplitSkew (scalar memory): the pieces of a scalar load that the scalar
	// unit split at a 64-byte line get clearly different latencies.
	// 1 = piece ending at a line boundary fast, piece starting at one slow;
	// 2 = the reverse.
	SplitSkew int `json:"split_skew,omitempty"`
}

type pendRsp struct {
	rsp   sim.Msg
	ready int64
}

type fakeMem struct {
	*simkit.Agent
	port    sim.Port
	prof    memProfile
	rng     *vlib.PRNG
	store   []byte
	pending []*pendRsp
	reads   int
	writes  int
	maxLat  int
	bad     string // protocol problem seen by the memory (unknown message)
}

func newFakeMem(name string, engine sim.Engine, freq sim.Freq, prof memProfile, store []byte, rng *vlib.PRNG) *fakeMem {
	if prof.InBuf < 1 {
		prof.InBuf = 4
	}
	if prof.OutBuf < 1 {
		prof.OutBuf = 4
	}
	m := &fakeMem{prof: prof, rng: rng, store: store}
	m.Agent = simkit.NewAgent(name, engine, freq)
	m.port = m.Agent.NewPort("Top", prof.InBuf, prof.OutBuf)
	m.Agent.TickFn = m.tick
	return m
}

func (m *fakeMem) latency() int {
	p := m.prof
	l := p.LatLo + m.rng.Intn(max(1, p.LatHi-p.LatLo+1))
	if p.StragglerPct > 0 && m.rng.Intn(100) < p.StragglerPct {
		l = p.BigLo + m.rng.Intn(max(1, p.BigHi-p.BigLo+1))
	}
	if l > m.maxLat {
		m.maxLat = l
	}
	return l
}

// latencyFor applies the split skew to reads shorter than a line.
func (m *fakeMem) latencyFor(req sim.Msg) int {
	l := m.latency()
	q, ok := req.(*mem.ReadReq)
	if !ok || m.prof.SplitSkew == 0 || q.AccessByteSize >= 64 {
		return l
	}
	endsAtLine := (q.Address+q.AccessByteSize)%64 == 0 && q.Address%64 != 0
	startsAtLine := q.Address%64 == 0
	slow := 250 + m.rng.Intn(500)
	switch {
	case endsAtLine && m.prof.SplitSkew == 1, startsAtLine && m.prof.SplitSkew == 2:
		return 1
	case endsAtLine && m.prof.SplitSkew == 2, startsAtLine && m.prof.SplitSkew == 1:
		return l + slow
	}
	return l
}

func (m *fakeMem) serve(req sim.Msg) sim.Msg {
	switch q := req.(type) {
	case *mem.ReadReq:
		m.reads++
		data := make([]byte, q.AccessByteSize)
		if q.Address < uint64(len(m.store)) {
			copy(data, m.store[q.Address:])
		}
		return mem.DataReadyRspBuilder{}.WithSrc(m.port.AsRemote()).WithDst(q.Src).WithRspTo(q.ID).WithData(data).Build()
	case *mem.WriteReq:
		m.writes++
		for i, b := range q.Data {
			if q.DirtyMask != nil && !q.DirtyMask[i] {
				continue
			}
			if a := q.Address + uint64(i); a < uint64(len(m.store)) {
				m.store[a] = b
			}
		}
		return mem.WriteDoneRspBuilder{}.WithSrc(m.port.AsRemote()).WithDst(q.Src).WithRspTo(q.ID).Build()
	}
	m.bad = fmt.Sprintf("memory %s received %T", m.Name(), req)
	return nil
}

func (m *fakeMem) tick(a *simkit.Agent) bool {
	progress := false
	now := a.NowCycle()
	p := m.prof
	if len(m.pending) > 0 {
		if p.SendStallPct > 0 && m.rng.Intn(100) < p.SendStallPct {
			progress = true
		} else {
			sent := 0
			for (p.SendPerCycle == 0 || sent < p.SendPerCycle) && len(m.pending) > 0 {
				pick := -1
				if p.Reorder {
					var ready []int
					for i, s := range m.pending {
						if s.ready <= now {
							ready = append(ready, i)
						}
					}
					if len(ready) > 0 {
						pick = ready[m.rng.Intn(len(ready))]
					}
				} else if m.pending[0].ready <= now {
					pick = 0
				}
				if pick < 0 {
					break
				}
				if err := m.port.Send(m.pending[pick].rsp); err != nil {
					break
				}
				m.pending = append(m.pending[:pick], m.pending[pick+1:]...)
				sent++
				progress = true
			}
		}
	}
	if m.port.PeekIncoming() != nil {
		if p.TakeStallPct > 0 && m.rng.Intn(100) < p.TakeStallPct {
			progress = true
		} else {
			taken := 0
			for p.TakePerCycle == 0 || taken < p.TakePerCycle {
				q := m.port.RetrieveIncoming()
				if q == nil {
					break
				}
				rsp := m.serve(q)
				if rsp != nil {
					m.pending = append(m.pending, &pendRsp{rsp: rsp, ready: now + int64(m.latencyFor(q))})
				}
				taken++
				progress = true
			}
			if m.port.PeekIncoming() != nil {
				progress = true
			}
		}
	}
	if len(m.pending) > 0 {
		progress = true // time has to pass
	}
	return progress
}

// ---------------------------------------------------------------------------
// resource arithmetic of the command processor's CU resource pool
// (amd/timing/cp/internal/resource): SGPRs in units of 16 registers, VGPRs in
// units of 4 registers per lane, LDS in units of 256 bytes, first fit, SIMDs
// round robin with a persistent cursor, 10 wavefront slots per SIMD.

type firstFit []bool

func (m firstFit) find(n int) (int, bool) {
	if n == 0 {
		return 0, true
	}
	run := 0
	for i := range m {
		if !m[i] {
			run++
			if run == n {
				return i - n + 1, true
			}
		} else {
			run = 0
		}
	}
	return 0, false
}

func (m firstFit) set(off, n int, v bool) {
	for i := off; i < off+n; i++ {
		m[i] = v
	}
}

type cuAlloc struct {
	wfFree    [4]int
	sreg      firstFit
	vreg      [4]firstFit
	lds       firstFit
	nextSIMD  int
	unlimited bool // emulation CU: no limits, every wavefront on "SIMD 0"
}

func newCUAlloc(unlimited bool) *cuAlloc {
	a := &cuAlloc{wfFree: [4]int{10, 10, 10, 10}, sreg: make(firstFit, 3200/16), lds: make(firstFit, 64*1024/256), unlimited: unlimited}
	for i := range a.vreg {
		a.vreg[i] = make(firstFit, 16384/4/64)
	}
	return a
}

func units(amount, gran int) int { return (amount + gran - 1) / gran }

type reservation struct {
	locs             []protocol.WfDispatchLocation
	sU, vU, lU, lOff int
}

func (a *cuAlloc) reserve(wg *kernels.WorkGroup) (*reservation, bool) {
	co := wg.CodeObject
	r := &reservation{sU: units(int(co.WFSgprCount), 16), vU: units(int(co.WIVgprCount), 4), lU: units(int(co.GroupSegmentByteSize), 256)}
	r.locs = make([]protocol.WfDispatchLocation, len(wg.Wavefronts))
	if a.unlimited {
		for i, wf := range wg.Wavefronts {
			r.locs[i] = protocol.WfDispatchLocation{Wavefront: wf}
		}
		return r, true
	}
	undo := func(n int, vdone int) {
		for i := 0; i < n; i++ {
			a.sreg.set(r.locs[i].SGPROffset/64, r.sU, false)
		}
		for i := 0; i < vdone; i++ {
			a.vreg[r.locs[i].SIMDID].set(r.locs[i].VGPROffset/16, r.vU, false)
			a.wfFree[r.locs[i].SIMDID]++
		}
	}
	for i, wf := range wg.Wavefronts {
		r.locs[i].Wavefront = wf
		off, ok := a.sreg.find(r.sU)
		if !ok {
			undo(i, 0)
			return nil, false
		}
		a.sreg.set(off, r.sU, true)
		r.locs[i].SGPROffset = off * 16 * 4
	}
	n := len(wg.Wavefronts)
	loff, ok := a.lds.find(r.lU)
	if !ok {
		undo(n, 0)
		return nil, false
	}
	r.lOff = loff
	for i := range r.locs {
		r.locs[i].LDSOffset = loff * 256
	}
	savedNext := a.nextSIMD
	for i := range wg.Wavefronts {
		first := a.nextSIMD
		firstTry, found := true, false
		for firstTry || a.nextSIMD != first {
			firstTry = false
			off, ok := a.vreg[a.nextSIMD].find(r.vU)
			if ok && a.wfFree[a.nextSIMD] > 0 {
				found = true
				r.locs[i].SIMDID = a.nextSIMD
				r.locs[i].VGPROffset = off * 4 * 4
				a.vreg[a.nextSIMD].set(off, r.vU, true)
				a.wfFree[a.nextSIMD]--
			}
			a.nextSIMD = (a.nextSIMD + 1) % 4
			if found {
				break
			}
		}
		if !found {
			undo(n, i)
			_ = savedNext // the real pool keeps the advanced cursor as well
			return nil, false
		}
	}
	a.lds.set(loff, r.lU, true)
	return r, true
}

func (a *cuAlloc) free(r *reservation) {
	if a.unlimited {
		return
	}
	for _, l := range r.locs {
		a.sreg.set(l.SGPROffset/64, r.sU, false)
		a.vreg[l.SIMDID].set(l.VGPROffset/16, r.vU, false)
		a.wfFree[l.SIMDID]++
	}
	a.lds.set(r.lOff, r.lU, false)
}

// ---------------------------------------------------------------------------
// fake dispatcher

type dispConfig struct {
	GapMax   int `json:"map_gap_max"`          // cycles between two MapWGReq (uniform 0..GapMax)
	StallPct int `json:"completion_stall_pct"` // % of cycles in which completions are not retrieved
	InBuf    int `json:"in_buf"`
}

type wgRec struct {
	idx     int
	wg      *kernels.WorkGroup
	req     *protocol.MapWGReq
	res     *reservation
	sentAt  int64 // -1 = not mapped yet
	doneAt  []int64
	outSnap [][]uint32 // B region of the group at each completion message
}

type fakeDisp struct {
	*simkit.Agent
	port      sim.Port
	cu        sim.RemotePort
	cfg       dispConfig
	rng       *vlib.PRNG
	alloc     *cuAlloc
	wgs       []*wgRec
	byReq     map[string]*wgRec
	next      int
	notBefore int64
	unknown   []string // completion ids that match no MapWGReq
	other     []string // messages that are not WGCompletionMsg
	snap      func(w *wgRec) []uint32
}

func newFakeDisp(engine sim.Engine, freq sim.Freq, cfg dispConfig, rng *vlib.PRNG, alloc *cuAlloc) *fakeDisp {
	if cfg.InBuf < 1 {
		cfg.InBuf = 4
	}
	d := &fakeDisp{cfg: cfg, rng: rng, alloc: alloc, byReq: map[string]*wgRec{}}
	d.Agent = simkit.NewAgent("Disp", engine, freq)
	d.port = d.Agent.NewPort("ToCU", cfg.InBuf, 4)
	d.Agent.TickFn = d.tick
	return d
}

// setGrid builds the work-groups with the real grid builder.
func (d *fakeDisp) setGrid(co *insts.KernelCodeObject, pkt *kernels.HsaKernelDispatchPacket, pktAddr uint64) {
	gb := kernels.NewGridBuilder()
	gb.SetKernel(kernels.KernelLaunchInfo{CodeObject: co, Packet: pkt, PacketAddr: pktAddr})
	for {
		wg := gb.NextWG()
		if wg == nil {
			break
		}
		d.wgs = append(d.wgs, &wgRec{idx: len(d.wgs), wg: wg, sentAt: -1})
	}
}

func (d *fakeDisp) tick(a *simkit.Agent) bool {
	progress := false
	now := a.NowCycle()
	// completions
	if d.port.PeekIncoming() != nil {
		if d.cfg.StallPct > 0 && d.rng.Intn(100) < d.cfg.StallPct {
			progress = true
		} else {
			for {
				m := d.port.RetrieveIncoming()
				if m == nil {
					break
				}
				progress = true
				c, ok := m.(*protocol.WGCompletionMsg)
				if !ok {
					d.other = append(d.other, fmt.Sprintf("%T", m))
					continue
				}
				for _, id := range c.RspTo {
					w := d.byReq[id]
					if w == nil {
						d.unknown = append(d.unknown, id)
						continue
					}
					w.doneAt = append(w.doneAt, now)
					if d.snap != nil {
						w.outSnap = append(w.outSnap, d.snap(w))
					}
					if len(w.doneAt) == 1 {
						d.alloc.free(w.res)
					}
				}
			}
		}
	}
	// mapping
	for d.next < len(d.wgs) {
		if now < d.notBefore {
			progress = true
			break
		}
		w := d.wgs[d.next]
		if w.req == nil {
			res, ok := d.alloc.reserve(w.wg)
			if !ok {
				break // woken by the next completion message
			}
			w.res = res
			b := protocol.MapWGReqBuilder{}.WithSrc(d.port.AsRemote()).WithDst(d.cu).WithPID(1).WithWG(w.wg)
			for _, l := range res.locs {
				b = b.AddWf(l)
			}
			w.req = b.Build()
			d.byReq[w.req.ID] = w
		}
		if err := d.port.Send(w.req); err != nil {
			break
		}
		w.sentAt = now
		d.next++
		progress = true
		if d.cfg.GapMax > 0 {
			d.notBefore = now + int64(d.rng.Intn(d.cfg.GapMax+1))
		}
	}
	return progress
}

// ---------------------------------------------------------------------------
// trace recorder (tracing.Tracer on the compute unit)

type instRec struct {
	ID      string
	Wave    *waveRec
	PC      uint64
	Off     int // PC - code base
	Inst    *insts.Inst
	Class   string // barrier | waitcnt | endpgm | vmem | smem | lds | other
	Seq     int    // position in the wave's issue order
	Start   int64
	Ends    []int64 // every EndTask seen for the id
	Reqs    []string
	Split   int64 // scalar loads split into several requests: cycles between the first and the last response
	TrueEnd int64 // memory instructions: cycle the CU retrieved the last response; -1 = never
}

func (r *instRec) end() int64 {
	if len(r.Ends) == 0 {
		return -1
	}
	return r.Ends[0]
}

type waveRec struct {
	UID   string
	Group *groupRec
	Index int // FirstWiFlatID / 64
	Insts []*instRec
}

type groupRec struct {
	ID    [3]int
	Key   *wavefront.WorkGroup
	Waves map[int]*waveRec
}

type recorder struct {
	engine   sim.Engine
	freq     sim.Freq
	codeBase uint64
	insts    map[string]*instRec
	waves    map[string]*waveRec
	groups   map[*wavefront.WorkGroup]*groupRec
	order    []*groupRec
	reqOwner map[string]*instRec // request id -> instruction
	nStart   int
	oddities []string
}

func newRecorder(engine sim.Engine, freq sim.Freq, codeBase uint64) *recorder {
	return &recorder{engine: engine, freq: freq, codeBase: codeBase, insts: map[string]*instRec{}, waves: map[string]*waveRec{},
		groups: map[*wavefront.WorkGroup]*groupRec{}, reqOwner: map[string]*instRec{}}
}

func (r *recorder) now() int64 { return simkit.Cycle(r.engine.CurrentTime(), r.freq) }

func classify(in *insts.Inst) string {
	switch in.FormatType {
	case insts.SOPP:
		switch in.Opcode {
		case 1:
			return "endpgm"
		case 10:
			return "barrier"
		case 12:
			return "waitcnt"
		}
	case insts.FLAT:
		return "vmem"
	case insts.SMEM:
		return "smem"
	case insts.DS:
		return "lds"
	}
	return "other"
}

func (r *recorder) StartTask(t tracing.Task) {
	switch t.Kind {
	case "inst":
		det, _ := t.Detail.(map[string]interface{})
		wf, _ := det["wf"].(*wavefront.Wavefront)
		in, _ := det["inst"].(*wavefront.Inst)
		if wf == nil || in == nil {
			r.oddities = append(r.oddities, "inst task without wavefront/instruction detail")
			return
		}
		w := r.waves[wf.UID]
		if w == nil {
			gr := r.groups[wf.WG]
			if gr == nil {
				gr = &groupRec{ID: [3]int{wf.WG.IDX, wf.WG.IDY, wf.WG.IDZ}, Key: wf.WG, Waves: map[int]*waveRec{}}
				r.groups[wf.WG] = gr
				r.order = append(r.order, gr)
			}
			w = &waveRec{UID: wf.UID, Group: gr, Index: wf.FirstWiFlatID / 64}
			gr.Waves[w.Index] = w
			r.waves[wf.UID] = w
		}
		ir := &instRec{ID: t.ID, Wave: w, PC: wf.PC(), Off: int(wf.PC() - r.codeBase), Inst: in.Inst, Class: classify(in.Inst),
			Seq: len(w.Insts), Start: r.now(), TrueEnd: -1}
		if _, dup := r.insts[t.ID]; dup {
			r.oddities = append(r.oddities, "instruction task started twice")
		}
		r.insts[t.ID] = ir
		w.Insts = append(w.Insts, ir)
		r.nStart++
	case "req_out":
		if ir := r.insts[t.ParentID]; ir != nil {
			if m, ok := t.Detail.(sim.Msg); ok {
				id := m.Meta().ID
				ir.Reqs = append(ir.Reqs, id)
				r.reqOwner[id] = ir
			}
		}
	}
}

func (r *recorder) StepTask(tracing.Task)          {}
func (r *recorder) AddMilestone(tracing.Milestone) {}

func (r *recorder) EndTask(t tracing.Task) {
	if ir := r.insts[t.ID]; ir != nil {
		ir.Ends = append(ir.Ends, r.now())
	}
}
