package main

import (
	"fmt"
	"os"

	"verifharness/vlib"
)

// caseResult is what one (program, environment) pair contributed.
type caseResult struct {
	violations int
	nontrivial bool
	maxLate    int64
	stalled    bool
	earlyExit  bool
	events     int64
}

func earlyExitWaves(h hostResult) int {
	n := 0
	for _, g := range h.ExitAt {
		for _, e := range g {
			if e >= 0 {
				n++
			}
		}
	}
	return n
}

// barriersSkippedByExit: does some wavefront end before a barrier another
// wavefront of its group executes?
func barriersSkippedByExit(h hostResult) bool {
	for _, g := range h.Barriers {
		mx, mn := 0, 1<<30
		for _, b := range g {
			mx = max(mx, b)
			mn = min(mn, b)
		}
		if mn < mx {
			return true
		}
	}
	return false
}

func runCase(rec vlib.Recorder, sc scenario) caseResult {
	rec.Eval()
	var res caseResult
	bk, err := buildKernel(sc.Kernel)
	if err != nil {
		rec.Inconclusive(fmt.Sprintf("scenario %s: kernel does not assemble: %v", sc.Name, err))
		return res
	}
	d := genData(sc.Kernel)
	l := layoutFor(sc.Kernel)
	host := hostModel(sc.Kernel, d)
	res.earlyExit = barriersSkippedByExit(host)
	if res.earlyExit {
		rec.Count("early_exit_cases", 1)
	}

	// ---------------- timing compute unit
	jt := &judge{rec: rec, sc: sc, mode: "timing", seen: map[string]bool{}, bk: bk}
	out := runTiming(sc, bk, d, l)
	rec.Count("engine_events", out.events)
	res.events = out.events
	judgeTiming(jt, out, host, l, &res)

	// ---------------- emulation compute unit (reference and second subject)
	je := &judge{rec: rec, sc: sc, mode: "emu", seen: map[string]bool{}, bk: bk}
	eo := runEmu(sc, bk, d, l)
	judgeEmu(je, eo, host, &res)

	res.violations = jt.n + je.n
	if jt.n == 0 && out.panicVal == nil && !out.livelock {
		if eo.panicVal == nil && eo.B != nil {
			if k := firstDiff(bytesU32(out.store[l.B:l.B+4*uint64(sc.Kernel.lenB())]), eo.B); k >= 0 {
				jt.viol("C14|timing|values|output-differs-from-emulation",
					fmt.Sprintf("B[%d] differs between the timing and the emulation compute unit", k), map[string]any{"index": k})
			} else {
				rec.Count("runs_equal_to_emulation", 1)
			}
		}
	}
	res.nontrivial = res.maxLate >= 100 || res.stalled
	if res.nontrivial && jt.n == 0 {
		rec.Nontrivial(sc.Name)
	}
	rec.Distinct("geometry", fmt.Sprintf("%dx%d", sc.Kernel.NWG, sc.Kernel.W))
	rec.Distinct("environment", fmt.Sprintf("sb=%v rob=%v %s/%s/%s", sc.Env.Scoreboard, sc.Env.ROB, sc.Env.Inst.Name, sc.Env.Scalar.Name, sc.Env.Vector.Name))
	kinds := ""
	for _, p := range sc.Kernel.Phases {
		kinds += p.Kind[:1]
		if p.Kind == "sload" {
			for _, ld := range p.sloads() {
				rec.Distinct("scalar_load_shape", fmt.Sprintf("x%d@%d split=%v", ld.W, ld.Off%64, ld.straddles()))
			}
		}
		if p.Kind == "loadwait" {
			rec.Distinct("loadwait_n_k", fmt.Sprintf("%d/%d", p.N, p.K))
		}
	}
	rec.Distinct("phase_sequence", kinds)
	rec.Sample(map[string]any{"name": sc.Name, "kernel": sc.Kernel, "env": sc.Env, "instructions": len(bk.Offsets),
		"max_barrier_lateness": res.maxLate, "waitcnt_stalled": res.stalled})
	return res
}

func judgeTiming(j *judge, out *runOutcome, host hostResult, l layout, res *caseResult) {
	rec, sc, k := j.rec, j.sc, j.sc.Kernel
	for _, m := range out.mems {
		if m.bad != "" {
			rec.Inconclusive("harness: " + m.bad)
			return
		}
	}
	if out.panicVal != nil && os.Getenv("C14_TRACE") != "" {
		for _, gr := range out.rec.order {
			for _, w := range sortedWaves(gr) {
				fmt.Printf("group %v wave %d:", gr.ID, w.Index)
				for _, i := range w.Insts[max(0, len(w.Insts)-6):] {
					fmt.Printf("  [%s @%d ends%v]", j.text(i.Off)[:min(28, len(j.text(i.Off)))], i.Start, i.Ends)
				}
				fmt.Println()
			}
		}
	}
	if hit, at, n := releasedByEndingWaveWithOverflow(out.rec.order, 16, out.panicVal == nil); hit {
		// the scheduler's barrier buffer holds 16 wavefronts; the others are
		// re-evaluated every cycle and a release by s_endpgm leaves them there
		j.rec.Count("barrier_released_by_ending_wavefront_with_more_than_16_waiting", 1)
		j.circumstance = "C14|timing|barrier|corrupted-after-release-by-ending-wavefront-with-more-than-16-waiting"
		defer func(n0 int) {
			if j.n > n0 {
				fmt.Printf("[C14] note: %s: %d wavefronts were waiting at barriers when an ending wavefront released one at cycle %d\n", j.sc.Name, n, at)
			}
		}(j.n)
	}
	if out.panicVal != nil {
		j.viol("C14|timing|crash|"+sanitize(out.panicVal), fmt.Sprintf("compute unit panicked: %v", out.panicVal), nil)
		return
	}
	if out.livelock {
		j.viol("C14|timing|no-termination|event-bound", fmt.Sprintf("engine still busy after %d events", out.events), nil)
		return
	}
	r := out.rec
	rec.Count("instructions_issued", int64(r.nStart))
	for _, o := range r.oddities {
		j.viol("C14|timing|trace|"+sanitize(o), o, nil)
	}
	j.resolveMemCompletions(r, out.rspAt)
	groups := r.order

	// R2, R3, R1
	if j.checkWaitcnt(groups) {
		res.stalled = true
	}
	j.checkEndpgm(groups)
	late := j.checkBarriers(groups, k.W)
	if late > res.maxLate {
		res.maxLate = late
	}
	rec.Count("max_barrier_lateness_sum", late)
	j.countExitOrders(groups, k.W)

	// R4: completion messages, as they leave the compute unit
	sentCount := map[string]int{}
	sentAt := map[string]int64{}
	for _, s := range out.sent {
		for _, id := range s.rspTo {
			sentCount[id]++
			if _, ok := sentAt[id]; !ok {
				sentAt[id] = s.cycle
			}
		}
	}
	d := out.disp
	for _, id := range d.unknown {
		j.viol("C14|timing|wg-completion|unknown-id", "completion message names a MapWGReq that was never sent: "+id, nil)
	}
	for _, o := range d.other {
		j.viol("C14|timing|dispatch-port|unexpected-message", "compute unit sent "+o+" to the dispatcher", nil)
	}
	byWG := map[[3]int]*groupRec{}
	for _, gr := range groups {
		byWG[gr.ID] = gr
	}
	allDone := true
	for _, w := range d.wgs {
		id := [3]int{w.wg.IDX, w.wg.IDY, w.wg.IDZ}
		gr := byWG[id]
		if w.req == nil || w.sentAt < 0 {
			allDone = false
			continue // not mapped: consequence of an earlier group that never completed
		}
		n := sentCount[w.req.ID]
		rec.Count("wg_completion_messages", int64(n))
		if n == 0 {
			allDone = false
			if gr == nil {
				gr = &groupRec{ID: id, Waves: map[int]*waveRec{}}
			}
			j.classifyStuck(gr, k.W, out.endCycle)
			continue
		}
		if n != 1 || len(w.doneAt) != 1 {
			j.viol(fmt.Sprintf("C14|timing|wg-completion|count=%d", n),
				fmt.Sprintf("group %v: %d completion messages left the compute unit (%d reached the dispatcher)", id, n, len(w.doneAt)),
				map[string]any{"group": id})
		}
		// after the last wavefront's s_endpgm
		if gr != nil {
			for idx := 0; idx < k.W; idx++ {
				wv := gr.Waves[idx]
				var v waveBarriers
				if wv != nil {
					v = barrierView(wv)
				}
				if wv == nil || v.endDone == never || v.endDone > sentAt[w.req.ID] {
					what := "never completed s_endpgm"
					if wv != nil && v.endDone != never {
						what = fmt.Sprintf("completed s_endpgm at %d", v.endDone)
					}
					j.viol("C14|timing|wg-completion|before-last-endpgm",
						fmt.Sprintf("group %v: completion message left at cycle %d but wave %d %s", id, sentAt[w.req.ID], idx, what),
						map[string]any{"group": id, "wave": idx})
					break
				}
			}
		}
		// the group's results are in memory when the dispatcher learns of its completion
		if len(w.outSnap) > 0 {
			wgs := k.wgSize()
			want := host.B[w.wg.IDX*wgs : (w.wg.IDX+1)*wgs]
			if kx := firstDiff(w.outSnap[0], want); kx >= 0 {
				j.viol("C14|timing|wg-completion|results-not-in-memory-at-completion",
					fmt.Sprintf("group %v: when the completion message reached the dispatcher (cycle %d) B[%d] (wave %d lane %d) was 0x%08x, expected 0x%08x",
						id, w.doneAt[0], w.wg.IDX*wgs+kx, kx/64, kx%64, w.outSnap[0][kx], want[kx]),
					map[string]any{"group": id, "index": kx})
			} else {
				rec.Count("wg_results_checked_at_completion", 1)
			}
		}
	}
	if !allDone {
		return
	}
	rec.Count("timing_runs_completed", 1)
	rec.Count("simulated_cycles", out.endCycle)

	// barrier counts per wavefront as the program prescribes
	for _, gr := range groups {
		for idx := 0; idx < k.W; idx++ {
			w := gr.Waves[idx]
			if w == nil {
				j.viol("C14|timing|trace|wavefront-never-issued", fmt.Sprintf("group %v wave %d issued nothing", gr.ID, idx), nil)
				continue
			}
			if got, want := len(barrierView(w).bar), host.Barriers[gr.ID[0]][idx]; got != want {
				j.viol("C14|timing|barrier|count-differs-from-program",
					fmt.Sprintf("group %v wave %d issued %d s_barrier, the program executes %d", gr.ID, idx, got, want),
					map[string]any{"group": gr.ID, "wave": idx})
			}
		}
	}
	if n := earlyExitWaves(host); n > 0 {
		rec.Count("early_exit_wavefronts", int64(n))
	}
	if res.earlyExit {
		rec.Count("early_exit_cases_completed", 1)
	}

	// R5: values
	gotB := bytesU32(out.store[l.B : l.B+4*uint64(k.lenB())])
	gotC := bytesU32(out.store[l.C : l.C+4*uint64(k.lenC())])
	wgs := k.wgSize()
	if kx := firstDiff(gotB, host.B); kx >= 0 {
		j.viol("C14|timing|values|output-differs-from-host-model",
			fmt.Sprintf("B[%d] (group %d wave %d lane %d) = 0x%08x, host model 0x%08x", kx, kx/wgs, kx%wgs/64, kx%64, gotB[kx], host.B[kx]),
			map[string]any{"index": kx, "got": gotB[kx], "want": host.B[kx]})
	} else if kx := firstDiff(gotC, host.C); kx >= 0 {
		j.viol("C14|timing|values|exchange-area-differs-from-host-model",
			fmt.Sprintf("C[%d] = 0x%08x, host model 0x%08x", kx, gotC[kx], host.C[kx]), map[string]any{"index": kx})
	} else {
		rec.Count("output_words_compared", int64(len(gotB)+len(gotC)))
	}
	_ = sc
}

func judgeEmu(j *judge, eo *emuOutcome, host hostResult, res *caseResult) {
	rec, k := j.rec, j.sc.Kernel
	if eo.panicVal != nil {
		msg := fmt.Sprint(eo.panicVal)
		if msg == "not all wavefronts at barrier" && res.earlyExit {
			j.viol("C14|emu|barrier|panic-after-early-exit",
				"emulation compute unit panics \"not all wavefronts at barrier\" when a wavefront has ended before a barrier the others execute", nil)
			return
		}
		j.viol("C14|emu|crash|"+sanitize(msg), "emulation compute unit panicked: "+msg, nil)
		return
	}
	if eo.livelock {
		j.viol("C14|emu|no-termination|event-bound", "emulation engine exceeded the event bound", nil)
		return
	}
	rec.Count("emu_runs_completed", 1)
	// instruction order in emulation (time = position in the hook stream)
	j.checkBarriers(eo.groups, k.W)
	for _, w := range eo.disp.wgs {
		if len(w.doneAt) != 1 {
			j.viol(fmt.Sprintf("C14|emu|wg-completion|count=%d", len(w.doneAt)),
				fmt.Sprintf("group %d reported complete %d times by the emulation compute unit", w.wg.IDX, len(w.doneAt)), nil)
		}
	}
	if kx := firstDiff(eo.B, host.B); kx >= 0 {
		j.viol("C14|emu|values|output-differs-from-host-model",
			fmt.Sprintf("B[%d] = 0x%08x in emulation, host model 0x%08x", kx, eo.B[kx], host.B[kx]), map[string]any{"index": kx})
	} else if kx := firstDiff(eo.C, host.C); kx >= 0 {
		j.viol("C14|emu|values|exchange-area-differs-from-host-model",
			fmt.Sprintf("C[%d] = 0x%08x in emulation, host model 0x%08x", kx, eo.C[kx], host.C[kx]), map[string]any{"index": kx})
	}
}
