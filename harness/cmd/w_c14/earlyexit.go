package main

// Early exits and the barrier, with control over the order of events (rule
// R1, the completion rule and the deadlock rule; timing compute unit and
// emulation reference). In a work-group of 2..16 wavefronts 0..W-1 wavefronts
// leave the kernel (s_endpgm) before the 1st / 2nd / g-th barrier the others
// execute. A per-wavefront delay table ("wdelay") in front of the exit point,
// and optionally a long-latency load + s_waitcnt inside the exit path, decide
// when each leaving wavefront ends relative to the others' arrival at the
// barrier:
//
//	first       the leaving wavefronts end before any other arrives
//	interleaved ends and arrivals alternate
//	late        every remaining wavefront is parked at the barrier, then the
//	            1st, 2nd, 3rd ... leaving wavefront ends, one after the other
//	late-load   the same, the lateness coming from a slow vector memory
//
// The release of the barrier is then the business of different code paths of
// the scheduler (arrival of the last wavefront / end of a wavefront with others
// already ended / end of the last unfinished wavefront). Several groups of up
// to 16 wavefronts put more than 16 wavefronts (the scheduler's barrier buffer)
// at barriers while the late exits happen. What happened is counted from the
// trace (monitor.go, countExitOrders).

import (
	"fmt"
	"sort"

	"verifharness/vlib"
)

type eeSpec struct {
	W, NWG int
	Exits  []int  // wavefront indices that leave (first exit point)
	Before int    // barriers executed by everybody before the exit point (0 = leave before the 1st barrier)
	After  int    // barrier generations after the exit point
	Order  string // first | interleaved | late | late-load
	Store  bool
	Loop   bool  // LDS generations in loop form
	Glob   bool  // generations after the exit go through global memory
	Stay   []int // delay iterations of the staying wavefronts (cycled); nil = by Order
	Gap    int   // late: iterations between successive exits
	Exits2 []int // second exit point, one generation later (late order)
}

func maskOf(ws []int) int {
	m := 0
	for _, w := range ws {
		m |= 1 << uint(w)
	}
	return m
}

// eeKernel builds the program. r (may be nil) adds seeded variation of the delays.
func eeKernel(s eeSpec, r *vlib.PRNG, mul, salt uint32, seed uint64) kernelSpec {
	k := kernelSpec{W: s.W, NWG: s.NWG, Mul: mul, Salt: salt, Seed: seed}
	rnd := func(lo, hi int) int {
		if r == nil || hi <= lo {
			return lo
		}
		return lo + r.Intn(hi-lo+1)
	}
	delta := 64
	if s.W == 1 {
		delta = 1
	} else if r != nil {
		delta = neighbourDelta(r, s.W)
	}
	lds := func(n int) phase { return phase{Kind: "ldsx", N: n, Loop: s.Loop, Delta: delta} }
	if s.Before > 0 {
		k.Phases = append(k.Phases, lds(s.Before))
	}
	table := func(exits []int, order string) []int {
		it := make([]int, s.W)
		leaving := map[int]int{}
		for rank, w := range exits {
			leaving[w] = rank
		}
		gap := s.Gap
		if gap == 0 {
			gap = 10
		}
		for w := range it {
			rank, leaves := leaving[w]
			switch order {
			case "first":
				if leaves {
					it[w] = rnd(1, 3)
				} else {
					it[w] = rnd(30, 60)
				}
			case "interleaved":
				// ranks alternate: stayers and leavers spread over the same range
				if leaves {
					it[w] = 6 + 12*rank + rnd(0, 5)
				} else {
					it[w] = 1 + 12*(w%4) + rnd(0, 5)
				}
			case "late-load":
				if leaves {
					it[w] = rnd(1, 8)
				} else {
					it[w] = rnd(1, 4)
				}
			default: // late
				if leaves {
					it[w] = 40 + gap*rank + rnd(0, gap/3)
				} else {
					it[w] = rnd(1, 6)
				}
			}
			if !leaves && len(s.Stay) > 0 {
				it[w] = s.Stay[w%len(s.Stay)]
			}
		}
		return it
	}
	k.Phases = append(k.Phases, phase{Kind: "wdelay", Iters: table(s.Exits, s.Order)})
	if len(s.Exits) > 0 {
		k.Phases = append(k.Phases, phase{Kind: "exit", Mask: maskOf(s.Exits), Store: s.Store, Load: s.Order == "late-load"})
	}
	gen := func(n int) phase {
		if s.Glob {
			return phase{Kind: "globx", N: n, Delta: delta}
		}
		return lds(n)
	}
	if len(s.Exits2) > 0 {
		k.Phases = append(k.Phases, gen(1))
		k.Phases = append(k.Phases, phase{Kind: "wdelay", Iters: table(s.Exits2, "late")})
		k.Phases = append(k.Phases, phase{Kind: "exit", Mask: maskOf(s.Exits2), Store: s.Store})
	}
	k.Phases = append(k.Phases, gen(max(1, s.After)))
	return k
}

func eeEnv(seed uint64, sb bool, vec memProfile) envConfig {
	return envConfig{Scoreboard: sb, ROB: true, Inst: plainProfile("fast", 1, 3), Scalar: plainProfile("fast", 1, 3), Vector: vec, Seed: seed}
}

func canonicalEarlyExit() []scenario {
	fast := plainProfile("fast", 1, 3)
	medV := plainProfile("medium", 40, 200)
	slowV := plainProfile("slow", 400, 1500)
	var out []scenario
	n := 0
	add := func(name string, s eeSpec, e envConfig) {
		n++
		out = append(out, scenario{Name: name, Kernel: eeKernel(s, nil, 0x01000193, 0x9e3779b9, 1420+uint64(n)), Env: e})
	}
	// the defect class this layer was written for: two wavefronts leave, the second after everybody else is parked
	add("canon-two-early-exits-second-after-the-rest-parked", eeSpec{W: 4, NWG: 1, Exits: []int{0, 2}, After: 1, Order: "late", Store: true}, eeEnv(31, false, fast))
	add("canon-two-early-exits-of-3-one-wavefront-parked", eeSpec{W: 3, NWG: 1, Exits: []int{2, 1}, After: 2, Order: "late", Store: false}, eeEnv(32, true, fast))
	add("canon-three-of-8-exit-in-succession-after-the-rest-parked", eeSpec{W: 8, NWG: 2, Exits: []int{5, 1, 6}, After: 2, Order: "late", Store: true, Loop: true}, eeEnv(33, false, medV))
	add("canon-two-exit-before-the-2nd-barrier-after-the-rest-parked", eeSpec{W: 4, NWG: 2, Exits: []int{3, 0}, Before: 1, After: 1, Order: "late", Store: true}, eeEnv(34, true, fast))
	add("canon-four-exit-before-the-3rd-barrier-after-the-rest-parked", eeSpec{W: 7, NWG: 1, Exits: []int{6, 0, 3, 4}, Before: 2, After: 2, Order: "late", Store: true, Loop: true}, eeEnv(35, false, fast))
	add("canon-15-of-16-exit-in-succession-one-wavefront-parked", eeSpec{W: 16, NWG: 1, Exits: []int{1, 2, 3, 4, 5, 6, 7, 8, 9, 10, 11, 12, 13, 14, 15}, After: 1, Order: "late", Store: true, Gap: 6}, eeEnv(36, false, fast))
	add("canon-all-but-one-of-2-3-5-exit-late", eeSpec{W: 5, NWG: 3, Exits: []int{0, 1, 2, 4}, After: 1, Order: "late", Store: false}, eeEnv(37, true, fast))
	add("canon-late-exits-through-global-exchange", eeSpec{W: 6, NWG: 2, Exits: []int{4, 2}, After: 2, Order: "late", Store: true, Glob: true}, eeEnv(38, false, medV))
	// lateness from a slow memory: load + s_waitcnt in the exit path, and the store s_endpgm has to wait for
	add("canon-three-exits-late-after-a-long-latency-load", eeSpec{W: 6, NWG: 1, Exits: []int{0, 3, 5}, After: 2, Order: "late-load", Store: true}, eeEnv(39, false, slowV))
	add("canon-two-exits-late-after-a-long-latency-load-before-the-2nd-barrier", eeSpec{W: 4, NWG: 2, Exits: []int{1, 2}, Before: 1, After: 1, Order: "late-load", Store: false, Loop: true}, eeEnv(40, true, slowV))
	// the other orders
	add("canon-three-early-exits-before-anybody-arrives", eeSpec{W: 8, NWG: 1, Exits: []int{0, 4, 7}, After: 2, Order: "first", Store: true}, eeEnv(41, false, fast))
	add("canon-early-exits-between-arrivals", eeSpec{W: 8, NWG: 1, Exits: []int{1, 3, 5, 7}, After: 1, Order: "interleaved", Store: true}, eeEnv(42, false, fast))
	add("canon-early-exits-between-arrivals-16", eeSpec{W: 16, NWG: 1, Exits: []int{0, 2, 9, 12, 15}, Before: 1, After: 2, Order: "interleaved", Store: false, Loop: true}, eeEnv(43, true, fast))
	// last arrival releases, two wavefronts have ended before (release by the arriving wavefront, not by an ending one)
	add("canon-two-exits-then-the-last-arrival-releases", eeSpec{W: 5, NWG: 1, Exits: []int{0, 1}, After: 1, Order: "first", Store: true, Stay: []int{5, 5, 5, 50, 5}}, eeEnv(44, false, fast))
	// controls: exactly one late exit; none
	add("canon-one-exit-after-the-rest-parked", eeSpec{W: 6, NWG: 1, Exits: []int{3}, After: 2, Order: "late", Store: true}, eeEnv(45, false, fast))
	add("canon-no-exit-same-delays", eeSpec{W: 6, NWG: 1, After: 2, Order: "late"}, eeEnv(46, false, fast))
	// more wavefronts parked than the barrier buffer holds (16), several late exits per group
	add("canon-26-parked-in-two-groups-three-late-exits-each", eeSpec{W: 16, NWG: 2, Exits: []int{15, 0, 7}, After: 2, Order: "late", Store: true}, eeEnv(47, false, fast))
	add("canon-27-parked-in-three-groups-of-12-three-late-exits-each", eeSpec{W: 12, NWG: 3, Exits: []int{11, 5, 2}, Before: 1, After: 1, Order: "late", Store: true, Loop: true}, eeEnv(48, true, fast))
	add("canon-28-parked-in-two-groups-two-exits-late-after-load", eeSpec{W: 16, NWG: 2, Exits: []int{3, 8}, After: 1, Order: "late-load", Store: true}, eeEnv(49, false, slowV))
	// two exit points: late exits before the 1st and again before the 2nd barrier
	add("canon-late-exits-at-two-points", eeSpec{W: 8, NWG: 1, Exits: []int{0, 1}, Exits2: []int{6, 7, 3}, After: 1, Order: "late", Store: true}, eeEnv(50, false, fast))
	add("canon-late-exits-at-two-points-16-waves-two-groups", eeSpec{W: 16, NWG: 2, Exits: []int{9, 4}, Exits2: []int{1, 14}, After: 2, Order: "late", Store: false, Loop: true}, eeEnv(51, true, medV))
	return out
}

func genEarlyExit(r *vlib.PRNG, idx int) scenario {
	s := eeSpec{W: []int{2, 3, 3, 4, 4, 5, 6, 7, 8, 8, 11, 12, 16, 16}[r.Intn(14)]}
	s.NWG = 1 + r.Intn(3)
	if s.W >= 11 && r.Chance(1, 2) {
		s.NWG = 2 + r.Intn(2) // more than 16 wavefronts at barriers
	}
	// how many leave: 0 .. W-1, mostly two or more
	var e int
	switch r.Intn(10) {
	case 0:
		e = 0
	case 1:
		e = 1
	case 2:
		e = s.W - 1
	default:
		e = 2 + r.Intn(max(1, min(s.W-2, 5)))
	}
	e = max(0, min(e, s.W-1))
	perm := r.Perm(s.W)
	s.Exits = append([]int(nil), perm[:e]...) // the order in the slice is the order of the exits
	rest := append([]int(nil), perm[e:]...)
	s.Before = []int{0, 0, 0, 1, 1, 2, 3}[r.Intn(7)]
	s.After = 1 + r.Intn(3)
	s.Order = []string{"late", "late", "late", "late", "late-load", "late-load", "interleaved", "interleaved", "first"}[r.Intn(9)]
	s.Store = r.Chance(3, 4)
	s.Loop = r.Bool()
	s.Glob = r.Chance(1, 5)
	s.Gap = []int{4, 8, 12, 20}[r.Intn(4)]
	if len(rest) >= 2 && len(s.Exits) > 0 && r.Chance(1, 4) {
		n2 := 1 + r.Intn(min(len(rest)-1, 3))
		s.Exits2 = rest[:n2]
	}
	sort.Ints(rest)
	k := eeKernel(s, r.Fork("delays"), 2*r.Uint32()+1, r.Uint32(), r.Uint64())
	var e2 envConfig
	switch {
	case s.Order == "late-load":
		vec := []memProfile{plainProfile("slow", 400, 1500), plainProfile("slow", 200, 2000), plainProfile("medium", 80, 500)}[r.Intn(3)]
		e2 = eeEnv(r.Uint64(), r.Bool(), vec)
		e2.ROB = r.Chance(2, 3)
	case r.Chance(1, 3):
		// hostile environment; the order of events is then whatever it turns out to be
		e2 = genEnv(r.Fork("env"))
		if e2.Inst.Name == "slow" || e2.Inst.Name == "wide" {
			e2.Inst = plainProfile("fast", 1, 4)
		}
	default:
		vec := []memProfile{plainProfile("fast", 1, 3), plainProfile("medium", 20, 200), plainProfile("slow", 300, 1200)}[r.Intn(3)]
		e2 = eeEnv(r.Uint64(), r.Bool(), vec)
		e2.ROB = r.Chance(2, 3)
		e2.Disp = dispConfig{GapMax: []int{0, 0, 5, 100}[r.Intn(4)], StallPct: []int{0, 0, 50}[r.Intn(3)], InBuf: []int{1, 4}[r.Intn(2)]}
	}
	return scenario{Name: fmt.Sprintf("ee%d-%s", idx, s.Order), Kernel: k, Env: e2}
}
