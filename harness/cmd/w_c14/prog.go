package main

import (
	"encoding/binary"
	"fmt"

	"github.com/sarchlab/mgpusim/v4/amd/insts"

	"verifharness/vlib"
	g "verifharness/vlib/gcnasm"
)

// ---------------------------------------------------------------------------
// Generated GCN3 kernels for C14.
//
// Every kernel is a prologue, a list of phases and an epilogue. Control flow
// depends only on the wavefront's index inside its work-group, never on data,
// so the host model below knows exactly which wavefront executes which phase.
// Each work-item carries one 32-bit accumulator "acc"; every phase folds the
// values it obtained (loads, scalar loads, values exchanged through LDS or
// global memory across an s_barrier) into acc with acc = acc*M + x, so a value
// that is read too early, too late or not at all changes the final output.
//
// ABI (code object V3 conventions): s[0:1] kernarg pointer, s2 work-group id x,
// v0 work-item id x. Kernarg: +0 A (input), +8 B (output), +16 C (global
// exchange area), +24 T (table for scalar loads).

type phase struct {
	Kind string `json:"kind"` // loadwait | sload | delay | wdelay | ldsx | globx | exit | manyload
	// loadwait: N flat loads in flight, s_waitcnt vmcnt(K), use the first N-K,
	// then (K>0) s_waitcnt vmcnt(0) and use the rest.
	// sload: N scalar loads in flight, s_waitcnt lgkmcnt(0), use them.
	// ldsx / globx: N generations of write - barrier - read neighbour.
	N int `json:"n,omitempty"`
	K int `json:"k,omitempty"`
	// ldsx: generations run in a scalar loop (one static s_barrier)
	Loop bool `json:"loop,omitempty"`
	// delay: iterations = Base + Per*((wave+Rot)&Mask) of a 3-instruction scalar loop
	Base int `json:"base,omitempty"`
	Per  int `json:"per,omitempty"`
	Rot  int `json:"rot,omitempty"`
	// delay: and-mask; exit: bit w set = wavefront w of every group leaves here
	Mask int `json:"mask,omitempty"`
	// ldsx / globx: the neighbour is work-item (lid+Delta) mod group size
	Delta int `json:"delta,omitempty"`
	// exit: leaving wavefronts store their accumulator first (s_endpgm then has
	// to wait for the store)
	Store bool `json:"store,omitempty"`
	// exit: leaving wavefronts first load A[gid], wait for it (s_waitcnt
	// vmcnt(0)) and fold it, so that a slow vector memory makes them end late
	Load bool `json:"load,omitempty"`
	// wdelay: wavefront w of every group runs Iters[w] (>= 1) iterations of the
	// 3-instruction scalar delay loop (a table, so that the order in which the
	// wavefronts of a group reach the next program point can be chosen freely)
	Iters []int `json:"iters,omitempty"`
	// sload: the scalar loads (at most 3 in flight: up to 8, 4 and 4 dwords);
	// Off is the byte offset inside the wavefront's 256-byte slice of T, so a
	// load whose range crosses a multiple of 64 is split by the scalar unit
	// into several memory requests. Empty = N one-dword loads (old form).
	Loads []sload `json:"loads,omitempty"`
	// manyload: N (1..40) FLAT loads to distinct cache lines and S (0..16)
	// scalar loads in flight, then s_waitcnt vmcnt(VM) lgkmcnt(LG) with exactly
	// these field values (VM up to 15 on GCN3, up to 63 with CDNA3 decoding),
	// the results of the loads listed in Cons are folded (each must be
	// guaranteed by the wait: index <= N-1-VM), then s_waitcnt 0/0 and the
	// results listed in Rest and all scalar results are folded.
	VM   int   `json:"vmcnt,omitempty"`
	LG   int   `json:"lgkmcnt,omitempty"`
	S    int   `json:"scalar_loads,omitempty"`
	Cons []int `json:"consume_after_wait,omitempty"`
	Rest []int `json:"consume_at_end,omitempty"`
}

type sload struct {
	W   int `json:"dwords"` // 1, 2, 4 or 8
	Off int `json:"off"`
}

// straddles reports whether the load crosses a 64-byte line.
func (l sload) straddles() bool { return l.Off/64 != (l.Off+4*l.W-1)/64 }

func (p phase) sloads() []sload {
	if len(p.Loads) > 0 {
		return p.Loads
	}
	var out []sload
	for j := 0; j < p.N; j++ {
		out = append(out, sload{W: 1, Off: 4 * j})
	}
	return out
}

// destination SGPRs of the (up to three) scalar loads in flight
var sloadSlot = [3]int{28, 20, 36}
var sloadCap = [3]int{8, 4, 4}

const tSliceDwords = 64 // every wavefront owns 256 bytes of T

type kernelSpec struct {
	// Arch: "" / "gcn3", or "cdna3" (CDNA3 decoding: 6-bit vmcnt, FLAT with
	// SADDR=off; run on a compute unit built as the MI300A platform builds it)
	Arch   string  `json:"arch,omitempty"`
	W      int     `json:"wavefronts_per_group"`
	NWG    int     `json:"groups"`
	Mul    uint32  `json:"mul"`
	Salt   uint32  `json:"salt"`
	Seed   uint64  `json:"data_seed"`
	Phases []phase `json:"phases"`
	// TailSLoad: the epilogue issues a line-straddling s_load_dwordx4 that is
	// never waited for, so s_endpgm is issued with a scalar load outstanding.
	TailSLoad bool `json:"tail_sload,omitempty"`
}

func (k kernelSpec) wgSize() int { return 64 * k.W }
func (k kernelSpec) total() int  { return k.NWG * k.wgSize() }

// sizes (in dwords) of the four arrays
func (k kernelSpec) lenA() int {
	n := 4
	for _, p := range k.Phases {
		if p.Kind == "manyload" && p.N > n {
			n = p.N
		}
	}
	return n * k.total()
}

func (k kernelSpec) cdna3() bool { return k.Arch == "cdna3" }

// noWaitVM is the all-ones value of the vmcnt field: "do not wait".
func (k kernelSpec) noWaitVM() int {
	if k.cdna3() {
		return 63
	}
	return 15
}

func (k kernelSpec) archName() string {
	if k.cdna3() {
		return "cdna3"
	}
	return "gcn3"
}

func (k kernelSpec) hasManyLoad() bool {
	for _, p := range k.Phases {
		if p.Kind == "manyload" {
			return true
		}
	}
	return false
}
func (k kernelSpec) lenB() int { return k.total() }
func (k kernelSpec) lenC() int {
	n := 0
	for _, p := range k.Phases {
		if p.Kind == "globx" {
			n += p.N
		}
	}
	if n == 0 {
		n = 1
	}
	return n * k.total()
}
func (k kernelSpec) lenT() int { return tSliceDwords*k.NWG*k.W + 32 }

func (k kernelSpec) ldsBytes() int {
	for _, p := range k.Phases {
		if p.Kind == "ldsx" {
			return 2 * 4 * k.wgSize()
		}
	}
	return 0
}

// role of a static instruction, for witnesses and for the monitor's own
// knowledge of the s_waitcnt operands (independent of the simulator's decoder)
type instRole struct {
	Text   string
	VMCnt  int // s_waitcnt only, 15 = no wait
	LGKCnt int
}

type builtKernel struct {
	Spec    kernelSpec
	Code    []byte
	Offsets []int            // byte offset of every instruction
	Roles   map[int]instRole // byte offset -> role
	CO      *insts.KernelCodeObject
}

func op(f g.Format, name string) int { return g.MustOpcode(g.GCN3, f, name) }

type asm struct {
	cdna3 bool
	p     *g.Program
	texts []string
	wait  map[int][2]int // instruction index -> vmcnt, lgkmcnt
	nlab  int
}

func (a *asm) add(text string, d g.Desc) {
	a.p.Add(d)
	a.texts = append(a.texts, text)
}

// waitcnt: vm == 15 means "no wait on vmcnt" (the phases written for GCN3 say
// it that way); with CDNA3 decoding that is field value 63.
func (a *asm) waitcnt(vm, lgkm int) {
	if a.cdna3 && vm == 15 {
		vm = 63
	}
	a.waitcntRaw(vm, lgkm)
}

// waitcntRaw emits s_waitcnt with exactly these field values. SIMM16: vmcnt
// [3:0] (CDNA3: and [15:14]), expcnt [6:4] = 7, lgkmcnt [11:8]. The encoding
// is the harness' own; the monitor takes the requested counts from here.
func (a *asm) waitcntRaw(vm, lgkm int) {
	max := 15
	if a.cdna3 {
		max = 63
	}
	if vm < 0 || vm > max || lgkm < 0 || lgkm > 15 {
		panic(fmt.Sprintf("s_waitcnt vmcnt(%d) lgkmcnt(%d) cannot be encoded", vm, lgkm))
	}
	a.wait[len(a.texts)] = [2]int{vm, lgkm}
	simm := uint16(vm&0xf | 7<<4 | lgkm<<8 | (vm>>4)<<14)
	a.add(fmt.Sprintf("s_waitcnt vmcnt(%d) lgkmcnt(%d)", vm, lgkm), g.MkSOPP(g.OpSWaitcnt, simm))
}

// flatLoad / flatStore: with CDNA3 decoding a 64-bit VGPR address needs
// SEG=flat and SADDR=off (0x7f); the GCN3 layout has zeros there.
func (a *asm) flatLoad(text string, dst g.Operand, addr g.Operand) {
	if a.cdna3 {
		a.add(text, g.Desc{Arch: g.CDNA3, Format: g.FLAT, Seg: g.SegFlat, Opcode: g.OpFlatLoadDword, Dst: dst, Addr: addr, SAddr: g.Off})
		return
	}
	a.add(text, g.FlatLoad(g.OpFlatLoadDword, dst, addr))
}

func (a *asm) flatStore(text string, addr g.Operand, data g.Operand) {
	if a.cdna3 {
		a.add(text, g.Desc{Arch: g.CDNA3, Format: g.FLAT, Seg: g.SegFlat, Opcode: g.OpFlatStoreDword, Addr: addr, Data: data, SAddr: g.Off})
		return
	}
	a.add(text, g.FlatStore(g.OpFlatStoreDword, addr, data))
}

func (a *asm) label() string {
	a.nlab++
	return fmt.Sprintf("L%d", a.nlab)
}

// registers
var (
	sKarg  = g.SRange(0, 2)
	sWG    = g.S(2)
	sA     = g.SRange(4, 2)
	sB     = g.SRange(6, 2)
	sC     = g.SRange(8, 2)
	sT     = g.SRange(10, 2)
	sWave  = g.S(12)
	sGWave = g.S(13)
	sTmp   = g.S(14)
	sCnt   = g.S(15)
	sWGSz  = g.S(16)
	sLoop  = g.S(17)
	sTmp2  = g.S(18)
	sBase  = g.S(19)
	sMul   = g.S(24)
	vLid   = g.V(0)
	vGid   = g.V(1)
	vAcc   = g.V(2)
	vMy    = g.V(5) // lid*4
	vNb    = g.V(6) // neighbour's lid*4
	vTmp   = g.V(7)
	vX     = g.V(8)
	vBuf   = g.V(9) // LDS buffer toggle (byte offset) in the loop form
	vIdx   = g.V(22)
)

func imm(n int) g.Operand {
	if n >= 0 && n <= 64 {
		return g.Imm(n)
	}
	return g.Lit(uint32(n))
}

func lo(r g.Operand) g.Operand { return g.S(r.Index) }
func hi(r g.Operand) g.Operand { return g.S(r.Index + 1) }

// addr emits v[dst:dst+1] = base + 4*idx (idx is a VGPR holding a dword index)
func (a *asm) addr(dst int, base g.Operand, idx g.Operand, what string) {
	d0, d1 := g.V(dst), g.V(dst+1)
	a.add("v_lshlrev_b32 addr.lo, 2, idx ; "+what, g.MkVOP2(op(g.VOP2, "v_lshlrev_b32"), d0, g.Imm(2), idx))
	a.add("v_add_u32 addr.lo, vcc, base.lo, addr.lo", g.MkVOP2(op(g.VOP2, "v_add_u32"), d0, lo(base), d0))
	a.add("v_mov_b32 addr.hi, base.hi", g.MkVOP1(op(g.VOP1, "v_mov_b32"), d1, hi(base)))
	a.add("v_addc_u32 addr.hi, vcc, 0, addr.hi, vcc", g.MkVOP2(op(g.VOP2, "v_addc_u32"), d1, g.Imm(0), d1))
}

// fold emits acc = acc*M + src
func (a *asm) fold(src g.Operand, what string) {
	a.add("v_mul_lo_u32 acc, acc, M", g.MkVOP3a(op(g.VOP3a, "v_mul_lo_u32"), vAcc, vAcc, sMul, g.Operand{}))
	a.add("v_add_u32 acc, vcc, x, acc ; "+what, g.MkVOP2(op(g.VOP2, "v_add_u32"), vAcc, src, vAcc))
}

// neighbour emits vNb = 4*((lid+delta) mod group size)
func (a *asm) neighbour(delta int) {
	a.add(fmt.Sprintf("v_add_u32 t, vcc, %d, lid", delta), g.MkVOP2(op(g.VOP2, "v_add_u32"), vTmp, g.Lit(uint32(delta)), vLid))
	a.add("v_subrev_u32 nb, vcc, wgsize, t", g.MkVOP2(op(g.VOP2, "v_subrev_u32"), vNb, sWGSz, vTmp))
	a.add("v_min_u32 nb, t, nb", g.MkVOP2(op(g.VOP2, "v_min_u32"), vNb, vTmp, vNb))
	a.add("v_lshlrev_b32 nb, 2, nb", g.MkVOP2(op(g.VOP2, "v_lshlrev_b32"), vNb, g.Imm(2), vNb))
}

func (a *asm) storeOut() {
	a.addr(3, sB, vGid, "&B[gid]")
	a.flatStore("flat_store_dword v[3:4], acc", g.VRange(3, 2), vAcc)
}

func buildKernel(k kernelSpec) (*builtKernel, error) {
	arch := g.GCN3
	if k.cdna3() {
		arch = g.CDNA3
	}
	a := &asm{cdna3: k.cdna3(), p: g.NewProgram(arch), wait: map[int][2]int{}}
	wgs := k.wgSize()
	tot := k.total()

	// ---- prologue
	a.add("s_load_dwordx2 s[4:5], s[0:1], 0 ; A", g.SMEMLoadImm(g.OpSLoadDwordx2, sA, sKarg, 0))
	a.add("s_load_dwordx2 s[6:7], s[0:1], 8 ; B", g.SMEMLoadImm(g.OpSLoadDwordx2, sB, sKarg, 8))
	a.add("s_load_dwordx2 s[8:9], s[0:1], 16 ; C", g.SMEMLoadImm(g.OpSLoadDwordx2, sC, sKarg, 16))
	a.add("s_load_dwordx2 s[10:11], s[0:1], 24 ; T", g.SMEMLoadImm(g.OpSLoadDwordx2, sT, sKarg, 24))
	a.add("s_mov_b32 M, lit", g.MkSOP1(op(g.SOP1, "s_mov_b32"), sMul, g.Lit(k.Mul)))
	a.add("s_mov_b32 wgsize, lit", g.MkSOP1(op(g.SOP1, "s_mov_b32"), sWGSz, g.Lit(uint32(wgs))))
	a.add("v_readfirstlane_b32 wave, lid", g.MkVOP1(op(g.VOP1, "v_readfirstlane_b32"), sWave, vLid))
	a.add("s_lshr_b32 wave, wave, 6", g.MkSOP2(op(g.SOP2, "s_lshr_b32"), sWave, sWave, g.Imm(6)))
	a.add("s_mul_i32 base, wg, wgsize", g.MkSOP2(op(g.SOP2, "s_mul_i32"), sBase, sWG, sWGSz))
	a.add("s_mul_i32 gwave, wg, W", g.MkSOP2(op(g.SOP2, "s_mul_i32"), sGWave, sWG, g.Imm(k.W)))
	a.add("s_add_u32 gwave, gwave, wave", g.MkSOP2(op(g.SOP2, "s_add_u32"), sGWave, sGWave, sWave))
	a.add("v_add_u32 gid, vcc, base, lid", g.MkVOP2(op(g.VOP2, "v_add_u32"), vGid, sBase, vLid))
	a.add("v_lshlrev_b32 my, 2, lid", g.MkVOP2(op(g.VOP2, "v_lshlrev_b32"), vMy, g.Imm(2), vLid))
	a.add("v_mov_b32 buf, 0", g.MkVOP1(op(g.VOP1, "v_mov_b32"), vBuf, g.Imm(0)))
	a.add("v_xor_b32 acc, salt, gid", g.MkVOP2(op(g.VOP2, "v_xor_b32"), vAcc, g.Lit(k.Salt), vGid))
	a.waitcnt(15, 0)

	globGen := 0
	ldsGen := 0 // LDS generations so far: generation g uses buffer g%2 (double buffering across phases)
	for pi, ph := range k.Phases {
		switch ph.Kind {
		case "loadwait":
			if ph.N < 1 || ph.N > 4 || ph.K < 0 || ph.K >= ph.N {
				return nil, fmt.Errorf("phase %d: bad loadwait", pi)
			}
			for j := 0; j < ph.N; j++ {
				// idx = gid + j*total
				a.add(fmt.Sprintf("v_add_u32 idx, vcc, %d, gid", j*tot), g.MkVOP2(op(g.VOP2, "v_add_u32"), vIdx, g.Lit(uint32(j*tot)), vGid))
				a.addr(10+2*j, sA, vIdx, fmt.Sprintf("&A[gid+%d*total]", j))
			}
			for j := 0; j < ph.N; j++ {
				a.flatLoad(fmt.Sprintf("flat_load_dword v%d, v[%d:%d]", 18+j, 10+2*j, 11+2*j), g.V(18+j), g.VRange(10+2*j, 2))
			}
			a.waitcnt(ph.K, 15)
			for j := 0; j < ph.N-ph.K; j++ {
				a.fold(g.V(18+j), fmt.Sprintf("load %d (complete after vmcnt(%d))", j, ph.K))
			}
			if ph.K > 0 {
				a.waitcnt(0, 15)
				for j := ph.N - ph.K; j < ph.N; j++ {
					a.fold(g.V(18+j), fmt.Sprintf("load %d", j))
				}
			}
		case "manyload":
			if ph.N < 1 || ph.N > 40 || ph.S < 0 || ph.S > 16 || ph.VM < 0 || ph.VM > k.noWaitVM() || ph.LG < 0 || ph.LG > 15 {
				return nil, fmt.Errorf("phase %d: bad manyload", pi)
			}
			for _, c := range ph.Cons {
				// loads return in order: vmcnt(VM) guarantees the first N-VM
				if ph.VM == k.noWaitVM() || c < 0 || c > ph.N-1-ph.VM {
					return nil, fmt.Errorf("phase %d: consumer %d is not covered by vmcnt(%d)", pi, c, ph.VM)
				}
			}
			for _, c := range ph.Rest {
				if c < 0 || c >= ph.N {
					return nil, fmt.Errorf("phase %d: bad rest index %d", pi, c)
				}
			}
			aReg := func(j int) int { return 24 + 2*j } // address pairs v24..v103
			dReg := func(j int) int { return 104 + j }  // results v104..v143
			sReg := func(i int) int { return 44 + i }   // scalar results s44..s59
			for j := 0; j < ph.N; j++ {
				a.add(fmt.Sprintf("v_add_u32 idx, vcc, %d, gid", j*tot), g.MkVOP2(op(g.VOP2, "v_add_u32"), vIdx, g.Lit(uint32(j*tot)), vGid))
				a.addr(aReg(j), sA, vIdx, fmt.Sprintf("&A[gid+%d*total]", j))
			}
			for _, c := range append(append([]int(nil), ph.Cons...), ph.Rest...) {
				a.add(fmt.Sprintf("v_mov_b32 v%d, poison", dReg(c)), g.MkVOP1(op(g.VOP1, "v_mov_b32"), g.V(dReg(c)), g.Lit(0xbad00000|uint32(pi)<<8|uint32(c))))
			}
			if ph.S > 0 {
				a.add("s_lshl_b32 t, gwave, 8", g.MkSOP2(op(g.SOP2, "s_lshl_b32"), sTmp, sGWave, g.Imm(8)))
				for i := 0; i < ph.S; i++ {
					a.add(fmt.Sprintf("s_mov_b32 s%d, poison", sReg(i)), g.MkSOP1(op(g.SOP1, "s_mov_b32"), g.S(sReg(i)), g.Lit(0xdeaf0000|uint32(pi)<<8|uint32(i))))
				}
			}
			for j := 0; j < ph.N; j++ {
				a.flatLoad(fmt.Sprintf("flat_load_dword v%d, v[%d:%d] ; load %d of %d in flight", dReg(j), aReg(j), aReg(j)+1, j, ph.N), g.V(dReg(j)), g.VRange(aReg(j), 2))
			}
			for i := 0; i < ph.S; i++ {
				// one dword each, 16 bytes apart inside the wavefront's slice of T
				a.add(fmt.Sprintf("s_add_u32 t2, t, %d", 16*i), g.MkSOP2(op(g.SOP2, "s_add_u32"), sTmp2, sTmp, imm(16*i)))
				a.add(fmt.Sprintf("s_load_dword s%d, s[10:11], t2 ; scalar load %d of %d in flight", sReg(i), i, ph.S),
					g.SMEMLoadSGPR(g.OpSLoadDword, g.S(sReg(i)), sT, sTmp2))
			}
			a.waitcntRaw(ph.VM, ph.LG)
			for _, c := range ph.Cons {
				a.fold(g.V(dReg(c)), fmt.Sprintf("load %d of %d (complete after vmcnt(%d))", c, ph.N, ph.VM))
			}
			a.waitcntRaw(0, 0)
			for _, c := range ph.Rest {
				a.fold(g.V(dReg(c)), fmt.Sprintf("load %d of %d", c, ph.N))
			}
			for i := 0; i < ph.S; i++ {
				a.fold(g.S(sReg(i)), fmt.Sprintf("scalar load %d", i))
			}
		case "sload":
			loads := ph.sloads()
			if len(loads) < 1 || len(loads) > 3 {
				return nil, fmt.Errorf("phase %d: bad sload", pi)
			}
			opOf := map[int]int{1: g.OpSLoadDword, 2: g.OpSLoadDwordx2, 4: g.OpSLoadDwordx4, 8: g.OpSLoadDwordx8}
			for i, ld := range loads {
				if _, ok := opOf[ld.W]; !ok || ld.W > sloadCap[i] || ld.Off%4 != 0 || ld.Off < 0 || ld.Off+4*ld.W > 4*tSliceDwords {
					return nil, fmt.Errorf("phase %d: bad scalar load %d", pi, i)
				}
				// poison the destination so that a dword that is not (yet) loaded changes the result
				for d := 0; d < ld.W; d++ {
					a.add(fmt.Sprintf("s_mov_b32 s%d, poison", sloadSlot[i]+d),
						g.MkSOP1(op(g.SOP1, "s_mov_b32"), g.S(sloadSlot[i]+d), g.Lit(0xdead0000|uint32(pi)<<8|uint32(sloadSlot[i]+d))))
				}
			}
			// byte offset of the wavefront's slice = 256*gwave
			a.add("s_lshl_b32 t, gwave, 8", g.MkSOP2(op(g.SOP2, "s_lshl_b32"), sTmp, sGWave, g.Imm(8)))
			for i, ld := range loads {
				a.add(fmt.Sprintf("s_add_u32 t2, t, %d", ld.Off), g.MkSOP2(op(g.SOP2, "s_add_u32"), sTmp2, sTmp, imm(ld.Off)))
				what := ""
				if ld.straddles() {
					what = " ; crosses a 64-byte line"
				}
				a.add(fmt.Sprintf("s_load_dwordx%d s[%d:%d], s[10:11], t2%s", ld.W, sloadSlot[i], sloadSlot[i]+ld.W-1, what),
					g.SMEMLoadSGPR(opOf[ld.W], g.SRange(sloadSlot[i], ld.W), sT, sTmp2))
			}
			a.waitcnt(15, 0)
			for i, ld := range loads {
				for d := 0; d < ld.W; d++ {
					a.fold(g.S(sloadSlot[i]+d), fmt.Sprintf("scalar load %d dword %d", i, d))
				}
			}
		case "delay":
			// cnt = base + per*((wave+rot)&mask), at least 1
			a.add(fmt.Sprintf("s_add_u32 cnt, wave, %d", ph.Rot), g.MkSOP2(op(g.SOP2, "s_add_u32"), sCnt, sWave, imm(ph.Rot)))
			a.add(fmt.Sprintf("s_and_b32 cnt, cnt, %d", ph.Mask), g.MkSOP2(op(g.SOP2, "s_and_b32"), sCnt, sCnt, imm(ph.Mask)))
			a.add(fmt.Sprintf("s_mul_i32 cnt, cnt, %d", ph.Per), g.MkSOP2(op(g.SOP2, "s_mul_i32"), sCnt, sCnt, imm(ph.Per)))
			a.add(fmt.Sprintf("s_add_u32 cnt, cnt, %d", ph.Base), g.MkSOP2(op(g.SOP2, "s_add_u32"), sCnt, sCnt, imm(ph.Base)))
			l := a.label()
			a.p.Label(l)
			a.add("s_sub_u32 cnt, cnt, 1 ; delay loop", g.MkSOP2(op(g.SOP2, "s_sub_u32"), sCnt, sCnt, g.Imm(1)))
			a.add("s_cmp_lg_u32 cnt, 0", g.MkSOPC(op(g.SOPC, "s_cmp_lg_u32"), sCnt, g.Imm(0)))
			a.add("s_cbranch_scc1 loop", g.Branch(g.OpSCbranchSCC1, l))
		case "wdelay":
			if len(ph.Iters) != k.W {
				return nil, fmt.Errorf("phase %d: wdelay needs one iteration count per wavefront", pi)
			}
			for _, n := range ph.Iters {
				if n < 1 || n > 1<<16 {
					return nil, fmt.Errorf("phase %d: bad wdelay iteration count %d", pi, n)
				}
			}
			// cnt = Iters[wave]: default Iters[0], one compare + select per wavefront that differs
			a.add(fmt.Sprintf("s_mov_b32 cnt, %d", ph.Iters[0]), g.MkSOP1(op(g.SOP1, "s_mov_b32"), sCnt, imm(ph.Iters[0])))
			for w := 1; w < k.W; w++ {
				if ph.Iters[w] == ph.Iters[0] {
					continue
				}
				a.add(fmt.Sprintf("s_cmp_eq_u32 wave, %d", w), g.MkSOPC(op(g.SOPC, "s_cmp_eq_u32"), sWave, imm(w)))
				a.add(fmt.Sprintf("s_cselect_b32 cnt, %d, cnt", ph.Iters[w]), g.MkSOP2(op(g.SOP2, "s_cselect_b32"), sCnt, imm(ph.Iters[w]), sCnt))
			}
			l := a.label()
			a.p.Label(l)
			a.add("s_sub_u32 cnt, cnt, 1 ; per-wavefront delay loop", g.MkSOP2(op(g.SOP2, "s_sub_u32"), sCnt, sCnt, g.Imm(1)))
			a.add("s_cmp_lg_u32 cnt, 0", g.MkSOPC(op(g.SOPC, "s_cmp_lg_u32"), sCnt, g.Imm(0)))
			a.add("s_cbranch_scc1 loop", g.Branch(g.OpSCbranchSCC1, l))
		case "ldsx":
			if ph.N < 1 {
				return nil, fmt.Errorf("phase %d: bad ldsx", pi)
			}
			a.neighbour(ph.Delta)
			bufBytes := 4 * wgs
			body := func(off uint16, loop bool) {
				myA, nbA := vMy, vNb
				if loop {
					a.add("v_add_u32 t, vcc, buf, my", g.MkVOP2(op(g.VOP2, "v_add_u32"), vTmp, vBuf, vMy))
					myA = vTmp
				}
				a.add(fmt.Sprintf("ds_write_b32 my, acc offset:%d", off), g.DSWrite(g.OpDSWriteB32, myA, vAcc, off))
				a.waitcnt(15, 0)
				a.add("s_barrier", g.Barrier())
				if loop {
					a.add("v_add_u32 t, vcc, buf, nb", g.MkVOP2(op(g.VOP2, "v_add_u32"), vTmp, vBuf, vNb))
					nbA = vTmp
				}
				a.add(fmt.Sprintf("ds_read_b32 x, nb offset:%d", off), g.DSRead(g.OpDSReadB32, vX, nbA, off))
				a.waitcnt(15, 0)
				a.fold(vX, "value written by the neighbour before the barrier")
			}
			if ph.Loop {
				a.add("v_mov_b32 buf, first buffer", g.MkVOP1(op(g.VOP1, "v_mov_b32"), vBuf, g.Lit(uint32((ldsGen%2)*bufBytes))))
				a.add(fmt.Sprintf("s_mov_b32 loop, %d", ph.N), g.MkSOP1(op(g.SOP1, "s_mov_b32"), sLoop, g.Lit(uint32(ph.N))))
				l := a.label()
				a.p.Label(l)
				body(0, true)
				a.add("v_xor_b32 buf, bufbytes, buf", g.MkVOP2(op(g.VOP2, "v_xor_b32"), vBuf, g.Lit(uint32(bufBytes)), vBuf))
				a.add("s_sub_u32 loop, loop, 1", g.MkSOP2(op(g.SOP2, "s_sub_u32"), sLoop, sLoop, g.Imm(1)))
				a.add("s_cmp_lg_u32 loop, 0", g.MkSOPC(op(g.SOPC, "s_cmp_lg_u32"), sLoop, g.Imm(0)))
				a.add("s_cbranch_scc1 generations", g.Branch(g.OpSCbranchSCC1, l))
			} else {
				for gen := 0; gen < ph.N; gen++ {
					body(uint16(((ldsGen+gen)%2)*bufBytes), false)
				}
			}
			ldsGen += ph.N
		case "globx":
			if ph.N < 1 {
				return nil, fmt.Errorf("phase %d: bad globx", pi)
			}
			a.neighbour(ph.Delta)
			for gen := 0; gen < ph.N; gen++ {
				region := (globGen) * tot
				globGen++
				// my slot: C[region + gid]
				a.add(fmt.Sprintf("v_add_u32 idx, vcc, %d, gid", region), g.MkVOP2(op(g.VOP2, "v_add_u32"), vIdx, g.Lit(uint32(region)), vGid))
				a.addr(3, sC, vIdx, "&C[region+gid]")
				a.flatStore("flat_store_dword v[3:4], acc", g.VRange(3, 2), vAcc)
				a.waitcnt(0, 15)
				a.add("s_barrier", g.Barrier())
				// neighbour slot: C[region + base + nb/4]
				a.add("v_lshrrev_b32 idx, 2, nb", g.MkVOP2(op(g.VOP2, "v_lshrrev_b32"), vIdx, g.Imm(2), vNb))
				a.add("v_add_u32 idx, vcc, base, idx", g.MkVOP2(op(g.VOP2, "v_add_u32"), vIdx, sBase, vIdx))
				a.add(fmt.Sprintf("v_add_u32 idx, vcc, %d, idx", region), g.MkVOP2(op(g.VOP2, "v_add_u32"), vIdx, g.Lit(uint32(region)), vIdx))
				a.addr(3, sC, vIdx, "&C[region+base+neighbour]")
				a.flatLoad("flat_load_dword x, v[3:4]", vX, g.VRange(3, 2))
				a.waitcnt(0, 15)
				a.fold(vX, "value stored by the neighbour before the barrier")
			}
		case "exit":
			stay := a.label()
			a.add(fmt.Sprintf("s_lshr_b32 t2, 0x%x, wave", ph.Mask), g.MkSOP2(op(g.SOP2, "s_lshr_b32"), sTmp2, g.Lit(uint32(ph.Mask)), sWave))
			a.add("s_and_b32 t2, t2, 1", g.MkSOP2(op(g.SOP2, "s_and_b32"), sTmp2, sTmp2, g.Imm(1)))
			a.add("s_cbranch_scc0 stay", g.Branch(g.OpSCbranchSCC0, stay))
			if ph.Load {
				a.addr(10, sA, vGid, "&A[gid]")
				a.flatLoad("flat_load_dword v18, v[10:11] ; long-latency load before the early exit", g.V(18), g.VRange(10, 2))
				a.waitcnt(0, 15)
				a.fold(g.V(18), "load before the early exit")
			}
			if ph.Store {
				a.storeOut()
			}
			a.add("s_endpgm ; early exit", g.Endpgm())
			a.p.Label(stay)
		default:
			return nil, fmt.Errorf("phase %d: unknown kind %q", pi, ph.Kind)
		}
	}
	// ---- epilogue
	if k.TailSLoad {
		a.add("s_lshl_b32 t, gwave, 8", g.MkSOP2(op(g.SOP2, "s_lshl_b32"), sTmp, sGWave, g.Imm(8)))
		a.add("s_add_u32 t2, t, 56", g.MkSOP2(op(g.SOP2, "s_add_u32"), sTmp2, sTmp, g.Imm(56)))
		a.add("s_load_dwordx4 s[20:23], s[10:11], t2 ; never waited for, crosses a 64-byte line",
			g.SMEMLoadSGPR(g.OpSLoadDwordx4, g.SRange(20, 4), sT, sTmp2))
	}
	a.storeOut()
	a.add("s_endpgm", g.Endpgm())

	code, offs, _, err := a.p.Assemble()
	if err != nil {
		return nil, err
	}
	bk := &builtKernel{Spec: k, Code: code, Offsets: offs, Roles: map[int]instRole{}}
	for i, o := range offs {
		r := instRole{Text: a.texts[i], VMCnt: -1, LGKCnt: -1}
		if w, ok := a.wait[i]; ok {
			r.VMCnt, r.LGKCnt = w[0], w[1]
		}
		bk.Roles[o] = r
	}
	meta := &insts.KernelCodeObjectMeta{
		ComputePgmRsrc1:             uint32((24+3)/4-1) | uint32((40+7)/8-1)<<6,
		ComputePgmRsrc2:             1 << 7, // work-group id x
		KernargSegmentByteSize:      32,
		EnableSgprKernargSegmentPtr: true,
		WFSgprCount:                 40,
		WIVgprCount:                 24,
		GroupSegmentByteSize:        uint32(k.ldsBytes()),
	}
	if k.hasManyLoad() {
		meta.WFSgprCount, meta.WIVgprCount = 64, 144
		meta.ComputePgmRsrc1 = uint32((144+3)/4-1) | uint32((64+7)/8-1)<<6
	}
	bk.CO = &insts.KernelCodeObject{KernelCodeObjectMeta: meta, Data: code, Version: insts.CodeObjectV3}
	return bk, nil
}

// ---------------------------------------------------------------------------
// data and host model

type kernelData struct {
	A, C, T []uint32
}

func genData(k kernelSpec) kernelData {
	r := vlib.NewPRNG(k.Seed)
	d := kernelData{A: make([]uint32, k.lenA()), C: make([]uint32, k.lenC()), T: make([]uint32, k.lenT())}
	for i := range d.A {
		d.A[i] = r.Uint32() | 1
	}
	for i := range d.C {
		d.C[i] = 0xC0000000 | uint32(i)
	}
	for i := range d.T {
		d.T[i] = r.Uint32() | 1
	}
	return d
}

type hostResult struct {
	B        []uint32 // expected output; 0xdeadbeef where no wavefront stores
	C        []uint32 // expected exchange area
	Barriers [][]int  // [group][wave] number of s_barrier executed
	ExitAt   [][]int  // [group][wave] phase index of the early exit, -1 = runs to the end
}

const bFill = 0xdeadbeef

// hostModel computes the expected memory contents. Semantics of a barrier
// phase: every live wavefront of the group writes, then every live wavefront
// reads (what the property demands of s_barrier); slots of wavefronts that
// have already ended keep their last value.
func hostModel(k kernelSpec, d kernelData) hostResult {
	wgs, tot := k.wgSize(), k.total()
	res := hostResult{B: make([]uint32, k.lenB()), C: append([]uint32(nil), d.C...)}
	for i := range res.B {
		res.B[i] = bFill
	}
	for wg := 0; wg < k.NWG; wg++ {
		acc := make([]uint32, wgs)
		live := make([]bool, k.W)
		bars := make([]int, k.W)
		exitAt := make([]int, k.W)
		for w := range live {
			live[w] = true
			exitAt[w] = -1
		}
		base := wg * wgs
		for l := range acc {
			acc[l] = k.Salt ^ uint32(base+l)
		}
		lds := make([]uint32, 2*wgs)
		eachLive := func(f func(w, l int)) {
			for w := 0; w < k.W; w++ {
				if live[w] {
					for l := 64 * w; l < 64*w+64; l++ {
						f(w, l)
					}
				}
			}
		}
		globGen := 0
		ldsGen := 0
		for pi, ph := range k.Phases {
			switch ph.Kind {
			case "loadwait":
				eachLive(func(w, l int) {
					for j := 0; j < ph.N; j++ {
						acc[l] = acc[l]*k.Mul + d.A[base+l+j*tot]
					}
				})
			case "manyload":
				eachLive(func(w, l int) {
					for _, c := range ph.Cons {
						acc[l] = acc[l]*k.Mul + d.A[base+l+c*tot]
					}
					for _, c := range ph.Rest {
						acc[l] = acc[l]*k.Mul + d.A[base+l+c*tot]
					}
					for i := 0; i < ph.S; i++ {
						acc[l] = acc[l]*k.Mul + d.T[tSliceDwords*(wg*k.W+w)+4*i]
					}
				})
			case "sload":
				eachLive(func(w, l int) {
					for _, ld := range ph.sloads() {
						for j := 0; j < ld.W; j++ {
							acc[l] = acc[l]*k.Mul + d.T[tSliceDwords*(wg*k.W+w)+ld.Off/4+j]
						}
					}
				})
			case "delay", "wdelay":
			case "ldsx":
				for gen := 0; gen < ph.N; gen++ {
					b := (ldsGen % 2) * wgs
					ldsGen++
					eachLive(func(w, l int) { lds[b+l] = acc[l] })
					eachLive(func(w, l int) { acc[l] = acc[l]*k.Mul + lds[b+(l+ph.Delta)%wgs] })
					for w := range live {
						if live[w] {
							bars[w]++
						}
					}
				}
			case "globx":
				for gen := 0; gen < ph.N; gen++ {
					region := globGen * tot
					globGen++
					eachLive(func(w, l int) { res.C[region+base+l] = acc[l] })
					eachLive(func(w, l int) { acc[l] = acc[l]*k.Mul + res.C[region+base+(l+ph.Delta)%wgs] })
					for w := range live {
						if live[w] {
							bars[w]++
						}
					}
				}
			case "exit":
				for w := 0; w < k.W; w++ {
					if live[w] && ph.Mask>>uint(w)&1 == 1 {
						if ph.Load {
							for l := 64 * w; l < 64*w+64; l++ {
								acc[l] = acc[l]*k.Mul + d.A[base+l]
							}
						}
						if ph.Store {
							for l := 64 * w; l < 64*w+64; l++ {
								res.B[base+l] = acc[l]
							}
						}
						live[w] = false
						exitAt[w] = pi
					}
				}
			}
		}
		eachLive(func(w, l int) { res.B[base+l] = acc[l] })
		res.Barriers = append(res.Barriers, bars)
		res.ExitAt = append(res.ExitAt, exitAt)
	}
	return res
}

func u32Bytes(v []uint32) []byte {
	b := make([]byte, 4*len(v))
	for i, x := range v {
		binary.LittleEndian.PutUint32(b[4*i:], x)
	}
	return b
}

func bytesU32(b []byte) []uint32 {
	v := make([]uint32, len(b)/4)
	for i := range v {
		v[i] = binary.LittleEndian.Uint32(b[4*i:])
	}
	return v
}
