package main

import (
	"encoding/json"
	"fmt"
	"os"
	"strings"
	"sync/atomic"
	"time"

	"github.com/sarchlab/akita/v4/sim"
	"github.com/sarchlab/mgpusim/v4/amd/driver"
	"github.com/sarchlab/mgpusim/v4/amd/insts"

	"verifharness/vlib"
	"verifharness/vlib/plat"
)

// Harness 2: the generated programs through the real driver on the full
// r9nano timing platform and on the emulation platform; final buffers are
// compared with the host model (and thereby with each other).

type e2eCase struct {
	ID     string     `json:"id"`
	Kernel kernelSpec `json:"kernel"`
	Timing bool       `json:"timing"`
}

type e2eArgs struct {
	A, B, C, T driver.Ptr
}

type evCounter struct{ n int64 }

func (c *evCounter) Func(ctx sim.HookCtx) {
	if ctx.Pos == sim.HookPosBeforeEvent {
		atomic.AddInt64(&c.n, 1)
	}
}

func e2eChild() {
	var ec e2eCase
	if err := json.Unmarshal([]byte(os.Args[2]), &ec); err != nil {
		panic(err)
	}
	rec := vlib.ChildRec()
	sim.GetIDGenerator()
	bk, err := buildKernel(ec.Kernel)
	if err != nil {
		panic(err)
	}
	k := ec.Kernel
	d := genData(k)
	cfg := plat.Config{Timing: ec.Timing}
	if k.cdna3() { // MI300A timing platform / CDNA3 emulation platform
		cfg.Arch = "cdna3"
		if ec.Timing {
			cfg.GPUType = "mi300a"
		}
	}
	p := plat.Build(cfg)
	cnt := &evCounter{}
	if h, ok := p.Engine.(sim.Hookable); ok {
		h.AcceptHook(cnt)
	}
	drv := p.Driver
	drv.Run()
	ctx := drv.Init()
	bufA := drv.AllocateMemory(ctx, uint64(4*k.lenA()))
	bufB := drv.AllocateMemory(ctx, uint64(4*k.lenB()))
	bufC := drv.AllocateMemory(ctx, uint64(4*k.lenC()))
	bufT := drv.AllocateMemory(ctx, uint64(4*k.lenT()))
	fill := make([]uint32, k.lenB())
	for i := range fill {
		fill[i] = bFill
	}
	drv.MemCopyH2D(ctx, bufA, d.A)
	drv.MemCopyH2D(ctx, bufB, fill)
	drv.MemCopyH2D(ctx, bufC, d.C)
	drv.MemCopyH2D(ctx, bufT, d.T)
	q := drv.CreateCommandQueue(ctx)
	args := e2eArgs{A: bufA, B: bufB, C: bufC, T: bufT}
	var drained int32
	// logical deadlock predicate: the engine goroutine has exited (event queue
	// empty, nobody kicked it) while the kernel launch has not completed. The
	// polling only establishes that the state is stable.
	go func() {
		stable := 0
		last := int64(-1)
		for atomic.LoadInt32(&drained) == 0 {
			time.Sleep(100 * time.Millisecond)
			running, kicked := drv.VerifEngineState()
			n := atomic.LoadInt64(&cnt.n)
			if !running && !kicked && n == last && atomic.LoadInt32(&drained) == 0 {
				stable++
			} else {
				stable = 0
			}
			last = n
			if stable >= 60 {
				rec.Note("verdict", "deadlock")
				rec.Note("events", n)
				os.Exit(0)
			}
		}
	}()
	drv.EnqueueLaunchKernel(q, bk.CO, [3]uint32{uint32(k.total()), 1, 1}, [3]uint16{uint16(k.wgSize()), 1, 1}, &args)
	drv.DrainCommandQueue(q)
	atomic.StoreInt32(&drained, 1)
	outB := make([]uint32, k.lenB())
	outC := make([]uint32, k.lenC())
	drv.MemCopyD2H(ctx, outB, bufB)
	drv.MemCopyD2H(ctx, outC, bufC)
	rec.Note("result", map[string]any{"b": outB, "c": outC})
	rec.Note("verdict", "done")
	os.Exit(0)
}

func toU32(v any) []uint32 {
	arr, _ := v.([]any)
	out := make([]uint32, len(arr))
	for i, x := range arr {
		f, _ := x.(float64)
		out[i] = uint32(f)
	}
	return out
}

func stripExits(k kernelSpec) kernelSpec {
	var ph []phase
	for _, p := range k.Phases {
		if p.Kind != "exit" {
			ph = append(ph, p)
		}
	}
	k.Phases = ph
	return k
}

func e2eCases(c *vlib.Check) []e2eCase {
	var out []e2eCase
	mk := func(w, nwg int, ph ...phase) kernelSpec {
		return kernelSpec{W: w, NWG: nwg, Mul: 0x01000193, Salt: 0x9e3779b9, Seed: 1415, Phases: ph}
	}
	// canonical: occupancy 130 groups on 64 compute units, and the early exit
	canon := []kernelSpec{
		mk(4, 130, phase{Kind: "loadwait", N: 3, K: 1}, phase{Kind: "delay", Base: 1, Per: 9, Mask: 3}, phase{Kind: "ldsx", N: 2, Loop: true, Delta: 64}),
		mk(2, 1, phase{Kind: "exit", Mask: 1}, phase{Kind: "delay", Base: 30, Mask: 1}, phase{Kind: "ldsx", N: 1, Delta: 64}),
		// three of six wavefronts leave one after the other when the rest is parked at the 2nd barrier
		eeKernel(eeSpec{W: 6, NWG: 3, Exits: []int{4, 0, 3}, Before: 1, After: 2, Order: "late", Store: true}, nil, 0x01000193, 0x9e3779b9, 1419),
	}
	for i, k := range canon {
		out = append(out, e2eCase{ID: fmt.Sprintf("canon-e2e-%d-timing", i), Kernel: k, Timing: true})
		out = append(out, e2eCase{ID: fmt.Sprintf("canon-e2e-%d-emu", i), Kernel: k, Timing: false})
	}
	// many loads in flight and wait counts around 15, on the r9nano and on the MI300A platform
	many := []kernelSpec{
		{Arch: "cdna3", W: 1, NWG: 3, Mul: 0x01000193, Salt: 0x9e3779b9, Seed: 1417, Phases: []phase{
			{Kind: "manyload", N: 18, VM: 15, LG: 15, Cons: []int{0, 1, 2}, Rest: []int{17, 9}}, manyload(40, 16, 15, 0, 63), manyload(24, 63, 15, 4, 63)}},
		{W: 1, NWG: 3, Mul: 0x01000193, Salt: 0x9e3779b9, Seed: 1418, Phases: []phase{manyload(40, 8, 15, 0, 15), manyload(18, 14, 15, 0, 15), manyload(18, 15, 15, 0, 15)}},
	}
	for i, k := range many {
		out = append(out, e2eCase{ID: fmt.Sprintf("canon-e2e-manyload-%s-%d-timing", k.archName(), i), Kernel: k, Timing: true})
		out = append(out, e2eCase{ID: fmt.Sprintf("canon-e2e-manyload-%s-%d-emu", k.archName(), i), Kernel: k, Timing: false})
	}
	base := c.Rand("e2e")
	n := c.N(3, 40)
	for i := 0; i < n; i++ {
		r := base.ForkN("e2e", i)
		k := stripExits(genKernel(r, false))
		k.NWG = []int{1, 3, 17, 70, 129}[r.Intn(5)]
		if k.W > 8 && k.NWG > 17 {
			k.W = 1 + r.Intn(8)
			for j := range k.Phases { // neighbour distances depend on the group size
				if k.Phases[j].Kind == "ldsx" || k.Phases[j].Kind == "globx" {
					k.Phases[j].Delta = neighbourDelta(r, k.W)
				}
			}
		}
		out = append(out, e2eCase{ID: fmt.Sprintf("e2e-%d-timing", i), Kernel: k, Timing: true})
		out = append(out, e2eCase{ID: fmt.Sprintf("e2e-%d-emu", i), Kernel: k, Timing: false})
	}
	return out
}

func firstPanicLine(s string) string {
	for _, l := range strings.Split(s, "\n") {
		if strings.Contains(l, "panic:") || strings.Contains(l, "Panic:") || strings.Contains(l, "fatal error:") {
			if len(l) > 300 {
				l = l[:300]
			}
			return l
		}
	}
	if len(s) > 300 {
		s = s[len(s)-300:]
	}
	return s
}

func runE2E(c *vlib.Check, cases []e2eCase) {
	if len(cases) == 0 {
		return
	}
	scratch, cleanup := vlib.Scratch("c14e2e")
	defer cleanup()
	vlib.Parallel(len(cases), 5, func(i int) {
		ec := cases[i]
		js, _ := json.Marshal(ec)
		res := vlib.RunChild(scratch, 20*time.Minute, []string{"GOMAXPROCS=2"}, "e2e", string(js))
		notes := c.AbsorbFile(res.RecPath)
		c.Eval()
		c.Count("e2e_runs", 1)
		mode := "emu"
		if ec.Timing {
			mode = "timing"
		}
		c.Distinct("e2e_geometry", fmt.Sprintf("%s %dx%d", mode, ec.Kernel.NWG, ec.Kernel.W))
		wit := map[string]any{"e2e_case": ec}
		k := ec.Kernel
		host := hostModel(k, genData(k))
		early := barriersSkippedByExit(host)
		verdict := ""
		if v := notes["verdict"]; len(v) > 0 {
			verdict, _ = v[0].(string)
		}
		defer os.RemoveAll(res.Dir)
		switch {
		case res.TimedOut:
			c.Inconclusive(fmt.Sprintf("e2e %s: watchdog fired", ec.ID))
			return
		case verdict == "deadlock":
			key := "C14|e2e|" + mode + "|kernel-never-completes"
			if early {
				key += "|program-with-early-exit"
			}
			c.Violation(key, fmt.Sprintf("[%s] engine idle while the kernel launch has not completed (%dx%d wavefronts)", ec.ID, k.NWG, k.W), wit)
			return
		case verdict != "done":
			line := firstPanicLine(vlib.Tail(res.OutPath, 6000))
			wit["failure"] = line
			key := "C14|e2e|" + mode + "|crash|" + sanitize(line)
			if strings.Contains(line, "not all wavefronts at barrier") && early {
				key = "C14|e2e|emu|crash|not-all-wavefronts-at-barrier|program-with-early-exit"
			}
			c.Violation(key, fmt.Sprintf("[%s] run crashed: %s", ec.ID, line), wit)
			return
		}
		r, _ := notes["result"]
		if len(r) == 0 {
			c.Inconclusive(fmt.Sprintf("e2e %s: no result record", ec.ID))
			return
		}
		m, _ := r[0].(map[string]any)
		gotB, gotC := toU32(m["b"]), toU32(m["c"])
		if kx := firstDiff(gotB, host.B); kx >= 0 {
			wit["index"] = kx
			c.Violation("C14|e2e|"+mode+"|values|output-differs-from-host-model",
				fmt.Sprintf("[%s] B[%d] = 0x%08x, host model 0x%08x", ec.ID, kx, gotB[kx], host.B[kx]), wit)
			return
		}
		if kx := firstDiff(gotC, host.C); kx >= 0 {
			wit["index"] = kx
			c.Violation("C14|e2e|"+mode+"|values|exchange-area-differs-from-host-model",
				fmt.Sprintf("[%s] C[%d] = 0x%08x, host model 0x%08x", ec.ID, kx, gotC[kx], host.C[kx]), wit)
			return
		}
		c.Count("e2e_runs_compared", 1)
		c.Count("e2e_words_compared", int64(len(gotB)+len(gotC)))
	})
}

// dumpKernel prints the disassembly of a canonical scenario's kernel with the
// simulator's own decoder (development aid: C14_DUMP=<scenario name>).
func dumpKernel(name string) {
	for _, sc := range append(canonical(), canonicalEarlyExit()...) {
		if sc.Name != name {
			continue
		}
		bk, err := buildKernel(sc.Kernel)
		if err != nil {
			fmt.Println(err)
			return
		}
		dis := insts.NewDisassembler()
		for _, o := range bk.Offsets {
			in, err := dis.Decode(bk.Code[o:])
			txt := "?"
			if err == nil {
				txt = insts.NewInstPrinter(nil).Print(in)
			}
			fmt.Printf("%04x  %-50s ; %s\n", o, txt, bk.Roles[o].Text)
		}
	}
}
