// w_c14: barriers, wait counts and wavefront termination order in the timing
// compute unit (DESIGN.md, C14).
//
// Harness 1: one real timing compute unit (cu.MakeBuilder) wired to fake
// memories (instruction, scalar, vector; one flat storage, PRNG latencies,
// throttled bandwidth, optionally reordering behind real reorder buffers) and
// to a fake dispatcher that maps work-groups built by the real grid builder at
// the resource offsets the command processor's pool would hand out. A tracer on
// the compute unit and hooks on its ports record issue/completion of every
// instruction, the response of every memory transaction and the completion
// messages; the rules R1..R5 are evaluated offline on that record. The same
// code object runs on the real emulation compute unit as reference.
//
// Harness 2: the same programs through the real driver on the r9nano timing
// platform and the emulation platform (child process per run).
package main

import (
	"encoding/json"
	"fmt"
	"os"

	"github.com/sarchlab/akita/v4/sim"

	"verifharness/vlib"
)

func readReplay(path string) (*scenario, *e2eCase, *emuLinkScenario) {
	b, err := os.ReadFile(path)
	if err != nil {
		fmt.Println("cannot read replay file:", err)
		os.Exit(2)
	}
	var f struct {
		Witness struct {
			Scenario *scenario        `json:"scenario"`
			E2E      *e2eCase         `json:"e2e_case"`
			EmuLink  *emuLinkScenario `json:"emu_link_scenario"`
		} `json:"witness"`
	}
	if err := json.Unmarshal(b, &f); err != nil {
		fmt.Println("cannot parse replay file:", err)
		os.Exit(2)
	}
	return f.Witness.Scenario, f.Witness.E2E, f.Witness.EmuLink
}

func main() {
	if len(os.Args) > 1 && os.Args[1] == "e2e" {
		e2eChild()
		return
	}
	var replaySc *scenario
	var replayE2E *e2eCase
	var replayEL *emuLinkScenario
	for i, a := range os.Args {
		if a == "--replay" && i+1 < len(os.Args) {
			replaySc, replayE2E, replayEL = readReplay(os.Args[i+1]) // before vlib.Start deletes it
		}
	}
	if os.Getenv("C14_DUMP") != "" {
		dumpKernel(os.Getenv("C14_DUMP"))
		return
	}
	c := vlib.Start("C14")
	sim.GetIDGenerator()

	var scs []scenario
	var e2es []e2eCase
	var els []emuLinkScenario
	if spec := os.Getenv("C14_SPEC"); spec != "" { // development aid: one kernel in a quiet environment
		var k kernelSpec
		if err := json.Unmarshal([]byte(spec), &k); err != nil {
			panic(err)
		}
		sc := canonical()[0]
		sc.Name, sc.Kernel = "spec", k
		replaySc = &sc
	}
	switch {
	case replaySc != nil:
		scs = []scenario{*replaySc}
	case replayE2E != nil:
		e2es = []e2eCase{*replayE2E}
	case replayEL != nil:
		els = []emuLinkScenario{*replayEL}
	case os.Getenv("C14_ONLY_EMULINK") != "": // development aid
		els = canonicalEmuLink()
	default:
		// layer: emulation CU whose completion messages meet a stalling connection / receiver
		els = canonicalEmuLink()
		if os.Getenv("C14_ONLY_CANONICAL") == "" {
			eb := c.Rand("emu-link")
			for i, n := 0, c.N(60, 1500); i < n; i++ {
				els = append(els, genEmuLink(eb.ForkN("el", i), i))
			}
		}
		scs = append(canonical(), canonicalManyLoad()...)
		scs = append(scs, canonicalEarlyExit()...)
		if os.Getenv("C14_ONLY_MANYLOAD") != "" { // development aid
			scs, els = canonicalManyLoad(), nil
		}
		if os.Getenv("C14_ONLY_EARLYEXIT") != "" { // development aid
			scs, els = canonicalEarlyExit(), nil
		}
		// layer: early exits in a chosen order relative to the others' arrival at the barrier
		if os.Getenv("C14_ONLY_CANONICAL") == "" && os.Getenv("C14_ONLY_MANYLOAD") == "" {
			xb := c.Rand("early-exit")
			for i, n := 0, c.N(90, 3000); i < n; i++ {
				scs = append(scs, genEarlyExit(xb.ForkN("ee", i), i))
			}
		}
		if os.Getenv("C14_ONLY_CANONICAL") == "" {
			mb := c.Rand("manyload")
			for i, n := 0, c.N(40, 1200); i < n; i++ {
				scs = append(scs, genManyLoad(mb.ForkN("ml", i), i))
			}
		}
		if os.Getenv("C14_ONLY_CANONICAL") == "" && os.Getenv("C14_ONLY_MANYLOAD") == "" && os.Getenv("C14_ONLY_EARLYEXIT") == "" {
			n := c.N(150, 5000)
			base := c.Rand("scenarios")
			for i := 0; i < n; i++ {
				scs = append(scs, genScenario(base.ForkN("s", i), i))
			}
		}
		if os.Getenv("C14_NO_E2E") == "" {
			e2es = e2eCases(c)
		}
	}
	results := make([]caseResult, len(scs))
	done := make(chan struct{})
	go func() {
		runE2E(c, e2es)
		close(done)
	}()
	vlib.Parallel(len(scs)+len(els), 0, func(i int) {
		if i < len(scs) {
			results[i] = runCase(c, scs[i])
		} else {
			runEmuLink(c, els[i-len(scs)])
		}
	})
	<-done
	var maxLate, maxEvents int64
	for _, r := range results {
		maxLate = max(maxLate, r.maxLate)
		maxEvents = max(maxEvents, r.events)
	}
	c.Set("max_barrier_lateness_cycles", maxLate)
	c.Set("max_engine_events_in_one_run", maxEvents)
	fmt.Printf("[C14] max barrier lateness %d cycles; largest run %d engine events (bound %d)\n", maxLate, maxEvents, eventLimit(scenario{}))
	replay := replaySc != nil || replayE2E != nil || replayEL != nil
	opts := vlib.FinishOpts{
		Rule: "case = (generated GCN3 program, memory/dispatcher environment) on one real timing compute unit, plus the same programs through the driver " +
			"on the r9nano timing and the emulation platform; generated from VERIF_SEED plus a fixed canonical battery. " +
			"non-trivial = single-CU run without violation in which some wavefront issued an s_barrier >= 100 cycles after another wavefront of its " +
			"group issued the same generation, or an s_waitcnt was issued with more memory instructions outstanding than it allows (it had to stall). " +
			"early-exit layer: 0..W-1 wavefronts of a group of 2..16 leave before the 1st..4th barrier, per-wavefront delay tables / a long-latency load decide whether they end " +
			"before, between or after the others' arrivals; the counters early_exits_* say from the trace which order occurred (an exit 'had to release the barrier' when at the cycle " +
			"its s_endpgm completed every other wavefront of the group had ended or had been parked at the skipped barrier for >= 2 cycles)",
		Assumptions: []string{
			"issue = start and completion = first end of the compute unit's tracing task of kind \"inst\"; completion of a memory instruction = the cycle the compute unit retrieved the last response of its transactions from its memory port (request->instruction mapping from the req_out tasks)",
			"the compute unit's memory ports deliver responses in request order (fake memories are FIFO, or reorder behind the real reorder buffer as in the shipped shader array)",
			"memory accesses take effect when the fake memory takes the request from its port; virtual = physical",
			"lgkmcnt is judged against scalar-memory and LDS instructions only (FLAT instructions are not counted towards it)",
			"the requested counts of an s_waitcnt are the field values the harness itself encoded (SIMM16: vmcnt [3:0] and, with CDNA3 decoding, [15:14]; lgkmcnt [11:8]); the all-ones value of a field (vmcnt 15 on GCN3, 63 with CDNA3 decoding; lgkmcnt 15) requests no wait and imposes no bound; vector memory responses return in request order, so vmcnt(n) guarantees all but the newest n loads",
			"resource offsets are computed by a re-implementation of the command processor's first-fit pool (the pool is an internal package)",
			"expected values come from a host model of the generated programs (barrier phase = all live wavefronts write, then all read); emulation is compared against the same model",
			"emu-link layer: 'last wavefront ended' = the emulation CU's instruction hook has reported s_endpgm for every wavefront of the group; 'results in memory' = the group's slice of B in the shared mem.Storage equals the host model at the moment the WGCompletionMsg is pushed into the CU's port; stall windows end within 300 cycles of the Send they make fail (the emulation CU retries every cycle)",
		},
	}
	if replay { // a replay is judged by its violations alone
		c.Nontrivial("replay")
		c.Nontrivial("replay-")
	}
	runScoreboardLayer(c, replay)
	if !replay {
		opts.MinNontrivial = c.N(40, 1000)
		opts.MinCounters = map[string]int64{
			"barrier_generations": 200,
			"scoreboard_reads_of_registers_with_a_write_in_flight": int64(c.N(5000, 200000)),
			"barrier_generations_late_100":                         30,
			"waitcnt_had_to_stall":                                 200,
			"waitcnt_nonzero_outstanding_at_issue":                 200,
			"endpgm_issued_with_memory_outstanding":                50,
			"wg_results_checked_at_completion":                     100,
			"early_exit_cases":                                     60,
			"early_exit_cases_completed":                           60,
			// early exits in every order relative to the others' arrival at the barrier (counted from the trace)
			"work_groups_with_2_or_more_early_exits":                                                           80,
			"work_groups_with_2_or_more_early_exits_after_the_staying_wavefronts_parked":                       60,
			"early_exits_after_the_staying_wavefronts_parked_2nd_or_later_of_the_group":                        200,
			"early_exits_that_had_to_release_the_barrier":                                                      90,
			"early_exits_that_had_to_release_the_barrier_with_another_wavefront_already_ended":                 70,
			"early_exits_that_had_to_release_the_barrier_with_2_or_more_wavefronts_already_ended":              45,
			"early_exits_that_had_to_release_the_2nd_or_a_later_barrier":                                       35,
			"early_exits_that_had_to_release_the_barrier_with_another_ended_and_more_than_16_parked_on_the_cu": 8,
			"early_exits_before_any_other_wavefront_arrived_at_the_barrier":                                    50,
			"early_exits_between_arrivals_at_the_barrier":                                                      20,
			"output_words_compared": 10000,
			"e2e_runs_compared":     8,
			// wait counts with many loads in flight, per architecture
			"waitcnt_issued_with_more_than_15_vector_loads_in_flight_gcn3":        20,
			"waitcnt_issued_with_more_than_15_vector_loads_in_flight_cdna3":       30,
			"waitcnt_nonzero_vmcnt_had_to_wait_with_more_than_15_in_flight_gcn3":  15,
			"waitcnt_nonzero_vmcnt_had_to_wait_with_more_than_15_in_flight_cdna3": 25,
			"waitcnt_vmcnt_15_to_62_cdna3_had_to_wait":                            12,

			"emu_link_scenarios":                                               30,
			"emu_link_groups_mapped":                                           250,
			"emu_link_completion_msgs_with_2_or_more_ids":                      40,
			"emu_link_completion_batches_with_2_or_more_ids_whose_send_failed": 10,
			"emu_link_stall_windows_that_held_a_completion":                    25,
			"emu_link_result_words_checked_at_completion":                      20000,
			"emu_link_barriers_executed":                                       500,
		}
		if os.Getenv("C14_NO_E2E") != "" || os.Getenv("C14_ONLY_CANONICAL") != "" || os.Getenv("C14_ONLY_EMULINK") != "" ||
			os.Getenv("C14_ONLY_MANYLOAD") != "" || os.Getenv("C14_ONLY_EARLYEXIT") != "" {
			opts.MinCounters = nil
			opts.MinNontrivial = 2
		}
	}
	c.Finish(opts)
}
