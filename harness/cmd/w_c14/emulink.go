package main

// Layer "emulation CU behind a slow receiver" (rule R5 for the emulation
// compute unit): the real emu.ComputeUnit runs the generated barrier programs
// while the path that carries its WGCompletionMsgs to the dispatcher stalls -
// either the connection does not take messages out of the CU's one-entry port
// buffer for a window ("link"), or the dispatcher (one-entry incoming buffer)
// does not drain its port ("receiver"). The emulation CU steps at whole
// simulated seconds and reports everything that finished in a step as one
// message, so work-groups are mapped over several steps; a window that spans
// two (link) or three (receiver) steps makes the Send of a later multi-id
// batch fail and exercises the CU's retry path.
//
// Oracle (R5): every mapped work-group is reported complete exactly once, only
// after all its wavefronts executed s_endpgm (instruction hook), with its
// stores visible in the shared storage when the message is sent (its slice of
// B equals the host model), and nothing is outstanding when the engine is idle.
//
// The link and the reporting port adapter are copies of the pieces of
// cmd/w_c09/real.go (workers are separate main packages).

import (
	"fmt"
	"strings"

	"github.com/sarchlab/akita/v4/mem/mem"
	"github.com/sarchlab/akita/v4/mem/vm"
	"github.com/sarchlab/akita/v4/sim"
	"github.com/sarchlab/mgpusim/v4/amd/emu"
	"github.com/sarchlab/mgpusim/v4/amd/insts"
	"github.com/sarchlab/mgpusim/v4/amd/kernels"
	"github.com/sarchlab/mgpusim/v4/amd/protocol"

	"verifharness/vlib"
	"verifharness/vlib/simkit"
)

const sec = int64(1_000_000_000) // cycles per simulated second at 1 GHz

type window struct {
	From  int64 `json:"from_cycle"`
	Until int64 `json:"until_cycle"` // exclusive
}

type emuLinkScenario struct {
	Name   string     `json:"name"`
	Kernel kernelSpec `json:"kernel"`
	NCU    int        `json:"num_cu"`
	Mode   string     `json:"mode"` // link | receiver
	// per work-group: the second in which it is mapped, the cycle inside that
	// second, the CU
	Step []int   `json:"group_step"`
	Off  []int64 `json:"group_offset_cycles"`
	CU   []int   `json:"group_cu"`
	// link: per CU, windows in which the connection does not serve the CU's
	// port; receiver: Stalls[0] = windows in which the dispatcher does not
	// take messages from its port
	Stalls [][]window `json:"stall_windows"`
}

// ---------------------------------------------------------------------------
// connection with per-port stall windows (event driven, no polling)

type stallLink struct {
	*sim.TickingComponent
	engine sim.Engine
	freq   sim.Freq
	ports  []sim.Port
	byName map[sim.RemotePort]sim.Port
	stalls map[sim.RemotePort][]window
	wakes  map[int64]bool
	hit    map[string]bool // window in which a message was seen waiting
}

func newStallLink(engine sim.Engine, freq sim.Freq) *stallLink {
	l := &stallLink{engine: engine, freq: freq, byName: map[sim.RemotePort]sim.Port{}, stalls: map[sim.RemotePort][]window{},
		wakes: map[int64]bool{}, hit: map[string]bool{}}
	l.TickingComponent = sim.NewSecondaryTickingComponent("StallLink", engine, freq, l)
	return l
}

func (l *stallLink) PlugIn(p sim.Port) {
	l.ports = append(l.ports, p)
	l.byName[p.AsRemote()] = p
	p.SetConnection(l)
}
func (l *stallLink) Unplug(sim.Port) { panic("not supported") }
func (l *stallLink) NotifyAvailable(p sim.Port) {
	for _, o := range l.ports {
		if o != p {
			o.NotifyAvailable()
		}
	}
	l.TickNow()
}
func (l *stallLink) NotifySend() { l.TickNow() }

func wakeAt(engine sim.Engine, freq sim.Freq, h sim.Handler, cycle int64) {
	engine.Schedule(sim.MakeTickEvent(h, sim.VTimeInSec(float64(cycle)/float64(freq))))
}

func inWindow(ws []window, now int64) (int, int64) {
	for i, w := range ws {
		if now >= w.From && now < w.Until {
			return i, w.Until
		}
	}
	return -1, 0
}

func (l *stallLink) Tick() bool {
	progress := false
	now := simkit.Cycle(l.engine.CurrentTime(), l.freq)
	for _, p := range l.ports {
		for {
			head := p.PeekOutgoing()
			if head == nil {
				break
			}
			if wi, until := inWindow(l.stalls[p.AsRemote()], now); wi >= 0 {
				l.hit[fmt.Sprintf("%s/%d", p.Name(), wi)] = true
				if !l.wakes[until] {
					l.wakes[until] = true
					wakeAt(l.engine, l.freq, l.TickingComponent, until)
				}
				break
			}
			dst := l.byName[head.Meta().Dst]
			if dst == nil {
				panic(fmt.Sprintf("link: %T for unknown port %s", head, head.Meta().Dst))
			}
			if dst.Deliver(head) != nil {
				break
			}
			p.RetrieveOutgoing()
			progress = true
		}
	}
	return progress
}

func (l *stallLink) busy() bool {
	for _, p := range l.ports {
		if p.PeekOutgoing() != nil {
			return true
		}
	}
	return false
}

// reportingPort reports Sends that return an error (not observable otherwise).
type reportingPort struct {
	sim.Port
	onFail func(m sim.Msg)
}

func (p *reportingPort) Send(m sim.Msg) *sim.SendError {
	err := p.Port.Send(m)
	if err != nil && p.onFail != nil {
		p.onFail(m)
	}
	return err
}

// ---------------------------------------------------------------------------
// dispatcher stand-in: maps the groups at their planned cycles, sleeps in
// between, takes completion messages unless its receiver stalls

type stepGroup struct {
	idx    int
	wg     *kernels.WorkGroup
	req    *protocol.MapWGReq
	at     int64
	cu     int
	sent   bool
	recvAt []int64 // dispatcher took a message naming the group
}

type stepDisp struct {
	*simkit.Agent
	port   sim.Port
	groups []*stepGroup
	stalls []window
	hit    map[int]bool
	woken  map[int64]bool
}

func (d *stepDisp) tick(a *simkit.Agent) bool {
	progress := false
	now := a.NowCycle()
	for _, g := range d.groups {
		if g.sent || g.at > now {
			continue
		}
		if d.port.Send(g.req) != nil {
			break
		}
		g.sent = true
		progress = true
	}
	if d.port.PeekIncoming() != nil {
		if wi, until := inWindow(d.stalls, now); wi >= 0 {
			d.hit[wi] = true
			if !d.woken[until] {
				d.woken[until] = true
				wakeAt(a.Engine, a.Freq, a.TickingComponent, until)
			}
			return progress
		}
		for {
			m := d.port.RetrieveIncoming()
			if m == nil {
				break
			}
			progress = true
			if c, ok := m.(*protocol.WGCompletionMsg); ok {
				for _, id := range c.RspTo {
					for _, g := range d.groups {
						if g.req.ID == id {
							g.recvAt = append(g.recvAt, now)
						}
					}
				}
			}
		}
	}
	return progress
}

// ---------------------------------------------------------------------------

type endHook struct {
	ended map[string]bool // wavefront UID -> executed s_endpgm
	nBar  int64
	nInst int64
}

func (h *endHook) Func(ctx sim.HookCtx) {
	wf, ok := ctx.Item.(*emu.Wavefront)
	if !ok {
		return
	}
	in, ok := ctx.Detail.(*insts.Inst)
	if !ok {
		return
	}
	h.nInst++
	if in.FormatType == insts.SOPP && in.Opcode == 1 {
		h.ended[wf.UID] = true
	}
	if in.FormatType == insts.SOPP && in.Opcode == 10 {
		h.nBar++
	}
}

type elViol struct {
	seen map[string]bool
	rec  vlib.Recorder
	sc   emuLinkScenario
}

func (v *elViol) viol(key, what string, extra map[string]any) {
	if verbose && !v.seen[key] {
		fmt.Printf("  [%s] %s: %s\n", v.sc.Name, key, what)
	}
	if v.seen[key] {
		return
	}
	v.seen[key] = true
	w := map[string]any{"emu_link_scenario": v.sc}
	for k, x := range extra {
		w[k] = x
	}
	v.rec.Violation(key, "["+v.sc.Name+"] "+what, w)
}

func runEmuLink(rec vlib.Recorder, sc emuLinkScenario) {
	rec.Eval()
	k := sc.Kernel
	bk, err := buildKernel(k)
	if err != nil || len(sc.Step) != k.NWG || len(sc.Off) != k.NWG || len(sc.CU) != k.NWG {
		rec.Inconclusive(fmt.Sprintf("emulation-link scenario %s: malformed (%v)", sc.Name, err))
		return
	}
	v := &elViol{seen: map[string]bool{}, rec: rec, sc: sc}
	d := genData(k)
	l := layoutFor(k)
	host := hostModel(k, d)
	wgs := k.wgSize()

	engine := sim.NewSerialEngine()
	freq := 1 * sim.GHz
	nowCycle := func() int64 { return simkit.Cycle(engine.CurrentTime(), freq) }
	storage := mem.NewStorage(uint64(align(l.End, 1<<12)) + 1<<12)
	if err := storage.Write(0, initialImage(bk, d, l)); err != nil {
		rec.Inconclusive(fmt.Sprintf("emulation-link scenario %s: %v", sc.Name, err))
		return
	}
	pt := vm.NewPageTable(12)
	for a := uint64(0); a < l.End+4096; a += 4096 {
		pt.Insert(vm.Page{PID: 1, VAddr: a, PAddr: a, PageSize: 4096, Valid: true})
	}
	link := newStallLink(engine, freq)
	disp := &stepDisp{hit: map[int]bool{}, woken: map[int64]bool{}}
	disp.Agent = simkit.NewAgent("Disp", engine, freq)
	inBuf := 4
	if sc.Mode == "receiver" {
		inBuf = 1
		if len(sc.Stalls) > 0 {
			disp.stalls = sc.Stalls[0]
		}
	}
	disp.port = disp.Agent.NewPort("ToCU", inBuf, 64)
	disp.Agent.TickFn = disp.tick
	link.PlugIn(disp.port)

	hook := &endHook{ended: map[string]bool{}}
	type failed struct {
		cycle int64
		ids   []string
	}
	var fails []failed
	var cuPorts []sim.Port
	dis := insts.NewDisassembler()
	for i := 0; i < sc.NCU; i++ {
		c := emu.BuildComputeUnit("EmuCU"+fmt.Sprint(i), engine, dis, pt, 12, storage, nil)
		inner := c.ToDispatcher
		c.ToDispatcher = &reportingPort{Port: inner, onFail: func(m sim.Msg) {
			if cm, ok := m.(*protocol.WGCompletionMsg); ok {
				fails = append(fails, failed{cycle: nowCycle(), ids: append([]string(nil), cm.RspTo...)})
			}
		}}
		c.AcceptHook(hook)
		link.PlugIn(inner)
		if sc.Mode == "link" && i < len(sc.Stalls) {
			link.stalls[inner.AsRemote()] = sc.Stalls[i]
		}
		cuPorts = append(cuPorts, inner)
	}

	// work-groups from the real grid builder
	gb := kernels.NewGridBuilder()
	gb.SetKernel(kernels.KernelLaunchInfo{CodeObject: bk.CO, Packet: packetFor(k), PacketAddr: addrPacket})
	byID := map[string]*stepGroup{}
	for {
		wg := gb.NextWG()
		if wg == nil {
			break
		}
		i := len(disp.groups)
		if i >= k.NWG {
			rec.Inconclusive(fmt.Sprintf("emulation-link scenario %s: grid builder produced more groups than planned", sc.Name))
			return
		}
		cu := sc.CU[i] % sc.NCU
		b := protocol.MapWGReqBuilder{}.WithSrc(disp.port.AsRemote()).WithDst(cuPorts[cu].AsRemote()).WithPID(1).WithWG(wg)
		for _, wf := range wg.Wavefronts {
			b = b.AddWf(protocol.WfDispatchLocation{Wavefront: wf})
		}
		g := &stepGroup{idx: i, wg: wg, req: b.Build(), at: int64(sc.Step[i])*sec + sc.Off[i], cu: cu}
		if g.at < 1 {
			g.at = 1
		}
		disp.groups = append(disp.groups, g)
		byID[g.req.ID] = g
		wakeAt(engine, freq, disp.TickingComponent, g.at)
	}

	// the completion messages as they leave the CUs
	type sentMsg struct {
		cycle int64
		cu    int
		ids   []string
	}
	var sent []sentMsg
	reported := map[string][]int64{} // MapWGReq id -> cycles of the messages naming it
	delivered := map[string]bool{}   // MapWGReq id delivered to its CU
	var wordsChecked int64
	log := simkit.NewLog(engine, freq)
	log.OnEvent = func(e simkit.Event) {
		switch m := e.Msg.(type) {
		case *protocol.MapWGReq:
			if e.Kind == simkit.KRecv && strings.HasPrefix(e.Port, "CU") {
				delivered[m.ID] = true
			}
		case *protocol.WGCompletionMsg:
			if e.Kind != simkit.KSend || !strings.HasPrefix(e.Port, "CU") {
				return
			}
			var ci int
			fmt.Sscanf(e.Port, "CU%d", &ci)
			ids := append([]string(nil), m.RspTo...)
			sent = append(sent, sentMsg{cycle: e.Cycle, cu: ci, ids: ids})
			for _, id := range ids {
				g := byID[id]
				if g == nil {
					v.viol("C14|emu|completion|unknown-id", fmt.Sprintf("CU%d reported completion of %q at cycle %d, which is no MapWGReq of this run", ci, id, e.Cycle), nil)
					continue
				}
				first := len(reported[id]) == 0
				reported[id] = append(reported[id], e.Cycle)
				if !first {
					v.viol("C14|emu|completion|duplicated", fmt.Sprintf("group %d reported complete again at cycle %d (before: %v; this message carries %d ids)", g.idx, e.Cycle, reported[id][:len(reported[id])-1], len(ids)),
						map[string]any{"group": g.idx})
					continue
				}
				if g.cu != ci || !delivered[id] {
					v.viol("C14|emu|completion|for-a-group-the-cu-does-not-hold", fmt.Sprintf("CU%d reported group %d complete at cycle %d (mapped to CU%d, request delivered: %v)", ci, g.idx, e.Cycle, g.cu, delivered[id]), nil)
				}
				notEnded := 0
				for _, wf := range g.wg.Wavefronts {
					if !hook.ended[wf.UID] {
						notEnded++
					}
				}
				if notEnded > 0 {
					v.viol("C14|emu|completion|before-last-wavefront-ended", fmt.Sprintf("group %d reported complete at cycle %d while %d of its %d wavefronts had not executed s_endpgm", g.idx, e.Cycle, notEnded, len(g.wg.Wavefronts)),
						map[string]any{"group": g.idx})
				}
				off := l.B + 4*uint64(g.wg.IDX*wgs)
				if raw, err := storage.Read(off, 4*uint64(wgs)); err == nil {
					got := bytesU32(raw)
					want := host.B[g.wg.IDX*wgs : (g.wg.IDX+1)*wgs]
					wordsChecked += int64(wgs)
					if kx := firstDiff(got, want); kx >= 0 {
						v.viol("C14|emu|completion|before-results-in-memory", fmt.Sprintf("group %d reported complete at cycle %d while B[%d] = 0x%08x in storage, host model 0x%08x", g.idx, e.Cycle, g.wg.IDX*wgs+kx, got[kx], want[kx]),
							map[string]any{"group": g.idx, "index": g.wg.IDX*wgs + kx})
					}
				}
			}
		}
	}
	log.Attach(disp.port, "Disp")
	for i, p := range cuPorts {
		log.Attach(p, fmt.Sprintf("CU%d", i))
	}

	events, livelock, pv := simkit.RunBounded(engine, 3_000_000)
	rec.Count("emu_link_engine_events", events)
	switch {
	case pv != nil:
		v.viol("C14|emu|completion-layer|crash|"+sanitize(pv), fmt.Sprintf("panic at cycle %d: %v", nowCycle(), pv), nil)
	case livelock:
		v.viol("C14|emu|completion-layer|no-termination|event-bound", fmt.Sprintf("event bound exceeded at cycle %d", nowCycle()), nil)
	default:
		// engine idle: nothing may be outstanding
		allSent := true
		for _, g := range disp.groups {
			allSent = allSent && g.sent
		}
		if !allSent || link.busy() || disp.port.PeekIncoming() != nil {
			rec.Inconclusive(fmt.Sprintf("emulation-link scenario %s: engine idle but the harness still holds messages", sc.Name))
			break
		}
		var lost []int
		inFailed := 0
		failedIDs := map[string]bool{}
		for _, f := range fails {
			for _, id := range f.ids {
				failedIDs[id] = true
			}
		}
		for _, g := range disp.groups {
			if len(reported[g.req.ID]) == 0 {
				lost = append(lost, g.idx)
				if failedIDs[g.req.ID] {
					inFailed++
				}
			} else if len(g.recvAt) != len(reported[g.req.ID]) {
				rec.Inconclusive(fmt.Sprintf("emulation-link scenario %s: a completion message sent by the CU did not reach the dispatcher", sc.Name))
			}
		}
		if len(lost) > 0 {
			v.viol("C14|emu|completion|lost", fmt.Sprintf("engine idle at cycle %d, all ports empty, but groups %v were never reported complete; %d of them had been in a completion batch whose Send failed (%d failed Sends)",
				nowCycle(), lost, inFailed, len(fails)), map[string]any{"lost_groups": lost, "failed_sends": len(fails)})
		}
		if raw, err := storage.Read(l.B, 4*uint64(k.lenB())); err == nil {
			if kx := firstDiff(bytesU32(raw), host.B); kx >= 0 {
				v.viol("C14|emu|values|output-differs-from-host-model", fmt.Sprintf("B[%d] = 0x%08x in emulation, host model 0x%08x", kx, bytesU32(raw)[kx], host.B[kx]), map[string]any{"index": kx})
			}
		}
	}

	// counters
	failedBatches := map[string]int{}
	for _, f := range fails {
		failedBatches[strings.Join(f.ids, ",")] = len(f.ids)
	}
	var multiFailed int64
	for _, n := range failedBatches {
		if n >= 2 {
			multiFailed++
		}
	}
	var batched int64
	maxBatch := 0
	for _, m := range sent {
		if len(m.ids) >= 2 {
			batched++
		}
		maxBatch = max(maxBatch, len(m.ids))
	}
	rec.Count("emu_link_scenarios", 1)
	rec.Count("emu_link_groups_mapped", int64(len(disp.groups)))
	rec.Count("emu_link_completion_msgs", int64(len(sent)))
	rec.Count("emu_link_completion_msgs_with_2_or_more_ids", batched)
	rec.Count("emu_link_failed_completion_send_attempts", int64(len(fails)))
	rec.Count("emu_link_completion_batches_whose_send_failed", int64(len(failedBatches)))
	rec.Count("emu_link_completion_batches_with_2_or_more_ids_whose_send_failed", multiFailed)
	rec.Count("emu_link_stall_windows_that_held_a_completion", int64(len(link.hit)+len(disp.hit)))
	rec.Count("emu_link_result_words_checked_at_completion", wordsChecked)
	rec.Count("emu_link_barriers_executed", hook.nBar)
	rec.Count("emu_link_instructions_run", hook.nInst)
	rec.Distinct("emu_link_mode_cu_w", fmt.Sprintf("%s/%d/%d", sc.Mode, sc.NCU, k.W))
	if verbose {
		fmt.Printf("  [%s] end=%d groups=%d msgs=%d batched=%d maxb=%d failedAtt=%d failedBatches=%d multi=%d hit=%d bar=%d\n", sc.Name, nowCycle(), len(disp.groups), len(sent), batched, maxBatch,
			len(fails), len(failedBatches), multiFailed, len(link.hit)+len(disp.hit), hook.nBar)
	}
	rec.Sample(map[string]any{"name": sc.Name, "layer": "emu-link", "mode": sc.Mode, "num_cu": sc.NCU, "wavefronts_per_group": k.W, "groups": k.NWG,
		"completion_msgs": len(sent), "max_ids_per_msg": maxBatch, "failed_send_attempts": len(fails), "failed_batches_2plus": multiFailed})
}

// ---------------------------------------------------------------------------
// cases

// linkStall keeps the batch of the step at second k in the CU's port buffer
// until d cycles after the batch of the step at second k+1 is due.
func linkStall(k, lead, d int64) window {
	return window{From: k*sec + 1 - lead, Until: (k+1)*sec + 1 + d}
}

// receiverStall: the batch of step k waits in the dispatcher's one-entry
// buffer, that of step k+1 in the CU's port buffer, that of step k+2 fails.
func receiverStall(k, lead, d int64) window {
	return window{From: k*sec + 1 - lead, Until: (k+2)*sec + 1 + d}
}

func spread(nwg int, perStep []int, off int64, ncu int) (step []int, offs []int64, cu []int) {
	s, left := 0, 0
	if len(perStep) > 0 {
		left = perStep[0]
	}
	for g := 0; g < nwg; g++ {
		for left == 0 && s+1 < len(perStep) {
			s++
			left = perStep[s]
		}
		step = append(step, s)
		offs = append(offs, off+int64(7*g))
		cu = append(cu, g%ncu)
		left--
	}
	return
}

func canonicalEmuLink() []emuLinkScenario {
	k := func(w, nwg int, ph ...phase) kernelSpec {
		return kernelSpec{W: w, NWG: nwg, Mul: 0x01000193, Salt: 0x9e3779b9, Seed: 1415, Phases: ph}
	}
	lds := func(n int, loop bool, delta int) phase { return phase{Kind: "ldsx", N: n, Loop: loop, Delta: delta} }
	var out []emuLinkScenario
	add := func(name, mode string, ncu int, kk kernelSpec, perStep []int, off int64, stalls [][]window) {
		st, of, cu := spread(kk.NWG, perStep, off, ncu)
		out = append(out, emuLinkScenario{Name: name, Kernel: kk, NCU: ncu, Mode: mode, Step: st, Off: of, CU: cu, Stalls: stalls})
	}
	// the seed's shape: 2-wavefront groups with a barrier, one per step and then two together,
	// the dispatcher does not drain its port until a few cycles after the pair finished
	add("canon-emu-link-receiver-does-not-drain-pair-fails", "receiver", 1, k(2, 4, lds(1, false, 64)), []int{1, 1, 2}, 100,
		[][]window{{receiverStall(1, 0, 5)}})
	// the connection stalls: first batch waits in the CU's port, the next (3 groups) fails 40 times
	add("canon-emu-link-stalled-connection-batch-of-three-fails", "link", 1, k(3, 7, lds(2, true, 64+9), phase{Kind: "globx", N: 1, Delta: 64}), []int{2, 3, 2}, 1000,
		[][]window{{linkStall(1, 3, 40)}})
	// one-wavefront groups, global exchange and loads, two CUs, only CU1 stalled, twice
	add("canon-emu-link-two-cus-one-stalled-twice", "link", 2, k(1, 12, phase{Kind: "loadwait", N: 2, K: 1}, phase{Kind: "globx", N: 2, Delta: 17}), []int{4, 4, 0, 2, 2}, 50_000,
		[][]window{nil, {linkStall(1, 0, 1), linkStall(4, 1000, 200)}})
	// four wavefronts, groups arriving just before the step and during the retry
	st, of, cu := spread(9, []int{2, 3, 4}, 0, 1)
	for g := range of {
		switch {
		case st[g] == 1:
			of[g] = sec - 40 + int64(g) // races the step at second 2
		case st[g] == 2:
			of[g] = 3 + int64(2*g) // while the CU retries the batch of second 2
		}
	}
	out = append(out, emuLinkScenario{Name: "canon-emu-link-groups-arrive-during-the-retry", Kernel: k(4, 9, phase{Kind: "delay", Base: 1, Per: 6, Mask: 3}, lds(3, false, 128), phase{Kind: "sload", N: 2}),
		NCU: 1, Mode: "link", Step: st, Off: of, CU: cu, Stalls: [][]window{{linkStall(1, 1, 120)}}})
	// receiver stall with three-wavefront groups and a long retry
	add("canon-emu-link-receiver-long-stall", "receiver", 1, k(3, 10, lds(1, true, 100), phase{Kind: "globx", N: 1, Delta: 128}), []int{3, 2, 3, 2}, 7,
		[][]window{{receiverStall(1, sec/2, 300)}})
	return out
}

func genEmuLink(r *vlib.PRNG, idx int) emuLinkScenario {
	sc := emuLinkScenario{Name: fmt.Sprintf("el%d", idx)}
	w := []int{1, 2, 2, 3, 4}[r.Intn(5)]
	k := kernelSpec{W: w, NWG: 4 + r.Intn(10), Mul: 2*r.Uint32() + 1, Salt: r.Uint32(), Seed: r.Uint64()}
	barrierish := 0
	for i, n := 0, 1+r.Intn(3); i < n; i++ {
		switch r.Intn(6) {
		case 0:
			nn := 1 + r.Intn(3)
			k.Phases = append(k.Phases, phase{Kind: "loadwait", N: nn, K: r.Intn(min(nn, 3))})
		case 1:
			k.Phases = append(k.Phases, phase{Kind: "delay", Base: 1 + r.Intn(4), Per: r.Intn(10), Rot: r.Intn(4), Mask: 3})
		case 2, 3, 4:
			k.Phases = append(k.Phases, phase{Kind: "ldsx", N: 1 + r.Intn(3), Loop: r.Bool(), Delta: neighbourDelta(r, w)})
			barrierish++
		default:
			k.Phases = append(k.Phases, phase{Kind: "globx", N: 1 + r.Intn(2), Delta: neighbourDelta(r, w)})
			barrierish++
		}
	}
	if barrierish == 0 {
		k.Phases = append(k.Phases, phase{Kind: "globx", N: 1, Delta: neighbourDelta(r, w)})
	}
	sc.Kernel = k
	sc.Mode = []string{"link", "link", "receiver"}[r.Intn(3)]
	sc.NCU = 1
	if sc.Mode == "link" && r.Chance(1, 3) {
		sc.NCU = 2
	}
	steps := 3 + r.Intn(3)
	for g := 0; g < k.NWG; g++ {
		s := r.Intn(steps)
		sc.Step = append(sc.Step, s)
		switch r.Intn(4) {
		case 0:
			sc.Off = append(sc.Off, 2+int64(r.Intn(80))) // during a retry of the previous step's batch
		case 1:
			sc.Off = append(sc.Off, sec-1-int64(r.Intn(200))) // races the step
		default:
			sc.Off = append(sc.Off, 1000+int64(r.Intn(int(sec/2))))
		}
		sc.CU = append(sc.CU, r.Intn(sc.NCU))
	}
	// a failing Send is retried every cycle until the window ends: windows end
	// within 300 cycles of the step they make fail and never touch each other
	sc.Stalls = make([][]window, sc.NCU)
	span := int64(1)
	if sc.Mode == "receiver" {
		span = 2
	}
	for ci := 0; ci < sc.NCU; ci++ {
		for kk := int64(1); kk+span <= int64(steps)+1; kk++ {
			if !r.Chance(1, 2) {
				continue
			}
			lead := []int64{0, 0, 1, 5, 1000, sec / 2}[r.Intn(6)]
			d := []int64{1, 1, 2, 3, 10, 50, 250}[r.Intn(7)]
			if sc.Mode == "receiver" {
				sc.Stalls[ci] = append(sc.Stalls[ci], receiverStall(kk, lead, d))
			} else {
				sc.Stalls[ci] = append(sc.Stalls[ci], linkStall(kk, lead, d))
			}
			kk += span + 1
		}
	}
	return sc
}
