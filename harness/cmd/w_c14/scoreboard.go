package main

import (
	"fmt"

	"github.com/sarchlab/mgpusim/v4/amd/insts"
	"github.com/sarchlab/mgpusim/v4/amd/timing/cu"

	"verifharness/vlib"
)

// Scoreboard layer (added after seed c14-10: a multi-register destination
// whose first register was still busy left its upper registers unmarked).
//
// The real cu.Scoreboard is driven with random writers (1..4 registers, VGPR
// or SGPR ranges that overlap earlier ones, latencies 1..12), ticks and
// single-register readers; reference = remaining-cycles counter per register
// (a write raises it to at least its latency, a tick lowers it by one). Only
// the ordering direction is judged: a reader of a register with a write in
// flight must be reported as a hazard.
func runScoreboardLayer(c *vlib.Check, replay bool) {
	if replay {
		return
	}
	r := vlib.NewPRNG(uint64(c.Seed)).Fork("c14-scoreboard")
	n := c.N(400, 20000)
	reported := false
	for h := 0; h < n; h++ {
		sb := cu.NewScoreboard()
		var remV [256]int
		var remS [102]int
		base := r.Intn(200)
		var trace []string
		for step := 0; step < 40; step++ {
			switch r.Intn(3) {
			case 0: // writer
				vec := r.Bool()
				rc := r.Range(1, 4)
				lat := r.Range(1, 12)
				in := insts.NewInst()
				in.InstName = "writer"
				if vec {
					i := base + r.Intn(8)
					in.ExeUnit = insts.ExeUnitVALU
					in.Dst = insts.NewVRegOperand(i, i, rc)
					for k := 0; k < rc && i+k < 256; k++ {
						remV[i+k] = max(remV[i+k], lat)
					}
					trace = append(trace, fmt.Sprintf("write v[%d:%d] lat %d", i, i+rc-1, lat))
				} else {
					i := base%90 + r.Intn(8)
					in.ExeUnit = insts.ExeUnitScalar
					in.Dst = insts.NewSRegOperand(i, i, rc)
					for k := 0; k < rc && i+k < 102; k++ {
						remS[i+k] = max(remS[i+k], lat)
					}
					trace = append(trace, fmt.Sprintf("write s[%d:%d] lat %d", i, i+rc-1, lat))
				}
				sb.MarkBusy(in, lat)
				c.Count("scoreboard_writers_marked", 1)
			case 1: // tick
				sb.Tick()
				for i := range remV {
					if remV[i] > 0 {
						remV[i]--
					}
				}
				for i := range remS {
					if remS[i] > 0 {
						remS[i]--
					}
				}
				trace = append(trace, "tick")
			default: // readers of every register of the window
				for k := 0; k < 12; k++ {
					for _, vec := range []bool{true, false} {
						in := insts.NewInst()
						in.InstName = "reader"
						var pending int
						var name string
						if vec {
							i := base + k
							in.ExeUnit = insts.ExeUnitVALU
							in.Src0 = insts.NewVRegOperand(i, i, 1)
							pending, name = remV[i], fmt.Sprintf("v%d", i)
						} else {
							i := base%90 + k
							in.ExeUnit = insts.ExeUnitScalar
							in.Src0 = insts.NewSRegOperand(i, i, 1)
							pending, name = remS[i], fmt.Sprintf("s%d", i)
						}
						c.Eval()
						if pending > 0 {
							c.Count("scoreboard_reads_of_registers_with_a_write_in_flight", 1)
							if pending > 1 {
								c.Nontrivial(fmt.Sprintf("scoreboard|%v|k=%d|pending=%d", vec, k, pending))
							}
							if !sb.HasHazard(in) && !reported {
								reported = true
								kind := map[bool]string{true: "vgpr", false: "sgpr"}[vec]
								c.Violation("C14|scoreboard|reader-may-issue-while-a-write-of-its-register-is-in-flight|"+kind,
									fmt.Sprintf("history %d: a reader of %s is reported hazard-free although a write of %s marked earlier still has %d cycle(s) to go; events: %v",
										h, name, name, pending, trace),
									map[string]any{"history": h, "events": trace, "register": name})
							}
						}
					}
				}
			}
		}
	}
}
