package main

import (
	"fmt"

	"verifharness/vlib"
)

// ---------------------------------------------------------------------------
// memory / dispatcher environments

func profile(r *vlib.PRNG, kind string) memProfile {
	p := memProfile{Name: kind}
	switch kind {
	case "fast":
		p.LatLo, p.LatHi = 1, 4
	case "medium":
		p.LatLo, p.LatHi = 10, 150
	case "slow":
		p.LatLo, p.LatHi = 200, 2000
	case "spiky":
		p.LatLo, p.LatHi = 2, 40
		p.StragglerPct, p.BigLo, p.BigHi = 12, 400, 2000
	case "wide":
		p.LatLo, p.LatHi = 1, 2000
	}
	p.TakePerCycle = []int{0, 0, 1, 2}[r.Intn(4)]
	p.TakeStallPct = []int{0, 0, 30, 70}[r.Intn(4)]
	p.SendPerCycle = []int{0, 0, 1}[r.Intn(3)]
	p.SendStallPct = []int{0, 0, 40}[r.Intn(3)]
	p.InBuf = []int{1, 2, 4, 16}[r.Intn(4)]
	p.OutBuf = []int{1, 2, 8}[r.Intn(3)]
	p.Reorder = r.Bool()
	return p
}

func plainProfile(kind string, lo, hi int) memProfile {
	return memProfile{Name: kind, LatLo: lo, LatHi: hi, InBuf: 4, OutBuf: 4}
}

func genEnv(r *vlib.PRNG) envConfig {
	kinds := []string{"fast", "medium", "slow", "spiky", "wide"}
	e := envConfig{Seed: r.Uint64(), Scoreboard: r.Bool(), ROB: r.Chance(3, 5)}
	// instruction memory: mostly quick (every taken branch refetches)
	e.Inst = profile(r, []string{"fast", "fast", "medium", "spiky", "slow"}[r.Intn(5)])
	e.Scalar = profile(r, kinds[r.Intn(len(kinds))])
	e.Scalar.SplitSkew = r.Intn(3)
	e.Vector = profile(r, kinds[r.Intn(len(kinds))])
	e.Disp = dispConfig{GapMax: []int{0, 0, 5, 200, 1500}[r.Intn(5)], StallPct: []int{0, 0, 50, 90}[r.Intn(4)], InBuf: []int{1, 4}[r.Intn(2)]}
	return e
}

// ---------------------------------------------------------------------------
// kernels

func genKernel(r *vlib.PRNG, slowInst bool) kernelSpec {
	k := kernelSpec{
		W:    []int{1, 2, 2, 3, 4, 4, 5, 7, 8, 11, 16, 16}[r.Intn(12)],
		NWG:  1 + r.Intn(4),
		Mul:  2*r.Uint32() + 1,
		Salt: r.Uint32(),
		Seed: r.Uint64(),
	}
	nPh := 2 + r.Intn(5)
	barrierish := 0
	delayBudget := 90
	if slowInst {
		delayBudget = 20
	}
	for i := 0; i < nPh; i++ {
		var ph phase
		switch r.Intn(9) {
		case 0, 1:
			n := 1 + r.Intn(4)
			ph = phase{Kind: "loadwait", N: n, K: r.Intn(min(n, 3))}
		case 2:
			ph = phase{Kind: "sload", Loads: genSLoads(r)}
		case 3, 4:
			mask := []int{1, 3, 7, 15}[r.Intn(4)]
			per := r.Intn(delayBudget/mask + 1)
			ph = phase{Kind: "delay", Base: 1 + r.Intn(4), Per: per, Rot: r.Intn(16), Mask: mask}
		case 5, 6, 7:
			ph = phase{Kind: "ldsx", N: 1 + r.Intn(4), Loop: r.Bool(), Delta: neighbourDelta(r, k.W)}
			barrierish++
		case 8:
			ph = phase{Kind: "globx", N: 1 + r.Intn(2), Delta: neighbourDelta(r, k.W)}
			barrierish++
		}
		k.Phases = append(k.Phases, ph)
	}
	k.TailSLoad = r.Chance(1, 4)
	if r.Chance(1, 5) { // early exit of some wavefronts at a random point
		at := r.Intn(len(k.Phases) + 1)
		ex := phase{Kind: "exit", Mask: exitMask(r, k.W), Store: r.Chance(3, 4)}
		k.Phases = append(k.Phases[:at], append([]phase{ex}, k.Phases[at:]...)...)
	}
	if barrierish == 0 {
		k.Phases = append(k.Phases, phase{Kind: "ldsx", N: 1 + r.Intn(3), Loop: r.Bool(), Delta: neighbourDelta(r, k.W)})
	}
	return k
}

// genSLoads: 1-3 scalar loads of 1..8 dwords; about half of the multi-dword
// ones cross a 64-byte line of the wavefront's 256-byte slice (the scalar unit
// then splits them into two memory requests), the others are naturally aligned.
func genSLoads(r *vlib.PRNG) []sload {
	n := 1 + r.Intn(3)
	var out []sload
	for i := 0; i < n; i++ {
		w := []int{1, 2, 2, 4, 4, 8, 8}[r.Intn(7)]
		if w > sloadCap[i] {
			w = sloadCap[i]
		}
		var off int
		if w > 1 && r.Chance(3, 5) {
			line := 64 * (1 + r.Intn(3))
			off = line - 4*(1+r.Intn(w-1)) // 1..w-1 dwords before the line
		} else {
			off = 4 * w * r.Intn(tSliceDwords/w)
		}
		out = append(out, sload{W: w, Off: off})
	}
	return out
}

func neighbourDelta(r *vlib.PRNG, w int) int {
	if w == 1 {
		return 1 + r.Intn(63)
	}
	d := 64 * (1 + r.Intn(w-1))
	if r.Chance(1, 3) {
		d += r.Intn(64)
	}
	return d
}

func exitMask(r *vlib.PRNG, w int) int {
	switch r.Intn(4) {
	case 0:
		return 1 << uint(r.Intn(w))
	case 1:
		return 1
	default:
		m := 0
		for i := 0; i < w; i++ {
			if r.Chance(1, 3) {
				m |= 1 << uint(i)
			}
		}
		if m == 0 {
			m = 1 << uint(r.Intn(w))
		}
		return m
	}
}

func genScenario(r *vlib.PRNG, idx int) scenario {
	e := genEnv(r.Fork("env"))
	k := genKernel(r.Fork("kernel"), e.Inst.Name == "slow" || e.Inst.Name == "wide")
	return scenario{Name: fmt.Sprintf("s%d", idx), Kernel: k, Env: e}
}

// canonical battery: does not depend on the seed.
func canonical() []scenario {
	quiet := func(sb bool, vec, sca memProfile) envConfig {
		return envConfig{Scoreboard: sb, ROB: true, Inst: plainProfile("fast", 1, 3), Scalar: sca, Vector: vec, Seed: 14}
	}
	fast := plainProfile("fast", 1, 3)
	slowV := plainProfile("slow", 300, 1500)
	slowS := plainProfile("slow", 200, 900)
	k := func(w, nwg int, ph ...phase) kernelSpec {
		return kernelSpec{W: w, NWG: nwg, Mul: 0x01000193, Salt: 0x9e3779b9, Seed: 1414, Phases: ph}
	}
	lds := func(n int, loop bool, delta int) phase { return phase{Kind: "ldsx", N: n, Loop: loop, Delta: delta} }
	var s []scenario
	add := func(name string, kk kernelSpec, e envConfig) { s = append(s, scenario{Name: name, Kernel: kk, Env: e}) }

	// early exit: wave 0 leaves at once, wave 1 arrives at the barrier later
	add("canon-early-exit-before-others-arrive", k(2, 1, phase{Kind: "exit", Mask: 1, Store: true},
		phase{Kind: "delay", Base: 8, Mask: 1}, lds(1, false, 64)), quiet(false, fast, fast))
	// early exit: wave 0 leaves after wave 1 has arrived at the barrier
	add("canon-early-exit-after-others-arrived", k(2, 1, phase{Kind: "delay", Base: 1, Per: 40, Rot: 1, Mask: 1},
		phase{Kind: "exit", Mask: 1, Store: true}, lds(1, false, 64)), quiet(false, fast, fast))
	// the slowest wavefront of 4 / of 8 leaves when the others already wait (two groups; memory in flight);
	// one barrier generation after the exit, then several
	add("canon-early-exit-of-slowest-of-4", k(4, 2, phase{Kind: "loadwait", N: 2, K: 1}, phase{Kind: "delay", Base: 1, Per: 14, Rot: 1, Mask: 3},
		phase{Kind: "exit", Mask: 1 << 2, Store: true}, lds(1, true, 64)), quiet(true, slowV, fast))
	add("canon-early-exit-of-slowest-of-8", k(8, 1, lds(1, false, 64), phase{Kind: "delay", Base: 1, Per: 9, Rot: 2, Mask: 7},
		phase{Kind: "exit", Mask: 1 << 5, Store: false}, phase{Kind: "globx", N: 1, Delta: 192}), quiet(false, fast, fast))
	add("canon-early-exit-of-slowest-of-4-two-generations-after", k(4, 2, phase{Kind: "delay", Base: 1, Per: 14, Rot: 1, Mask: 3},
		phase{Kind: "exit", Mask: 1 << 2, Store: true}, lds(2, true, 64)), quiet(true, fast, fast))
	// the same with 16 wavefronts and two generations, odd wavefronts leave between the generations
	add("canon-early-exit-between-generations", k(16, 1, lds(1, false, 64), phase{Kind: "exit", Mask: 0xAAAA, Store: true},
		phase{Kind: "delay", Base: 2, Per: 6, Mask: 3}, lds(2, true, 128)), quiet(true, fast, fast))
	// more wavefronts at barriers than the scheduler's barrier buffer holds (16), then a late early exit
	add("canon-barrier-buffer-overflow", k(16, 2, phase{Kind: "delay", Base: 1, Per: 10, Mask: 15}, lds(3, true, 64)), quiet(false, fast, fast))
	add("canon-barrier-buffer-overflow-late-exit", k(16, 2, phase{Kind: "delay", Base: 1, Per: 6, Rot: 14, Mask: 15},
		phase{Kind: "exit", Mask: 2, Store: true}, lds(2, false, 64)), quiet(false, fast, fast))
	// wait counts
	for kk := 0; kk <= 2; kk++ {
		add(fmt.Sprintf("canon-three-loads-vmcnt-%d", kk), k(2, 2, phase{Kind: "loadwait", N: 3, K: kk}), quiet(kk == 1, slowV, fast))
	}
	add("canon-four-loads-vmcnt-2-reordering-memory", k(4, 1, phase{Kind: "loadwait", N: 4, K: 2}, phase{Kind: "loadwait", N: 2, K: 1}),
		envConfig{ROB: true, Inst: fast, Scalar: fast, Seed: 15,
			Vector: memProfile{Name: "wide", LatLo: 1, LatHi: 2000, InBuf: 4, OutBuf: 4, Reorder: true}})
	add("canon-scalar-loads-lgkmcnt-0", k(3, 2, phase{Kind: "sload", N: 3}, phase{Kind: "sload", N: 1}), quiet(false, fast, slowS))
	// scalar loads that cross a 64-byte line are split into two requests whose
	// responses return far apart; later scalar loads must still be waited for,
	// and s_endpgm is issued with a split load outstanding
	for v := 0; v < 3; v++ {
		skew := []int{1, 1, 2}[v]
		ss := plainProfile("fast", 2, 6)
		ss.SplitSkew = skew
		kk := k([]int{1, 2, 3}[v], []int{1, 1, 2}[v],
			phase{Kind: "delay", Base: 1, Per: 90, Mask: 1},
			phase{Kind: "sload", Loads: []sload{{W: 8, Off: 40}}},
			phase{Kind: "sload", Loads: []sload{{W: 4, Off: 56}}},
			phase{Kind: "sload", Loads: []sload{{W: 4, Off: 16}}},
			phase{Kind: "sload", Loads: []sload{{W: 2, Off: 124}}},
			phase{Kind: "sload", Loads: []sload{{W: 8, Off: 164}, {W: 1, Off: 0}}},
			phase{Kind: "loadwait", N: 2, K: 1},
			phase{Kind: "sload", Loads: []sload{{W: 2, Off: 188}, {W: 4, Off: 64}, {W: 4, Off: 120}}},
			lds(1, false, 64))
		kk.TailSLoad = true
		e := quiet(skew == 2, fast, ss)
		e.ROB = v != 1
		add(fmt.Sprintf("canon-scalar-loads-straddling-cache-lines-%d-skew-%d", v, skew), kk, e)
	}
	// LDS ring with staggered arrival, unrolled and looped
	add("canon-lds-ring-16-waves-staggered", k(16, 1, phase{Kind: "delay", Base: 1, Per: 5, Mask: 15}, lds(4, false, 64),
		phase{Kind: "delay", Base: 1, Per: 7, Rot: 5, Mask: 7}, lds(3, true, 64+17)), quiet(true, fast, fast))
	add("canon-global-exchange", k(4, 2, phase{Kind: "delay", Base: 1, Per: 12, Mask: 3}, phase{Kind: "globx", N: 2, Delta: 64}), quiet(false, slowV, fast))
	// four groups of 16 wavefronts: 64 wavefronts on 40 slots, resources are reused
	add("canon-four-groups-of-16", k(16, 4, phase{Kind: "loadwait", N: 2, K: 1}, lds(2, true, 64)), quiet(false, plainProfile("medium", 20, 200), fast))
	// slow everything, back-pressure on the dispatcher port
	e := quiet(false, slowV, slowS)
	e.Disp = dispConfig{GapMax: 300, StallPct: 90, InBuf: 1}
	add("canon-slow-memories-stalled-dispatcher", k(3, 3, phase{Kind: "sload", N: 2}, phase{Kind: "loadwait", N: 2, K: 1}, lds(1, false, 64)), e)
	return s
}
