package main

import (
	"fmt"
	"math"
	"os"
	"sort"

	"verifharness/vlib"
)

// ---------------------------------------------------------------------------
// The rules of C14, evaluated over the recorded trace. Everything the rules
// need is computed here from task intervals and port events; none of the
// compute unit's own counters or wavefront states is read.

const never = int64(1) << 62

var verbose = os.Getenv("C14_VERBOSE") != ""

type judge struct {
	rec  vlib.Recorder
	sc   scenario
	mode string // "timing" or "emu"
	seen map[string]bool
	bk   *builtKernel
	n    int
	// circumstance: set when the trace shows the precondition of a known
	// state corruption; every violation of the run is then filed under it.
	circumstance string
}

func (j *judge) viol(key, what string, extra map[string]any) {
	j.n++
	if verbose && !j.seen[key] {
		fmt.Printf("  [%s] %s: %s\n", j.sc.Name, key, what)
	}
	if j.seen[key] {
		return
	}
	j.seen[key] = true
	w := map[string]any{"scenario": j.sc, "mode": j.mode}
	for k, v := range extra {
		w[k] = v
	}
	if j.circumstance != "" {
		w["symptom_key"] = key
		if j.seen[j.circumstance] {
			return
		}
		j.seen[j.circumstance] = true
		key = j.circumstance
	}
	j.rec.Violation(key, "["+j.sc.Name+"] "+what, w)
}

func (j *judge) text(off int) string {
	if r, ok := j.bk.Roles[off]; ok {
		return fmt.Sprintf("+0x%x %s", off, r.Text)
	}
	return fmt.Sprintf("+0x%x ?", off)
}

// completion of an instruction as the monitor sees it
func completion(i *instRec) int64 {
	if i.Class == "vmem" || i.Class == "smem" {
		if i.TrueEnd < 0 {
			return never
		}
		return i.TrueEnd
	}
	if e := i.end(); e >= 0 {
		return e
	}
	return never
}

// resolveMemCompletions sets TrueEnd of memory instructions to the cycle the
// compute unit retrieved the last of their responses from its memory port.
func (j *judge) resolveMemCompletions(r *recorder, rspAt map[string]int64) {
	for _, w := range r.waves {
		for _, i := range w.Insts {
			if i.Class != "vmem" && i.Class != "smem" {
				continue
			}
			if len(i.Reqs) == 0 {
				// no transaction (e.g. EXEC = 0): complete when the unit says so
				i.TrueEnd = i.end()
				continue
			}
			last := int64(-1)
			missing := false
			for _, id := range i.Reqs {
				t, ok := rspAt[id]
				if !ok {
					missing = true
					break
				}
				if t > last {
					last = t
				}
			}
			if missing {
				i.TrueEnd = -1
			} else {
				i.TrueEnd = last
			}
			j.rec.Count("memory_instructions", 1)
			j.rec.Count("memory_transactions", int64(len(i.Reqs)))
			if i.Class == "smem" {
				j.rec.Count("scalar_loads", 1)
				if len(i.Reqs) > 1 && !missing {
					first := last
					for _, id := range i.Reqs {
						first = min(first, rspAt[id])
					}
					j.rec.Count("scalar_loads_split_into_several_requests", 1)
					if last-first >= 100 {
						j.rec.Count("scalar_loads_split_pieces_100_cycles_apart", 1)
					}
					i.Split = last - first
					if os.Getenv("C14_SPLITDBG") != "" {
						fmt.Printf("split %s wave %d issue %d pieces", j.sc.Name, w.Index, i.Start)
						for _, id := range i.Reqs {
							fmt.Printf(" %d", rspAt[id])
						}
						fmt.Println()
					}
				}
			}
			if e := i.end(); e >= 0 && (i.TrueEnd < 0 || e < i.TrueEnd) {
				j.viol("C14|"+j.mode+"|memory-instruction|reported-complete-before-last-response",
					fmt.Sprintf("group %v wave %d: %s reported complete at cycle %d, but the response of one of its %d transactions was retrieved at cycle %d (-1 = never)",
						w.Group.ID, w.Index, j.text(i.Off), e, len(i.Reqs), i.TrueEnd),
					map[string]any{"group": w.Group.ID, "wave": w.Index, "pc": i.Off})
			}
		}
	}
}

func outstanding(w *waveRec, before int, t int64, classes ...string) int {
	n := 0
	for _, i := range w.Insts[:before] {
		for _, c := range classes {
			if i.Class == c && completion(i) > t {
				n++
			}
		}
	}
	return n
}

// ---- R2: s_waitcnt
func (j *judge) checkWaitcnt(groups []*groupRec) (stalled bool) {
	for _, gr := range groups {
		for _, w := range sortedWaves(gr) {
			for _, i := range w.Insts {
				if i.Class != "waitcnt" {
					continue
				}
				vm, lgkm := i.Inst.VMCNT, i.Inst.LKGMCNT
				if r, ok := j.bk.Roles[i.Off]; ok && r.VMCnt >= 0 {
					if r.VMCnt != vm || r.LGKCnt != lgkm {
						j.viol("C14|"+j.mode+"|waitcnt|decoded-counts-differ-from-program",
							fmt.Sprintf("%s decoded as vmcnt(%d) lgkmcnt(%d)", j.text(i.Off), vm, lgkm), nil)
					}
					vm, lgkm = r.VMCnt, r.LGKCnt
				}
				j.rec.Count("waitcnt_instances", 1)
				// the all-ones field value requests no wait on that counter:
				// vmcnt 15 (4 bits) on GCN3, 63 (6 bits) with CDNA3 decoding; lgkmcnt 15 on both
				k := j.sc.Kernel
				arch := k.archName()
				vmReq, lgReq := vm, lgkm
				if vm == k.noWaitVM() {
					vm = math.MaxInt32
				}
				if lgkm == 15 {
					lgkm = math.MaxInt32
				}
				vmAtIssue := outstanding(w, i.Seq, i.Start, "vmem")
				lgAtIssue := outstanding(w, i.Seq, i.Start, "smem", "lds")
				if vmAtIssue > 0 || lgAtIssue > 0 {
					j.rec.Count("waitcnt_nonzero_outstanding_at_issue", 1)
				}
				if vmAtIssue > 15 {
					j.rec.Count("waitcnt_issued_with_more_than_15_vector_loads_in_flight_"+arch, 1)
					if vmReq > 0 && vmReq < k.noWaitVM() && vmAtIssue > vmReq {
						j.rec.Count("waitcnt_nonzero_vmcnt_had_to_wait_with_more_than_15_in_flight_"+arch, 1)
						j.rec.Distinct("vmcnt_waited_with_more_than_15_in_flight_"+arch, fmt.Sprint(vmReq))
					}
				}
				if k.cdna3() && vmReq >= 15 && vmReq <= 62 {
					j.rec.Count("waitcnt_vmcnt_15_to_62_cdna3", 1)
					if vmAtIssue > vmReq {
						j.rec.Count("waitcnt_vmcnt_15_to_62_cdna3_had_to_wait", 1)
					}
				}
				if lgAtIssue > lgkm && lgReq > 0 {
					j.rec.Count("waitcnt_nonzero_lgkmcnt_had_to_wait", 1)
				}
				mustStall := vmAtIssue > vm || lgAtIssue > lgkm
				if mustStall {
					j.rec.Count("waitcnt_had_to_stall", 1)
					stalled = true
				}
				for _, m := range w.Insts[:i.Seq] {
					// a split scalar load whose first piece has returned but whose last has not
					if m.Class == "smem" && len(m.Reqs) > 1 && m.Split > 0 && completion(m) > i.Start && lgkm == 0 {
						j.rec.Count("waitcnt_lgkmcnt0_issued_with_split_scalar_load_outstanding", 1)
						break
					}
				}
				te := i.end()
				if te < 0 {
					continue // judged by the deadlock rule
				}
				if mustStall {
					j.rec.Count("waitcnt_stall_cycles", te-i.Start)
				}
				vmOut := outstanding(w, i.Seq, te, "vmem")
				lgOut := outstanding(w, i.Seq, te, "smem", "lds")
				if vmOut > 0 && vmOut <= vm {
					j.rec.Count("waitcnt_completed_with_allowed_outstanding", 1)
				}
				if vmOut > vm {
					j.viol(fmt.Sprintf("C14|%s|waitcnt|completed-above-requested-count|%s|vmcnt=%d", j.mode, arch, vmReq),
						fmt.Sprintf("group %v wave %d: %s issued at cycle %d with %d vector memory instructions in flight completed at cycle %d with %d still outstanding (requested: at most %d; %s: the vmcnt field is %d bits, %d = no wait)",
							gr.ID, w.Index, j.text(i.Off), i.Start, vmAtIssue, te, vmOut, vmReq, arch, map[bool]int{false: 4, true: 6}[k.cdna3()], k.noWaitVM()),
						map[string]any{"group": gr.ID, "wave": w.Index, "pc": i.Off, "arch": arch, "in_flight_at_issue": vmAtIssue, "outstanding": j.listOutstanding(w, i.Seq, te, "vmem")})
				}
				if lgOut > lgkm {
					j.viol(fmt.Sprintf("C14|%s|waitcnt|completed-above-requested-count|%s|lgkmcnt=%d", j.mode, arch, lgReq),
						fmt.Sprintf("group %v wave %d: %s issued at cycle %d completed at cycle %d with %d scalar-memory/LDS instructions outstanding (requested: at most %d)",
							gr.ID, w.Index, j.text(i.Off), i.Start, te, lgOut, lgReq),
						map[string]any{"group": gr.ID, "wave": w.Index, "pc": i.Off, "arch": arch, "outstanding": j.listOutstanding(w, i.Seq, te, "smem", "lds")})
				}
			}
		}
	}
	return stalled
}

func (j *judge) listOutstanding(w *waveRec, before int, t int64, classes ...string) []map[string]any {
	var out []map[string]any
	for _, i := range w.Insts[:before] {
		for _, c := range classes {
			if i.Class == c && completion(i) > t {
				ce := completion(i)
				if ce == never {
					ce = -1
				}
				out = append(out, map[string]any{"inst": j.text(i.Off), "issued": i.Start, "last_response_retrieved": ce, "transactions": len(i.Reqs)})
			}
		}
	}
	return out
}

// ---- R3: s_endpgm
func (j *judge) checkEndpgm(groups []*groupRec) {
	for _, gr := range groups {
		for _, w := range sortedWaves(gr) {
			for _, i := range w.Insts {
				if i.Class != "endpgm" {
					continue
				}
				te := i.end()
				if te < 0 {
					continue
				}
				j.rec.Count("endpgm_completions", 1)
				if outstanding(w, i.Seq, i.Start, "vmem", "smem") > 0 {
					j.rec.Count("endpgm_issued_with_memory_outstanding", 1)
				}
				if n := outstanding(w, i.Seq, te, "vmem", "smem", "lds"); n > 0 {
					j.viol("C14|"+j.mode+"|endpgm|completed-with-memory-outstanding",
						fmt.Sprintf("group %v wave %d: s_endpgm issued at cycle %d completed at cycle %d with %d memory instructions outstanding",
							gr.ID, w.Index, i.Start, te, n),
						map[string]any{"group": gr.ID, "wave": w.Index, "outstanding": j.listOutstanding(w, i.Seq, te, "vmem", "smem", "lds")})
				}
				if i.Seq != len(w.Insts)-1 {
					j.viol("C14|"+j.mode+"|endpgm|wavefront-issues-after-endpgm",
						fmt.Sprintf("group %v wave %d issued %s after s_endpgm", gr.ID, w.Index, j.text(w.Insts[i.Seq+1].Off)), nil)
				}
				break
			}
		}
	}
}

func sortedWaves(gr *groupRec) []*waveRec {
	var idx []int
	for i := range gr.Waves {
		idx = append(idx, i)
	}
	sort.Ints(idx)
	out := make([]*waveRec, len(idx))
	for k, i := range idx {
		out[k] = gr.Waves[i]
	}
	return out
}

type waveBarriers struct {
	w        *waveRec
	bar      []*instRec // g-th barrier
	next     []int64    // issue of the instruction after the g-th barrier, never = none
	endIssue int64      // issue of s_endpgm, never = none
	endDone  int64      // completion of s_endpgm
}

func barrierView(w *waveRec) waveBarriers {
	v := waveBarriers{w: w, endIssue: never, endDone: never}
	for k, i := range w.Insts {
		switch i.Class {
		case "barrier":
			v.bar = append(v.bar, i)
			if k+1 < len(w.Insts) {
				v.next = append(v.next, w.Insts[k+1].Start)
			} else {
				v.next = append(v.next, never)
			}
		case "endpgm":
			if v.endIssue == never {
				v.endIssue = i.Start
				if e := i.end(); e >= 0 {
					v.endDone = e
				}
			}
		}
	}
	return v
}

// ---- R1: barrier. expectWaves = wavefronts per group by the launch geometry.
func (j *judge) checkBarriers(groups []*groupRec, expectWaves int) (maxLate int64) {
	pre := ""
	if j.mode == "emu" {
		pre = "emu_" // emulation: "time" is the position in the instruction stream
	}
	for _, gr := range groups {
		views := map[int]waveBarriers{}
		maxGen := 0
		for idx, w := range gr.Waves {
			v := barrierView(w)
			views[idx] = v
			if len(v.bar) > maxGen {
				maxGen = len(v.bar)
			}
		}
		for g := 1; g <= maxGen; g++ {
			first, last := never, int64(-1)
			arrived := 0
			for _, v := range views {
				if len(v.bar) >= g {
					arrived++
					s := v.bar[g-1].Start
					if s < first {
						first = s
					}
					if s > last {
						last = s
					}
				}
			}
			j.rec.Count(pre+"barrier_generations", 1)
			if arrived > 1 {
				late := last - first
				if late > maxLate {
					maxLate = late
				}
				if late >= 100 && pre == "" {
					j.rec.Count("barrier_generations_late_100", 1)
				}
			}
			if arrived < expectWaves {
				j.rec.Count(pre+"barrier_generations_with_wavefronts_missing", 1)
			}
			for wi, v := range views {
				if len(v.bar) < g || v.next[g-1] == never {
					continue
				}
				n := v.next[g-1]
				for ui := 0; ui < expectWaves; ui++ {
					if ui == wi {
						continue
					}
					u, known := views[ui]
					switch {
					case known && len(u.bar) >= g:
						if u.bar[g-1].Start > n {
							j.viol("C14|"+j.mode+"|barrier|passed-before-all-unfinished-arrived",
								fmt.Sprintf("group %v: wave %d issued %s at %d, after its barrier #%d (issued %d), but wave %d issued its barrier #%d only at %d",
									gr.ID, wi, j.text(v.w.Insts[v.bar[g-1].Seq+1].Off), n, g, v.bar[g-1].Start, ui, g, u.bar[g-1].Start),
								map[string]any{"group": gr.ID, "wave": wi, "late_wave": ui, "generation": g})
						}
					case known && u.endIssue <= n:
						// ended before: not an unfinished wavefront any more
					default:
						state := "has not issued anything"
						if known {
							state = fmt.Sprintf("had issued %d barriers and no s_endpgm", len(u.bar))
							if u.endIssue != never {
								state = fmt.Sprintf("issued s_endpgm only at %d", u.endIssue)
							}
						}
						j.viol("C14|"+j.mode+"|barrier|passed-before-all-unfinished-arrived",
							fmt.Sprintf("group %v: wave %d issued %s at %d, after its barrier #%d, while unfinished wave %d %s",
								gr.ID, wi, j.text(v.w.Insts[v.bar[g-1].Seq+1].Off), n, g, ui, state),
							map[string]any{"group": gr.ID, "wave": wi, "late_wave": ui, "generation": g})
					}
				}
			}
		}
	}
	return maxLate
}

// ---- deadlock classification: the engine is idle and a group is not complete
func (j *judge) classifyStuck(gr *groupRec, expectWaves int, endCycle int64) {
	type st struct {
		wave int
		last *instRec
		bars int
	}
	var atBarrier, atWait, atEnd, other []st
	minBarsEnded := -1
	ended := []int{}
	for idx := 0; idx < expectWaves; idx++ {
		w := gr.Waves[idx]
		if w == nil || len(w.Insts) == 0 {
			other = append(other, st{wave: idx})
			continue
		}
		v := barrierView(w)
		l := w.Insts[len(w.Insts)-1]
		s := st{wave: idx, last: l, bars: len(v.bar)}
		switch {
		case l.Class == "barrier":
			atBarrier = append(atBarrier, s)
		case l.Class == "waitcnt" && l.end() < 0:
			atWait = append(atWait, s)
		case l.Class == "endpgm" && l.end() < 0:
			atEnd = append(atEnd, s)
		case l.Class == "endpgm":
			ended = append(ended, idx)
			if minBarsEnded < 0 || len(v.bar) < minBarsEnded {
				minBarsEnded = len(v.bar)
			}
		default:
			other = append(other, s)
		}
	}
	desc := func(ss []st) []map[string]any {
		var o []map[string]any
		for _, s := range ss {
			m := map[string]any{"wave": s.wave, "barriers_issued": s.bars}
			if s.last != nil {
				m["last_instruction"] = j.text(s.last.Off)
				m["issued_at"] = s.last.Start
			}
			o = append(o, m)
		}
		return o
	}
	wit := map[string]any{"group": gr.ID, "engine_idle_at_cycle": endCycle, "at_barrier": desc(atBarrier), "at_waitcnt": desc(atWait),
		"at_endpgm": desc(atEnd), "ended_waves": ended, "other": desc(other)}
	switch {
	case len(atBarrier) > 0:
		early := false
		for _, s := range atBarrier {
			if minBarsEnded >= 0 && minBarsEnded < s.bars {
				early = true
			}
		}
		allThere := len(atWait) == 0 && len(atEnd) == 0 && len(other) == 0
		switch {
		case early && allThere:
			// who should have released: the wavefront that arrived last, or the one that ended last?
			lastArrival, lastExit, nExits := int64(-1), int64(-1), 0
			for _, s := range atBarrier {
				lastArrival = max(lastArrival, s.last.Start)
			}
			for _, idx := range ended {
				v := barrierView(gr.Waves[idx])
				if len(v.bar) < atBarrier[0].bars {
					nExits++
					if v.endDone != never {
						lastExit = max(lastExit, v.endDone)
					}
				}
			}
			who := "not-released-by-the-last-arriving-wavefront"
			if lastExit > lastArrival {
				who = "not-released-by-the-last-ending-wavefront|one-early-exit"
				if nExits >= 2 {
					who = "not-released-by-the-last-ending-wavefront|2-or-more-early-exits"
				}
			}
			wit["last_arrival_at_the_barrier"], wit["last_early_exit_completed"], wit["early_exits"] = lastArrival, lastExit, nExits
			// a clean wait at the barrier is not the state corruption the circumstance stands for
			defer func(c string) { j.circumstance = c }(j.circumstance)
			j.circumstance = ""
			j.viol("C14|"+j.mode+"|barrier|deadlock-after-early-exit|"+who,
				fmt.Sprintf("group %v: engine idle at cycle %d; waves %v wait at s_barrier forever (last arrival at cycle %d) although every other wavefront of the group (%v) has ended (the last at cycle %d)",
					gr.ID, endCycle, waveIDs(atBarrier, func(s st) int { return s.wave }), lastArrival, ended, lastExit), wit)
		case allThere:
			j.viol("C14|"+j.mode+"|barrier|deadlock-all-arrived",
				fmt.Sprintf("group %v: engine idle at cycle %d; every unfinished wavefront waits at s_barrier and none proceeds", gr.ID, endCycle), wit)
		default:
			j.viol("C14|"+j.mode+"|barrier|deadlock",
				fmt.Sprintf("group %v: engine idle at cycle %d with wavefronts at s_barrier and others stuck elsewhere", gr.ID, endCycle), wit)
		}
	case len(atWait) > 0:
		s := atWait[0]
		w := gr.Waves[s.wave]
		vm := outstanding(w, s.last.Seq, never-1, "vmem")
		lg := outstanding(w, s.last.Seq, never-1, "smem", "lds")
		wit["vector_memory_outstanding"], wit["scalar_lds_outstanding"] = vm, lg
		j.viol("C14|"+j.mode+"|waitcnt|never-completes",
			fmt.Sprintf("group %v wave %d: engine idle at cycle %d; %s issued at %d never completes (monitor counts %d vector, %d scalar/LDS instructions outstanding)",
				gr.ID, s.wave, endCycle, j.text(s.last.Off), s.last.Start, vm, lg), wit)
	case len(atEnd) > 0:
		s := atEnd[0]
		j.viol("C14|"+j.mode+"|endpgm|never-completes",
			fmt.Sprintf("group %v wave %d: engine idle at cycle %d; s_endpgm issued at %d never completes", gr.ID, s.wave, endCycle, s.last.Start), wit)
	case len(other) > 0:
		cl := "nothing-issued"
		if other[0].last != nil {
			cl = other[0].last.Class
		}
		j.viol("C14|"+j.mode+"|stuck|after-"+cl,
			fmt.Sprintf("group %v wave %d: engine idle at cycle %d; the wavefront neither ended nor waits at a barrier or wait count", gr.ID, other[0].wave, endCycle), wit)
	default:
		j.viol("C14|"+j.mode+"|wg-completion|never-sent",
			fmt.Sprintf("group %v: every wavefront ended but the group's completion was never reported", gr.ID), wit)
	}
}

// releasedByEndingWaveWithOverflow: did an ending wavefront release a barrier
// its group was waiting at while more than limit wavefronts of the compute
// unit were waiting at barriers? Returns the cycle and the number waiting.
// needRelease: only count it when a waiting wavefront went on afterwards (a
// release that never happened is a deadlock, judged by classifyStuck).
func releasedByEndingWaveWithOverflow(groups []*groupRec, limit int, needRelease bool) (bool, int64, int) {
	for _, gr := range groups {
		views := []waveBarriers{}
		for _, w := range sortedWaves(gr) {
			views = append(views, barrierView(w))
		}
		for ei, e := range views {
			if e.endDone == never {
				continue
			}
			g := len(e.bar) + 1
			ok, waiting, released := true, 0, false
			for ui, u := range views {
				if ui == ei {
					continue
				}
				switch {
				case len(u.bar) >= g && u.bar[g-1].Start < e.endDone && u.next[g-1] >= e.endDone:
					waiting++
					if u.next[g-1] != never {
						released = true
					}
				case len(u.bar) < g && u.endDone <= e.endDone:
				default:
					ok = false
				}
			}
			if !ok || waiting == 0 || (needRelease && !released) {
				continue
			}
			// wavefronts of the whole compute unit waiting at a barrier at that cycle
			n := 0
			for _, g2 := range groups {
				for _, w := range g2.Waves {
					var last *instRec
					for _, i := range w.Insts {
						if i.Start < e.endDone {
							last = i
						}
					}
					if last != nil && last.Class == "barrier" {
						n++
					}
				}
			}
			if n > limit {
				return true, e.endDone, n
			}
		}
	}
	return false, 0, 0
}

func waveIDs[T any](ss []T, f func(T) int) []int {
	var o []int
	for _, s := range ss {
		o = append(o, f(s))
	}
	return o
}

// firstDiff returns the first index at which two slices differ, -1 if equal.
func firstDiff(a, b []uint32) int {
	if len(a) != len(b) {
		return min(len(a), len(b))
	}
	for i := range a {
		if a[i] != b[i] {
			return i
		}
	}
	return -1
}

// ---- early exits and the barrier: in which order did they happen? (counters
// only; the oracles are R1, the completion rule and the deadlock rule.) An
// "early exit" is a wavefront that completed s_endpgm having issued fewer
// s_barrier than some other wavefront of its group; the barrier it skips is
// generation g. At the cycle t its s_endpgm completed every other wavefront of
// the group is one of: ended (strictly before t), parked (issued barrier g at
// least parkMargin cycles before t and nothing after it until t), arriving
// later (issues barrier g after t), leaving later (never issues barrier g and
// ends after t), or unclear (within the margin). "After the staying
// wavefronts parked" = nobody arrives later, nobody unclear, somebody parked.
// Such an exit "has to release the barrier" when in addition nobody leaves
// later: every other unfinished wavefront of the group is parked, and the
// release is the ending wavefront's business.
const parkMargin = 2

func wavesParkedOnCU(groups []*groupRec, t int64) int {
	n := 0
	for _, g2 := range groups {
		for _, w := range g2.Waves {
			var last *instRec
			for _, i := range w.Insts {
				if i.Start < t {
					last = i
				}
			}
			if last != nil && last.Class == "barrier" {
				n++
			}
		}
	}
	return n
}

func (j *judge) countExitOrders(groups []*groupRec, expectWaves int) {
	rec := j.rec
	for _, gr := range groups {
		views := make([]waveBarriers, 0, expectWaves)
		maxGen := 0
		for idx := 0; idx < expectWaves; idx++ {
			w := gr.Waves[idx]
			if w == nil {
				break
			}
			v := barrierView(w)
			maxGen = max(maxGen, len(v.bar))
			views = append(views, v)
		}
		if len(views) != expectWaves {
			continue
		}
		exits, lateExits, releasing := 0, 0, 0
		for ei, e := range views {
			if e.endDone == never || len(e.bar) >= maxGen {
				continue
			}
			exits++
			t := e.endDone
			g := len(e.bar) + 1
			ended, parked, later, leaving, unclear := 0, 0, 0, 0, 0
			for ui, u := range views {
				if ui == ei {
					continue
				}
				switch {
				case len(u.bar) < g && u.endDone < t:
					ended++
				case len(u.bar) < g && u.endDone > t:
					leaving++
				case len(u.bar) >= g && u.bar[g-1].Start+parkMargin <= t && u.next[g-1] >= t:
					parked++
				case len(u.bar) >= g && u.bar[g-1].Start > t:
					later++
				default:
					unclear++
				}
			}
			rec.Count("early_exits", 1)
			rec.Distinct("early_exit_before_barrier_generation", fmt.Sprint(g))
			switch {
			case later > 0 && parked > 0:
				rec.Count("early_exits_between_arrivals_at_the_barrier", 1)
			case later > 0:
				rec.Count("early_exits_before_any_other_wavefront_arrived_at_the_barrier", 1)
			case unclear == 0 && parked > 0:
				lateExits++
				rec.Count("early_exits_after_the_staying_wavefronts_parked", 1)
				rec.Distinct("late_early_exit_rank", fmt.Sprint(ended+1))
				if ended >= 1 {
					rec.Count("early_exits_after_the_staying_wavefronts_parked_2nd_or_later_of_the_group", 1)
				}
				if ended >= 2 {
					rec.Count("early_exits_after_the_staying_wavefronts_parked_3rd_or_later_of_the_group", 1)
				}
				if leaving > 0 {
					break
				}
				releasing++
				rec.Count("early_exits_that_had_to_release_the_barrier", 1)
				rec.Distinct("releasing_early_exit_group_shape", fmt.Sprintf("W=%d ended=%d parked=%d gen=%d", expectWaves, ended, parked, g))
				if ended >= 1 {
					rec.Count("early_exits_that_had_to_release_the_barrier_with_another_wavefront_already_ended", 1)
				}
				if ended >= 2 {
					rec.Count("early_exits_that_had_to_release_the_barrier_with_2_or_more_wavefronts_already_ended", 1)
				}
				if g >= 2 {
					rec.Count("early_exits_that_had_to_release_the_2nd_or_a_later_barrier", 1)
				}
				if n := wavesParkedOnCU(groups, t); n > 16 {
					rec.Count("early_exits_that_had_to_release_the_barrier_with_more_than_16_wavefronts_parked_on_the_cu", 1)
					if ended >= 1 {
						rec.Count("early_exits_that_had_to_release_the_barrier_with_another_ended_and_more_than_16_parked_on_the_cu", 1)
					}
				}
			}
		}
		if exits >= 2 {
			rec.Count("work_groups_with_2_or_more_early_exits", 1)
		}
		if lateExits >= 2 {
			rec.Count("work_groups_with_2_or_more_early_exits_after_the_staying_wavefronts_parked", 1)
		}
		if lateExits >= 3 {
			rec.Count("work_groups_with_3_or_more_early_exits_after_the_staying_wavefronts_parked", 1)
		}
		if releasing >= 2 {
			rec.Count("work_groups_with_releases_by_ending_wavefronts_at_2_or_more_barriers", 1)
		}
	}
}
