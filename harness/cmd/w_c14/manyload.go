package main

// Wait counts with many vector loads in flight, per architecture (rule R2):
// up to 40 FLAT loads to distinct cache lines and up to 16 scalar loads are
// in flight when an s_waitcnt with arbitrary field values is issued, on the
// GCN3 compute unit (vmcnt 4 bits, 15 = no wait) and on one built as the
// MI300A platform builds it (CDNA3 decoding: vmcnt 6 bits, 63 = no wait;
// CDNA3 ALU; register scoreboard). Consumers fold the oldest / a middle / the
// newest result the wait guarantees, so a wait that completes early also
// changes the output.

import (
	"fmt"

	"verifharness/vlib"
)

func manyload(n, vm, lg, s int, noWait int) phase {
	p := phase{Kind: "manyload", N: n, VM: vm, LG: lg, S: s}
	if vm != noWait && n-1-vm >= 0 {
		last := n - 1 - vm
		p.Cons = []int{0}
		if last/2 > 0 {
			p.Cons = append(p.Cons, last/2)
		}
		if last > 0 {
			p.Cons = append(p.Cons, last)
		}
	}
	p.Rest = []int{n - 1}
	if n/2 != n-1 {
		p.Rest = append(p.Rest, n/2)
	}
	return p
}

func manyEnv(seed uint64, vec, sca memProfile) envConfig {
	return envConfig{ROB: true, Inst: plainProfile("fast", 1, 3), Scalar: sca, Vector: vec, Seed: seed}
}

func canonicalManyLoad() []scenario {
	slowV := plainProfile("slow", 700, 1200)
	slowS := plainProfile("slow", 500, 900)
	fast := plainProfile("fast", 1, 3)
	k := func(arch string, w, nwg int, ph ...phase) kernelSpec {
		return kernelSpec{Arch: arch, W: w, NWG: nwg, Mul: 0x01000193, Salt: 0x9e3779b9, Seed: 1416, Phases: ph}
	}
	var s []scenario
	add := func(name string, kk kernelSpec, e envConfig) { s = append(s, scenario{Name: name, Kernel: kk, Env: e}) }
	// CDNA3 decoding: 15 is an ordinary count. 18 loads in flight, vmcnt(15), the three oldest results are used
	p := manyload(18, 15, 15, 0, 63)
	p.Cons = []int{0, 1, 2}
	add("canon-cdna3-18-loads-vmcnt-15-oldest-three-used", k("cdna3", 1, 1, p), manyEnv(21, slowV, fast))
	add("canon-cdna3-40-loads-vmcnt-15-16-17", k("cdna3", 2, 1, manyload(40, 15, 15, 0, 63), manyload(40, 16, 15, 0, 63), manyload(40, 17, 15, 0, 63)), manyEnv(22, slowV, fast))
	add("canon-cdna3-40-loads-vmcnt-31-32-47", k("cdna3", 1, 2, manyload(40, 31, 15, 0, 63), manyload(40, 32, 15, 0, 63), manyload(40, 37, 15, 0, 63), manyload(36, 14, 15, 0, 63)), manyEnv(23, slowV, fast))
	add("canon-cdna3-no-wait-63-and-small-counts", k("cdna3", 1, 1, manyload(24, 63, 15, 0, 63), manyload(20, 0, 15, 0, 63), manyload(22, 3, 15, 0, 63), manyload(30, 8, 15, 0, 63)), manyEnv(24, slowV, fast))
	add("canon-cdna3-scalar-loads-lgkmcnt-with-vmcnt-15", k("cdna3", 1, 1, manyload(20, 15, 14, 16, 63), manyload(17, 15, 3, 12, 63), manyload(4, 63, 8, 16, 63), manyload(2, 62, 0, 5, 63)), manyEnv(25, slowV, slowS))
	// GCN3: vmcnt is four bits, 15 = no wait by the ISA
	add("canon-gcn3-18-loads-vmcnt-14-and-15", k("", 1, 1, manyload(18, 14, 15, 0, 15), manyload(18, 15, 15, 0, 15)), manyEnv(26, slowV, fast))
	add("canon-gcn3-40-loads-vmcnt-8-7-3-0", k("", 2, 1, manyload(40, 8, 15, 0, 15), manyload(40, 7, 15, 0, 15), manyload(33, 3, 15, 0, 15), manyload(25, 0, 15, 0, 15)), manyEnv(27, slowV, fast))
	add("canon-gcn3-scalar-loads-lgkmcnt", k("", 1, 2, manyload(20, 14, 14, 16, 15), manyload(3, 15, 7, 16, 15), manyload(16, 2, 2, 9, 15)), manyEnv(28, slowV, slowS))
	return s
}

var vmChoices = []int{0, 1, 2, 3, 7, 8, 14, 15, 16, 17, 31, 32, 47, 62, 63}
var lgChoices = []int{0, 1, 2, 3, 7, 8, 14, 15, 15, 15}

func genManyLoad(r *vlib.PRNG, idx int) scenario {
	k := kernelSpec{W: []int{1, 1, 2, 3}[r.Intn(4)], NWG: 1 + r.Intn(2), Mul: 2*r.Uint32() + 1, Salt: r.Uint32(), Seed: r.Uint64()}
	if r.Bool() {
		k.Arch = "cdna3"
	}
	noWait := k.noWaitVM()
	for i, n := 0, 1+r.Intn(3); i < n; i++ {
		nl := []int{1, 4, 12, 16, 17, 18, 20, 24, 32, 33, 40, 40}[r.Intn(12)]
		var vm int
		for {
			vm = vmChoices[r.Intn(len(vmChoices))]
			if vm <= noWait {
				break
			}
		}
		s := 0
		lg := 15
		if r.Chance(1, 3) {
			s = 1 + r.Intn(16)
			lg = lgChoices[r.Intn(len(lgChoices))]
		} else if r.Chance(1, 4) {
			lg = lgChoices[r.Intn(len(lgChoices))] // FLAT loads only: the simulator counts them in lgkmcnt as well (over-wait, never too early)
		}
		p := manyload(nl, vm, lg, s, noWait)
		if len(p.Cons) > 1 && r.Chance(1, 3) {
			p.Cons = p.Cons[r.Intn(len(p.Cons)):][:1]
		}
		k.Phases = append(k.Phases, p)
		if r.Chance(1, 4) {
			k.Phases = append(k.Phases, phase{Kind: "delay", Base: 1 + r.Intn(4), Per: r.Intn(20), Rot: r.Intn(4), Mask: 3})
		}
	}
	vec := []memProfile{plainProfile("slow", 700, 1200), plainProfile("slow", 300, 1500), plainProfile("medium", 60, 400), plainProfile("fast", 2, 30)}[r.Intn(4)]
	vec.TakePerCycle = []int{0, 0, 2}[r.Intn(3)]
	sca := []memProfile{plainProfile("fast", 1, 5), plainProfile("slow", 300, 900)}[r.Intn(2)]
	e := manyEnv(r.Uint64(), vec, sca)
	e.Scoreboard = r.Bool()
	e.ROB = r.Chance(2, 3)
	return scenario{Name: fmt.Sprintf("ml%d", idx), Kernel: k, Env: e}
}
