package main

// Driver part of C19, memory layer: the same real driver.Driver + real page
// table between fake command processors and a fake MMU as drv.go, but with
// (1) tiny GPUs that are full or nearly full, the default and the buddy
// allocator, and an application that calls AllocateMemory / FreeMemory / Remap
// and writes into its buffers *inside* the migration window (the calls are made
// from the ticks of the fake peers, i.e. on the engine goroutine between two
// component ticks, so every history is deterministic);
// (2) a byte-addressed fake memory per GPU: the fake command processor of the
// destination GPU performs the page copy the page migration controllers would
// do (64-byte chunks, addresses taken from the PageMigrationReqToCP it got),
// application writes go to the physical address the page table gives.
//
// Judged: at every driver tick and after every application call
//   - the frame a migrating page occupied when the driver took the request is
//     not owned by any other live page until the driver has taken the
//     acknowledgement of that page's copy,
//   - no frame is owned by two live pages (the frame a migration assigned is
//     reported under its own key),
//   - no mapping changed that neither a migration nor an application call
//     changed;
// when the reply to the MMU is sent and again at the end, after both GPUs
// were filled to the last frame: every live page read through the page table
// holds what the application wrote to it last.

import (
	"encoding/binary"
	"fmt"
	"sort"
	"strings"
	"sync"

	"github.com/sarchlab/akita/v4/mem/mem"
	"github.com/sarchlab/akita/v4/mem/vm"
	"github.com/sarchlab/akita/v4/sim"
	"github.com/sarchlab/mgpusim/v4/amd/driver"
	"github.com/sarchlab/mgpusim/v4/amd/protocol"

	"verifharness/vlib"
	"verifharness/vlib/simkit"
)

// allocKindMu guards the package-level allocator selector of the driver
// (driver.VerifUseBuddyAllocator): builders of default-allocator drivers hold
// it shared, builders of buddy drivers exclusively.
var allocKindMu sync.RWMutex

type dmCfg struct {
	NumGPU       int    `json:"num_gpu"`
	Log2Page     uint64 `json:"log2_page"`
	PagesPerGPU  int    `json:"pages_per_gpu"` // DRAM size of every GPU in pages
	NumProc      int    `json:"num_proc"`
	Buddy        bool   `json:"buddy_allocator"`
	CPDelayMax   int    `json:"cp_delay_max"`
	ParkMax      int    `json:"park_max"`       // cycles a PageMigrationReqToCP stays with the CP before the copy is acknowledged
	CopyEarlyPct int    `json:"copy_early_pct"` // chance that the copy is done on arrival (before the window's calls) instead of at the acknowledgement
	Seed         uint64 `json:"seed"`
}

// dmOp is one application call. Buffers are named by the order in which the
// script creates them (alloc and probe consume one id each).
type dmOp struct {
	Kind   string `json:"op"`    // alloc | probe | free | remap | write
	Proc   int    `json:"proc"`  // alloc/probe: process
	GPU    int    `json:"gpu"`   // alloc/probe: device; remap: target device
	Pages  int    `json:"pages"` // alloc: size in pages (probe: 1)
	New    int    `json:"new"`   // alloc/probe: id of the buffer created
	Buf    int    `json:"buf"`   // free/remap/write: buffer acted on
	Pinned bool   `json:"pinned,omitempty"`
}

type dmPageRef struct {
	Buf  int `json:"buf"`
	Page int `json:"page"`
}

type dmRequester struct {
	GPU   int         `json:"gpu"`
	Pages []dmPageRef `json:"pages"`
}

type dmReq struct {
	Proc       int           `json:"proc"`
	Host       int           `json:"host"`
	Requesters []dmRequester `json:"requesters"`
	Accessing  []uint64      `json:"accessing"`
	Wait       bool          `json:"wait_for_previous_reply"`
	Gap        int           `json:"gap"`
	Before     []dmOp        `json:"before,omitempty"`        // before the request is sent (only if Wait or first)
	PreShoot   []dmOp        `json:"pre_shootdown,omitempty"` // in the window, before the page is re-homed
	Parked     [][]dmOp      `json:"parked,omitempty"`        // in the window, while the k-th page copy is outstanding
	AfterReply []dmOp        `json:"after_reply,omitempty"`   // when the MMU has the reply (only if the next request waits / last)
}

type dmScenario struct {
	Name  string  `json:"name"`
	Cfg   dmCfg   `json:"cfg"`
	Setup []dmOp  `json:"setup"`
	Reqs  []dmReq `json:"reqs"`
}

// ---------------------------------------------------------------------------
// capacity model: how many frames the allocator can still hand out per GPU on
// the unchanged tree (a frame a page leaves behind when it is re-homed is not
// returned). Used by the generator to plan only calls that must succeed and by
// the runner to classify what it did.

type mbuf struct {
	proc    int
	pinned  bool
	live    bool
	pageGPU []int
}

type dmModel struct {
	free []int // 1-based
	bufs []mbuf
}

func newDMModel(c dmCfg) *dmModel {
	m := &dmModel{free: make([]int, c.NumGPU+1)}
	for g := 1; g <= c.NumGPU; g++ {
		m.free[g] = c.PagesPerGPU
	}
	return m
}

// apply executes op on the model; it returns a non-empty string when the
// script is not executable (planner error, never a property violation).
func (m *dmModel) apply(op dmOp, buddy bool) string {
	validGPU := func(g int) bool { return g >= 1 && g < len(m.free) }
	switch op.Kind {
	case "alloc":
		if op.New != len(m.bufs) || !validGPU(op.GPU) || op.Pages < 1 || m.free[op.GPU] < op.Pages {
			return fmt.Sprintf("alloc %+v not executable (free %v, %d buffers)", op, m.free[1:], len(m.bufs))
		}
		b := mbuf{proc: op.Proc, pinned: op.Pinned, live: true}
		for j := 0; j < op.Pages; j++ {
			b.pageGPU = append(b.pageGPU, op.GPU)
		}
		m.free[op.GPU] -= op.Pages
		m.bufs = append(m.bufs, b)
	case "probe":
		if op.New != len(m.bufs) || !validGPU(op.GPU) || m.free[op.GPU] != 0 {
			return fmt.Sprintf("probe %+v not on a full GPU (free %v, %d buffers)", op, m.free[1:], len(m.bufs))
		}
		m.bufs = append(m.bufs, mbuf{proc: op.Proc})
	case "free", "remap", "write":
		if op.Buf < 0 || op.Buf >= len(m.bufs) || !m.bufs[op.Buf].live {
			return fmt.Sprintf("%+v names no live buffer", op)
		}
		b := &m.bufs[op.Buf]
		switch op.Kind {
		case "free":
			if b.pinned {
				return fmt.Sprintf("%+v frees a migratable buffer", op)
			}
			for _, g := range b.pageGPU {
				m.free[g]++
			}
			b.live = false
		case "remap":
			if b.pinned || !validGPU(op.GPU) || m.free[op.GPU] < len(b.pageGPU) || (buddy && len(b.pageGPU) != 1) {
				return fmt.Sprintf("remap %+v not executable (free %v)", op, m.free[1:])
			}
			m.free[op.GPU] -= len(b.pageGPU)
			for j := range b.pageGPU {
				b.pageGPU[j] = op.GPU
			}
		}
	default:
		return fmt.Sprintf("unknown op %+v", op)
	}
	return ""
}

func (m *dmModel) rehome(q dmReq) string {
	for _, rq := range q.Requesters {
		for _, ref := range rq.Pages {
			if ref.Buf < 0 || ref.Buf >= len(m.bufs) || !m.bufs[ref.Buf].pinned || ref.Page >= len(m.bufs[ref.Buf].pageGPU) ||
				m.bufs[ref.Buf].pageGPU[ref.Page] != q.Host || m.bufs[ref.Buf].proc != q.Proc {
				return fmt.Sprintf("page %+v is not a migratable page of process %d on GPU %d", ref, q.Proc, q.Host)
			}
			if m.free[rq.GPU] < 1 {
				return fmt.Sprintf("GPU %d has no room for page %+v", rq.GPU, ref)
			}
			m.free[rq.GPU]--
			m.bufs[ref.Buf].pageGPU[ref.Page] = rq.GPU
		}
	}
	return ""
}

// ---------------------------------------------------------------------------
// generator

type dmGen struct {
	r *vlib.PRNG
	c dmCfg
	m *dmModel
}

func (g *dmGen) emit(list *[]dmOp, op dmOp) {
	if e := g.m.apply(op, g.c.Buddy); e != "" {
		panic("w_c19 memory-layer planner: " + e)
	}
	*list = append(*list, op)
}

func (g *dmGen) alloc(list *[]dmOp, proc, gpu, pages int, pinned bool) int {
	id := len(g.m.bufs)
	g.emit(list, dmOp{Kind: "alloc", Proc: proc, GPU: gpu, Pages: pages, New: id, Pinned: pinned})
	return id
}

func (g *dmGen) probe(list *[]dmOp, gpu int) {
	g.emit(list, dmOp{Kind: "probe", Proc: g.r.Intn(g.c.NumProc), GPU: gpu, Pages: 1, New: len(g.m.bufs)})
}

// appBufsOn lists the live application buffers that lie on gpu.
func (g *dmGen) appBufsOn(gpu int) []int {
	var out []int
	for i, b := range g.m.bufs {
		if b.live && !b.pinned && b.pageGPU[0] == gpu {
			out = append(out, i)
		}
	}
	return out
}

func (g *dmGen) avail(gpu int, reserve []int) int {
	a := g.m.free[gpu]
	if reserve != nil {
		a -= reserve[gpu]
	}
	return a
}

// exhaust allocates every frame the model says gpu still has (beyond the
// reserve) and, if none is reserved, asks for one more.
func (g *dmGen) exhaust(list *[]dmOp, gpu int, reserve []int) {
	for g.avail(gpu, reserve) > 0 {
		k := 1 + g.r.Intn(min(2, g.avail(gpu, reserve)))
		g.alloc(list, g.r.Intn(g.c.NumProc), gpu, k, false)
	}
	if reserve == nil || reserve[gpu] == 0 {
		g.probe(list, gpu)
	}
}

func (g *dmGen) randomOp(list *[]dmOp, reserve []int, pinnedWrites bool) {
	for try := 0; try < 6; try++ {
		switch g.r.Intn(6) {
		case 0, 1: // alloc
			gpu := 1 + g.r.Intn(g.c.NumGPU)
			if a := g.avail(gpu, reserve); a > 0 {
				g.alloc(list, g.r.Intn(g.c.NumProc), gpu, 1+g.r.Intn(min(2, a)), false)
				return
			}
			if reserve == nil || reserve[gpu] == 0 {
				g.probe(list, gpu)
				return
			}
		case 2: // free
			if bs := g.appBufsOn(1 + g.r.Intn(g.c.NumGPU)); len(bs) > 0 {
				g.emit(list, dmOp{Kind: "free", Buf: bs[g.r.Intn(len(bs))]})
				return
			}
		case 3: // remap
			bs := g.appBufsOn(1 + g.r.Intn(g.c.NumGPU))
			gpu := 1 + g.r.Intn(g.c.NumGPU)
			if len(bs) > 0 {
				b := bs[g.r.Intn(len(bs))]
				n := len(g.m.bufs[b].pageGPU)
				if g.avail(gpu, reserve) >= n && (!g.c.Buddy || n == 1) {
					g.emit(list, dmOp{Kind: "remap", Buf: b, GPU: gpu})
					return
				}
			}
		default: // write
			var cand []int
			for i, b := range g.m.bufs {
				if b.live && (!b.pinned || pinnedWrites) {
					cand = append(cand, i)
				}
			}
			if len(cand) > 0 {
				g.emit(list, dmOp{Kind: "write", Buf: cand[g.r.Intn(len(cand))]})
				return
			}
		}
	}
}

func genMemScenario(r *vlib.PRNG, idx int) dmScenario {
	buddy := idx%2 == 1
	c := dmCfg{NumGPU: 2 + r.Intn(3), Log2Page: 12, NumProc: 1 + r.Intn(2), Buddy: buddy,
		CPDelayMax: []int{0, 3, 20}[r.Intn(3)], ParkMax: []int{0, 5, 40}[r.Intn(3)],
		CopyEarlyPct: []int{0, 0, 30}[r.Intn(3)], Seed: r.Uint64()}
	if buddy {
		// the buddy allocator is written for 4 KiB pages and power-of-two sizes
		c.PagesPerGPU = []int{4, 8, 16}[r.Intn(3)]
	} else {
		c.Log2Page = []uint64{12, 12, 13, 16}[r.Intn(4)]
		c.PagesPerGPU = 3 + r.Intn(6)
	}
	pre := "m"
	if buddy {
		pre = "mb"
	}
	s := dmScenario{Name: fmt.Sprintf("%s%d", pre, idx), Cfg: c}
	g := &dmGen{r: r, c: c, m: newDMModel(c)}

	// migratable buffers, then application buffers up to a chosen fullness
	for p := 0; p < c.NumProc; p++ {
		for gpu := 1; gpu <= c.NumGPU; gpu++ {
			if g.m.free[gpu] > 2 || (p == 0 && g.m.free[gpu] >= 2) {
				k := 1
				if g.m.free[gpu] > 4 && r.Chance(1, 3) {
					k = 2
				}
				g.alloc(&s.Setup, p, gpu, k, true)
			}
		}
	}
	for gpu := 1; gpu <= c.NumGPU; gpu++ {
		target := []int{0, 0, 1, 1, 2, r.Intn(c.PagesPerGPU)}[r.Intn(6)]
		for g.m.free[gpu] > target {
			g.alloc(&s.Setup, r.Intn(c.NumProc), gpu, 1+r.Intn(min(2, g.m.free[gpu]-target)), false)
		}
	}

	nReq := 1 + r.Intn(4)
	pendingAfter := -1
	forceWait := false // the previous request already has calls after its reply
	for k := 0; k < nReq; k++ {
		wait := len(s.Reqs) == 0 || forceWait || r.Chance(2, 3)
		p := r.Intn(c.NumProc)
		// a host that holds migratable pages of a process
		var onHost []dmPageRef
		h := 0
		for _, pp := range []int{p, (p + 1) % c.NumProc} {
			for _, hi := range r.Perm(c.NumGPU) {
				for bi, b := range g.m.bufs {
					if b.pinned && b.proc == pp {
						for j, pg := range b.pageGPU {
							if pg == hi+1 {
								onHost = append(onHost, dmPageRef{bi, j})
							}
						}
					}
				}
				if len(onHost) > 0 {
					h, p = hi+1, pp
					break
				}
			}
			if h != 0 {
				break
			}
		}
		if h == 0 {
			break
		}
		q := dmReq{Proc: p, Host: h, Wait: wait, Gap: r.Intn(40)}
		if wait && pendingAfter >= 0 {
			// the previous window is closed and nothing else is in flight
			prev := &s.Reqs[pendingAfter]
			forceWait = true
			if r.Chance(1, 3) {
				g.exhaust(&prev.AfterReply, prev.Requesters[0].GPU, nil)
			} else {
				for n := r.Intn(3); n > 0; n-- {
					g.randomOp(&prev.AfterReply, nil, true)
				}
			}
		}
		nRq := 1
		if c.NumGPU > 2 && len(onHost) >= 2 && r.Chance(1, 3) {
			nRq = 2
		}
		need := make([]int, c.NumGPU+1)
		perm := r.Perm(len(onHost))
		used := 0
		for _, gi := range r.Perm(c.NumGPU) {
			dst := gi + 1
			if dst == h || len(q.Requesters) >= nRq || used >= len(onHost) {
				continue
			}
			want := 1 + r.Intn(min(2, len(onHost)-used))
			room := g.m.free[dst]
			if room < want && wait {
				// the application makes room on the destination first
				for _, b := range g.appBufsOn(dst) {
					if room >= want {
						break
					}
					room += len(g.m.bufs[b].pageGPU)
					g.emit(&q.Before, dmOp{Kind: "free", Buf: b})
				}
			}
			want = min(want, room)
			if want == 0 {
				continue
			}
			rq := dmRequester{GPU: dst}
			for ; want > 0; want-- {
				rq.Pages = append(rq.Pages, onHost[perm[used]])
				used++
				need[dst]++
			}
			q.Requesters = append(q.Requesters, rq)
		}
		if len(q.Requesters) == 0 {
			if len(q.Before) > 0 && pendingAfter >= 0 {
				s.Reqs[pendingAfter].AfterReply = append(s.Reqs[pendingAfter].AfterReply, q.Before...)
			} else if len(q.Before) > 0 {
				s.Setup = append(s.Setup, q.Before...)
			}
			continue
		}
		acc := []uint64{uint64(h)}
		for gpu := 1; gpu <= c.NumGPU; gpu++ {
			if gpu != h && r.Bool() {
				acc = append(acc, uint64(gpu))
			}
		}
		for _, i := range r.Perm(len(acc)) {
			q.Accessing = append(q.Accessing, acc[i])
		}
		if wait {
			for n := r.Intn(3); n > 0; n-- {
				g.randomOp(&q.Before, need, true)
			}
		}
		for n := []int{0, 0, 1, 2}[r.Intn(4)]; n > 0; n-- {
			g.randomOp(&q.PreShoot, need, false)
		}
		if e := g.m.rehome(q); e != "" {
			panic("w_c19 memory-layer planner: " + e)
		}
		for j := 0; j < used; j++ {
			var ops []dmOp
			switch x := r.Intn(10); {
			case x < 4: // use up the source GPU, possibly after freeing something there
				if bs := g.appBufsOn(h); len(bs) > 0 && r.Bool() {
					g.emit(&ops, dmOp{Kind: "free", Buf: bs[r.Intn(len(bs))]})
				}
				g.exhaust(&ops, h, nil)
			case x < 6: // free one buffer on the source GPU, allocate one of the same size
				if bs := g.appBufsOn(h); len(bs) > 0 {
					b := bs[r.Intn(len(bs))]
					g.emit(&ops, dmOp{Kind: "free", Buf: b})
					g.alloc(&ops, r.Intn(c.NumProc), h, len(g.m.bufs[b].pageGPU), false)
				} else {
					g.exhaust(&ops, h, nil)
				}
			case x < 7: // use up the destination GPU
				g.exhaust(&ops, q.Requesters[r.Intn(len(q.Requesters))].GPU, nil)
			case x < 9:
				for n := 1 + r.Intn(3); n > 0; n-- {
					g.randomOp(&ops, nil, false)
				}
			}
			q.Parked = append(q.Parked, ops)
		}
		s.Reqs = append(s.Reqs, q)
		pendingAfter = len(s.Reqs) - 1
		forceWait = false
	}
	if pendingAfter >= 0 {
		prev := &s.Reqs[pendingAfter]
		for n := r.Intn(3); n > 0; n-- {
			g.randomOp(&prev.AfterReply, nil, true)
		}
	}
	return s
}

// canonicalMem: seed-independent histories, among them the two demonstrated
// manifestations of a source frame that is released when the page is re-homed.
func canonicalMem() []dmScenario {
	al := func(proc, gpu, pages, id int) dmOp {
		return dmOp{Kind: "alloc", Proc: proc, GPU: gpu, Pages: pages, New: id}
	}
	pin := func(proc, gpu, pages, id int) dmOp {
		return dmOp{Kind: "alloc", Proc: proc, GPU: gpu, Pages: pages, New: id, Pinned: true}
	}
	pr := func(gpu, id int) dmOp { return dmOp{Kind: "probe", GPU: gpu, Pages: 1, New: id} }
	fr := func(b int) dmOp { return dmOp{Kind: "free", Buf: b} }
	wr := func(b int) dmOp { return dmOp{Kind: "write", Buf: b} }
	one := func(buf, page int) []dmPageRef { return []dmPageRef{{buf, page}} }
	var out []dmScenario
	for _, buddy := range []bool{false, true} {
		k := "default"
		if buddy {
			k = "buddy"
		}
		cfg := func(gpus, pages, procs, park int) dmCfg {
			return dmCfg{NumGPU: gpus, Log2Page: 12, PagesPerGPU: pages, NumProc: procs, Buddy: buddy, CPDelayMax: 2, ParkMax: park, Seed: 19}
		}
		out = append(out,
			// GPU 1 is full; while the copy is outstanding the application frees one
			// buffer on GPU 1 and allocates another one there
			dmScenario{Name: "canon-mem-" + k + "-full-source-free-then-alloc", Cfg: cfg(2, 4, 1, 6),
				Setup: []dmOp{pin(0, 1, 1, 0), al(0, 1, 1, 1), al(0, 1, 1, 2), al(0, 1, 1, 3), al(0, 2, 1, 4)},
				Reqs: []dmReq{{Proc: 0, Host: 1, Requesters: []dmRequester{{GPU: 2, Pages: one(0, 0)}}, Accessing: []uint64{1}, Wait: true,
					Parked: [][]dmOp{{fr(1), al(0, 1, 1, 5), wr(5)}}}}},
			// GPU 1 is full and stays full: one more page is asked for in the window
			dmScenario{Name: "canon-mem-" + k + "-full-source-one-more-page", Cfg: cfg(2, 4, 1, 6),
				Setup: []dmOp{pin(0, 1, 1, 0), al(0, 1, 1, 1), al(0, 1, 2, 2), al(0, 2, 1, 3)},
				Reqs: []dmReq{{Proc: 0, Host: 1, Requesters: []dmRequester{{GPU: 2, Pages: one(0, 0)}}, Accessing: []uint64{1, 2}, Wait: true,
					Parked: [][]dmOp{{pr(1, 4)}}}}},
			// GPU 1 has room: two small allocations in the window (the buddy allocator
			// hands the most recently released block out first), then everything that is left
			dmScenario{Name: "canon-mem-" + k + "-roomy-source-small-allocs", Cfg: cfg(2, 8, 1, 6),
				Setup: []dmOp{pin(0, 1, 1, 0), al(0, 1, 1, 1), al(0, 2, 1, 2)},
				Reqs: []dmReq{{Proc: 0, Host: 1, Requesters: []dmRequester{{GPU: 2, Pages: one(0, 0)}}, Accessing: []uint64{1}, Wait: true,
					Parked: [][]dmOp{{al(0, 1, 1, 3), al(0, 1, 1, 4), al(0, 1, 2, 5), al(0, 1, 2, 6), pr(1, 7)}}}}},
			// three pages of two processes leave a full GPU 1 for two requesters; the
			// application of the other process allocates while the first copy is outstanding,
			// i.e. while the other two pages are re-homed but not copied yet
			dmScenario{Name: "canon-mem-" + k + "-three-pages-two-requesters", Cfg: cfg(3, 4, 2, 4),
				Setup: []dmOp{pin(0, 1, 2, 0), pin(0, 1, 1, 1), al(1, 1, 1, 2), al(1, 2, 1, 3), al(0, 3, 2, 4)},
				Reqs: []dmReq{{Proc: 0, Host: 1, Requesters: []dmRequester{{GPU: 2, Pages: []dmPageRef{{0, 0}, {1, 0}}}, {GPU: 3, Pages: one(0, 1)}},
					Accessing: []uint64{3, 1}, Wait: true,
					PreShoot: []dmOp{wr(2)},
					Parked:   [][]dmOp{{fr(2), al(1, 1, 1, 5), pr(1, 6)}, {wr(5)}, {pr(1, 7)}}}}},
			// ping-pong with application calls before, inside and after both windows;
			// both GPUs are filled to the last frame after each reply
			dmScenario{Name: "canon-mem-" + k + "-ping-pong-fill-after-reply", Cfg: cfg(2, 4, 2, 3),
				Setup: []dmOp{pin(0, 1, 1, 0), pin(1, 1, 1, 1), al(1, 1, 1, 2), al(0, 2, 1, 3), al(1, 2, 1, 4)},
				Reqs: []dmReq{
					{Proc: 0, Host: 1, Requesters: []dmRequester{{GPU: 2, Pages: one(0, 0)}}, Accessing: []uint64{1}, Wait: true,
						Before: []dmOp{wr(0)}, PreShoot: []dmOp{al(1, 1, 1, 5)},
						Parked:     [][]dmOp{{pr(1, 6), fr(2), al(0, 1, 1, 7)}},
						AfterReply: []dmOp{al(0, 2, 1, 8), pr(2, 9), pr(1, 10)}},
					{Proc: 0, Host: 2, Requesters: []dmRequester{{GPU: 1, Pages: one(0, 0)}}, Accessing: []uint64{2, 1}, Wait: true,
						Before:     []dmOp{fr(7), wr(0)},
						Parked:     [][]dmOp{{fr(3), al(1, 2, 1, 11), pr(2, 12), pr(1, 13)}},
						AfterReply: []dmOp{pr(1, 14), pr(2, 15)}},
					{Proc: 1, Host: 1, Requesters: []dmRequester{{GPU: 2, Pages: one(1, 0)}}, Accessing: []uint64{1}, Wait: true,
						Before: []dmOp{fr(11)},
						Parked: [][]dmOp{{pr(1, 16), pr(2, 17)}}}}},
		)
	}
	return out
}

// ---------------------------------------------------------------------------
// runner

func fillPattern(b []byte, tag uint64) {
	x := tag*0x9E3779B97F4A7C15 | 1
	i := 0
	for ; i+8 <= len(b); i += 8 {
		x ^= x << 13
		x ^= x >> 7
		x ^= x << 17
		binary.LittleEndian.PutUint64(b[i:], x)
	}
	for ; i < len(b); i++ {
		x ^= x << 13
		x ^= x >> 7
		x ^= x << 17
		b[i] = byte(x)
	}
}

type afterHandlerHook struct {
	h sim.Handler
	f func()
}

func (a *afterHandlerHook) Func(ctx sim.HookCtx) {
	if ctx.Pos != sim.HookPosAfterEvent {
		return
	}
	if evt, ok := ctx.Item.(sim.Event); ok && evt.Handler() == a.h {
		a.f()
	}
}

type rbuf struct {
	proc   int
	ptr    uint64
	pages  int
	live   bool
	pinned bool
}

func runMemScenario(rec vlib.Recorder, s dmScenario) {
	rec.Eval()
	c := s.Cfg
	kind := "default"
	if c.Buddy {
		kind = "buddy"
	}
	if c.NumGPU < 2 || c.PagesPerGPU < 1 || c.NumProc < 1 || c.Log2Page < 6 || c.Log2Page > 20 {
		rec.Inconclusive(s.Name + ": configuration out of range")
		return
	}
	engine := sim.NewSerialEngine()
	freq := 1 * sim.GHz
	pageSize := uint64(1) << c.Log2Page

	wit := func(extra map[string]any) map[string]any {
		m := map[string]any{"part": "drivermem", "scenario": s}
		for k, v := range extra {
			m[k] = v
		}
		return m
	}
	seen := map[string]bool{}
	where := "setup" // what the harness was doing, for the witness
	viol := func(key, what string, extra map[string]any) {
		if seen[key] {
			return
		}
		seen[key] = true
		if extra == nil {
			extra = map[string]any{}
		}
		extra["at"] = where
		rec.Violation("C19|driver|"+key, s.Name+" ["+where+"]: "+what, wit(extra))
	}

	// ---- platform
	pt := vm.NewPageTable(c.Log2Page)
	var drv *driver.Driver
	cps := make([]*simkit.Agent, c.NumGPU)
	cpPort := make([]sim.Port, c.NumGPU)
	pmcPort := make([]sim.Port, c.NumGPU)
	for i := 0; i < c.NumGPU; i++ {
		cps[i] = simkit.NewAgent(fmt.Sprintf("CP%d", i+1), engine, freq)
		cpPort[i] = cps[i].NewPort("ToDriver", 64, 64)
		pmcPort[i] = cps[i].NewPort("PMCRemote", 1, 1)
	}
	func() {
		if c.Buddy {
			allocKindMu.Lock()
			driver.VerifUseBuddyAllocator(true)
			defer func() {
				driver.VerifUseBuddyAllocator(false)
				allocKindMu.Unlock()
			}()
		} else {
			allocKindMu.RLock()
			defer allocKindMu.RUnlock()
		}
		drv = driver.MakeBuilder().WithEngine(engine).WithFreq(freq).WithPageTable(pt).
			WithLog2PageSize(c.Log2Page).WithGlobalStorage(mem.NewStorage(1 << 20)).Build("Driver")
		for i := 0; i < c.NumGPU; i++ {
			drv.RegisterGPU(cpPort[i], driver.DeviceProperties{CUCount: 4, DRAMSize: uint64(c.PagesPerGPU) * pageSize})
			drv.RemotePMCPorts = append(drv.RemotePMCPorts, pmcPort[i])
		}
	}()
	drvGPU := drv.GetPortByName("GPU")
	drvMMU := drv.GetPortByName("MMU")
	pcie := simkit.Connect(engine, freq, "PCIe", drvGPU)
	for i := range cpPort {
		pcie.PlugIn(cpPort[i])
	}
	driverInitMu.Lock()
	ctxs := make([]*driver.Context, c.NumProc)
	for p := range ctxs {
		ctxs[p] = drv.Init()
	}
	driverInitMu.Unlock()
	vpt := drv.VerifPageTable()

	// ---- fake memory, shadow, bookkeeping
	rng := vlib.NewPRNG(c.Seed)
	wrng := rng.Fork("write")
	fmem := make([]map[uint64][]byte, c.NumGPU+1)
	for g := range fmem {
		fmem[g] = map[uint64][]byte{}
	}
	frame := func(g int, pa uint64) []byte {
		b := fmem[g][pa]
		if b == nil {
			b = make([]byte, pageSize)
			fmem[g][pa] = b
		}
		return b
	}
	devOf := func(pa uint64) (dev int) {
		defer func() {
			if recover() != nil {
				dev = -1
			}
		}()
		return drv.VerifDeviceIDByPAddr(pa)
	}
	find := func(k pageKey) (vm.Page, bool) { return vpt.Find(ctxs[k.proc].VerifPID(), k.vaddr) }
	// frameOfPage returns the backing bytes of a live page, through the page table
	frameOfPage := func(k pageKey) []byte {
		pg, ok := find(k)
		if !ok {
			viol("live-page-unmapped", fmt.Sprintf("page 0x%x of process %d is not in the page table", k.vaddr, k.proc), nil)
			return nil
		}
		d := devOf(pg.PAddr)
		if d < 1 || d > c.NumGPU || pg.PAddr%pageSize != 0 {
			viol("page-frame-on-no-gpu", fmt.Sprintf("page 0x%x of process %d maps to 0x%x, which is on device %d", k.vaddr, k.proc, pg.PAddr, d), nil)
			return nil
		}
		return frame(d, pg.PAddr)
	}
	shadow := map[pageKey][]byte{}    // what the application wrote last
	frameOf := map[pageKey]uint64{}   // frame the page has by the last call / migration that placed it
	everMigrated := map[pageKey]int{} // page -> number of completed migrations
	migFrame := map[pageKey]uint64{}  // frame assigned by the page's last migration
	var tag uint64
	var bytesCompared, pagesCompared, migPagesCompared, invEvals int64
	writePage := func(k pageKey, full bool) {
		fb := frameOfPage(k)
		if fb == nil {
			return
		}
		sh := shadow[k]
		if sh == nil {
			sh = make([]byte, pageSize)
			shadow[k] = sh
			full = true
		}
		off, n := uint64(0), pageSize
		if !full {
			off = uint64(wrng.Intn(int(pageSize)))
			n = 1 + uint64(wrng.Intn(int(pageSize-off)))
		}
		tag++
		fillPattern(sh[off:off+n], tag)
		copy(fb[off:off+n], sh[off:off+n])
	}
	diff := func(a, b []byte) (n int, first int) {
		first = -1
		for i := range a {
			if a[i] != b[i] {
				if first < 0 {
					first = i
				}
				n++
			}
		}
		return
	}
	comparePage := func(k pageKey, when string) {
		sh := shadow[k]
		if sh == nil {
			return
		}
		fb := frameOfPage(k)
		if fb == nil {
			return
		}
		pagesCompared++
		bytesCompared += int64(pageSize)
		if everMigrated[k] > 0 {
			migPagesCompared++
		}
		if n, first := diff(fb, sh); n > 0 {
			pg, _ := find(k)
			ex := map[string]any{"process": k.proc, "vaddr": k.vaddr, "page_table_entry": fmt.Sprintf("%+v", pg), "when": when,
				"bytes_differing": n, "first_offset": first, "got": fmt.Sprintf("% x", fb[first:min(first+8, len(fb))]), "want": fmt.Sprintf("% x", sh[first:min(first+8, len(sh))])}
			if everMigrated[k] > 0 {
				viol("migrated-page-contents-differ", fmt.Sprintf("%s: page 0x%x of process %d, migrated %d time(s), now at 0x%x on GPU %d: %d of %d bytes differ from what the application wrote last (first at offset %d)",
					when, k.vaddr, k.proc, everMigrated[k], pg.PAddr, pg.DeviceID, n, pageSize, first), ex)
			} else {
				viol("other-page-contents-changed", fmt.Sprintf("%s: page 0x%x of process %d (never migrated) at 0x%x: %d of %d bytes differ from what the application wrote last (first at offset %d)",
					when, k.vaddr, k.proc, pg.PAddr, n, pageSize, first), ex)
			}
		}
	}
	// livePages walks the driver's own buffer lists
	livePages := func(f func(k pageKey)) {
		for p, ctx := range ctxs {
			for _, vb := range ctx.VerifBuffers() {
				if vb.Freed {
					continue
				}
				n := (vb.Size + pageSize - 1) / pageSize
				for j := uint64(0); j < n; j++ {
					f(pageKey{p, uint64(vb.Ptr) + j*pageSize})
				}
			}
		}
	}
	compareAll := func(when string) {
		livePages(func(k pageKey) { comparePage(k, when) })
	}

	// in-flight state of the request the driver is handling
	curReq := -1
	protected := map[uint64]pageKey{}    // source frame -> migrating page, until the copy's acknowledgement is taken
	copiedFrames := map[uint64]pageKey{} // source frames whose copy is acknowledged, until the reply
	inflight := map[pageKey]uint64{}     // migrating page -> source frame
	var reusedAfterCopy int64
	evalInvariant := func() {
		invEvals++
		own := map[uint64]pageKey{}
		type dup struct {
			f    uint64
			a, b pageKey
		}
		var dups []dup
		livePages(func(k pageKey) {
			pg, ok := find(k)
			if !ok {
				viol("live-page-unmapped", fmt.Sprintf("page 0x%x of process %d is not in the page table", k.vaddr, k.proc), nil)
				return
			}
			if o, taken := own[pg.PAddr]; taken {
				dups = append(dups, dup{pg.PAddr, o, k})
			} else {
				own[pg.PAddr] = k
			}
			if _, fl := inflight[k]; !fl {
				if exp, has := frameOf[k]; has && exp != pg.PAddr {
					viol("other-mapping-changed", fmt.Sprintf("page 0x%x of process %d was placed at 0x%x and now maps to %+v although neither a migration nor an application call moved it",
						k.vaddr, k.proc, exp, pg), nil)
				}
			}
			if src, isProt := protected[pg.PAddr]; isProt && src != k {
				viol("source-frame-handed-out-during-migration|"+kind,
					fmt.Sprintf("frame 0x%x still has to be read for the migration of page 0x%x of process %d (request %d, copy not acknowledged), but page 0x%x of process %d now owns it",
						pg.PAddr, src.vaddr, src.proc, curReq, k.vaddr, k.proc),
					map[string]any{"frame": pg.PAddr, "migrating_page": fmt.Sprintf("%d/0x%x", src.proc, src.vaddr), "new_owner": fmt.Sprintf("%d/0x%x", k.proc, k.vaddr), "request": curReq})
			}
			if src, was := copiedFrames[pg.PAddr]; was && src != k {
				reusedAfterCopy++ // observed, not judged: the copy is complete
			}
		})
		if len(dups) > 0 {
			sort.Slice(dups, func(i, j int) bool { return dups[i].f < dups[j].f })
			for _, d := range dups {
				key := "physical-page-aliased"
				for _, k := range []pageKey{d.a, d.b} {
					if mf, ok := migFrame[k]; ok && mf == d.f {
						key = "destination-frame-owned-twice"
					}
					if _, fl := inflight[k]; fl {
						if pg, _ := find(k); pg.PAddr == d.f && inflight[k] != d.f {
							key = "destination-frame-owned-twice"
						}
					}
				}
				viol(key, fmt.Sprintf("pages 0x%x of process %d and 0x%x of process %d both map to frame 0x%x", d.a.vaddr, d.a.proc, d.b.vaddr, d.b.proc, d.f),
					map[string]any{"frame": d.f, "owners": []string{fmt.Sprintf("%d/0x%x", d.a.proc, d.a.vaddr), fmt.Sprintf("%d/0x%x", d.b.proc, d.b.vaddr)}})
			}
		}
	}

	// ---- application calls
	model := newDMModel(c)
	var bufs []*rbuf
	dead := false
	var srcFreeAtRehome, srcAllocSince int
	rehomed := false
	winHadFree := false
	cnt := map[string]int64{}
	inWindow := func() bool { return curReq >= 0 }
	doAlloc := func(op dmOp, probe bool) {
		pages := op.Pages
		if probe {
			pages = 1
		}
		if op.Proc < 0 || op.Proc >= c.NumProc {
			dead = true
			rec.Inconclusive(s.Name + ": script names an unknown process")
			return
		}
		if inWindow() {
			cnt["drv_mem_allocs_in_window"]++
			cnt["drv_mem_allocs_in_window_"+kind]++
			if op.GPU == s.Reqs[curReq].Host {
				cnt["drv_mem_allocs_in_window_on_source"]++
				if rehomed {
					srcAllocSince += pages
					if srcAllocSince > srcFreeAtRehome {
						cnt["drv_mem_allocs_in_window_on_exhausted_source_"+kind]++
					}
				}
			} else {
				for _, rq := range s.Reqs[curReq].Requesters {
					if rq.GPU == op.GPU {
						cnt["drv_mem_allocs_in_window_on_destination"]++
						break
					}
				}
			}
			if probe {
				cnt["drv_mem_allocs_in_window_on_full_gpu"]++
			}
		}
		ctx := ctxs[op.Proc]
		var ptr uint64
		var pv any
		func() {
			defer func() { pv = recover() }()
			drv.SelectGPU(ctx, op.GPU)
			ptr = uint64(drv.AllocateMemory(ctx, uint64(pages)*pageSize))
		}()
		rb := &rbuf{proc: op.Proc, pages: pages, pinned: op.Pinned}
		bufs = append(bufs, rb)
		if pv != nil {
			if probe && strings.Contains(fmt.Sprint(pv), "out of memory") {
				cnt["drv_mem_probes_answered_out_of_memory"]++
				return
			}
			dead = true
			viol("crash|AllocateMemory", fmt.Sprintf("AllocateMemory of %d page(s) on GPU %d panicked: %v (the capacity model has %d free frames there)", pages, op.GPU, pv, model.free[op.GPU]),
				map[string]any{"op": op})
			return
		}
		if probe {
			cnt["drv_mem_probes_answered_with_a_frame"]++
		}
		rb.ptr, rb.live = ptr, true
		for j := 0; j < pages; j++ {
			k := pageKey{op.Proc, ptr + uint64(j)*pageSize}
			if pg, ok := find(k); ok {
				frameOf[k] = pg.PAddr
				cnt["drv_mem_frames_handed_out_checked"]++
				if d := devOf(pg.PAddr); d != op.GPU || int(pg.DeviceID) != op.GPU {
					viol("allocation-on-wrong-device", fmt.Sprintf("AllocateMemory on GPU %d returned page %+v whose frame is on device %d", op.GPU, pg, d), map[string]any{"op": op})
				}
			}
		}
		evalInvariant()
		for j := 0; j < pages; j++ {
			writePage(pageKey{op.Proc, ptr + uint64(j)*pageSize}, true)
		}
		if inWindow() {
			cnt["drv_mem_writes_in_window"]++
		}
	}
	doOp := func(op dmOp) {
		if dead {
			return
		}
		if e := model.apply(op, c.Buddy); e != "" {
			dead = true
			rec.Inconclusive(s.Name + ": script not executable: " + e)
			return
		}
		defer func(w string) { where = w }(where)
		where = fmt.Sprintf("%s, call %s", where, opString(op))
		switch op.Kind {
		case "alloc":
			doAlloc(op, false)
		case "probe":
			doAlloc(op, true)
		case "free", "remap", "write":
			rb := bufs[op.Buf]
			if !rb.live {
				return // a probe that was answered with out of memory is never acted on (the planner does not do it)
			}
			ctx := ctxs[rb.proc]
			var pv any
			switch op.Kind {
			case "free":
				func() {
					defer func() { pv = recover() }()
					_ = drv.FreeMemory(ctx, driver.Ptr(rb.ptr))
				}()
				rb.live = false
				for j := 0; j < rb.pages; j++ {
					k := pageKey{rb.proc, rb.ptr + uint64(j)*pageSize}
					delete(shadow, k)
					delete(frameOf, k)
				}
				if inWindow() {
					cnt["drv_mem_frees_in_window"]++
					winHadFree = true
				}
			case "remap":
				func() {
					defer func() { pv = recover() }()
					drv.Remap(ctx, rb.ptr, uint64(rb.pages)*pageSize, op.GPU)
				}()
				if pv == nil {
					for j := 0; j < rb.pages; j++ {
						k := pageKey{rb.proc, rb.ptr + uint64(j)*pageSize}
						if pg, ok := find(k); ok {
							frameOf[k] = pg.PAddr
							cnt["drv_mem_frames_handed_out_checked"]++
							if d := devOf(pg.PAddr); d != op.GPU || int(pg.DeviceID) != op.GPU {
								viol("allocation-on-wrong-device", fmt.Sprintf("Remap to GPU %d produced page %+v whose frame is on device %d", op.GPU, pg, d), map[string]any{"op": op})
							}
						}
					}
					evalInvariant()
					// Remap does not carry contents over: the application fills the buffer anew
					for j := 0; j < rb.pages; j++ {
						writePage(pageKey{rb.proc, rb.ptr + uint64(j)*pageSize}, true)
					}
				}
				if inWindow() {
					cnt["drv_mem_remaps_in_window"]++
					if op.GPU == s.Reqs[curReq].Host {
						cnt["drv_mem_allocs_in_window_on_source"]++
						if rehomed {
							srcAllocSince += rb.pages
							if srcAllocSince > srcFreeAtRehome {
								cnt["drv_mem_allocs_in_window_on_exhausted_source_"+kind]++
							}
						}
					}
				}
			case "write":
				for j := 0; j < rb.pages; j++ {
					writePage(pageKey{rb.proc, rb.ptr + uint64(j)*pageSize}, wrng.Bool())
				}
				if inWindow() {
					cnt["drv_mem_writes_in_window"]++
				}
			}
			if pv != nil {
				dead = true
				viol("crash|"+op.Kind, fmt.Sprintf("%s panicked: %v", opString(op), pv), map[string]any{"op": op})
				return
			}
			evalInvariant()
		}
	}
	runOps := func(ops []dmOp, phase string) {
		old := where
		where = phase
		for _, op := range ops {
			doOp(op)
		}
		where = old
	}

	runOps(s.Setup, "setup")
	if dead {
		return
	}
	// resolve and validate the requests
	for i, q := range s.Reqs {
		bad := q.Proc < 0 || q.Proc >= c.NumProc || q.Host < 1 || q.Host > c.NumGPU || len(q.Requesters) == 0 || len(q.Accessing) == 0
		if !bad && i > 0 && !q.Wait && len(q.Before) > 0 {
			bad = true
		}
		if !bad && len(q.AfterReply) > 0 && i+1 < len(s.Reqs) && !s.Reqs[i+1].Wait {
			bad = true
		}
		for _, rq := range q.Requesters {
			if rq.GPU < 1 || rq.GPU > c.NumGPU || rq.GPU == q.Host {
				bad = true
			}
			for _, ref := range rq.Pages {
				if ref.Buf < 0 || ref.Buf >= len(bufs) || !bufs[ref.Buf].pinned || ref.Page < 0 || ref.Page >= bufs[ref.Buf].pages || bufs[ref.Buf].proc != q.Proc {
					bad = true
				}
			}
		}
		if bad {
			rec.Inconclusive(fmt.Sprintf("%s: request %d of the script is malformed", s.Name, i))
			return
		}
	}
	keyOf := func(q dmReq, ref dmPageRef) pageKey {
		return pageKey{q.Proc, bufs[ref.Buf].ptr + uint64(ref.Page)*pageSize}
	}

	// ---- fake MMU
	mmu := simkit.NewAgent("MMU", engine, freq)
	mmuPort := mmu.NewPort("Migration", 1, 1)
	simkit.Connect(engine, freq, "MMUConn", drvMMU, mmuPort)
	msgs := make([]*vm.PageMigrationReqToDriver, len(s.Reqs))
	reqIdx := map[*vm.PageMigrationReqToDriver]int{}
	for i, q := range s.Reqs {
		m := vm.NewPageMigrationReqToDriver(mmuPort.AsRemote(), drvMMU.AsRemote())
		m.PID = ctxs[q.Proc].VerifPID()
		m.PageSize = pageSize
		m.CurrPageHostGPU = uint64(q.Host)
		m.CurrAccessingGPUs = append([]uint64(nil), q.Accessing...)
		m.RespondToTop = i%2 == 0
		m.MigrationInfo = &vm.PageMigrationInfo{GPUReqToVAddrMap: map[uint64][]uint64{}}
		for _, rq := range q.Requesters {
			for _, ref := range rq.Pages {
				m.MigrationInfo.GPUReqToVAddrMap[uint64(rq.GPU)] = append(m.MigrationInfo.GPUReqToVAddrMap[uint64(rq.GPU)], keyOf(q, ref).vaddr)
			}
		}
		msgs[i] = m
		reqIdx[m] = i
	}
	next, gotReplies, extraReplies := 0, 0, 0
	readyAt := int64(-1)
	beforeDone := make([]bool, len(s.Reqs))
	mmu.TickFn = func(a *simkit.Agent) bool {
		now := a.NowCycle()
		progress := false
		for {
			m := mmuPort.RetrieveIncoming()
			if m == nil {
				break
			}
			progress = true
			if _, ok := m.(*vm.PageMigrationRspFromDriver); ok && gotReplies < next {
				runOps(s.Reqs[gotReplies].AfterReply, fmt.Sprintf("request %d, after the MMU got the reply", gotReplies))
				gotReplies++
			} else {
				extraReplies++
			}
		}
		for next < len(msgs) && !dead {
			q := s.Reqs[next]
			if q.Wait && gotReplies < next {
				break
			}
			if readyAt < 0 {
				readyAt = now
			}
			if now < readyAt+int64(q.Gap) {
				progress = true
				break
			}
			if !beforeDone[next] {
				beforeDone[next] = true
				runOps(q.Before, fmt.Sprintf("request %d, before it is sent", next))
			}
			if mmuPort.Send(msgs[next]) != nil {
				break
			}
			next++
			readyAt = -1
			progress = true
		}
		return progress
	}
	mmu.TickLater()

	// ---- fake command processors with memory
	type cpPending struct {
		due int64
		msg sim.Msg
		fn  func()
	}
	cpPend := make([][]cpPending, c.NumGPU)
	unexpected := ""
	preShootDone := make([]bool, len(s.Reqs))
	parkN := make([]int, len(s.Reqs))
	var cmdFIFO []*protocol.PageMigrationReqToCP // copies not yet acknowledged to the driver, oldest first
	chunksCopied := int64(0)
	doCopy := func(dst int, m *protocol.PageMigrationReqToCP, host int) {
		src := host
		for i, p := range pmcPort {
			if p == m.DestinationPMCPort {
				src = i + 1
			}
		}
		const chunk = 64
		for off := uint64(0); off < m.PageSize; off += chunk {
			ra, wa := m.ToReadFromPhysicalAddress+off, m.ToWriteToPhysicalAddress+off
			rb, wb := ra&^(pageSize-1), wa&^(pageSize-1)
			n := min(uint64(chunk), m.PageSize-off, pageSize-(ra-rb), pageSize-(wa-wb))
			copy(frame(dst, wb)[wa-wb:wa-wb+n], frame(src, rb)[ra-rb:ra-rb+n])
			chunksCopied++
		}
	}
	for i := 0; i < c.NumGPU; i++ {
		i := i
		cr := rng.ForkN("cp", i)
		cps[i].TickFn = func(a *simkit.Agent) bool {
			now := a.NowCycle()
			progress := false
			for {
				m := cpPort[i].RetrieveIncoming()
				if m == nil {
					break
				}
				progress = true
				var rsp sim.Msg
				var fn func()
				d := now
				if c.CPDelayMax > 0 {
					d += int64(cr.Intn(c.CPDelayMax + 1))
				}
				switch mm := m.(type) {
				case *protocol.RDMADrainCmdFromDriver:
					rsp = protocol.NewRDMADrainRspToDriver(cpPort[i], drvGPU)
				case *protocol.ShootDownCommand:
					if curReq >= 0 && !preShootDone[curReq] {
						preShootDone[curReq] = true
						runOps(s.Reqs[curReq].PreShoot, fmt.Sprintf("request %d, window, before the shootdown is acknowledged", curReq))
					}
					rsp = protocol.NewShootdownCompleteRsp(cpPort[i], drvGPU)
				case *protocol.PageMigrationReqToCP:
					rsp = protocol.NewPageMigrationRspToDriver(cpPort[i], drvGPU)
					if curReq < 0 {
						unexpected = fmt.Sprintf("CP%d received a PageMigrationReqToCP while the driver handles no request", i+1)
						break
					}
					w := curReq
					q := s.Reqs[w]
					j := parkN[w]
					parkN[w]++
					if j == 0 {
						if e := model.rehome(q); e != "" && !dead {
							dead = true
							rec.Inconclusive(s.Name + ": script not executable: " + e)
						}
						rehomed = true
						srcFreeAtRehome, srcAllocSince = model.free[q.Host], 0
					}
					cmdFIFO = append(cmdFIFO, mm)
					if _, ok := protected[mm.ToReadFromPhysicalAddress]; !ok {
						where = fmt.Sprintf("request %d, copy command %d", w, j)
						viol("migration-command-content", fmt.Sprintf("command to GPU %d reads 0x%x, which is not the frame any page of the request had when the driver took it (%v)",
							i+1, mm.ToReadFromPhysicalAddress, inflight), nil)
					}
					early := cr.Intn(100) < c.CopyEarlyPct
					if early {
						doCopy(i+1, mm, q.Host)
					}
					if j < len(q.Parked) {
						runOps(q.Parked[j], fmt.Sprintf("request %d, window, copy %d outstanding", w, j))
					}
					if c.ParkMax > 0 {
						d = now + int64(cr.Intn(c.ParkMax+1))
					}
					fn = func() {
						if !early {
							doCopy(i+1, mm, q.Host)
						}
					}
				case *protocol.GPURestartReq:
					rsp = protocol.NewGPURestartRsp(cpPort[i], drvGPU)
				case *protocol.RDMARestartCmdFromDriver:
					rsp = protocol.NewRDMARestartRspToDriver(cpPort[i], drvGPU)
				default:
					unexpected = fmt.Sprintf("CP%d received %T", i+1, m)
					continue
				}
				cpPend[i] = append(cpPend[i], cpPending{due: d, msg: rsp, fn: fn})
			}
			rest := cpPend[i][:0]
			for _, p := range cpPend[i] {
				if p.due <= now {
					if p.fn != nil {
						p.fn()
						p.fn = nil
					}
					if cpPort[i].Send(p.msg) == nil {
						progress = true
						continue
					}
				}
				rest = append(rest, p)
			}
			cpPend[i] = rest
			return progress || len(cpPend[i]) > 0
		}
	}

	// ---- observation of the driver's ports
	log := simkit.NewLog(engine, freq)
	log.Attach(drvGPU, "GPU")
	log.Attach(drvMMU, "MMU")
	replies := make([]int, len(s.Reqs))
	strayReply := 0
	windows := 0
	log.OnEvent = func(e simkit.Event) {
		switch m := e.Msg.(type) {
		case *vm.PageMigrationReqToDriver:
			if e.Port != "MMU" || e.Kind != simkit.KRetrieve {
				return
			}
			w, ok := reqIdx[m]
			if !ok {
				return
			}
			// the driver has taken the request: from here on its pages are in flight
			curReq, rehomed, winHadFree = w, false, false
			where = fmt.Sprintf("request %d taken by the driver", w)
			for _, rq := range s.Reqs[w].Requesters {
				for _, ref := range rq.Pages {
					k := keyOf(s.Reqs[w], ref)
					pg, ok := find(k)
					if !ok {
						viol("live-page-unmapped", fmt.Sprintf("page 0x%x of process %d named by request %d is not mapped", k.vaddr, k.proc, w), nil)
						continue
					}
					protected[pg.PAddr] = k
					inflight[k] = pg.PAddr
				}
			}
		case *protocol.PageMigrationRspToDriver:
			if e.Port != "GPU" || e.Kind != simkit.KRetrieve || len(cmdFIFO) == 0 {
				return
			}
			// the driver knows that the oldest outstanding copy is complete
			cmd := cmdFIFO[0]
			cmdFIFO = cmdFIFO[1:]
			if k, ok := protected[cmd.ToReadFromPhysicalAddress]; ok {
				delete(protected, cmd.ToReadFromPhysicalAddress)
				copiedFrames[cmd.ToReadFromPhysicalAddress] = k
			}
		case *vm.PageMigrationRspFromDriver:
			if e.Port != "MMU" || e.Kind != simkit.KSend {
				return
			}
			orig, _ := m.OriginalReq.(*vm.PageMigrationReqToDriver)
			w, ok := reqIdx[orig]
			if !ok {
				strayReply++
				return
			}
			replies[w]++
			if replies[w] != 1 || w != curReq {
				return
			}
			where = fmt.Sprintf("request %d, reply sent to the MMU", w)
			q := s.Reqs[w]
			for _, rq := range q.Requesters {
				for _, ref := range rq.Pages {
					k := keyOf(q, ref)
					pg, _ := find(k)
					if d := devOf(pg.PAddr); !pg.Valid || pg.VAddr != k.vaddr || pg.PageSize != pageSize || int(pg.DeviceID) != rq.GPU || d != rq.GPU ||
						pg.PAddr == inflight[k] || pg.PAddr%pageSize != 0 {
						viol("page-not-mapped-to-destination", fmt.Sprintf("page 0x%x of process %d requested by GPU %d maps to %+v (frame on device %d); it was at 0x%x",
							k.vaddr, k.proc, rq.GPU, pg, d, inflight[k]), map[string]any{"request": w})
					}
					frameOf[k] = pg.PAddr
					migFrame[k] = pg.PAddr
					everMigrated[k]++
				}
			}
			for k := range protected {
				delete(protected, k) // also the frames of copies the driver never asked for
			}
			for k := range copiedFrames {
				delete(copiedFrames, k)
			}
			for k := range inflight {
				delete(inflight, k)
			}
			curReq = -1
			windows++
			if winHadFree {
				cnt["drv_mem_windows_with_free"]++
			}
			evalInvariant()
			compareAll(fmt.Sprintf("when the reply to request %d was sent", w))
		}
	}
	engine.AcceptHook(&afterHandlerHook{h: drv.TickingComponent, f: func() {
		if !dead {
			evalInvariant()
		}
	}})

	nEv, livelock, pv := simkit.RunBounded(engine, int64(len(s.Reqs))*400000+200000)
	rec.Count("drv_mem_engine_events", nEv)
	defer func() {
		for k, v := range cnt {
			rec.Count(k, v)
		}
		rec.Count("drv_mem_invariant_evaluations", invEvals)
		rec.Count("drv_mem_pages_compared", pagesCompared)
		rec.Count("drv_mem_migrated_pages_compared", migPagesCompared)
		rec.Count("drv_mem_bytes_compared", bytesCompared)
		rec.Count("drv_mem_chunks_copied", chunksCopied)
		rec.Count("drv_mem_source_frames_reused_after_copy_before_reply", reusedAfterCopy)
	}()
	if pv != nil {
		viol("crash", fmt.Sprintf("panic during the migration handshake: %v", pv), nil)
		return
	}
	if livelock {
		viol("livelock", "engine exceeded the event bound", nil)
		return
	}
	if dead {
		return
	}
	where = "after the run"
	if unexpected != "" {
		viol("unexpected-message-to-cp", unexpected, nil)
	}
	if strayReply > 0 || extraReplies > 0 {
		viol("reply-without-request", fmt.Sprintf("%d replies to the MMU that answer no outstanding request", strayReply+extraReplies), nil)
	}
	for w, n := range replies {
		if n != 1 {
			viol(fmt.Sprintf("mmu-replies=%d", n), fmt.Sprintf("request %d got %d replies (engine idle)", w, n), map[string]any{"request": w})
			return
		}
	}
	rec.Count("drv_mem_windows", int64(windows))
	rec.Count("drv_mem_windows_"+kind, int64(windows))

	// ---- fill every GPU to the last frame: whatever the allocator still hands
	// out must not be owned by anybody; then the final comparison
	where = "final fill"
	for g := 1; g <= c.NumGPU && !dead; g++ {
		got := 0
		for ; got <= c.PagesPerGPU; got++ {
			var pv any
			var ptr uint64
			func() {
				defer func() { pv = recover() }()
				drv.SelectGPU(ctxs[0], g)
				ptr = uint64(drv.AllocateMemory(ctxs[0], pageSize))
			}()
			if pv != nil {
				if !strings.Contains(fmt.Sprint(pv), "out of memory") {
					viol("crash|AllocateMemory", fmt.Sprintf("AllocateMemory of one page on GPU %d panicked: %v", g, pv), nil)
					dead = true
				}
				break
			}
			k := pageKey{0, ptr}
			if pg, ok := find(k); ok {
				frameOf[k] = pg.PAddr
				cnt["drv_mem_frames_handed_out_checked"]++
			}
			evalInvariant()
			writePage(k, true)
		}
		if got > c.PagesPerGPU {
			viol("allocator-hands-out-more-frames-than-the-gpu-has", fmt.Sprintf("GPU %d of %d pages served %d further one-page allocations", g, c.PagesPerGPU, got), nil)
		}
		liveOn := 0
		livePages(func(k pageKey) {
			if pg, ok := find(k); ok && devOf(pg.PAddr) == g {
				liveOn++
			}
		})
		if liveOn < c.PagesPerGPU {
			// frames that pages left behind when they were re-homed: observed, not judged (C10)
			cnt["drv_mem_frames_never_reusable"] += int64(c.PagesPerGPU - liveOn)
		}
	}
	compareAll("at the end, after every GPU was filled")
	rec.Count("drv_mem_scenarios_"+kind, 1)
	rec.Distinct("drv_mem_config", fmt.Sprintf("%d/%d/%d/%d/%v/%d/%d/%d", c.NumGPU, c.Log2Page, c.PagesPerGPU, c.NumProc, c.Buddy, c.CPDelayMax, c.ParkMax, c.CopyEarlyPct))
	if len(seen) == 0 && windows == len(s.Reqs) && windows > 0 && cnt["drv_mem_allocs_in_window_on_exhausted_source_"+kind] > 0 {
		rec.Nontrivial("drvmem:" + s.Name)
	}
	rec.Sample(map[string]any{"part": "drivermem", "name": s.Name, "cfg": c, "setup": s.Setup[:min(4, len(s.Setup))], "reqs": s.Reqs[:min(1, len(s.Reqs))]})
}

func opString(op dmOp) string {
	switch op.Kind {
	case "alloc":
		return fmt.Sprintf("AllocateMemory(process %d, GPU %d, %d page(s)) -> buffer %d", op.Proc, op.GPU, op.Pages, op.New)
	case "probe":
		return fmt.Sprintf("AllocateMemory(process %d, GPU %d, 1 page) on a full GPU -> buffer %d", op.Proc, op.GPU, op.New)
	case "free":
		return fmt.Sprintf("FreeMemory(buffer %d)", op.Buf)
	case "remap":
		return fmt.Sprintf("Remap(buffer %d -> GPU %d)", op.Buf, op.GPU)
	case "write":
		return fmt.Sprintf("write(buffer %d)", op.Buf)
	}
	return op.Kind
}
