package main

// Fifth part of C19, "real command processor in the loop": per GPU a real
// cp.CommandProcessor (only its migration path is wired: ToDriver, ToPMC / PMC),
// a real PageMigrationController and a memory; a driver stub sends
// PageMigrationReqToCP one page at a time, as Driver.sendMigrationReqToCP
// does, in sequences in which a destination GPU receives pages from two or
// more different owners. Judged from the trace of every CP's ToPMC port and
// every controller's Remote port plus the storages: the request the CP hands
// to its controller names the owner the driver named, the pulls arrive at that
// owner, the destination frame equals the source page at request time when
// the driver gets the completion, one completion per request, every other byte
// of every memory unchanged.

import (
	"bytes"
	"fmt"

	"github.com/sarchlab/akita/v4/mem/idealmemcontroller"
	"github.com/sarchlab/akita/v4/mem/mem"
	"github.com/sarchlab/akita/v4/sim"
	"github.com/sarchlab/mgpusim/v4/amd/protocol"
	"github.com/sarchlab/mgpusim/v4/amd/timing/cp"
	pmcpkg "github.com/sarchlab/mgpusim/v4/amd/timing/pagemigrationcontroller"

	"verifharness/vlib"
	"verifharness/vlib/simkit"
)

const cplMemSize = 256 << 10

type cplOp struct {
	Dst      int    `json:"dst"`
	Src      int    `json:"src"`
	ReadOff  uint64 `json:"read_off"`
	WriteOff uint64 `json:"write_off"`
	PageSize uint64 `json:"page_size"`
	Gap      int    `json:"gap"`
}

type cplScenario struct {
	Name string   `json:"name"`
	N    int      `json:"gpus"`
	Mems []memCfg `json:"mems"`
	Seed uint64   `json:"seed"`
	Ops  []cplOp  `json:"ops"`
}

func genCPLScenario(r *vlib.PRNG, idx int) cplScenario {
	n := 3 + r.Intn(2)
	s := cplScenario{Name: fmt.Sprintf("c%d", idx), N: n, Seed: r.Uint64()}
	for g := 0; g < n; g++ {
		s.Mems = append(s.Mems, genMem(r))
	}
	sizes := []uint64{64, 256, 1024, 4096, 4096, 4096, 8192, 64 * uint64(1+r.Intn(64))}
	for k, nOps := 0, 4+r.Intn(9); k < nOps; k++ {
		d := r.Intn(n)
		if k > 0 && r.Chance(1, 2) {
			d = s.Ops[k-1].Dst // stay with a destination, change the owner
		}
		src := r.Intn(n - 1)
		if src >= d {
			src++
		}
		ps := sizes[r.Intn(len(sizes))]
		off := func() uint64 { return uint64(r.Intn(int((cplMemSize-ps)/64)+1)) * 64 }
		s.Ops = append(s.Ops, cplOp{Dst: d, Src: src, ReadOff: off(), WriteOff: off(), PageSize: ps, Gap: []int{0, 0, 3, r.Intn(50)}[r.Intn(4)]})
	}
	return s
}

func canonicalCPL() []cplScenario {
	ideal := func(n int) []memCfg {
		var m []memCfg
		for i := 0; i < n; i++ {
			m = append(m, memCfg{Kind: "ideal", Latency: 20 + 7*i, TopBuf: 16, Width: 1})
		}
		return m
	}
	op := func(d, s int, r, w, ps uint64) cplOp {
		return cplOp{Dst: d, Src: s, ReadOff: r, WriteOff: w, PageSize: ps}
	}
	return []cplScenario{
		// GPU1 -> GPU3, GPU2 -> GPU3, GPU1 -> GPU3
		{Name: "canon-cp-two-owners-into-gpu3", N: 3, Mems: ideal(3), Seed: 8, Ops: []cplOp{
			op(2, 0, 0x3000, 0x20000, 4096), op(2, 1, 0x7000, 0x21000, 4096), op(2, 0, 0x9000, 0x22000, 4096)}},
		{Name: "canon-cp-every-gpu-receives-from-every-other", N: 3, Mems: ideal(3), Seed: 9, Ops: []cplOp{
			op(0, 1, 0x1000, 0x20000, 4096), op(1, 2, 0x2000, 0x20000, 1024), op(2, 0, 0x3000, 0x20000, 256),
			op(0, 2, 0x4000, 0x21000, 64), op(1, 0, 0x5000, 0x21000, 8192), op(2, 1, 0x6000, 0x21000, 4096)}},
		// a page travels GPU1 -> GPU2 -> GPU3 -> GPU1; GPU1 has first received from GPU4
		{Name: "canon-cp-page-travels-around-four-gpus", N: 4, Mems: ideal(4), Seed: 10, Ops: []cplOp{
			op(0, 3, 0x8000, 0x30000, 1024), op(1, 0, 0x1000, 0x20000, 4096), op(2, 1, 0x20000, 0x20000, 4096),
			op(0, 2, 0x20000, 0x21000, 4096), op(3, 0, 0x21000, 0x20000, 4096), op(3, 1, 0x20000, 0x22000, 4096)}},
		{Name: "canon-cp-interleaved-destinations-hostile-memories", N: 3, Seed: 11,
			Mems: []memCfg{{Kind: "fake", Latency: 10, Jitter: 8, TopBuf: 1, StallPct: 50, Width: 1}, {Kind: "fake", Latency: 50, Jitter: 40, TopBuf: 2, Width: 2}, {Kind: "ideal", Latency: 5, TopBuf: 1, Width: 1}},
			Ops: []cplOp{op(2, 0, 0x0, 0x20000, 192), op(1, 0, 0x40, 0x20000, 4096), op(2, 1, 0x1000, 0x20100, 4096),
				op(1, 2, 0x2000, 0x21000, 64), op(2, 0, 0x3000, 0x23000, 8192), op(1, 0, 0x5000, 0x22000, 1024)}},
	}
}

func runCPLScenario(rec vlib.Recorder, s cplScenario) {
	rec.Eval()
	n := s.N
	if n < 2 || n > 4 || len(s.Mems) != n {
		rec.Inconclusive(s.Name + ": configuration out of range")
		return
	}
	for i, o := range s.Ops {
		if o.Dst < 0 || o.Dst >= n || o.Src < 0 || o.Src >= n || o.Src == o.Dst || o.PageSize == 0 || o.PageSize%64 != 0 ||
			o.ReadOff+o.PageSize > cplMemSize || o.WriteOff+o.PageSize > cplMemSize {
			rec.Inconclusive(fmt.Sprintf("%s: op %d malformed", s.Name, i))
			return
		}
	}
	engine := sim.NewSerialEngine()
	freq := 1 * sim.GHz
	log := simkit.NewLog(engine, freq)
	rng := vlib.NewPRNG(s.Seed)
	seen := map[string]bool{}
	viol := func(key, what string, extra map[string]any) {
		if seen[key] {
			return
		}
		seen[key] = true
		w := map[string]any{"part": "cp", "scenario": s}
		for k, v := range extra {
			w[k] = v
		}
		rec.Violation("C19|cp|"+key, s.Name+": "+what, w)
	}

	storages := make([]*mem.Storage, n)
	model := make([][]byte, n)
	pmcs := make([]*pmcpkg.PageMigrationController, n)
	cps := make([]*cp.CommandProcessor, n)
	remote := make([]sim.Port, n)
	drv := simkit.NewAgent("Driver", engine, freq)
	drvPort := drv.NewPort("GPU", 4, 4)
	drvConn := simkit.Connect(engine, freq, "DriverConn", drvPort)
	remoteConn := simkit.Connect(engine, freq, "InterGPU")
	for g := 0; g < n; g++ {
		name := fmt.Sprintf("GPU%d", g+1)
		storages[g] = mem.NewStorage(cplMemSize)
		model[g] = make([]byte, cplMemSize)
		rng.ForkN("content", g).Bytes(model[g])
		if err := storages[g].Write(0, model[g]); err != nil {
			panic(err)
		}
		var top sim.Port
		if mc := s.Mems[g]; mc.Kind == "ideal" {
			top = idealmemcontroller.MakeBuilder().WithEngine(engine).WithFreq(freq).WithLatency(mc.Latency).
				WithTopBufSize(mc.TopBuf).WithWidth(mc.Width).WithStorage(storages[g]).Build(name + ".DRAM").GetPortByName("Top")
		} else {
			top = newFakeMem(name+".DRAM", engine, freq, mc, storages[g], rng.ForkN("mem", g)).Top
		}
		pmcs[g] = pmcpkg.NewPageMigrationController(name+".PMC", engine, &mem.SinglePortMapper{Port: top.AsRemote()}, nil)
		simkit.Connect(engine, freq, name+".MemConn", top, pmcs[g].GetPortByName("LocalMem"))
		remote[g] = pmcs[g].GetPortByName("Remote")
		remoteConn.PlugIn(remote[g])
		cps[g] = cp.MakeBuilder().WithEngine(engine).WithFreq(freq).WithDriver(drvPort).Build(name + ".CP")
		cps[g].PMC = pmcs[g].GetPortByName("Control")
		drvConn.PlugIn(cps[g].ToDriver)
		simkit.Connect(engine, freq, name+".InternalConn", cps[g].ToPMC, cps[g].PMC)
		log.Attach(cps[g].ToPMC, fmt.Sprintf("%d.T", g))
		log.Attach(remote[g], fmt.Sprintf("%d.R", g))
	}

	// driver stub: one page at a time
	type opRunC struct {
		expected, dstAtRsp []byte
		rsps               int
		reqToPMC           int
		pulls              int
	}
	runs := make([]*opRunC, len(s.Ops))
	for i := range runs {
		runs[i] = &opRunC{}
	}
	cur, inFlight, extra := 0, false, 0
	readyAt := int64(-1)
	drv.TickFn = func(a *simkit.Agent) bool {
		now := a.NowCycle()
		progress := false
		for {
			m := drvPort.RetrieveIncoming()
			if m == nil {
				break
			}
			progress = true
			if _, ok := m.(*protocol.PageMigrationRspToDriver); ok && inFlight {
				o, r := s.Ops[cur], runs[cur]
				r.rsps++
				d, _ := storages[o.Dst].Read(o.WriteOff, o.PageSize)
				r.dstAtRsp = append([]byte(nil), d...)
				inFlight = false
				cur++
				readyAt = -1
			} else {
				extra++
			}
		}
		if !inFlight && cur < len(s.Ops) {
			o := s.Ops[cur]
			if readyAt < 0 {
				readyAt = now
			}
			if now < readyAt+int64(o.Gap) {
				return true
			}
			req := protocol.NewPageMigrationReqToCP(drvPort, cps[o.Dst].ToDriver)
			req.DestinationPMCPort = remote[o.Src]
			req.ToReadFromPhysicalAddress, req.ToWriteToPhysicalAddress, req.PageSize = o.ReadOff, o.WriteOff, o.PageSize
			if drvPort.Send(req) == nil {
				d, _ := storages[o.Src].Read(o.ReadOff, o.PageSize)
				runs[cur].expected = append([]byte(nil), d...)
				inFlight = true
				progress = true
			}
		}
		return progress
	}
	drv.TickLater()

	// online trace rules: while op `cur` is in flight
	log.OnEvent = func(e simkit.Event) {
		if !inFlight || cur >= len(s.Ops) {
			return
		}
		var g int
		var pn string
		fmt.Sscanf(e.Port, "%d.%s", &g, &pn)
		o, r := s.Ops[cur], runs[cur]
		ex := map[string]any{"op": cur}
		switch m := e.Msg.(type) {
		case *pmcpkg.PageMigrationReqToPMC:
			if pn != "T" || e.Kind != simkit.KSend {
				return
			}
			r.reqToPMC++
			if g != o.Dst {
				viol("migration-request-to-pmc|from-wrong-cp", fmt.Sprintf("op %d (GPU%d <- GPU%d): the command processor of GPU%d asked its controller for the copy", cur, o.Dst+1, o.Src+1, g+1), ex)
			}
			if m.PMCPortOfRemoteGPU != remote[o.Src].AsRemote() {
				viol("migration-request-to-pmc|wrong-owner-port", fmt.Sprintf("op %d (GPU%d <- GPU%d): the command processor told its controller to pull from %s, the driver named %s",
					cur, o.Dst+1, o.Src+1, m.PMCPortOfRemoteGPU, remote[o.Src].AsRemote()), ex)
			}
			if m.ToReadFromPhysicalAddress != o.ReadOff || m.ToWriteToPhysicalAddress != o.WriteOff || m.PageSize != o.PageSize {
				viol("migration-request-to-pmc|wrong-addresses", fmt.Sprintf("op %d: controller asked to copy [0x%x,+%d) to 0x%x, the driver asked for [0x%x,+%d) to 0x%x",
					cur, m.ToReadFromPhysicalAddress, m.PageSize, m.ToWriteToPhysicalAddress, o.ReadOff, o.PageSize, o.WriteOff), ex)
			}
		case *pmcpkg.DataPullReq:
			if pn == "R" && e.Kind == simkit.KRecv {
				r.pulls++
				if g != o.Src {
					viol("pull-sent-to-wrong-owner", fmt.Sprintf("op %d (GPU%d <- GPU%d): a pull for 0x%x arrived at the controller of GPU%d", cur, o.Dst+1, o.Src+1, m.ToReadFromPhyAddress, g+1), ex)
				}
			}
		}
	}

	var chunks int64
	for _, o := range s.Ops {
		chunks += int64(o.PageSize / 64)
	}
	nEv, livelock, pv := simkit.RunBounded(engine, chunks*6000+int64(len(s.Ops))*300000+200000)
	rec.Count("cp_engine_events", nEv)
	if pv != nil {
		viol("crash", fmt.Sprintf("panic: %v", pv), nil)
		return
	}
	if livelock {
		viol("livelock", "engine exceeded the event bound", nil)
		return
	}
	if extra > 0 {
		viol("completion-without-request", fmt.Sprintf("%d completions reached the driver with no migration outstanding", extra), nil)
	}
	firstOwner := map[int]int{}
	for i, o := range s.Ops {
		r := runs[i]
		ex := map[string]any{"op": i}
		if r.rsps != 1 {
			key := fmt.Sprintf("completions=%d", r.rsps)
			if i >= cur {
				key = "no-completion"
			}
			viol(key, fmt.Sprintf("op %d (GPU%d <- GPU%d, %d bytes): %d completions (engine idle; %d requests to the controller, %d pulls)", i, o.Dst+1, o.Src+1, o.PageSize, r.rsps, r.reqToPMC, r.pulls), ex)
			break
		}
		if r.reqToPMC != 1 {
			viol(fmt.Sprintf("migration-requests-to-pmc=%d", r.reqToPMC), fmt.Sprintf("op %d: the command processor sent %d requests to its controller", i, r.reqToPMC), ex)
		}
		if !bytes.Equal(r.dstAtRsp, r.expected) {
			k := firstDiff(r.dstAtRsp, r.expected)
			foreign := ""
			for g := 0; g < s.N; g++ {
				if g != o.Src && g != o.Dst && bytes.Equal(r.dstAtRsp, model[g][o.ReadOff:o.ReadOff+o.PageSize]) {
					foreign = fmt.Sprintf("; it holds what GPU%d has at the source address", g+1)
				}
			}
			viol("migrated-page-differs-from-source", fmt.Sprintf("op %d (GPU%d 0x%x -> GPU%d 0x%x, %d bytes): when the driver got the completion, destination byte %d was 0x%02x, the source page had 0x%02x at request time%s",
				i, o.Src+1, o.ReadOff, o.Dst+1, o.WriteOff, o.PageSize, k, at(r.dstAtRsp, k), at(r.expected, k), foreign), ex)
		}
		copy(model[o.Dst][o.WriteOff:], r.expected)
		rec.Count("cp_migrations_checked", 1)
		rec.Count("cp_chunks_pulled", int64(r.pulls))
		if fo, ok := firstOwner[o.Dst]; !ok {
			firstOwner[o.Dst] = o.Src
		} else if fo != o.Src {
			rec.Count("cp_migrations_into_a_gpu_from_a_second_owner", 1)
			if len(seen) == 0 {
				rec.Nontrivial(fmt.Sprintf("cp:%s/%d", s.Name, i))
			}
		}
	}
	if cur == len(s.Ops) {
		for g := 0; g < n; g++ {
			got, _ := storages[g].Read(0, cplMemSize)
			rec.Count("cp_bytes_compared", cplMemSize)
			if !bytes.Equal(got, model[g]) {
				k := firstDiff(got, model[g])
				viol("other-bytes-changed", fmt.Sprintf("memory of GPU%d: offset 0x%x is 0x%02x, expected 0x%02x after applying the migrations in order", g+1, k, got[k], model[g][k]), map[string]any{"gpu": g, "offset": k})
			}
		}
	}
	rec.Distinct("cp_shape", fmt.Sprintf("%d gpus %d ops", n, len(s.Ops)))
	rec.Sample(map[string]any{"part": "cp", "name": s.Name, "ops": s.Ops[:min(3, len(s.Ops))]})
}
