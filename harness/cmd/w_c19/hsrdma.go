package main

// Fourth part of C19, "handshake with real RDMA engines": the drain step of the
// drain - shootdown - migrate - restart sequence is exercised against real
// in-flight remote traffic.
//
// Per GPU: a real rdma.Comp, a real PageMigrationController and one memory
// (akita's ideal memory controller or the hostile fake memory of pmc.go) that
// both of them use; fake L1 requesters issue seeded remote reads and writes
// (unique payload, byte ranges never overlap) through the GPU's RDMA engine.
// All RDMA outside ports and all PMC remote ports hang on one transparent
// inter-GPU fabric with seeded latency (2 .. 3000 cycles), jitter and a bounded
// number of messages in flight per sender (back-pressure). A stand-in for
// driver + command processor runs, per round: DrainReq to every engine -> all
// DrainRsp -> PageMigrationReqToPMC to the destination's controller -> its
// completion -> RestartReq to every engine -> all RestartRsp.
// The wiring of the engines follows vlib/c18rdma (banked address table ->
// RDMADataOutside of the owner); that package's runner is monolithic (fake L2s,
// no storage, no controllers), so only its construction is reused here.
//
// Judged (the port trace of every engine and controller + storage snapshots):
//  1. contents: the destination frame, when the controller reports completion,
//     equals the source frame as it was when the copy was requested
//     (migrated-page-differs-from-source), and every store to the page that an
//     engine had forwarded before the copy was requested is in it
//     (store-lost-by-migration); every acknowledged store is in the memory it
//     was addressed to at the end (acknowledged-store-not-in-memory);
//  2. ordering: from the copy request to its completion no engine has an open
//     transaction to the page (copy-started-with-remote-transaction-open /
//     remote-transaction-opened-during-copy);
//  3. exactly one completion per migration request, every round finishes, every
//     L1 request is answered (requests held back by the pause are delivered
//     after the restart to the frame they address).

import (
	"fmt"
	"sort"

	"github.com/sarchlab/akita/v4/mem/idealmemcontroller"
	"github.com/sarchlab/akita/v4/mem/mem"
	"github.com/sarchlab/akita/v4/sim"
	pmcpkg "github.com/sarchlab/mgpusim/v4/amd/timing/pagemigrationcontroller"
	"github.com/sarchlab/mgpusim/v4/amd/timing/rdma"

	"verifharness/vlib"
	"verifharness/vlib/simkit"
)

const (
	hsBank   = uint64(1) << 20
	hsFrames = 8 // frames per GPU the scenarios may name
)

type hsCfg struct {
	N            int      `json:"gpus"`
	PageSize     uint64   `json:"page_size"`
	LinkLat      int      `json:"link_latency"` // RDMA traffic on the fabric
	LinkJitter   int      `json:"link_jitter"`
	LinkCap      int      `json:"link_cap"`    // messages in flight per sending port
	PMCLat       int      `json:"pmc_latency"` // controller traffic on the fabric
	Mems         []memCfg `json:"mems"`
	BufSize      int      `json:"rdma_buf"`
	PerCycle     [4]int   `json:"per_cycle"`
	L1PerEngine  int      `json:"l1_per_engine"`
	L1StallPct   int      `json:"l1_stall_pct"`
	CtrlStallPct int      `json:"ctrl_stall_pct"`
	Seed         uint64   `json:"seed"`
}

// hsOp is one remote access issued by an L1 of engine e (index in Ops).
type hsOp struct {
	L1     int  `json:"l1"`
	After  int  `json:"after"` // issued only after this round finished (-1: from the start)
	T      int  `json:"t"`     // cycles after that moment
	GPU    int  `json:"gpu"`   // owner of the frame (0-based)
	Frame  int  `json:"frame"`
	Off    int  `json:"off"`
	Size   int  `json:"size"`
	Write  bool `json:"write"`
	Masked bool `json:"masked,omitempty"`
}

type hsRound struct {
	StartGap    int `json:"start_gap"` // cycles after the previous round finished
	Stagger     int `json:"stagger"`
	Hold        int `json:"hold"` // between the last DrainRsp and the copy request (the shootdown's place)
	RestartHold int `json:"restart_hold"`
	SrcGPU      int `json:"src_gpu"`
	SrcFrame    int `json:"src_frame"`
	DstGPU      int `json:"dst_gpu"`
	DstFrame    int `json:"dst_frame"`
}

type hsScenario struct {
	Name   string    `json:"name"`
	Cfg    hsCfg     `json:"cfg"`
	Ops    [][]hsOp  `json:"ops"`
	Rounds []hsRound `json:"rounds"`
}

func hsAddr(c hsCfg, gpu, frame, off int) uint64 {
	return uint64(gpu+1)*hsBank + uint64(frame)*c.PageSize + uint64(off)
}

// ---------------------------------------------------------------------------
// generator

func genHSScenario(r *vlib.PRNG, idx int) hsScenario {
	n := 2 + r.Intn(2)
	lat := []int{2, 20, 60, 200, 800, 3000}[r.Intn(6)]
	c := hsCfg{N: n, PageSize: []uint64{4096, 4096, 1024, 256, 8192}[r.Intn(5)], LinkLat: lat,
		LinkJitter: []int{0, 0, lat / 4}[r.Intn(3)], LinkCap: []int{1, 2, 8, 64}[r.Intn(4)],
		PMCLat: []int{1, 1, 10, lat}[r.Intn(4)], BufSize: []int{1, 2, 4, 128, 128}[r.Intn(5)],
		L1PerEngine: 1 + r.Intn(2), L1StallPct: []int{0, 0, 30}[r.Intn(3)], CtrlStallPct: []int{0, 0, 40}[r.Intn(3)], Seed: r.Uint64()}
	for i := range c.PerCycle {
		c.PerCycle[i] = 1
		if idx%4 == 3 {
			c.PerCycle[i] = 1 + r.Intn(3)
		}
	}
	// paced flavour: short links and fast memories, every requester issues one access
	// per round trip or so, so that its engine is idle again and again and a drain is
	// answered between two of its requests
	paced := idx%3 == 2
	if paced {
		c.LinkLat, c.LinkJitter, c.PMCLat = []int{2, 5, 20}[r.Intn(3)], 0, 1
		c.PageSize, c.LinkCap, c.L1StallPct = 8192, 64, 0
		lat = c.LinkLat
	}
	memLat := 0
	for g := 0; g < n; g++ {
		m := genMem(r)
		if paced {
			m = memCfg{Kind: "ideal", Latency: 1 + r.Intn(5), TopBuf: 16, Width: 1}
		}
		c.Mems = append(c.Mems, m)
		memLat = max(memLat, m.Latency+m.Jitter)
	}
	s := hsScenario{Name: fmt.Sprintf("h%d", idx), Cfg: c, Ops: make([][]hsOp, n)}
	nextFrame := make([]int, n)
	slots := map[[2]int]int{} // (gpu, frame) -> next free 64-byte slot
	perFrame := int(c.PageSize / 64)
	addOp := func(e, after, t, gpu, frame int, write bool) bool {
		k := [2]int{gpu, frame}
		if slots[k] >= perFrame {
			return false
		}
		size := []int{64, 64, 64, 32, 16, 8, 4, 1 + r.Intn(64)}[r.Intn(8)]
		off := slots[k]*64 + r.Intn(64-size+1)
		slots[k]++
		s.Ops[e] = append(s.Ops[e], hsOp{L1: r.Intn(c.L1PerEngine), After: after, T: max(t, 0), GPU: gpu, Frame: frame, Off: off, Size: size,
			Write: write, Masked: write && r.Chance(1, 4)})
		return true
	}
	newFrame := func(g int) int {
		if nextFrame[g] >= hsFrames-2 {
			return -1
		}
		nextFrame[g]++
		return nextFrame[g] - 1
	}
	bg := make([]int, n) // one background frame per GPU (the last)
	for g := range bg {
		bg[g] = hsFrames - 1
	}
	nR := 1 + r.Intn(3)
	curG, curF := -1, -1
	for k := 0; k < nR; k++ {
		if curG < 0 || r.Chance(2, 5) {
			curG = r.Intn(n)
			curF = newFrame(curG)
		}
		dg := r.Intn(n - 1)
		if dg >= curG {
			dg++
		}
		df := newFrame(dg)
		if curF < 0 || df < 0 {
			break
		}
		rd := hsRound{StartGap: []int{0, 5, 50, lat, 2*lat + 50}[r.Intn(5)] + r.Intn(20), Stagger: r.Intn(3), Hold: []int{0, 3, 30}[r.Intn(3)],
			RestartHold: []int{0, 5}[r.Intn(2)], SrcGPU: curG, SrcFrame: curF, DstGPU: dg, DstFrame: df}
		s.Rounds = append(s.Rounds, rd)
		flight := lat + memLat + 5
		for e := 0; e < n && paced; e++ {
			if e == curG {
				continue
			}
			rtt := 2*lat + memLat + 8
			for t, m := r.Intn(rtt), 20+r.Intn(25); m > 0 && t < rd.StartGap+4*rtt; m-- {
				addOp(e, k-1, t, curG, curF, r.Chance(3, 5))
				t += rtt/2 + r.Intn(rtt+rtt/2+1)
			}
		}
		for e := 0; e < n; e++ {
			// one access that reaches its engine together with the drain command
			if e != curG && r.Bool() {
				addOp(e, k-1, rd.StartGap+e*rd.Stagger+r.Intn(6)-2, curG, curF, r.Chance(3, 5))
			}
		}
		for e := 0; e < n && !paced; e++ {
			if e == curG {
				continue
			}
			for m := r.Intn(9); m > 0; m-- {
				var t int
				switch x := r.Intn(10); {
				case x < 5: // in flight when the drain starts
					t = rd.StartGap - 1 - r.Intn(min(flight, rd.StartGap+1))
				case x < 8:
					t = r.Intn(rd.StartGap + 1)
				default: // arrives at its engine around / after the drain command
					t = rd.StartGap + r.Intn(lat+50)
				}
				addOp(e, k-1, t, curG, curF, r.Chance(3, 5))
			}
		}
		// background traffic that keeps fabric and memories busy
		for e := 0; e < n; e++ {
			for m := r.Intn(5); m > 0; m-- {
				g := r.Intn(n - 1)
				if g >= e {
					g++
				}
				addOp(e, k-1, r.Intn(rd.StartGap+lat+50), g, bg[g], r.Chance(1, 2))
			}
		}
		curG, curF = dg, df
		if k == nR-1 || r.Chance(1, 3) {
			// accesses to the new frame once the round is over
			for e := 0; e < n; e++ {
				if e != dg && r.Bool() {
					for m := 1 + r.Intn(3); m > 0; m-- {
						addOp(e, k, r.Intn(40), dg, df, r.Chance(2, 3))
					}
				}
			}
		}
	}
	return s
}

func canonicalHS() []hsScenario {
	ideal := func(lat int) memCfg { return memCfg{Kind: "ideal", Latency: lat, TopBuf: 16, Width: 1} }
	slow := memCfg{Kind: "fake", Latency: 200, Jitter: 20, TopBuf: 4, Width: 1}
	cfg := func(n, lat, pmcLat int, mems ...memCfg) hsCfg {
		return hsCfg{N: n, PageSize: 4096, LinkLat: lat, LinkCap: 64, PMCLat: pmcLat, Mems: mems, BufSize: 128,
			PerCycle: [4]int{1, 1, 1, 1}, L1PerEngine: 1, Seed: 5}
	}
	wr := func(after, t, gpu, frame, off int) hsOp {
		return hsOp{After: after, T: t, GPU: gpu, Frame: frame, Off: off, Size: 64, Write: true}
	}
	rdop := func(after, t, gpu, frame, off int) hsOp {
		return hsOp{After: after, T: t, GPU: gpu, Frame: frame, Off: off, Size: 64}
	}
	return []hsScenario{
		// the demonstrated shape: GPU 2 stores 64 bytes into the page on GPU 1 at cycle 10,
		// the link takes 3000 cycles, the drain starts at cycle 50, the page moves to GPU 2
		{Name: "canon-hs-store-on-slow-link-when-drain-starts", Cfg: cfg(2, 3000, 1, ideal(100), ideal(100)),
			Ops:    [][]hsOp{nil, {wr(-1, 10, 0, 0, 128)}},
			Rounds: []hsRound{{StartGap: 50, SrcGPU: 0, SrcFrame: 0, DstGPU: 1, DstFrame: 0}}},
		// the same with the controllers' traffic on the same slow fabric (the store lands
		// before its chunk is read: only the ordering rule can see a premature drain answer)
		{Name: "canon-hs-store-and-copy-on-the-same-slow-link", Cfg: cfg(2, 800, 800, ideal(20), ideal(20)),
			Ops:    [][]hsOp{nil, {wr(-1, 10, 0, 0, 128), rdop(-1, 12, 0, 0, 512)}},
			Rounds: []hsRound{{StartGap: 50, Stagger: 1, Hold: 3, SrcGPU: 0, SrcFrame: 0, DstGPU: 1, DstFrame: 0}}},
		// three GPUs, the owner's memory is slow: when the drain starts one store is on the
		// link, one is in the owner's memory pipeline, one read is on its way back
		{Name: "canon-hs-three-gpus-slow-owner-memory", Cfg: cfg(3, 60, 1, slow, ideal(5), ideal(5)),
			Ops: [][]hsOp{nil,
				{wr(-1, 0, 0, 0, 0), rdop(-1, 5, 0, 0, 64), wr(-1, 150, 0, 0, 192), wr(-1, 290, 0, 0, 256)},
				{wr(-1, 100, 0, 0, 1024), rdop(-1, 200, 0, 0, 1088), wr(-1, 250, 0, 0, 1152), wr(-1, 400, 0, 0, 1216)}},
			Rounds: []hsRound{{StartGap: 300, Stagger: 2, Hold: 3, RestartHold: 5, SrcGPU: 0, SrcFrame: 0, DstGPU: 2, DstFrame: 0}}},
		// a chain: GPU 1 -> GPU 2 -> GPU 3; stores to the new frame on GPU 2 are in flight
		// when the second drain starts; tiny engine buffers hold requests back during the pause
		{Name: "canon-hs-chain-with-held-back-requests", Cfg: func() hsCfg {
			c := cfg(3, 200, 10, ideal(20), ideal(20), ideal(20))
			c.BufSize, c.LinkCap = 1, 2
			return c
		}(),
			Ops: [][]hsOp{
				{wr(0, 5, 1, 0, 0), wr(0, 150, 1, 0, 64), wr(0, 260, 1, 0, 128), rdop(0, 262, 1, 0, 192), wr(0, 500, 1, 0, 256), wr(1, 3, 2, 0, 0)},
				{wr(-1, 0, 0, 0, 0), wr(-1, 95, 0, 0, 64), wr(-1, 99, 0, 0, 128), wr(-1, 130, 0, 0, 192), wr(-1, 131, 0, 0, 256), wr(1, 0, 2, 0, 64)},
				{rdop(-1, 90, 0, 0, 2048), wr(-1, 98, 0, 0, 2112), wr(0, 255, 1, 0, 2048), wr(0, 270, 1, 0, 2112)}},
			Rounds: []hsRound{
				{StartGap: 100, Stagger: 1, Hold: 3, SrcGPU: 0, SrcFrame: 0, DstGPU: 1, DstFrame: 0},
				{StartGap: 265, Stagger: 0, Hold: 0, RestartHold: 5, SrcGPU: 1, SrcFrame: 0, DstGPU: 2, DstFrame: 0}}},
	}
}

// ---------------------------------------------------------------------------
// transparent inter-GPU fabric with latency and bounded occupancy

type hsFlight struct {
	due int64
	msg sim.Msg
	src sim.Port
	dst sim.Port
}

type hsFabric struct {
	*sim.TickingComponent
	engine   sim.Engine
	freq     sim.Freq
	ports    []sim.Port
	byName   map[sim.RemotePort]sim.Port
	latOf    func(m sim.Msg) int
	jitter   int
	rng      *vlib.PRNG
	capPer   int
	inflight []hsFlight
	perPort  map[sim.Port]int
	lastDue  map[[2]sim.Port]int64
	wake     int64
	rr       int
	Full     int64 // a sender had to wait because its share of the fabric was in use
	Blocked  int64 // a delivery had to wait for the receiver's buffer
}

func newHSFabric(name string, engine sim.Engine, freq sim.Freq) *hsFabric {
	f := &hsFabric{engine: engine, freq: freq, byName: map[sim.RemotePort]sim.Port{}, perPort: map[sim.Port]int{}, lastDue: map[[2]sim.Port]int64{}, wake: -1}
	// like akita's connections the fabric ticks after every component of the cycle
	f.TickingComponent = sim.NewSecondaryTickingComponent(name, engine, freq, f)
	return f
}

func (f *hsFabric) PlugIn(p sim.Port) {
	f.ports = append(f.ports, p)
	f.byName[p.AsRemote()] = p
	p.SetConnection(f)
}
func (f *hsFabric) Unplug(sim.Port)          { panic("not implemented") }
func (f *hsFabric) NotifyAvailable(sim.Port) { f.TickNow() }
func (f *hsFabric) NotifySend()              { f.TickNow() }

func (f *hsFabric) Tick() bool {
	now := simkit.Cycle(f.engine.CurrentTime(), f.freq)
	progress := false
	blocked := map[sim.Port]bool{}
	rest := f.inflight[:0]
	for _, fl := range f.inflight {
		if fl.due <= now && !blocked[fl.dst] {
			if fl.dst.Deliver(fl.msg) == nil {
				f.perPort[fl.src]--
				progress = true
				continue
			}
			blocked[fl.dst] = true
			f.Blocked++
		}
		rest = append(rest, fl)
	}
	f.inflight = rest
	for i := range f.ports {
		p := f.ports[(i+f.rr)%len(f.ports)]
		for {
			head := p.PeekOutgoing()
			if head == nil {
				break
			}
			if f.perPort[p] >= f.capPer {
				f.Full++
				break
			}
			dst, ok := f.byName[head.Meta().Dst]
			if !ok {
				panic(fmt.Sprintf("fabric: %T addressed to unknown port %s", head, head.Meta().Dst))
			}
			p.RetrieveOutgoing()
			due := now + int64(f.latOf(head))
			if f.jitter > 0 {
				due += int64(f.rng.Intn(f.jitter + 1))
			}
			pair := [2]sim.Port{p, dst}
			if due < f.lastDue[pair] {
				due = f.lastDue[pair] // a link does not reorder the messages of one pair
			}
			f.lastDue[pair] = due
			f.inflight = append(f.inflight, hsFlight{due: due, msg: head, src: p, dst: dst})
			f.perPort[p]++
			progress = true
		}
	}
	f.rr++
	if !progress && len(f.inflight) > 0 {
		next := int64(-1)
		for _, fl := range f.inflight {
			if fl.due > now && (next < 0 || fl.due < next) {
				next = fl.due
			}
		}
		if next > 0 && (f.wake <= now || next < f.wake) {
			f.wake = next
			f.engine.Schedule(hsAlarm{EventBase: sim.NewEventBase(f.freq.NCyclesLater(int(next-now), f.engine.CurrentTime()), hsAlarmHandler{}), fn: f.TickNow})
		}
	}
	return progress
}

// hsAlarm is a primary event that makes a secondary component tick in its cycle.
type hsAlarm struct {
	*sim.EventBase
	fn func()
}

type hsAlarmHandler struct{}

func (hsAlarmHandler) Handle(e sim.Event) error {
	e.(hsAlarm).fn()
	return nil
}

// ---------------------------------------------------------------------------
// run + check

type hsTxn struct {
	engine, idx int
	op          hsOp
	addr        uint64
	data        []byte
	mask        []bool
	msg         mem.AccessReq
	sentCycle   int64
	// sequence numbers of the port log (-1: not seen)
	arrived, accepted, forwarded, served, closed int
	cloneID                                      string
	delivered                                    int
	heldByPause                                  bool
}

func (t *hsTxn) kind() string {
	if t.op.Write {
		return "store"
	}
	return "load"
}

type hsL1 struct {
	*simkit.Agent
	Out   sim.Port
	ops   []*hsTxn
	next  int
	stall func() bool
	wake  int64
}

func runHSScenario(rec vlib.Recorder, s hsScenario) {
	rec.Eval()
	c := s.Cfg
	if c.N < 2 || c.N > 4 || len(c.Mems) != c.N || len(s.Ops) != c.N || c.PageSize == 0 || c.PageSize%64 != 0 || c.PageSize*hsFrames > hsBank ||
		c.LinkCap < 1 || c.L1PerEngine < 1 || c.BufSize < 1 {
		rec.Inconclusive(s.Name + ": configuration out of range")
		return
	}
	for _, rd := range s.Rounds {
		if rd.SrcGPU < 0 || rd.SrcGPU >= c.N || rd.DstGPU < 0 || rd.DstGPU >= c.N || rd.SrcGPU == rd.DstGPU ||
			rd.SrcFrame < 0 || rd.SrcFrame >= hsFrames || rd.DstFrame < 0 || rd.DstFrame >= hsFrames {
			rec.Inconclusive(s.Name + ": round out of range")
			return
		}
	}
	engine := sim.NewSerialEngine()
	freq := 1 * sim.GHz
	log := simkit.NewLog(engine, freq)
	rng := vlib.NewPRNG(c.Seed)
	nowCycle := func() int64 { return simkit.Cycle(engine.CurrentTime(), freq) }
	wakeAt := func(a *simkit.Agent, last *int64, cyc int64) {
		now := nowCycle()
		if cyc <= now {
			a.TickLater()
			return
		}
		if *last > now && *last <= cyc {
			return
		}
		*last = cyc
		engine.Schedule(sim.MakeTickEvent(a.TickingComponent, freq.NCyclesLater(int(cyc-now), engine.CurrentTime())))
	}

	wit := func(extra map[string]any) map[string]any {
		m := map[string]any{"part": "handshake-rdma", "scenario": s}
		for k, v := range extra {
			m[k] = v
		}
		return m
	}
	seen := map[string]bool{}
	viol := func(key, what string, extra map[string]any) {
		if seen[key] {
			return
		}
		seen[key] = true
		rec.Violation("C19|handshake-rdma|"+key, s.Name+": "+what, wit(extra))
	}

	// ---- platform
	table := &mem.BankedAddressPortMapper{BankSize: hsBank}
	table.LowModules = append(table.LowModules, sim.RemotePort("CPU"))
	fabric := newHSFabric("Fabric", engine, freq)
	fabric.jitter, fabric.capPer, fabric.rng = c.LinkJitter, c.LinkCap, rng.Fork("fabric")
	fabric.latOf = func(m sim.Msg) int {
		switch m.(type) {
		case *pmcpkg.DataPullReq, *pmcpkg.DataPullRsp:
			return max(c.PMCLat, 1)
		}
		return max(c.LinkLat, 1)
	}
	storages := make([]*mem.Storage, c.N)
	fakes := make([]*fakeMem, c.N)
	engines := make([]*rdma.Comp, c.N)
	pmcs := make([]*pmcpkg.PageMigrationController, c.N)
	l1s := make([][]*hsL1, c.N)
	ctl := simkit.NewAgent("Driver", engine, freq)
	toRDMA := make([]sim.Port, c.N)
	toPMC := make([]sim.Port, c.N)
	labels := map[string][2]int{} // label -> (gpu, port kind)
	const (
		kReqIn = iota
		kReqOut
		kDataOut
		kCtrl
		kPMCRemote
		kPMCCtrl
	)
	attach := func(p sim.Port, g, kind int) {
		l := fmt.Sprintf("%d.%d", g, kind)
		labels[l] = [2]int{g, kind}
		log.Attach(p, l)
	}
	memRng := rng.Fork("mem")
	for g := 0; g < c.N; g++ {
		storages[g] = mem.NewStorage(uint64(c.N+2) * hsBank)
		init := make([]byte, hsFrames*c.PageSize)
		rng.ForkN("content", g).Bytes(init)
		if err := storages[g].Write(hsAddr(c, g, 0, 0), init); err != nil {
			panic(err)
		}
		var top sim.Port
		mc := c.Mems[g]
		if mc.Kind == "ideal" {
			m := idealmemcontroller.MakeBuilder().WithEngine(engine).WithFreq(freq).WithLatency(mc.Latency).
				WithTopBufSize(mc.TopBuf).WithWidth(mc.Width).WithStorage(storages[g]).Build(fmt.Sprintf("GPU%d.DRAM", g+1))
			top = m.GetPortByName("Top")
		} else {
			fakes[g] = newFakeMem(fmt.Sprintf("GPU%d.DRAM", g+1), engine, freq, mc, storages[g], memRng.ForkN("m", g))
			top = fakes[g].Top
		}
		local := &mem.SinglePortMapper{Port: top.AsRemote()}
		pmcs[g] = pmcpkg.NewPageMigrationController(fmt.Sprintf("GPU%d.PMC", g+1), engine, local, nil)
		engines[g] = rdma.MakeBuilder().WithEngine(engine).WithFreq(freq).WithBufferSize(c.BufSize).
			WithLocalModules(local).WithRemoteModules(table).
			WithIncomingReqPerCycle(c.PerCycle[0]).WithIncomingRspPerCycle(c.PerCycle[1]).
			WithOutgoingReqPerCycle(c.PerCycle[2]).WithOutgoingRspPerCycle(c.PerCycle[3]).
			Build(fmt.Sprintf("GPU%d.RDMA", g+1))
		table.LowModules = append(table.LowModules, engines[g].RDMADataOutside.AsRemote())
		fabric.PlugIn(engines[g].RDMARequestOutside)
		fabric.PlugIn(engines[g].RDMADataOutside)
		fabric.PlugIn(pmcs[g].GetPortByName("Remote"))
		inner := simkit.Connect(engine, freq, fmt.Sprintf("GPU%d.Inner", g+1), top, pmcs[g].GetPortByName("LocalMem"),
			engines[g].RDMADataInside, engines[g].RDMARequestInside)
		for k := 0; k < c.L1PerEngine; k++ {
			q := &hsL1{wake: -1}
			q.Agent = simkit.NewAgent(fmt.Sprintf("GPU%d.L1x%d", g+1, k), engine, freq)
			q.Out = q.Agent.NewPort("Bottom", 4, 1)
			if c.L1StallPct > 0 {
				sr := rng.ForkN(fmt.Sprintf("l1-%d", g), k)
				q.stall = func() bool { return sr.Intn(100) < c.L1StallPct }
			}
			inner.PlugIn(q.Out)
			l1s[g] = append(l1s[g], q)
		}
		toRDMA[g] = ctl.NewPort(fmt.Sprintf("ToRDMA%d", g+1), 4, 4)
		toPMC[g] = ctl.NewPort(fmt.Sprintf("ToPMC%d", g+1), 2, 2)
		simkit.Connect(engine, freq, fmt.Sprintf("GPU%d.Ctrl", g+1), toRDMA[g], engines[g].CtrlPort, toPMC[g], pmcs[g].GetPortByName("Control"))
		attach(engines[g].RDMARequestInside, g, kReqIn)
		attach(engines[g].RDMARequestOutside, g, kReqOut)
		attach(engines[g].RDMADataOutside, g, kDataOut)
		attach(engines[g].CtrlPort, g, kCtrl)
		attach(pmcs[g].GetPortByName("Remote"), g, kPMCRemote)
		attach(pmcs[g].GetPortByName("Control"), g, kPMCCtrl)
	}

	// ---- transactions
	var txns []*hsTxn
	byOrig := map[string]*hsTxn{}
	byAddr := map[uint64]*hsTxn{}
	byClone := map[string]*hsTxn{}
	type span struct{ lo, hi uint64 }
	used := map[int][]span{}
	for e := range s.Ops {
		for i, o := range s.Ops[e] {
			if o.GPU < 0 || o.GPU >= c.N || o.GPU == e || o.Frame < 0 || o.Frame >= hsFrames || o.Size < 1 || o.Size > 64 || o.Off < 0 ||
				uint64(o.Off+o.Size) > c.PageSize || o.Off/64 != (o.Off+o.Size-1)/64 || o.After < -1 || o.After >= len(s.Rounds) || o.L1 < 0 {
				rec.Inconclusive(fmt.Sprintf("%s: access %d of engine %d is malformed", s.Name, i, e))
				return
			}
			a := hsAddr(c, o.GPU, o.Frame, o.Off)
			for _, u := range used[o.GPU] {
				if a < u.hi && u.lo < a+uint64(o.Size) {
					rec.Inconclusive(fmt.Sprintf("%s: access %d of engine %d overlaps another access", s.Name, i, e))
					return
				}
			}
			used[o.GPU] = append(used[o.GPU], span{a, a + uint64(o.Size)})
			t := &hsTxn{engine: e, idx: i, op: o, addr: a, arrived: -1, accepted: -1, forwarded: -1, served: -1, closed: -1, sentCycle: -1}
			if o.Write {
				pr := rng.ForkN(fmt.Sprintf("data-%d", e), i)
				t.data = make([]byte, o.Size)
				pr.Bytes(t.data)
				if o.Masked {
					t.mask = make([]bool, o.Size)
					for j := range t.mask {
						t.mask[j] = pr.Bool()
					}
				}
			}
			txns = append(txns, t)
			byAddr[a] = t
			q := l1s[e][o.L1%len(l1s[e])]
			q.ops = append(q.ops, t)
		}
	}
	// a frame is the destination of at most one round, and nothing addresses it before that round is over
	dstRound := map[[2]int]int{}
	for k, rd := range s.Rounds {
		if _, dup := dstRound[[2]int{rd.DstGPU, rd.DstFrame}]; dup {
			rec.Inconclusive(s.Name + ": a frame is the destination of two rounds")
			return
		}
		dstRound[[2]int{rd.DstGPU, rd.DstFrame}] = k
	}
	for k, rd := range s.Rounds {
		if j, isDst := dstRound[[2]int{rd.SrcGPU, rd.SrcFrame}]; isDst && j >= k {
			rec.Inconclusive(s.Name + ": a round copies from a frame that a later round fills")
			return
		}
	}
	for _, t := range txns {
		if k, isDst := dstRound[[2]int{t.op.GPU, t.op.Frame}]; isDst && t.op.After < k {
			rec.Inconclusive(fmt.Sprintf("%s: access %d of engine %d addresses a destination frame before its copy", s.Name, t.idx, t.engine))
			return
		}
	}

	roundEnd := make([]int64, len(s.Rounds)) // cycle at which round k finished, -1 before
	for k := range roundEnd {
		roundEnd[k] = -1
	}
	for e := range l1s {
		for _, q := range l1s[e] {
			q := q
			sort.SliceStable(q.ops, func(a, b int) bool {
				if q.ops[a].op.After != q.ops[b].op.After {
					return q.ops[a].op.After < q.ops[b].op.After
				}
				return q.ops[a].op.T < q.ops[b].op.T
			})
			q.Agent.TickFn = func(a *simkit.Agent) bool {
				now := a.NowCycle()
				progress := false
				if q.stall != nil && q.stall() {
					if q.Out.PeekIncoming() != nil {
						progress = true
					}
				} else {
					for {
						m := q.Out.RetrieveIncoming()
						if m == nil {
							break
						}
						progress = true
						if r, ok := m.(mem.AccessRsp); ok {
							if t := byOrig[r.GetRspTo()]; t != nil {
								t.delivered++
							}
						}
					}
				}
				for q.next < len(q.ops) {
					t := q.ops[q.next]
					gate := int64(0)
					if t.op.After >= 0 {
						gate = roundEnd[t.op.After]
						if gate < 0 {
							break // woken when the round finishes
						}
					}
					if due := gate + int64(t.op.T); now < due {
						wakeAt(q.Agent, &q.wake, due)
						break
					}
					if t.msg == nil {
						dst := engines[t.engine].RDMARequestInside.AsRemote()
						if t.op.Write {
							wb := mem.WriteReqBuilder{}.WithSrc(q.Out.AsRemote()).WithDst(dst).WithAddress(t.addr).
								WithData(append([]byte(nil), t.data...)).WithPID(1)
							if t.mask != nil {
								wb = wb.WithDirtyMask(append([]bool(nil), t.mask...))
							}
							t.msg = wb.Build()
						} else {
							t.msg = mem.ReadReqBuilder{}.WithSrc(q.Out.AsRemote()).WithDst(dst).WithAddress(t.addr).
								WithByteSize(uint64(t.op.Size)).WithPID(1).Build()
						}
						byOrig[t.msg.Meta().ID] = t
					}
					if q.Out.Send(t.msg) != nil {
						break // woken when the port has room
					}
					t.sentCycle = now
					q.next++
					progress = true
				}
				return progress
			}
			q.Agent.TickLater()
		}
	}

	// ---- driver / command processor stand-in
	type roundRun struct {
		drainStartSeq, copyReqSeq, copyStartSeq, copyEndSeq int
		drainRsps, restartRsps, completions                 int
		s0, dAtEnd, srcAtEnd                                []byte
		openWritesToPage, openReadsToPage, openAny          int
		openWriteRemaining                                  bool
	}
	runs := make([]*roundRun, len(s.Rounds))
	for k := range runs {
		runs[k] = &roundRun{drainStartSeq: -1, copyReqSeq: -1, copyStartSeq: -1, copyEndSeq: -1}
	}
	inFrame := func(a uint64, g, f int) bool {
		return a >= hsAddr(c, g, f, 0) && a < hsAddr(c, g, f, 0)+c.PageSize
	}
	seqNow := func() int { return len(log.Events) }
	cur, phase, sentN := 0, 0, 0
	var phaseAt, prevEnd, ctlWake int64
	ctlWake = -1
	lateCompletions, ctlUnexpected := 0, ""
	cstall := rng.Fork("ctl-stall")
	ctl.TickFn = func(a *simkit.Agent) bool {
		now := a.NowCycle()
		progress := false
		stalled := c.CtrlStallPct > 0 && cstall.Intn(100) < c.CtrlStallPct
		if !stalled {
			for g := 0; g < c.N; g++ {
				for _, p := range []sim.Port{toRDMA[g], toPMC[g]} {
					for {
						m := p.RetrieveIncoming()
						if m == nil {
							break
						}
						progress = true
						switch m.(type) {
						case *rdma.DrainRsp:
							if cur < len(runs) {
								runs[cur].drainRsps++
							}
						case *rdma.RestartRsp:
							if cur < len(runs) {
								runs[cur].restartRsps++
							}
						case *pmcpkg.PageMigrationRspFromPMC:
							if cur < len(runs) && phase >= 4 {
								runs[cur].completions++
							} else {
								lateCompletions++
							}
						default:
							ctlUnexpected = fmt.Sprintf("%T", m)
						}
					}
				}
			}
		} else if anyIncomingHS(toRDMA) || anyIncomingHS(toPMC) {
			progress = true
		}
		if cur >= len(runs) {
			return progress
		}
		rd, rr := s.Rounds[cur], runs[cur]
		switch phase {
		case 0:
			if due := prevEnd + int64(rd.StartGap); now < due {
				wakeAt(ctl, &ctlWake, due)
			} else {
				phase, sentN, phaseAt = 1, 0, now
				progress = true
			}
		case 1, 5:
			if now < phaseAt {
				wakeAt(ctl, &ctlWake, phaseAt)
				break
			}
			var m sim.Msg
			if phase == 1 {
				m = rdma.DrainReqBuilder{}.WithSrc(toRDMA[sentN].AsRemote()).WithDst(engines[sentN].CtrlPort.AsRemote()).Build()
			} else {
				m = rdma.RestartReqBuilder{}.WithSrc(toRDMA[sentN].AsRemote()).WithDst(engines[sentN].CtrlPort.AsRemote()).Build()
			}
			if phase == 1 && sentN == 0 && rr.drainStartSeq < 0 {
				// what is in flight at the moment the sequence starts
				rr.drainStartSeq = seqNow()
				for _, t := range txns {
					if t.forwarded >= 0 && t.closed < 0 {
						rr.openAny++
						if inFrame(t.addr, rd.SrcGPU, rd.SrcFrame) {
							if t.op.Write {
								rr.openWritesToPage++
								if t.served < 0 {
									rr.openWriteRemaining = true
								}
							} else {
								rr.openReadsToPage++
							}
						}
					}
				}
			}
			if toRDMA[sentN].Send(m) == nil {
				sentN++
				phaseAt = now + int64(rd.Stagger)
				progress = true
				if sentN == c.N {
					phase++
				}
			}
		case 2:
			if rr.drainRsps >= c.N {
				phase, phaseAt = 3, now+int64(rd.Hold)
				progress = true
			}
		case 3:
			if now < phaseAt {
				wakeAt(ctl, &ctlWake, phaseAt)
				break
			}
			m := pmcpkg.PageMigrationReqToPMCBuilder{}.WithSrc(toPMC[rd.DstGPU].AsRemote()).
				WithDst(pmcs[rd.DstGPU].GetPortByName("Control").AsRemote()).WithPageSize(c.PageSize).
				WithPMCPortOfRemoteGPU(pmcs[rd.SrcGPU].GetPortByName("Remote").AsRemote()).
				WithReadFrom(hsAddr(c, rd.SrcGPU, rd.SrcFrame, 0)).WithWriteTo(hsAddr(c, rd.DstGPU, rd.DstFrame, 0)).Build()
			if toPMC[rd.DstGPU].Send(m) == nil {
				rr.copyReqSeq = seqNow()
				rr.s0, _ = storages[rd.SrcGPU].Read(hsAddr(c, rd.SrcGPU, rd.SrcFrame, 0), c.PageSize)
				rr.s0 = append([]byte(nil), rr.s0...)
				phase = 4
				progress = true
			}
		case 4:
			if rr.completions >= 1 {
				phase, sentN, phaseAt = 5, 0, now+int64(rd.RestartHold)
				progress = true
			}
		case 6:
			if rr.restartRsps >= c.N {
				roundEnd[cur] = now
				prevEnd = now
				cur++
				phase = 0
				progress = true
				for e := range l1s {
					for _, q := range l1s[e] {
						q.TickLater()
					}
				}
			}
		}
		return progress
	}
	ctl.TickLater()

	// ---- online part of the monitor: sequence numbers and storage snapshots
	paused := make([]bool, c.N)
	var held, resumedAfterRestart, pulls int64
	log.OnEvent = func(e simkit.Event) {
		lk := labels[e.Port]
		g, kind := lk[0], lk[1]
		switch kind {
		case kReqIn:
			switch m := e.Msg.(type) {
			case mem.AccessReq:
				t := byOrig[m.Meta().ID]
				if t == nil {
					return
				}
				if e.Kind == simkit.KRecv {
					t.arrived = e.Seq
					if paused[g] {
						t.heldByPause = true
						held++
					}
				} else if e.Kind == simkit.KRetrieve {
					t.accepted = e.Seq
					if t.heldByPause {
						resumedAfterRestart++
					}
				}
			case mem.AccessRsp:
				if e.Kind == simkit.KSend {
					if t := byOrig[m.GetRspTo()]; t != nil && t.closed < 0 {
						t.closed = e.Seq
					}
				}
			}
		case kReqOut:
			if m, ok := e.Msg.(mem.AccessReq); ok && e.Kind == simkit.KSend {
				if t := byAddr[m.GetAddress()]; t != nil && t.forwarded < 0 {
					t.forwarded = e.Seq
					t.cloneID = m.Meta().ID
					byClone[t.cloneID] = t
				}
			}
		case kDataOut:
			if m, ok := e.Msg.(mem.AccessRsp); ok && e.Kind == simkit.KSend {
				if t := byClone[m.GetRspTo()]; t != nil && t.served < 0 {
					t.served = e.Seq
				}
			}
		case kCtrl:
			switch e.Msg.(type) {
			case *rdma.DrainReq:
				if e.Kind == simkit.KRetrieve {
					paused[g] = true
				}
			case *rdma.RestartRsp:
				if e.Kind == simkit.KSend {
					paused[g] = false
				}
			}
		case kPMCRemote:
			if _, ok := e.Msg.(*pmcpkg.DataPullReq); ok && e.Kind == simkit.KSend {
				pulls++
				if cur < len(runs) && runs[cur].copyStartSeq < 0 {
					runs[cur].copyStartSeq = e.Seq
				}
			}
		case kPMCCtrl:
			if _, ok := e.Msg.(*pmcpkg.PageMigrationRspFromPMC); ok && e.Kind == simkit.KSend && cur < len(runs) {
				rr, rd := runs[cur], s.Rounds[cur]
				if g == rd.DstGPU && rr.copyEndSeq < 0 {
					rr.copyEndSeq = e.Seq
					d, _ := storages[rd.DstGPU].Read(hsAddr(c, rd.DstGPU, rd.DstFrame, 0), c.PageSize)
					rr.dAtEnd = append([]byte(nil), d...)
					d, _ = storages[rd.SrcGPU].Read(hsAddr(c, rd.SrcGPU, rd.SrcFrame, 0), c.PageSize)
					rr.srcAtEnd = append([]byte(nil), d...)
				}
			}
		}
	}

	span0 := int64(0)
	for _, rd := range s.Rounds {
		span0 += int64(rd.StartGap + rd.Hold + rd.RestartHold + 8*(c.LinkLat+c.LinkJitter+c.PMCLat) + 4000)
	}
	for _, m := range c.Mems {
		span0 += int64(20 * (m.Latency + m.Jitter))
	}
	limit := int64(len(txns))*6000 + span0*60 + 400000
	nEv, livelock, pv := simkit.RunBounded(engine, limit)
	rec.Count("hs_engine_events", nEv)
	if pv != nil {
		viol("crash", fmt.Sprintf("panic during the handshake: %v", pv), nil)
		return
	}
	if livelock {
		viol("livelock", "engine exceeded the event bound", nil)
		return
	}
	if ctlUnexpected != "" {
		viol("unexpected-control-answer", "the driver stand-in received "+ctlUnexpected, nil)
	}

	// ---- judge
	if lateCompletions > 0 {
		viol("completion-without-request", fmt.Sprintf("%d completion messages arrived while no copy was requested", lateCompletions), nil)
	}
	if cur < len(runs) {
		rr := runs[cur]
		stage := []string{"waiting to start", "sending drains", "drain", "before the copy request", "copy", "sending restarts", "restart"}[phase]
		viol("deadlock|round-incomplete|stage="+stage, fmt.Sprintf("round %d stopped in stage %q with the engine idle: %d/%d DrainRsp, %d completion(s), %d/%d RestartRsp",
			cur, stage, rr.drainRsps, c.N, rr.completions, rr.restartRsps, c.N), map[string]any{"round": cur})
	}
	for k, rr := range runs {
		if k >= cur {
			break
		}
		rd := s.Rounds[k]
		ex := map[string]any{"round": k}
		if rr.completions != 1 {
			viol(fmt.Sprintf("completions=%d", rr.completions), fmt.Sprintf("round %d: %d completion messages for one migration request", k, rr.completions), ex)
		}
		if rr.copyEndSeq < 0 || rr.s0 == nil {
			continue
		}
		// ordering: no engine has an open transaction to the page between the copy request and its completion
		for _, t := range txns {
			if !inFrame(t.addr, rd.SrcGPU, rd.SrcFrame) || t.forwarded < 0 || t.forwarded > rr.copyEndSeq {
				continue
			}
			if t.closed >= 0 && t.closed < rr.copyReqSeq {
				continue
			}
			exx := map[string]any{"round": k, "engine": t.engine, "access": t.idx, "addr": t.addr}
			state := "is still on its way to the owner"
			if t.served >= 0 && t.served < rr.copyReqSeq {
				state = "was served by the owner, its answer is on the way back"
			}
			if t.forwarded < rr.copyReqSeq {
				viol("copy-started-with-remote-transaction-open",
					fmt.Sprintf("round %d: all %d engines had acknowledged the drain and the copy of the page at 0x%x was requested while the %s of engine %d to 0x%x (forwarded at event %d, copy requested at event %d) %s",
						k, c.N, hsAddr(c, rd.SrcGPU, rd.SrcFrame, 0), t.kind(), t.engine+1, t.addr, t.forwarded, rr.copyReqSeq, state), exx)
			} else {
				viol("remote-transaction-opened-during-copy",
					fmt.Sprintf("round %d: engine %d forwarded a %s to 0x%x while the page at 0x%x was being copied (after it had acknowledged the drain)",
						k, t.engine+1, t.kind(), t.addr, hsAddr(c, rd.SrcGPU, rd.SrcFrame, 0)), exx)
			}
		}
		// contents
		rec.Count("hs_bytes_compared", int64(2*c.PageSize))
		if i := firstDiff(rr.dAtEnd, rr.s0); i >= 0 {
			n := 0
			for j := range rr.s0 {
				if rr.s0[j] != at(rr.dAtEnd, j) {
					n++
				}
			}
			viol("migrated-page-differs-from-source", fmt.Sprintf("round %d: when GPU %d's controller reported completion, the destination frame 0x%x differed from the source frame 0x%x as it was when the copy was requested in %d bytes (first at offset %d: 0x%02x, source 0x%02x)",
				k, rd.DstGPU+1, hsAddr(c, rd.DstGPU, rd.DstFrame, 0), hsAddr(c, rd.SrcGPU, rd.SrcFrame, 0), n, i, at(rr.dAtEnd, i), rr.s0[i]), ex)
		} else if i := firstDiff(rr.dAtEnd, rr.srcAtEnd); i >= 0 {
			viol("migrated-page-differs-from-source", fmt.Sprintf("round %d: when GPU %d's controller reported completion, the source frame 0x%x had changed under the copy: offset %d holds 0x%02x there and 0x%02x in the destination frame",
				k, rd.DstGPU+1, hsAddr(c, rd.SrcGPU, rd.SrcFrame, 0), i, at(rr.srcAtEnd, i), at(rr.dAtEnd, i)), ex)
		}
		var checkedStores int64
		for _, t := range txns {
			if !t.op.Write || !inFrame(t.addr, rd.SrcGPU, rd.SrcFrame) || t.forwarded < 0 || t.forwarded >= rr.copyReqSeq {
				continue
			}
			checkedStores++
			off := int(t.addr - hsAddr(c, rd.SrcGPU, rd.SrcFrame, 0))
			for j, b := range t.data {
				if (t.mask == nil || t.mask[j]) && rr.dAtEnd[off+j] != b {
					viol("store-lost-by-migration", fmt.Sprintf("round %d: the store of engine %d to 0x%x (issued at cycle %d, forwarded by its engine before the copy was requested, acknowledged to its issuer: %v) is not in the migrated page: offset %d holds 0x%02x, stored 0x%02x",
						k, t.engine+1, t.addr, t.sentCycle, t.delivered > 0, off+j, rr.dAtEnd[off+j], b),
						map[string]any{"round": k, "engine": t.engine, "access": t.idx, "addr": t.addr})
					break
				}
			}
		}
		rec.Count("hs_stores_to_page_before_copy_checked", checkedStores)
		rec.Count("hs_rounds_checked", 1)
		if rr.openWritesToPage > 0 {
			rec.Count("hs_drains_with_remote_write_to_page_in_flight", 1)
			if rr.openWriteRemaining && c.LinkLat >= 20 {
				rec.Count("hs_drains_with_write_on_link_longer_than_drain_round_trip", 1)
			}
		}
		if rr.openReadsToPage > 0 {
			rec.Count("hs_drains_with_remote_read_to_page_in_flight", 1)
		}
		if rr.openAny > 0 {
			rec.Count("hs_drains_with_any_remote_transaction_in_flight", 1)
		}
		if len(seen) == 0 && rr.openWritesToPage > 0 {
			rec.Nontrivial(fmt.Sprintf("hs:%s/%d", s.Name, k))
		}
	}
	// liveness and final memory
	var answered, storesInMemory int64
	for _, t := range txns {
		exx := map[string]any{"engine": t.engine, "access": t.idx, "addr": t.addr}
		if t.sentCycle < 0 {
			if cur == len(runs) {
				viol("deadlock|l1-request-never-accepted", fmt.Sprintf("the %s of engine %d to 0x%x was never accepted by its engine's port (engine idle, all rounds finished)", t.kind(), t.engine+1, t.addr), exx)
			}
			continue
		}
		if t.delivered != 1 {
			if cur == len(runs) || t.delivered > 1 {
				key := fmt.Sprintf("l1-answers=%d", t.delivered)
				if t.delivered == 0 {
					key = "deadlock|l1-request-unanswered"
				}
				viol(key, fmt.Sprintf("the %s of engine %d to 0x%x (issued at cycle %d, held back by a pause: %v) got %d answers (engine idle)", t.kind(), t.engine+1, t.addr, t.sentCycle, t.heldByPause, t.delivered), exx)
			}
			continue
		}
		answered++
		if !t.op.Write {
			continue
		}
		got, err := storages[t.op.GPU].Read(t.addr, uint64(t.op.Size))
		if err != nil {
			continue
		}
		for j, b := range t.data {
			if (t.mask == nil || t.mask[j]) && got[j] != b {
				viol("acknowledged-store-not-in-memory", fmt.Sprintf("the store of engine %d to 0x%x was acknowledged, but GPU %d's memory holds 0x%02x at byte %d instead of 0x%02x at the end",
					t.engine+1, t.addr, t.op.GPU+1, got[j], j, b), exx)
				break
			}
		}
		storesInMemory++
	}
	rec.Count("hs_l1_requests_answered", answered)
	rec.Count("hs_acknowledged_stores_found_in_memory", storesInMemory)
	rec.Count("hs_requests_held_back_by_pause", held)
	rec.Count("hs_requests_forwarded_after_restart", resumedAfterRestart)
	rec.Count("hs_pmc_data_pulls", pulls)
	rec.Count("hs_fabric_sender_waits", fabric.Full)
	rec.Count("hs_fabric_receiver_waits", fabric.Blocked)
	for _, fm := range fakes {
		if fm != nil {
			rec.Count("hs_mem_stalls", fm.Stalls)
		}
	}
	if c.LinkLat >= 20 {
		rec.Count("hs_scenarios_link_latency_above_drain_round_trip", 1)
	}
	rec.Distinct("hs_config", fmt.Sprintf("%d/%d/%d/%d/%d/%d/%d/%d/%d", c.N, c.PageSize, c.LinkLat, c.LinkJitter, c.LinkCap, c.PMCLat, c.BufSize, c.L1PerEngine, c.CtrlStallPct))
	rec.Sample(map[string]any{"part": "handshake-rdma", "name": s.Name, "cfg": c, "rounds": s.Rounds})
}

func anyIncomingHS(ps []sim.Port) bool {
	for _, p := range ps {
		if p.PeekIncoming() != nil {
			return true
		}
	}
	return false
}
