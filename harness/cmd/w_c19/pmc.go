package main

// Component part of C19: 2-4 real PageMigrationControllers, each with a
// memory behind it (akita's ideal memory controller or a hostile fake memory),
// all Remote ports on one connection, and one control-side peer that issues
// PageMigrationReqToPMC the way cp.ctrlMiddleware does and collects the
// completions. Judged offline from the port trace plus storage snapshots.

import (
	"bytes"
	"fmt"
	"os"
	"sort"
	"strings"

	"github.com/sarchlab/akita/v4/mem/idealmemcontroller"
	"github.com/sarchlab/akita/v4/mem/mem"
	"github.com/sarchlab/akita/v4/sim"
	pmcpkg "github.com/sarchlab/mgpusim/v4/amd/timing/pagemigrationcontroller"

	"verifharness/vlib"
	"verifharness/vlib/simkit"
)

const chunk = 64 // the controller's transfer unit (onDemandPagingDataTransferSize)

type memCfg struct {
	Kind     string `json:"kind"` // "ideal" or "fake"
	Latency  int    `json:"latency"`
	Jitter   int    `json:"jitter"`    // fake only: extra random latency, reorders replies
	TopBuf   int    `json:"top_buf"`   // incoming/outgoing buffer of the memory's port
	StallPct int    `json:"stall_pct"` // fake only: chance per cycle of not accepting
	Width    int    `json:"width"`
	Split    uint64 `json:"split,omitempty"` // ideal only: two controllers interleaved at this many bytes (0 = one controller)
}

type pmcCfg struct {
	NumPMC       int      `json:"num_pmc"`
	MemSize      uint64   `json:"mem_size"`
	Mems         []memCfg `json:"mems"`
	CtrlInBuf    int      `json:"ctrl_in_buf"`    // control peer's incoming buffer
	CtrlStallPct int      `json:"ctrl_stall_pct"` // chance per cycle of not taking a completion
	// CtrlStallBurst > 0: the control peer takes no completion during every
	// other window of that many cycles, starting with a deaf window (a
	// command processor busy with something else)
	CtrlStallBurst int    `json:"ctrl_stall_burst,omitempty"`
	ContentSeed    uint64 `json:"content_seed"`
}

type pmcOp struct {
	Dst      int    `json:"dst"`
	Src      int    `json:"src"`
	ReadOff  uint64 `json:"read_off"`
	WriteOff uint64 `json:"write_off"`
	PageSize uint64 `json:"page_size"`
	After    []int  `json:"after"` // ops whose completion must have been received
	Gap      int    `json:"gap"`   // cycles to wait after the dependencies are met
}

type pmcScenario struct {
	Name string  `json:"name"`
	Cfg  pmcCfg  `json:"cfg"`
	Ops  []pmcOp `json:"ops"`
}

// ---------------------------------------------------------------------------
// generator

var pageSizes = []uint64{64, 128, 192, 256, 1024, 4096, 4096, 4096, 8192, 16384, 65536}

func genMem(r *vlib.PRNG) memCfg {
	if r.Chance(2, 5) {
		m := memCfg{Kind: "ideal", Latency: []int{1, 5, 20, 100}[r.Intn(4)],
			TopBuf: []int{1, 2, 16}[r.Intn(3)], Width: 1 + r.Intn(2)}
		if fr := r.Fork("split"); fr.Chance(1, 2) { // forked: the other draws of the scenario stay what they were
			m.Split = []uint64{64, 256, 1024, 2048}[fr.Intn(4)]
		}
		return m
	}
	return memCfg{Kind: "fake", Latency: []int{0, 1, 3, 10, 50, 200}[r.Intn(6)],
		Jitter: []int{0, 0, 2, 8, 40}[r.Intn(5)], TopBuf: []int{1, 1, 2, 4, 16}[r.Intn(5)],
		StallPct: []int{0, 0, 20, 50, 70}[r.Intn(5)], Width: 1 + r.Intn(3)}
}

func genPMCScenario(r *vlib.PRNG, idx int) pmcScenario {
	n := 2 + r.Intn(3)
	c := pmcCfg{NumPMC: n, MemSize: 256 << 10, CtrlInBuf: []int{1, 1, 2, 8}[r.Intn(4)],
		CtrlStallPct: []int{0, 0, 30, 70}[r.Intn(4)], ContentSeed: r.Uint64()}
	if r.Chance(1, 4) {
		c.CtrlStallBurst = []int{200, 2000}[r.Intn(2)]
	}
	for i := 0; i < n; i++ {
		c.Mems = append(c.Mems, genMem(r))
	}
	s := pmcScenario{Name: fmt.Sprintf("p%d", idx), Cfg: c}
	if idx%3 == 1 {
		s.Name = fmt.Sprintf("px%d", idx)
		genCrossOps(r, &s)
		return s
	}
	big := idx%6 == 0 // scenarios that include large pages
	pick := func() uint64 {
		var ps uint64
		switch r.Intn(4) {
		case 0:
			ps = uint64(1+r.Intn(16)) * chunk
		case 1:
			ps = uint64(1+r.Intn(1024)) * chunk
		default:
			ps = pageSizes[r.Intn(len(pageSizes))]
		}
		if !big && ps > 8192 {
			ps = []uint64{4096, 8192, 64 * uint64(1+r.Intn(128))}[r.Intn(3)]
		}
		return ps
	}
	off := func(ps uint64) uint64 {
		room := c.MemSize - ps
		if r.Chance(2, 3) && ps&(ps-1) == 0 { // page aligned, as the driver allocates
			return uint64(r.Intn(int(room/ps)+1)) * ps
		}
		return uint64(r.Intn(int(room/chunk)+1)) * chunk
	}
	nPhases := 1 + r.Intn(4)
	var prevPhase []int
	for p := 0; p < nPhases; p++ {
		type lane struct{ dst, src int }
		var lanes []lane
		perm := r.Perm(n)
		lanes = append(lanes, lane{perm[0], perm[1]})
		if n >= 4 && r.Chance(3, 5) {
			lanes = append(lanes, lane{perm[2], perm[3]})
		}
		var thisPhase []int
		// interleave the lanes' bursts in index order
		bursts := make([]int, len(lanes))
		last := make([]int, len(lanes))
		for l := range lanes {
			bursts[l] = 1 + r.Intn(4)
			last[l] = -1
		}
		for k := 0; k < 4; k++ {
			for l, ln := range lanes {
				if k >= bursts[l] {
					continue
				}
				ps := pick()
				src := ln.src
				if len(lanes) == 1 && r.Chance(1, 3) { // another source for a queued request
					for {
						src = r.Intn(n)
						if src != ln.dst {
							break
						}
					}
				}
				o := pmcOp{Dst: ln.dst, Src: src, PageSize: ps, ReadOff: off(ps), WriteOff: off(ps),
					After: append([]int(nil), prevPhase...)}
				switch r.Intn(4) {
				case 0: // strictly after the previous one of this lane (the driver's protocol)
					if last[l] >= 0 {
						o.After = append(o.After, last[l])
					}
					o.Gap = r.Intn(4)
				case 1:
					o.Gap = r.Intn(30)
				default: // back-to-back: arrives while the previous one is in progress
					o.Gap = 0
				}
				s.Ops = append(s.Ops, o)
				last[l] = len(s.Ops) - 1
				thisPhase = append(thisPhase, last[l])
			}
		}
		prevPhase = thisPhase
	}
	return s
}

// genCrossOps fills s with migrations of different controllers that overlap in
// time with the roles crossed: a controller is the destination of its own
// request (one at a time, its own gate) while it serves the pulls of another
// controller's request. Per phase every controller pulls from one fixed source
// and no source is pulled by two controllers (opposite directions, rings,
// chains). Source pages lie in the lower half of a memory, destination pages in
// the upper half, so no request reads what another one writes.
func genCrossOps(r *vlib.PRNG, s *pmcScenario) {
	c := s.Cfg
	n := c.NumPMC
	half := c.MemSize / 2
	sizes := []uint64{64, 128, 256, 256, 512, 1024, 1024, 4096, 4096, 4096, 8192, 16384}
	pick := func() uint64 {
		if r.Chance(1, 4) {
			return uint64(1+r.Intn(64)) * chunk
		}
		return sizes[r.Intn(len(sizes))]
	}
	off := func(ps uint64) uint64 { return uint64(r.Intn(int((half-ps)/chunk)+1)) * chunk }
	var prevPhase []int
	for p, nPhases := 0, 1+r.Intn(3); p < nPhases; p++ {
		// who pulls from whom: an injective partial map without fixed points
		srcOf := make([]int, n)
		for i := range srcOf {
			srcOf[i] = -1
		}
		perm := r.Perm(n)
		switch shape := r.Intn(3); {
		case shape == 0 || n == 2: // opposite directions between one or two pairs
			srcOf[perm[0]], srcOf[perm[1]] = perm[1], perm[0]
			if n == 4 && r.Bool() {
				srcOf[perm[2]], srcOf[perm[3]] = perm[3], perm[2]
			}
		case shape == 1: // ring over all controllers
			for i := 0; i < n; i++ {
				srcOf[perm[i]] = perm[(i+1)%n]
			}
		default: // chain: the first only serves, the last only pulls
			for i := 1; i < n; i++ {
				srcOf[perm[i]] = perm[i-1]
			}
		}
		var thisPhase []int
		last := make([]int, n)
		for i := range last {
			last[i] = -1
		}
		for k := 0; k < 3; k++ {
			for d := 0; d < n; d++ {
				if srcOf[d] < 0 || (k > 0 && r.Chance(1, 2)) {
					continue
				}
				ps := pick()
				o := pmcOp{Dst: d, Src: srcOf[d], PageSize: ps, ReadOff: off(ps), WriteOff: half + off(ps),
					After: append([]int(nil), prevPhase...)}
				if k == 0 {
					o.Gap = []int{0, 0, 7, 30, r.Intn(100), r.Intn(201)}[r.Intn(6)] // start delay
				} else {
					switch r.Intn(3) {
					case 0: // after this controller's previous request
						o.After = append(o.After, last[d])
						o.Gap = r.Intn(40)
					default: // queued behind it
						o.Gap = 0
					}
				}
				s.Ops = append(s.Ops, o)
				last[d] = len(s.Ops) - 1
				thisPhase = append(thisPhase, last[d])
			}
		}
		prevPhase = thisPhase
	}
}

func canonicalPMC() []pmcScenario {
	ideal := memCfg{Kind: "ideal", Latency: 100, TopBuf: 16, Width: 1}
	slow := memCfg{Kind: "fake", Latency: 10, Jitter: 8, TopBuf: 1, StallPct: 50, Width: 1}
	mk := func(name string, n int, m memCfg, stall int, ops []pmcOp) pmcScenario {
		c := pmcCfg{NumPMC: n, MemSize: 256 << 10, CtrlInBuf: 1, CtrlStallPct: stall, ContentSeed: 12345}
		for i := 0; i < n; i++ {
			c.Mems = append(c.Mems, m)
		}
		return pmcScenario{Name: name, Cfg: c, Ops: ops}
	}
	var pairs []pmcOp
	for d := 0; d < 3; d++ {
		for s := 0; s < 3; s++ {
			if d != s {
				o := pmcOp{Dst: d, Src: s, PageSize: 4096, ReadOff: uint64(4096 * (1 + s)), WriteOff: uint64(4096 * (8 + d))}
				if len(pairs) > 0 {
					o.After = []int{len(pairs) - 1}
				}
				pairs = append(pairs, o)
			}
		}
	}
	var extra []pmcScenario
	if os.Getenv("C19_PMC_NO_TWO_PULLERS") == "" {
		// one source serving two pullers at once (crashed before the repair in /repo:
		// the controller kept one requester port for all the pulls it serves)
		extra = append(extra, mk("canon-one-source-two-pullers", 3, memCfg{Kind: "ideal", Latency: 10, TopBuf: 16, Width: 1}, 0, []pmcOp{
			{Dst: 1, Src: 0, PageSize: 4096, ReadOff: 0x1000, WriteOff: 0x21000},
			{Dst: 2, Src: 0, PageSize: 1024, ReadOff: 0x4000, WriteOff: 0x22000, Gap: 20}}))
	}
	return append(extra, []pmcScenario{
		mk("canon-one-4k-page-ideal", 2, ideal, 0, []pmcOp{{Dst: 0, Src: 1, PageSize: 4096, ReadOff: 0x1000, WriteOff: 0x3000}}),
		mk("canon-one-chunk", 2, ideal, 0, []pmcOp{{Dst: 1, Src: 0, PageSize: 64, ReadOff: 0x40, WriteOff: 0x80}}),
		mk("canon-64k-page-slow-memory", 2, slow, 50, []pmcOp{{Dst: 0, Src: 1, PageSize: 65536, ReadOff: 0x10000, WriteOff: 0x20000}}),
		mk("canon-all-ordered-pairs-of-3", 3, ideal, 0, pairs),
		mk("canon-three-back-to-back-same-destination", 3, slow, 30, []pmcOp{
			{Dst: 0, Src: 1, PageSize: 4096, ReadOff: 0, WriteOff: 0},
			{Dst: 0, Src: 2, PageSize: 1024, ReadOff: 0x2000, WriteOff: 0x800},
			{Dst: 0, Src: 1, PageSize: 8192, ReadOff: 0x4000, WriteOff: 0x4000}}),
		func() pmcScenario {
			s := mk("canon-four-tiny-back-to-back-deaf-control-peer", 2, memCfg{Kind: "ideal", Latency: 1, TopBuf: 16, Width: 1}, 0, []pmcOp{
				{Dst: 0, Src: 1, PageSize: 64, ReadOff: 0x000, WriteOff: 0x1000},
				{Dst: 0, Src: 1, PageSize: 128, ReadOff: 0x100, WriteOff: 0x1100},
				{Dst: 0, Src: 1, PageSize: 64, ReadOff: 0x200, WriteOff: 0x1200},
				{Dst: 0, Src: 1, PageSize: 192, ReadOff: 0x300, WriteOff: 0x1300}})
			s.Cfg.CtrlStallBurst = 3000
			return s
		}(),
		// roles crossed: PMC1 pulls a 4 KiB page from PMC0; 30 cycles later PMC0 pulls a
		// 256-byte page from PMC1 and retires it while PMC1's chunks still stream through PMC0
		mk("canon-opposite-directions-4k-and-256-delay-30", 2, memCfg{Kind: "ideal", Latency: 10, TopBuf: 16, Width: 1}, 0, []pmcOp{
			{Dst: 1, Src: 0, PageSize: 4096, ReadOff: 0x1000, WriteOff: 0x21000},
			{Dst: 0, Src: 1, PageSize: 256, ReadOff: 0x3000, WriteOff: 0x23000, Gap: 30}}),
		mk("canon-opposite-directions-4k-and-64-delay-7", 2, memCfg{Kind: "ideal", Latency: 1, TopBuf: 16, Width: 1}, 0, []pmcOp{
			{Dst: 1, Src: 0, PageSize: 4096, ReadOff: 0x1000, WriteOff: 0x21000},
			{Dst: 0, Src: 1, PageSize: 64, ReadOff: 0x3000, WriteOff: 0x23000, Gap: 7}}),
		mk("canon-opposite-directions-1k-first-then-4k-latency-40", 2, memCfg{Kind: "ideal", Latency: 40, TopBuf: 16, Width: 1}, 30, []pmcOp{
			{Dst: 0, Src: 1, PageSize: 1024, ReadOff: 0x3000, WriteOff: 0x23000},
			{Dst: 1, Src: 0, PageSize: 4096, ReadOff: 0x1000, WriteOff: 0x21000},
			{Dst: 0, Src: 1, PageSize: 128, ReadOff: 0x3400, WriteOff: 0x23400}}),
		mk("canon-ring-of-three-mixed-sizes", 3, slow, 0, []pmcOp{
			{Dst: 0, Src: 1, PageSize: 8192, ReadOff: 0x0000, WriteOff: 0x20000},
			{Dst: 1, Src: 2, PageSize: 256, ReadOff: 0x2000, WriteOff: 0x22000, Gap: 12},
			{Dst: 2, Src: 0, PageSize: 1024, ReadOff: 0x4000, WriteOff: 0x24000, Gap: 40},
			{Dst: 1, Src: 2, PageSize: 64, ReadOff: 0x2400, WriteOff: 0x22400},
			{Dst: 2, Src: 0, PageSize: 4096, ReadOff: 0x5000, WriteOff: 0x25000}}),
		mk("canon-disjoint-pairs-concurrently", 4, slow, 0, []pmcOp{
			{Dst: 0, Src: 1, PageSize: 4096, ReadOff: 0x1000, WriteOff: 0x2000},
			{Dst: 2, Src: 3, PageSize: 4096, ReadOff: 0x3000, WriteOff: 0x1000},
			{Dst: 0, Src: 1, PageSize: 192, ReadOff: 0x40, WriteOff: 0x2040},
			{Dst: 2, Src: 3, PageSize: 4096, ReadOff: 0, WriteOff: 0x8000}}),
	}...)
}

// ---------------------------------------------------------------------------
// fake memory: random latency (reorders replies), small buffers, stalls; a
// write takes effect when its WriteDoneRsp is sent (as in akita's ideal
// memory controller), a read samples the storage when its reply is sent.

type fmPending struct {
	due int64
	req mem.AccessReq
}

type fakeMem struct {
	*simkit.Agent
	Top       sim.Port
	st        *mem.Storage
	cfg       memCfg
	rng       *vlib.PRNG
	pending   []fmPending
	Stalls    int64
	SendFails int64
	Reordered int64
	served    int64
}

func newFakeMem(name string, engine sim.Engine, freq sim.Freq, cfg memCfg, st *mem.Storage, rng *vlib.PRNG) *fakeMem {
	m := &fakeMem{st: st, cfg: cfg, rng: rng}
	m.Agent = simkit.NewAgent(name, engine, freq)
	m.Top = m.Agent.NewPort("Top", cfg.TopBuf, cfg.TopBuf)
	m.Agent.TickFn = m.tick
	return m
}

func (m *fakeMem) tick(a *simkit.Agent) bool {
	now := a.NowCycle()
	progress := false
	for w := 0; w < m.cfg.Width; w++ {
		var due []int
		for i, p := range m.pending {
			if p.due <= now {
				due = append(due, i)
			}
		}
		if len(due) == 0 {
			break
		}
		j := due[0]
		if m.cfg.Jitter > 0 {
			j = due[m.rng.Intn(len(due))]
		}
		p := m.pending[j]
		var rsp sim.Msg
		switch r := p.req.(type) {
		case *mem.ReadReq:
			d, err := m.st.Read(r.Address, r.AccessByteSize)
			if err != nil {
				panic(err)
			}
			rsp = mem.DataReadyRspBuilder{}.WithSrc(m.Top.AsRemote()).WithDst(r.Src).WithRspTo(r.ID).
				WithData(append([]byte(nil), d...)).Build()
		case *mem.WriteReq:
			rsp = mem.WriteDoneRspBuilder{}.WithSrc(m.Top.AsRemote()).WithDst(r.Src).WithRspTo(r.ID).Build()
		}
		if err := m.Top.Send(rsp); err != nil {
			m.SendFails++
			break
		}
		if r, ok := p.req.(*mem.WriteReq); ok {
			data := r.Data
			if r.DirtyMask != nil {
				old, _ := m.st.Read(r.Address, uint64(len(r.Data)))
				data = append([]byte(nil), old...)
				for k := range r.Data {
					if r.DirtyMask[k] {
						data[k] = r.Data[k]
					}
				}
			}
			if err := m.st.Write(r.Address, data); err != nil {
				panic(err)
			}
		}
		if j != 0 {
			m.Reordered++
		}
		m.pending = append(m.pending[:j], m.pending[j+1:]...)
		m.served++
		progress = true
	}
	if m.cfg.StallPct > 0 && m.rng.Intn(100) < m.cfg.StallPct {
		m.Stalls++
	} else {
		for w := 0; w < m.cfg.Width; w++ {
			msg := m.Top.RetrieveIncoming()
			if msg == nil {
				break
			}
			ar, ok := msg.(mem.AccessReq)
			if !ok {
				panic(fmt.Sprintf("fake memory got %T", msg))
			}
			d := now + int64(m.cfg.Latency)
			if m.cfg.Jitter > 0 {
				d += int64(m.rng.Intn(m.cfg.Jitter + 1))
			}
			m.pending = append(m.pending, fmPending{due: d, req: ar})
			progress = true
		}
	}
	if len(m.pending) > 0 || m.Top.PeekIncoming() != nil {
		progress = true
	}
	return progress
}

// ---------------------------------------------------------------------------
// run + check

type opRun struct {
	op        pmcOp
	idx       int
	req       *pmcpkg.PageMigrationReqToPMC
	readAddr  uint64
	writeAddr uint64
	readyAt   int64
	sent      bool
	sentCycle int64
	done      bool
	expected  []byte // source page at the moment the request was sent
	dstAtRsp  []byte // destination page at the moment the completion was sent
	rspSent   bool

	// trace accumulators
	pulls       []*pmcpkg.DataPullReq
	writes      []*mem.WriteReq
	writeDones  int
	arrivedBusy bool
}

func memBase(c pmcCfg, gpu int) uint64 { return uint64(gpu+1) * c.MemSize }

func fillContent(seed uint64, gpu int, size uint64) []byte {
	r := vlib.NewPRNG(seed).ForkN("content", gpu)
	b := make([]byte, size)
	r.Bytes(b)
	for i := range b {
		if b[i] == 0 {
			b[i] = byte(1 + (i+gpu)%251)
		}
	}
	return b
}

func runPMCScenario(rec vlib.Recorder, s pmcScenario) {
	rec.Eval()
	c := s.Cfg
	engine := sim.NewSerialEngine()
	freq := 1 * sim.GHz
	n := c.NumPMC
	log := simkit.NewLog(engine, freq)

	storages := make([]*mem.Storage, n)
	model := make([][]byte, n)
	pmcs := make([]*pmcpkg.PageMigrationController, n)
	fakes := make([]*fakeMem, n)
	finders := make([]mem.AddressToPortMapper, n)
	tops2 := make([]sim.Port, n)
	var misrouted []string
	var routedChecked int64
	remoteTable := &mem.BankedAddressPortMapper{BankSize: c.MemSize}
	remoteTable.LowModules = append(remoteTable.LowModules, sim.RemotePort("CPU"))
	remoteConn := simkit.Connect(engine, freq, "PCIe")
	cp := simkit.NewAgent("CP", engine, freq)
	cpPorts := make([]sim.Port, n)
	memRng := vlib.NewPRNG(c.ContentSeed).Fork("mem")
	for i := 0; i < n; i++ {
		storages[i] = mem.NewStorage(uint64(n+2) * c.MemSize)
		model[i] = fillContent(c.ContentSeed, i, c.MemSize)
		if err := storages[i].Write(memBase(c, i), model[i]); err != nil {
			panic(err)
		}
		var top sim.Port
		mc := c.Mems[i]
		if mc.Kind == "ideal" {
			m := idealmemcontroller.MakeBuilder().WithEngine(engine).WithFreq(freq).WithLatency(mc.Latency).
				WithTopBufSize(mc.TopBuf).WithWidth(mc.Width).WithStorage(storages[i]).Build(fmt.Sprintf("Mem%d", i))
			top = m.GetPortByName("Top")
			if mc.Split > 0 {
				// the GPU's memory is two controllers interleaved below the page size (same backing storage)
				m2 := idealmemcontroller.MakeBuilder().WithEngine(engine).WithFreq(freq).WithLatency(mc.Latency).
					WithTopBufSize(mc.TopBuf).WithWidth(mc.Width).WithStorage(storages[i]).Build(fmt.Sprintf("Mem%dB", i))
				il := mem.NewInterleavedAddressPortMapper(mc.Split)
				il.LowModules = []sim.RemotePort{top.AsRemote(), m2.GetPortByName("Top").AsRemote()}
				finders[i] = il
				tops2[i] = m2.GetPortByName("Top")
			}
		} else {
			fakes[i] = newFakeMem(fmt.Sprintf("Mem%d", i), engine, freq, mc, storages[i], memRng.ForkN("m", i))
			top = fakes[i].Top
		}
		if finders[i] == nil {
			finders[i] = &mem.SinglePortMapper{Port: top.AsRemote()}
		}
		pmcs[i] = pmcpkg.NewPageMigrationController(fmt.Sprintf("PMC%d", i), engine, finders[i], remoteTable)
		remoteTable.LowModules = append(remoteTable.LowModules, pmcs[i].GetPortByName("Remote").AsRemote())
		remoteConn.PlugIn(pmcs[i].GetPortByName("Remote"))
		if tops2[i] != nil {
			simkit.Connect(engine, freq, fmt.Sprintf("MemConn%d", i), pmcs[i].GetPortByName("LocalMem"), top, tops2[i])
		} else {
			simkit.Connect(engine, freq, fmt.Sprintf("MemConn%d", i), pmcs[i].GetPortByName("LocalMem"), top)
		}
		cpPorts[i] = cp.NewPort(fmt.Sprintf("ToPMC%d", i), c.CtrlInBuf, 8)
		simkit.Connect(engine, freq, fmt.Sprintf("CtrlConn%d", i), cpPorts[i], pmcs[i].GetPortByName("Control"))
		log.Attach(pmcs[i].GetPortByName("Remote"), fmt.Sprintf("%d.Remote", i))
		log.Attach(pmcs[i].GetPortByName("LocalMem"), fmt.Sprintf("%d.LocalMem", i))
		log.Attach(pmcs[i].GetPortByName("Control"), fmt.Sprintf("%d.Control", i))
	}

	runs := make([]*opRun, len(s.Ops))
	queue := make([][]*opRun, n) // per destination, in send order
	rspCount := make([]int, n)   // completions sent by PMC i so far (hook)
	gotCount := make([]int, n)   // completions taken by the control peer
	spurious := 0
	var totalChunks int64
	for i, o := range s.Ops {
		r := &opRun{op: o, idx: i, readyAt: -1,
			readAddr: memBase(c, o.Src) + o.ReadOff, writeAddr: memBase(c, o.Dst) + o.WriteOff}
		r.req = pmcpkg.PageMigrationReqToPMCBuilder{}.
			WithSrc(cpPorts[o.Dst].AsRemote()).
			WithDst(pmcs[o.Dst].GetPortByName("Control").AsRemote()).
			WithPageSize(o.PageSize).
			WithPMCPortOfRemoteGPU(pmcs[o.Src].GetPortByName("Remote").AsRemote()).
			WithReadFrom(r.readAddr).WithWriteTo(r.writeAddr).Build()
		runs[i] = r
		totalChunks += int64(o.PageSize / chunk)
	}

	// snapshot of the destination page at the instant the completion is sent
	log.OnEvent = func(e simkit.Event) {
		if e.Kind != simkit.KSend {
			return
		}
		if ar, ok := e.Msg.(mem.AccessReq); ok && strings.HasSuffix(e.Port, ".LocalMem") {
			var i int
			fmt.Sscanf(e.Port, "%d.LocalMem", &i)
			if tops2[i] != nil {
				routedChecked++
				if want := finders[i].Find(ar.GetAddress()); ar.Meta().Dst != want && len(misrouted) < 3 {
					misrouted = append(misrouted, fmt.Sprintf("PMC%d sent %T of address 0x%x to %s; the controller owning that address (interleave %d) is %s",
						i, e.Msg, ar.GetAddress(), ar.Meta().Dst, c.Mems[i].Split, want))
				}
			}
		}
		if _, ok := e.Msg.(*pmcpkg.PageMigrationRspFromPMC); !ok {
			return
		}
		var i int
		fmt.Sscanf(e.Port, "%d.Control", &i)
		k := rspCount[i]
		rspCount[i]++
		if k < len(queue[i]) {
			r := queue[i][k]
			d, err := storages[i].Read(r.writeAddr, r.op.PageSize)
			if err == nil {
				r.dstAtRsp = append([]byte(nil), d...)
			}
			r.rspSent = true
		}
	}

	stall := vlib.NewPRNG(c.ContentSeed).Fork("ctrl-stall")
	var ctrlStalls int64
	cp.TickFn = func(a *simkit.Agent) bool {
		now := a.NowCycle()
		progress := false
		for i := 0; i < n; i++ {
			if (c.CtrlStallPct > 0 && stall.Intn(100) < c.CtrlStallPct) ||
				(c.CtrlStallBurst > 0 && (now/int64(c.CtrlStallBurst))%2 == 0) {
				if cpPorts[i].PeekIncoming() != nil {
					ctrlStalls++
					progress = true
				}
				continue
			}
			for {
				m := cpPorts[i].RetrieveIncoming()
				if m == nil {
					break
				}
				progress = true
				if _, ok := m.(*pmcpkg.PageMigrationRspFromPMC); !ok || gotCount[i] >= len(queue[i]) {
					spurious++
					continue
				}
				queue[i][gotCount[i]].done = true
				gotCount[i]++
			}
		}
		blocked := make([]bool, n)
		for _, r := range runs {
			if r.sent || blocked[r.op.Dst] {
				continue
			}
			ok := true
			for _, d := range r.op.After {
				if !runs[d].done {
					ok = false
					break
				}
			}
			if !ok {
				blocked[r.op.Dst] = true
				continue
			}
			if r.readyAt < 0 {
				r.readyAt = now
			}
			if now < r.readyAt+int64(r.op.Gap) {
				blocked[r.op.Dst] = true
				progress = true
				continue
			}
			snap, err := storages[r.op.Src].Read(r.readAddr, r.op.PageSize)
			if err != nil {
				panic(err)
			}
			if cpPorts[r.op.Dst].Send(r.req) != nil {
				blocked[r.op.Dst] = true
				continue
			}
			r.expected = append([]byte(nil), snap...)
			r.sent, r.sentCycle = true, now
			queue[r.op.Dst] = append(queue[r.op.Dst], r)
			progress = true
		}
		return progress
	}
	cp.TickLater()

	limit := totalChunks*6000 + int64(len(s.Ops))*300000 + 200000
	nEv, livelock, pv := simkit.RunBounded(engine, limit)
	rec.Count("pmc_engine_events", nEv)

	wit := func(extra map[string]any) map[string]any {
		m := map[string]any{"part": "pmc", "scenario": s}
		for k, v := range extra {
			m[k] = v
		}
		return m
	}
	seen := map[string]bool{}
	viol := func(key, what string, extra map[string]any) {
		if seen[key] {
			return
		}
		seen[key] = true
		rec.Violation("C19|pmc|"+key, s.Name+": "+what, wit(extra))
	}
	rec.Count("pmc_memory_requests_checked_against_interleaved_controllers", routedChecked)
	for _, m := range misrouted {
		viol("memory-request-sent-to-a-controller-that-does-not-own-the-address", m, nil)
	}
	if pv != nil {
		key := "crash"
		for a, x := range s.Ops {
			for _, y := range s.Ops[a+1:] {
				if x.Src == y.Src && x.Dst != y.Dst {
					// only generated when asked for (C19_PMC_TWO_PULLERS): the controller keeps one
					// requester port for all the pulls it serves
					key = "crash|one-source-serving-two-pullers"
				}
			}
		}
		viol(key, fmt.Sprintf("panic while migrating: %v", pv), nil)
		return
	}
	if livelock {
		viol("livelock", "engine exceeded the event bound", nil)
		return
	}

	// ---- offline trace checker ----
	type pullInfo struct {
		r    *opRun
		req  *pmcpkg.DataPullReq
		read int
		rsp  int
		got  int
	}
	pullByID := map[string]*pullInfo{}
	cur := make([]int, n)         // index into queue[i] of the op in service at PMC i
	busy := make([]bool, n)       // between retrieval of a request and its completion
	arrived := make([]int, n)     // requests delivered to PMC i's control port
	concurrent := 0               // requests taken while another PMC was migrating
	crossed := 0                  // ... while the two were each other's source / destination
	pullsOpenAt := make([]int, n) // pulls delivered to PMC i and not yet answered by it
	complWhileServing := 0        // completions sent by a PMC that had a delivered pull unanswered
	remoteName := make([]sim.RemotePort, n)
	for i := 0; i < n; i++ {
		remoteName[i] = pmcs[i].GetPortByName("Remote").AsRemote()
	}
	curOp := func(i int) *opRun {
		if cur[i] < len(queue[i]) {
			return queue[i][cur[i]]
		}
		return nil
	}
	for _, e := range log.Snapshot() {
		var i int
		var pn string
		fmt.Sscanf(e.Port, "%d.%s", &i, &pn)
		switch pn {
		case "Control":
			switch m := e.Msg.(type) {
			case *pmcpkg.PageMigrationReqToPMC:
				if e.Kind == simkit.KRecv {
					if busy[i] && arrived[i] < len(queue[i]) {
						queue[i][arrived[i]].arrivedBusy = true
					}
					arrived[i]++
				}
				if e.Kind == simkit.KRetrieve {
					if busy[i] {
						viol("request-taken-while-busy", fmt.Sprintf("PMC%d took a new request before completing the previous one", i), nil)
					}
					for j := 0; j < n; j++ {
						if j != i && busy[j] {
							concurrent++
							if rj, ri := curOp(j), curOp(i); rj != nil && ri != nil && (rj.op.Src == i || ri.op.Src == j) {
								crossed++
							}
						}
					}
					busy[i] = true
				}
			case *pmcpkg.PageMigrationRspFromPMC:
				if e.Kind != simkit.KSend {
					continue
				}
				if pullsOpenAt[i] > 0 {
					complWhileServing++
				}
				r := curOp(i)
				if r == nil {
					viol("completion-without-request", fmt.Sprintf("PMC%d sent a completion with no request outstanding", i), nil)
					continue
				}
				if m.Dst != r.req.Src {
					viol("completion-to-wrong-port", fmt.Sprintf("op %d: completion sent to %s, request came from %s", r.idx, m.Dst, r.req.Src), map[string]any{"op": r.idx})
				}
				nCh := int(r.op.PageSize / chunk)
				if r.writeDones < nCh {
					viol("completion-before-last-write-done",
						fmt.Sprintf("op %d: completion sent after %d of %d local writes were acknowledged", r.idx, r.writeDones, nCh), map[string]any{"op": r.idx})
				}
				busy[i] = false
				cur[i]++
			}
		case "Remote":
			switch m := e.Msg.(type) {
			case *pmcpkg.DataPullReq:
				if e.Kind == simkit.KRecv { // source side: a pull to serve
					pullsOpenAt[i]++
				}
				if e.Kind == simkit.KSend { // destination side
					r := curOp(i)
					if r == nil || !busy[i] {
						viol("pull-without-request", fmt.Sprintf("PMC%d sent a DataPullReq with no migration in service", i), nil)
						continue
					}
					if _, dup := pullByID[m.ID]; dup {
						viol("pull-id-reused", fmt.Sprintf("op %d: pull id %s used twice", r.idx, m.ID), nil)
						continue
					}
					if m.Dst != remoteName[r.op.Src] {
						viol("pull-to-wrong-pmc", fmt.Sprintf("op %d: pull sent to %s, source is %s", r.idx, m.Dst, remoteName[r.op.Src]), map[string]any{"op": r.idx})
					}
					pullByID[m.ID] = &pullInfo{r: r, req: m}
					r.pulls = append(r.pulls, m)
				}
			case *pmcpkg.DataPullRsp:
				p := pullByID[m.ID]
				if p == nil {
					viol("pull-rsp-unknown-id", fmt.Sprintf("PMC%d %s a DataPullRsp whose id matches no pull", i, e.Kind), nil)
					continue
				}
				if e.Kind == simkit.KSend { // source side
					p.rsp++
					pullsOpenAt[i]--
					if i != p.r.op.Src {
						viol("pull-rsp-from-wrong-pmc", fmt.Sprintf("op %d: PMC%d answered a pull addressed to PMC%d", p.r.idx, i, p.r.op.Src), nil)
					}
					if m.Dst != remoteName[p.r.op.Dst] {
						viol("pull-rsp-to-wrong-pmc", fmt.Sprintf("op %d: pull answer sent to %s instead of %s", p.r.idx, m.Dst, remoteName[p.r.op.Dst]), map[string]any{"op": p.r.idx})
					}
					off := p.req.ToReadFromPhyAddress - p.r.readAddr
					if off+chunk <= uint64(len(p.r.expected)) && !bytes.Equal(m.Data, p.r.expected[off:off+chunk]) {
						viol("pull-rsp-wrong-data", fmt.Sprintf("op %d: chunk at source offset %d answered with other bytes than the source page held at request time", p.r.idx, off), map[string]any{"op": p.r.idx, "offset": off})
					}
				}
				if e.Kind == simkit.KRecv {
					p.got++
				}
			}
		case "LocalMem":
			switch m := e.Msg.(type) {
			case *mem.ReadReq:
				if e.Kind != simkit.KSend {
					continue
				}
				p := pullByID[m.ID]
				if p == nil {
					viol("source-read-unknown-id", fmt.Sprintf("PMC%d read its memory for an id that matches no pull", i), nil)
					continue
				}
				p.read++
				if i != p.r.op.Src || m.Address != p.req.ToReadFromPhyAddress || m.AccessByteSize != p.req.DataTransferSize {
					viol("source-read-mismatch", fmt.Sprintf("op %d: PMC%d read [0x%x,+%d) for a pull of [0x%x,+%d) at PMC%d",
						p.r.idx, i, m.Address, m.AccessByteSize, p.req.ToReadFromPhyAddress, p.req.DataTransferSize, p.r.op.Src), map[string]any{"op": p.r.idx})
				}
			case *mem.WriteReq:
				if e.Kind != simkit.KSend {
					continue
				}
				r := curOp(i)
				if r == nil || !busy[i] {
					viol("write-without-request", fmt.Sprintf("PMC%d wrote its memory at 0x%x with no migration in service", i, m.Address), nil)
					continue
				}
				r.writes = append(r.writes, m)
			case *mem.WriteDoneRsp:
				if e.Kind == simkit.KRecv {
					if r := curOp(i); r != nil {
						r.writeDones++
					}
				}
			}
		}
	}

	migrated := 0
	for _, r := range runs {
		if !r.sent {
			continue
		}
		nCh := int(r.op.PageSize / chunk)
		ex := map[string]any{"op": r.idx}
		// pulls cover the page exactly once
		cover := map[uint64]int{}
		bad := false
		for _, p := range r.pulls {
			cover[p.ToReadFromPhyAddress]++
			if p.DataTransferSize != chunk {
				bad = true
			}
		}
		for k := 0; k < nCh; k++ {
			if cover[r.readAddr+uint64(k*chunk)] != 1 {
				bad = true
			}
		}
		if bad || len(r.pulls) != nCh {
			viol("chunk-pulls-not-exact-cover", fmt.Sprintf("op %d: %d pulls for a page of %d chunks (each chunk of the source page must be pulled exactly once)", r.idx, len(r.pulls), nCh), ex)
		}
		for _, p := range r.pulls {
			pi := pullByID[p.ID]
			if r.rspSent && (pi.read != 1 || pi.rsp != 1 || pi.got != 1) {
				viol("pull-not-served-once", fmt.Sprintf("op %d: pull of 0x%x: %d source reads, %d answers sent, %d answers delivered", r.idx, p.ToReadFromPhyAddress, pi.read, pi.rsp, pi.got), ex)
				break
			}
		}
		// local writes cover the destination page exactly once with the right bytes
		wcover := map[uint64]int{}
		for _, w := range r.writes {
			wcover[w.Address]++
			off := w.Address - r.writeAddr
			if w.Address < r.writeAddr || off+uint64(len(w.Data)) > r.op.PageSize || off%chunk != 0 || len(w.Data) != chunk {
				viol("local-write-outside-page", fmt.Sprintf("op %d: local write [0x%x,+%d) is not a chunk of the destination page [0x%x,+%d)", r.idx, w.Address, len(w.Data), r.writeAddr, r.op.PageSize), ex)
				continue
			}
			if w.DirtyMask != nil {
				for _, b := range w.DirtyMask {
					if !b {
						viol("local-write-masked", fmt.Sprintf("op %d: local write carries a partial dirty mask", r.idx), ex)
						break
					}
				}
			}
			if !bytes.Equal(w.Data, r.expected[off:off+chunk]) {
				viol("local-write-wrong-data", fmt.Sprintf("op %d: chunk written at destination offset %d differs from the source page's bytes at that offset", r.idx, off), map[string]any{"op": r.idx, "offset": off})
			}
		}
		if r.rspSent {
			wbad := len(r.writes) != nCh
			for k := 0; k < nCh; k++ {
				if wcover[r.writeAddr+uint64(k*chunk)] != 1 {
					wbad = true
				}
			}
			if wbad {
				viol("local-writes-not-exact-cover", fmt.Sprintf("op %d: %d local writes for %d chunks", r.idx, len(r.writes), nCh), ex)
			}
		}
		if !r.rspSent {
			for _, p := range r.pulls {
				if pi := pullByID[p.ID]; pi.read == 1 && pi.rsp == 0 {
					viol("pull-read-at-source-but-never-answered", fmt.Sprintf("op %d (PMC%d<-PMC%d): PMC%d read chunk 0x%x from its memory for this pull but never sent the DataPullRsp (engine idle)",
						r.idx, r.op.Dst, r.op.Src, r.op.Src, p.ToReadFromPhyAddress), ex)
					break
				}
			}
		}
		if !r.rspSent || !r.done {
			viol("no-completion", fmt.Sprintf("op %d (PMC%d<-PMC%d, %d bytes): engine went idle, completion sent=%v received=%v; %d/%d pulls, %d/%d writes, %d write acks",
				r.idx, r.op.Dst, r.op.Src, r.op.PageSize, r.rspSent, r.done, len(r.pulls), nCh, len(r.writes), nCh, r.writeDones), ex)
			continue
		}
		final, _ := storages[r.op.Dst].Read(r.writeAddr, r.op.PageSize)
		_ = final
		if !bytes.Equal(r.dstAtRsp, r.expected) {
			k := firstDiff(r.dstAtRsp, r.expected)
			viol("dst-page-differs-at-completion", fmt.Sprintf("op %d: when the completion was sent, destination byte %d was 0x%02x, source page had 0x%02x at request time",
				r.idx, k, at(r.dstAtRsp, k), at(r.expected, k)), map[string]any{"op": r.idx, "byte": k})
		}
		migrated++
		rec.Count("pmc_chunks_checked", int64(nCh))
		rec.Distinct("pmc_page_size", fmt.Sprint(r.op.PageSize))
		rec.Distinct("pmc_pair", fmt.Sprintf("%d<-%d of %d", r.op.Dst, r.op.Src, n))
		if r.op.PageSize == 65536 {
			rec.Count("pmc_64k_pages", 1)
		}
		if r.arrivedBusy {
			rec.Count("pmc_requests_arrived_during_migration", 1)
		}
	}
	for i := 0; i < n; i++ {
		if rspCount[i] != len(queue[i]) || gotCount[i] != len(queue[i]) {
			viol("completions!=requests", fmt.Sprintf("PMC%d: %d requests, %d completions sent, %d received", i, len(queue[i]), rspCount[i], gotCount[i]), nil)
		}
	}
	if spurious > 0 {
		viol("spurious-completion", fmt.Sprintf("%d completions beyond the requests issued", spurious), nil)
	}
	for _, r := range runs {
		if !r.sent {
			viol("request-never-issued", fmt.Sprintf("op %d could not be issued (its predecessors never completed)", r.idx), nil)
			break
		}
	}

	// model: apply the migrations in completion order, everything else unchanged
	order := make([]*opRun, 0, len(runs))
	for _, r := range runs {
		if r.rspSent {
			order = append(order, r)
		}
	}
	// per destination the service order is the send order; different
	// destinations are different memories, so any global order that respects
	// the per-destination order gives the same model.
	sort.SliceStable(order, func(a, b int) bool { return order[a].idx < order[b].idx })
	for _, r := range order {
		copy(model[r.op.Dst][r.op.WriteOff:], r.expected)
	}
	for i := 0; i < n; i++ {
		got, err := storages[i].Read(memBase(c, i), c.MemSize)
		if err != nil {
			panic(err)
		}
		for _, r := range runs { // a migration that never completed is reported as such; its page is undetermined
			if r.sent && !r.rspSent && r.op.Dst == i {
				copy(model[i][r.op.WriteOff:r.op.WriteOff+r.op.PageSize], got[r.op.WriteOff:r.op.WriteOff+r.op.PageSize])
			}
		}
		if !bytes.Equal(got, model[i]) {
			k := firstDiff(got, model[i])
			key, what := "other-bytes-changed", "a byte outside every migrated destination page changed"
			for _, r := range order {
				if r.op.Dst == i && uint64(k) >= r.op.WriteOff && uint64(k) < r.op.WriteOff+r.op.PageSize {
					key, what = "dst-page-differs-at-end", fmt.Sprintf("inside the destination page of op %d", r.idx)
				}
			}
			viol(key, fmt.Sprintf("memory %d offset 0x%x is 0x%02x, expected 0x%02x (%s)", i, k, got[k], model[i][k], what), map[string]any{"memory": i, "offset": k})
		}
		rec.Count("pmc_bytes_compared", int64(c.MemSize))
	}

	rec.Count("pmc_migrations_checked", int64(migrated))
	rec.Count("pmc_ctrl_stalls", ctrlStalls)
	rec.Count("pmc_concurrent_disjoint_migrations", int64(concurrent))
	rec.Count("pmc_concurrent_migrations_roles_crossed", int64(crossed))
	rec.Count("pmc_completions_sent_while_serving_a_pull", int64(complWhileServing))
	if complWhileServing > 0 {
		rec.Count("pmc_scenarios_completion_sent_while_serving_a_pull", 1)
	}
	for i := 0; i < n; i++ {
		if fakes[i] != nil {
			rec.Count("pmc_mem_stalls", fakes[i].Stalls)
			rec.Count("pmc_mem_send_backpressure", fakes[i].SendFails)
			rec.Count("pmc_mem_reordered_replies", fakes[i].Reordered)
		}
	}
	rec.Distinct("pmc_config", fmt.Sprintf("%+v", c.Mems)+fmt.Sprint(c.NumPMC, c.CtrlInBuf, c.CtrlStallPct))
	conc := false
	for _, r := range runs {
		if r.arrivedBusy {
			conc = true
		}
	}
	if len(seen) == 0 && migrated >= 2 && conc {
		rec.Nontrivial("pmc:" + s.Name)
	}
	rec.Sample(map[string]any{"part": "pmc", "name": s.Name, "pmcs": n, "mems": c.Mems, "ops": s.Ops[:min(3, len(s.Ops))]})
}

func firstDiff(a, b []byte) int {
	for i := 0; i < len(a) && i < len(b); i++ {
		if a[i] != b[i] {
			return i
		}
	}
	if len(a) != len(b) {
		return min(len(a), len(b))
	}
	return -1
}

func at(b []byte, i int) byte {
	if i >= 0 && i < len(b) {
		return b[i]
	}
	return 0
}
