package main

// Driver part of C19: a real driver.Driver with a real vm.PageTable, fake
// command processors registered through RegisterGPU that answer the
// migration handshake, and a fake MMU that sends PageMigrationReqToDriver.
// The driver's engine is run directly (Driver.Run is never called, so no
// driver goroutine exists). Judged offline from the trace of the driver's two
// ports plus page-table snapshots taken when the reply to the MMU is sent.

import (
	"fmt"
	"sort"
	"strings"
	"sync"

	"github.com/sarchlab/akita/v4/mem/mem"
	"github.com/sarchlab/akita/v4/mem/vm"
	"github.com/sarchlab/akita/v4/sim"
	"github.com/sarchlab/mgpusim/v4/amd/driver"
	"github.com/sarchlab/mgpusim/v4/amd/protocol"

	"verifharness/vlib"
	"verifharness/vlib/simkit"
)

type drvCfg struct {
	NumGPU      int    `json:"num_gpu"`
	Log2Page    uint64 `json:"log2_page"`
	PagesPerGPU int    `json:"pages_per_gpu"`
	NumProc     int    `json:"num_proc"`
	Unified     bool   `json:"unified_then_remap"` // allocate unified, then Remap to the GPUs
	CPDelayMax  int    `json:"cp_delay_max"`
	MMUStallPct int    `json:"mmu_stall_pct"`
	// ShootdownDelay, if set, fixes the answer delay of GPU i's shootdown
	// acknowledgement (canonical reproducers); otherwise delays are random.
	ShootdownDelay []int  `json:"shootdown_delay,omitempty"`
	Seed           uint64 `json:"seed"`
}

type drvRequester struct {
	GPU   int   `json:"gpu"`   // 1-based
	Pages []int `json:"pages"` // page indices of the process, all hosted by Host
}

type drvReq struct {
	Proc       int            `json:"proc"`
	Host       int            `json:"host"` // 1-based GPU currently holding the pages
	Requesters []drvRequester `json:"requesters"`
	Accessing  []uint64       `json:"accessing"`
	Wait       bool           `json:"wait_for_previous_reply"`
	Gap        int            `json:"gap"`
}

type drvScenario struct {
	Name string   `json:"name"`
	Cfg  drvCfg   `json:"cfg"`
	Reqs []drvReq `json:"reqs"`
}

func genDrvScenario(r *vlib.PRNG, idx int) drvScenario {
	c := drvCfg{NumGPU: 2 + r.Intn(3), Log2Page: []uint64{12, 12, 13, 16}[r.Intn(4)], PagesPerGPU: 3 + r.Intn(4),
		NumProc: 1 + r.Intn(2), Unified: r.Bool(), CPDelayMax: []int{0, 3, 20, 100}[r.Intn(4)],
		MMUStallPct: []int{0, 0, 40}[r.Intn(3)], Seed: r.Uint64()}
	s := drvScenario{Name: fmt.Sprintf("d%d", idx), Cfg: c}
	host := make([][]int, c.NumProc)
	for p := range host {
		host[p] = make([]int, c.NumGPU*c.PagesPerGPU)
		for j := range host[p] {
			host[p][j] = 1 + j/c.PagesPerGPU
		}
	}
	nReq := 1 + r.Intn(6)
	mmuLike := idx%3 != 2 // one requester, one page: what akita's MMU produces
	for k := 0; k < nReq; k++ {
		p := r.Intn(c.NumProc)
		h := 1 + r.Intn(c.NumGPU)
		var onHost []int
		for j, g := range host[p] {
			if g == h {
				onHost = append(onHost, j)
			}
		}
		if len(onHost) == 0 {
			continue
		}
		q := drvReq{Proc: p, Host: h, Wait: r.Chance(1, 2), Gap: r.Intn(40)}
		nRq := 1
		if !mmuLike && c.NumGPU > 2 && r.Bool() {
			nRq = 2
		}
		perm := r.Perm(c.NumGPU)
		pp := r.Perm(len(onHost))
		used := 0
		for _, gi := range perm {
			g := gi + 1
			if g == h || len(q.Requesters) >= nRq || used >= len(onHost) {
				continue
			}
			np := 1
			if !mmuLike {
				np = 1 + r.Intn(3)
			}
			rq := drvRequester{GPU: g}
			for ; np > 0 && used < len(onHost); np-- {
				rq.Pages = append(rq.Pages, onHost[pp[used]])
				used++
			}
			q.Requesters = append(q.Requesters, rq)
		}
		// accessing GPUs: the host plus a random subset, no duplicates
		acc := []uint64{uint64(h)}
		for g := 1; g <= c.NumGPU; g++ {
			if g != h && r.Bool() {
				acc = append(acc, uint64(g))
			}
		}
		for _, i := range r.Perm(len(acc)) {
			q.Accessing = append(q.Accessing, acc[i])
		}
		for _, rq := range q.Requesters {
			for _, j := range rq.Pages {
				host[p][j] = rq.GPU
			}
		}
		s.Reqs = append(s.Reqs, q)
	}
	return s
}

func canonicalDrv() []drvScenario {
	return []drvScenario{
		// the two shootdown commands leave the driver one cycle apart; with answer
		// delays 1 and 0 both acknowledgements reach the driver in the same cycle
		{Name: "canon-two-shootdown-acks-in-one-cycle", Cfg: drvCfg{NumGPU: 2, Log2Page: 12, PagesPerGPU: 3, NumProc: 1, CPDelayMax: 0, Seed: 9, ShootdownDelay: []int{1, 0}},
			Reqs: []drvReq{{Proc: 0, Host: 1, Requesters: []drvRequester{{GPU: 2, Pages: []int{0}}}, Accessing: []uint64{1, 2}, Wait: true}}},
		{Name: "canon-one-page-gpu1-to-gpu2", Cfg: drvCfg{NumGPU: 2, Log2Page: 12, PagesPerGPU: 3, NumProc: 1, CPDelayMax: 3, Seed: 7},
			Reqs: []drvReq{{Proc: 0, Host: 1, Requesters: []drvRequester{{GPU: 2, Pages: []int{1}}}, Accessing: []uint64{1}, Wait: true}}},
		{Name: "canon-ping-pong-and-queued-request", Cfg: drvCfg{NumGPU: 3, Log2Page: 12, PagesPerGPU: 3, NumProc: 2, Unified: true, CPDelayMax: 20, Seed: 8},
			Reqs: []drvReq{
				{Proc: 0, Host: 1, Requesters: []drvRequester{{GPU: 2, Pages: []int{0}}}, Accessing: []uint64{1, 3}, Wait: true},
				{Proc: 0, Host: 2, Requesters: []drvRequester{{GPU: 1, Pages: []int{0}}}, Accessing: []uint64{2, 1}, Wait: false},
				{Proc: 1, Host: 3, Requesters: []drvRequester{{GPU: 1, Pages: []int{6, 7}}, {GPU: 2, Pages: []int{8}}}, Accessing: []uint64{3, 1, 2}, Wait: false}}},
	}
}

var driverInitMu sync.Mutex // driver.Init reads a package-level counter non-atomically

type pageKey struct {
	proc  int
	vaddr uint64
}

type drvWindow struct {
	req      *vm.PageMigrationReqToDriver
	desc     drvReq
	retrSeq  int
	recvSeq  int
	replies  []*vm.PageMigrationRspFromDriver
	replySeq int
	ptAtRsp  map[pageKey]vm.Page
	ev       []simkit.Event // driver GPU-port events of the window
}

func runDrvScenario(rec vlib.Recorder, s drvScenario) {
	rec.Eval()
	c := s.Cfg
	engine := sim.NewSerialEngine()
	freq := 1 * sim.GHz
	pageSize := uint64(1) << c.Log2Page
	pt := vm.NewPageTable(c.Log2Page)
	allocKindMu.RLock() // default allocator: see drvmem.go
	drv := driver.MakeBuilder().WithEngine(engine).WithFreq(freq).WithPageTable(pt).
		WithLog2PageSize(c.Log2Page).WithGlobalStorage(mem.NewStorage(1 << 20)).Build("Driver")
	drvGPU := drv.GetPortByName("GPU")
	drvMMU := drv.GetPortByName("MMU")

	rng := vlib.NewPRNG(c.Seed)
	type cpPending struct {
		due int64
		msg sim.Msg
	}
	cps := make([]*simkit.Agent, c.NumGPU)
	cpPort := make([]sim.Port, c.NumGPU)
	pmcPort := make([]sim.Port, c.NumGPU)
	cpPend := make([][]cpPending, c.NumGPU)
	pcie := simkit.Connect(engine, freq, "PCIe", drvGPU)
	unexpected := ""
	for i := 0; i < c.NumGPU; i++ {
		i := i
		cps[i] = simkit.NewAgent(fmt.Sprintf("CP%d", i+1), engine, freq)
		cpPort[i] = cps[i].NewPort("ToDriver", 64, 64)
		pmcPort[i] = cps[i].NewPort("PMCRemote", 1, 1)
		pcie.PlugIn(cpPort[i])
		cr := rng.ForkN("cp", i)
		cps[i].TickFn = func(a *simkit.Agent) bool {
			now := a.NowCycle()
			progress := false
			for {
				m := cpPort[i].RetrieveIncoming()
				if m == nil {
					break
				}
				progress = true
				var rsp sim.Msg
				fixed := -1
				switch m.(type) {
				case *protocol.RDMADrainCmdFromDriver:
					rsp = protocol.NewRDMADrainRspToDriver(cpPort[i], drvGPU)
				case *protocol.ShootDownCommand:
					rsp = protocol.NewShootdownCompleteRsp(cpPort[i], drvGPU)
					if i < len(c.ShootdownDelay) {
						fixed = c.ShootdownDelay[i]
					}
				case *protocol.PageMigrationReqToCP:
					rsp = protocol.NewPageMigrationRspToDriver(cpPort[i], drvGPU)
				case *protocol.GPURestartReq:
					rsp = protocol.NewGPURestartRsp(cpPort[i], drvGPU)
				case *protocol.RDMARestartCmdFromDriver:
					rsp = protocol.NewRDMARestartRspToDriver(cpPort[i], drvGPU)
				default:
					unexpected = fmt.Sprintf("CP%d received %T", i+1, m)
					continue
				}
				d := now
				if fixed >= 0 {
					d += int64(fixed)
				} else if c.CPDelayMax > 0 {
					d += int64(cr.Intn(c.CPDelayMax + 1))
				}
				cpPend[i] = append(cpPend[i], cpPending{due: d, msg: rsp})
			}
			rest := cpPend[i][:0]
			for _, p := range cpPend[i] {
				if p.due <= now && cpPort[i].Send(p.msg) == nil {
					progress = true
					continue
				}
				rest = append(rest, p)
			}
			cpPend[i] = rest
			return progress || len(cpPend[i]) > 0
		}
		drv.RegisterGPU(cpPort[i], driver.DeviceProperties{CUCount: 4, DRAMSize: 1024 * pageSize})
		drv.RemotePMCPorts = append(drv.RemotePMCPorts, pmcPort[i])
	}
	allocKindMu.RUnlock()

	// processes and pages
	driverInitMu.Lock()
	ctxs := make([]*driver.Context, c.NumProc)
	for p := range ctxs {
		ctxs[p] = drv.Init()
	}
	driverInitMu.Unlock()
	base := make([]uint64, c.NumProc)
	var keys []pageKey
	for p, ctx := range ctxs {
		total := uint64(c.NumGPU*c.PagesPerGPU) * pageSize
		if c.Unified {
			base[p] = uint64(drv.AllocateUnifiedMemory(ctx, total))
			for g := 1; g <= c.NumGPU; g++ {
				drv.Remap(ctx, base[p]+uint64((g-1)*c.PagesPerGPU)*pageSize, uint64(c.PagesPerGPU)*pageSize, g)
			}
		} else {
			for g := 1; g <= c.NumGPU; g++ {
				drv.SelectGPU(ctx, g)
				ptr := uint64(drv.AllocateMemory(ctx, uint64(c.PagesPerGPU)*pageSize))
				if g == 1 {
					base[p] = ptr
				}
			}
		}
		for j := 0; j < c.NumGPU*c.PagesPerGPU; j++ {
			keys = append(keys, pageKey{p, base[p] + uint64(j)*pageSize})
		}
	}
	snapshotPT := func() map[pageKey]vm.Page {
		m := map[pageKey]vm.Page{}
		for _, k := range keys {
			if pg, ok := pt.Find(ctxs[k.proc].VerifPID(), k.vaddr); ok {
				m[k] = pg
			}
		}
		return m
	}
	shadow := snapshotPT()
	wit := func(extra map[string]any) map[string]any {
		m := map[string]any{"part": "driver", "scenario": s}
		for k, v := range extra {
			m[k] = v
		}
		return m
	}
	seen := map[string]bool{}
	viol := func(key, what string, extra map[string]any) {
		if seen[key] {
			return
		}
		seen[key] = true
		rec.Violation("C19|driver|"+key, s.Name+": "+what, wit(extra))
	}
	for _, k := range keys {
		pg, ok := shadow[k]
		j := int((k.vaddr - base[k.proc]) / pageSize)
		if !ok || int(pg.DeviceID) != 1+j/c.PagesPerGPU {
			// the initial placement is C10's business; without it the scenario means nothing
			rec.Inconclusive(fmt.Sprintf("%s: initial placement of page %d of process %d is not as planned (device %d)", s.Name, j, k.proc, pg.DeviceID))
			return
		}
	}

	// fake MMU
	mmu := simkit.NewAgent("MMU", engine, freq)
	mmuPort := mmu.NewPort("Migration", 1, 1)
	simkit.Connect(engine, freq, "MMUConn", drvMMU, mmuPort)
	wins := make([]*drvWindow, len(s.Reqs))
	for i, q := range s.Reqs {
		m := vm.NewPageMigrationReqToDriver(mmuPort.AsRemote(), drvMMU.AsRemote())
		m.PID = ctxs[q.Proc].VerifPID()
		m.PageSize = pageSize
		m.CurrPageHostGPU = uint64(q.Host)
		m.CurrAccessingGPUs = append([]uint64(nil), q.Accessing...)
		m.RespondToTop = i%2 == 0
		m.MigrationInfo = &vm.PageMigrationInfo{GPUReqToVAddrMap: map[uint64][]uint64{}}
		for _, rq := range q.Requesters {
			for _, j := range rq.Pages {
				m.MigrationInfo.GPUReqToVAddrMap[uint64(rq.GPU)] =
					append(m.MigrationInfo.GPUReqToVAddrMap[uint64(rq.GPU)], base[q.Proc]+uint64(j)*pageSize)
			}
		}
		wins[i] = &drvWindow{req: m, desc: q, retrSeq: -1, recvSeq: 1 << 60, replySeq: -1}
	}
	next, gotReplies := 0, 0
	readyAt := int64(-1)
	var extraReplies int
	mstall := rng.Fork("mmu-stall")
	mmu.TickFn = func(a *simkit.Agent) bool {
		now := a.NowCycle()
		progress := false
		if c.MMUStallPct > 0 && mstall.Intn(100) < c.MMUStallPct {
			if mmuPort.PeekIncoming() != nil {
				progress = true
			}
		} else {
			for {
				m := mmuPort.RetrieveIncoming()
				if m == nil {
					break
				}
				progress = true
				if _, ok := m.(*vm.PageMigrationRspFromDriver); ok && gotReplies < next {
					gotReplies++
				} else {
					extraReplies++
				}
			}
		}
		for next < len(wins) {
			q := wins[next].desc
			if q.Wait && gotReplies < next {
				break
			}
			if readyAt < 0 {
				readyAt = now
			}
			if now < readyAt+int64(q.Gap) {
				progress = true
				break
			}
			if mmuPort.Send(wins[next].req) != nil {
				break
			}
			next++
			readyAt = -1
			progress = true
		}
		return progress
	}
	mmu.TickLater()

	log := simkit.NewLog(engine, freq)
	log.Attach(drvGPU, "GPU")
	log.Attach(drvMMU, "MMU")
	winOf := map[*vm.PageMigrationReqToDriver]*drvWindow{}
	for _, w := range wins {
		winOf[w.req] = w
	}
	var curWin *drvWindow
	var strayGPU, strayReply int
	log.OnEvent = func(e simkit.Event) {
		if e.Port == "MMU" {
			switch m := e.Msg.(type) {
			case *vm.PageMigrationReqToDriver:
				if e.Kind == simkit.KRecv && winOf[m] != nil {
					winOf[m].recvSeq = e.Seq
				}
				if e.Kind == simkit.KRetrieve {
					curWin = winOf[m]
					if curWin != nil {
						curWin.retrSeq = e.Seq
					}
				}
			case *vm.PageMigrationRspFromDriver:
				if e.Kind == simkit.KSend {
					orig, _ := m.OriginalReq.(*vm.PageMigrationReqToDriver)
					w := winOf[orig]
					if w == nil {
						strayReply++
						return
					}
					w.replies = append(w.replies, m)
					if len(w.replies) == 1 {
						w.replySeq = e.Seq
						w.ptAtRsp = snapshotPT()
					}
				}
			}
			return
		}
		if e.Kind == simkit.KRecv {
			return
		}
		if curWin == nil {
			strayGPU++
			return
		}
		curWin.ev = append(curWin.ev, e)
	}

	nEv, livelock, pv := simkit.RunBounded(engine, int64(len(s.Reqs))*400000+200000)
	rec.Count("drv_engine_events", nEv)
	if pv != nil {
		viol("crash", fmt.Sprintf("driver panicked during the migration handshake: %v", pv), nil)
		return
	}
	if livelock {
		viol("livelock", "engine exceeded the event bound", nil)
		return
	}
	if unexpected != "" {
		viol("unexpected-message-to-cp", unexpected, nil)
	}
	if strayGPU > 0 {
		viol("handshake-traffic-without-request", fmt.Sprintf("%d handshake messages on the driver's GPU port before any migration request was taken", strayGPU), nil)
	}
	if strayReply > 0 || extraReplies > 0 {
		viol("reply-without-request", fmt.Sprintf("%d replies to the MMU that answer no outstanding request", strayReply+extraReplies), nil)
	}

	cpIdx := map[sim.RemotePort]int{}
	for i, p := range cpPort {
		cpIdx[p.AsRemote()] = i + 1
	}
	gpuSet := func(ids []uint64) string {
		x := append([]uint64(nil), ids...)
		sort.Slice(x, func(a, b int) bool { return x[a] < x[b] })
		return fmt.Sprint(x)
	}
	allGPUs := make([]uint64, c.NumGPU)
	for i := range allGPUs {
		allGPUs[i] = uint64(i + 1)
	}
	pagesChecked := 0
	for wi, w := range wins {
		ex := map[string]any{"request": wi}
		if w.retrSeq < 0 {
			viol("request-lost", fmt.Sprintf("request %d was never taken by the driver (engine idle)", wi), ex)
			break
		}
		// classify the window's events
		type step struct {
			sendSeq []int
			sendTo  []uint64
			rspSeq  []int
		}
		var drain, shoot, mig, grst, rrst step
		var shootCmds []*protocol.ShootDownCommand
		var migReqs []*protocol.PageMigrationReqToCP
		for _, e := range w.ev {
			to := uint64(cpIdx[e.Msg.Meta().Dst])
			switch m := e.Msg.(type) {
			case *protocol.RDMADrainCmdFromDriver:
				drain.sendSeq, drain.sendTo = append(drain.sendSeq, e.Seq), append(drain.sendTo, to)
			case *protocol.RDMADrainRspToDriver:
				drain.rspSeq = append(drain.rspSeq, e.Seq)
			case *protocol.ShootDownCommand:
				shoot.sendSeq, shoot.sendTo = append(shoot.sendSeq, e.Seq), append(shoot.sendTo, to)
				shootCmds = append(shootCmds, m)
			case *protocol.ShootDownCompleteRsp:
				shoot.rspSeq = append(shoot.rspSeq, e.Seq)
			case *protocol.PageMigrationReqToCP:
				mig.sendSeq, mig.sendTo = append(mig.sendSeq, e.Seq), append(mig.sendTo, to)
				migReqs = append(migReqs, m)
			case *protocol.PageMigrationRspToDriver:
				mig.rspSeq = append(mig.rspSeq, e.Seq)
			case *protocol.GPURestartReq:
				grst.sendSeq, grst.sendTo = append(grst.sendSeq, e.Seq), append(grst.sendTo, to)
			case *protocol.GPURestartRsp:
				grst.rspSeq = append(grst.rspSeq, e.Seq)
			case *protocol.RDMARestartCmdFromDriver:
				rrst.sendSeq, rrst.sendTo = append(rrst.sendSeq, e.Seq), append(rrst.sendTo, to)
			case *protocol.RDMARestartRspToDriver:
				rrst.rspSeq = append(rrst.rspSeq, e.Seq)
			default:
				viol("foreign-message", fmt.Sprintf("request %d: %T on the driver's GPU port during a migration", wi, e.Msg), ex)
			}
		}
		var nPages int
		var allV []uint64
		for _, rq := range w.desc.Requesters {
			nPages += len(rq.Pages)
			for _, j := range rq.Pages {
				allV = append(allV, base[w.desc.Proc]+uint64(j)*pageSize)
			}
		}
		last := func(x []int) int {
			if len(x) == 0 {
				return -1
			}
			return x[len(x)-1]
		}
		first := func(x []int) int {
			if len(x) == 0 {
				return 1 << 60
			}
			return x[0]
		}
		stage := func(name string, st step, want []uint64, prevDone int, prevName string) bool {
			if gpuSet(st.sendTo) != gpuSet(want) {
				viol(name+"-recipients", fmt.Sprintf("request %d: %s sent to GPUs %v, expected exactly %s", wi, name, st.sendTo, gpuSet(want)), ex)
				return false
			}
			if first(st.sendSeq) < prevDone {
				viol(name+"-before-"+prevName+"-complete", fmt.Sprintf("request %d: first %s was sent before the last %s acknowledgement was taken", wi, name, prevName), ex)
				return false
			}
			if len(st.rspSeq) != len(want) {
				if len(w.replies) == 0 {
					return false // reported as a stall below
				}
				viol(name+"-acks", fmt.Sprintf("request %d: %d %s acknowledgements taken, %d commands sent", wi, len(st.rspSeq), name, len(want)), ex)
				return false
			}
			return true
		}
		ok := stage("rdma-drain", drain, allGPUs, w.retrSeq, "request")
		ok = ok && stage("shootdown", shoot, w.desc.Accessing, last(drain.rspSeq), "rdma-drain")
		if ok {
			for _, sc := range shootCmds {
				if sc.PID != w.req.PID || gpuSet(sc.VAddr) != gpuSet(allV) {
					viol("shootdown-content", fmt.Sprintf("request %d: shootdown names pid %d pages %x, request has pid %d pages %x", wi, sc.PID, sc.VAddr, w.req.PID, allV), ex)
				}
			}
		}
		// migrations: one page at a time, after all shootdown acks
		if ok {
			if len(mig.sendSeq) != nPages || len(mig.rspSeq) != nPages {
				viol("migration-count", fmt.Sprintf("request %d: %d page migrations sent, %d acknowledged, %d pages requested", wi, len(mig.sendSeq), len(mig.rspSeq), nPages), ex)
				ok = false
			} else if first(mig.sendSeq) < last(shoot.rspSeq) {
				viol("migration-before-shootdown-complete", fmt.Sprintf("request %d: a page migration was sent before the last shootdown acknowledgement was taken", wi), ex)
				ok = false
			} else {
				for k := 1; k < nPages; k++ {
					if mig.sendSeq[k] < mig.rspSeq[k-1] {
						viol("migrations-overlap", fmt.Sprintf("request %d: page migration %d was sent before migration %d was acknowledged", wi, k, k-1), ex)
						ok = false
					}
				}
			}
		}
		ok = ok && stage("gpu-restart", grst, w.desc.Accessing, last(mig.rspSeq), "migration")
		ok = ok && stage("rdma-restart", rrst, allGPUs, last(grst.rspSeq), "gpu-restart")
		// reply to the MMU
		if len(w.replies) != 1 {
			key := fmt.Sprintf("mmu-replies=%d", len(w.replies))
			unread := ""
			if len(w.replies) == 0 {
				stageName := "rdma-restart"
				switch {
				case len(drain.rspSeq) < c.NumGPU:
					stageName = "rdma-drain"
				case len(shoot.rspSeq) < len(w.desc.Accessing):
					stageName = "shootdown"
				case len(mig.rspSeq) < nPages:
					stageName = "migrate"
				case len(grst.rspSeq) < len(w.desc.Accessing):
					stageName = "gpu-restart"
				}
				key = "stall|stage=" + stageName
				// the precise signature of a component that went to sleep although a
				// message it must handle is waiting in its port
				if m := drvGPU.PeekIncoming(); m != nil {
					unread = strings.TrimPrefix(fmt.Sprintf("%T", m), "*protocol.")
					key += "|driver-asleep-with-unread-" + unread
				}
			}
			viol(key, fmt.Sprintf("request %d: %d replies to the MMU (engine idle; unread message at the head of the driver's GPU port: %q; stages seen: drain %d/%d, shootdown %d/%d, migrate %d/%d, gpu-restart %d/%d, rdma-restart %d/%d)",
				wi, len(w.replies), unread, len(drain.rspSeq), c.NumGPU, len(shoot.rspSeq), len(w.desc.Accessing), len(mig.rspSeq), nPages,
				len(grst.rspSeq), len(w.desc.Accessing), len(rrst.rspSeq), c.NumGPU), ex)
			break
		}
		rp := w.replies[0]
		if rp.Dst != w.req.Src || gpuSet(rp.VAddr) != gpuSet(allV) || rp.RspToTop != w.req.RespondToTop {
			viol("mmu-reply-content", fmt.Sprintf("request %d: reply to %s pages %x top=%v; request from %s pages %x top=%v", wi, rp.Dst, rp.VAddr, rp.RspToTop, w.req.Src, allV, w.req.RespondToTop), ex)
		}
		if ok && w.replySeq < last(mig.rspSeq) {
			viol("mmu-reply-before-migration-complete", fmt.Sprintf("request %d: the MMU was answered before the last page migration was acknowledged", wi), ex)
		}
		if ok && w.replySeq < last(rrst.rspSeq) {
			rec.Count("drv_reply_sent_before_restart_acks", 1) // observed, not judged (see report)
		}
		if ok && wi+1 < len(wins) && wins[wi+1].retrSeq >= 0 && wins[wi+1].retrSeq < last(rrst.rspSeq) {
			viol("next-request-taken-during-handshake", fmt.Sprintf("request %d was taken before the handshake of request %d finished", wi+1, wi), ex)
		}
		if ok && wi+1 < len(wins) && wins[wi+1].retrSeq >= 0 && wins[wi+1].recvSeq < last(rrst.rspSeq) {
			rec.Count("drv_requests_queued_during_migration", 1)
		}

		// page table at the moment of the reply
		now := w.ptAtRsp
		migrated := map[pageKey]int{}
		for _, rq := range w.desc.Requesters {
			for _, j := range rq.Pages {
				migrated[pageKey{w.desc.Proc, base[w.desc.Proc] + uint64(j)*pageSize}] = rq.GPU
			}
		}
		usedPA := map[uint64]pageKey{}
		for k, pg := range now {
			if o, dup := usedPA[pg.PAddr]; dup {
				viol("physical-page-aliased", fmt.Sprintf("request %d: pages %v and %v both map to physical 0x%x", wi, o, k, pg.PAddr), ex)
			}
			usedPA[pg.PAddr] = k
		}
		for _, k := range keys {
			old, pg := shadow[k], now[k]
			g, isMig := migrated[k]
			if !isMig {
				if pg != old {
					viol("other-mapping-changed", fmt.Sprintf("request %d: mapping of page 0x%x of process %d, which was not migrated, changed from %+v to %+v", wi, k.vaddr, k.proc, old, pg), ex)
				}
				continue
			}
			pagesChecked++
			dev := -1
			func() {
				defer func() { _ = recover() }()
				dev = drv.VerifDeviceIDByPAddr(pg.PAddr)
			}()
			if !pg.Valid || pg.VAddr != k.vaddr || pg.PID != old.PID || pg.PageSize != pageSize || int(pg.DeviceID) != g || dev != g ||
				pg.PAddr == old.PAddr || pg.PAddr%pageSize != 0 {
				viol("page-not-mapped-to-destination", fmt.Sprintf("request %d: page 0x%x of process %d requested by GPU %d maps to %+v (physical address on device %d); before: %+v",
					wi, k.vaddr, k.proc, g, pg, dev, old), ex)
			}
			// the migration command for this page
			found := 0
			for mi, mr := range migReqs {
				if mr.ToReadFromPhysicalAddress != old.PAddr {
					continue
				}
				found++
				if mr.ToWriteToPhysicalAddress != pg.PAddr || mr.PageSize != pageSize || int(mig.sendTo[mi]) != g ||
					mr.DestinationPMCPort != pmcPort[w.desc.Host-1] {
					viol("migration-command-content", fmt.Sprintf("request %d page 0x%x: command to GPU %d reads 0x%x writes 0x%x size %d from PMC %v; expected GPU %d, write 0x%x, size %d, PMC of GPU %d",
						wi, k.vaddr, mig.sendTo[mi], mr.ToReadFromPhysicalAddress, mr.ToWriteToPhysicalAddress, mr.PageSize, mr.DestinationPMCPort.Name(), g, pg.PAddr, pageSize, w.desc.Host), ex)
				}
			}
			if ok && found != 1 {
				viol("migration-command-missing", fmt.Sprintf("request %d: %d migration commands read the old physical page 0x%x of page 0x%x", wi, found, old.PAddr, k.vaddr), ex)
			}
		}
		shadow = now
		rec.Count("drv_handshakes_checked", 1)
		rec.Distinct("drv_shape", fmt.Sprintf("gpus=%d acc=%d req=%d pages=%d", c.NumGPU, len(w.desc.Accessing), len(w.desc.Requesters), nPages))
		if ok && len(seen) == 0 {
			rec.Nontrivial(fmt.Sprintf("drv:%s/%d", s.Name, wi))
		}
	}
	// nothing moved after the last reply
	if len(seen) == 0 {
		fin := snapshotPT()
		for _, k := range keys {
			if fin[k] != shadow[k] {
				viol("mapping-changed-after-reply", fmt.Sprintf("page 0x%x of process %d changed after the last reply: %+v -> %+v", k.vaddr, k.proc, shadow[k], fin[k]), nil)
			}
		}
	}
	rec.Count("drv_pages_checked", int64(pagesChecked))
	rec.Distinct("drv_config", fmt.Sprintf("%d/%d/%d/%d/%v/%d", c.NumGPU, c.Log2Page, c.PagesPerGPU, c.NumProc, c.Unified, c.CPDelayMax))
	rec.Sample(map[string]any{"part": "driver", "name": s.Name, "cfg": c, "reqs": s.Reqs[:min(2, len(s.Reqs))]})
}
