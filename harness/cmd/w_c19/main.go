// w_c19: page migration (DESIGN.md, C19).
//
// (a) real PageMigrationControllers with memories behind them, driven by a
// control-side peer that follows the driver's protocol (pmc.go);
// (b) a real driver.Driver with a real page table, fake command processors
// and a fake MMU (drv.go).
package main

import (
	"encoding/json"
	"fmt"
	"os"

	"verifharness/vlib"
)

// replay re-executes the scenario stored in a replay file (--replay <path>).
func replay(c *vlib.Check, path string, b []byte, err error) {
	var f struct {
		Witness struct {
			Part     string          `json:"part"`
			Scenario json.RawMessage `json:"scenario"`
		} `json:"witness"`
	}
	if err == nil {
		err = json.Unmarshal(b, &f)
	}
	if err != nil {
		c.Inconclusive(fmt.Sprintf("cannot read replay %s: %v", path, err))
		return
	}
	switch f.Witness.Part {
	case "pmc":
		var s pmcScenario
		if json.Unmarshal(f.Witness.Scenario, &s) == nil {
			runPMCScenario(c, s)
		}
	case "driver":
		var s drvScenario
		if json.Unmarshal(f.Witness.Scenario, &s) == nil {
			runDrvScenario(c, s)
		}
	default:
		c.Inconclusive("replay file has no pmc/driver scenario")
	}
}

func main() {
	// the replay file is read before vlib.Start, which removes the replays of
	// an earlier run with the same (tier, seed)
	var replayPath string
	var replayData []byte
	var replayErr error
	for i, a := range os.Args {
		if a == "--replay" && i+1 < len(os.Args) {
			replayPath = os.Args[i+1]
			replayData, replayErr = os.ReadFile(replayPath)
		}
	}
	c := vlib.Start("C19")
	{
		if replayPath != "" {
			replay(c, replayPath, replayData, replayErr)
			c.Finish(vlib.FinishOpts{Rule: "replay of one recorded scenario (held = the scenario no longer violates; reported as inconclusive because nothing else was explored)"})
		}
	}
	nP := c.N(1200, 12000)
	nD := c.N(1500, 12000)

	// the canonical battery runs first and sequentially, so that the witness
	// kept for a key is the canonical reproducer whenever it reproduces
	for _, s := range canonicalPMC() {
		runPMCScenario(c, s)
	}
	for _, s := range canonicalDrv() {
		runDrvScenario(c, s)
	}
	var pm []pmcScenario
	base := c.Rand("pmc")
	for i := 0; i < nP; i++ {
		pm = append(pm, genPMCScenario(base.ForkN("s", i), i))
	}
	var dr []drvScenario
	dbase := c.Rand("driver")
	for i := 0; i < nD; i++ {
		dr = append(dr, genDrvScenario(dbase.ForkN("s", i), i))
	}
	vlib.Parallel(len(pm)+len(dr), 0, func(i int) {
		if i < len(pm) {
			runPMCScenario(c, pm[i])
		} else {
			runDrvScenario(c, dr[i-len(pm)])
		}
	})
	c.Finish(vlib.FinishOpts{
		Rule: "PMC scenario = (2-4 real controllers, memory kind/latency/jitter/buffers/stalls per controller, control-peer back-pressure, " +
			"sequence of migrations with page sizes 64*k up to 64 KiB issued back-to-back or after completion, disjoint pairs concurrently); " +
			"driver scenario = (2-4 GPUs, page size, 1-2 processes, sequence of PageMigrationReqToDriver, queued or after the reply, random CP answer delays); " +
			"non-trivial = PMC scenario with >= 2 checked migrations of which one arrived while the controller was migrating, " +
			"or one driver handshake whose five stages and page-table post-condition were all checked",
		Assumptions: []string{
			"environment follows the driver's protocol: a controller pulls from one source at a time and is never source and destination at once; concurrent migrations only between disjoint pairs",
			"page sizes are multiples of the 64-byte transfer unit, > 0",
			"memories answer every request exactly once (akita ideal memory controller, or the harness' fake memory with random latency/reordering/stalls); a write takes effect when it is acknowledged",
			"fake command processors answer every handshake command exactly once after a random delay; CurrAccessingGPUs is non-empty and duplicate-free and contains the host GPU, as akita's MMU builds it",
			"the driver's engine is run directly (serial engine); Driver.Run is not called",
			"order 'reply to MMU after the restart acknowledgements' (DESIGN) is counted, not judged: the property text does not state it",
		},
		MinNontrivial: 60,
		MinCounters: map[string]int64{
			"pmc_migrations_checked":                200,
			"pmc_chunks_checked":                    5000,
			"pmc_64k_pages":                         3,
			"pmc_requests_arrived_during_migration": 40,
			"pmc_concurrent_disjoint_migrations":    5,
			"pmc_mem_stalls":                        100,
			"pmc_ctrl_stalls":                       20,
			"drv_handshakes_checked":                200,
			"drv_pages_checked":                     200,
			"drv_requests_queued_during_migration":  20,
		},
	})
}
