// w_c19: page migration (DESIGN.md, C19).
//
// (a) real PageMigrationControllers with memories behind them, driven by a
// control-side peer that follows the driver's protocol (pmc.go);
// (b) a real driver.Driver with a real page table, fake command processors
// and a fake MMU (drv.go).
package main

import (
	"encoding/json"
	"fmt"
	"os"

	"verifharness/vlib"
)

// replay re-executes the scenario stored in a replay file (--replay <path>).
func replay(c *vlib.Check, path string, b []byte, err error) {
	var f struct {
		Witness struct {
			Part     string          `json:"part"`
			Scenario json.RawMessage `json:"scenario"`
		} `json:"witness"`
	}
	if err == nil {
		err = json.Unmarshal(b, &f)
	}
	if err != nil {
		c.Inconclusive(fmt.Sprintf("cannot read replay %s: %v", path, err))
		return
	}
	switch f.Witness.Part {
	case "pmc":
		var s pmcScenario
		if json.Unmarshal(f.Witness.Scenario, &s) == nil {
			runPMCScenario(c, s)
		}
	case "driver":
		var s drvScenario
		if json.Unmarshal(f.Witness.Scenario, &s) == nil {
			runDrvScenario(c, s)
		}
	case "cp":
		var s cplScenario
		if json.Unmarshal(f.Witness.Scenario, &s) == nil {
			runCPLScenario(c, s)
		}
	case "handshake-rdma":
		var s hsScenario
		if json.Unmarshal(f.Witness.Scenario, &s) == nil {
			runHSScenario(c, s)
		}
	case "drivermem":
		var s dmScenario
		if json.Unmarshal(f.Witness.Scenario, &s) == nil {
			runMemScenario(c, s)
		}
	default:
		c.Inconclusive("replay file has no pmc/driver/drivermem scenario")
	}
}

func main() {
	// the replay file is read before vlib.Start, which removes the replays of
	// an earlier run with the same (tier, seed)
	var replayPath string
	var replayData []byte
	var replayErr error
	for i, a := range os.Args {
		if a == "--replay" && i+1 < len(os.Args) {
			replayPath = os.Args[i+1]
			replayData, replayErr = os.ReadFile(replayPath)
		}
	}
	c := vlib.Start("C19")
	{
		if replayPath != "" {
			replay(c, replayPath, replayData, replayErr)
			c.Finish(vlib.FinishOpts{Rule: "replay of one recorded scenario (held = the scenario no longer violates; reported as inconclusive because nothing else was explored)"})
		}
	}
	nP := c.N(1200, 12000)
	nD := c.N(1500, 12000)
	nM := c.N(600, 8000)
	nH := c.N(400, 4000)
	nC := c.N(150, 2000)

	// the canonical battery runs first and sequentially, so that the witness
	// kept for a key is the canonical reproducer whenever it reproduces
	for _, s := range canonicalPMC() {
		runPMCScenario(c, s)
	}
	for _, s := range canonicalDrv() {
		runDrvScenario(c, s)
	}
	for _, s := range canonicalMem() {
		runMemScenario(c, s)
	}
	for _, s := range canonicalHS() {
		runHSScenario(c, s)
	}
	for _, s := range canonicalCPL() {
		runCPLScenario(c, s)
	}
	// development aid: C19_ONLY_HS=canon|all runs the handshake-with-RDMA part alone; never "held"
	if v := os.Getenv("C19_ONLY_HS"); v != "" {
		if v == "all" {
			hb := c.Rand("handshake-rdma")
			vlib.Parallel(nH, 0, func(i int) { runHSScenario(c, genHSScenario(hb.ForkN("s", i), i)) })
		}
		c.Finish(vlib.FinishOpts{Rule: "handshake-with-RDMA part only (development aid, never 'held')", MinNontrivial: 1 << 30})
	}
	// development aid: C19_ONLY_MEM=canon runs the memory layer's canonical battery alone,
	// C19_ONLY_MEM=all also its generated scenarios; such a run never reports "held"
	if v := os.Getenv("C19_ONLY_MEM"); v != "" {
		if v == "all" {
			mb := c.Rand("drivermem")
			vlib.Parallel(nM, 0, func(i int) { runMemScenario(c, genMemScenario(mb.ForkN("s", i), i)) })
		}
		c.Finish(vlib.FinishOpts{Rule: "memory layer of the driver part only (development aid, never 'held')", MinNontrivial: 1 << 30})
	}
	var pm []pmcScenario
	base := c.Rand("pmc")
	for i := 0; i < nP; i++ {
		pm = append(pm, genPMCScenario(base.ForkN("s", i), i))
	}
	var dr []drvScenario
	dbase := c.Rand("driver")
	for i := 0; i < nD; i++ {
		dr = append(dr, genDrvScenario(dbase.ForkN("s", i), i))
	}
	var dm []dmScenario
	mbase := c.Rand("drivermem")
	for i := 0; i < nM; i++ {
		dm = append(dm, genMemScenario(mbase.ForkN("s", i), i))
	}
	var hs []hsScenario
	hbase := c.Rand("handshake-rdma")
	for i := 0; i < nH; i++ {
		hs = append(hs, genHSScenario(hbase.ForkN("s", i), i))
	}
	cbase := c.Rand("cp")
	vlib.Parallel(nC, 0, func(i int) { runCPLScenario(c, genCPLScenario(cbase.ForkN("s", i), i)) })
	vlib.Parallel(len(pm)+len(dr)+len(dm)+len(hs), 0, func(i int) {
		switch {
		case i < len(pm):
			runPMCScenario(c, pm[i])
		case i < len(pm)+len(dr):
			runDrvScenario(c, dr[i-len(pm)])
		case i < len(pm)+len(dr)+len(dm):
			runMemScenario(c, dm[i-len(pm)-len(dr)])
		default:
			runHSScenario(c, hs[i-len(pm)-len(dr)-len(dm)])
		}
	})
	c.Finish(vlib.FinishOpts{
		Rule: "PMC scenario = (2-4 real controllers, memory kind/latency/jitter/buffers/stalls per controller, control-peer back-pressure, " +
			"sequence of migrations with page sizes 64*k up to 64 KiB issued back-to-back or after completion, disjoint pairs concurrently; " +
			"every third scenario crosses the roles: requests of different controllers overlap in time (start delays 0-200 cycles, 64 B - 16 KiB mixed) in opposite directions, rings and chains, " +
			"so that a controller is the destination of its own request while it serves another controller's pulls - admitted because each controller accepts one request at a time through its own gate " +
			"and serves pulls independently of it; per phase no source is pulled by two controllers); " +
			"driver scenario = (2-4 GPUs, page size, 1-2 processes, sequence of PageMigrationReqToDriver, queued or after the reply, random CP answer delays); " +
			"driver memory scenario = (2-4 GPUs of 3-16 pages that are full or nearly full, default or buddy allocator, 1-2 processes, 1-4 requests of 1-3 pages, " +
			"application calls AllocateMemory / FreeMemory / Remap / write before, inside (before re-homing, while each copy is outstanding) and after every migration window, " +
			"copy done by the fake CP in a byte-addressed fake memory at a random moment of the window, every GPU filled to the last frame at the end); " +
			"handshake-with-RDMA scenario = (2-3 GPUs, each a real rdma.Comp + real PageMigrationController on one ideal or hostile memory, one inter-GPU fabric with latency 2-3000 cycles, " +
			"jitter and bounded occupancy, fake L1s issuing remote loads / stores with unique non-overlapping payloads to the page that migrates, timed around the start of the sequence, " +
			"1-3 rounds of drain all -> copy -> restart all, chains A->B->C, accesses to the new frame after the round); " +
			"command-processor scenario = (3-4 GPUs, each a real cp.CommandProcessor (migration path) + real PageMigrationController + memory, a driver stub sending 4-12 PageMigrationReqToCP one at a time, " +
			"destinations receiving pages from different owners, interleaved destinations, repeated owners, 64 B - 8 KiB; non-trivial = a checked migration into a GPU whose first migration came from another owner); " +
			"non-trivial = PMC scenario with >= 2 checked migrations of which one arrived while the controller was migrating, " +
			"or one driver handshake whose five stages and page-table post-condition were all checked, " +
			"or one handshake-with-RDMA round that started with a remote store to the page in flight and whose contents and ordering rules were checked, " +
			"or one driver memory scenario in which every request was answered, an allocation on the source GPU inside a window went past the frames that were free " +
			"when the page was re-homed (= would receive a prematurely released source frame) and all contents were compared",
		Assumptions: []string{
			"controller part: a controller is sent one request at a time or several queued ones (served one by one); requests of different controllers may overlap with the roles crossed, " +
				"but a source is never pulled by two controllers at once (the controller keeps a single requester port for all pulls it serves: two pullers of one source crash the unchanged tree, " +
				"key C19|pmc|crash|one-source-serving-two-pullers, repaired in /repo; the canonical case canon-one-source-two-pullers is part of the battery); concurrently active requests never read what another one writes",
			"page sizes are multiples of the 64-byte transfer unit, > 0",
			"memories answer every request exactly once (akita ideal memory controller, or the harness' fake memory with random latency/reordering/stalls); a write takes effect when it is acknowledged",
			"fake command processors answer every handshake command exactly once after a random delay; CurrAccessingGPUs is non-empty and duplicate-free and contains the host GPU, as akita's MMU builds it",
			"the driver's engine is run directly (serial engine); Driver.Run is not called",
			"order 'reply to MMU after the restart acknowledgements' (DESIGN) is counted, not judged: the property text does not state it",
			"handshake with RDMA engines: the stand-in for driver + command processor drains every engine, waits for every DrainRsp, asks the destination's controller for the copy, waits for its completion, restarts every engine " +
				"(the shootdown has no counterpart here: there are no TLBs; its place is a seeded hold); the L1s are not stopped by the harness: what an engine has not accepted when it is paused waits at its port and is delivered after the restart to the frame it addresses (old frame included), which is not judged",
			"handshake with RDMA engines: judged are (a) destination frame at completion == source frame at the copy request, (b) every store an engine forwarded before the copy request is in the destination frame, " +
				"(c) no transaction to the page open at any engine between copy request and completion, (d) one completion per request, every round finishes, every L1 request answered once, every acknowledged store in the memory it addressed at the end; " +
				"accesses never overlap, so each byte has at most one writer besides the copy",
			"handshake with RDMA engines: the fabric is transparent (routes by destination port, keeps the order of one sender-receiver pair, ticks after the components of a cycle like akita's connections); controllers and engines share it",
			"driver memory layer: application calls are made on the engine goroutine between two component ticks (Driver.Run is not called); the application never frees, remaps or writes a page that a pending request names; " +
				"it only issues calls that succeed on the unchanged allocator, plus one-page AllocateMemory calls on a GPU it believes full (answered 'out of memory' or with a frame, both accepted)",
			"driver memory layer: a source frame is protected from the moment the driver takes the request until it takes the acknowledgement of that page's copy; " +
				"reuse between that acknowledgement and the reply is counted (drv_mem_source_frames_reused_after_copy_before_reply), not judged: the copy is complete",
			"driver memory layer: frames that re-homed pages leave behind are never handed out again on the unchanged tree (drv_mem_frames_never_reusable): observed, not judged here (C10)",
			"driver memory layer: Remap does not carry contents over (the application refills a remapped buffer); buddy allocator only with 4 KiB pages, power-of-two GPU sizes and one-page Remap",
		},
		MinNontrivial: 60,
		MinCounters: map[string]int64{
			"pmc_migrations_checked":                                    200,
			"pmc_chunks_checked":                                        5000,
			"pmc_64k_pages":                                             3,
			"pmc_requests_arrived_during_migration":                     40,
			"pmc_concurrent_disjoint_migrations":                        5,
			"pmc_concurrent_migrations_roles_crossed":                   300,
			"pmc_completions_sent_while_serving_a_pull":                 100,
			"pmc_scenarios_completion_sent_while_serving_a_pull":        50,
			"pmc_mem_stalls":                                            100,
			"pmc_ctrl_stalls":                                           20,
			"drv_handshakes_checked":                                    200,
			"drv_pages_checked":                                         200,
			"drv_requests_queued_during_migration":                      20,
			"cp_migrations_checked":                                     500,
			"cp_migrations_into_a_gpu_from_a_second_owner":              150,
			"hs_rounds_checked":                                         300,
			"hs_drains_with_remote_write_to_page_in_flight":             150,
			"hs_drains_with_remote_read_to_page_in_flight":              100,
			"hs_drains_with_write_on_link_longer_than_drain_round_trip": 80,
			"hs_scenarios_link_latency_above_drain_round_trip":          80,
			"hs_stores_to_page_before_copy_checked":                     500,
			"hs_requests_held_back_by_pause":                            300,
			"hs_requests_forwarded_after_restart":                       300,
			"hs_acknowledged_stores_found_in_memory":                    1500,
			"hs_fabric_sender_waits":                                    1000,
			"drv_mem_windows_default":                                   80,
			"drv_mem_windows_buddy":                                     80,
			"drv_mem_allocs_in_window":                                  400,
			"drv_mem_allocs_in_window_on_source":                        250,
			"drv_mem_allocs_in_window_on_destination":                   40,
			"drv_mem_allocs_in_window_on_full_gpu":                      150,
			"drv_mem_allocs_in_window_on_exhausted_source_default":      100,
			"drv_mem_allocs_in_window_on_exhausted_source_buddy":        100,
			"drv_mem_windows_with_free":                                 100,
			"drv_mem_frees_in_window":                                   100,
			"drv_mem_remaps_in_window":                                  10,
			"drv_mem_writes_in_window":                                  300,
			"drv_mem_frames_handed_out_checked":                         2000,
			"drv_mem_probes_answered_out_of_memory":                     200,
			"drv_mem_migrated_pages_compared":                           500,
			"drv_mem_pages_compared":                                    5000,
			"drv_mem_invariant_evaluations":                             10000,
		},
	})
}
