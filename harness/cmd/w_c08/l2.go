package main

import (
	"bytes"
	"fmt"
	"os"

	"github.com/sarchlab/akita/v4/mem/mem"
	"github.com/sarchlab/akita/v4/mem/vm"
	"github.com/sarchlab/akita/v4/sim"
	"github.com/sarchlab/mgpusim/v4/amd/emu"
	"github.com/sarchlab/mgpusim/v4/amd/insts"
	"github.com/sarchlab/mgpusim/v4/amd/kernels"
	"github.com/sarchlab/mgpusim/v4/amd/protocol"
	"github.com/sarchlab/mgpusim/v4/amd/timing/cu"
	"github.com/sarchlab/mgpusim/v4/amd/timing/wavefront"

	"verifharness/vlib"
	"verifharness/vlib/simkit"
)

// ---------------------------------------------------------------------------
// layer 2: hardware-initialised registers of dispatched wavefronts, in BOTH
// execution modes.
//
// The work-groups come from the real grid builder. For every wavefront the
// initial register state is produced by
//   timing: the real compute unit's WfDispatcher.DispatchWf (the call
//           cu.ComputeUnit.handleMapWGReq makes after wrapWG), read back from
//           the CU's real SimpleRegisterFiles at the wavefront's offsets;
//   emu:    a real emu.ComputeUnit fed with protocol.MapWGReq through a
//           direct connection, running a one-instruction kernel (s_endpgm)
//           from a real storage behind an identity page table; the CU hook
//           (logInst) delivers the *emu.Wavefront whose registers nothing has
//           touched yet.
// Oracle per mode: EXEC-enabled lane l of a wavefront is the member work-item
// with flat id FirstWiFlatID+l (the kernels.WorkItem object, whose coordinates
// the grid builder assigned); the ids decoded from v0/v1/v2 (V3) or packed v0
// (V5) must be its coordinates, the work-group-id SGPRs (located by the
// monitor's own model of the enabled user/system SGPRs) the group's ids, so
// that the global ids over all enabled lanes are the grid, each once. Plus:
// emu == timing, register by register (s0..s31, v0..v3 of all 64 lanes, EXEC,
// PC).

const (
	l2SRegs    = 32
	l2VRegs    = 4
	l2CodeAddr = 0x1000
)

type coCfg struct {
	V5       bool `json:"v5"`
	VgprID   int  `json:"enable_vgpr_workitem_id"` // 0, 1, 2 (V3: v0 / v0,v1 / v0..v2)
	PrivBuf  bool `json:"sgpr_private_segment_buffer,omitempty"`
	DispPtr  bool `json:"sgpr_dispatch_ptr,omitempty"`
	Kernarg  bool `json:"sgpr_kernarg_segment_ptr,omitempty"`
	DispID   bool `json:"sgpr_dispatch_id,omitempty"`
	FlatScr  bool `json:"sgpr_flat_scratch_init,omitempty"`
	CntX     bool `json:"sgpr_grid_workgroup_count_x,omitempty"`
	CntY     bool `json:"sgpr_grid_workgroup_count_y,omitempty"`
	CntZ     bool `json:"sgpr_grid_workgroup_count_z,omitempty"`
	IDX      bool `json:"sgpr_workgroup_id_x,omitempty"`
	IDY      bool `json:"sgpr_workgroup_id_y,omitempty"`
	IDZ      bool `json:"sgpr_workgroup_id_z,omitempty"`
	EntryOff int  `json:"entry_offset,omitempty"`
	// Loader: the code object is not constructed by the harness but obtained
	// from an ELF image (header-based V2/V3 or descriptor-based V5) through
	// the real loader insts.LoadKernelCodeObjectFromBytes; the fields above
	// are what the image's header / descriptor enables.
	Loader bool `json:"via_loader,omitempty"`
}

// loaderCompatible restricts a configuration to what the loader path can
// carry: the loader strips the V2/V3 header (entry offset 0); its documented
// V5 normalisation always provides kernarg pointer (kernarg size > 0),
// work-group id x and y and nothing else but work-group id z "as the compiler
// set it".
func (c coCfg) loaderCompatible() coCfg {
	c.Loader = true
	c.EntryOff = 0
	if c.V5 {
		c.PrivBuf, c.DispPtr, c.DispID, c.FlatScr, c.CntX, c.CntY, c.CntZ = false, false, false, false, false, false, false
		c.Kernarg, c.IDX, c.IDY = true, true, true
	}
	return c
}

// image is the ELF file of a loader-path case.
func (c coCfg) image() *imgSpec {
	b2u := func(b bool) uint32 {
		if b {
			return 1
		}
		return 0
	}
	im := &imgSpec{Name: "idkernel", V5: c.V5, KernargSize: 16, Code: []byte{0x00, 0x00, 0x81, 0xBF},
		TextAddr: 0x1000, RodataAddr: 0x600}
	im.Rsrc2 = b2u(c.IDX)<<7 | b2u(c.IDY)<<8 | b2u(c.IDZ)<<9 | uint32(c.VgprID&3)<<11
	if c.V5 {
		im.Rsrc1 = 0 | 3<<6 // 4 VGPRs, 32 SGPRs (granulated)
		im.Rsrc2 |= 2 << 1  // user_sgpr_count: kernarg pointer
		im.CodeProps = 1 << 3
	} else {
		im.Rsrc1 = 0 | 3<<6
		im.SgprCount, im.VgprCount = l2SRegs, l2VRegs
		im.CodeProps = b2u(c.PrivBuf) | b2u(c.DispPtr)<<1 | b2u(c.Kernarg)<<3 | b2u(c.DispID)<<4 | b2u(c.FlatScr)<<5 |
			b2u(c.CntX)<<7 | b2u(c.CntY)<<8 | b2u(c.CntZ)<<9
	}
	return im
}

type regCase struct {
	Name string    `json:"name"`
	Grid [3]uint32 `json:"grid"`
	WG   [3]uint16 `json:"wg"`
	CO   coCfg     `json:"co"`
	L2   bool      `json:"l2"` // marks the case kind in replay files
}

func (c coCfg) codeObject() *insts.KernelCodeObject {
	if c.Loader {
		im := c.image()
		return insts.LoadKernelCodeObjectFromBytes(im.build(), im.Name)
	}
	m := &insts.KernelCodeObjectMeta{
		KernargSegmentByteSize:         16,
		KernelCodeEntryByteOffset:      uint64(c.EntryOff),
		EnableSgprPrivateSegmentBuffer: c.PrivBuf,
		EnableSgprDispatchPtr:          c.DispPtr,
		EnableSgprKernargSegmentPtr:    c.Kernarg,
		EnableSgprDispatchID:           c.DispID,
		EnableSgprFlatScratchInit:      c.FlatScr,
		EnableSgprGridWorkgroupCountX:  c.CntX,
		EnableSgprGridWorkgroupCountY:  c.CntY,
		EnableSgprGridWorkgroupCountZ:  c.CntZ,
		WFSgprCount:                    l2SRegs,
		WIVgprCount:                    l2VRegs,
	}
	b2u := func(b bool) uint32 {
		if b {
			return 1
		}
		return 0
	}
	// compute_pgm_rsrc2: bits 7,8,9 = work-group id x,y,z; bits 11-12 =
	// enable_vgpr_workitem_id
	m.ComputePgmRsrc2 = b2u(c.IDX)<<7 | b2u(c.IDY)<<8 | b2u(c.IDZ)<<9 | uint32(c.VgprID&3)<<11
	v := insts.CodeObjectV3
	if c.V5 {
		v = insts.CodeObjectV5
	}
	return &insts.KernelCodeObject{KernelCodeObjectMeta: m, Data: []byte{0x00, 0x00, 0x81, 0xBF}, Version: v}
}

// sgprLayout is the monitor's model of where the hardware-initialised SGPRs
// live: user SGPRs in the ABI order, then the enabled system SGPRs. Queue
// pointer and private segment size are not generated (the repository reserves
// no register for them in either mode, a decision recorded under C02).
type sgprLayout struct {
	dispPtr, kernarg int
	cnt              [3]int
	id               [3]int
	used             int
	unjudged         map[int]bool // reserved but not initialised by the simulator
}

func (c coCfg) layout() sgprLayout {
	l := sgprLayout{dispPtr: -1, kernarg: -1, cnt: [3]int{-1, -1, -1}, id: [3]int{-1, -1, -1}, unjudged: map[int]bool{}}
	p := 0
	res := func(n int) {
		for i := 0; i < n; i++ {
			l.unjudged[p+i] = true
		}
		p += n
	}
	if c.PrivBuf {
		res(4)
	}
	if c.DispPtr {
		l.dispPtr = p
		p += 2
	}
	if c.Kernarg {
		l.kernarg = p
		p += 2
	}
	if c.DispID {
		res(2)
	}
	if c.FlatScr {
		res(2)
	}
	for d, en := range []bool{c.CntX, c.CntY, c.CntZ} {
		if en {
			l.cnt[d] = p
			p++
		}
	}
	for d, en := range []bool{c.IDX, c.IDY, c.IDZ} {
		if en {
			l.id[d] = p
			p++
		}
	}
	l.used = p
	return l
}

// regSnap is the initial register state of one wavefront in one mode.
type regSnap struct {
	ok   bool
	exec uint64
	pc   uint64
	s    [l2SRegs]uint32
	v    [64][l2VRegs]uint32
}

// ---------------------------------------------------------------------------
// case generation

var l2Shapes = [][3]int{
	{4, 4, 4}, {8, 4, 2}, {10, 5, 3}, {3, 5, 7}, {2, 2, 2}, {6, 6, 6}, {13, 7, 2}, {5, 3, 2}, {7, 3, 5}, {1, 8, 8}, {1, 1, 64},
	{32, 2, 3}, {16, 4, 4}, {8, 8, 4}, {4, 4, 16}, {3, 3, 3}, {12, 5, 4}, {9, 7, 9}, {2, 17, 3}, {48, 4, 1}, {7, 3, 1}, {16, 16, 1},
	{100, 1, 1}, {64, 1, 1}, {5, 1, 1}, {96, 2, 1}, {10, 10, 10}, {1, 5, 13}, {20, 3, 1}, {256, 1, 1}, {6, 10, 1}, {4, 2, 1},
}

func genCoCfg(r *vlib.PRNG, sufficient bool) coCfg {
	c := coCfg{V5: r.Chance(2, 5), VgprID: r.Intn(3), PrivBuf: r.Chance(1, 3), DispPtr: r.Bool(), Kernarg: r.Chance(3, 4),
		DispID: r.Chance(1, 6), FlatScr: r.Chance(1, 6), CntX: r.Chance(1, 3), CntY: r.Chance(1, 3), CntZ: r.Chance(1, 3),
		IDX: r.Chance(3, 4), IDY: r.Bool(), IDZ: r.Bool(), EntryOff: []int{0, 0, 256}[r.Intn(3)]}
	if sufficient {
		c.VgprID, c.IDX, c.IDY, c.IDZ = 2, true, true, true
	}
	return c
}

func genRegCase(r *vlib.PRNG, idx, maxPts int) *regCase {
	c := &regCase{Name: fmt.Sprintf("r%d", idx), L2: true}
	var wg [3]int
	if r.Chance(3, 4) {
		wg = l2Shapes[r.Intn(len(l2Shapes))]
	} else {
		g := genGeom(r.Fork("g"), idx, 60, maxPts)
		wg = [3]int{int(g.WG[0]), int(g.WG[1]), int(g.WG[2])}
	}
	var grid [3]int
	for d := 0; d < 3; d++ {
		k := 1 + r.Intn(3)
		switch r.Intn(6) {
		case 0:
			grid[d] = k * wg[d]
		case 1:
			grid[d] = 1 + r.Intn(wg[d]) // a single, usually partial, group
		default:
			grid[d] = (k-1)*wg[d] + 1 + r.Intn(wg[d]) // last group usually partial
		}
	}
	for grid[0]*grid[1]*grid[2] > maxPts {
		d := 0
		for e := 1; e < 3; e++ {
			if grid[e]/wg[e] > grid[d]/wg[d] || (grid[e]/wg[e] == grid[d]/wg[d] && grid[e] > grid[d]) {
				d = e
			}
		}
		if grid[d] <= 1 {
			break
		}
		grid[d] = grid[d]*2/3 + 1
		if grid[d] > wg[d] && grid[d]%wg[d] == 0 {
			grid[d]--
		}
	}
	for d := 0; d < 3; d++ {
		c.Grid[d], c.WG[d] = uint32(grid[d]), uint16(wg[d])
	}
	c.CO = genCoCfg(r, r.Chance(2, 3))
	return c
}

func canonicalRegCases() []*regCase {
	full := coCfg{VgprID: 2, Kernarg: true, IDX: true, IDY: true, IDZ: true}
	v5 := full
	v5.V5 = true
	v5.VgprID = 0
	busy := coCfg{VgprID: 2, PrivBuf: true, DispPtr: true, Kernarg: true, DispID: true, FlatScr: true, CntX: true, CntY: true, CntZ: true,
		IDX: true, IDY: true, IDZ: true, EntryOff: 256}
	busy5 := busy
	busy5.V5 = true
	mk := func(n string, g [3]uint32, w [3]uint16, co coCfg) *regCase {
		return &regCase{Name: n, Grid: g, WG: w, CO: co, L2: true}
	}
	lvl := func(l int) coCfg { c := full; c.VgprID = l; return c }
	onlyZ := coCfg{VgprID: 2, IDZ: true}
	return []*regCase{
		mk("canon-l2-4x4x4-v3", [3]uint32{9, 6, 7}, [3]uint16{4, 4, 4}, full),
		mk("canon-l2-4x4x4-v5", [3]uint32{9, 6, 7}, [3]uint16{4, 4, 4}, v5),
		mk("canon-l2-8x4x2-v3-busy", [3]uint32{17, 9, 5}, [3]uint16{8, 4, 2}, busy),
		mk("canon-l2-8x4x2-v5-busy", [3]uint32{17, 9, 5}, [3]uint16{8, 4, 2}, busy5),
		mk("canon-l2-10x5x3-v3", [3]uint32{23, 11, 7}, [3]uint16{10, 5, 3}, full),
		mk("canon-l2-10x5x3-v5", [3]uint32{23, 11, 7}, [3]uint16{10, 5, 3}, v5),
		mk("canon-l2-3x5x7-partial-everywhere-v3", [3]uint32{7, 8, 10}, [3]uint16{3, 5, 7}, busy),
		mk("canon-l2-16x4x4-v3", [3]uint32{33, 5, 9}, [3]uint16{16, 4, 4}, full),
		mk("canon-l2-48x4-v3", [3]uint32{100, 4, 1}, [3]uint16{48, 4, 1}, full),
		mk("canon-l2-48x4-v5", [3]uint32{100, 4, 1}, [3]uint16{48, 4, 1}, v5),
		mk("canon-l2-1d-250-wg100", [3]uint32{250, 1, 1}, [3]uint16{100, 1, 1}, lvl(0)),
		mk("canon-l2-2d-level1", [3]uint32{37, 11, 1}, [3]uint16{16, 4, 1}, lvl(1)),
		mk("canon-l2-3d-level0-only-x", [3]uint32{9, 6, 7}, [3]uint16{4, 4, 4}, lvl(0)),
		mk("canon-l2-3d-only-wgid-z", [3]uint32{9, 6, 7}, [3]uint16{4, 4, 4}, onlyZ),
		mk("canon-l2-1x1x64", [3]uint32{1, 1, 130}, [3]uint16{1, 1, 64}, full),
		mk("canon-l2-9x7x9-v5", [3]uint32{19, 8, 10}, [3]uint16{9, 7, 9}, busy5),
	}
}

func l2Cases(c *vlib.Check) []any {
	var out []any
	for _, r := range canonicalRegCases() {
		out = append(out, r)
	}
	n := c.N(1200, 20000)
	if os.Getenv("C08_ONLY_CANONICAL") != "" {
		n = 0
	}
	base := c.Rand("l2")
	for i := 0; i < n; i++ {
		out = append(out, genRegCase(base.ForkN("r", i), i, c.N(4000, 12000)))
	}
	// loader path: the same kind of cases with the code object taken from an
	// ELF image through the real loader
	for _, r := range canonicalRegCases() {
		lc := *r
		lc.Name += "-via-loader"
		lc.CO = lc.CO.loaderCompatible()
		out = append(out, &lc)
	}
	lb := c.Rand("l2-loader")
	for i := 0; i < n/3; i++ {
		r := lb.ForkN("r", i)
		lc := genRegCase(r, i, c.N(4000, 12000))
		lc.Name = fmt.Sprintf("ld%d", i)
		lc.CO.V5 = i%2 == 0
		lc.CO = lc.CO.loaderCompatible()
		if i%4 == 0 { // a kernel that needs all three dimensions
			lc.CO.IDX, lc.CO.IDY, lc.CO.IDZ, lc.CO.VgprID = true, true, true, 2
		}
		out = append(out, lc)
	}
	return out
}

// ---------------------------------------------------------------------------
// the two real implementations

// timingRegs: initial registers of every wavefront of wgs as the real timing
// compute unit's dispatcher writes them.
func timingRegs(wgs []*kernels.WorkGroup) (snaps map[*kernels.Wavefront]*regSnap, pan any) {
	defer func() {
		if x := recover(); x != nil {
			pan = x
		}
	}()
	snaps = map[*kernels.Wavefront]*regSnap{}
	engine := sim.NewSerialEngine()
	c := cu.MakeBuilder().WithEngine(engine).WithFreq(1 * sim.GHz).Build("CU")
	zeroS := make([]byte, 4*l2SRegs)
	zeroV := make([]byte, 4*16)
	for _, raw := range wgs {
		req := protocol.MapWGReqBuilder{}.WithPID(1).WithWG(raw).Build()
		wg := wavefront.NewWorkGroup(raw, req) // as ComputeUnit.wrapWG
		for k, rawWf := range raw.Wavefronts {
			wf := wavefront.NewWavefront(rawWf)
			wf.RegAccessor = &cu.CURegFileAccessor{CU: c, WF: wf}
			wg.Wfs = append(wg.Wfs, wf)
			wf.WG = wg
			wf.SetPID(1)
			loc := protocol.WfDispatchLocation{Wavefront: rawWf, SIMDID: k % 4, VGPROffset: (k / 4) * 16 * 4, SGPROffset: k * l2SRegs * 4}
			// clear the wavefront's window (the CU is reused for all groups)
			c.SRegFile.Write(cu.RegisterAccess{Reg: insts.SReg(0), RegCount: l2SRegs, WaveOffset: loc.SGPROffset, Data: zeroS})
			for lane := 0; lane < 64; lane++ {
				c.VRegFile[loc.SIMDID].Write(cu.RegisterAccess{Reg: insts.VReg(0), RegCount: 16, LaneID: lane, WaveOffset: loc.VGPROffset, Data: zeroV})
			}
			c.WfDispatcher.DispatchWf(wf, loc) // as ComputeUnit.handleMapWGReq
			s := &regSnap{ok: true, exec: wf.EXEC(), pc: wf.PC()}
			buf := make([]byte, 4)
			for i := 0; i < l2SRegs; i++ {
				c.SRegFile.Read(cu.RegisterAccess{Reg: insts.SReg(i), RegCount: 1, WaveOffset: wf.SRegOffset, Data: buf})
				s.s[i] = insts.BytesToUint32(buf)
			}
			for lane := 0; lane < 64; lane++ {
				for i := 0; i < l2VRegs; i++ {
					c.VRegFile[wf.SIMDID].Read(cu.RegisterAccess{Reg: insts.VReg(i), RegCount: 1, LaneID: lane, WaveOffset: wf.VRegOffset, Data: buf})
					s.v[lane][i] = insts.BytesToUint32(buf)
				}
			}
			snaps[rawWf] = s
		}
	}
	return snaps, nil
}

type emuRegHook struct {
	snaps map[*kernels.Wavefront]*regSnap
	extra int
}

func (h *emuRegHook) Func(ctx sim.HookCtx) {
	wf, ok := ctx.Item.(*emu.Wavefront)
	if !ok {
		return
	}
	in, ok := ctx.Detail.(*insts.Inst)
	if !ok {
		return
	}
	if _, dup := h.snaps[wf.Wavefront]; dup {
		h.extra++
		return
	}
	// first (and only) instruction of the wavefront: s_endpgm touches nothing
	s := &regSnap{ok: true, exec: wf.EXEC(), pc: wf.PC() - uint64(in.ByteSize)}
	for i := 0; i < l2SRegs; i++ {
		s.s[i] = wf.SRegValue(i)
	}
	for lane := 0; lane < 64; lane++ {
		for i := 0; i < l2VRegs; i++ {
			s.v[lane][i] = wf.VRegValue(lane, i)
		}
	}
	h.snaps[wf.Wavefront] = s
}

// emuRegs: the same work-groups through a real emulation compute unit.
func emuRegs(wgs []*kernels.WorkGroup) (snaps map[*kernels.Wavefront]*regSnap, done int, livelock bool, pan any) {
	engine := sim.NewSerialEngine()
	freq := 1 * sim.GHz
	store := mem.NewStorage(4 * 4096)
	code := make([]byte, 2*4096)
	for i := 0; i < len(code); i += 4 {
		copy(code[i:], []byte{0x00, 0x00, 0x81, 0xBF}) // s_endpgm
	}
	if err := store.Write(l2CodeAddr, code); err != nil {
		return nil, 0, false, err
	}
	pt := vm.NewPageTable(12)
	for a := uint64(0); a < 4*4096; a += 4096 {
		pt.Insert(vm.Page{PID: 1, VAddr: a, PAddr: a, PageSize: 4096, Valid: true})
	}
	c := emu.BuildComputeUnit("EmuCU", engine, insts.NewDisassembler(), pt, 12, store, nil)
	h := &emuRegHook{snaps: map[*kernels.Wavefront]*regSnap{}}
	c.AcceptHook(h)
	disp := simkit.NewAgent("Disp", engine, freq)
	port := disp.NewPort("ToCU", 4, 4)
	next := 0
	disp.TickFn = func(a *simkit.Agent) bool {
		progress := false
		for {
			m := port.RetrieveIncoming()
			if m == nil {
				break
			}
			if cm, ok := m.(*protocol.WGCompletionMsg); ok {
				done += len(cm.RspTo)
			}
			progress = true
		}
		for next < len(wgs) {
			req := protocol.MapWGReqBuilder{}.WithSrc(port.AsRemote()).WithDst(c.ToDispatcher.AsRemote()).WithPID(1).WithWG(wgs[next]).Build()
			if err := port.Send(req); err != nil {
				break
			}
			next++
			progress = true
		}
		return progress
	}
	simkit.Connect(engine, freq, "ConnEmu", c.ToDispatcher, port)
	disp.TickLater()
	_, livelock, pan = simkit.RunBounded(engine, int64(len(wgs))*2000+100000)
	return h.snaps, done, livelock, pan
}

// ---------------------------------------------------------------------------
// oracle

type l2Judge struct {
	rec   vlib.Recorder
	c     *regCase
	lay   sgprLayout
	n     [3]int
	wit   func(extra map[string]any) map[string]any
	fired map[string]bool // one report per mode and case
}

func (j *l2Judge) viol(mode, key, what string, extra map[string]any) {
	if j.fired[mode] {
		return
	}
	j.fired[mode] = true
	ver := "v3"
	if j.c.CO.V5 {
		ver = "v5"
	}
	k := "C08|L2|" + mode + "|" + key + "|" + ver
	if j.c.CO.Loader {
		k = "C08|loader-path|" + ver + "|" + mode + "|" + key
	}
	j.rec.Violation(k,
		fmt.Sprintf("%s: %s [grid %v, work-group %v, %s, enable_vgpr_workitem_id=%d]", mode, what, j.c.Grid, j.c.WG, ver, j.c.CO.VgprID), j.wit(extra))
}

// decodable: which local-id / group-id dimensions the code object makes
// available to a kernel.
func (j *l2Judge) decodable() (lid, gid [3]bool) {
	co := j.c.CO
	lid = [3]bool{true, co.V5 || co.VgprID >= 1, co.V5 || co.VgprID >= 2}
	gid = [3]bool{co.IDX, co.IDY, co.IDZ}
	return
}

// judgeMode checks one mode's snapshots against the work-items and returns
// the global coverage counts (nil if ids are not fully decodable or a
// violation was reported).
func (j *l2Judge) judgeMode(mode string, wgs []*kernels.WorkGroup, snaps map[*kernels.Wavefront]*regSnap) (lanes int64) {
	co := j.c.CO
	lid, gid := j.decodable()
	coverable := true
	for d := 0; d < 3; d++ {
		if (!lid[d] && j.c.WG[d] > 1) || (!gid[d] && j.n[d] > 1) {
			coverable = false
		}
	}
	var cover []uint8
	if coverable {
		cover = make([]uint8, int(j.c.Grid[0])*int(j.c.Grid[1])*int(j.c.Grid[2]))
	}
	dn := []string{"x", "y", "z"}
	for _, wg := range wgs {
		gidWant := [3]int{wg.IDX, wg.IDY, wg.IDZ}
		for wi, wf := range wg.Wavefronts {
			s := snaps[wf]
			ids := map[string]any{"wg": gidWant, "wavefront": wi, "first_wi_flat_id": wf.FirstWiFlatID}
			if s == nil || !s.ok {
				j.viol(mode, "wavefront-not-initialised", fmt.Sprintf("wavefront %d of work-group %v never got its registers", wi, gidWant), ids)
				return lanes
			}
			if s.exec != wf.InitExecMask {
				j.viol(mode, "exec", fmt.Sprintf("EXEC = %#x, the grid builder's mask is %#x (wavefront %d of work-group %v)", s.exec, wf.InitExecMask, wi, gidWant), ids)
				return lanes
			}
			if want := uint64(l2CodeAddr + co.EntryOff); s.pc != want {
				j.viol(mode, "pc", fmt.Sprintf("PC = %#x, expected kernel object + entry offset = %#x", s.pc, want), ids)
				return lanes
			}
			// scalar registers
			if p := j.lay.dispPtr; p >= 0 {
				if got := uint64(s.s[p]) | uint64(s.s[p+1])<<32; got != 0x3000 {
					j.viol(mode, "dispatch-ptr-sgpr", fmt.Sprintf("s[%d:%d] = %#x, expected the packet address 0x3000", p, p+1, got), ids)
					return lanes
				}
			}
			if p := j.lay.kernarg; p >= 0 {
				if got := uint64(s.s[p]) | uint64(s.s[p+1])<<32; got != 0x2000 {
					j.viol(mode, "kernarg-ptr-sgpr", fmt.Sprintf("s[%d:%d] = %#x, expected the kernarg address 0x2000", p, p+1, got), ids)
					return lanes
				}
			}
			for d := 0; d < 3; d++ {
				if p := j.lay.cnt[d]; p >= 0 && int(s.s[p]) != j.n[d] {
					j.viol(mode, "grid-wg-count-"+dn[d]+"-sgpr", fmt.Sprintf("s%d = %d, expected the number of work-groups in %s = %d", p, s.s[p], dn[d], j.n[d]), ids)
					return lanes
				}
			}
			var gidGot [3]int
			for d := 0; d < 3; d++ {
				if p := j.lay.id[d]; p >= 0 {
					gidGot[d] = int(s.s[p])
					if gidGot[d] != gidWant[d] {
						j.viol(mode, "wg-id-"+dn[d]+"-sgpr", fmt.Sprintf("s%d = %d, expected work-group id %s = %d (work-group %v)", p, s.s[p], dn[d], gidWant[d], gidWant), ids)
						return lanes
					}
				}
			}
			for p := 0; p < l2SRegs; p++ {
				modelled := p == j.lay.dispPtr || p == j.lay.dispPtr+1 && j.lay.dispPtr >= 0 || p == j.lay.kernarg || p == j.lay.kernarg+1 && j.lay.kernarg >= 0
				for d := 0; d < 3; d++ {
					modelled = modelled || p == j.lay.cnt[d] || p == j.lay.id[d]
				}
				if !modelled && !j.lay.unjudged[p] && s.s[p] != 0 {
					j.viol(mode, fmt.Sprintf("unexpected-value-in-sgpr-outside-layout"), fmt.Sprintf("s%d = %#x although the enabled SGPRs end at s%d", p, s.s[p], j.lay.used-1), ids)
					return lanes
				}
			}
			// vector registers: lane l is member work-item FirstWiFlatID + l
			member := map[int]*kernels.WorkItem{}
			for _, it := range wf.WorkItems {
				member[it.FlattenedID()-wf.FirstWiFlatID] = it
			}
			for l := 0; l < 64; l++ {
				if s.exec&(uint64(1)<<uint(l)) == 0 {
					continue
				}
				it := member[l]
				if it == nil {
					j.viol(mode, "enabled-lane-without-work-item", fmt.Sprintf("lane %d of wavefront %d of work-group %v is enabled but no member work-item has flat id %d", l, wi, gidWant, wf.FirstWiFlatID+l), ids)
					return lanes
				}
				lanes++
				want := [3]int{it.IDX, it.IDY, it.IDZ}
				var got [3]int
				if co.V5 {
					got = [3]int{int(s.v[l][0] & 0x3ff), int(s.v[l][0] >> 10 & 0x3ff), int(s.v[l][0] >> 20 & 0x3ff)}
					if s.v[l][0]>>30 != 0 {
						j.viol(mode, "packed-id-high-bits", fmt.Sprintf("lane %d: packed v0 = %#x has bits above 29 set", l, s.v[l][0]), ids)
						return lanes
					}
				} else {
					got = [3]int{int(s.v[l][0]), int(s.v[l][1]), int(s.v[l][2])}
				}
				for d := 0; d < 3; d++ {
					if !lid[d] {
						// not provided to the kernel: the register must be untouched
						if got[d] != 0 {
							j.viol(mode, "lane-id-"+dn[d]+"-written-although-disabled", fmt.Sprintf("lane %d: v%d = %d although enable_vgpr_workitem_id = %d", l, d, got[d], co.VgprID), ids)
							return lanes
						}
						continue
					}
					if got[d] != want[d] {
						ids["lane"] = l
						j.viol(mode, "lane-id-"+dn[d], fmt.Sprintf("lane %d of wavefront %d of work-group %v (work-item flat id %d) is work-item %v, its registers decode to %v", l, wi, gidWant, wf.FirstWiFlatID+l, want, got), ids)
						return lanes
					}
				}
				if cover != nil {
					g := [3]int{gidGot[0]*int(j.c.WG[0]) + got[0], gidGot[1]*int(j.c.WG[1]) + got[1], gidGot[2]*int(j.c.WG[2]) + got[2]}
					if g[0] >= int(j.c.Grid[0]) || g[1] >= int(j.c.Grid[1]) || g[2] >= int(j.c.Grid[2]) {
						j.viol(mode, "global-id-outside-grid", fmt.Sprintf("lane %d of wavefront %d of work-group %v computes global id %v outside the grid", l, wi, gidWant, g), ids)
						return lanes
					}
					ci := (g[2]*int(j.c.Grid[1])+g[1])*int(j.c.Grid[0]) + g[0]
					if cover[ci] < 255 {
						cover[ci]++
					}
				}
			}
		}
	}
	if cover != nil {
		gx, gy := int(j.c.Grid[0]), int(j.c.Grid[1])
		for i, c := range cover {
			if c != 1 {
				j.viol(mode, fmt.Sprintf("global-id-covered-%d-times", imin(int(c), 2)),
					fmt.Sprintf("global id (%d,%d,%d) is computed by %d enabled lanes", i%gx, i/gx%gy, i/gx/gy, c), nil)
				return lanes
			}
		}
		j.rec.Count("l2_"+mode+"_grids_covered_exactly", 1)
	}
	return lanes
}

// compare: emulation == timing, register by register.
func (j *l2Judge) compare(wgs []*kernels.WorkGroup, es, ts map[*kernels.Wavefront]*regSnap) {
	for _, wg := range wgs {
		for wi, wf := range wg.Wavefronts {
			e, t := es[wf], ts[wf]
			if e == nil || t == nil {
				continue // reported per mode
			}
			ids := map[string]any{"wg": [3]int{wg.IDX, wg.IDY, wg.IDZ}, "wavefront": wi}
			if e.exec != t.exec {
				j.viol("emu-vs-timing", "exec", fmt.Sprintf("EXEC: emulation %#x, timing %#x", e.exec, t.exec), ids)
				return
			}
			if e.pc != t.pc {
				j.viol("emu-vs-timing", "pc", fmt.Sprintf("PC: emulation %#x, timing %#x", e.pc, t.pc), ids)
				return
			}
			for p := 0; p < l2SRegs; p++ {
				if e.s[p] != t.s[p] {
					j.viol("emu-vs-timing", fmt.Sprintf("sgpr%d", p), fmt.Sprintf("s%d: emulation %#x, timing %#x (wavefront %d of work-group %v)", p, e.s[p], t.s[p], wi, ids["wg"]), ids)
					return
				}
			}
			for l := 0; l < 64; l++ {
				for r := 0; r < l2VRegs; r++ {
					if e.v[l][r] != t.v[l][r] {
						ids["lane"] = l
						j.viol("emu-vs-timing", fmt.Sprintf("vgpr%d", r), fmt.Sprintf("v%d lane %d: emulation %#x, timing %#x (wavefront %d of work-group %v)", r, l, e.v[l][r], t.v[l][r], wi, ids["wg"]), ids)
						return
					}
				}
			}
			j.rec.Count("l2_wavefronts_compared", 1)
		}
	}
}

// loaderHandOff: the code object the loader returns must have the version of
// the image and must tell the compute units to initialise at least the id
// registers the image enables (the loader may add ids, it must not drop one).
func loaderHandOff(rec vlib.Recorder, c *regCase, co *insts.KernelCodeObject, wit func(map[string]any) map[string]any) bool {
	ver, want := "v3", insts.CodeObjectV3
	if c.CO.V5 {
		ver, want = "v5", insts.CodeObjectV5
	}
	pre := "C08|loader-path|" + ver + "|loader|"
	if co == nil || co.KernelCodeObjectMeta == nil {
		rec.Violation(pre+"no-code-object", "the loader returned no code object for a well-formed single-kernel image", wit(nil))
		return false
	}
	if co.Version != want {
		rec.Violation(pre+"wrong-code-object-version", fmt.Sprintf("the %s image was loaded as code object version %v", ver, co.Version), wit(nil))
		return false
	}
	if !bytes.Equal(co.Data, []byte{0x00, 0x00, 0x81, 0xBF}) {
		rec.Violation(pre+"wrong-instruction-bytes", fmt.Sprintf("the loaded kernel has %d instruction bytes % x, the image's kernel is s_endpgm", len(co.Data), co.Data[:imin(len(co.Data), 8)]), wit(nil))
		return false
	}
	ok := true
	for d, p := range []struct {
		img, got bool
	}{{c.CO.IDX, co.EnableSgprWorkGroupIDX()}, {c.CO.IDY, co.EnableSgprWorkGroupIDY()}, {c.CO.IDZ, co.EnableSgprWorkGroupIDZ()}} {
		if p.img && !p.got {
			n := []string{"x", "y", "z"}[d]
			rec.Violation(pre+"enable-sgpr-workgroup-id-"+n+"-dropped", fmt.Sprintf("the image enables the work-group id %s SGPR, the loaded code object does not (compute_pgm_rsrc2 = %#x)", n, co.ComputePgmRsrc2), wit(nil))
			ok = false
		}
	}
	if int(co.EnableVgprWorkItemID()) < c.CO.VgprID {
		rec.Violation(pre+"enable-vgpr-workitem-id-lowered", fmt.Sprintf("the image has enable_vgpr_workitem_id = %d, the loaded code object %d", c.CO.VgprID, co.EnableVgprWorkItemID()), wit(nil))
		ok = false
	}
	if ok {
		rec.Count("l2_loader_handoffs_checked", 1)
	}
	// the register-level oracle still runs: it shows the consequence
	return true
}

func runL2(rec vlib.Recorder, c *regCase) {
	rec.Eval()
	rec.Count("l2_cases", 1)
	wit := func(extra map[string]any) map[string]any {
		m := map[string]any{"case": c}
		for k, v := range extra {
			m[k] = v
		}
		return m
	}
	co := c.CO.codeObject()
	if c.CO.Loader && !loaderHandOff(rec, c, co, wit) {
		return
	}
	pkt := mkPacket(c.Grid, c.WG)
	pkt.KernelObject = l2CodeAddr
	pkt.KernargAddress = 0x2000
	info := kernels.KernelLaunchInfo{CodeObject: co, Packet: pkt, PacketAddr: 0x3000}
	_, wgs := produce(info, -1, -1)
	j := &l2Judge{rec: rec, c: c, lay: c.CO.layout(), n: numWGs(c.Grid, c.WG), wit: wit, fired: map[string]bool{}}
	nWf := 0
	for _, w := range wgs {
		nWf += len(w.Wavefronts)
	}
	rec.Count("l2_work_groups", int64(len(wgs)))
	rec.Count("l2_wavefronts", int64(nWf))

	ts, pan := timingRegs(wgs)
	if pan != nil {
		j.viol("timing", "crash", fmt.Sprintf("the timing dispatcher panicked: %v", pan), nil)
	} else {
		rec.Count("l2_timing_lanes", j.judgeMode("timing", wgs, ts))
	}
	es, done, livelock, pan := emuRegs(wgs)
	switch {
	case pan != nil:
		j.viol("emu", "crash", fmt.Sprintf("the emulation compute unit panicked: %v", pan), nil)
	case livelock || done != len(wgs):
		rec.Inconclusive(fmt.Sprintf("L2 %s: emulation run did not complete (%d of %d work-groups, livelock=%v)", c.Name, done, len(wgs), livelock))
	default:
		rec.Count("l2_emu_lanes", j.judgeMode("emu", wgs, es))
	}
	if ts != nil && es != nil {
		j.compare(wgs, es, ts)
	}
	ver := "v3"
	if c.CO.V5 {
		ver = "v5"
	}
	rec.Distinct("l2_class", classOf(c.Grid, c.WG)+"/"+ver+fmt.Sprintf("/vgprid%d", c.CO.VgprID))
	rec.Distinct("l2_sgpr_layout", fmt.Sprintf("%+v", c.CO.layout()))
	if int(c.WG[0])*int(c.WG[1])%64 != 0 && c.WG[2] > 1 {
		rec.Count("l2_cases_3d_xy_plane_not_multiple_of_64", 1)
	}
	if c.CO.V5 {
		rec.Count("l2_cases_v5", 1)
	} else {
		rec.Count("l2_cases_v3", 1)
	}
	if c.CO.Loader {
		n := numWGs(c.Grid, c.WG)
		rec.Count("l2_loader_cases_"+ver, 1)
		if n[1] > 1 && c.CO.IDY {
			rec.Count("l2_loader_"+ver+"_cases_several_wg_layers_in_y", 1)
		}
		if n[2] > 1 && c.CO.IDZ {
			rec.Count("l2_loader_"+ver+"_cases_several_wg_layers_in_z", 1)
		}
		rec.Distinct("l2_loader_enables", fmt.Sprintf("%s/x%v y%v z%v/vgprid%d", ver, c.CO.IDX, c.CO.IDY, c.CO.IDZ, c.CO.VgprID))
	}
	if nontrivial(c.Grid, c.WG) {
		rec.Nontrivial(fmt.Sprintf("L2/%v/%v/%+v", c.Grid, c.WG, c.CO))
	}
}
