package main

import (
	"encoding/json"
	"fmt"
	"os"
	"sort"
	"sync"
	"sync/atomic"
	"time"

	"github.com/sarchlab/akita/v4/sim"
	"github.com/sarchlab/mgpusim/v4/amd/driver"
	"github.com/sarchlab/mgpusim/v4/amd/insts"
	"github.com/sarchlab/mgpusim/v4/amd/protocol"
	"github.com/sarchlab/mgpusim/v4/amd/timing/cp"

	"verifharness/vlib"
	"verifharness/vlib/plat"
)

// ---------------------------------------------------------------------------
// layer 6: launch histories that mix device kinds in ONE simulation. The 3-D
// counting kernel of layer 5 (loaded from its V3 image) is launched, through
// the real driver, alternately on unified multi-GPU devices (the driver gives
// every member GPU's LaunchKernelReq a work-group filter) and directly on
// member and non-member GPUs (no filter), serially (every launch lands on the
// first dispatcher of its command processor) or through two queues per device,
// on the emulation platform and on the r9nano timing platform, under every
// dispatching algorithm. Oracle per launch: every element of the grid holds
// init+1 (guard behind it untouched) and the MapWGReqs that carry the launch's
// packet geometry, over all command processors, name every work-group exactly
// once and only on GPUs the launch may use.

type histLaunch struct {
	// Dev < NumGPUs: plain GPU Dev+1; otherwise unified device Dev-NumGPUs
	Dev   int       `json:"dev"`
	Queue int       `json:"queue"`
	Grid  [3]uint32 `json:"grid"`
	WG    [3]uint16 `json:"wg"`
}

type histCase struct {
	L6       bool         `json:"l6"`
	Name     string       `json:"name"`
	Timing   bool         `json:"timing"`
	Alg      string       `json:"alg"`
	NDisp    int          `json:"n_dispatchers"`
	NumGPUs  int          `json:"num_gpus"`
	Unified  [][]int      `json:"unified_devices"` // member GPU ids (1-based), in CreateUnifiedGPU order
	Serial   bool         `json:"serial"`          // drain after every launch
	Launches []histLaunch `json:"launches"`
}

func (h *histCase) mode() string {
	if h.Timing {
		return "timing"
	}
	return "emu"
}

// gpusOf returns the GPUs a launch may run on and whether it is filtered.
func (h *histCase) gpusOf(l histLaunch) (gpus []int, filtered bool) {
	if l.Dev < h.NumGPUs {
		return []int{l.Dev + 1}, false
	}
	return h.Unified[l.Dev-h.NumGPUs], true
}

func nWG(l histLaunch) int {
	n := numWGs(l.Grid, l.WG)
	return n[0] * n[1] * n[2]
}

// afterFiltered: launch i is unfiltered and an earlier launch of the history
// was a filtered launch with this GPU as a member; larger: its grid has more
// work-groups than every such earlier launch (so some lie outside any earlier
// per-GPU range).
func (h *histCase) afterFiltered(i int) (after, larger bool) {
	g, filt := h.gpusOf(h.Launches[i])
	if filt {
		return false, false
	}
	larger = true
	for j := 0; j < i; j++ {
		gs, f := h.gpusOf(h.Launches[j])
		if !f {
			continue
		}
		for _, m := range gs {
			if m == g[0] {
				after = true
				if nWG(h.Launches[j]) >= nWG(h.Launches[i]) {
					larger = false
				}
			}
		}
	}
	return after, after && larger
}

type histEv struct {
	GPU  int
	Grid [3]uint32
	WG   [3]int
}

type histTap struct {
	mu  *sync.Mutex
	gpu int
	evs *[]histEv
}

func (t *histTap) Func(ctx sim.HookCtx) {
	if ctx.Pos != sim.HookPosPortMsgSend {
		return
	}
	m, ok := ctx.Item.(*protocol.MapWGReq)
	if !ok {
		return
	}
	t.mu.Lock()
	defer t.mu.Unlock()
	p := m.WorkGroup.Packet
	*t.evs = append(*t.evs, histEv{GPU: t.gpu, Grid: [3]uint32{p.GridSizeX, p.GridSizeY, p.GridSizeZ},
		WG: [3]int{m.WorkGroup.IDX, m.WorkGroup.IDY, m.WorkGroup.IDZ}})
}

// l6Rebuild replaces the dispatchers of every command processor (emulation and
// timing platforms use the same cp.CommandProcessor) and taps its ToCUs port.
func l6Rebuild(p *plat.Platform, h *histCase, mu *sync.Mutex, evs *[]histEv) {
	var cps []*cp.CommandProcessor
	cus := map[sim.RemotePort]cp.CUInterfaceForCP{}
	for _, c := range p.Sim.Components() {
		if x, ok := c.(*cp.CommandProcessor); ok {
			cps = append(cps, x)
		}
		if x, ok := c.(cp.CUInterfaceForCP); ok {
			cus[x.ControlPort()] = x
		}
	}
	sort.Slice(cps, func(i, j int) bool { return cps[i].Name() < cps[j].Name() })
	if len(cps) != h.NumGPUs {
		panic(fmt.Sprintf("harness: %d command processors for %d GPUs", len(cps), h.NumGPUs))
	}
	for g, c := range cps {
		if h.Alg != "builder-default" {
			var ordered []cp.CUInterfaceForCP
			for _, ctrl := range c.CUs {
				u := cus[ctrl]
				if u == nil {
					panic("harness: no compute unit owns control port " + string(ctrl))
				}
				ordered = append(ordered, u)
			}
			c.CUs = nil
			cp.VerifRebuildDispatchers(c, h.Alg, h.NDisp)
			for _, u := range ordered {
				c.RegisterCU(u)
			}
		}
		c.ToCUs.AcceptHook(&histTap{mu: mu, gpu: g + 1, evs: evs})
	}
}

func l6Child() {
	var h histCase
	if err := json.Unmarshal([]byte(os.Args[2]), &h); err != nil {
		panic(err)
	}
	rec := vlib.ChildRec()
	sim.GetIDGenerator()
	seen := map[string]bool{}
	viol := func(li int, key, what string, extra map[string]any) {
		tag := "plain-launch"
		if _, filt := h.gpusOf(h.Launches[li]); filt {
			tag = "filtered-launch"
		} else if after, _ := h.afterFiltered(li); after {
			tag = "unfiltered-after-filtered-launch"
		}
		k := "C08|L4|history|" + h.mode() + "|" + key + "|" + tag
		if seen[k] {
			return
		}
		seen[k] = true
		w := map[string]any{"case": h, "launch": li}
		for a, b := range extra {
			w[a] = b
		}
		gs, _ := h.gpusOf(h.Launches[li])
		rec.Violation(k, fmt.Sprintf("[%s, %s, %s] launch %d (grid %v, work-group %v, GPUs %v): %s", h.Name, h.mode(), h.Alg, li, h.Launches[li].Grid, h.Launches[li].WG, gs, what), w)
	}
	var mu sync.Mutex
	var evs []histEv
	p := plat.Build(plat.Config{Timing: h.Timing, NumGPUs: h.NumGPUs})
	l6Rebuild(p, &h, &mu, &evs)
	cnt := &l4Counter{}
	if hk, ok := p.Engine.(sim.Hookable); ok {
		hk.AcceptHook(cnt)
	}
	drv := p.Driver
	drv.Run()
	ctx := drv.Init()
	devID := make([]int, h.NumGPUs+len(h.Unified))
	for g := 0; g < h.NumGPUs; g++ {
		devID[g] = g + 1
	}
	for k, members := range h.Unified {
		devID[h.NumGPUs+k] = drv.CreateUnifiedGPU(ctx, append([]int(nil), members...))
	}
	var drained int32
	go func() { // logical deadlock predicate, as in layer 4
		stable, last := 0, int64(-1)
		for atomic.LoadInt32(&drained) == 0 {
			time.Sleep(100 * time.Millisecond)
			running, kicked := drv.VerifEngineState()
			n := atomic.LoadInt64(&cnt.n)
			if !running && !kicked && n == last && atomic.LoadInt32(&drained) == 0 {
				stable++
			} else {
				stable = 0
			}
			last = n
			if stable >= 50 {
				rec.Note("verdict", "deadlock")
				os.Exit(0)
			}
		}
	}()
	im := l5Image(false)
	img := im.build()
	type qkey struct{ dev, q int }
	queues := map[qkey]*driver.CommandQueue{}
	cos := map[qkey]*insts.KernelCodeObject{}
	type st struct {
		out  driver.Ptr
		init []uint32
	}
	sts := make([]st, len(h.Launches))
	for i, l := range h.Launches {
		drv.SelectGPU(ctx, devID[l.Dev])
		n := int(l.Grid[0])*int(l.Grid[1])*int(l.Grid[2]) + l4Guard
		sts[i].init = make([]uint32, n)
		for j := range sts[i].init {
			sts[i].init[j] = l4Init(i, j)
		}
		sts[i].out = drv.AllocateMemory(ctx, uint64(4*n))
		drv.MemCopyH2D(ctx, sts[i].out, sts[i].init)
		k := qkey{l.Dev, l.Queue}
		if queues[k] == nil {
			queues[k] = drv.CreateCommandQueue(ctx)
			cos[k] = insts.LoadKernelCodeObjectFromBytes(img, im.Name)
		}
		args := l5Args{Out: sts[i].out, StrideY: l.Grid[0], StrideZ: l.Grid[0] * l.Grid[1], WGX: uint32(l.WG[0]), WGY: uint32(l.WG[1]), WGZ: uint32(l.WG[2])}
		drv.EnqueueLaunchKernel(queues[k], cos[k], l.Grid, l.WG, &args)
		if h.Serial {
			drv.DrainCommandQueue(queues[k])
		}
	}
	if !h.Serial {
		var wg sync.WaitGroup
		for _, q := range queues {
			wg.Add(1)
			go func(q *driver.CommandQueue) { defer wg.Done(); drv.DrainCommandQueue(q) }(q)
		}
		wg.Wait()
	}
	atomic.StoreInt32(&drained, 1)

	// trace oracle
	mu.Lock()
	all := append([]histEv(nil), evs...)
	mu.Unlock()
	byGrid := map[[3]uint32][]histEv{}
	for _, e := range all {
		byGrid[e.Grid] = append(byGrid[e.Grid], e)
	}
	rec.Count("l6_map_wg_reqs", int64(len(all)))
	for i, l := range h.Launches {
		n := numWGs(l.Grid, l.WG)
		gs, filt := h.gpusOf(l)
		allowed := map[int]bool{}
		for _, g := range gs {
			allowed[g] = true
		}
		times := make([]int, n[0]*n[1]*n[2])
		usedGPU := map[int]bool{}
		for _, e := range byGrid[l.Grid] {
			if !allowed[e.GPU] {
				viol(i, "work-group-mapped-on-foreign-gpu", fmt.Sprintf("work-group %v was mapped on GPU %d", e.WG, e.GPU), map[string]any{"wg": e.WG})
				continue
			}
			if e.WG[0] < 0 || e.WG[0] >= n[0] || e.WG[1] < 0 || e.WG[1] >= n[1] || e.WG[2] < 0 || e.WG[2] >= n[2] {
				viol(i, "dispatched-work-group-outside-grid", fmt.Sprintf("work-group %v mapped on GPU %d is outside the %v work-groups", e.WG, e.GPU, n), map[string]any{"wg": e.WG})
				continue
			}
			usedGPU[e.GPU] = true
			f := flatWG(wgID(e.WG), n)
			times[f]++
			if times[f] == 2 {
				viol(i, "work-group-dispatched-twice", fmt.Sprintf("work-group %v was mapped twice (second time on GPU %d)", e.WG, e.GPU), map[string]any{"wg": e.WG})
			}
		}
		missing, firstMissing := 0, -1
		for f, t := range times {
			if t == 0 {
				if missing == 0 {
					firstMissing = f
				}
				missing++
			}
		}
		if missing > 0 {
			w := [3]int{firstMissing % n[0], firstMissing / n[0] % n[1], firstMissing / n[0] / n[1]}
			viol(i, "work-group-never-dispatched", fmt.Sprintf("the launch completed, but %d of its %d work-groups were never mapped to a compute unit, first %v (flat %d)", missing, len(times), w, firstMissing),
				map[string]any{"missing": missing, "first_missing": w})
		}
		if filt && len(usedGPU) > 1 {
			rec.Count("l6_filtered_launches_on_several_gpus", 1)
		}
	}
	// buffer oracle
	for i, l := range h.Launches {
		drv.SelectGPU(ctx, devID[l.Dev])
		got := make([]uint32, len(sts[i].init))
		drv.MemCopyD2H(ctx, got, sts[i].out)
		gx, gy := int(l.Grid[0]), int(l.Grid[1])
		total := gx * gy * int(l.Grid[2])
		cnts, first := map[string]int{}, map[string]int{}
		for j := range got {
			d := got[j] - sts[i].init[j]
			kind := ""
			switch {
			case j >= total && d != 0:
				kind = "element-outside-grid-modified"
			case j >= total || d == 1:
			case d == 0:
				kind = "work-item-never-executed"
			case d <= 64:
				kind = "work-item-executed-more-than-once"
			default:
				kind = "counter-element-corrupted"
			}
			if kind != "" {
				if cnts[kind] == 0 {
					first[kind] = j
				}
				cnts[kind]++
			}
		}
		for kind, c := range cnts {
			j := first[kind]
			co3 := [3]int{j % gx, j / gx % gy, j / gx / gy}
			wg3 := [3]int{co3[0] / int(l.WG[0]), co3[1] / int(l.WG[1]), co3[2] / int(l.WG[2])}
			viol(i, kind, fmt.Sprintf("%d of %d elements; first: work-item %v of work-group %v holds init+%d", c, total, co3, wg3, got[j]-sts[i].init[j]),
				map[string]any{"work_item": co3, "wg": wg3})
		}
		_, filt := h.gpusOf(l)
		after, larger := h.afterFiltered(i)
		rec.Count("l6_launches", 1)
		rec.Count("l6_launches_"+h.mode(), 1)
		rec.Count("l6_work_items_checked", int64(total))
		if filt {
			rec.Count("l6_filtered_launches", 1)
		}
		if after {
			rec.Count("l6_unfiltered_launches_after_filtered_on_same_gpu", 1)
			rec.Count("l6_unfiltered_launches_after_filtered_on_same_gpu_"+h.mode(), 1)
		}
		if larger {
			rec.Count("l6_unfiltered_launches_after_filtered_with_larger_grid", 1)
			rec.Count("l6_unfiltered_launches_after_filtered_with_larger_grid_"+h.mode(), 1)
		}
		if l.Grid[1] > 1 {
			rec.Count("l6_launches_2d_or_3d", 1)
		}
	}
	rec.Distinct("l6_shape", fmt.Sprintf("%s/%s/serial=%v/gpus%d/unified%d", h.mode(), h.Alg, h.Serial, h.NumGPUs, len(h.Unified)))
	rec.Note("verdict", "done")
	os.Exit(0)
}

// ---------------------------------------------------------------------------
// parent

// uniqueHistGrids makes the grid triple unique within the case (the trace
// attributes a MapWGReq to a launch by its packet's geometry).
func uniqueHistGrids(h *histCase) {
	seen := map[[3]uint32]bool{}
	for i := range h.Launches {
		for seen[h.Launches[i].Grid] {
			h.Launches[i].Grid[0]++
		}
		seen[h.Launches[i].Grid] = true
	}
}

func canonicalHist() []*histCase {
	one := [3]uint16{64, 1, 1}
	// the seventh-round demonstration's shape: a small launch on unified
	// {1,2}, then a much larger one on GPU 1 alone (and on GPU 2, whose old
	// range does not even start at work-group 0)
	seedShape := []histLaunch{
		{Dev: 2, Grid: [3]uint32{1024, 1, 1}, WG: one},
		{Dev: 0, Grid: [3]uint32{16384, 1, 1}, WG: one},
		{Dev: 1, Grid: [3]uint32{640, 1, 1}, WG: one},
		{Dev: 2, Grid: [3]uint32{9000, 1, 1}, WG: [3]uint16{128, 1, 1}},
		{Dev: 1, Grid: [3]uint32{40, 33, 1}, WG: [3]uint16{8, 8, 1}},
	}
	mixed := []histLaunch{
		{Dev: 3, Grid: [3]uint32{50, 21, 1}, WG: [3]uint16{16, 4, 1}}, // unified {1,2,3}
		{Dev: 2, Grid: [3]uint32{3000, 1, 1}, WG: one},                // GPU 3 (member)
		{Dev: 4, Grid: [3]uint32{700, 1, 1}, WG: one, Queue: 1},       // unified {3,1}
		{Dev: 0, Grid: [3]uint32{64, 40, 1}, WG: [3]uint16{16, 8, 1}}, // GPU 1
		{Dev: 1, Grid: [3]uint32{10, 7, 9}, WG: [3]uint16{4, 3, 2}},   // GPU 2
		{Dev: 3, Grid: [3]uint32{5000, 1, 1}, WG: one, Queue: 1},      // unified again
		{Dev: 2, Grid: [3]uint32{33, 17, 1}, WG: [3]uint16{8, 4, 1}, Queue: 1},
	}
	cs := []*histCase{
		{Name: "canon-history-seed-shape", Timing: false, Alg: "builder-default", NDisp: 8, NumGPUs: 2, Unified: [][]int{{1, 2}}, Serial: true, Launches: seedShape},
		{Name: "canon-history-seed-shape", Timing: true, Alg: "builder-default", NDisp: 8, NumGPUs: 2, Unified: [][]int{{1, 2}}, Serial: true, Launches: seedShape},
		{Name: "canon-history-seed-shape-partition", Timing: true, Alg: "partition", NDisp: 1, NumGPUs: 2, Unified: [][]int{{1, 2}}, Serial: true, Launches: seedShape},
		{Name: "canon-history-3gpu-two-unified", Timing: false, Alg: "round-robin", NDisp: 2, NumGPUs: 3, Unified: [][]int{{1, 2, 3}, {3, 1}}, Serial: true, Launches: mixed},
		{Name: "canon-history-3gpu-two-unified-queues", Timing: true, Alg: "greedy", NDisp: 4, NumGPUs: 3, Unified: [][]int{{1, 2, 3}, {3, 1}}, Serial: false, Launches: mixed},
	}
	for _, c := range cs {
		c.L6 = true
		c.Launches = append([]histLaunch(nil), c.Launches...)
		uniqueHistGrids(c)
	}
	return cs
}

func genHist(r *vlib.PRNG, idx int, thorough bool) *histCase {
	h := &histCase{L6: true, Name: fmt.Sprintf("hist%d", idx), Timing: idx%2 == 1}
	h.Alg = []string{"builder-default", "partition", "round-robin", "greedy", "partition", "builder-default"}[(idx/2)%6]
	h.NDisp = []int{1, 2, 4, 8}[r.Intn(4)]
	h.NumGPUs = 2 + r.Intn(3)
	nu := 1 + r.Intn(2)
	for k := 0; k < nu; k++ {
		m := 2 + r.Intn(h.NumGPUs-1)
		perm := r.Perm(h.NumGPUs)
		var mem []int
		for i := 0; i < m; i++ {
			mem = append(mem, perm[i]+1)
		}
		h.Unified = append(h.Unified, mem)
	}
	h.Serial = r.Chance(2, 3)
	nl := 5 + r.Intn(3)
	if thorough {
		nl = 6 + r.Intn(6)
	}
	budget := 40000
	small := true
	for i := 0; i < nl; i++ {
		var l histLaunch
		// alternate: filtered launch, then unfiltered launches on its members
		if i%3 == 0 {
			l.Dev = h.NumGPUs + r.Intn(nu)
		} else if r.Chance(3, 4) {
			mem := h.Unified[r.Intn(nu)]
			l.Dev = mem[r.Intn(len(mem))] - 1
		} else {
			l.Dev = r.Intn(h.NumGPUs)
		}
		if !h.Serial {
			l.Queue = r.Intn(2)
		}
		if r.Chance(1, 2) {
			l.WG = [3]uint16{[]uint16{64, 128, 256, 48}[r.Intn(4)], 1, 1}
			n := 200 + r.Intn(1500)
			if !small {
				n = 4000 + r.Intn(8000)
			}
			l.Grid = [3]uint32{uint32(n), 1, 1}
		} else {
			wg := [][3]uint16{{16, 4, 1}, {8, 8, 1}, {32, 2, 1}, {4, 4, 4}, {10, 5, 1}}[r.Intn(5)]
			l.WG = wg
			k := 3
			if !small {
				k = 9
			}
			for d := 0; d < 3; d++ {
				l.Grid[d] = uint32((k-1)*int(wg[d]) + 1 + r.Intn(int(wg[d])*2))
				if wg[d] == 1 {
					l.Grid[d] = 1
				}
			}
		}
		small = !small // the launch after a small one is large
		pts := int(l.Grid[0]) * int(l.Grid[1]) * int(l.Grid[2])
		if pts > budget {
			l.Grid[0] = l.Grid[0]*uint32(budget)/uint32(pts) + 1
		}
		h.Launches = append(h.Launches, l)
	}
	uniqueHistGrids(h)
	return h
}

func l6Cases(c *vlib.Check) []any {
	var out []any
	for _, h := range canonicalHist() {
		out = append(out, h)
	}
	if os.Getenv("C08_ONLY_CANONICAL") != "" {
		return out
	}
	base := c.Rand("l6")
	for i := 0; i < c.N(8, 60); i++ {
		out = append(out, genHist(base.ForkN("h", i), i, c.Thorough()))
	}
	return out
}

var l6Scratch struct {
	once sync.Once
	dir  string
}

func runL6(c *vlib.Check, h *histCase) {
	l6Scratch.once.Do(func() { l6Scratch.dir, _ = vlib.Scratch("c08l6") })
	js, _ := json.Marshal(h)
	res := vlib.RunChild(l6Scratch.dir, 20*time.Minute, []string{"GOMAXPROCS=2"}, "l6child", string(js))
	defer os.RemoveAll(res.Dir)
	notes := c.AbsorbFile(res.RecPath)
	c.Eval()
	c.Count("l6_cases", 1)
	wit := map[string]any{"case": h}
	verdict := ""
	if v := notes["verdict"]; len(v) > 0 {
		verdict, _ = v[0].(string)
	}
	pre := "C08|L4|history|" + h.mode() + "|"
	switch {
	case res.TimedOut:
		c.Inconclusive(fmt.Sprintf("L6 %s (%s): watchdog fired", h.Name, h.mode()))
	case verdict == "deadlock":
		c.Violation(pre+"kernel-never-completes", fmt.Sprintf("[%s, %s, %s] the engine went idle while kernel launches were outstanding", h.Name, h.mode(), h.Alg), wit)
	case verdict != "done":
		line := l4PanicLine(vlib.Tail(res.OutPath, 6000))
		wit["failure"] = line
		c.Violation(pre+"crash|"+l4Sanitize(line), fmt.Sprintf("[%s, %s, %s] the run crashed: %s", h.Name, h.mode(), h.Alg, line), wit)
	default:
		c.Count("l6_cases_completed", 1)
		c.Nontrivial("L6/" + h.Name + "/" + h.mode())
	}
}

func l6Cleanup() {
	if l6Scratch.dir != "" {
		_ = os.RemoveAll(l6Scratch.dir)
	}
}
