package main

import (
	"fmt"

	"github.com/sarchlab/mgpusim/v4/amd/insts"
	"github.com/sarchlab/mgpusim/v4/amd/kernels"

	"verifharness/vlib"
)

type wgID [3]int

func numWGs(grid [3]uint32, wg [3]uint16) [3]int {
	var n [3]int
	for d := 0; d < 3; d++ {
		n[d] = (int(grid[d]) + int(wg[d]) - 1) / int(wg[d])
	}
	return n
}

// flatWG is the row-major work-group number (x fastest), the numbering the
// driver's multi-GPU filter uses.
func flatWG(id wgID, n [3]int) int { return id[2]*n[0]*n[1] + id[1]*n[0] + id[0] }

func mkPacket(grid [3]uint32, wg [3]uint16) *kernels.HsaKernelDispatchPacket {
	return &kernels.HsaKernelDispatchPacket{
		WorkgroupSizeX: wg[0], WorkgroupSizeY: wg[1], WorkgroupSizeZ: wg[2],
		GridSizeX: grid[0], GridSizeY: grid[1], GridSizeZ: grid[2],
	}
}

func mkCodeObject() *insts.KernelCodeObject {
	return &insts.KernelCodeObject{KernelCodeObjectMeta: &insts.KernelCodeObjectMeta{KernargSegmentByteSize: 16},
		Data: []byte{0x00, 0x00, 0x81, 0xBF}, Version: insts.CodeObjectV3}
}

// produce runs a fresh real grid builder: Skip(skip) is called first (not at
// all if skip < 0), then at most take work-groups are taken (take < 0: to
// exhaustion).
func produce(info kernels.KernelLaunchInfo, skip, take int) (numWG int, wgs []*kernels.WorkGroup) {
	gb := kernels.NewGridBuilder()
	gb.SetKernel(info)
	numWG = gb.NumWG()
	if skip >= 0 {
		gb.Skip(skip)
	}
	for take < 0 || len(wgs) < take {
		w := gb.NextWG()
		if w == nil {
			break
		}
		wgs = append(wgs, w)
	}
	return numWG, wgs
}

// judge is the oracle shared by all layers.
type judge struct {
	rec    vlib.Recorder
	layer  string
	grid   [3]uint32
	wg     [3]uint16
	n      [3]int
	wit    func(extra map[string]any) map[string]any
	failed bool
	// knownSig: a work-group showed the signature of the defect confirmed on
	// the pinned tree; lane-level consequences of THAT work-group are not
	// reported a second time.
	knownSig   int
	cover      []uint8 // global coverage counts (nil: not kept)
	lanes      int64
	wavefronts int64
}

func newJudge(rec vlib.Recorder, layer string, grid [3]uint32, wg [3]uint16, wit func(map[string]any) map[string]any) *judge {
	j := &judge{rec: rec, layer: layer, grid: grid, wg: wg, n: numWGs(grid, wg), wit: wit}
	j.cover = make([]uint8, int(grid[0])*int(grid[1])*int(grid[2]))
	return j
}

func (j *judge) viol(key, what string, extra map[string]any) {
	j.failed = true
	j.rec.Violation("C08|"+j.layer+"|"+key, what+fmt.Sprintf(" [grid %v, work-group %v]", j.grid, j.wg), j.wit(extra))
}

func imin(a, b int) int {
	if a < b {
		return a
	}
	return b
}

// checkWG validates one produced work-group: header, wavefront membership,
// lane masks and exact coverage of its (clipped) box.
func (j *judge) checkWG(w *kernels.WorkGroup) bool {
	id := wgID{w.IDX, w.IDY, w.IDZ}
	ids := map[string]any{"wg": id}
	for d := 0; d < 3; d++ {
		if id[d] < 0 || id[d] >= j.n[d] {
			j.viol("wg-id-outside-grid", fmt.Sprintf("work-group %v produced, grid has %v work-groups", id, j.n), ids)
			return false
		}
	}
	size := [3]int{w.SizeX, w.SizeY, w.SizeZ}
	curr := [3]int{w.CurrSizeX, w.CurrSizeY, w.CurrSizeZ}
	for d, nm := range []string{"x", "y", "z"} {
		if size[d] != int(j.wg[d]) {
			j.viol("wg-size-field-wrong|"+nm, fmt.Sprintf("work-group %v Size%s = %d", id, nm, size[d]), ids)
			return false
		}
		want := imin(int(j.wg[d]), int(j.grid[d])-id[d]*int(j.wg[d]))
		if curr[d] != want {
			j.viol("partial-size-wrong|"+nm, fmt.Sprintf("work-group %v CurrSize%s = %d, expected %d", id, nm, curr[d], want), ids)
			return false
		}
	}
	if len(w.WorkItems) != curr[0]*curr[1]*curr[2] {
		j.viol("work-item-count", fmt.Sprintf("work-group %v has %d work-items, its box has %d", id, len(w.WorkItems), curr[0]*curr[1]*curr[2]), ids)
		return false
	}
	sxy := size[0] * size[1]
	local := make([]uint8, curr[0]*curr[1]*curr[2])
	for wi, wf := range w.Wavefronts {
		j.wavefronts++
		ids := map[string]any{"wg": id, "wavefront": wi, "first_wi_flat_id": wf.FirstWiFlatID, "exec": fmt.Sprintf("%#016x", wf.InitExecMask), "members": len(wf.WorkItems)}
		if wf.WG != w {
			j.viol("wavefront-wrong-wg", "wavefront does not point to its work-group", ids)
			return false
		}
		// members, as flat ids
		member := map[int]bool{}
		for _, it := range wf.WorkItems {
			f := it.IDX + it.IDY*size[0] + it.IDZ*sxy
			if it.IDX < 0 || it.IDX >= curr[0] || it.IDY < 0 || it.IDY >= curr[1] || it.IDZ < 0 || it.IDZ >= curr[2] {
				j.viol("member-outside-box", fmt.Sprintf("wavefront %d of work-group %v holds work-item (%d,%d,%d) outside the group's box %v", wi, id, it.IDX, it.IDY, it.IDZ, curr), ids)
				return false
			}
			if f < wf.FirstWiFlatID {
				j.viol("wavefront-member-before-first-lane", fmt.Sprintf("wavefront %d of work-group %v starts at flat id %d but holds work-item (%d,%d,%d) with flat id %d", wi, id, wf.FirstWiFlatID, it.IDX, it.IDY, it.IDZ, f), ids)
				return false
			}
			if f >= wf.FirstWiFlatID+64 {
				// signature of the defect confirmed on the pinned tree
				j.knownSig++
				out, miss := j.consequences(w)
				ids["lanes_decoding_outside_the_grid_in_this_wg"] = out
				ids["grid_points_of_this_wg_not_covered_exactly_once"] = miss
				ids["wavefronts_formed"] = len(w.Wavefronts)
				ids["wavefronts_needed"] = neededWavefronts(size, curr)
				part := "full"
				if curr != size {
					part = "partial"
				}
				j.failed = true
				j.rec.Violation("C08|wavefront-holds-work-item-of-later-64-block|"+part+"-wg",
					fmt.Sprintf("wavefront %d of work-group %v starts at flat id %d but holds work-item (%d,%d,%d) with flat id %d: no wavefront was started for that 64-block (%d wavefronts formed, %d needed); %d enabled lanes of the group decode outside the grid, %d of its grid points are not covered exactly once",
						wi, id, wf.FirstWiFlatID, it.IDX, it.IDY, it.IDZ, f, len(w.Wavefronts), neededWavefronts(size, curr), out, miss)+
						fmt.Sprintf(" [%s, grid %v, work-group %v]", j.layer, j.grid, j.wg), j.wit(ids))
				return false
			}
			if member[f] {
				j.viol("member-twice-in-wavefront", fmt.Sprintf("work-item flat id %d is twice in wavefront %d of work-group %v", f, wi, id), ids)
				return false
			}
			member[f] = true
		}
		for l := 0; l < 64; l++ {
			en := wf.InitExecMask&(uint64(1)<<uint(l)) != 0
			f := wf.FirstWiFlatID + l
			if en != member[f] {
				if en {
					j.viol("lane-enabled-for-non-member", fmt.Sprintf("lane %d of wavefront %d of work-group %v is enabled but work-item %d is not a member", l, wi, id, f), ids)
				} else {
					j.viol("member-lane-not-enabled", fmt.Sprintf("work-item %d is a member of wavefront %d of work-group %v but lane %d is disabled", f, wi, id, l), ids)
				}
				return false
			}
			if !en {
				continue
			}
			j.lanes++
			// the decomposition both compute units use
			z := f / sxy
			y := f % sxy / size[0]
			x := f % sxy % size[0]
			g := [3]int{id[0]*size[0] + x, id[1]*size[1] + y, id[2]*size[2] + z}
			if z >= size[2] || g[0] >= int(j.grid[0]) || g[1] >= int(j.grid[1]) || g[2] >= int(j.grid[2]) {
				j.viol("lane-enabled-outside-grid", fmt.Sprintf("lane %d of wavefront %d of work-group %v decodes to global id %v outside the grid", l, wi, id, g), ids)
				return false
			}
			local[(z*curr[1]+y)*curr[0]+x]++
			ci := (g[2]*int(j.grid[1])+g[1])*int(j.grid[0]) + g[0]
			if j.cover[ci] < 255 {
				j.cover[ci]++
			}
		}
	}
	for i, c := range local {
		if c != 1 {
			x, y, z := i%curr[0], i/curr[0]%curr[1], i/curr[0]/curr[1]
			j.viol(fmt.Sprintf("work-item-covered-%d-times", imin(int(c), 2)),
				fmt.Sprintf("work-item (%d,%d,%d) of work-group %v is covered by %d enabled lanes", x, y, z, id, c), ids)
			return false
		}
	}
	return true
}

func neededWavefronts(size, curr [3]int) int {
	blocks := map[int]bool{}
	for z := 0; z < curr[2]; z++ {
		for y := 0; y < curr[1]; y++ {
			for x := 0; x < curr[0]; x++ {
				blocks[(x+y*size[0]+z*size[0]*size[1])/64] = true
			}
		}
	}
	return len(blocks)
}

// consequences counts, for the witness, what the lanes of a work-group decode
// to: lanes outside the grid and grid points of the group's box not covered
// exactly once.
func (j *judge) consequences(w *kernels.WorkGroup) (outside, notOnce int) {
	size := [3]int{w.SizeX, w.SizeY, w.SizeZ}
	curr := [3]int{w.CurrSizeX, w.CurrSizeY, w.CurrSizeZ}
	sxy := size[0] * size[1]
	local := make([]int, curr[0]*curr[1]*curr[2])
	for _, wf := range w.Wavefronts {
		for l := 0; l < 64; l++ {
			if wf.InitExecMask&(uint64(1)<<uint(l)) == 0 {
				continue
			}
			f := wf.FirstWiFlatID + l
			z, y, x := f/sxy, f%sxy/size[0], f%sxy%size[0]
			if x >= curr[0] || y >= curr[1] || z >= curr[2] {
				outside++
				continue
			}
			local[(z*curr[1]+y)*curr[0]+x]++
		}
	}
	for _, c := range local {
		if c != 1 {
			notOnce++
		}
	}
	return
}

// checkSet: the produced work-groups are exactly those selected, each once,
// and NumWG announced that number.
func (j *judge) checkSet(numWG int, wgs []*kernels.WorkGroup, sel func(id wgID) bool, fk string) (ok bool) {
	seen := map[wgID]bool{}
	for _, w := range wgs {
		id := wgID{w.IDX, w.IDY, w.IDZ}
		if seen[id] {
			j.viol("wg-produced-twice|filter-"+fk, fmt.Sprintf("work-group %v was produced twice", id), map[string]any{"wg": id})
			return false
		}
		seen[id] = true
		if !sel(id) {
			j.viol("wg-produced-against-filter|filter-"+fk, fmt.Sprintf("work-group %v was produced although the filter rejects it", id), map[string]any{"wg": id})
			return false
		}
	}
	want := 0
	for z := 0; z < j.n[2]; z++ {
		for y := 0; y < j.n[1]; y++ {
			for x := 0; x < j.n[0]; x++ {
				id := wgID{x, y, z}
				if !sel(id) {
					continue
				}
				want++
				if !seen[id] {
					j.viol("wg-never-produced|filter-"+fk, fmt.Sprintf("work-group %v is selected but was never produced", id), map[string]any{"wg": id})
					return false
				}
			}
		}
	}
	if numWG != len(wgs) {
		j.viol("numwg-differs-from-produced|filter-"+fk, fmt.Sprintf("NumWG() = %d, NextWG produced %d work-groups (selected: %d)", numWG, len(wgs), want),
			map[string]any{"num_wg": numWG, "produced": len(wgs)})
		return false
	}
	return true
}

// checkCoverage: global multiset of ids over enabled lanes (all work-groups
// judged so far) against the selection.
func (j *judge) checkCoverage(sel func(id wgID) bool) bool {
	if j.knownSig > 0 || j.failed {
		return false
	}
	gx, gy := int(j.grid[0]), int(j.grid[1])
	for i, c := range j.cover {
		x, y, z := i%gx, i/gx%gy, i/gx/gy
		id := wgID{x / int(j.wg[0]), y / int(j.wg[1]), z / int(j.wg[2])}
		want := uint8(0)
		if sel(id) {
			want = 1
		}
		if c != want {
			j.viol(fmt.Sprintf("global-id-covered-%d-times-expected-%d", imin(int(c), 2), want),
				fmt.Sprintf("global id (%d,%d,%d) is covered by %d enabled lanes, expected %d", x, y, z, c, want), nil)
			return false
		}
	}
	return true
}
