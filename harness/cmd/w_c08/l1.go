package main

import (
	"fmt"
	"os"

	"github.com/sarchlab/mgpusim/v4/amd/kernels"

	"verifharness/vlib"
)

// ---------------------------------------------------------------------------
// layer 1: the grid builder alone

type filterSpec struct {
	Kind string `json:"kind"` // none | range | mod | hash | nothing
	Lo   int    `json:"lo,omitempty"`
	Hi   int    `json:"hi,omitempty"`
	M    int    `json:"m,omitempty"`
	R    int    `json:"r,omitempty"`
	Salt uint64 `json:"salt,omitempty"`
}

type geomCase struct {
	Name   string     `json:"name"`
	Grid   [3]uint32  `json:"grid"`
	WG     [3]uint16  `json:"wg"`
	Filter filterSpec `json:"filter"`
	// Parts > 0: additionally re-enumerate through Parts builders that Skip
	// to their share, as the partition dispatcher does; SkipAt: additionally
	// Skip(k) then iterate to the end, for each k.
	Parts  int   `json:"parts,omitempty"`
	SkipAt []int `json:"skip_at,omitempty"`
}

func (f filterSpec) sel(n [3]int) func(id wgID) bool {
	switch f.Kind {
	case "range":
		return func(id wgID) bool { k := flatWG(id, n); return k >= f.Lo && k < f.Hi }
	case "mod":
		return func(id wgID) bool { return flatWG(id, n)%f.M == f.R }
	case "hash":
		return func(id wgID) bool {
			x := uint64(flatWG(id, n))*0x9e3779b97f4a7c15 ^ f.Salt
			x ^= x >> 29
			x *= 0xbf58476d1ce4e5b9
			x ^= x >> 32
			return x&3 != 0
		}
	case "nothing":
		return func(wgID) bool { return false }
	}
	return func(wgID) bool { return true }
}

var wgPool = []int{1, 1, 2, 3, 4, 5, 6, 7, 8, 10, 12, 16, 16, 24, 32, 48, 64, 64, 96, 100, 128, 192, 256, 512, 1024}

func pickWGDim(r *vlib.PRNG, budget int) int {
	for {
		v := wgPool[r.Intn(len(wgPool))]
		if v <= budget {
			return v
		}
	}
}

func genGeom(r *vlib.PRNG, idx, maxN, maxPoints int) *geomCase {
	g := &geomCase{Name: fmt.Sprintf("g%d", idx)}
	dims := 1 + r.Intn(3)
	wg := [3]int{1, 1, 1}
	budget := 1024
	order := r.Perm(dims)
	for _, d := range order {
		b := budget
		if dims > 1 && r.Chance(2, 3) && b > 64 {
			b = 64 // leave room for the other dimensions most of the time
		}
		wg[d] = pickWGDim(r, b)
		budget /= wg[d]
	}
	grid := [3]int{1, 1, 1}
	for d := 0; d < dims; d++ {
		k := 1 + r.Intn(6)
		switch r.Intn(8) {
		case 0:
			grid[d] = k * wg[d]
		case 1:
			grid[d] = k*wg[d] + 1
		case 2:
			grid[d] = k*wg[d] - 1
		case 3:
			grid[d] = 1 + r.Intn(wg[d]) // at most one group
		case 4:
			grid[d] = wg[d] + 1 + r.Intn(wg[d]) // one full and one partial group
		default:
			grid[d] = 1 + r.Intn(maxN)
		}
		if grid[d] < 1 {
			grid[d] = 1
		}
		if grid[d] > maxN {
			grid[d] = maxN
		}
	}
	for grid[0]*grid[1]*grid[2] > maxPoints {
		// shrink the largest dimension, keeping its residue class half of the time
		d := 0
		for e := 1; e < 3; e++ {
			if grid[e] > grid[d] {
				d = e
			}
		}
		grid[d] = grid[d]/2 + 1
	}
	for d := 0; d < 3; d++ {
		g.Grid[d] = uint32(grid[d])
		g.WG[d] = uint16(wg[d])
	}
	n := numWGs(g.Grid, g.WG)
	total := n[0] * n[1] * n[2]
	switch r.Intn(8) {
	case 0, 1:
		lo := r.Intn(total + 1)
		hi := lo + r.Intn(total-lo+2)
		g.Filter = filterSpec{Kind: "range", Lo: lo, Hi: hi}
	case 2:
		m := 2 + r.Intn(5)
		g.Filter = filterSpec{Kind: "mod", M: m, R: r.Intn(m)}
	case 3:
		g.Filter = filterSpec{Kind: "hash", Salt: r.Uint64()}
	case 4:
		if r.Chance(1, 4) {
			g.Filter = filterSpec{Kind: "nothing"}
		} else {
			g.Filter = filterSpec{Kind: "none"}
		}
	default:
		g.Filter = filterSpec{Kind: "none"}
	}
	if r.Chance(1, 3) {
		g.Parts = 1 + r.Intn(8)
	}
	if r.Chance(1, 3) {
		for i := 0; i < 3; i++ {
			g.SkipAt = append(g.SkipAt, r.Intn(total+3))
		}
	}
	return g
}

func canonicalGeoms() []*geomCase {
	mk := func(name string, grid [3]uint32, wg [3]uint16) *geomCase {
		return &geomCase{Name: name, Grid: grid, WG: wg, Filter: filterSpec{Kind: "none"}, Parts: 3, SkipAt: []int{0, 1, 2}}
	}
	out := []*geomCase{
		mk("canon-100x4-wg48x4", [3]uint32{100, 4, 1}, [3]uint16{48, 4, 1}),
		mk("canon-4x4x8-wg4x3x8", [3]uint32{4, 4, 8}, [3]uint16{4, 3, 8}),
		mk("canon-1d-64", [3]uint32{64, 1, 1}, [3]uint16{64, 1, 1}),
		mk("canon-1d-250-wg100", [3]uint32{250, 1, 1}, [3]uint16{100, 1, 1}),
		mk("canon-1d-200-wg192", [3]uint32{200, 1, 1}, [3]uint16{192, 1, 1}),
		mk("canon-1d-1", [3]uint32{1, 1, 1}, [3]uint16{1, 1, 1}),
		mk("canon-1d-5-wg64", [3]uint32{5, 1, 1}, [3]uint16{64, 1, 1}),
		mk("canon-1d-1025-wg1024", [3]uint32{1025, 1, 1}, [3]uint16{1024, 1, 1}),
		mk("canon-2d-100x100-wg16x16", [3]uint32{100, 100, 1}, [3]uint16{16, 16, 1}),
		mk("canon-2d-33x7-wg8x8", [3]uint32{33, 7, 1}, [3]uint16{8, 8, 1}),
		mk("canon-2d-96x3-wg96x2", [3]uint32{96, 3, 1}, [3]uint16{96, 2, 1}),
		mk("canon-2d-192x5-wg192x5", [3]uint32{192, 5, 1}, [3]uint16{192, 5, 1}),
		mk("canon-3d-10x10x10-wg4x4x4", [3]uint32{10, 10, 10}, [3]uint16{4, 4, 4}),
		mk("canon-3d-9x5x7-wg3x5x7", [3]uint32{9, 5, 7}, [3]uint16{3, 5, 7}),
		mk("canon-3d-20x6x6-wg5x3x2", [3]uint32{20, 6, 6}, [3]uint16{5, 3, 2}),
	}
	f := mk("canon-2d-70x9-wg16x4-range", [3]uint32{70, 9, 1}, [3]uint16{16, 4, 1})
	f.Filter = filterSpec{Kind: "range", Lo: 4, Hi: 11}
	out = append(out, f)
	f = mk("canon-2d-70x9-wg16x4-nothing", [3]uint32{70, 9, 1}, [3]uint16{16, 4, 1})
	f.Filter = filterSpec{Kind: "nothing"}
	out = append(out, f)
	return out
}

func l1Cases(c *vlib.Check) []any {
	var out []any
	for _, g := range canonicalGeoms() {
		out = append(out, g)
	}
	n := c.N(3000, 40000)
	if os.Getenv("C08_ONLY_CANONICAL") != "" { // debugging aid
		n = 0
	}
	maxN := c.N(300, 2000)
	maxPts := c.N(40000, 150000)
	base := c.Rand("l1")
	for i := 0; i < n; i++ {
		out = append(out, genGeom(base.ForkN("g", i), i, maxN, maxPts))
	}
	return out
}

func idsOf(wgs []*kernels.WorkGroup) []wgID {
	out := make([]wgID, len(wgs))
	for i, w := range wgs {
		out[i] = wgID{w.IDX, w.IDY, w.IDZ}
	}
	return out
}

func runL1(rec vlib.Recorder, g *geomCase) {
	rec.Eval()
	rec.Count("l1_geometries", 1)
	wit := func(extra map[string]any) map[string]any {
		m := map[string]any{"case": g}
		for k, v := range extra {
			m[k] = v
		}
		return m
	}
	j := newJudge(rec, "L1", g.Grid, g.WG, wit)
	sel := g.Filter.sel(j.n)
	info := kernels.KernelLaunchInfo{CodeObject: mkCodeObject(), Packet: mkPacket(g.Grid, g.WG), PacketAddr: 0x1000}
	fk := g.Filter.Kind
	if fk != "none" {
		info.WGFilter = func(_ *kernels.HsaKernelDispatchPacket, w *kernels.WorkGroup) bool {
			return sel(wgID{w.IDX, w.IDY, w.IDZ})
		}
		rec.Count("l1_filtered_cases", 1)
	}
	numWG, wgs := produce(info, -1, -1)
	rec.Count("l1_work_groups", int64(len(wgs)))
	for _, w := range wgs {
		j.checkWG(w)
	}
	rec.Count("l1_wavefronts", j.wavefronts)
	rec.Count("l1_work_items", j.lanes)
	if j.checkSet(numWG, wgs, sel, fk) {
		j.checkCoverage(sel)
	}
	full := idsOf(wgs)

	// the same enumeration through Skip, as the partition algorithm does it
	if g.Parts > 0 {
		rec.Count("l1_skip_cases", 1)
		per := 1
		if numWG > 0 {
			per = (numWG-1)/g.Parts + 1
		}
		for p := 0; p < g.Parts; p++ {
			_, part := produce(info, p*per, per)
			lo, hi := imin(p*per, len(full)), imin((p+1)*per, len(full))
			if !sameIDs(idsOf(part), full[lo:hi]) {
				j.viol("skip-partition-differs|filter-"+fk,
					fmt.Sprintf("builder %d of %d after Skip(%d) produced %v, plain iteration gives %v at those positions", p, g.Parts, p*per, short(idsOf(part)), short(full[lo:hi])),
					map[string]any{"partition": p, "per": per})
				break
			}
		}
	}
	for _, k := range g.SkipAt {
		rec.Count("l1_skip_offsets", 1)
		_, rest := produce(info, k, -1)
		lo := imin(k, len(full))
		if !sameIDs(idsOf(rest), full[lo:]) {
			j.viol("skip-offset-differs|filter-"+fk,
				fmt.Sprintf("after Skip(%d) the builder produced %d work-groups starting %v, plain iteration has %d left starting %v", k, len(rest), short(idsOf(rest)), len(full)-lo, short(full[lo:])),
				map[string]any{"skip": k})
			break
		}
	}
	cl := classOf(g.Grid, g.WG)
	rec.Distinct("l1_class", cl)
	rec.Count("l1_class:"+cl, 1)
	rec.Distinct("filter_kind", fk)
	if nontrivial(g.Grid, g.WG) {
		rec.Nontrivial(fmt.Sprintf("%v/%v", g.Grid, g.WG))
	}
	rec.Sample(map[string]any{"case": g, "class": cl, "work_groups": len(wgs), "num_wg": numWG, "wavefronts": j.wavefronts, "lanes": j.lanes})
}

func sameIDs(a, b []wgID) bool {
	if len(a) != len(b) {
		return false
	}
	for i := range a {
		if a[i] != b[i] {
			return false
		}
	}
	return true
}

func short(a []wgID) []wgID {
	if len(a) > 4 {
		return a[:4]
	}
	return a
}
