package main

import (
	"fmt"
	"os"

	"github.com/sarchlab/mgpusim/v4/amd/driver"
	"github.com/sarchlab/mgpusim/v4/amd/kernels"

	"verifharness/vlib"
	"verifharness/vlib/drvkit"
)

// ---------------------------------------------------------------------------
// layer 3: the filters the real driver builds for a unified multi-GPU device

type drvCase struct {
	Name    string    `json:"name"`
	CUs     []int     `json:"cu_counts"` // one entry per registered GPU
	Members []int     `json:"members"`   // GPU ids bundled by CreateUnifiedGPU, in this order
	Grid    [3]uint32 `json:"grid"`
	WG      [3]uint16 `json:"wg"`
}

func genDrvCase(r *vlib.PRNG, idx, maxN, maxPts int) *drvCase {
	d := &drvCase{Name: fmt.Sprintf("d%d", idx)}
	n := 2 + r.Intn(3)
	for i := 0; i < n; i++ {
		d.CUs = append(d.CUs, []int{1, 2, 3, 4, 5, 7, 8, 12, 16, 36, 64}[r.Intn(11)])
	}
	// make sure the counts are not all equal
	if allEqual(d.CUs) {
		d.CUs[0] += 1 + r.Intn(3)
	}
	k := 2 + r.Intn(n-1)
	perm := r.Perm(n)
	for i := 0; i < k; i++ {
		d.Members = append(d.Members, perm[i]+1)
	}
	g := genGeom(r.Fork("geom"), idx, maxN, maxPts)
	d.Grid, d.WG = g.Grid, g.WG
	return d
}

func allEqual(a []int) bool {
	for _, v := range a {
		if v != a[0] {
			return false
		}
	}
	return true
}

func canonicalDrv() []*drvCase {
	return []*drvCase{
		{Name: "canon-2gpu-4-12cu-1d", CUs: []int{4, 12}, Members: []int{1, 2}, Grid: [3]uint32{1000, 1, 1}, WG: [3]uint16{64, 1, 1}},
		{Name: "canon-3gpu-2d", CUs: []int{3, 5, 7}, Members: []int{3, 1, 2}, Grid: [3]uint32{100, 37, 1}, WG: [3]uint16{16, 4, 1}},
		{Name: "canon-4gpu-3d-few-wgs", CUs: []int{64, 36, 8, 1}, Members: []int{1, 2, 3, 4}, Grid: [3]uint32{9, 5, 7}, WG: [3]uint16{3, 5, 7}},
		{Name: "canon-2of3-one-wg", CUs: []int{2, 3, 4}, Members: []int{2, 3}, Grid: [3]uint32{5, 1, 1}, WG: [3]uint16{64, 1, 1}},
	}
}

func l3Cases(c *vlib.Check) []any {
	var out []any
	for _, d := range canonicalDrv() {
		out = append(out, d)
	}
	n := c.N(200, 5000)
	if os.Getenv("C08_ONLY_CANONICAL") != "" {
		n = 0
	}
	base := c.Rand("l3")
	for i := 0; i < n; i++ {
		out = append(out, genDrvCase(base.ForkN("d", i), i, c.N(200, 1000), c.N(20000, 100000)))
	}
	return out
}

func runL3(rec vlib.Recorder, d *drvCase) {
	rec.Eval()
	rec.Count("l3_cases", 1)
	wit := func(extra map[string]any) map[string]any {
		m := map[string]any{"case": d}
		for k, v := range extra {
			m[k] = v
		}
		return m
	}
	var props []driver.DeviceProperties
	for _, cu := range d.CUs {
		props = append(props, driver.DeviceProperties{CUCount: cu, DRAMSize: 256 * 4096})
	}
	rig := drvkit.NewRig(drvkit.Options{Log2Page: 12, GPUs: props, Connected: true, MagicCopy: true})
	drv := rig.Driver
	co := drvkit.TinyKernel()
	var q *driver.CommandQueue
	func() {
		defer func() {
			if x := recover(); x != nil {
				rec.Violation("C08|L3|crash-enqueue", fmt.Sprintf("driver panicked while enqueueing a launch on a unified device: %v", x), wit(nil))
				q = nil
			}
		}()
		ctx := drv.Init()
		uid := drv.CreateUnifiedGPU(ctx, append([]int(nil), d.Members...))
		drv.SelectGPU(ctx, uid)
		q = drv.CreateCommandQueue(ctx)
		drv.EnqueueLaunchKernel(q, co, d.Grid, d.WG, &drvkit.TinyArgs{})
	}()
	if q == nil {
		return
	}
	nEv, livelock, pv, st := rig.RunDriver(1000000)
	rec.Count("l3_engine_events", nEv)
	if pv != nil {
		rec.Violation("C08|L3|crash-launch", fmt.Sprintf("driver panicked while splitting a launch over the GPUs of a unified device: %v", pv), wit(map[string]any{"stack": st}))
		return
	}
	if livelock || q.NumCommand() != 0 {
		rec.Inconclusive(fmt.Sprintf("L3 %s: launch did not complete against the fake command processors (livelock=%v, %d commands left)", d.Name, livelock, q.NumCommand()))
		return
	}
	reqs := rig.CP.Launches
	rec.Count("l3_launch_reqs", int64(len(reqs)))
	j := newJudge(rec, "L3", d.Grid, d.WG, wit)
	isMember := map[int]bool{}
	for _, m := range d.Members {
		isMember[m] = true
	}
	owner := map[wgID]int{} // work-group -> GPU
	gpuSeen := map[int]bool{}
	sumNumWG := 0
	for i, req := range reqs {
		gpu := rig.CP.LaunchGPU[i]
		if !isMember[gpu] || gpuSeen[gpu] {
			j.viol("launch-sent-to-wrong-gpu", fmt.Sprintf("a LaunchKernelReq went to GPU %d (members %v, already seen: %v)", gpu, d.Members, gpuSeen[gpu]), nil)
			return
		}
		gpuSeen[gpu] = true
		p := req.Packet
		if p == nil || p.GridSizeX != d.Grid[0] || p.GridSizeY != d.Grid[1] || p.GridSizeZ != d.Grid[2] ||
			p.WorkgroupSizeX != d.WG[0] || p.WorkgroupSizeY != d.WG[1] || p.WorkgroupSizeZ != d.WG[2] {
			j.viol("launch-packet-geometry", fmt.Sprintf("the packet sent to GPU %d does not carry the requested geometry: %+v", gpu, p), nil)
			return
		}
		if req.WGFilter == nil {
			j.viol("launch-without-filter", fmt.Sprintf("the LaunchKernelReq for GPU %d of a %d-GPU unified device has no work-group filter", gpu, len(d.Members)), nil)
			return
		}
		rec.Count("l3_filters_exercised", 1)
		info := kernels.KernelLaunchInfo{CodeObject: req.CodeObject, Packet: req.Packet, PacketAddr: req.PacketAddress, WGFilter: req.WGFilter}
		numWG, wgs := produce(info, -1, -1)
		sumNumWG += numWG
		mine := map[wgID]bool{}
		for _, w := range wgs {
			id := wgID{w.IDX, w.IDY, w.IDZ}
			if g2, dup := owner[id]; dup {
				j.viol("wg-given-to-two-gpus", fmt.Sprintf("work-group %v is selected by the filters of GPU %d and GPU %d", id, g2, gpu), map[string]any{"wg": id})
				return
			}
			owner[id] = gpu
			mine[id] = true
			j.checkWG(w)
		}
		// the filter as a predicate over all work-groups must agree with
		// what the builder produced and announced
		sel := func(id wgID) bool {
			return req.WGFilter(req.Packet, &kernels.WorkGroup{IDX: id[0], IDY: id[1], IDZ: id[2]})
		}
		if !j.checkSet(numWG, wgs, sel, "driver") {
			return
		}
		if len(wgs) > 0 {
			rec.Count("l3_nonempty_shares", 1)
		} else {
			rec.Count("l3_empty_shares", 1)
		}
	}
	total := j.n[0] * j.n[1] * j.n[2]
	if len(owner) != total || sumNumWG != total {
		// find a missing one for the witness
		var miss wgID
		for z := 0; z < j.n[2]; z++ {
			for y := 0; y < j.n[1]; y++ {
				for x := 0; x < j.n[0]; x++ {
					if _, ok := owner[wgID{x, y, z}]; !ok {
						miss = wgID{x, y, z}
					}
				}
			}
		}
		j.viol("wg-given-to-no-gpu", fmt.Sprintf("%d of %d work-groups are covered by the per-GPU filters (sum of NumWG %d); e.g. %v is on no GPU", len(owner), total, sumNumWG, miss),
			map[string]any{"requests": len(reqs)})
		return
	}
	j.checkCoverage(func(wgID) bool { return true })
	rec.Count("l3_work_groups", int64(total))
	rec.Count("l3_work_items", j.lanes)
	rec.Distinct("l3_gpus", fmt.Sprint(len(d.Members)))
	rec.Distinct("l3_class", classOf(d.Grid, d.WG))
	if nontrivial(d.Grid, d.WG) {
		rec.Nontrivial(fmt.Sprintf("L3/%v/%v/%v/%v", d.Grid, d.WG, d.CUs, d.Members))
	}
}
