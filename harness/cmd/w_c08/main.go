// w_c08: the dispatch grid is partitioned exactly into work-groups,
// wavefronts and lanes (DESIGN.md, C08).
//
// Layers (same oracle: set arithmetic over global ids):
//
//	L1  the real kernels.GridBuilder under random and boundary geometries,
//	    with and without work-group filters, iterated directly and through
//	    Skip(k) the way the partition dispatcher does;
//	L2  hardware-initialised registers of every wavefront in both execution
//	    modes: the real timing WfDispatcher on a real compute unit's register
//	    files, and a real emulation compute unit fed with MapWGReqs;
//	L3  the real driver's multi-GPU split: WGFilter closures taken from the
//	    LaunchKernelReqs a real driver.Driver sends for a unified device;
//	L4  a counting kernel on the real r9nano timing platform with the command
//	    processors' dispatchers rebuilt to each dispatching algorithm
//	    (partition with work stealing, round-robin, greedy): final counters and
//	    the MapWGReq multiset per launch.
package main

import (
	"encoding/json"
	"fmt"
	"io"
	"log"
	"os"
	"strings"
	"sync"

	"verifharness/vlib"
	"verifharness/vlib/kern"
)

// layer is one family of cases. Cases returns the list for the tier (a pure
// function of seed and tier); Run judges one case.
type layer struct {
	Name    string
	Cases   func(c *vlib.Check) []any
	Run     func(rec vlib.Recorder, cs any)
	Workers int // concurrent cases (0 = one per CPU)
	// Background layers are started first and run beside the others.
	Background bool
	// First cases (the canonical battery) finish before the others start, so
	// that their witnesses are the recorded ones.
	First func() int
}

var layers = []layer{
	{Name: "L4", Cases: l4Cases, Run: func(rec vlib.Recorder, cs any) { runL4(rec.(*vlib.Check), cs.(*dispCase)) }, Workers: 8, Background: true, First: func() int { return len(canonicalDisp()) }},
	{Name: "L6", Cases: l6Cases, Run: func(rec vlib.Recorder, cs any) { runL6(rec.(*vlib.Check), cs.(*histCase)) }, Workers: 5, Background: true, First: func() int { return len(canonicalHist()) }},
	{Name: "L5", Cases: l5Cases, Run: func(rec vlib.Recorder, cs any) { runL5(rec.(*vlib.Check), cs.(*ldCase)) }, Workers: 4, Background: true, First: func() int { return len(l5Platforms) }},
	{Name: "L1", Cases: l1Cases, Run: func(rec vlib.Recorder, cs any) { runL1(rec, cs.(*geomCase)) }},
	{Name: "L2", Cases: l2Cases, Run: func(rec vlib.Recorder, cs any) { runL2(rec, cs.(*regCase)) }},
	{Name: "L3", Cases: l3Cases, Run: func(rec vlib.Recorder, cs any) { runL3(rec, cs.(*drvCase)) }},
}

// replay re-executes the case stored in a replay file.
func replay(c *vlib.Check, b []byte) {
	var f struct {
		Witness struct {
			Case json.RawMessage `json:"case"`
		} `json:"witness"`
	}
	if err := json.Unmarshal(b, &f); err != nil || f.Witness.Case == nil {
		fmt.Println("cannot parse replay:", err)
		os.Exit(2)
	}
	if strings.Contains(string(f.Witness.Case), "\"l6\":true") || strings.Contains(string(f.Witness.Case), "\"l6\": true") {
		var d histCase
		_ = json.Unmarshal(f.Witness.Case, &d)
		runL6(c, &d)
		l6Cleanup()
	} else if strings.Contains(string(f.Witness.Case), "\"l5\":true") || strings.Contains(string(f.Witness.Case), "\"l5\": true") {
		var d ldCase
		_ = json.Unmarshal(f.Witness.Case, &d)
		runL5(c, &d)
		l5Cleanup()
	} else if strings.Contains(string(f.Witness.Case), "\"l4\":true") || strings.Contains(string(f.Witness.Case), "\"l4\": true") {
		var d dispCase
		_ = json.Unmarshal(f.Witness.Case, &d)
		runL4(c, &d)
		l4Cleanup()
	} else if strings.Contains(string(f.Witness.Case), "\"l2\":true") || strings.Contains(string(f.Witness.Case), "\"l2\": true") {
		var r regCase
		_ = json.Unmarshal(f.Witness.Case, &r)
		runL2(c, &r)
	} else if strings.Contains(string(f.Witness.Case), "cu_counts") {
		var d drvCase
		_ = json.Unmarshal(f.Witness.Case, &d)
		runL3(c, &d)
	} else {
		var g geomCase
		_ = json.Unmarshal(f.Witness.Case, &g)
		runL1(c, &g)
	}
	c.Finish(vlib.FinishOpts{Rule: "replay of one recorded case"})
}

func main() {
	if os.Getenv("C08_L4_DUMP") != "" { // development aid: the counting kernel as the simulator's decoder sees it
		lines, err := kern.Disassemble(countKernel(7, 16384, 128))
		fmt.Println(strings.Join(lines, "\n"), err)
		return
	}
	if vlib.IsChild() && len(os.Args) > 2 && os.Args[1] == "l6child" {
		l6Child()
		return
	}
	if vlib.IsChild() && len(os.Args) > 2 && os.Args[1] == "l5child" {
		l5Child()
		return
	}
	if vlib.IsChild() && len(os.Args) > 2 && os.Args[1] == "l4child" {
		l4Child()
		return
	}
	// read a replay file before vlib.Start, which removes stale replay files
	// of the same (tier, seed)
	var replayData []byte
	for i, a := range os.Args {
		if a == "--replay" && i+1 < len(os.Args) {
			b, err := os.ReadFile(os.Args[i+1])
			if err != nil {
				fmt.Println("cannot read replay:", err)
				os.Exit(2)
			}
			replayData = b
		}
	}
	// both register initialisers log "... is not supported" for some flags
	log.SetOutput(io.Discard)
	c := vlib.Start("C08")
	{
		if replayData != nil {
			replay(c, replayData)
		}
	}
	only := os.Getenv("C08_LAYERS") // e.g. "L1,L3" (debugging aid)
	// L4 spends its time in child processes (8 at a time, 2 threads each): it
	// runs beside the in-process layers
	var bg sync.WaitGroup
	for _, l := range layers {
		if only != "" && !strings.Contains(only, l.Name) {
			continue
		}
		l := l
		run := func() {
			cases := l.Cases(c)
			first := 0
			if l.First != nil {
				first = l.First()
				vlib.Parallel(first, l.Workers, func(i int) { l.Run(c, cases[i]) })
			}
			vlib.Parallel(len(cases)-first, l.Workers, func(i int) { l.Run(c, cases[first+i]) })
			c.Count("cases_"+l.Name, int64(len(cases)))
		}
		if l.Background {
			bg.Add(1)
			go func() { defer bg.Done(); run() }()
		} else {
			run()
		}
	}
	bg.Wait()
	l4Cleanup()
	l5Cleanup()
	l6Cleanup()
	c.Finish(vlib.FinishOpts{
		Rule: "case = dispatch geometry (grid 1-3 D, work-group size with product <= 1024, optional work-group filter, iteration by NextWG or by Skip partitions), " +
			"generated from VERIF_SEED plus a fixed canonical battery; every enabled lane of every wavefront of every produced work-group is decoded the way both " +
			"compute units do (work-item FirstWiFlatID+lane, decomposed by the work-group's SizeX/SizeY); L3 cases take the filters out of the LaunchKernelReqs of a real driver; " +
			"non-trivial = distinct geometry that has a partial work-group or a non-power-of-two work-group size; " +
			"L6 (keys C08|L4|history|...) case = history of 5-12 launches of the 3-D counting kernel in ONE simulation, alternating between unified multi-GPU devices (2-4 members, devices sharing members; filtered LaunchKernelReqs) " +
			"and plain launches on member / non-member GPUs (no filter), small and large grids alternating, 1-3 D, serial or two queues per device, emulation and r9nano timing platform with 2-4 GPUs, dispatchers rebuilt to every algorithm; " +
			"L5 case = 5-10 launches (1-3 D, several work-group layers in y and z) of a 3-D counting kernel whose code object is loaded from an ELF image with the real loader, on emu-gcn3 / timing-r9nano (V3 image) and emu-cdna3 / timing-mi300a (V5 image); " +
			"L4 case = 2-5 launches of a counting kernel (out[gid] += 1 after a per-work-group delay loop) through the real driver on the r9nano timing platform (1-2 GPUs, 1-2 queues) whose command processors' " +
			"dispatchers were rebuilt to partition / round-robin / greedy (or left as built); the final buffer must hold init+1 for every work-item of the grid and init behind it, and the MapWGReqs of every launch " +
			"must name every work-group exactly once; an L4 partition case is non-trivial if a compute unit received a work-group of another partition (steal)",
		Assumptions: []string{
			"lane l of a wavefront is work-item FirstWiFlatID+l with x = id % SizeX, y = id / SizeX % SizeY, z = id / (SizeX*SizeY) (emu.ComputeUnit.initWfRegs and cu.WfDispatcherImpl.initRegisters, read)",
			"grid and work-group sizes are >= 1 in every dimension; work-group size product <= 1024",
			"L3: the driver is ticked on the monitor's goroutine against fake command processors; copies use the global-storage middleware",
			"loader path (L2 cases 'via_loader', L5): the code object comes from insts.LoadKernelCodeObjectFromBytes applied to an ELF image written by the harness (amd_kernel_code_t header in .text for V2/V3; 64-byte kernel descriptor in .rodata + '<name>.kd' symbol for V5); " +
				"the expectation is taken from the image's enable bits. V5 images always enable kernarg pointer and work-group id x and y and no other user SGPR, which is the loader's documented normalisation ('work-group id z: leave as-is'); the loader may add id registers, it must not drop one the image enables. " +
				"L5 duplicates that run concurrently in timing mode can lose an increment (non-atomic read-modify-write), the work-items they replace are still seen as never executed",
			"L6: a MapWGReq is attributed to a launch by its packet's grid triple (unique within a case); a unified launch may use its member GPUs only, a plain launch its GPU only; buffers of a unified launch are allocated on the unified device",
			"L4: a work-item executed k times adds k to its own element (read-modify-write on the work-item's own dword, no other writer); a MapWGReq is attributed to a launch by the GridSizeX of its packet (unique within a case); " +
				"partition p of a launch holds work-groups [p*k, (p+1)*k) with k = ceil(NumWG/64) and belongs to the p-th registered compute unit (partitionAlgorithm.StartNewKernel, read); " +
				"the dispatchers are replaced through cp.VerifRebuildDispatchers and the platform's compute units registered again in their original order; a launch that leaves the engine idle is reported as never completing",
			"L2: registers are read right after the real initialisers ran (timing: WfDispatcherImpl.DispatchWf on the CU's register files; emulation: CU hook at the first instruction, s_endpgm); " +
				"SGPR positions follow the monitor's model of the enabled user/system SGPRs; queue-ptr and private-segment-size flags are not generated (no register reserved in either mode, C02 decision)",
		},
		MinNontrivial: 200,
		MinCounters: map[string]int64{
			"l1_geometries": 500, "l1_work_items": 1000000, "l1_wavefronts": 20000, "l1_filtered_cases": 100, "l1_skip_cases": 100,
			"l3_launch_reqs": 100, "l3_cases": 50, "l3_filters_exercised": 100,
			"l2_cases": 200, "l2_wavefronts_compared": 5000, "l2_timing_lanes": 100000, "l2_emu_lanes": 100000,
			"l2_cases_v5": 50, "l2_cases_v3": 50, "l2_cases_3d_xy_plane_not_multiple_of_64": 50,
			"l2_timing_grids_covered_exactly": 100, "l2_emu_grids_covered_exactly": 100,
			"l2_loader_cases_v3": 100, "l2_loader_cases_v5": 100, "l2_loader_handoffs_checked": 200,
			"l2_loader_v5_cases_several_wg_layers_in_z": 40, "l2_loader_v5_cases_several_wg_layers_in_y": 40,
			"l2_loader_v3_cases_several_wg_layers_in_z": 40, "l2_loader_v3_cases_several_wg_layers_in_y": 40,
			"l5_cases_completed": 8, "l5_launches_v3_emu": 7, "l5_launches_v3_timing": 7, "l5_launches_v5_emu": 7, "l5_launches_v5_timing": 7,
			"l5_v5_launches_several_wg_layers_in_z": 6, "l5_v5_launches_several_wg_layers_in_y": 6,
			"l5_v3_launches_several_wg_layers_in_z": 6, "l5_v3_launches_several_wg_layers_in_y": 6,
			"l6_cases_completed": 10, "l6_launches": 50, "l6_filtered_launches_on_several_gpus": 5,
			"l6_unfiltered_launches_after_filtered_on_same_gpu_emu": 6, "l6_unfiltered_launches_after_filtered_on_same_gpu_timing": 6,
			"l6_unfiltered_launches_after_filtered_with_larger_grid_emu": 3, "l6_unfiltered_launches_after_filtered_with_larger_grid_timing": 4,
			"l4_cases_completed": 12, "l4_launches": 25, "l4_launches_partition": 15, "l4_launches_round-robin": 2, "l4_work_items_checked": 500000,
			"l4_map_wg_reqs": 5000, "l4_partition_steals": 300, "l4_canonical_partition_steals": 150, "l4_partition_launches_with_steals": 10,
		},
	})
}

func classOf(grid [3]uint32, wg [3]uint16) string {
	dims := 1
	if grid[1] > 1 || wg[1] > 1 {
		dims = 2
	}
	if grid[2] > 1 || wg[2] > 1 {
		dims = 3
	}
	part := ""
	for d, n := range []string{"x", "y", "z"} {
		if grid[d]%uint32(wg[d]) != 0 {
			part += n
		}
	}
	if part == "" {
		part = "none"
	}
	p2 := "pow2"
	for d := 0; d < 3; d++ {
		if wg[d]&(wg[d]-1) != 0 {
			p2 = "nonpow2"
		}
	}
	return fmt.Sprintf("%dD/partial-%s/%s", dims, part, p2)
}

func nontrivial(grid [3]uint32, wg [3]uint16) bool {
	for d := 0; d < 3; d++ {
		if grid[d]%uint32(wg[d]) != 0 || wg[d]&(wg[d]-1) != 0 {
			return true
		}
	}
	return false
}
