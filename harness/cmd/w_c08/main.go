// w_c08: the dispatch grid is partitioned exactly into work-groups,
// wavefronts and lanes (DESIGN.md, C08).
//
// Layers (same oracle: set arithmetic over global ids):
//
//	L1  the real kernels.GridBuilder under random and boundary geometries,
//	    with and without work-group filters, iterated directly and through
//	    Skip(k) the way the partition dispatcher does;
//	L2  hardware-initialised registers of every wavefront in both execution
//	    modes: the real timing WfDispatcher on a real compute unit's register
//	    files, and a real emulation compute unit fed with MapWGReqs;
//	L3  the real driver's multi-GPU split: WGFilter closures taken from the
//	    LaunchKernelReqs a real driver.Driver sends for a unified device.
package main

import (
	"encoding/json"
	"fmt"
	"io"
	"log"
	"os"
	"strings"

	"verifharness/vlib"
)

// layer is one family of cases. Cases returns the list for the tier (a pure
// function of seed and tier); Run judges one case.
type layer struct {
	Name  string
	Cases func(c *vlib.Check) []any
	Run   func(rec vlib.Recorder, cs any)
}

var layers = []layer{
	{Name: "L1", Cases: l1Cases, Run: func(rec vlib.Recorder, cs any) { runL1(rec, cs.(*geomCase)) }},
	{Name: "L2", Cases: l2Cases, Run: func(rec vlib.Recorder, cs any) { runL2(rec, cs.(*regCase)) }},
	{Name: "L3", Cases: l3Cases, Run: func(rec vlib.Recorder, cs any) { runL3(rec, cs.(*drvCase)) }},
}

// replay re-executes the case stored in a replay file.
func replay(c *vlib.Check, b []byte) {
	var f struct {
		Witness struct {
			Case json.RawMessage `json:"case"`
		} `json:"witness"`
	}
	if err := json.Unmarshal(b, &f); err != nil || f.Witness.Case == nil {
		fmt.Println("cannot parse replay:", err)
		os.Exit(2)
	}
	if strings.Contains(string(f.Witness.Case), "\"l2\":true") || strings.Contains(string(f.Witness.Case), "\"l2\": true") {
		var r regCase
		_ = json.Unmarshal(f.Witness.Case, &r)
		runL2(c, &r)
	} else if strings.Contains(string(f.Witness.Case), "cu_counts") {
		var d drvCase
		_ = json.Unmarshal(f.Witness.Case, &d)
		runL3(c, &d)
	} else {
		var g geomCase
		_ = json.Unmarshal(f.Witness.Case, &g)
		runL1(c, &g)
	}
	c.Finish(vlib.FinishOpts{Rule: "replay of one recorded case"})
}

func main() {
	// read a replay file before vlib.Start, which removes stale replay files
	// of the same (tier, seed)
	var replayData []byte
	for i, a := range os.Args {
		if a == "--replay" && i+1 < len(os.Args) {
			b, err := os.ReadFile(os.Args[i+1])
			if err != nil {
				fmt.Println("cannot read replay:", err)
				os.Exit(2)
			}
			replayData = b
		}
	}
	// both register initialisers log "... is not supported" for some flags
	log.SetOutput(io.Discard)
	c := vlib.Start("C08")
	{
		if replayData != nil {
			replay(c, replayData)
		}
	}
	only := os.Getenv("C08_LAYERS") // e.g. "L1,L3" (debugging aid)
	for _, l := range layers {
		if only != "" && !strings.Contains(only, l.Name) {
			continue
		}
		cases := l.Cases(c)
		vlib.Parallel(len(cases), 0, func(i int) { l.Run(c, cases[i]) })
		c.Count("cases_"+l.Name, int64(len(cases)))
	}
	c.Finish(vlib.FinishOpts{
		Rule: "case = dispatch geometry (grid 1-3 D, work-group size with product <= 1024, optional work-group filter, iteration by NextWG or by Skip partitions), " +
			"generated from VERIF_SEED plus a fixed canonical battery; every enabled lane of every wavefront of every produced work-group is decoded the way both " +
			"compute units do (work-item FirstWiFlatID+lane, decomposed by the work-group's SizeX/SizeY); L3 cases take the filters out of the LaunchKernelReqs of a real driver; " +
			"non-trivial = distinct geometry that has a partial work-group or a non-power-of-two work-group size",
		Assumptions: []string{
			"lane l of a wavefront is work-item FirstWiFlatID+l with x = id % SizeX, y = id / SizeX % SizeY, z = id / (SizeX*SizeY) (emu.ComputeUnit.initWfRegs and cu.WfDispatcherImpl.initRegisters, read)",
			"grid and work-group sizes are >= 1 in every dimension; work-group size product <= 1024",
			"L3: the driver is ticked on the monitor's goroutine against fake command processors; copies use the global-storage middleware",
			"L2: registers are read right after the real initialisers ran (timing: WfDispatcherImpl.DispatchWf on the CU's register files; emulation: CU hook at the first instruction, s_endpgm); " +
				"SGPR positions follow the monitor's model of the enabled user/system SGPRs; queue-ptr and private-segment-size flags are not generated (no register reserved in either mode, C02 decision)",
		},
		MinNontrivial: 200,
		MinCounters: map[string]int64{
			"l1_geometries": 500, "l1_work_items": 1000000, "l1_wavefronts": 20000, "l1_filtered_cases": 100, "l1_skip_cases": 100,
			"l3_launch_reqs": 100, "l3_cases": 50, "l3_filters_exercised": 100,
			"l2_cases": 200, "l2_wavefronts_compared": 5000, "l2_timing_lanes": 100000, "l2_emu_lanes": 100000,
			"l2_cases_v5": 50, "l2_cases_v3": 50, "l2_cases_3d_xy_plane_not_multiple_of_64": 50,
			"l2_timing_grids_covered_exactly": 100, "l2_emu_grids_covered_exactly": 100,
		},
	})
}

func classOf(grid [3]uint32, wg [3]uint16) string {
	dims := 1
	if grid[1] > 1 || wg[1] > 1 {
		dims = 2
	}
	if grid[2] > 1 || wg[2] > 1 {
		dims = 3
	}
	part := ""
	for d, n := range []string{"x", "y", "z"} {
		if grid[d]%uint32(wg[d]) != 0 {
			part += n
		}
	}
	if part == "" {
		part = "none"
	}
	p2 := "pow2"
	for d := 0; d < 3; d++ {
		if wg[d]&(wg[d]-1) != 0 {
			p2 = "nonpow2"
		}
	}
	return fmt.Sprintf("%dD/partial-%s/%s", dims, part, p2)
}

func nontrivial(grid [3]uint32, wg [3]uint16) bool {
	for d := 0; d < 3; d++ {
		if grid[d]%uint32(wg[d]) != 0 || wg[d]&(wg[d]-1) != 0 {
			return true
		}
	}
	return false
}
