package main

import (
	"encoding/binary"
	"encoding/json"
	"fmt"
	"os"
	"sort"
	"strings"
	"sync"
	"sync/atomic"
	"time"

	"github.com/sarchlab/akita/v4/sim"
	"github.com/sarchlab/mgpusim/v4/amd/driver"
	"github.com/sarchlab/mgpusim/v4/amd/insts"
	"github.com/sarchlab/mgpusim/v4/amd/protocol"
	"github.com/sarchlab/mgpusim/v4/amd/timing/cp"
	"github.com/sarchlab/mgpusim/v4/amd/timing/cu"

	"verifharness/vlib"
	"verifharness/vlib/plat"
)

// ---------------------------------------------------------------------------
// layer 4: every work-item is executed exactly once by the real r9nano timing
// platform under each work-group dispatching algorithm of the command
// processor ("partition" with its work stealing, "round-robin", "greedy").
//
// The public cp.Builder hard-codes round-robin; the other algorithms are
// reached by rebuilding the dispatchers of every built command processor with
// cp.VerifRebuildDispatchers and registering the platform's own compute units
// again. A counting kernel (out[gid] += 1 after a delay loop whose trip count
// comes from a per-work-group table) runs through the real driver; the monitor
// observes (a) the final buffer: element gid must have been incremented exactly
// once, elements behind the grid not at all, and (b) every MapWGReq a command
// processor sends: the multiset of work-group ids per launch must be the grid.
// A MapWGReq of the partition algorithm whose work-group belongs to another
// partition than the receiving compute unit is a steal; runs without steals do
// not count for the partition minimums.

const l4NumCU = 64 // compute units of one r9nano GPU (checked in the child)
const l4Guard = 256

type delaySpec struct {
	// Kind: "uniform" (Fast everywhere), "fast-partitions" (work-groups of
	// partitions p with p % Mod == Rem spin Fast times, the others Slow),
	// "ramp" (Fast .. Slow growing with the work-group id), "random" (per
	// work-group, uniform in [Fast, Slow]), "random-partition" (per partition).
	Kind string `json:"kind"`
	Fast int    `json:"fast"`
	Slow int    `json:"slow"`
	Mod  int    `json:"mod,omitempty"`
	Rem  int    `json:"rem,omitempty"`
	Seed uint64 `json:"seed,omitempty"`
}

type dispLaunch struct {
	NWG    int       `json:"nwg"`     // work-groups (1-D grid)
	WGSize int       `json:"wg_size"` // 64, 128 or 256 work-items
	Tail   int       `json:"tail"`    // work-items missing from the last work-group
	LDS    int       `json:"lds"`     // group segment bytes (limits work-groups per compute unit)
	VGPR   int       `json:"vgpr"`    // VGPRs per work-item (limits wavefronts per SIMD)
	Delay  delaySpec `json:"delay"`
	Queue  int       `json:"queue"` // command queue (queues run concurrently)
	GPU    int       `json:"gpu"`   // 1-based device id
}

func (l dispLaunch) grid() int { return l.NWG*l.WGSize - l.Tail }

// perCU is the number of work-groups of this launch one empty compute unit
// can hold (resource model of resource.CUResourceImpl: 4 SIMDs x 10 wavefront
// slots; 64 KiB LDS in units of 256 bytes; the VGPR mask of that model never
// limits a kernel with <= 256 registers). Only used to shape the workloads.
func (l dispLaunch) perCU() int {
	n := 40 / (l.WGSize / 64)
	if l.LDS > 0 {
		u := (l.LDS + 255) / 256
		if m := 256 / u; m < n {
			n = m
		}
	}
	return n
}

func (l dispLaunch) partitionSize() int { return (l.NWG-1)/l4NumCU + 1 }

func (l dispLaunch) trips() []uint32 {
	t := make([]uint32, l.NWG)
	d := l.Delay
	k := l.partitionSize()
	var r *vlib.PRNG
	if d.Seed != 0 {
		r = vlib.NewPRNG(d.Seed)
	}
	span := d.Slow - d.Fast + 1
	if span < 1 {
		span = 1
	}
	var perPart []uint32
	if d.Kind == "random-partition" {
		for p := 0; p < l4NumCU; p++ {
			perPart = append(perPart, uint32(d.Fast+r.Intn(span)))
		}
	}
	for w := range t {
		switch d.Kind {
		case "fast-partitions":
			if (w/k)%d.Mod == d.Rem {
				t[w] = uint32(d.Fast)
			} else {
				t[w] = uint32(d.Slow)
			}
		case "ramp":
			t[w] = uint32(d.Fast + w*(span-1)/l.NWG)
		case "random":
			t[w] = uint32(d.Fast + r.Intn(span))
		case "random-partition":
			t[w] = perPart[w/k]
		default:
			t[w] = uint32(d.Fast)
		}
		if t[w] < 1 {
			t[w] = 1
		}
	}
	return t
}

type dispCase struct {
	L4       bool         `json:"l4"`
	Name     string       `json:"name"`
	Alg      string       `json:"alg"` // "partition", "round-robin", "greedy" or "builder-default" (dispatchers untouched)
	NDisp    int          `json:"n_dispatchers"`
	NumGPUs  int          `json:"num_gpus"`
	Launches []dispLaunch `json:"launches"`
}

// countKernel: out[wg*2^shift + tid] += c after table[wg] iterations of an
// empty scalar loop. s[0:1] kernarg pointer, s2 work-group id x, v0 work-item
// id x; there is no bounds check: lanes outside the grid are masked off by the
// hardware-initialised EXEC.
func countKernel(shift, lds, vgpr int) *insts.KernelCodeObject {
	ws := []uint32{
		0xC0060100, 0x00000000, // s_load_dwordx2 s[4:5], s[0:1], 0x0   out
		0xC0020180, 0x00000008, // s_load_dword s6, s[0:1], 0x8         c
		0xC0060200, 0x00000010, // s_load_dwordx2 s[8:9], s[0:1], 0x10  trip table
		0xBF8C007F,             // s_waitcnt lgkmcnt(0)
		0x8E0A8202,             // s_lshl_b32 s10, s2, 2
		0x80080A08,             // s_add_u32 s8, s8, s10
		0x82098009,             // s_addc_u32 s9, s9, 0
		0xC00201C4, 0x00000000, // s_load_dword s7, s[8:9], 0x0
		0xBF8C007F,                         // s_waitcnt lgkmcnt(0)
		0x80878107,                         // loop: s_sub_u32 s7, s7, 1
		0xBF078007,                         // s_cmp_lg_u32 s7, 0
		0xBF85FFFD,                         // s_cbranch_scc1 loop
		0x8E020002 | uint32(0x80+shift)<<8, // s_lshl_b32 s2, s2, shift
		0x32000002,                         // v_add_u32 v0, vcc, s2, v0
		0x24000082,                         // v_lshlrev_b32 v0, 2, v0
		0x7E020205,                         // v_mov_b32 v1, s5
		0x32000004,                         // v_add_u32 v0, vcc, s4, v0
		0x38020280,                         // v_addc_u32 v1, vcc, 0, v1, vcc
		0xDC500000, 0x02000000,             // flat_load_dword v2, v[0:1]
		0xBF8C0070,             // s_waitcnt vmcnt(0) lgkmcnt(0)
		0x32040406,             // v_add_u32 v2, vcc, s6, v2
		0xDC700000, 0x00000200, // flat_store_dword v[0:1], v2
		0xBF810000, // s_endpgm
	}
	var data []byte
	for _, w := range ws {
		data = binary.LittleEndian.AppendUint32(data, w)
	}
	if vgpr < 8 {
		vgpr = 8
	}
	meta := &insts.KernelCodeObjectMeta{
		ComputePgmRsrc1:             uint32((vgpr+3)/4-1) | (1 << 6),
		ComputePgmRsrc2:             1 << 7, // work-group id x
		KernargSegmentByteSize:      24,
		EnableSgprKernargSegmentPtr: true,
		WFSgprCount:                 16,
		WIVgprCount:                 uint16(vgpr),
		GroupSegmentByteSize:        uint32(lds),
	}
	return &insts.KernelCodeObject{KernelCodeObjectMeta: meta, Data: data, Version: insts.CodeObjectV3}
}

type countArgs struct {
	Out driver.Ptr
	C   uint32
	Pad uint32
	Tab driver.Ptr
}

func l4Init(launch, i int) uint32 { return uint32(i)*2654435761 + uint32(launch)*40503 + 12345 }

// ---------------------------------------------------------------------------
// child: one platform, all launches of the case

type mapEv struct {
	GPU  int
	CU   int
	WG   [3]int
	Grid uint32
	Seq  int
}

type cpTap struct {
	run   *l4Run
	gpu   int
	cuIdx map[sim.RemotePort]int
}

func (t *cpTap) Func(ctx sim.HookCtx) {
	if ctx.Pos != sim.HookPosPortMsgSend {
		return
	}
	m, ok := ctx.Item.(*protocol.MapWGReq)
	if !ok {
		return
	}
	r := t.run
	r.mu.Lock()
	defer r.mu.Unlock()
	idx, ok := t.cuIdx[m.Meta().Dst]
	if !ok {
		r.wrong = append(r.wrong, fmt.Sprintf("MapWGReq to %s, which is no registered compute unit of GPU %d", m.Meta().Dst, t.gpu))
		idx = -1
	}
	r.seq++
	r.evs = append(r.evs, mapEv{GPU: t.gpu, CU: idx, WG: [3]int{m.WorkGroup.IDX, m.WorkGroup.IDY, m.WorkGroup.IDZ},
		Grid: m.WorkGroup.Packet.GridSizeX, Seq: r.seq})
}

type l4Counter struct{ n int64 }

func (c *l4Counter) Func(ctx sim.HookCtx) {
	if ctx.Pos == sim.HookPosBeforeEvent {
		atomic.AddInt64(&c.n, 1)
	}
}

type l4Run struct {
	dc    dispCase
	rec   *vlib.ChildRecorder
	mu    sync.Mutex
	evs   []mapEv
	seq   int
	wrong []string
	seen  map[string]bool
}

func (r *l4Run) viol(key, what string, extra map[string]any) {
	key = "C08|L4|" + r.dc.Alg + "|" + key
	if r.seen[key] {
		return
	}
	r.seen[key] = true
	w := map[string]any{"case": r.dc}
	for k, v := range extra {
		w[k] = v
	}
	r.rec.Violation(key, "["+r.dc.Name+"] "+what, w)
}

// rebuild replaces the dispatchers of every command processor and registers
// the platform's compute units again, in the original order.
func (r *l4Run) rebuild(p *plat.Platform) {
	var cps []*cp.CommandProcessor
	cus := map[sim.RemotePort]*cu.ComputeUnit{}
	for _, c := range p.Sim.Components() {
		switch x := c.(type) {
		case *cp.CommandProcessor:
			cps = append(cps, x)
		case *cu.ComputeUnit:
			cus[x.ControlPort()] = x
		}
	}
	sort.Slice(cps, func(i, j int) bool { return cps[i].Name() < cps[j].Name() })
	if len(cps) != r.dc.NumGPUs {
		panic(fmt.Sprintf("harness: %d command processors for %d GPUs", len(cps), r.dc.NumGPUs))
	}
	for g, c := range cps {
		if len(c.CUs) != l4NumCU {
			panic(fmt.Sprintf("harness: %s has %d compute units, the monitor's partition model assumes %d", c.Name(), len(c.CUs), l4NumCU))
		}
		var ordered []*cu.ComputeUnit
		for _, ctrl := range c.CUs {
			u := cus[ctrl]
			if u == nil {
				panic("harness: no compute unit owns control port " + string(ctrl))
			}
			ordered = append(ordered, u)
		}
		if r.dc.Alg != "builder-default" {
			c.CUs = nil
			cp.VerifRebuildDispatchers(c, r.dc.Alg, r.dc.NDisp)
			for _, u := range ordered {
				c.RegisterCU(u)
			}
		}
		tap := &cpTap{run: r, gpu: g + 1, cuIdx: map[sim.RemotePort]int{}}
		for i, u := range ordered {
			tap.cuIdx[u.DispatchingPort()] = i
		}
		c.ToCUs.AcceptHook(tap)
	}
}

// judgeTrace checks the MapWGReq multiset per launch; complete=false is used
// when the kernel never completed.
func (r *l4Run) judgeTrace(complete bool) {
	r.mu.Lock()
	evs := append([]mapEv(nil), r.evs...)
	wrong := append([]string(nil), r.wrong...)
	r.mu.Unlock()
	for _, w := range wrong {
		r.viol("work-group-sent-to-unknown-port", w, nil)
	}
	byGrid := map[uint32][]mapEv{}
	for _, e := range evs {
		byGrid[e.Grid] = append(byGrid[e.Grid], e)
	}
	r.rec.Count("l4_map_wg_reqs", int64(len(evs)))
	known := map[uint32]bool{}
	for li, l := range r.dc.Launches {
		g := uint32(l.grid())
		known[g] = true
		es := byGrid[g]
		times := make([]int, l.NWG)
		firstCU := make([]int, l.NWG)
		k := l.partitionSize()
		steals := 0 // only meaningful for the partition algorithm
		cuLoad := make([]int, l4NumCU)
		for _, e := range es {
			if e.GPU != l.GPU {
				r.viol("work-group-sent-to-wrong-gpu", fmt.Sprintf("launch %d (GPU %d): work-group %v was mapped on GPU %d", li, l.GPU, e.WG, e.GPU), map[string]any{"launch": li})
				continue
			}
			if e.WG[1] != 0 || e.WG[2] != 0 || e.WG[0] < 0 || e.WG[0] >= l.NWG {
				r.viol("dispatched-work-group-outside-grid", fmt.Sprintf("launch %d: work-group %v mapped to compute unit %d is outside the grid of %d work-groups", li, e.WG, e.CU, l.NWG),
					map[string]any{"launch": li, "wg": e.WG, "cu": e.CU})
				continue
			}
			w := e.WG[0]
			times[w]++
			if times[w] == 1 {
				firstCU[w] = e.CU
			} else {
				r.viol("work-group-dispatched-twice", fmt.Sprintf("launch %d: work-group %d (partition %d) was mapped %d times: to compute unit %d and again to compute unit %d (MapWGReq #%d)",
					li, w, w/k, times[w], firstCU[w], e.CU, e.Seq), map[string]any{"launch": li, "wg": w, "partition": w / k, "first_cu": firstCU[w], "second_cu": e.CU})
			}
			if e.CU >= 0 && e.CU < l4NumCU {
				cuLoad[e.CU]++
				if r.dc.Alg == "partition" && w/k != e.CU {
					steals++
				}
			}
		}
		if complete {
			missing := []int{}
			for w, n := range times {
				if n == 0 {
					missing = append(missing, w)
				}
			}
			if len(missing) > 0 {
				ex := missing
				if len(ex) > 8 {
					ex = ex[:8]
				}
				r.viol("work-group-never-dispatched", fmt.Sprintf("launch %d completed, but %d of its %d work-groups were never mapped to a compute unit, e.g. %v (partitions of %d work-groups)",
					li, len(missing), l.NWG, ex, k), map[string]any{"launch": li, "missing": ex, "missing_count": len(missing)})
			}
		}
		r.rec.Count("l4_work_groups_traced", int64(len(es)))
		if r.dc.Alg == "partition" {
			r.rec.Count("l4_partition_steals", int64(steals))
			if strings.HasPrefix(r.dc.Name, "canon-") {
				r.rec.Count("l4_canonical_partition_steals", int64(steals))
			}
			if steals > 0 {
				r.rec.Count("l4_partition_launches_with_steals", 1)
			} else {
				r.rec.Count("l4_partition_launches_without_steals", 1)
			}
		}
		mx, mn := 0, 1<<30
		for _, n := range cuLoad {
			if n > mx {
				mx = n
			}
			if n < mn {
				mn = n
			}
		}
		r.rec.Note("l4load", map[string]any{"case": r.dc.Name, "launch": li, "steals": steals, "max_per_cu": mx, "min_per_cu": mn, "nwg": l.NWG, "per_cu_capacity": l.perCU()})
	}
	for g, es := range byGrid {
		if !known[g] {
			r.viol("work-group-of-unknown-launch", fmt.Sprintf("%d MapWGReqs carry a packet with GridSizeX=%d, which no launch of the case has", len(es), g), nil)
		}
	}
}

func l4Child() {
	var dc dispCase
	if err := json.Unmarshal([]byte(os.Args[2]), &dc); err != nil {
		panic(err)
	}
	rec := vlib.ChildRec()
	sim.GetIDGenerator()
	r := &l4Run{dc: dc, rec: rec, seen: map[string]bool{}}
	p := plat.Build(plat.Config{Timing: true, NumGPUs: dc.NumGPUs})
	r.rebuild(p)
	cnt := &l4Counter{}
	if h, ok := p.Engine.(sim.Hookable); ok {
		h.AcceptHook(cnt)
	}
	drv := p.Driver
	drv.Run()
	ctx := drv.Init()

	type lstate struct {
		out  driver.Ptr
		init []uint32
		q    *driver.CommandQueue
	}
	queues := map[[2]int]*driver.CommandQueue{}
	cos := map[string]*insts.KernelCodeObject{}
	ls := make([]lstate, len(dc.Launches))
	var drained int32
	// logical deadlock predicate: the engine goroutine has exited (no event
	// left, nobody kicked it) while launches are outstanding; the polling only
	// establishes that this state is stable.
	go func() {
		stable := 0
		last := int64(-1)
		for atomic.LoadInt32(&drained) == 0 {
			time.Sleep(100 * time.Millisecond)
			running, kicked := drv.VerifEngineState()
			n := atomic.LoadInt64(&cnt.n)
			if !running && !kicked && n == last && atomic.LoadInt32(&drained) == 0 {
				stable++
			} else {
				stable = 0
			}
			last = n
			if stable >= 50 {
				r.judgeTrace(false)
				rec.Note("verdict", "deadlock")
				os.Exit(0)
			}
		}
	}()
	for i, l := range dc.Launches {
		drv.SelectGPU(ctx, l.GPU)
		n := l.grid() + l4Guard
		st := &ls[i]
		st.init = make([]uint32, n)
		for j := range st.init {
			st.init[j] = l4Init(i, j)
		}
		st.out = drv.AllocateMemory(ctx, uint64(4*n))
		drv.MemCopyH2D(ctx, st.out, st.init)
		tab := drv.AllocateMemory(ctx, uint64(4*l.NWG))
		drv.MemCopyH2D(ctx, tab, l.trips())
		qk := [2]int{l.GPU, l.Queue}
		if queues[qk] == nil {
			queues[qk] = drv.CreateCommandQueue(ctx)
		}
		st.q = queues[qk]
		shift := map[int]int{64: 6, 128: 7, 256: 8}[l.WGSize]
		// one code object per (queue, shape): two queues of one context must
		// not share a code object (known finding C12|second-queue-launches-
		// cached-code-before-upload)
		ck := fmt.Sprintf("%d/%d/%d/%d/%d", l.GPU, l.Queue, shift, l.LDS, l.VGPR)
		if cos[ck] == nil {
			cos[ck] = countKernel(shift, l.LDS, l.VGPR)
		}
		args := countArgs{Out: st.out, C: 1, Tab: tab}
		drv.EnqueueLaunchKernel(st.q, cos[ck], [3]uint32{uint32(l.grid()), 1, 1}, [3]uint16{uint16(l.WGSize), 1, 1}, &args)
	}
	// drain all queues concurrently (the queues of a case run concurrently)
	var wg sync.WaitGroup
	for _, q := range queues {
		wg.Add(1)
		go func(q *driver.CommandQueue) { defer wg.Done(); drv.DrainCommandQueue(q) }(q)
	}
	wg.Wait()
	atomic.StoreInt32(&drained, 1)
	r.judgeTrace(true)
	for i, l := range dc.Launches {
		drv.SelectGPU(ctx, l.GPU)
		got := make([]uint32, len(ls[i].init))
		drv.MemCopyD2H(ctx, got, ls[i].out)
		r.judgeBuffer(i, l, ls[i].init, got)
	}
	rec.Note("verdict", "done")
	os.Exit(0)
}

func (r *l4Run) judgeBuffer(li int, l dispLaunch, init, got []uint32) {
	grid := l.grid()
	var never, twice, more, odd, outside int
	first := map[string]int{}
	note := func(kind string, i int) {
		if _, ok := first[kind]; !ok {
			first[kind] = i
		}
	}
	for i := range init {
		d := got[i] - init[i]
		switch {
		case i >= grid:
			if d != 0 {
				outside++
				note("outside", i)
			}
		case d == 1:
		case d == 0:
			never++
			note("never", i)
		case d == 2:
			twice++
			note("twice", i)
		case d <= 16:
			more++
			note("more", i)
		default:
			odd++
			note("odd", i)
		}
	}
	desc := func(kind string) (string, map[string]any) {
		i := first[kind]
		w := i / l.WGSize
		return fmt.Sprintf("first: work-item %d = work-group %d (partition %d of %d work-groups), lane %d; element holds init+%d",
				i, w, w/l.partitionSize(), l.partitionSize(), i%l.WGSize, got[i]-init[i]),
			map[string]any{"launch": li, "work_item": i, "wg": w, "delta": got[i] - init[i]}
	}
	if never > 0 {
		s, w := desc("never")
		r.viol("work-item-never-executed", fmt.Sprintf("launch %d (%d work-groups of %d): %d work-items of the grid were never executed (their counter was not incremented); %s", li, l.NWG, l.WGSize, never, s), w)
	}
	if twice > 0 {
		s, w := desc("twice")
		r.viol("work-item-executed-twice", fmt.Sprintf("launch %d (%d work-groups of %d): %d work-items were executed twice (counter incremented twice); %s", li, l.NWG, l.WGSize, twice, s), w)
	}
	if more > 0 {
		s, w := desc("more")
		r.viol("work-item-executed-more-than-twice", fmt.Sprintf("launch %d: %d work-items were executed more than twice; %s", li, more, s), w)
	}
	if odd > 0 {
		s, w := desc("odd")
		r.viol("counter-element-corrupted", fmt.Sprintf("launch %d: %d elements hold a value that is not init+small count; %s", li, odd, s), w)
	}
	if outside > 0 {
		i := first["outside"]
		r.viol("work-item-outside-grid-executed", fmt.Sprintf("launch %d (grid %d, work-group size %d): %d elements behind the grid were modified, first element %d (init+%d)", li, grid, l.WGSize, outside, i, got[i]-init[i]),
			map[string]any{"launch": li, "element": i})
	}
	r.rec.Count("l4_launches", 1)
	r.rec.Count("l4_launches_"+r.dc.Alg, 1)
	r.rec.Count("l4_work_items_checked", int64(grid))
	r.rec.Count("l4_guard_elements_checked", int64(len(init)-grid))
	if l.Tail > 0 {
		r.rec.Count("l4_launches_partial_last_wg", 1)
	}
	r.rec.Distinct("l4_shape", fmt.Sprintf("%s/wg%d/cap%d", r.dc.Alg, l.WGSize, l.perCU()))
}

// ---------------------------------------------------------------------------
// parent: case lists and verdicts

// uniqueGrids makes GridSizeX unique within the case (the trace attributes a
// MapWGReq to a launch by its packet's grid size).
func uniqueGrids(d *dispCase) {
	seen := map[int]bool{}
	for i := range d.Launches {
		for seen[d.Launches[i].grid()] {
			d.Launches[i].NWG++
		}
		seen[d.Launches[i].grid()] = true
	}
}

func canonicalDisp() []*dispCase {
	one := func(nwg, wgs, tail, lds, vgpr int, d delaySpec) dispLaunch {
		return dispLaunch{NWG: nwg, WGSize: wgs, Tail: tail, LDS: lds, VGPR: vgpr, Delay: d, GPU: 1}
	}
	cs := []*dispCase{
		// one work-group per compute unit at a time, 6 per partition, every
		// 8th partition runs fast: its compute unit exhausts the partition
		// and takes the waiting work-groups of the slow ones; then random
		// run times
		{Name: "canon-partition-fast-eighth", Alg: "partition", NDisp: 1, NumGPUs: 1, Launches: []dispLaunch{
			one(384, 64, 0, 65536, 8, delaySpec{Kind: "fast-partitions", Fast: 1, Slow: 48, Mod: 8}),
			one(320, 64, 0, 65536, 24, delaySpec{Kind: "random", Fast: 1, Slow: 60, Seed: 9}),
		}},
		// two work-groups per compute unit (LDS), ramp; then four per compute
		// unit, two wavefronts each, with a partial last work-group
		{Name: "canon-partition-ramp-2percu", Alg: "partition", NDisp: 2, NumGPUs: 1, Launches: []dispLaunch{
			one(640, 64, 0, 32768, 8, delaySpec{Kind: "ramp", Fast: 1, Slow: 60}),
			one(333, 128, 37, 16384, 128, delaySpec{Kind: "random-partition", Fast: 1, Slow: 60, Seed: 77}),
		}},
		// the same workloads under the algorithm the public builder selects
		{Name: "canon-round-robin", Alg: "round-robin", NDisp: 1, NumGPUs: 1, Launches: []dispLaunch{
			one(384, 64, 0, 65536, 8, delaySpec{Kind: "fast-partitions", Fast: 1, Slow: 48, Mod: 8}),
			one(333, 128, 37, 16384, 128, delaySpec{Kind: "random-partition", Fast: 1, Slow: 60, Seed: 77}),
		}},
		// partition on two plain GPUs, two queues on the second
		{Name: "canon-partition-2gpu", Alg: "partition", NDisp: 4, NumGPUs: 2, Launches: []dispLaunch{
			{NWG: 256, WGSize: 64, LDS: 65536, VGPR: 8, Delay: delaySpec{Kind: "fast-partitions", Fast: 1, Slow: 48, Mod: 4, Rem: 1}, GPU: 1},
			{NWG: 200, WGSize: 64, LDS: 32768, VGPR: 8, Delay: delaySpec{Kind: "random", Fast: 1, Slow: 60, Seed: 5}, GPU: 2},
			{NWG: 150, WGSize: 256, Tail: 200, LDS: 21760, VGPR: 64, Delay: delaySpec{Kind: "ramp", Fast: 1, Slow: 40}, GPU: 2, Queue: 1},
		}},
	}
	for _, c := range cs {
		c.L4 = true
		uniqueGrids(c)
	}
	return cs
}

func genDispCase(r *vlib.PRNG, idx int, thorough bool) *dispCase {
	d := &dispCase{L4: true, Name: fmt.Sprintf("disp%d", idx), NumGPUs: 1}
	// every block of 12 cases has 9 partition cases and one of each other kind
	d.Alg = []string{"partition", "partition", "round-robin", "partition", "greedy", "partition", "partition", "builder-default",
		"partition", "partition", "partition", "partition"}[idx%12]
	d.NDisp = []int{1, 1, 2, 4, 8}[r.Intn(5)]
	if r.Intn(5) == 0 {
		d.NumGPUs = 2
	}
	nl := 2 + r.Intn(2)
	if thorough {
		nl = 2 + r.Intn(4)
	}
	nq := 1 + r.Intn(2)
	for i := 0; i < nl; i++ {
		l := dispLaunch{GPU: 1 + r.Intn(d.NumGPUs), Queue: r.Intn(nq)}
		l.WGSize = []int{64, 64, 64, 128, 256}[r.Intn(5)]
		wfs := l.WGSize / 64
		// residency limit: one work-group per compute unit, 2-4 (LDS), or
		// only the wavefront slots; the VGPR count only varies the register
		// offsets
		switch x := r.Intn(10); {
		case x < 4:
			l.LDS = 65536
		case x < 8:
			l.LDS = []int{32768, 21760, 16384}[r.Intn(3)]
		default:
			l.LDS = []int{0, 8192}[r.Intn(2)]
		}
		l.VGPR = []int{8, 8, 24, 64, 84, 128, 256}[r.Intn(7)]
		capCU := l.perCU()
		// enough work-groups that partitions hold more than fits at once,
		// bounded by a budget of wavefront-loop-iterations
		per := capCU*(1+r.Intn(3)) + 1 + r.Intn(3)
		l.NWG = l4NumCU*per - r.Intn(l4NumCU)
		if r.Intn(4) == 0 {
			l.NWG = 65 + r.Intn(200)
		}
		maxWG := 1536 / wfs
		if thorough {
			maxWG = 4096 / wfs
		}
		if l.NWG > maxWG {
			l.NWG = maxWG - r.Intn(l4NumCU)
		}
		if r.Intn(3) == 0 {
			l.Tail = 1 + r.Intn(l.WGSize-1)
		}
		// run-time spread, bounded by a budget of simulated loop iterations
		budget := 24000
		if thorough {
			budget = 60000
		}
		slow := budget / (l.NWG * wfs)
		if slow > 120 {
			slow = 120
		}
		if slow < 8 {
			slow = 8
		}
		slow = slow/2 + r.Intn(slow/2+1)
		switch r.Intn(8) {
		case 0:
			l.Delay = delaySpec{Kind: "uniform", Fast: 1 + r.Intn(slow/2+1)}
		case 1:
			m := 2 + r.Intn(15)
			l.Delay = delaySpec{Kind: "fast-partitions", Fast: 1, Slow: slow, Mod: m, Rem: r.Intn(m)}
		case 2:
			l.Delay = delaySpec{Kind: "ramp", Fast: 1, Slow: slow}
		case 3:
			l.Delay = delaySpec{Kind: "random", Fast: 1, Slow: slow, Seed: r.Uint64() | 1}
		default:
			l.Delay = delaySpec{Kind: "random-partition", Fast: 1, Slow: slow, Seed: r.Uint64() | 1}
		}
		d.Launches = append(d.Launches, l)
	}
	uniqueGrids(d)
	return d
}

func l4Cases(c *vlib.Check) []any {
	var out []any
	for _, d := range canonicalDisp() {
		out = append(out, d)
	}
	n := c.N(12, 96)
	if os.Getenv("C08_ONLY_CANONICAL") != "" {
		n = 0
	}
	base := c.Rand("l4")
	for i := 0; i < n; i++ {
		out = append(out, genDispCase(base.ForkN("d", i), i, c.Thorough()))
	}
	return out
}

func l4PanicLine(s string) string {
	for _, l := range strings.Split(s, "\n") {
		if strings.Contains(l, "panic:") || strings.Contains(l, "Panic:") || strings.Contains(l, "fatal error:") || strings.Contains(l, "harness:") {
			if len(l) > 300 {
				l = l[:300]
			}
			return l
		}
	}
	if len(s) > 300 {
		s = s[len(s)-300:]
	}
	return s
}

func l4Sanitize(s string) string {
	if i := strings.Index(s, "anic: "); i >= 0 {
		s = s[i+6:]
	}
	s = strings.Map(func(r rune) rune {
		if r >= '0' && r <= '9' {
			return -1
		}
		if r == '|' || r == '\n' {
			return ' '
		}
		return r
	}, s)
	if len(s) > 80 {
		s = s[:80]
	}
	return strings.TrimSpace(s)
}

var l4Scratch struct {
	once sync.Once
	dir  string
}

// runL4 executes one case in a child process and absorbs its record.
func runL4(c *vlib.Check, d *dispCase) {
	l4Scratch.once.Do(func() { l4Scratch.dir, _ = vlib.Scratch("c08l4") })
	js, _ := json.Marshal(d)
	res := vlib.RunChild(l4Scratch.dir, 20*time.Minute, []string{"GOMAXPROCS=2"}, "l4child", string(js))
	defer os.RemoveAll(res.Dir)
	notes := c.AbsorbFile(res.RecPath)
	c.Eval()
	c.Count("l4_cases", 1)
	wit := map[string]any{"case": d}
	verdict := ""
	if v := notes["verdict"]; len(v) > 0 {
		verdict, _ = v[0].(string)
	}
	if os.Getenv("C08_L4_VERBOSE") != "" {
		for _, v := range notes["l4load"] {
			b, _ := json.Marshal(v)
			fmt.Printf("l4load %s (%.1fs)\n", b, res.Dur.Seconds())
		}
	}
	switch {
	case res.TimedOut:
		c.Inconclusive(fmt.Sprintf("L4 %s: watchdog fired", d.Name))
	case verdict == "deadlock":
		c.Violation("C08|L4|"+d.Alg+"|kernel-never-completes", fmt.Sprintf("[%s] the engine went idle while kernel launches were outstanding: work-items of the grid are never executed", d.Name), wit)
	case verdict != "done":
		line := l4PanicLine(vlib.Tail(res.OutPath, 6000))
		if strings.Contains(line, "harness:") {
			c.Inconclusive(fmt.Sprintf("L4 %s: %s", d.Name, line))
			return
		}
		wit["failure"] = line
		c.Violation("C08|L4|"+d.Alg+"|crash|"+l4Sanitize(line), fmt.Sprintf("[%s] the run crashed: %s", d.Name, line), wit)
	default:
		c.Count("l4_cases_completed", 1)
		if d.Alg == "partition" {
			steals := 0
			for _, v := range notes["l4load"] {
				if m, ok := v.(map[string]any); ok {
					if f, ok := m["steals"].(float64); ok {
						steals += int(f)
					}
				}
			}
			if steals > 0 {
				c.Nontrivial("L4/" + d.Name)
			}
		}
	}
}

func l4Cleanup() {
	if l4Scratch.dir != "" {
		_ = os.RemoveAll(l4Scratch.dir)
	}
}
