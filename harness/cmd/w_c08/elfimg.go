package main

import (
	"bytes"
	"encoding/binary"
)

// A minimal ELF64 writer for single-kernel AMDGPU code-object images, written
// from the ELF and AMDHSA layouts (amd_kernel_code_t, 256 bytes, for the
// header-based V2/V3 format; the 64-byte kernel descriptor plus "<name>.kd"
// symbol for the descriptor-based V4+/"V5" format). It is the input of the
// real loader (insts.LoadKernelCodeObjectFromBytes) in the loader-path cases.

type imgSpec struct {
	Name string
	V5   bool
	// enable bits exactly as a compiler would put them into the image
	Rsrc1, Rsrc2 uint32
	CodeProps    uint32 // V3: enable_sgpr_* flags at byte 56; V5: kernel_code_properties
	KernargSize  uint32
	GroupSize    uint32
	SgprCount    uint16 // V3 header fields
	VgprCount    uint16
	Code         []byte
	TextAddr     uint64
	RodataAddr   uint64
}

func (s *imgSpec) header() []byte {
	b := make([]byte, 256)
	le := binary.LittleEndian
	le.PutUint32(b[0:], 1)    // amd_kernel_code_version_major
	le.PutUint32(b[4:], 1)    // minor
	le.PutUint16(b[8:], 1)    // machine kind AMDGPU
	le.PutUint16(b[10:], 8)   // gfx8
	le.PutUint16(b[12:], 0)   //
	le.PutUint16(b[14:], 3)   // gfx803
	le.PutUint64(b[16:], 256) // kernel_code_entry_byte_offset
	le.PutUint32(b[48:], s.Rsrc1)
	le.PutUint32(b[52:], s.Rsrc2)
	le.PutUint32(b[56:], s.CodeProps)
	le.PutUint32(b[64:], s.GroupSize)
	le.PutUint64(b[72:], uint64(s.KernargSize))
	le.PutUint16(b[84:], s.SgprCount)
	le.PutUint16(b[86:], s.VgprCount)
	b[88+8] = 4 // kernarg_segment_alignment etc. (not interpreted)
	return b
}

func (s *imgSpec) descriptor() []byte {
	b := make([]byte, 64)
	le := binary.LittleEndian
	le.PutUint32(b[0:], s.GroupSize)
	le.PutUint32(b[8:], s.KernargSize)
	le.PutUint32(b[48:], s.Rsrc1)
	le.PutUint32(b[52:], s.Rsrc2)
	le.PutUint16(b[56:], uint16(s.CodeProps))
	return b
}

type imgSec struct {
	name             string
	typ, link, info  uint32
	flags, addr, aln uint64
	es               uint64
	data             []byte
	off              uint64
	nameOff          uint32
}

// build returns the file bytes.
func (s *imgSpec) build() []byte {
	text := s.Code
	if !s.V5 {
		text = append(s.header(), s.Code...)
	}
	// a little unrelated data in front of the kernel / descriptor, so that the
	// symbol values are not the section starts
	pre := make([]byte, 256)
	for i := range pre {
		pre[i] = 0xA5
	}
	kOff := uint64(len(pre))
	text = append(append([]byte(nil), pre...), text...)
	secs := []*imgSec{{}, {name: ".text", typ: 1, flags: 6, addr: s.TextAddr, aln: 256, data: text}}
	kdOff := uint64(64)
	if s.V5 {
		ro := append(make([]byte, 64), s.descriptor()...)
		secs = append(secs, &imgSec{name: ".rodata", typ: 1, flags: 2, addr: s.RodataAddr, aln: 64, data: ro})
	}
	type sym struct {
		name        string
		info        byte
		sec         string
		value, size uint64
	}
	syms := []sym{{name: s.Name, info: 1<<4 | 2, sec: ".text", value: s.TextAddr + kOff, size: uint64(len(text)) - kOff}}
	if s.V5 {
		syms = append(syms, sym{name: s.Name + ".kd", info: 1<<4 | 1, sec: ".rodata", value: s.RodataAddr + kdOff, size: 64})
	}
	secIdx := func(n string) uint16 {
		for i, x := range secs {
			if x.name == n {
				return uint16(i)
			}
		}
		return 0
	}
	var strtab bytes.Buffer
	strtab.WriteByte(0)
	symtab := make([]byte, 24)
	for _, y := range syms {
		e := make([]byte, 24)
		binary.LittleEndian.PutUint32(e[0:], uint32(strtab.Len()))
		strtab.WriteString(y.name)
		strtab.WriteByte(0)
		e[4] = y.info
		e[5] = 3
		binary.LittleEndian.PutUint16(e[6:], secIdx(y.sec))
		binary.LittleEndian.PutUint64(e[8:], y.value)
		binary.LittleEndian.PutUint64(e[16:], y.size)
		symtab = append(symtab, e...)
	}
	symSec := &imgSec{name: ".symtab", typ: 2, aln: 8, es: 24, data: symtab, info: 1}
	shstr := &imgSec{name: ".shstrtab", typ: 3, aln: 1}
	strSec := &imgSec{name: ".strtab", typ: 3, aln: 1, data: strtab.Bytes()}
	secs = append(secs, symSec, shstr, strSec)
	symSec.link = uint32(len(secs) - 1)
	var shs bytes.Buffer
	shs.WriteByte(0)
	for _, x := range secs[1:] {
		x.nameOff = uint32(shs.Len())
		shs.WriteString(x.name)
		shs.WriteByte(0)
	}
	shstr.data = shs.Bytes()
	off := uint64(64)
	for _, x := range secs[1:] {
		off = (off + x.aln - 1) / x.aln * x.aln
		x.off = off
		off += uint64(len(x.data))
	}
	shoff := (off + 7) / 8 * 8
	out := make([]byte, shoff+uint64(64*len(secs)))
	copy(out, []byte{0x7f, 'E', 'L', 'F', 2, 1, 1, 64, 2})
	le := binary.LittleEndian
	le.PutUint16(out[16:], 3)   // ET_DYN
	le.PutUint16(out[18:], 224) // EM_AMDGPU
	le.PutUint32(out[20:], 1)
	le.PutUint64(out[40:], shoff)
	le.PutUint16(out[52:], 64)
	le.PutUint16(out[58:], 64)
	le.PutUint16(out[60:], uint16(len(secs)))
	for i, x := range secs {
		if x == shstr {
			le.PutUint16(out[62:], uint16(i))
		}
		if i == 0 {
			continue
		}
		copy(out[x.off:], x.data)
		h := out[shoff+uint64(64*i):]
		le.PutUint32(h[0:], x.nameOff)
		le.PutUint32(h[4:], x.typ)
		le.PutUint64(h[8:], x.flags)
		le.PutUint64(h[16:], x.addr)
		le.PutUint64(h[24:], x.off)
		le.PutUint64(h[32:], uint64(len(x.data)))
		le.PutUint32(h[40:], x.link)
		le.PutUint32(h[44:], x.info)
		le.PutUint64(h[48:], x.aln)
		le.PutUint64(h[56:], x.es)
	}
	return out
}
