package main

import (
	"encoding/binary"
	"encoding/json"
	"fmt"
	"os"
	"strings"
	"sync"
	"sync/atomic"
	"time"

	"github.com/sarchlab/akita/v4/sim"
	"github.com/sarchlab/mgpusim/v4/amd/driver"
	"github.com/sarchlab/mgpusim/v4/amd/insts"

	"verifharness/vlib"
	"verifharness/vlib/plat"
)

// ---------------------------------------------------------------------------
// layer 5: loader path end to end. A 3-D counting kernel
//
//	g = work-group id * work-group size + local id      per dimension
//	out[g.x + g.y*GX + g.z*GX*GY] += 1
//
// computed only from the hardware-initialised registers (s2/s3/s4 and
// v0/v1/v2, or the packed v0 of V5 code objects) is put into an ELF image
// whose header (V2/V3) or kernel descriptor (V5, gfx942) enables work-group
// id x/y/z and work-item id x/y/z, loaded with the real loader
// insts.LoadKernelCodeObjectFromBytes and launched through the real driver on
// a complete platform: the V3 image on the GCN3 emulation and the r9nano
// timing platform, the V5 image on the CDNA3 emulation platform (and mi300a
// timing). Oracle: every element of the grid holds init+1, the guard behind it
// init.

type e2eGeom struct {
	Grid [3]uint32 `json:"grid"`
	WG   [3]uint16 `json:"wg"`
}

type ldCase struct {
	L5       bool      `json:"l5"`
	Name     string    `json:"name"`
	V5       bool      `json:"v5"`
	Platform string    `json:"platform"` // "emu-gcn3", "timing-r9nano", "emu-cdna3", "timing-mi300a"
	Geoms    []e2eGeom `json:"geometries"`
}

func (c *ldCase) ver() string {
	if c.V5 {
		return "v5"
	}
	return "v3"
}

func (c *ldCase) mode() string {
	if strings.HasPrefix(c.Platform, "emu") {
		return "emu"
	}
	return "timing"
}

// GCN3 encoding; s[0:1] kernarg pointer, s2/s3/s4 work-group id x/y/z,
// v0/v1/v2 work-item id x/y/z.
var l5CodeV3 = []uint32{
	0xC0060180, 0x00000000, // s_load_dwordx2 s[6:7], s[0:1], 0x0    out
	0xC00A0200, 0x00000008, // s_load_dwordx4 s[8:11], s[0:1], 0x8   strideY strideZ wgX wgY
	0xC0020300, 0x00000018, // s_load_dword s12, s[0:1], 0x18        wgZ
	0xBF8C007F,             // s_waitcnt lgkmcnt(0)
	0x92020A02,             // s_mul_i32 s2, s2, s10
	0x92030B03,             // s_mul_i32 s3, s3, s11
	0x92040C04,             // s_mul_i32 s4, s4, s12
	0x32000002,             // v_add_u32 v0, vcc, s2, v0             global x
	0x32020203,             // v_add_u32 v1, vcc, s3, v1             global y
	0x32040404,             // v_add_u32 v2, vcc, s4, v2             global z
	0xD2850001, 0x00020208, // v_mul_lo_u32 v1, s8, v1
	0xD2850002, 0x00020409, // v_mul_lo_u32 v2, s9, v2
	0x32000300,             // v_add_u32 v0, vcc, v0, v1
	0x32000500,             // v_add_u32 v0, vcc, v0, v2             linear id
	0x24000082,             // v_lshlrev_b32 v0, 2, v0
	0x7E020207,             // v_mov_b32 v1, s7
	0x32000006,             // v_add_u32 v0, vcc, s6, v0
	0x38020280,             // v_addc_u32 v1, vcc, 0, v1, vcc
	0xDC500000, 0x02000000, // flat_load_dword v2, v[0:1]
	0xBF8C0070,             // s_waitcnt vmcnt(0) lgkmcnt(0)
	0x32040481,             // v_add_u32 v2, vcc, 1, v2
	0xDC700000, 0x00000200, // flat_store_dword v[0:1], v2
	0xBF810000, // s_endpgm
}

// gfx942 encoding (the kernel of the sixth-round seed's demonstration);
// s[0:1] kernarg pointer, s2/s3/s4 work-group id x/y/z, v0 packed local id.
var l5CodeV5 = []uint32{
	0xC0060180, 0x00000000, // s_load_dwordx2 s[6:7], s[0:1], 0x0
	0xC00A0200, 0x00000008, // s_load_dwordx4 s[8:11], s[0:1], 0x8
	0xC0020300, 0x00000018, // s_load_dword s12, s[0:1], 0x18
	0x260200FF, 0x000003FF, // v_and_b32_e32 v1, 0x3ff, v0           local x
	0xD1C80002, 0x02291500, // v_bfe_u32 v2, v0, 10, 10              local y
	0xD1C80003, 0x02292900, // v_bfe_u32 v3, v0, 20, 10              local z
	0xBF8CC07F,             // s_waitcnt lgkmcnt(0)
	0x92020A02,             // s_mul_i32 s2, s2, s10
	0x92030B03,             // s_mul_i32 s3, s3, s11
	0x92040C04,             // s_mul_i32 s4, s4, s12
	0x68020202,             // v_add_u32_e32 v1, s2, v1
	0x68040403,             // v_add_u32_e32 v2, s3, v2
	0x68060604,             // v_add_u32_e32 v3, s4, v3
	0xD2850002, 0x00020408, // v_mul_lo_u32 v2, s8, v2
	0xD2850003, 0x00020609, // v_mul_lo_u32 v3, s9, v3
	0xD1FF0004, 0x040E0501, // v_add3_u32 v4, v1, v2, v3             linear id
	0x7E0A0280,             // v_mov_b32_e32 v5, 0
	0xD2080006, 0x00190504, // v_lshl_add_u64 v[6:7], v[4:5], 2, s[6:7]
	0xDC508000, 0x087F0006, // global_load_dword v8, v[6:7], off
	0xBF8C0F70,             // s_waitcnt vmcnt(0)
	0x68101081,             // v_add_u32_e32 v8, 1, v8
	0xDC708000, 0x007F0806, // global_store_dword v[6:7], v8, off
	0xBF8C0F70, // s_waitcnt vmcnt(0)
	0xBF810000, // s_endpgm
}

func l5Image(v5 bool) *imgSpec {
	ws := l5CodeV3
	if v5 {
		ws = l5CodeV5
	}
	var code []byte
	for _, w := range ws {
		code = binary.LittleEndian.AppendUint32(code, w)
	}
	im := &imgSpec{Name: "count3d", V5: v5, KernargSize: 32, Code: code, TextAddr: 0x2000, RodataAddr: 0x800,
		// user_sgpr_count 2, work-group id x/y/z, work-item id x/y/z
		Rsrc2: 2<<1 | 1<<7 | 1<<8 | 1<<9 | 2<<11, CodeProps: 1 << 3}
	if v5 {
		im.Rsrc1 = 2 | 1<<6 // 12 VGPRs, 16 SGPRs (granulated as the loader reads them)
	} else {
		im.Rsrc1 = 0 | 1<<6
		im.SgprCount, im.VgprCount = 16, 4
	}
	return im
}

type l5Args struct {
	Out     driver.Ptr
	StrideY uint32
	StrideZ uint32
	WGX     uint32
	WGY     uint32
	WGZ     uint32
	Pad     uint32
}

func l5Child() {
	var lc ldCase
	if err := json.Unmarshal([]byte(os.Args[2]), &lc); err != nil {
		panic(err)
	}
	rec := vlib.ChildRec()
	sim.GetIDGenerator()
	pre := "C08|loader-path|" + lc.ver() + "|" + lc.mode() + "|e2e-"
	seen := map[string]bool{}
	viol := func(key, what string, extra map[string]any) {
		if seen[key] {
			return
		}
		seen[key] = true
		w := map[string]any{"case": lc}
		for k, v := range extra {
			w[k] = v
		}
		rec.Violation(pre+key, "["+lc.Name+" on "+lc.Platform+"] "+what, w)
	}
	im := l5Image(lc.V5)
	co := insts.LoadKernelCodeObjectFromBytes(im.build(), im.Name)
	want := insts.CodeObjectV3
	if lc.V5 {
		want = insts.CodeObjectV5
	}
	if co == nil || co.Version != want || len(co.Data) != len(im.Code) {
		viol("image-not-loaded", fmt.Sprintf("the loader did not return the %s kernel of the image (%d instruction bytes expected)", lc.ver(), len(im.Code)), nil)
		rec.Note("verdict", "done")
		os.Exit(0)
	}
	var cfg plat.Config
	switch lc.Platform {
	case "emu-gcn3":
		cfg = plat.Config{}
	case "emu-cdna3":
		cfg = plat.Config{Arch: "cdna3"}
	case "timing-r9nano":
		cfg = plat.Config{Timing: true}
	case "timing-mi300a":
		cfg = plat.Config{Timing: true, GPUType: "mi300a"}
	}
	p := plat.Build(cfg)
	cnt := &l4Counter{}
	if h, ok := p.Engine.(sim.Hookable); ok {
		h.AcceptHook(cnt)
	}
	drv := p.Driver
	drv.Run()
	ctx := drv.Init()
	q := drv.CreateCommandQueue(ctx)
	var drained int32
	go func() { // logical deadlock predicate, as in layer 4
		stable, last := 0, int64(-1)
		for atomic.LoadInt32(&drained) == 0 {
			time.Sleep(100 * time.Millisecond)
			running, kicked := drv.VerifEngineState()
			n := atomic.LoadInt64(&cnt.n)
			if !running && !kicked && n == last && atomic.LoadInt32(&drained) == 0 {
				stable++
			} else {
				stable = 0
			}
			last = n
			if stable >= 50 {
				rec.Note("verdict", "deadlock")
				os.Exit(0)
			}
		}
	}()
	type st struct {
		out  driver.Ptr
		init []uint32
	}
	sts := make([]st, len(lc.Geoms))
	for i, g := range lc.Geoms {
		n := int(g.Grid[0])*int(g.Grid[1])*int(g.Grid[2]) + l4Guard
		sts[i].init = make([]uint32, n)
		for j := range sts[i].init {
			sts[i].init[j] = l4Init(i, j)
		}
		sts[i].out = drv.AllocateMemory(ctx, uint64(4*n))
		drv.MemCopyH2D(ctx, sts[i].out, sts[i].init)
		args := l5Args{Out: sts[i].out, StrideY: g.Grid[0], StrideZ: g.Grid[0] * g.Grid[1], WGX: uint32(g.WG[0]), WGY: uint32(g.WG[1]), WGZ: uint32(g.WG[2])}
		drv.EnqueueLaunchKernel(q, co, g.Grid, g.WG, &args)
	}
	drv.DrainCommandQueue(q)
	atomic.StoreInt32(&drained, 1)
	for i, g := range lc.Geoms {
		got := make([]uint32, len(sts[i].init))
		drv.MemCopyD2H(ctx, got, sts[i].out)
		gx, gy := int(g.Grid[0]), int(g.Grid[1])
		total := gx * gy * int(g.Grid[2])
		cnts := map[string]int{}
		first := map[string]int{}
		for j := range got {
			d := got[j] - sts[i].init[j]
			kind := ""
			switch {
			case j >= total && d != 0:
				kind = "outside"
			case j >= total || d == 1:
			case d == 0:
				kind = "never"
			case d <= 64:
				kind = "again"
			default:
				kind = "corrupt"
			}
			if kind != "" {
				if cnts[kind] == 0 {
					first[kind] = j
				}
				cnts[kind]++
			}
		}
		where := func(kind string) (string, map[string]any) {
			j := first[kind]
			co3 := [3]int{j % gx, j / gx % gy, j / gx / gy}
			wg3 := [3]int{co3[0] / int(g.WG[0]), co3[1] / int(g.WG[1]), co3[2] / int(g.WG[2])}
			return fmt.Sprintf("first: work-item %v of work-group %v holds init+%d", co3, wg3, got[j]-sts[i].init[j]),
				map[string]any{"geometry": g, "work_item": co3, "wg": wg3}
		}
		if n := cnts["never"]; n > 0 {
			s, w := where("never")
			viol("work-item-never-executed", fmt.Sprintf("grid %v, work-group %v: %d of %d work-items were never executed; %s", g.Grid, g.WG, n, total, s), w)
		}
		if n := cnts["again"]; n > 0 {
			s, w := where("again")
			viol("work-item-executed-more-than-once", fmt.Sprintf("grid %v, work-group %v: %d of %d work-items were executed more than once; %s", g.Grid, g.WG, n, total, s), w)
		}
		if n := cnts["corrupt"]; n > 0 {
			s, w := where("corrupt")
			viol("counter-element-corrupted", fmt.Sprintf("grid %v, work-group %v: %d elements hold no small count; %s", g.Grid, g.WG, n, s), w)
		}
		if n := cnts["outside"]; n > 0 {
			viol("element-outside-grid-modified", fmt.Sprintf("grid %v, work-group %v: %d elements behind the grid were modified, first %d", g.Grid, g.WG, n, first["outside"]), map[string]any{"geometry": g})
		}
		nwg := numWGs(g.Grid, g.WG)
		v := lc.ver()
		rec.Count("l5_launches", 1)
		rec.Count("l5_launches_"+v+"_"+lc.mode(), 1)
		rec.Count("l5_work_items_checked", int64(total))
		if nwg[1] > 1 {
			rec.Count("l5_"+v+"_launches_several_wg_layers_in_y", 1)
		}
		if nwg[2] > 1 {
			rec.Count("l5_"+v+"_launches_several_wg_layers_in_z", 1)
		}
		rec.Distinct("l5_class", lc.Platform+"/"+v+"/"+classOf(g.Grid, g.WG))
	}
	rec.Note("verdict", "done")
	os.Exit(0)
}

// ---------------------------------------------------------------------------
// parent

var l5Platforms = []struct {
	v5   bool
	plat string
}{{false, "emu-gcn3"}, {false, "timing-r9nano"}, {true, "emu-cdna3"}, {true, "timing-mi300a"}}

func canonicalE2EGeoms() []e2eGeom {
	return []e2eGeom{
		{[3]uint32{200, 1, 1}, [3]uint16{48, 1, 1}},
		{[3]uint32{30, 21, 1}, [3]uint16{8, 6, 1}},
		{[3]uint32{10, 7, 4}, [3]uint16{4, 3, 4}},
		{[3]uint32{8, 8, 8}, [3]uint16{4, 4, 4}},
		{[3]uint32{10, 7, 9}, [3]uint16{4, 3, 2}},
		{[3]uint32{5, 3, 23}, [3]uint16{5, 3, 2}},
		{[3]uint32{33, 5, 9}, [3]uint16{16, 4, 4}},
	}
}

func genE2EGeom(r *vlib.PRNG) e2eGeom {
	var g e2eGeom
	wg := l2Shapes[r.Intn(len(l2Shapes))]
	dims := 1 + r.Intn(3)
	if r.Chance(1, 2) {
		dims = 3
	}
	pts := 1
	for d := 0; d < 3; d++ {
		if d >= dims {
			wg[d] = 1
		}
		k := 1 + r.Intn(4)
		n := (k-1)*wg[d] + 1 + r.Intn(wg[d])
		if d >= dims {
			n = 1
		}
		g.Grid[d], g.WG[d] = uint32(n), uint16(wg[d])
		pts *= n
	}
	for pts > 6000 {
		d := r.Intn(3)
		if g.Grid[d] > 1 {
			pts /= int(g.Grid[d])
			g.Grid[d] = g.Grid[d]/2 + 1
			pts *= int(g.Grid[d])
		}
	}
	return g
}

func l5Cases(c *vlib.Check) []any {
	var out []any
	for _, p := range l5Platforms {
		out = append(out, &ldCase{L5: true, Name: "canon-loader-e2e", V5: p.v5, Platform: p.plat, Geoms: canonicalE2EGeoms()})
	}
	if os.Getenv("C08_ONLY_CANONICAL") != "" {
		return out
	}
	base := c.Rand("l5")
	rounds := c.N(1, 6)
	for k := 0; k < rounds; k++ {
		for pi, p := range l5Platforms {
			r := base.ForkN("g", k*8+pi)
			lc := &ldCase{L5: true, Name: fmt.Sprintf("ld-e2e-%d", k), V5: p.v5, Platform: p.plat}
			for i := 0; i < c.N(5, 10); i++ {
				lc.Geoms = append(lc.Geoms, genE2EGeom(r))
			}
			out = append(out, lc)
		}
	}
	return out
}

var l5Scratch struct {
	once sync.Once
	dir  string
}

func runL5(c *vlib.Check, lc *ldCase) {
	l5Scratch.once.Do(func() { l5Scratch.dir, _ = vlib.Scratch("c08l5") })
	js, _ := json.Marshal(lc)
	res := vlib.RunChild(l5Scratch.dir, 20*time.Minute, []string{"GOMAXPROCS=2"}, "l5child", string(js))
	defer os.RemoveAll(res.Dir)
	notes := c.AbsorbFile(res.RecPath)
	c.Eval()
	c.Count("l5_cases", 1)
	wit := map[string]any{"case": lc}
	verdict := ""
	if v := notes["verdict"]; len(v) > 0 {
		verdict, _ = v[0].(string)
	}
	pre := "C08|loader-path|" + lc.ver() + "|" + lc.mode() + "|e2e-"
	switch {
	case res.TimedOut:
		c.Inconclusive(fmt.Sprintf("L5 %s on %s: watchdog fired", lc.Name, lc.Platform))
	case verdict == "deadlock":
		c.Violation(pre+"kernel-never-completes", fmt.Sprintf("[%s on %s] the engine went idle while kernel launches were outstanding", lc.Name, lc.Platform), wit)
	case verdict != "done":
		line := l4PanicLine(vlib.Tail(res.OutPath, 6000))
		wit["failure"] = line
		c.Violation(pre+"crash|"+l4Sanitize(line), fmt.Sprintf("[%s on %s] the run crashed: %s", lc.Name, lc.Platform, line), wit)
	default:
		c.Count("l5_cases_completed", 1)
		c.Nontrivial("L5/" + lc.Name + "/" + lc.Platform)
	}
}

func l5Cleanup() {
	if l5Scratch.dir != "" {
		_ = os.RemoveAll(l5Scratch.dir)
	}
}
