package main

import (
	"fmt"

	"verifharness/vlib"
)

// ---- generator of multi-step scenarios (pure function of (r, idx)) ------------

var multiKinds = []string{"multi-benchmark", "rerun", "two-platforms", "driver-direct"}

func (m *multiD) step(op string, p, r, t int, via string) {
	m.Steps = append(m.Steps, stepD{Op: op, P: p, R: r, T: t, Via: via})
}
func (m *multiD) stPlatform(p int) { m.step("platform", p, -1, -1, "") }
func (m *multiD) stAdd(r, t int)   { m.step("add", m.RunnerPlat[r], r, t, "") }
func (m *multiD) stRun(r int)      { m.step("run", m.RunnerPlat[r], r, -1, "") }
func (m *multiD) stTick(p int)     { m.step("tick", p, -1, -1, "") }
func (m *multiD) stEngine(p int)   { m.step("engine", p, -1, -1, "") }
func (m *multiD) stEnqueue(p, t int, via string) {
	m.step("enqueue", p, -1, t, via)
}

// smallTrace generates one trace description. force: "" (anything, including a
// trace without kernels), "kernels" (at least one kernel), "one" (exactly one
// kernel), "empty" (no kernel).
func smallTrace(r *vlib.PRNG, name, force string) *traceD {
	t := &traceD{Name: name, Mock: r.Bool(), Repeat: 1}
	form := genForm(r.Fork("form"))
	c := &caseD{Name: name, Style: styleD{BlankAfterWarp: 1 + r.Intn(2), ShuffleBlocks: r.Chance(1, 5), Form: form}}
	t.C = c
	sc := sizeClass{3, 5, 4, 8}
	if r.Chance(1, 6) {
		sc = sizeClass{4, 12, 6, 20}
	}
	nk := 0
	switch v := r.Intn(12); {
	case v == 0:
		nk = -1 // no execution line at all
	case v == 1:
		nk = 0 // memcpy lines only
	case v <= 4:
		nk = 1
	default:
		nk = 1 + r.Intn(sc.k)
	}
	switch force {
	case "kernels":
		if nk < 1 {
			nk = 1 + r.Intn(sc.k)
		}
	case "one":
		nk = 1
	case "empty":
		if nk > 0 {
			nk = -r.Intn(2)
		}
	}
	emptyPct := 0
	if r.Chance(1, 5) {
		emptyPct = []int{10, 30}[r.Intn(2)]
	}
	ragged := r.Chance(2, 3)
	if nk == 0 {
		for i, n := 0, 1+r.Intn(2); i < n; i++ {
			c.Execs = append(c.Execs, execD{Dir: []string{"MemcpyHtoD", "MemcpyDtoH"}[r.Intn(2)], Addr: 0x00007fb0fc400000 + uint64(r.Intn(1<<20))*512, Len: uint64(1 + r.Intn(1<<20))})
		}
	}
	for ki := 1; ki <= nk; ki++ {
		if r.Chance(1, 4) {
			c.Execs = append(c.Execs, execD{Dir: "MemcpyHtoD", Addr: 0x00007fb0fc400000 + uint64(r.Intn(1<<20))*512, Len: uint64(1 + r.Intn(1<<20))})
		}
		c.Execs = append(c.Execs, execD{Kernel: genKernel(r, ki, sc, emptyPct, ragged)})
	}
	if t.Mock && nk > 0 && r.Chance(1, 5) {
		t.Repeat = 2 + r.Intn(2)
	}
	return t
}

func (t *traceD) hasKernels() bool {
	for _, e := range t.C.Execs {
		if e.Kernel != nil {
			return true
		}
	}
	return false
}

func multiShape(r *vlib.PRNG) shapeD {
	if r.Chance(1, 14) {
		return a100
	}
	return genShape(r)
}

func genMulti(r *vlib.PRNG, idx int) *multiD {
	m := &multiD{Name: fmt.Sprintf("m%d", idx), Index: idx, Kind: multiKinds[idx%len(multiKinds)]}
	newT := func(force string) int {
		m.Traces = append(m.Traces, smallTrace(r, fmt.Sprintf("%s.t%d", m.Name, len(m.Traces)), force))
		return len(m.Traces) - 1
	}
	some := func() string { // mostly traces with kernels
		if r.Chance(1, 5) {
			return ""
		}
		return "kernels"
	}
	vias := []string{"exec", "runkernel"}
	switch m.Kind {
	case "multi-benchmark":
		m.Shapes = []shapeD{multiShape(r)}
		m.RunnerPlat = []int{0}
		k := 2 + r.Intn(4)
		for i := 0; i < k; i++ {
			newT("")
		}
		for {
			n, without := 0, []int{}
			for i, t := range m.Traces {
				if t.hasKernels() {
					n++
				} else {
					without = append(without, i)
				}
			}
			if n >= 2 {
				break
			}
			i := without[r.Intn(len(without))]
			m.Traces[i] = smallTrace(r, m.Traces[i].Name, []string{"one", "kernels"}[r.Intn(2)])
		}
		m.Variant = "platform-built-first"
		if r.Bool() {
			m.stPlatform(0)
		} else {
			m.Variant = "benchmark-built-first"
		}
		order := r.Perm(k)
		for _, t := range order {
			m.stAdd(0, t)
		}
		if r.Chance(1, 4) {
			m.Variant += "+same-benchmark-twice"
			m.stAdd(0, order[r.Intn(k)])
		}
		m.stRun(0)
	case "rerun":
		m.Shapes = []shapeD{multiShape(r)}
		m.RunnerPlat = []int{0}
		v := r.Intn(4)
		m.Variant = []string{"add-run-add-run", "run-empty-runner-first", "run-twice-without-add", "two-runners-one-platform"}[v]
		if v == 1 {
			m.stRun(0)
		}
		for i, n := 0, 1+r.Intn(2); i < n; i++ {
			m.stAdd(0, newT(some()))
		}
		m.stRun(0)
		for i, n := 0, 1+r.Intn(2); i < n; i++ {
			m.stAdd(0, newT("kernels"))
		}
		m.stRun(0)
		if v == 2 {
			m.stRun(0)
		}
		if v == 3 {
			m.RunnerPlat = []int{0, 0}
			for i, n := 0, 1+r.Intn(2); i < n; i++ {
				m.stAdd(1, newT("kernels"))
			}
			if r.Chance(1, 3) {
				m.stAdd(1, 0) // a benchmark the other runner holds as well
			}
			m.stRun(1)
			if r.Bool() {
				m.stRun(0)
			}
		}
		if r.Chance(1, 3) {
			m.stAdd(0, newT(some()))
			m.stRun(0)
		}
	case "two-platforms":
		m.Shapes = []shapeD{multiShape(r), genShape(r)}
		m.RunnerPlat = []int{0, 1}
		v := r.Intn(3)
		m.Variant = []string{"one-after-the-other", "interleaved", "interleaved-shared-benchmark"}[v]
		addSome := func(rn int, force string) {
			for i, n := 0, 1+r.Intn(3); i < n; i++ {
				f := force
				if i > 0 {
					f = some()
				}
				m.stAdd(rn, newT(f))
			}
		}
		switch v {
		case 0:
			m.stPlatform(0)
			addSome(0, "kernels")
			m.stRun(0)
			m.stPlatform(1)
			addSome(1, "kernels")
			m.stRun(1)
			if r.Bool() {
				m.Variant += "+first-again"
				m.stAdd(0, newT("kernels"))
				m.stRun(0)
			}
		case 1:
			m.stPlatform(0)
			m.stPlatform(1)
			first := r.Intn(2)
			addSome(first, "kernels")
			addSome(1-first, "kernels")
			if r.Bool() {
				m.stAdd(first, newT(some()))
			}
			m.stRun(first)
			m.stRun(1 - first)
			m.stAdd(first, newT("kernels"))
			m.stRun(first)
			if r.Bool() {
				m.stAdd(1-first, newT("kernels"))
				m.stRun(1 - first)
			}
		case 2:
			m.stPlatform(1)
			m.stPlatform(0)
			shared := newT("kernels")
			m.stAdd(0, shared)
			m.stAdd(1, shared)
			if r.Bool() {
				m.stAdd(1, newT(some()))
			}
			if r.Bool() {
				m.stAdd(0, newT(some()))
			}
			m.stRun(1)
			m.stRun(0)
			m.stAdd(1, newT("kernels"))
			m.stRun(1)
			if r.Bool() {
				m.stRun(0)
			}
		}
	case "driver-direct":
		m.Shapes = []shapeD{multiShape(r)}
		two := r.Chance(1, 3)
		m.Variant = "one-platform"
		if two {
			m.Variant = "two-platforms-alternating"
			m.Shapes = append(m.Shapes, genShape(r))
			m.stPlatform(0)
			m.stPlatform(1)
			if r.Bool() {
				// both drivers hold enqueued kernels before either engine runs
				m.Variant = "two-platforms-overlapped"
				for rd, rounds := 0, 1+r.Intn(2); rd < rounds; rd++ {
					first := r.Intn(2)
					for _, p := range []int{first, 1 - first} {
						for i, n := 0, 1+r.Intn(2); i < n; i++ {
							f := "kernels"
							if i > 0 {
								f = some()
							}
							m.stEnqueue(p, newT(f), vias[r.Intn(2)])
						}
					}
					if r.Bool() {
						m.stTick(0)
						m.stTick(1)
					} else {
						m.stTick(1)
						m.stTick(0)
					}
					runFirst := r.Intn(2)
					m.stEngine(runFirst)
					m.stEngine(1 - runFirst)
				}
				break
			}
		}
		rounds := 2 + r.Intn(2)
		for rd := 0; rd < rounds; rd++ {
			p := 0
			if two {
				p = rd % 2
				if rd >= 2 {
					p = r.Intn(2)
				}
			}
			n := 1 + r.Intn(3)
			tickAt := r.Intn(n + 1) // 0 = before the first RunKernel (tick event scheduled, not yet handled), n = after the last
			ticked := false
			for i := 0; i <= n; i++ {
				if i == tickAt {
					m.stTick(p)
					ticked = true
				}
				if i == n {
					break
				}
				t := -1
				if len(m.Traces) > 0 && r.Chance(1, 4) {
					t = r.Intn(len(m.Traces)) // a benchmark that was enqueued before, once more
				} else if i == 0 {
					t = newT("kernels")
				} else {
					t = newT(some())
				}
				m.stEnqueue(p, t, vias[r.Intn(2)])
			}
			if !ticked || r.Chance(1, 4) {
				m.stTick(p) // TickLater twice is harmless by its contract
			}
			m.stEngine(p)
		}
	}
	return m
}

// ---- canonical multi-step battery (seed independent) ------------------------------

func canonicalMulti() []*multiD {
	sh := func(d, s, c int) shapeD { return shapeD{Devices: d, SMs: s, Subcores: c, FreqHz: 1} }
	st := styleD{BlankAfterWarp: 1}
	tr := func(name string, mock bool, kernels ...[][]int) *traceD {
		c := &caseD{Name: name, Style: st}
		for i, k := range kernels {
			c.Execs = append(c.Execs, execD{Kernel: mkKernel(i+1, k)})
		}
		return &traceD{Name: name, Mock: mock, Repeat: 1, C: c}
	}
	uniform := func(blocks, warps, insts int) [][]int {
		var k [][]int
		for b := 0; b < blocks; b++ {
			ws := make([]int, warps)
			for w := range ws {
				ws[w] = insts
			}
			k = append(k, ws)
		}
		return k
	}
	memcpyOnly := func(name string) *traceD {
		return &traceD{Name: name, Repeat: 1, C: &caseD{Name: name, Style: st, Execs: []execD{
			{Dir: "MemcpyHtoD", Addr: 0x00007fb0fc400000, Len: 4096}, {Dir: "MemcpyDtoH", Addr: 0x00007fb0fc461c00, Len: 4}}}}
	}
	mk := func(name, kind string, shapes []shapeD, runnerPlat []int, traces []*traceD, script func(m *multiD)) *multiD {
		m := &multiD{Name: name, Kind: kind, Variant: "canonical", Shapes: shapes, RunnerPlat: runnerPlat, Traces: traces}
		script(m)
		return m
	}
	one := []shapeD{sh(1, 2, 2)}
	return []*multiD{
		// ---- (1) several benchmarks on ONE runner before Run() ----
		mk("canon-multi-2-benchmarks-1x2x2", "multi-benchmark", one, []int{0},
			[]*traceD{tr("a", false, [][]int{{2, 1}, {1}}), tr("b", false, [][]int{{3}})},
			func(m *multiD) { m.stAdd(0, 0); m.stAdd(0, 1); m.stRun(0) }),
		// the shapes of the repository's mock-data test: uniform mock benchmarks on the A100 platform
		mk("canon-multi-3-mock-benchmarks-a100", "multi-benchmark", []shapeD{a100}, []int{0},
			[]*traceD{tr("a", true, uniform(2, 2, 2)), tr("b", true, uniform(3, 1, 0)), tr("c", true, uniform(4, 4, 3), uniform(4, 4, 3))},
			func(m *multiD) { m.stAdd(0, 0); m.stAdd(0, 1); m.stAdd(0, 2); m.stRun(0) }),
		mk("canon-multi-5-benchmarks-empty-memcpy-only-one-kernel", "multi-benchmark", []shapeD{sh(2, 2, 1)}, []int{0},
			[]*traceD{tr("empty-first", false), tr("one-kernel", false, [][]int{{1, 2}}), memcpyOnly("memcpy-only"),
				tr("three-kernels", false, [][]int{{2}, {1, 1}}, [][]int{{0, 1}}, [][]int{{4}, {1}, {2}}), tr("empty-mock-last", true)},
			func(m *multiD) {
				for t := 0; t < 5; t++ {
					m.stAdd(0, t)
				}
				m.stRun(0)
			}),
		mk("canon-multi-same-benchmark-added-twice", "multi-benchmark", one, []int{0},
			[]*traceD{tr("a", false, [][]int{{2, 3}, {1}}), tr("b", true, [][]int{{1}})},
			func(m *multiD) { m.stAdd(0, 0); m.stAdd(0, 1); m.stAdd(0, 0); m.stRun(0) }),
		mk("canon-multi-two-benchmarks-of-equal-size", "multi-benchmark", []shapeD{sh(1, 1, 2)}, []int{0},
			[]*traceD{tr("a", false, [][]int{{2, 1}}, [][]int{{1}}), tr("b", false, [][]int{{3, 1}}, [][]int{{2}})},
			func(m *multiD) { m.stPlatform(0); m.stAdd(0, 0); m.stAdd(0, 1); m.stRun(0) }),
		mk("canon-multi-repeated-exec-pointer-then-second-benchmark", "multi-benchmark", []shapeD{sh(2, 3, 2)}, []int{0},
			[]*traceD{{Name: "a", Mock: true, Repeat: 3, C: &caseD{Name: "a", Style: st, Execs: []execD{{Kernel: mkKernel(1, uniform(3, 2, 2))}}}},
				tr("b", false, [][]int{{1, 1, 1}})},
			func(m *multiD) { m.stAdd(0, 0); m.stAdd(0, 1); m.stRun(0) }),
		// ---- (2) Run(), AddBenchmark, Run() ----
		mk("canon-rerun-add-run-add-run", "rerun", one, []int{0},
			[]*traceD{tr("a", false, [][]int{{2, 1}, {1}}), tr("b", false, [][]int{{3}, {1, 1}})},
			func(m *multiD) { m.stAdd(0, 0); m.stRun(0); m.stAdd(0, 1); m.stRun(0) }),
		mk("canon-rerun-run-twice-without-add", "rerun", []shapeD{sh(1, 1, 1)}, []int{0},
			[]*traceD{tr("a", true, [][]int{{2, 1}}, [][]int{{1}})},
			func(m *multiD) { m.stAdd(0, 0); m.stRun(0); m.stRun(0); m.stRun(0) }),
		mk("canon-rerun-empty-runner-then-add-run", "rerun", one, []int{0},
			[]*traceD{tr("a", false, [][]int{{1, 2}})},
			func(m *multiD) { m.stRun(0); m.stAdd(0, 0); m.stRun(0) }),
		mk("canon-rerun-two-runners-one-platform", "rerun", []shapeD{sh(2, 1, 2)}, []int{0, 0},
			[]*traceD{tr("a", false, [][]int{{2}}, [][]int{{1, 1}}), tr("b", true, [][]int{{3, 1}})},
			func(m *multiD) { m.stAdd(0, 0); m.stAdd(1, 1); m.stRun(0); m.stRun(1); m.stRun(0) }),
		// ---- (3) two platforms alive in one process ----
		mk("canon-two-platforms-one-after-the-other", "two-platforms", []shapeD{sh(1, 2, 2), sh(2, 1, 1)}, []int{0, 1},
			[]*traceD{tr("a", false, [][]int{{2, 1}, {1}}), tr("b", false, [][]int{{1}, {2}}, [][]int{{3}})},
			func(m *multiD) { m.stPlatform(0); m.stAdd(0, 0); m.stRun(0); m.stPlatform(1); m.stAdd(1, 1); m.stRun(1) }),
		mk("canon-two-platforms-built-first-then-interleaved", "two-platforms", []shapeD{sh(1, 2, 2), sh(1, 2, 2)}, []int{0, 1},
			[]*traceD{tr("a", false, [][]int{{2, 1}, {1}}), tr("b", false, [][]int{{1}, {2}}, [][]int{{3}}), tr("c", true, [][]int{{1, 1}})},
			func(m *multiD) {
				m.stPlatform(0)
				m.stPlatform(1)
				m.stAdd(0, 0)
				m.stAdd(1, 1)
				m.stRun(0)
				m.stRun(1)
				m.stAdd(0, 2)
				m.stRun(0)
				m.stRun(1)
			}),
		mk("canon-two-platforms-second-built-runs-first-shared-benchmark", "two-platforms", []shapeD{sh(1, 1, 2), a100}, []int{0, 1},
			[]*traceD{tr("shared", true, uniform(3, 2, 2), uniform(1, 1, 1)), tr("b", false, [][]int{{2}})},
			func(m *multiD) {
				m.stPlatform(0)
				m.stPlatform(1)
				m.stAdd(0, 0)
				m.stAdd(1, 0)
				m.stAdd(1, 1)
				m.stRun(1)
				m.stRun(0)
			}),
		// ---- (4) the driver API used directly, as Runner.Run uses it ----
		mk("canon-driver-direct-runkernel-x3-tick-run-twice", "driver-direct", one, nil,
			[]*traceD{tr("a", true, [][]int{{2, 1}}, [][]int{{1}}, [][]int{{1, 1}, {2}}), tr("b", true, [][]int{{3}}, [][]int{{1}})},
			func(m *multiD) {
				m.stEnqueue(0, 0, "runkernel")
				m.stTick(0)
				m.stEngine(0)
				m.stEnqueue(0, 1, "runkernel") // the engine went idle: enqueue, then TickLater wakes the driver
				m.stTick(0)
				m.stEngine(0)
			}),
		mk("canon-driver-direct-two-platforms-both-enqueued-before-either-runs", "driver-direct", []shapeD{sh(1, 2, 2), sh(2, 1, 2)}, nil,
			[]*traceD{tr("a", true, [][]int{{2, 1}}, [][]int{{1}}), tr("b", false, [][]int{{3}}, [][]int{{1, 1}}, [][]int{{2}})},
			func(m *multiD) {
				m.stPlatform(0)
				m.stPlatform(1)
				m.stEnqueue(0, 0, "runkernel")
				m.stEnqueue(1, 1, "exec")
				m.stTick(0)
				m.stTick(1)
				m.stEngine(0)
				m.stEngine(1)
				m.stEnqueue(1, 0, "exec")
				m.stEnqueue(0, 1, "runkernel")
				m.stTick(1)
				m.stTick(0)
				m.stEngine(1)
				m.stEngine(0)
			}),
		mk("canon-driver-direct-tick-before-enqueue-then-again-after-idle", "driver-direct", []shapeD{sh(2, 1, 1)}, nil,
			[]*traceD{tr("a", false, [][]int{{2}}), tr("b", false, [][]int{{1, 1}}, [][]int{{2}})},
			func(m *multiD) {
				m.stTick(0)
				m.stEnqueue(0, 0, "exec")
				m.stEngine(0)
				m.stTick(0)
				m.stTick(0)
				m.stEnqueue(0, 1, "exec")
				m.stEnqueue(0, 0, "exec")
				m.stEngine(0)
				m.stEngine(0) // nothing new: returns at once, nothing may change
			}),
	}
}
