package main

import (
	"fmt"
	"sort"
	"strings"

	"github.com/sarchlab/akita/v4/sim"
	"github.com/sarchlab/mgpusim/v4/nvidia/benchmark"
	"github.com/sarchlab/mgpusim/v4/nvidia/driver"
	"github.com/sarchlab/mgpusim/v4/nvidia/gpu"
	"github.com/sarchlab/mgpusim/v4/nvidia/message"
	"github.com/sarchlab/mgpusim/v4/nvidia/nvidiaconfig"
	"github.com/sarchlab/mgpusim/v4/nvidia/platform"
	"github.com/sarchlab/mgpusim/v4/nvidia/runner"
	"github.com/sarchlab/mgpusim/v4/nvidia/sm"
	"github.com/sarchlab/mgpusim/v4/nvidia/subcore"

	"verifharness/vlib"
	"verifharness/vlib/simkit"
)

// buildPlatform assembles a platform from the public builders the shipped
// A100 builder uses (driver.DriverBuilder, gpu.GPUBuilder), with the shape of
// the case; the A100 shape goes through platform.A100PlatformBuilder itself.
func buildPlatform(s shapeD) *platform.Platform {
	freq := sim.Freq(s.FreqHz) * sim.Hz
	if s.A100 {
		return new(platform.A100PlatformBuilder).WithFreq(freq).Build()
	}
	p := new(platform.Platform)
	p.Engine = sim.NewSerialEngine()
	p.Driver = new(driver.DriverBuilder).WithEngine(p.Engine).WithFreq(freq).Build("Driver")
	gb := new(gpu.GPUBuilder).WithEngine(p.Engine).WithFreq(freq).
		WithSMsCount(int64(s.SMs)).WithSubcoresCountPerSM(int64(s.Subcores))
	for i := 0; i < s.Devices; i++ {
		g := gb.Build(fmt.Sprintf("GPU(%d)", i))
		p.Driver.RegisterGPU(g)
		p.Devices = append(p.Devices, g)
	}
	return p
}

// monitor records, at the ports, what every component received and sent.
type monitor struct {
	kernelsAt  map[string][]string // GPU name -> signatures of kernels delivered
	blocksAt   map[string][]string // SM name -> signatures of thread blocks delivered
	warpsAt    map[string][]int64  // sub-core name -> instruction counts of warps delivered
	finSent    map[string]int      // component name -> "finished" messages sent upwards
	finRecv    map[string]int      // component name -> "finished" messages received from below
	busyNow    map[string]bool     // sub-core name -> holds a warp (delivered, completion not yet sent)
	maxBusy    int
	busyCount  int
	deliveries int64
}

func newMonitor() *monitor {
	return &monitor{kernelsAt: map[string][]string{}, blocksAt: map[string][]string{}, warpsAt: map[string][]int64{},
		finSent: map[string]int{}, finRecv: map[string]int{}, busyNow: map[string]bool{}}
}

func blockSig(tb *nvidiaconfig.Threadblock) string {
	var b strings.Builder
	for i := range tb.Warps {
		fmt.Fprintf(&b, "%d,", tb.Warps[i].InstructionsCount)
	}
	return b.String()
}

func kernelSig(k *nvidiaconfig.Kernel) string {
	var b strings.Builder
	for i := range k.Threadblocks {
		b.WriteString(blockSig(&k.Threadblocks[i]))
		b.WriteByte('|')
	}
	return b.String()
}

func (m *monitor) Func(ctx sim.HookCtx) {
	port, ok := ctx.Domain.(sim.Port)
	if !ok || port.Component() == nil {
		return
	}
	owner := port.Component().Name()
	switch ctx.Pos {
	case sim.HookPosPortMsgRecvd:
		m.deliveries++
		switch msg := ctx.Item.(type) {
		case *message.DriverToDeviceMsg:
			m.kernelsAt[owner] = append(m.kernelsAt[owner], kernelSig(&msg.Kernel))
		case *message.DeviceToSMMsg:
			m.blocksAt[owner] = append(m.blocksAt[owner], blockSig(&msg.Threadblock))
		case *message.SMToSubcoreMsg:
			m.warpsAt[owner] = append(m.warpsAt[owner], msg.Warp.InstructionsCount)
			if !m.busyNow[owner] {
				m.busyNow[owner] = true
				m.busyCount++
				if m.busyCount > m.maxBusy {
					m.maxBusy = m.busyCount
				}
			}
		case *message.SubcoreToSMMsg, *message.SMToDeviceMsg, *message.DeviceToDriverMsg:
			m.finRecv[owner]++
		}
	case sim.HookPosPortMsgSend:
		switch ctx.Item.(type) {
		case *message.SubcoreToSMMsg:
			m.finSent[owner]++
			if m.busyNow[owner] {
				m.busyNow[owner] = false
				m.busyCount--
			}
		case *message.SMToDeviceMsg, *message.DeviceToDriverMsg:
			m.finSent[owner]++
		}
	}
}

func sortedKeys[V any](m map[string]V) []string {
	ks := make([]string, 0, len(m))
	for k := range m {
		ks = append(ks, k)
	}
	sort.Strings(ks)
	return ks
}

func multiset(xs []string) map[string]int {
	m := map[string]int{}
	for _, x := range xs {
		m[x]++
	}
	return m
}

// msDiff returns elements delivered more often than expected (extra) and less
// often (missing).
func msDiff(got, want map[string]int) (extra, missing int) {
	for k, g := range got {
		if g > want[k] {
			extra += g - want[k]
		}
	}
	for k, w := range want {
		if got[k] < w {
			missing += w - got[k]
		}
	}
	return
}

type pend struct {
	Undispatched int   `json:"undispatched"`
	Unfinished   int64 `json:"unfinished"`
	Unreported   int64 `json:"unreported"`
}

func (p pend) idle() bool { return p.Undispatched == 0 && p.Unfinished == 0 && p.Unreported == 0 }

// checkSim is oracles (b) and (c).
func checkSim(rec vlib.Recorder, c *caseD, dir string) {
	tt := c.totals()
	seen := map[string]bool{}
	var stop map[string]any
	viol := func(key, what string, extra map[string]any) {
		if seen[key] {
			return
		}
		seen[key] = true
		w := map[string]any{"case": c, "trace_shape": trimShape(c.shapeOnly()), "engine_stop_state": stop}
		for k, v := range extra {
			w[k] = v
		}
		rec.Violation(key, what, w)
	}

	var bm *benchmark.Benchmark
	func() {
		defer func() {
			if r := recover(); r != nil {
				viol("C20|benchmark-builder-panics", "BenchmarkBuilder panicked on a trace the reader accepted: "+panicText(r), nil)
				bm = nil
			}
		}()
		bm = new(benchmark.BenchmarkBuilder).WithTraceDirectory(dir).Build()
	}()
	if bm == nil {
		return
	}
	// the benchmark must carry exactly the kernels of the trace, in order
	if len(bm.TraceExecs) != len(c.Execs) {
		viol("C20|benchmark|exec-count", fmt.Sprintf("trace has %d executions, benchmark %d", len(c.Execs), len(bm.TraceExecs)), nil)
		return
	}
	wantWarps := []string{}
	wantBlocks := []string{}
	wantKernels := []string{}
	for i, e := range c.Execs {
		te := bm.TraceExecs[i]
		if e.Kernel == nil {
			if te.ExecType() != nvidiaconfig.ExecMemcpy {
				viol("C20|benchmark|exec-type", fmt.Sprintf("execution %d is a memcpy in the trace, a kernel in the benchmark", i), nil)
				return
			}
			continue
		}
		ek, ok := te.(*benchmark.ExecKernel)
		if !ok {
			viol("C20|benchmark|exec-type", fmt.Sprintf("execution %d is a kernel in the trace, not in the benchmark", i), nil)
			return
		}
		k := ek.GetKernel()
		want := &nvidiaconfig.Kernel{ThreadblocksCount: int64(len(e.Kernel.Blocks))}
		for _, b := range e.Kernel.Blocks {
			tb := nvidiaconfig.Threadblock{WarpsCount: int64(len(b.Warps))}
			for _, w := range b.Warps {
				tb.Warps = append(tb.Warps, nvidiaconfig.Warp{InstructionsCount: int64(len(w.Insts))})
				wantWarps = append(wantWarps, fmt.Sprint(len(w.Insts)))
			}
			want.Threadblocks = append(want.Threadblocks, tb)
			wantBlocks = append(wantBlocks, blockSig(&tb))
		}
		wantKernels = append(wantKernels, kernelSig(want))
		bad := k.ThreadblocksCount != want.ThreadblocksCount || kernelSig(k) != kernelSig(want)
		for bi := range k.Threadblocks {
			if bi < len(want.Threadblocks) && k.Threadblocks[bi].WarpsCount != want.Threadblocks[bi].WarpsCount {
				bad = true
			}
		}
		if bad {
			viol("C20|benchmark|kernel-shape", fmt.Sprintf("kernel %s: benchmark blocks/warps/instruction counts %q differ from the trace %q",
				e.Kernel.File, clip(kernelSig(k)), clip(kernelSig(want))), nil)
			return
		}
		rec.Count("benchmark_kernels_compared", 1)
	}

	p := buildPlatform(c.Shape)
	mon := newMonitor()
	attach := func(comp sim.Component, names ...string) {
		for _, n := range names {
			port := comp.GetPortByName(n)
			port.AcceptHook(mon)
		}
	}
	attach(p.Driver, "ToDevice")
	var gpus []*gpu.GPU
	var sms []*sm.SM
	var scs []*subcore.Subcore
	smsOf := map[string][]*sm.SM{}
	scsOf := map[string][]*subcore.Subcore{}
	for _, g := range p.Devices {
		gpus = append(gpus, g)
		attach(g, g.Name()+".ToDriver", g.Name()+".ToSMs")
		for _, id := range sortedKeys(g.SMs) {
			s := g.SMs[id]
			sms = append(sms, s)
			smsOf[g.Name()] = append(smsOf[g.Name()], s)
			attach(s, s.Name()+".ToGPU", s.Name()+".ToSubcores")
			for _, sid := range sortedKeys(s.Subcores) {
				sc := s.Subcores[sid]
				scs = append(scs, sc)
				scsOf[s.Name()] = append(scsOf[s.Name()], sc)
				attach(sc, sc.Name()+".ToSM")
			}
		}
	}

	// (c) logical termination bound
	bound := 50*(tt.Insts+tt.Warps+tt.Blocks+tt.Kernels) + 10000
	ec := &simkit.EventCounter{Limit: bound}
	p.Engine.AcceptHook(ec)
	r := new(runner.RunnerBuilder).WithPlatform(p).Build()
	r.AddBenchmark(bm)
	var pv any
	livelock := false
	func() {
		defer func() {
			if x := recover(); x != nil {
				if _, ok := x.(simkit.ErrEventLimit); ok {
					livelock = true
					return
				}
				pv = x
			}
		}()
		r.Run()
	}()
	rec.Count("engine_events", ec.N)
	if pv != nil {
		viol("C20|simulation-panics", "the simulation panicked: "+panicText(pv), nil)
		return
	}
	if livelock {
		viol("C20|no-termination", fmt.Sprintf("engine still had events after the bound of %d events (trace: %d kernels, %d blocks, %d warps, %d instructions)",
			bound, tt.Kernels, tt.Blocks, tt.Warps, tt.Insts), nil)
		return
	}
	rec.Count("runs_engine_returned", 1)

	// ---- state when Engine.Run() returned ----
	var warpsSeen, instsSeen int64
	for _, s := range sms {
		warpsSeen += s.GetTotalWarpsCount()
	}
	for _, sc := range scs {
		instsSeen += sc.GetTotalInstsCount()
	}
	dU, dF, dR := p.Driver.VerifPending()
	drv := pend{dU, dF, dR}
	pendOf := map[string]pend{}
	busy := map[string]pend{}
	for _, g := range gpus {
		u, f, rr := g.VerifPending()
		pendOf[g.Name()] = pend{u, f, rr}
	}
	for _, s := range sms {
		u, f, rr := s.VerifPending()
		pendOf[s.Name()] = pend{u, f, rr}
	}
	for _, sc := range scs {
		u, f, rr := sc.VerifPending()
		pendOf[sc.Name()] = pend{u, f, rr}
	}
	for n, q := range pendOf {
		if !q.idle() {
			busy[n] = q
		}
	}
	stop = map[string]any{
		"time": float64(p.Engine.CurrentTime()), "events": ec.N,
		"warps_seen_by_SMs": warpsSeen, "warps_in_trace": tt.Warps,
		"insts_seen_by_subcores": instsSeen, "insts_in_trace": tt.Insts,
		"driver_pending": drv, "non_idle_components": clipMap(busy),
		"kernel_finished_msgs_at_driver": mon.finRecv[p.Driver.Name()], "kernels_in_trace": tt.Kernels,
	}

	// ---- root causes, each with its own key ----
	rootCause := false
	// (i) a sub-core that was handed a warp with 0 instructions and never reported it finished
	stuckEmpty := map[string]bool{}
	for _, sc := range scs {
		ws := mon.warpsAt[sc.Name()]
		if len(ws) > mon.finSent[sc.Name()] && ws[len(ws)-1] == 0 && pendOf[sc.Name()].idle() {
			stuckEmpty[sc.Name()] = true
		}
	}
	if len(stuckEmpty) > 0 {
		rootCause = true
		rec.Count("runs_with_stuck_empty_warp", 1)
		viol("C20|empty-warp-never-completes",
			fmt.Sprintf("%d sub-core(s) received a warp with 0 instructions and never sent WarpFinished although they are idle (unfinished=0, unreported=0); "+
				"the SM keeps the sub-core allocated and its thread block, kernel and device never finish. Engine stopped having seen %d of %d warps, %d of %d instructions, driver unfinished kernels = %d",
				len(stuckEmpty), warpsSeen, tt.Warps, instsSeen, tt.Insts, drv.Unfinished),
			map[string]any{"stuck_subcores": clipList(sortedKeys(stuckEmpty))})
	}
	// (ii) dispatchable work next to a free unit when the engine has stopped
	freeSC := func(sc *subcore.Subcore) bool {
		return len(mon.warpsAt[sc.Name()]) == mon.finSent[sc.Name()] && pendOf[sc.Name()].idle()
	}
	for _, s := range sms {
		if pendOf[s.Name()].Undispatched == 0 {
			continue
		}
		for _, sc := range scsOf[s.Name()] {
			if freeSC(sc) {
				rootCause = true
				viol("C20|stops-with-work-left|sm-undispatched-warps-next-to-free-subcore",
					fmt.Sprintf("engine stopped while %s holds %d undispatched warp(s) and its sub-core %s is free: dispatchThreadblocksToSubcores returns false after a successful dispatch, "+
						"so the SM sleeps until some sub-core reports, and one never does", s.Name(), pendOf[s.Name()].Undispatched, sc.Name()), nil)
				break
			}
		}
	}
	freeSM := func(s *sm.SM) bool {
		if len(mon.blocksAt[s.Name()]) != mon.finSent[s.Name()] || !pendOf[s.Name()].idle() {
			return false
		}
		for _, sc := range scsOf[s.Name()] {
			if !freeSC(sc) {
				return false
			}
		}
		return true
	}
	for _, g := range gpus {
		if pendOf[g.Name()].Undispatched == 0 {
			continue
		}
		for _, s := range smsOf[g.Name()] {
			if freeSM(s) {
				rootCause = true
				viol("C20|stops-with-work-left|gpu-undispatched-blocks-next-to-free-sm",
					fmt.Sprintf("engine stopped while %s holds %d undispatched thread block(s) and %s is free: dispatchThreadblocksToSMs returns false after a successful dispatch, "+
						"so the GPU sleeps until some SM reports, and one never does", g.Name(), pendOf[g.Name()].Undispatched, s.Name()), nil)
				break
			}
		}
	}
	if drv.Undispatched > 0 {
		for _, g := range gpus {
			free := len(mon.kernelsAt[g.Name()]) == mon.finSent[g.Name()] && pendOf[g.Name()].idle()
			if free {
				rootCause = true
				viol("C20|stops-with-work-left|driver-undispatched-kernels-next-to-free-device",
					fmt.Sprintf("engine stopped while the driver holds %d undispatched kernel(s) and %s is free", drv.Undispatched, g.Name()), nil)
				break
			}
		}
	}

	// ---- exactly-once accounting at the ports ----
	var gotK, gotB, gotW []string
	for _, g := range gpus {
		gotK = append(gotK, mon.kernelsAt[g.Name()]...)
	}
	for _, s := range sms {
		gotB = append(gotB, mon.blocksAt[s.Name()]...)
	}
	for _, sc := range scs {
		for _, n := range mon.warpsAt[sc.Name()] {
			gotW = append(gotW, fmt.Sprint(n))
		}
	}
	rec.Count("kernels_delivered", int64(len(gotK)))
	rec.Count("blocks_delivered", int64(len(gotB)))
	rec.Count("warps_delivered", int64(len(gotW)))
	for _, lv := range []struct {
		name      string
		got, want []string
	}{{"kernel", gotK, wantKernels}, {"block", gotB, wantBlocks}, {"warp", gotW, wantWarps}} {
		extra, missing := msDiff(multiset(lv.got), multiset(lv.want))
		if extra > 0 {
			viol("C20|executed-more-than-once-or-invented|"+lv.name,
				fmt.Sprintf("%d %s(s) were delivered to an execution unit that the trace does not contain (or more often than it contains them): delivered %d, trace %d",
					extra, lv.name, len(lv.got), len(lv.want)), nil)
		}
		if missing > 0 && !rootCause {
			viol("C20|never-executed|"+lv.name,
				fmt.Sprintf("%d %s(s) of the trace were never delivered to an execution unit (delivered %d, trace %d)", missing, lv.name, len(lv.got), len(lv.want)), nil)
		}
	}

	// ---- conservation counters and idleness (the property's own observables) ----
	lost := warpsSeen != tt.Warps || instsSeen != tt.Insts
	nonIdle := !drv.idle() || len(busy) > 0
	finOK := int64(mon.finRecv[p.Driver.Name()]) == tt.Kernels
	if lost || nonIdle || !finOK {
		rec.Count("runs_with_loss_or_leftover", 1)
	}
	if !rootCause {
		if warpsSeen != tt.Warps {
			viol("C20|conservation|warps-seen-by-SMs", fmt.Sprintf("sum of SM.GetTotalWarpsCount = %d, trace has %d warps", warpsSeen, tt.Warps), nil)
		}
		if instsSeen != tt.Insts {
			viol("C20|conservation|insts-seen-by-subcores", fmt.Sprintf("sum of Subcore.GetTotalInstsCount = %d, trace has %d instructions", instsSeen, tt.Insts), nil)
		}
		if drv.Unfinished != 0 || drv.Undispatched != 0 {
			viol("C20|driver-kernels-not-finished", fmt.Sprintf("engine stopped with driver undispatched=%d unfinished=%d kernels", drv.Undispatched, drv.Unfinished), nil)
		}
		if !finOK {
			viol("C20|kernel-finished-reports", fmt.Sprintf("driver received %d KernelFinished messages for %d kernels", mon.finRecv[p.Driver.Name()], tt.Kernels), nil)
		}
		if len(busy) > 0 {
			lv := "subcore"
			for n := range busy {
				if !strings.Contains(n, "Subcore") {
					lv = "sm"
					if !strings.Contains(n, "SM(") {
						lv = "gpu"
						break
					}
				}
			}
			viol("C20|stops-with-work-left|unexplained|"+lv, fmt.Sprintf("engine stopped with %d component(s) still holding work", len(busy)), nil)
		}
		// every level reported completion exactly once per unit of work
		var tbFin, wFin int
		for _, g := range gpus {
			tbFin += mon.finRecv[g.Name()]
		}
		for _, s := range sms {
			wFin += mon.finRecv[s.Name()]
		}
		if int64(tbFin) != tt.Blocks {
			viol("C20|block-finished-reports", fmt.Sprintf("GPUs received %d ThreadblockFinished messages for %d thread blocks", tbFin, tt.Blocks), nil)
		}
		if int64(wFin) != tt.Warps {
			viol("C20|warp-finished-reports", fmt.Sprintf("SMs received %d WarpFinished messages for %d warps", wFin, tt.Warps), nil)
		}
		if !lost && !nonIdle && finOK {
			rec.Count("runs_fully_conserved", 1)
		}
	}

	rec.Count("trace_kernels", tt.Kernels)
	rec.Count("trace_blocks", tt.Blocks)
	rec.Count("trace_warps", tt.Warps)
	rec.Count("trace_insts", tt.Insts)
	rec.Count("trace_empty_warps", tt.EmptyWarps)
	rec.Count("port_deliveries_observed", mon.deliveries)
	rec.Distinct("shape", fmt.Sprintf("%dx%dx%d@%g", c.Shape.Devices, c.Shape.SMs, c.Shape.Subcores, c.Shape.FreqHz))
	rec.Distinct("max_concurrently_busy_subcores", fmt.Sprint(mon.maxBusy))
	if tt.MaxBlocksPerKernel > int64(c.Shape.SMs) {
		rec.Count("cases_blocks_gt_sms", 1)
	}
	if int64(c.Shape.Devices) > tt.Kernels {
		rec.Count("cases_devices_gt_kernels", 1)
	}
	if tt.Kernels > int64(c.Shape.Devices) {
		rec.Count("cases_kernels_gt_devices", 1)
	}
	if tt.Ragged {
		rec.Count("cases_ragged", 1)
	}
	if tt.EmptyWarps > 0 {
		rec.Count("cases_with_empty_warp", 1)
	}
	if c.Shape.A100 {
		rec.Count("cases_a100_shape", 1)
	}
	if c.Shipped {
		rec.Count("cases_shipped_sample_trace", 1)
	}
	if tt.Ragged || tt.EmptyWarps > 0 || tt.MaxBlocksPerKernel > int64(c.Shape.SMs) {
		rec.Nontrivial(c.Name)
	}
}

func clip(s string) string {
	if len(s) > 200 {
		return s[:200] + "..."
	}
	return s
}

func clipList(xs []string) []string {
	if len(xs) > 12 {
		return append(xs[:12:12], fmt.Sprintf("... %d more", len(xs)-12))
	}
	return xs
}

func clipMap(m map[string]pend) any {
	if len(m) <= 16 {
		return m
	}
	out := map[string]pend{}
	for i, k := range sortedKeys(m) {
		if i >= 16 {
			break
		}
		out[k] = m[k]
	}
	return map[string]any{"first_16": out, "total": len(m)}
}
