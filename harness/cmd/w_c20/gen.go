package main

import (
	"fmt"

	"verifharness/vlib"
)

// ---- trace description (the ground truth that gets serialised) -------------

type instD struct {
	PC    int32    `json:"pc"`
	Mask  uint32   `json:"mask"`
	Dst   []string `json:"dst,omitempty"`
	Op    string   `json:"op"`
	Src   []string `json:"src,omitempty"`
	Width int32    `json:"w,omitempty"`    // mem_width, 0 = not a memory instruction
	Mode  int32    `json:"mode,omitempty"` // 0 list_all, 1 base_stride, 2 base_delta
	// Addrs: mode 0: one address per active thread; mode 1 and 2: [base]
	Addrs  []uint64 `json:"addrs,omitempty"`
	Stride int32    `json:"stride,omitempty"`
	Deltas []int32  `json:"deltas,omitempty"` // mode 2: one per active thread after the first
	Imm    int64    `json:"imm,omitempty"`
}

type warpD struct {
	ID    int32   `json:"id"`
	Insts []instD `json:"insts"`
}

type blockD struct {
	ID    [3]int32 `json:"id"`
	Warps []warpD  `json:"warps"`
}

type kernelD struct {
	File      string   `json:"file"`
	Name      string   `json:"name"`
	KernelID  int32    `json:"kernel_id"`
	Grid      [3]int32 `json:"grid"`
	Block     [3]int32 `json:"block"`
	Shmem     int32    `json:"shmem"`
	Nregs     int32    `json:"nregs"`
	BinVer    int32    `json:"binver"`
	Stream    int32    `json:"stream"`
	ShmemBase int64    `json:"shmem_base"`
	LocalBase int64    `json:"local_base"`
	Nvbit     string   `json:"nvbit"`
	TracerVer string   `json:"tracer"`
	Blocks    []blockD `json:"blocks"`

	// as written by the last writeTrace (form.go: file naming, long kernel name)
	wFile, wName string
	shuffled     bool
}

func (k *kernelD) nameWritten() string {
	if k.wName != "" {
		return k.wName
	}
	return k.Name
}

func (k *kernelD) fileWritten() string {
	if k.wFile != "" {
		return k.wFile
	}
	return k.File
}

type execD struct {
	Kernel *kernelD `json:"kernel,omitempty"`
	// memcpy
	Dir  string `json:"dir,omitempty"`
	Addr uint64 `json:"addr,omitempty"`
	Len  uint64 `json:"len,omitempty"`
}

type shapeD struct {
	A100     bool    `json:"a100,omitempty"`
	Devices  int     `json:"devices"`
	SMs      int     `json:"sms"`
	Subcores int     `json:"subcores"`
	FreqHz   float64 `json:"freq_hz"`
}

type styleD struct {
	BlankAfterWarp int  `json:"blank_after_warp"` // blank lines after each warp's instructions
	ShuffleBlocks  bool `json:"shuffle_blocks"`
	// Form is the byte-level serialisation form of kernelslist.g and of the
	// kernel trace files; the zero value is the layout of the shipped sample.
	Form formD `json:"form"`
}

type caseD struct {
	Name    string  `json:"name"`
	Index   int     `json:"index"`
	Shipped bool    `json:"shipped,omitempty"` // the sample trace shipped in /repo/nvidia/data
	Execs   []execD `json:"-"`
	Shape   shapeD  `json:"shape"`
	Style   styleD  `json:"style"`
	// Probe marks canonical cases that leave the judged input domain on
	// purpose (documented in the report); value = what is probed.
	Probe string `json:"probe,omitempty"`
}

// totals of a description
type totals struct {
	Kernels, Blocks, Warps, Insts int64
	EmptyWarps                    int64
	Ragged                        bool
	MaxBlocksPerKernel            int64
}

func (c *caseD) totals() totals {
	var t totals
	for _, e := range c.Execs {
		if e.Kernel == nil {
			continue
		}
		t.Kernels++
		nb := int64(len(e.Kernel.Blocks))
		if nb > t.MaxBlocksPerKernel {
			t.MaxBlocksPerKernel = nb
		}
		w0 := -1
		for _, b := range e.Kernel.Blocks {
			t.Blocks++
			if w0 >= 0 && len(b.Warps) != w0 {
				t.Ragged = true
			}
			w0 = len(b.Warps)
			n0 := -1
			for _, w := range b.Warps {
				t.Warps++
				t.Insts += int64(len(w.Insts))
				if len(w.Insts) == 0 {
					t.EmptyWarps++
				}
				if n0 >= 0 && len(w.Insts) != n0 {
					t.Ragged = true
				}
				n0 = len(w.Insts)
			}
		}
	}
	return t
}

// shapeOnly is the compact, replayable witness of a trace: per kernel, per
// block, the instruction count of every warp.
func (c *caseD) shapeOnly() [][][]int {
	var out [][][]int
	for _, e := range c.Execs {
		if e.Kernel == nil {
			continue
		}
		var k [][]int
		for _, b := range e.Kernel.Blocks {
			var ws []int
			for _, w := range b.Warps {
				ws = append(ws, len(w.Insts))
			}
			k = append(k, ws)
		}
		out = append(out, k)
	}
	return out
}

// ---- generator ------------------------------------------------------------

// Registers the shipped reader knows (nvidiaconfig/register.go): R0..R31, R255.
func genReg(r *vlib.PRNG) string {
	if r.Chance(1, 8) {
		return "R255"
	}
	return fmt.Sprintf("R%d", r.Intn(32))
}

var aluOps = []string{"MOV", "S2R", "IMAD", "IMAD.WIDE", "IMAD.MOV.U32", "ISETP.GE.AND", "HFMA2.MMA", "ULDC.64",
	"FADD", "FFMA", "BRA", "BAR.SYNC", "SHF.R.U32.HI", "LOP3.LUT", "IADD3", "NOP", "EXIT"}
var ldOps = []string{"LDG.E", "LDG.E.64", "LDS", "LDL", "LDG.E.U8", "ATOMG.E.ADD.STRONG.GPU"}
var stOps = []string{"STG.E", "STG.E.64", "STS", "STL", "RED.E.ADD.STRONG.GPU"}

func popcount(m uint32) int {
	n := 0
	for ; m != 0; m &= m - 1 {
		n++
	}
	return n
}

func genMask(r *vlib.PRNG, nonzero bool) uint32 {
	switch r.Intn(6) {
	case 0, 1, 2:
		return 0xffffffff
	case 3:
		if !nonzero {
			return 0
		}
		return 1 << uint(r.Intn(32))
	case 4:
		return 1 << uint(r.Intn(32))
	default:
		m := r.Uint32()
		if m == 0 && nonzero {
			m = 0x80000001
		}
		return m
	}
}

func genAddr(r *vlib.PRNG) uint64 {
	switch r.Intn(4) {
	case 0: // global heap as in the shipped sample
		return 0x7fb0fc400000 + uint64(r.Intn(1<<24))*4
	case 1: // shared / local window: small
		return uint64(1 + r.Intn(0xffff))
	case 2: // a value whose leading hex digit is a letter
		return 0xa000000000 + uint64(r.Intn(1<<30))
	default:
		return 0x10000 + uint64(r.Uint32())
	}
}

func genInst(r *vlib.PRNG, pc int32) instD {
	in := instD{PC: pc, Imm: 0}
	if r.Chance(1, 3) {
		switch r.Intn(4) {
		case 0:
			in.Imm = int64(r.Intn(1 << 16))
		case 1:
			in.Imm = -int64(r.Intn(1 << 16))
		case 2:
			in.Imm = int64(r.Uint32())
		default:
			in.Imm = 1
		}
	}
	kind := r.Intn(10)
	if kind < 6 { // non-memory
		in.Mask = genMask(r, false)
		in.Op = aluOps[r.Intn(len(aluOps))]
		for i, n := 0, r.Intn(3); i < n; i++ {
			in.Dst = append(in.Dst, genReg(r))
		}
		for i, n := 0, r.Intn(5); i < n; i++ {
			in.Src = append(in.Src, genReg(r))
		}
		return in
	}
	// memory instruction: load (with destination) or store / reduction (without)
	in.Mask = genMask(r, true)
	if r.Bool() {
		in.Op = ldOps[r.Intn(len(ldOps))]
		in.Dst = []string{genReg(r)}
		if r.Chance(1, 6) {
			in.Dst = append(in.Dst, genReg(r))
		}
		in.Src = []string{genReg(r)}
	} else {
		in.Op = stOps[r.Intn(len(stOps))]
		in.Src = []string{genReg(r), genReg(r)}
	}
	in.Width = []int32{1, 2, 4, 8, 16}[r.Intn(5)]
	in.Mode = int32(r.Intn(3))
	active := popcount(in.Mask)
	base := genAddr(r)
	switch in.Mode {
	case 0:
		for i := 0; i < active; i++ {
			in.Addrs = append(in.Addrs, base+uint64(i)*uint64(in.Width)+uint64(r.Intn(2))*256)
		}
	case 1:
		in.Addrs = []uint64{base}
		in.Stride = []int32{0, int32(in.Width), 4, 128, -4, int32(r.Intn(4096))}[r.Intn(6)]
	case 2:
		in.Addrs = []uint64{base}
		for i := 1; i < active; i++ {
			in.Deltas = append(in.Deltas, []int32{4, 0, -8, int32(r.Intn(1 << 20)), -int32(r.Intn(1 << 20))}[r.Intn(5)])
		}
	}
	return in
}

func factor3(r *vlib.PRNG, n int) [3]int32 {
	g := [3]int32{int32(n), 1, 1}
	for _, d := range []int{2, 3, 5} {
		if n%d == 0 && r.Bool() {
			g = [3]int32{int32(n / d), int32(d), 1}
			if (n/d)%2 == 0 && r.Bool() {
				g = [3]int32{int32(n / d / 2), int32(d), 2}
			}
		}
	}
	return g
}

type sizeClass struct{ k, b, w, n int }

func genKernel(r *vlib.PRNG, idx int, sc sizeClass, emptyPct int, ragged bool) *kernelD {
	k := &kernelD{
		File:      fmt.Sprintf("kernel-%d.traceg", idx),
		Name:      []string{"_Z9vectorAddPKfS0_Pfi", "_Z6kernelPfS_i", "bfs_kernel", "k"}[r.Intn(4)] + fmt.Sprintf("_%d", r.Intn(100)),
		KernelID:  int32(idx),
		Shmem:     int32(r.Intn(3)) * 1024,
		Nregs:     int32(8 + r.Intn(56)),
		BinVer:    []int32{70, 75, 80, 86}[r.Intn(4)],
		Stream:    int32(r.Intn(4)),
		ShmemBase: 0x00007fb139000000 + int64(r.Intn(16))<<24,
		LocalBase: 0x00007fb137000000 + int64(r.Intn(16))<<20,
		Nvbit:     []string{"1.7", "1.5.5", "1.7.1"}[r.Intn(3)],
		TracerVer: []string{"5", "4", "3"}[r.Intn(3)],
	}
	nb := 1 + r.Intn(sc.b)
	k.Grid = factor3(r, nb)
	wPer := 1 + r.Intn(sc.w)
	k.Block = [3]int32{int32(wPer * 32), 1, 1}
	nBase := r.Intn(sc.n + 1)
	for b := 0; b < nb; b++ {
		x := int32(b) % k.Grid[0]
		y := (int32(b) / k.Grid[0]) % k.Grid[1]
		z := int32(b) / (k.Grid[0] * k.Grid[1])
		bd := blockD{ID: [3]int32{x, y, z}}
		nw := wPer
		if ragged && r.Chance(1, 3) {
			nw = 1 + r.Intn(sc.w)
		}
		for w := 0; w < nw; w++ {
			n := nBase
			if ragged {
				n = r.Intn(sc.n + 1)
			}
			if n == 0 && emptyPct == 0 {
				n = 1
			}
			if emptyPct > 0 && r.Intn(100) < emptyPct {
				n = 0
			}
			wd := warpD{ID: int32(w)}
			pc := int32(0)
			for i := 0; i < n; i++ {
				wd.Insts = append(wd.Insts, genInst(r, pc))
				if r.Chance(1, 12) { // branch: PC jumps (also backwards)
					pc = int32(r.Intn(0x400)) * 16
				} else {
					pc += 16
				}
			}
			bd.Warps = append(bd.Warps, wd)
		}
		k.Blocks = append(k.Blocks, bd)
	}
	return k
}

func genShape(r *vlib.PRNG) shapeD {
	return shapeD{
		Devices:  1 + r.Intn(3),
		SMs:      []int{1, 1, 2, 2, 3, 4, 5, 8}[r.Intn(8)],
		Subcores: 1 + r.Intn(4),
		FreqHz:   []float64{1, 1e9}[r.Intn(2)],
	}
}

var a100 = shapeD{A100: true, Devices: 1, SMs: 108, Subcores: 4, FreqHz: 1}

// genCase is a pure function of (r, idx).
func genCase(r *vlib.PRNG, idx int) *caseD {
	c := &caseD{Name: fmt.Sprintf("s%d", idx), Index: idx}
	form := genForm(r.Fork("form")) // forked: the traces themselves are the ones generated before forms existed
	c.Shape = genShape(r)
	if idx%10 == 3 {
		c.Shape = a100
	}
	if idx%25 == 7 {
		c.Shipped = true
		c.Name += "-shipped-sample"
		return c
	}
	c.Style = styleD{BlankAfterWarp: 1 + r.Intn(2), ShuffleBlocks: r.Chance(1, 4), Form: form}
	var sc sizeClass
	switch v := r.Intn(10); {
	case v < 6:
		sc = sizeClass{3, 6, 4, 12}
	case v < 9:
		sc = sizeClass{6, 20, 8, 30}
	default:
		sc = sizeClass{6, 40, 12, 60}
	}
	emptyPct := 0
	if r.Chance(1, 4) {
		emptyPct = []int{3, 10, 30}[r.Intn(3)]
	}
	ragged := r.Chance(2, 3)
	nk := 1 + r.Intn(sc.k)
	ki := 0
	for ki < nk {
		if r.Chance(1, 3) {
			dir := "MemcpyHtoD"
			if r.Chance(1, 3) {
				dir = "MemcpyDtoH"
			}
			c.Execs = append(c.Execs, execD{Dir: dir, Addr: 0x00007fb0fc400000 + uint64(r.Intn(1<<20))*512, Len: uint64(1 + r.Intn(1<<22))})
			continue
		}
		ki++
		c.Execs = append(c.Execs, execD{Kernel: genKernel(r, ki, sc, emptyPct, ragged)})
	}
	if r.Chance(1, 3) {
		c.Execs = append(c.Execs, execD{Dir: "MemcpyDtoH", Addr: 0x00007fb0fc461c00, Len: uint64(4 * (1 + r.Intn(50000)))})
	}
	return c
}

// ---- canonical battery (seed independent) ----------------------------------

func plainInst(pc int32) instD {
	return instD{PC: pc, Mask: 0xffffffff, Dst: []string{"R1"}, Op: "MOV"}
}

func mkKernel(idx int, blocks [][]int) *kernelD {
	k := &kernelD{File: fmt.Sprintf("kernel-%d.traceg", idx), Name: "canon", KernelID: int32(idx),
		Grid: [3]int32{int32(len(blocks)), 1, 1}, Block: [3]int32{32, 1, 1}, Nregs: 12, BinVer: 80,
		ShmemBase: 0x00007fb139000000, LocalBase: 0x00007fb137000000, Nvbit: "1.7", TracerVer: "5"}
	for b, ws := range blocks {
		bd := blockD{ID: [3]int32{int32(b), 0, 0}}
		for w, n := range ws {
			wd := warpD{ID: int32(w)}
			for i := 0; i < n; i++ {
				wd.Insts = append(wd.Insts, plainInst(int32(i*16)))
			}
			bd.Warps = append(bd.Warps, wd)
		}
		k.Blocks = append(k.Blocks, bd)
	}
	return k
}

func canonical() []*caseD {
	sh := func(d, s, c int) shapeD { return shapeD{Devices: d, SMs: s, Subcores: c, FreqHz: 1} }
	st := styleD{BlankAfterWarp: 1}
	mk := func(name string, shape shapeD, kernels ...[][]int) *caseD {
		c := &caseD{Name: name, Shape: shape, Style: st}
		for i, k := range kernels {
			c.Execs = append(c.Execs, execD{Kernel: mkKernel(i+1, k)})
		}
		return c
	}
	memAll := func() *caseD {
		// one warp with every memory form, with and without destination, immediates
		k := mkKernel(1, [][]int{{0}})
		w := &k.Blocks[0].Warps[0]
		w.Insts = []instD{
			{PC: 0x00, Mask: 0xffffffff, Dst: []string{"R4"}, Op: "LDG.E", Src: []string{"R4"}, Width: 4, Mode: 1, Addrs: []uint64{0x7fb0fc430e00}, Stride: 4},
			{PC: 0x10, Mask: 0xffffffff, Op: "STG.E", Src: []string{"R6", "R9"}, Width: 4, Mode: 1, Addrs: []uint64{0x7fb0fc461c00}, Stride: 4},
			{PC: 0x20, Mask: 0x0000000f, Dst: []string{"R2"}, Op: "LDG.E.64", Src: []string{"R2"}, Width: 8, Mode: 0,
				Addrs: []uint64{0x7fb0fc400000, 0x7fb0fc400100, 0x7fb0fc400008, 0x7fb0fc400200}},
			{PC: 0x30, Mask: 0x00000007, Op: "STS", Src: []string{"R3", "R255"}, Width: 4, Mode: 2, Addrs: []uint64{0x1000}, Deltas: []int32{4, -8}, Imm: 7},
			{PC: 0x40, Mask: 0x80000000, Dst: []string{"R5"}, Op: "LDS", Src: []string{"R31"}, Width: 2, Mode: 2, Addrs: []uint64{0xabc0}, Imm: -3},
			{PC: 0x50, Mask: 0xffffffff, Dst: []string{"R7"}, Op: "IMAD.MOV.U32", Src: []string{"R255", "R255", "R0"}, Imm: 42},
			{PC: 0x60, Mask: 0x00000000, Op: "EXIT"},
		}
		return &caseD{Name: "canon-memory-forms", Shape: sh(1, 1, 1), Style: st, Execs: []execD{
			{Dir: "MemcpyHtoD", Addr: 0x00007fb0fc400000, Len: 200000}, {Kernel: k}, {Dir: "MemcpyDtoH", Addr: 0x00007fb0fc461c00, Len: 4}}}
	}
	regProbe := func() *caseD {
		k := mkKernel(1, [][]int{{1}})
		k.Blocks[0].Warps[0].Insts = []instD{{PC: 0, Mask: 0xffffffff, Dst: []string{"R32"}, Op: "MOV", Src: []string{"R254"}}}
		return &caseD{Name: "canon-probe-register-R32", Shape: sh(1, 1, 1), Style: st, Execs: []execD{{Kernel: k}},
			Probe: "register operands outside R0..R31/R255 (valid accel-sim register names)"}
	}
	out := []*caseD{
		// the spike of DESIGN.md: 2 blocks, warps of 2,0 and 1 instructions on 2 SM x 2 sub-cores
		mk("canon-empty-warp-2blocks-2sm-2sc", sh(1, 2, 2), [][]int{{2, 0}, {1}}),
		// a single empty warp, one unit of everything: isolates the sub-core's completion rule
		mk("canon-single-empty-warp", sh(1, 1, 1), [][]int{{0}}),
		// empty warp last in its block, enough sub-cores for every warp
		mk("canon-empty-warp-last", sh(1, 1, 4), [][]int{{3, 1, 0}}),
		// empty warp first: the SM keeps two undispatched warps next to a free sub-core
		mk("canon-empty-warp-first-1sm-2sc", sh(1, 1, 2), [][]int{{0, 2, 1}}),
		// controls without empty warps
		mk("canon-control-2blocks-2sm-2sc", sh(1, 2, 2), [][]int{{2, 1}, {1}}),
		mk("canon-more-blocks-than-sms", sh(1, 2, 2), [][]int{{1, 2}, {3}, {1, 1, 1}, {2}, {4, 1}}),
		mk("canon-more-devices-than-kernels", sh(3, 2, 1), [][]int{{1, 1}, {2}}),
		mk("canon-more-kernels-than-devices", sh(2, 1, 2), [][]int{{1}}, [][]int{{2, 2}}, [][]int{{1}, {1}}, [][]int{{3}}, [][]int{{1, 2, 3}}),
		mk("canon-a100-uniform", a100, [][]int{{4, 4, 4, 4}, {4, 4, 4, 4}, {4, 4, 4, 4}}),
		memAll(),
		regProbe(),
		{Name: "canon-shipped-sample-a100", Shipped: true, Shape: a100},
		{Name: "canon-shipped-sample-2x3x2", Shipped: true, Shape: sh(2, 3, 2)},
	}
	// ---- serialisation forms: every dimension on its own, on a list of
	// 2 memcpy + 3 kernels that ends in a kernel entry, with memory instructions ----
	formCase := func(name string, f formD, nKernels int, tail bool) *caseD {
		c := &caseD{Name: name, Shape: sh(1, 2, 2), Style: styleD{BlankAfterWarp: 1, Form: f}}
		if nKernels > 1 {
			c.Execs = append(c.Execs, execD{Dir: "MemcpyHtoD", Addr: 0x00007fb0fc400000, Len: 200000}, execD{Dir: "MemcpyHtoD", Addr: 0x00007fb0fc430e00, Len: 200000})
		}
		shapes := [][][]int{{{2, 1}, {1}}, {{3}, {0, 2}}, {{1, 1}, {2}, {4}}}
		for i := 0; i < nKernels; i++ {
			k := mkKernel(i+1, shapes[i%3])
			k.Name = fmt.Sprintf("_Z6kernelPfS_i_%d", i)
			w := &k.Blocks[0].Warps[0]
			w.Insts[0] = instD{PC: 0, Mask: 0xffffffff, Dst: []string{"R4"}, Op: "LDG.E", Src: []string{"R4"}, Width: 4, Mode: 1, Addrs: []uint64{0x7fb0fc430e00}, Stride: 4}
			w.Insts[len(w.Insts)-1].Imm = 7 // the last field of the last instruction of the warp
			last := &k.Blocks[len(k.Blocks)-1]
			lw := &last.Warps[len(last.Warps)-1]
			lw.Insts[len(lw.Insts)-1] = instD{PC: 0x30, Mask: 0x7, Op: "STS", Src: []string{"R3", "R255"}, Width: 4, Mode: 2, Addrs: []uint64{0x1000}, Deltas: []int32{4, -8}, Imm: -3}
			c.Execs = append(c.Execs, execD{Kernel: k})
		}
		if tail {
			c.Execs = append(c.Execs, execD{Dir: "MemcpyDtoH", Addr: 0x00007fb0fc461c00, Len: 4})
		}
		return c
	}
	for _, d := range formDims {
		out = append(out, formCase("canon-form-"+d, singleForm(d), 3, false))
	}
	everything := formD{ListCRLF: true, ListNoFinalNL: true, ListBlank: true, ListMemcpyWS: true, Names: "multi-digit", CRLF: true, NoFinalNL: true,
		Blank: "many", Trailing: true, InstLead: true, Comments: "extra", LongName: true}
	minimal := formD{ListNoFinalNL: true, Names: "descending", NoFinalNL: true, Blank: "none", Comments: "none"}
	out = append(out,
		formCase("canon-form-list-is-a-single-unterminated-line", singleForm("list-no-final-newline"), 1, false),
		formCase("canon-form-list-unterminated-crlf-file", formD{ListCRLF: true, ListNoFinalNL: true}, 3, false),
		formCase("canon-form-list-ends-in-unterminated-memcpy", formD{ListNoFinalNL: true, ListMemcpyWS: true}, 3, true),
		formCase("canon-form-every-dimension-at-once", everything, 3, false),
		formCase("canon-form-no-blank-no-comment-no-final-newline", minimal, 3, false),
		formCase("canon-form-11-kernels-multi-digit-names", formD{Names: "descending", ListBlank: true}, 11, true))
	return out
}
