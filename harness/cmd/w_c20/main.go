// w_c20: the NVIDIA trace-driven simulator (/repo/nvidia) under generated
// accel-sim traces and platform shapes (DESIGN.md, C20).
//
//	(a) parse(serialise(t)) == t on every exported field of what
//	    tracereader returns (and of what benchmark.BenchmarkBuilder derives);
//	(b) when Engine.Run() returns: warps seen by SMs, instructions seen by
//	    sub-cores, exactly-once delivery at every port, every component idle,
//	    driver's unfinished-kernel count 0, one completion report per unit;
//	(c) Engine.Run() returns within a logical event bound.
//
// Every case runs in a child process (vlib/batch): the reader keeps its
// scanner in a package variable, the driver prints to stdout and every built
// component registers an atexit handler.
package main

import (
	"encoding/json"
	"fmt"
	"os"
	"path/filepath"

	"verifharness/vlib"
	"verifharness/vlib/batch"
)

func repoDir() string {
	if d := os.Getenv("VERIF_REPO_DIR"); d != "" {
		return d
	}
	return "/repo"
}

func caseAt(seed int64, canon []*caseD, i int) *caseD {
	if i < len(canon) {
		cc := canon[i]
		cc.Index = i
		return cc
	}
	j := i - len(canon)
	cd := genCase(batch.Rand("C20", seed, "cases").ForkN("s", j), j)
	cd.Index = i
	return cd
}

func runCase(rec vlib.Recorder, c *caseD) {
	rec.Eval()
	var dir string
	if c.Shipped {
		dir = filepath.Join(repoDir(), "nvidia", "data", "simple-trace-example")
		if err := ownParseDir(c, dir); err != nil {
			rec.Inconclusive("cannot read the shipped sample trace: " + err.Error())
			return
		}
	} else {
		d, err := os.MkdirTemp(".", "trace-")
		if err != nil {
			rec.Inconclusive("cannot create scratch directory: " + err.Error())
			return
		}
		dir = d
		defer os.RemoveAll(d)
		if err := writeTrace(c, dir); err != nil {
			rec.Inconclusive("cannot write trace: " + err.Error())
			return
		}
	}
	if !checkParse(rec, c, dir) {
		return
	}
	checkSim(rec, c, dir)
	if c.Index%40 == 0 {
		rec.Sample(map[string]any{"case": c, "trace_shape": trimShape(c.shapeOnly())})
	}
}

func main() {
	canon := canonical()
	seed, _ := batch.SeedTier()
	if lo, hi, ok := batch.ChildRange(); ok {
		batch.RunChild(lo, hi, func(rec *vlib.ChildRecorder, i int) { runCase(rec, caseAt(seed, canon, i)) })
	}
	// --replay <file>: re-execute exactly the case of a replay file, in this process
	for i, a := range os.Args {
		if a == "--replay" && i+1 < len(os.Args) {
			replay(canon, os.Args[i+1])
			return
		}
	}
	c := vlib.Start("C20")
	n := len(canon) + c.N(300, 20000)

	per := 8
	if c.Thorough() {
		per = 100
	}
	batch.Run(c, batch.Opts{N: n, First: len(canon), PerChild: per, OnCrash: func(cr batch.Crash) {
		cd := caseAt(seed, canon, cr.Index)
		c.Violation("C20|process-exits", fmt.Sprintf("the process running case %s exited with code %d inside the case", cd.Name, cr.ExitCode),
			map[string]any{"case": cd, "output_tail": cr.Tail})
	}})

	c.Finish(vlib.FinishOpts{
		Rule: "case = (trace description serialised to kernelslist.g + kernel-N.traceg, platform shape devices x SMs x sub-cores); generated from VERIF_SEED " +
			"plus a fixed canonical battery; non-trivial = distinct case whose simulation was judged and whose trace is ragged (blocks with different warp counts or warps " +
			"with different instruction counts) or contains an empty warp or has more thread blocks in a kernel than the device has SMs",
		Assumptions: []string{
			"register operands are drawn from R0..R31 and R255 (the only names the shipped reader's table knows); one canonical probe leaves that set and is keyed separately",
			"'enable lineinfo' is always 0 (the reader has no support for the extra line_num column); every memory instruction has at least one active thread",
			"addresses are serialised with a 0x prefix as accel-sim's tracer writes them (and as in the shipped sample trace)",
			"Instruction.OpCode is accepted as nil: the reader's opcode assignment is commented out in the source; a non-nil value must equal the serialised opcode",
			"thread-block and warp ids are unexported in the reader's structures and are not compared; blocks and warps are compared positionally in file order",
			"termination bound = 50*(instructions+warps+blocks+kernels)+10^4 engine events; no wall clock in any verdict",
		},
		MinNontrivial: 40,
		MinCounters: map[string]int64{
			"runs_engine_returned": 150, "runs_fully_conserved": 100, "parse_instructions_compared": 20000,
			"parse_mem_insts_mode0": 300, "parse_mem_insts_mode1": 300, "parse_mem_insts_mode2": 300,
			"parse_mem_insts_with_dest": 300, "parse_mem_insts_without_dest": 300, "parse_memcpy_lines_compared": 50,
			"cases_blocks_gt_sms": 30, "cases_devices_gt_kernels": 10, "cases_a100_shape": 10, "cases_shipped_sample_trace": 3,
			"cases_with_empty_warp": 10, "warps_delivered": 2000,
		},
	})
}

func replay(canon []*caseD, path string) {
	b, err := os.ReadFile(path) // before vlib.Start, which removes stale replay files
	if err != nil {
		fmt.Println("cannot read replay file:", err)
		os.Exit(2)
	}
	var rf struct {
		Seed    int64 `json:"seed"`
		Witness struct {
			Case struct {
				Index int    `json:"index"`
				Name  string `json:"name"`
			} `json:"case"`
		} `json:"witness"`
	}
	if err := json.Unmarshal(b, &rf); err != nil {
		fmt.Println("cannot parse replay file:", err)
		os.Exit(2)
	}
	c := vlib.Start("C20")
	c.Seed = rf.Seed
	cd := caseAt(rf.Seed, canon, rf.Witness.Case.Index)
	fmt.Printf("[C20] replaying case %s (index %d, seed %d)\n", cd.Name, cd.Index, rf.Seed)
	d, cleanup := vlib.Scratch("C20-replay")
	_ = os.Chdir(d)
	runCase(c, cd)
	_ = os.Chdir("/")
	cleanup()
	if c.NumNewViolations() > 0 {
		os.Exit(1)
	}
	fmt.Println("[C20] replay: no unlisted violation")
	os.Exit(0)
}
