// w_c20: the NVIDIA trace-driven simulator (/repo/nvidia) under generated
// accel-sim traces and platform shapes (DESIGN.md, C20).
//
//	(a) parse(serialise(t)) == t on every exported field of what
//	    tracereader returns (and of what benchmark.BenchmarkBuilder derives);
//	(b) when Engine.Run() returns: warps seen by SMs, instructions seen by
//	    sub-cores, exactly-once delivery at every port, every component idle,
//	    driver's unfinished-kernel count 0, one completion report per unit;
//	(c) Engine.Run() returns within a logical event bound.
//
// Two families of cases: (trace, platform shape) pairs, each run as one
// benchmark on one runner (sim.go), and multi-step scenarios over the public
// API - several benchmarks per runner, repeated Run(), two platforms in one
// process, the driver API by hand - judged after every engine stop (multi.go,
// multigen.go).
//
// Every case runs in a child process (vlib/batch): the reader keeps its
// scanner in a package variable, the driver prints to stdout and every built
// component registers an atexit handler.
package main

import (
	"encoding/json"
	"fmt"
	"os"
	"path/filepath"

	"verifharness/vlib"
	"verifharness/vlib/batch"
)

func repoDir() string {
	if d := os.Getenv("VERIF_REPO_DIR"); d != "" {
		return d
	}
	return "/repo"
}

// anyCase is either a (trace, shape) pair or a multi-step scenario.
type anyCase struct {
	single *caseD
	multi  *multiD
}

func (a anyCase) name() string {
	if a.multi != nil {
		return a.multi.Name
	}
	return a.single.Name
}

func (a anyCase) witness() any {
	if a.multi != nil {
		return map[string]any{"index": a.multi.Index, "name": a.multi.Name, "kind": a.multi.Kind}
	}
	return a.single
}

// Index layout (independent of the tier): the canonical (trace, shape) battery,
// the canonical multi-step battery, then the generated cases in blocks of 7:
// positions 2 and 5 of a block are multi-step scenarios, the other five are
// (trace, shape) pairs. Generated cases are numbered within their own family, so
// pair s<n> is the same case it was before the scenarios were added.
func caseAt(seed int64, canon []*caseD, canonM []*multiD, i int) anyCase {
	if i < len(canon) {
		cc := canon[i]
		cc.Index = i
		return anyCase{single: cc}
	}
	if i < len(canon)+len(canonM) {
		m := canonM[i-len(canon)]
		m.Index = i
		return anyCase{multi: m}
	}
	j := i - len(canon) - len(canonM)
	q, rem := j/7, j%7
	if rem == 2 || rem == 5 {
		k := 2*q + rem/4
		m := genMulti(batch.Rand("C20", seed, "multi").ForkN("m", k), k)
		m.Index = i
		return anyCase{multi: m}
	}
	k := 5*q + []int{0, 1, 0, 2, 3, 0, 4}[rem]
	cd := genCase(batch.Rand("C20", seed, "cases").ForkN("s", k), k)
	cd.Index = i
	return anyCase{single: cd}
}

func runAny(rec vlib.Recorder, a anyCase) {
	if a.multi != nil {
		runMulti(rec, a.multi)
		return
	}
	runCase(rec, a.single)
}

func runCase(rec vlib.Recorder, c *caseD) {
	rec.Eval()
	var dir string
	if c.Shipped {
		dir = filepath.Join(repoDir(), "nvidia", "data", "simple-trace-example")
		if err := ownParseDir(c, dir); err != nil {
			rec.Inconclusive("cannot read the shipped sample trace: " + err.Error())
			return
		}
	} else {
		d, err := os.MkdirTemp(".", "trace-")
		if err != nil {
			rec.Inconclusive("cannot create scratch directory: " + err.Error())
			return
		}
		dir = d
		defer os.RemoveAll(d)
		if err := writeTrace(c, dir); err != nil {
			rec.Inconclusive("cannot write trace: " + err.Error())
			return
		}
	}
	if !checkParse(rec, c, dir) {
		return
	}
	checkSim(rec, c, dir)
	if c.Index%40 == 0 {
		rec.Sample(map[string]any{"case": c, "trace_shape": trimShape(c.shapeOnly())})
	}
}

func main() {
	canon := canonical()
	canonM := canonicalMulti()
	seed, _ := batch.SeedTier()
	if lo, hi, ok := batch.ChildRange(); ok {
		batch.RunChild(lo, hi, func(rec *vlib.ChildRecorder, i int) { runAny(rec, caseAt(seed, canon, canonM, i)) })
	}
	// --replay <file>: re-execute exactly the case of a replay file, in this process
	for i, a := range os.Args {
		if a == "--replay" && i+1 < len(os.Args) {
			replay(canon, canonM, os.Args[i+1])
			return
		}
	}
	c := vlib.Start("C20")
	// 5 of 7 generated cases are (trace, shape) pairs, 2 of 7 multi-step scenarios
	n := len(canon) + len(canonM) + c.N(420, 28000)

	per := 8
	if c.Thorough() {
		per = 100
	}
	batch.Run(c, batch.Opts{N: n, First: len(canon) + len(canonM), PerChild: per, OnCrash: func(cr batch.Crash) {
		cd := caseAt(seed, canon, canonM, cr.Index)
		key := "C20|process-exits"
		if cd.multi != nil {
			key = "C20|" + cd.multi.Kind + "|process-exits"
		}
		c.Violation(key, fmt.Sprintf("the process running case %s exited with code %d inside the case", cd.name(), cr.ExitCode),
			map[string]any{"case": cd.witness(), "output_tail": cr.Tail})
	}})

	c.Finish(vlib.FinishOpts{
		Rule: "case = (trace description serialised to kernelslist.g + kernel-N.traceg, platform shape devices x SMs x sub-cores); generated from VERIF_SEED " +
			"plus a fixed canonical battery; non-trivial = distinct case whose simulation was judged and whose trace is ragged (blocks with different warp counts or warps " +
			"with different instruction counts) or contains an empty warp or has more thread blocks in a kernel than the device has SMs. " +
			"Second family (2 of 7 generated cases + a canonical battery): multi-step scenarios over the public API of nvidia/runner, driver, platform, benchmark - " +
			"k = 2..5 benchmarks (file-based and mock, incl. empty, memcpy-only, one-kernel, the same one twice) on ONE runner before Run(); Run / AddBenchmark / Run again and two runners on one platform; " +
			"two platforms alive in one process run one after the other, interleaved and sharing Benchmark objects; Driver.RunKernel / TraceExec.Run + TickLater + Engine.Run by hand, again after the engine went idle, " +
			"also with both drivers of two platforms loaded before either engine runs. After EVERY engine stop the rules above are evaluated cumulatively over everything handed to that platform's driver " +
			"(so they hold per Run), and every other platform of the process must be unchanged; a scenario is non-trivial when all its engine stops were judged",
		Assumptions: []string{
			"register operands are drawn from R0..R31 and R255 (the only names the shipped reader's table knows); one canonical probe leaves that set and is keyed separately",
			"'enable lineinfo' is always 0 (the reader has no support for the extra line_num column); every memory instruction has at least one active thread",
			"addresses are serialised with a 0x prefix as accel-sim's tracer writes them (and as in the shipped sample trace)",
			"every generated trace directory is written in a seeded byte-level form (form.go: LF/CRLF, final newline present/absent, blank lines, trailing blanks/tabs, leading blanks and tabs on instruction lines, " +
				"'#' lines absent/extra, kernel file numbering, one ~50 KB line), separately for kernelslist.g and the kernel files; only variations the reader's own code accepts are produced " +
				"(no blank-only lines with spaces, no leading blanks outside instruction lines, no trailing blanks on kernel entries of the list, no '#' lines between warps, no line >= 64 KiB); " +
				"a parse violation on a non-canonical form is re-run per dimension and keyed C20|parse|form:<dimension>|...",
			"Instruction.OpCode is accepted as nil: the reader's opcode assignment is commented out in the source; a non-nil value must equal the serialised opcode",
			"thread-block and warp ids are unexported in the reader's structures and are not compared; blocks and warps are compared positionally in file order",
			"termination bound = 50*(instructions+warps+blocks+kernels)+10^4 engine events; no wall clock in any verdict",
			"Runner.Run() enqueues every benchmark the runner holds (the list is never cleared) and kicks the driver, so a second Run() is a legal use whose obligation is: all benchmarks added so far are executed once more; " +
				"the only legal direct-driver sequence is the one Runner.Run performs: RunKernel (any number), TickLater (before, between or after them, at least once since the last engine stop), Engine.Run()",
			"multi-step scenarios: the termination bound applies per engine run to the work handed over since the last engine stop",
		},
		MinNontrivial: 40,
		MinCounters: map[string]int64{
			"runs_engine_returned": 150, "runs_fully_conserved": 100, "parse_instructions_compared": 20000,
			"parse_mem_insts_mode0": 300, "parse_mem_insts_mode1": 300, "parse_mem_insts_mode2": 300,
			"parse_mem_insts_with_dest": 300, "parse_mem_insts_without_dest": 300, "parse_memcpy_lines_compared": 50,
			"cases_blocks_gt_sms": 30, "cases_devices_gt_kernels": 10, "cases_a100_shape": 10, "cases_shipped_sample_trace": 3,
			"cases_with_empty_warp": 10, "warps_delivered": 2000,
			// serialisation forms (traces read back equal, per dimension; single + multi family)
			"form_canonical_read_equal": 30, "form_list-crlf_read_equal": 30, "form_list-no-final-newline_read_equal": 40, "form_list-blank-lines_read_equal": 30,
			"form_list-memcpy-trailing-ws_read_equal": 30, "form_names-multi-digit_read_equal": 30, "form_names-descending_read_equal": 30,
			"form_crlf_read_equal": 30, "form_no-final-newline_read_equal": 40, "form_blank-none_read_equal": 30, "form_blank-many_read_equal": 30,
			"form_trailing-ws_read_equal": 30, "form_inst-leading-ws-and-tabs_read_equal": 30, "form_comments-none_read_equal": 30, "form_comments-extra_read_equal": 30,
			"form_long-line-below-64KiB_read_equal": 10, "form_list_last_entry_unterminated_kernel_read_equal": 20,
			"form_list_last_entry_unterminated_memcpy_read_equal": 5, "form_list_single_unterminated_line_read_equal": 3,
			// usage shapes
			"multi_scenarios_fully_conserved": 100, "multi_engine_stops_conserved_with_work": 150,
			"multi_scenarios_multi-benchmark": 20, "multi_scenarios_rerun": 20, "multi_scenarios_two-platforms": 20, "multi_scenarios_driver-direct": 20,
			"multi_runs_with_ge2_benchmarks": 80, "multi_second_or_later_run_calls": 50,
			"multi_two_platform_processes": 20, "multi_two_platform_interleaved": 10, "multi_two_platform_built_before_any_run": 10,
			"multi_driver_direct_engine_runs": 30, "multi_driver_direct_engine_runs_after_idle": 15,
			"multi_empty_benchmarks_added": 8, "multi_one_kernel_benchmarks_added": 40, "multi_same_benchmark_added_twice": 4,
		},
	})
}

func replay(canon []*caseD, canonM []*multiD, path string) {
	b, err := os.ReadFile(path) // before vlib.Start, which removes stale replay files
	if err != nil {
		fmt.Println("cannot read replay file:", err)
		os.Exit(2)
	}
	var rf struct {
		Seed    int64 `json:"seed"`
		Witness struct {
			Case struct {
				Index int    `json:"index"`
				Name  string `json:"name"`
			} `json:"case"`
		} `json:"witness"`
	}
	if err := json.Unmarshal(b, &rf); err != nil {
		fmt.Println("cannot parse replay file:", err)
		os.Exit(2)
	}
	c := vlib.Start("C20")
	c.Seed = rf.Seed
	cd := caseAt(rf.Seed, canon, canonM, rf.Witness.Case.Index)
	fmt.Printf("[C20] replaying case %s (index %d, seed %d)\n", cd.name(), rf.Witness.Case.Index, rf.Seed)
	d, cleanup := vlib.Scratch("C20-replay")
	_ = os.Chdir(d)
	runAny(c, cd)
	_ = os.Chdir("/")
	cleanup()
	if c.NumNewViolations() > 0 {
		os.Exit(1)
	}
	fmt.Println("[C20] replay: no unlisted violation")
	os.Exit(0)
}
