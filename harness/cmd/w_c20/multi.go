package main

// Multi-step uses of the public API of nvidia/runner, nvidia/driver,
// nvidia/platform and nvidia/benchmark ("usage shapes"). A scenario is a script
// of API calls over 1-2 platforms, 1-2 runners and 1-8 traces:
//
//	platform P            build platform P (public builders)
//	add R T               Runner(R).AddBenchmark(benchmark of trace T)
//	run R                 Runner(R).Run()
//	enqueue P T           what Runner.Run does per benchmark, by hand:
//	                      TraceExec.Run(driver) or Driver.RunKernel(kernel)
//	tick P                Driver.TickLater()
//	engine P              Engine.Run()
//
// After every engine stop ("run", "engine") the conservation and termination
// rules of checkSim are evaluated on the platform, cumulatively over everything
// handed to its driver so far; all other platforms alive in the process must be
// exactly as they were. Every kind of scenario has its own key tag:
//
//	multi-benchmark  k = 2..5 benchmarks added to ONE runner before Run()
//	rerun            Run(), more AddBenchmark, Run() again; two runners on one
//	                 platform. Runner.Run enqueues every benchmark the runner
//	                 holds (the list is never cleared), so a later Run()
//	                 executes all of them once more - that is what is demanded.
//	two-platforms    two platforms (own engines) alive in one process, run one
//	                 after the other and interleaved, sharing Benchmark objects
//	driver-direct    RunKernel several times, TickLater, Engine.Run; again after
//	                 the engine went idle

import (
	"fmt"
	"os"

	"github.com/sarchlab/akita/v4/sim"
	"github.com/sarchlab/mgpusim/v4/nvidia/benchmark"
	"github.com/sarchlab/mgpusim/v4/nvidia/gpu"
	"github.com/sarchlab/mgpusim/v4/nvidia/nvidiaconfig"
	"github.com/sarchlab/mgpusim/v4/nvidia/platform"
	"github.com/sarchlab/mgpusim/v4/nvidia/runner"
	"github.com/sarchlab/mgpusim/v4/nvidia/sm"
	"github.com/sarchlab/mgpusim/v4/nvidia/subcore"

	"verifharness/vlib"
	"verifharness/vlib/simkit"
)

// ---- description ------------------------------------------------------------

type traceD struct {
	Name string `json:"name"`
	// Mock: the benchmark is assembled from nvidiaconfig structures through the
	// exported Benchmark / ExecKernel API (as the repository's mock-data test
	// does) instead of being read from trace files.
	Mock bool `json:"mock,omitempty"`
	// Repeat (mock only): the execution list is appended Repeat times using the
	// same TraceExec pointers.
	Repeat int    `json:"repeat,omitempty"`
	C      *caseD `json:"-"`
}

type stepD struct {
	Op  string `json:"op"`
	P   int    `json:"p"`
	R   int    `json:"r"`
	T   int    `json:"t"`
	Via string `json:"via,omitempty"` // enqueue: "exec" = TraceExec.Run(driver), "runkernel" = Driver.RunKernel(kernel)
}

type multiD struct {
	Name       string    `json:"name"`
	Index      int       `json:"index"`
	Kind       string    `json:"kind"`
	Variant    string    `json:"variant,omitempty"`
	Shapes     []shapeD  `json:"shapes"`
	RunnerPlat []int     `json:"runner_platform"` // runner index -> platform index
	Traces     []*traceD `json:"-"`
	Steps      []stepD   `json:"steps"`
}

func (m *multiD) witness() map[string]any {
	ts := []map[string]any{}
	for i, t := range m.Traces {
		ts = append(ts, map[string]any{"t": i, "name": t.Name, "mock": t.Mock, "repeat": t.Repeat,
			"execs": len(t.C.Execs), "kernels_blocks_warp_insts": trimShape(t.C.shapeOnly())})
	}
	return map[string]any{"name": m.Name, "index": m.Index, "kind": m.Kind, "variant": m.Variant, "shapes": m.Shapes,
		"runner_platform": m.RunnerPlat, "traces": ts, "steps": m.Steps}
}

// traceWant is what a benchmark of a trace obliges a platform to execute.
type traceWant struct {
	K, B, W                       []string
	Kernels, Blocks, Warps, Insts int64
}

func descKernel(k *kernelD) nvidiaconfig.Kernel {
	out := nvidiaconfig.Kernel{ThreadblocksCount: int64(len(k.Blocks))}
	for _, b := range k.Blocks {
		tb := nvidiaconfig.Threadblock{WarpsCount: int64(len(b.Warps))}
		for _, w := range b.Warps {
			wp := nvidiaconfig.Warp{InstructionsCount: int64(len(w.Insts))}
			wp.Instructions = make([]nvidiaconfig.Instruction, len(w.Insts))
			tb.Warps = append(tb.Warps, wp)
		}
		out.Threadblocks = append(out.Threadblocks, tb)
	}
	return out
}

func (t *traceD) want() *traceWant {
	w := &traceWant{}
	rep := t.Repeat
	if rep < 1 {
		rep = 1
	}
	for r := 0; r < rep; r++ {
		for _, e := range t.C.Execs {
			if e.Kernel == nil {
				continue
			}
			k := descKernel(e.Kernel)
			w.Kernels++
			w.K = append(w.K, kernelSig(&k))
			for bi := range k.Threadblocks {
				tb := &k.Threadblocks[bi]
				w.Blocks++
				w.B = append(w.B, blockSig(tb))
				for wi := range tb.Warps {
					w.Warps++
					w.Insts += tb.Warps[wi].InstructionsCount
					w.W = append(w.W, fmt.Sprint(tb.Warps[wi].InstructionsCount))
				}
			}
		}
	}
	return w
}

// ---- one platform under observation -------------------------------------------

type platObs struct {
	idx   int
	shape shapeD
	p     *platform.Platform
	mon   *monitor
	ec    *simkit.EventCounter
	gpus  []*gpu.GPU
	sms   []*sm.SM
	scs   []*subcore.Subcore
	smsOf map[string][]*sm.SM
	scsOf map[string][]*subcore.Subcore

	// cumulative obligations: everything handed to the driver so far
	want traceWant
	// handed to the driver since the last engine stop
	cur traceWant

	engineStops int // engine stops that had work to do
	snap        platSnap
}

type platSnap struct {
	Warps, Insts, Deliveries, Events int64
	Drv                              pend
}

func observe(idx int, s shapeD) *platObs {
	po := &platObs{idx: idx, shape: s, p: buildPlatform(s), mon: newMonitor(), ec: &simkit.EventCounter{},
		smsOf: map[string][]*sm.SM{}, scsOf: map[string][]*subcore.Subcore{}}
	attach := func(comp sim.Component, names ...string) {
		for _, n := range names {
			comp.GetPortByName(n).AcceptHook(po.mon)
		}
	}
	attach(po.p.Driver, "ToDevice")
	for _, g := range po.p.Devices {
		po.gpus = append(po.gpus, g)
		attach(g, g.Name()+".ToDriver", g.Name()+".ToSMs")
		for _, id := range sortedKeys(g.SMs) {
			s := g.SMs[id]
			po.sms = append(po.sms, s)
			po.smsOf[g.Name()] = append(po.smsOf[g.Name()], s)
			attach(s, s.Name()+".ToGPU", s.Name()+".ToSubcores")
			for _, sid := range sortedKeys(s.Subcores) {
				sc := s.Subcores[sid]
				po.scs = append(po.scs, sc)
				po.scsOf[s.Name()] = append(po.scsOf[s.Name()], sc)
				attach(sc, sc.Name()+".ToSM")
			}
		}
	}
	po.p.Engine.AcceptHook(po.ec)
	po.snap = po.snapshot()
	return po
}

func (po *platObs) seen() (warps, insts int64) {
	for _, s := range po.sms {
		warps += s.GetTotalWarpsCount()
	}
	for _, sc := range po.scs {
		insts += sc.GetTotalInstsCount()
	}
	return
}

func (po *platObs) snapshot() platSnap {
	w, i := po.seen()
	u, f, r := po.p.Driver.VerifPending()
	return platSnap{Warps: w, Insts: i, Deliveries: po.mon.deliveries, Events: po.ec.N, Drv: pend{u, f, r}}
}

func (po *platObs) expect(w *traceWant) {
	for _, dst := range []*traceWant{&po.want, &po.cur} {
		dst.K = append(dst.K, w.K...)
		dst.B = append(dst.B, w.B...)
		dst.W = append(dst.W, w.W...)
		dst.Kernels += w.Kernels
		dst.Blocks += w.Blocks
		dst.Warps += w.Warps
		dst.Insts += w.Insts
	}
}

// bound is the logical termination bound of the next engine run.
func (po *platObs) bound() int64 {
	return 50*(po.cur.Insts+po.cur.Warps+po.cur.Blocks+po.cur.Kernels) + 10000
}

// ---- scenario execution -------------------------------------------------------

type multiRun struct {
	rec     vlib.Recorder
	m       *multiD
	plats   []*platObs
	runners []*runner.Runner
	has     [][]int // runner -> trace indices added so far
	runs    []int   // runner -> Run() calls so far
	bench   []*benchmark.Benchmark
	wants   []*traceWant
	dirs    []string
	failed  bool
	stepNo  int
	seen    map[string]bool
	stop    map[string]any
	order   []int // platform index of every engine stop that had work
	aliveAt []int // platform -> number of entries of order when it was built
}

func (mr *multiRun) viol(key, what string, extra map[string]any) {
	mr.failed = true
	key = "C20|" + mr.m.Kind + "|" + key
	if mr.seen[key] {
		return
	}
	mr.seen[key] = true
	w := map[string]any{"case": map[string]any{"index": mr.m.Index, "name": mr.m.Name, "kind": mr.m.Kind},
		"scenario": mr.m.witness(), "failing_step_number": mr.stepNo, "engine_stop_state": mr.stop}
	if mr.stepNo < len(mr.m.Steps) {
		w["failing_step"] = mr.m.Steps[mr.stepNo]
	}
	for k, v := range extra {
		w[k] = v
	}
	mr.rec.Violation(key, fmt.Sprintf("[%s, step %d] %s", mr.m.Name, mr.stepNo, what), w)
}

// benchOf builds (once) the benchmark of trace t through the public API.
func (mr *multiRun) benchOf(t int) *benchmark.Benchmark {
	if mr.bench[t] != nil {
		return mr.bench[t]
	}
	td := mr.m.Traces[t]
	var bm *benchmark.Benchmark
	if td.Mock {
		bm = new(benchmark.Benchmark)
		var execs []benchmark.TraceExec
		for _, e := range td.C.Execs {
			if e.Kernel == nil {
				execs = append(execs, new(benchmark.ExecMemcpy))
				continue
			}
			ek := new(benchmark.ExecKernel)
			ek.SetKernel(descKernel(e.Kernel))
			execs = append(execs, ek)
		}
		rep := td.Repeat
		if rep < 1 {
			rep = 1
		}
		for r := 0; r < rep; r++ {
			bm.TraceExecs = append(bm.TraceExecs, execs...)
		}
		mr.rec.Count("multi_mock_benchmarks_built", 1)
	} else {
		dir, err := os.MkdirTemp(".", "mtrace-")
		if err != nil {
			mr.rec.Inconclusive("cannot create scratch directory: " + err.Error())
			mr.failed = true
			return nil
		}
		mr.dirs = append(mr.dirs, dir)
		if err := writeTrace(td.C, dir); err != nil {
			mr.rec.Inconclusive("cannot write trace: " + err.Error())
			mr.failed = true
			return nil
		}
		var key, what string
		bm, key, what = buildFromDir(td, dir)
		if key != "" {
			tag := ""
			if !td.C.Style.Form.canonical() {
				tag = blameForm(td.C, func(d string) bool { _, k, _ := buildFromDir(td, d); return k != "" })
			}
			if tag != "" {
				what = "[serialisation form " + tag + "] " + what
			}
			mr.viol(formKey(key, "benchmark|", tag), fmt.Sprintf("trace %d (%s), built after %d other benchmark(s) in this process: %s", t, td.Name, mr.built(), what),
				map[string]any{"form": td.C.Style.Form, "form_blamed": tag})
			return nil
		}
		mr.rec.Count("multi_file_benchmarks_built", 1)
		countForm(mr.rec, td.C)
	}
	mr.bench[t] = bm
	mr.wants[t] = td.want()
	return bm
}

// buildFromDir builds the benchmark of a trace directory through
// BenchmarkBuilder and compares it with the description: the benchmark must
// carry exactly the executions of the description, in order. key "" = equal.
func buildFromDir(td *traceD, dir string) (bm *benchmark.Benchmark, key, what string) {
	func() {
		defer func() {
			if r := recover(); r != nil {
				bm, key, what = nil, "benchmark|builder-panics", "BenchmarkBuilder panicked: "+panicText(r)
			}
		}()
		bm = new(benchmark.BenchmarkBuilder).WithTraceDirectory(dir).Build()
	}()
	if bm == nil {
		return
	}
	if len(bm.TraceExecs) != len(td.C.Execs) {
		return nil, "benchmark|exec-count", fmt.Sprintf("kernelslist.g has %d executions, the benchmark %d", len(td.C.Execs), len(bm.TraceExecs))
	}
	for i, e := range td.C.Execs {
		te := bm.TraceExecs[i]
		if e.Kernel == nil {
			if te.ExecType() != nvidiaconfig.ExecMemcpy {
				return nil, "benchmark|exec-type", fmt.Sprintf("execution %d is a memcpy in the trace, a kernel in the benchmark", i)
			}
			continue
		}
		ek, ok := te.(*benchmark.ExecKernel)
		if !ok {
			return nil, "benchmark|exec-type", fmt.Sprintf("execution %d is a kernel in the trace, not in the benchmark", i)
		}
		want := descKernel(e.Kernel)
		got := ek.GetKernel()
		bad := got.ThreadblocksCount != want.ThreadblocksCount || kernelSig(got) != kernelSig(&want)
		for bi := range got.Threadblocks {
			if bi < len(want.Threadblocks) && got.Threadblocks[bi].WarpsCount != want.Threadblocks[bi].WarpsCount {
				bad = true
			}
		}
		if bad {
			return nil, "benchmark|kernel-shape", fmt.Sprintf("kernel %s: benchmark blocks/warps/instruction counts %q differ from the trace %q", e.Kernel.fileWritten(), clip(kernelSig(got)), clip(kernelSig(&want)))
		}
	}
	return bm, "", ""
}

func (mr *multiRun) built() int {
	n := 0
	for _, b := range mr.bench {
		if b != nil {
			n++
		}
	}
	return n
}

// guarded runs f and classifies a panic; ok = f returned normally.
func (mr *multiRun) guarded(po *platObs, what string, f func()) (ok bool) {
	var pv any
	livelock := false
	func() {
		defer func() {
			if x := recover(); x != nil {
				if _, isLim := x.(simkit.ErrEventLimit); isLim {
					livelock = true
					return
				}
				pv = x
			}
		}()
		f()
	}()
	if pv != nil {
		mr.viol("simulation-panics", what+" panicked: "+panicText(pv), map[string]any{"platform": po.idx})
		return false
	}
	if livelock {
		mr.viol("no-termination", fmt.Sprintf("%s: the engine of platform %d still had events after the bound of %d events for this run "+
			"(handed to the driver since the last engine stop: %d kernels, %d blocks, %d warps, %d instructions)",
			what, po.idx, po.bound(), po.cur.Kernels, po.cur.Blocks, po.cur.Warps, po.cur.Insts), map[string]any{"platform": po.idx})
		return false
	}
	return true
}

func runMulti(rec vlib.Recorder, m *multiD) {
	rec.Eval()
	mr := &multiRun{rec: rec, m: m, plats: make([]*platObs, len(m.Shapes)), runners: make([]*runner.Runner, len(m.RunnerPlat)),
		has: make([][]int, len(m.RunnerPlat)), runs: make([]int, len(m.RunnerPlat)), bench: make([]*benchmark.Benchmark, len(m.Traces)),
		wants: make([]*traceWant, len(m.Traces)), seen: map[string]bool{}, aliveAt: make([]int, len(m.Shapes))}
	defer func() {
		for _, d := range mr.dirs {
			os.RemoveAll(d)
		}
	}()
	plat := func(i int) *platObs {
		if mr.plats[i] == nil {
			var po *platObs
			func() {
				defer func() {
					if r := recover(); r != nil {
						mr.viol("platform-builder-panics", fmt.Sprintf("building platform %d (%d platform(s) already alive in the process) panicked: %s", i, mr.alive(), panicText(r)), nil)
					}
				}()
				po = observe(i, m.Shapes[i])
			}()
			if po == nil {
				return nil
			}
			mr.plats[i] = po
			mr.aliveAt[i] = len(mr.order)
			rec.Count("multi_platforms_built", 1)
		}
		return mr.plats[i]
	}
	runnerOf := func(r int) *runner.Runner {
		if mr.runners[r] == nil {
			po := plat(m.RunnerPlat[r])
			if po == nil {
				return nil
			}
			mr.runners[r] = new(runner.RunnerBuilder).WithPlatform(po.p).Build()
		}
		return mr.runners[r]
	}

	directStops := map[int]int{}
	for mr.stepNo = 0; mr.stepNo < len(m.Steps) && !mr.failed; mr.stepNo++ {
		st := m.Steps[mr.stepNo]
		switch st.Op {
		case "platform":
			plat(st.P)
		case "add":
			bm := mr.benchOf(st.T) // before the runner: without a "platform" step the benchmark is built before the platform exists
			if bm == nil {
				continue
			}
			rn := runnerOf(st.R)
			if rn == nil {
				continue
			}
			for _, t := range mr.has[st.R] {
				if t == st.T {
					rec.Count("multi_same_benchmark_added_twice", 1)
				}
			}
			rn.AddBenchmark(bm)
			mr.has[st.R] = append(mr.has[st.R], st.T)
			switch mr.wants[st.T].Kernels {
			case 0:
				rec.Count("multi_empty_benchmarks_added", 1)
			case 1:
				rec.Count("multi_one_kernel_benchmarks_added", 1)
			}
		case "run":
			rn := runnerOf(st.R)
			if rn == nil {
				continue
			}
			po := mr.plats[m.RunnerPlat[st.R]]
			withKernels := 0
			for _, t := range mr.has[st.R] {
				po.expect(mr.wants[t])
				if mr.wants[t].Kernels > 0 {
					withKernels++
				}
			}
			po.ec.Limit = po.ec.N + po.bound()
			if !mr.guarded(po, fmt.Sprintf("Runner.Run() #%d of runner %d (%d benchmarks)", mr.runs[st.R]+1, st.R, len(mr.has[st.R])), rn.Run) {
				continue
			}
			rec.Count("multi_runner_run_calls", 1)
			if withKernels >= 2 {
				rec.Count("multi_runs_with_ge2_benchmarks", 1)
				rec.Distinct("multi_benchmarks_with_kernels_per_run", fmt.Sprint(withKernels))
			}
			if len(mr.has[st.R]) == 0 {
				rec.Count("multi_runs_of_empty_runner", 1)
			}
			if mr.runs[st.R] > 0 && po.cur.Kernels > 0 {
				rec.Count("multi_second_or_later_run_calls", 1)
			}
			mr.runs[st.R]++
			mr.checkpoint(po, fmt.Sprintf("Runner.Run() #%d of runner %d returned", mr.runs[st.R], st.R))
		case "enqueue":
			po := plat(st.P)
			bm := mr.benchOf(st.T)
			if po == nil || bm == nil {
				continue
			}
			for _, te := range bm.TraceExecs {
				if ek, ok := te.(*benchmark.ExecKernel); ok && st.Via == "runkernel" {
					po.p.Driver.RunKernel(ek.GetKernel())
				} else {
					te.Run(po.p.Driver)
				}
			}
			po.expect(mr.wants[st.T])
			po.snap = po.snapshot() // the driver's queue grew, legitimately
			rec.Count("multi_driver_direct_kernels_enqueued", mr.wants[st.T].Kernels)
		case "tick":
			if po := plat(st.P); po != nil {
				po.p.Driver.TickLater()
			}
		case "engine":
			po := plat(st.P)
			if po == nil {
				continue
			}
			po.ec.Limit = po.ec.N + po.bound()
			hadWork := po.cur.Kernels > 0
			if !mr.guarded(po, fmt.Sprintf("Engine.Run() of platform %d", st.P), func() { _ = po.p.Engine.Run() }) {
				continue
			}
			if hadWork {
				rec.Count("multi_driver_direct_engine_runs", 1)
				if directStops[st.P] > 0 {
					rec.Count("multi_driver_direct_engine_runs_after_idle", 1)
				}
				directStops[st.P]++
			}
			mr.checkpoint(po, fmt.Sprintf("Engine.Run() of platform %d returned", st.P))
		default:
			panic("w_c20: unknown scenario step " + st.Op)
		}
	}
	if mr.failed {
		return
	}
	rec.Count("multi_scenarios_fully_conserved", 1)
	rec.Count("multi_scenarios_"+m.Kind, 1)
	rec.Distinct("multi_kind_variant", m.Kind+"/"+m.Variant)
	// two platforms alive and working in one process?
	worked := map[int]bool{}
	for _, p := range mr.order {
		worked[p] = true
	}
	if len(worked) >= 2 {
		rec.Count("multi_two_platform_processes", 1)
		// interleaved: a platform ran, another one ran, the first one ran again
		inter := false
		for i := 0; i < len(mr.order) && !inter; i++ {
			for j := i + 1; j < len(mr.order) && !inter; j++ {
				for k := j + 1; k < len(mr.order); k++ {
					if mr.order[i] != mr.order[j] && mr.order[k] == mr.order[i] {
						inter = true
						break
					}
				}
			}
		}
		if inter {
			rec.Count("multi_two_platform_interleaved", 1)
		}
		// both alive before either ran
		both := true
		for p := range worked {
			if mr.aliveAt[p] != 0 {
				both = false
			}
		}
		if both {
			rec.Count("multi_two_platform_built_before_any_run", 1)
		}
	}
	rec.Nontrivial("multi:" + m.Name)
	if m.Index%40 == 0 {
		rec.Sample(map[string]any{"scenario": m.witness()})
	}
}

func (mr *multiRun) alive() int {
	n := 0
	for _, p := range mr.plats {
		if p != nil {
			n++
		}
	}
	return n
}

// checkpoint evaluates oracles (b) and (c) on po after an engine stop and
// demands that every other platform is untouched.
func (mr *multiRun) checkpoint(po *platObs, when string) {
	rec := mr.rec
	cur := po.cur
	po.cur = traceWant{}
	if cur.Kernels > 0 {
		po.engineStops++
		mr.order = append(mr.order, po.idx)
	}
	rec.Count("multi_engine_stops_checked", 1)

	// ---- the other platforms of the process ----
	for _, o := range mr.plats {
		if o == nil || o == po {
			continue
		}
		now := o.snapshot()
		if now != o.snap {
			mr.stop = map[string]any{"platform": o.idx, "before": o.snap, "after": now}
			mr.viol("other-platform-disturbed", fmt.Sprintf("%s: platform %d, which was not run, changed (warps seen %d -> %d, instructions %d -> %d, port deliveries %d -> %d, engine events %d -> %d, driver %+v -> %+v)",
				when, o.idx, o.snap.Warps, now.Warps, o.snap.Insts, now.Insts, o.snap.Deliveries, now.Deliveries, o.snap.Events, now.Events, o.snap.Drv, now.Drv), nil)
		}
	}

	mon := po.mon
	tt := po.want
	warpsSeen, instsSeen := po.seen()
	dU, dF, dR := po.p.Driver.VerifPending()
	drv := pend{dU, dF, dR}
	pendOf := map[string]pend{}
	busy := map[string]pend{}
	for _, g := range po.gpus {
		u, f, rr := g.VerifPending()
		pendOf[g.Name()] = pend{u, f, rr}
	}
	for _, s := range po.sms {
		u, f, rr := s.VerifPending()
		pendOf[s.Name()] = pend{u, f, rr}
	}
	for _, sc := range po.scs {
		u, f, rr := sc.VerifPending()
		pendOf[sc.Name()] = pend{u, f, rr}
	}
	for n, q := range pendOf {
		if !q.idle() {
			busy[n] = q
		}
	}
	finAtDriver := int64(mon.finRecv[po.p.Driver.Name()])
	mr.stop = map[string]any{
		"when": when, "platform": po.idx, "shape": po.shape, "time": float64(po.p.Engine.CurrentTime()), "events_total": po.ec.N,
		"handed_to_driver_since_last_stop": map[string]int64{"kernels": cur.Kernels, "blocks": cur.Blocks, "warps": cur.Warps, "insts": cur.Insts},
		"warps_seen_by_SMs_total":          warpsSeen, "warps_handed_to_driver_total": tt.Warps,
		"insts_seen_by_subcores_total": instsSeen, "insts_handed_to_driver_total": tt.Insts,
		"kernels_delivered_to_devices_total": po.kernelsDelivered(), "kernels_handed_to_driver_total": tt.Kernels,
		"driver_pending": drv, "non_idle_components": clipMap(busy), "kernel_finished_msgs_at_driver_total": finAtDriver,
	}

	rootCause := false
	freeSC := func(sc *subcore.Subcore) bool {
		return len(mon.warpsAt[sc.Name()]) == mon.finSent[sc.Name()] && pendOf[sc.Name()].idle()
	}
	freeSM := func(s *sm.SM) bool {
		if len(mon.blocksAt[s.Name()]) != mon.finSent[s.Name()] || !pendOf[s.Name()].idle() {
			return false
		}
		for _, sc := range po.scsOf[s.Name()] {
			if !freeSC(sc) {
				return false
			}
		}
		return true
	}
	freeGPU := func(g *gpu.GPU) bool {
		if len(mon.kernelsAt[g.Name()]) != mon.finSent[g.Name()] || !pendOf[g.Name()].idle() {
			return false
		}
		for _, s := range po.smsOf[g.Name()] {
			if !freeSM(s) {
				return false
			}
		}
		return true
	}
	// the driver sleeps on kernels it was handed although a device is free
	if drv.Undispatched > 0 {
		for _, g := range po.gpus {
			if freeGPU(g) {
				rootCause = true
				mr.viol("kernels-never-dispatched",
					fmt.Sprintf("%s with %d of the %d kernel(s) handed to the driver since the last engine stop still in Driver.undispatchedKernels (unfinished = %d) although %s is free and the event queue is empty: "+
						"the driver was not ticking when they were enqueued and nothing woke it. In total %d of %d kernels were delivered to a device, %d of %d warps and %d of %d instructions executed",
						when, drv.Undispatched, cur.Kernels, drv.Unfinished, g.Name(), po.kernelsDelivered(), tt.Kernels, warpsSeen, tt.Warps, instsSeen, tt.Insts), nil)
				break
			}
		}
	}
	for _, s := range po.sms {
		if pendOf[s.Name()].Undispatched == 0 {
			continue
		}
		for _, sc := range po.scsOf[s.Name()] {
			if freeSC(sc) {
				rootCause = true
				mr.viol("stops-with-work-left|sm-undispatched-warps-next-to-free-subcore",
					fmt.Sprintf("%s while %s holds %d undispatched warp(s) and its sub-core %s is free", when, s.Name(), pendOf[s.Name()].Undispatched, sc.Name()), nil)
				break
			}
		}
	}
	for _, g := range po.gpus {
		if pendOf[g.Name()].Undispatched == 0 {
			continue
		}
		for _, s := range po.smsOf[g.Name()] {
			if freeSM(s) {
				rootCause = true
				mr.viol("stops-with-work-left|gpu-undispatched-blocks-next-to-free-sm",
					fmt.Sprintf("%s while %s holds %d undispatched thread block(s) and %s is free", when, g.Name(), pendOf[g.Name()].Undispatched, s.Name()), nil)
				break
			}
		}
	}

	// ---- exactly-once accounting at the ports (cumulative) ----
	var gotK, gotB, gotW []string
	for _, g := range po.gpus {
		gotK = append(gotK, mon.kernelsAt[g.Name()]...)
	}
	for _, s := range po.sms {
		gotB = append(gotB, mon.blocksAt[s.Name()]...)
	}
	for _, sc := range po.scs {
		for _, n := range mon.warpsAt[sc.Name()] {
			gotW = append(gotW, fmt.Sprint(n))
		}
	}
	for _, lv := range []struct {
		name      string
		got, want []string
	}{{"kernel", gotK, tt.K}, {"block", gotB, tt.B}, {"warp", gotW, tt.W}} {
		extra, missing := msDiff(multiset(lv.got), multiset(lv.want))
		if extra > 0 {
			mr.viol("executed-more-than-once-or-invented|"+lv.name,
				fmt.Sprintf("%s: %d %s(s) were delivered to an execution unit that were not handed to the driver (or more often than they were): delivered %d in total, handed over %d",
					when, extra, lv.name, len(lv.got), len(lv.want)), nil)
		}
		if missing > 0 && !rootCause {
			mr.viol("never-executed|"+lv.name,
				fmt.Sprintf("%s: %d %s(s) handed to the driver were never delivered to an execution unit (delivered %d in total, handed over %d)", when, missing, lv.name, len(lv.got), len(lv.want)), nil)
		}
	}

	// ---- conservation counters, idleness, completion reports ----
	if !rootCause {
		if warpsSeen != tt.Warps {
			mr.viol("conservation|warps-seen-by-SMs", fmt.Sprintf("%s: sum of SM.GetTotalWarpsCount = %d, the benchmarks handed to the driver so far have %d warps", when, warpsSeen, tt.Warps), nil)
		}
		if instsSeen != tt.Insts {
			mr.viol("conservation|insts-seen-by-subcores", fmt.Sprintf("%s: sum of Subcore.GetTotalInstsCount = %d, the benchmarks handed to the driver so far have %d instructions", when, instsSeen, tt.Insts), nil)
		}
		if drv.Unfinished != 0 || drv.Undispatched != 0 {
			mr.viol("driver-kernels-not-finished", fmt.Sprintf("%s with driver undispatched=%d unfinished=%d kernels", when, drv.Undispatched, drv.Unfinished), nil)
		}
		if finAtDriver != tt.Kernels {
			mr.viol("kernel-finished-reports", fmt.Sprintf("%s: the driver received %d KernelFinished messages in total for %d kernels", when, finAtDriver, tt.Kernels), nil)
		}
		if len(busy) > 0 {
			lv := "subcore"
			for n := range busy {
				if _, isSC := pendSubcore(po, n); !isSC {
					lv = "sm"
					if _, isGPU := po.smsOf[n]; isGPU {
						lv = "gpu"
						break
					}
				}
			}
			mr.viol("stops-with-work-left|unexplained|"+lv, fmt.Sprintf("%s with %d component(s) still holding work", when, len(busy)), nil)
		}
		var tbFin, wFin int
		for _, g := range po.gpus {
			tbFin += mon.finRecv[g.Name()]
		}
		for _, s := range po.sms {
			wFin += mon.finRecv[s.Name()]
		}
		if int64(tbFin) != tt.Blocks {
			mr.viol("block-finished-reports", fmt.Sprintf("%s: GPUs received %d ThreadblockFinished messages in total for %d thread blocks", when, tbFin, tt.Blocks), nil)
		}
		if int64(wFin) != tt.Warps {
			mr.viol("warp-finished-reports", fmt.Sprintf("%s: SMs received %d WarpFinished messages in total for %d warps", when, wFin, tt.Warps), nil)
		}
	}
	if mr.failed {
		rec.Count("multi_engine_stops_with_loss_or_leftover", 1)
		return
	}
	rec.Count("multi_engine_stops_conserved", 1)
	if cur.Kernels > 0 {
		rec.Count("multi_engine_stops_conserved_with_work", 1)
	}
	rec.Count("multi_kernels_executed", cur.Kernels)
	rec.Count("multi_warps_executed", cur.Warps)
	rec.Count("multi_insts_executed", cur.Insts)
	for _, o := range mr.plats {
		if o != nil {
			o.snap = o.snapshot()
		}
	}
}

func (po *platObs) kernelsDelivered() int {
	n := 0
	for _, g := range po.gpus {
		n += len(po.mon.kernelsAt[g.Name()])
	}
	return n
}

func pendSubcore(po *platObs, name string) (*subcore.Subcore, bool) {
	for _, sc := range po.scs {
		if sc.Name() == name {
			return sc, true
		}
	}
	return nil, false
}
