package main

import (
	"bufio"
	"fmt"
	"os"
	"path/filepath"
	"strconv"
	"strings"

	"github.com/sarchlab/mgpusim/v4/nvidia/nvidiaconfig"
	"github.com/sarchlab/mgpusim/v4/nvidia/tracereader"

	"verifharness/vlib"
)

// ---- independent reader of the text format (used for the shipped sample) ----

func hexU(s string) uint64 {
	s = strings.TrimPrefix(strings.TrimPrefix(s, "0x"), "0X")
	v, _ := strconv.ParseUint(s, 16, 64)
	return v
}

func ownParseInst(line string) instD {
	f := strings.Fields(line)
	var in instD
	in.PC = int32(hexU(f[0]))
	in.Mask = uint32(hexU(f[1]))
	nd, _ := strconv.Atoi(f[2])
	p := 3
	for i := 0; i < nd; i++ {
		in.Dst = append(in.Dst, f[p])
		p++
	}
	in.Op = f[p]
	p++
	ns, _ := strconv.Atoi(f[p])
	p++
	for i := 0; i < ns; i++ {
		in.Src = append(in.Src, f[p])
		p++
	}
	w, _ := strconv.Atoi(f[p])
	p++
	in.Width = int32(w)
	if w != 0 {
		m, _ := strconv.Atoi(f[p])
		p++
		in.Mode = int32(m)
		switch m {
		case 0:
			for ; p < len(f)-1; p++ {
				in.Addrs = append(in.Addrs, hexU(f[p]))
			}
		case 1:
			in.Addrs = []uint64{hexU(f[p])}
			s, _ := strconv.Atoi(f[p+1])
			in.Stride = int32(s)
		case 2:
			in.Addrs = []uint64{hexU(f[p])}
			for p++; p < len(f)-1; p++ {
				d, _ := strconv.Atoi(f[p])
				in.Deltas = append(in.Deltas, int32(d))
			}
		}
	}
	in.Imm, _ = strconv.ParseInt(f[len(f)-1], 10, 64)
	return in
}

func ownParseKernel(path, file string) (*kernelD, error) {
	fh, err := os.Open(path)
	if err != nil {
		return nil, err
	}
	defer fh.Close()
	k := &kernelD{File: file}
	sc := bufio.NewScanner(fh)
	sc.Buffer(make([]byte, 1<<20), 1<<26)
	var cb *blockD
	var cw *warpD
	left := 0
	flushW := func() {
		if cw != nil {
			cb.Warps = append(cb.Warps, *cw)
			cw = nil
		}
	}
	flushB := func() {
		flushW()
		if cb != nil {
			k.Blocks = append(k.Blocks, *cb)
			cb = nil
		}
	}
	for sc.Scan() {
		ln := strings.TrimSpace(sc.Text())
		switch {
		case ln == "":
		case left > 0:
			cw.Insts = append(cw.Insts, ownParseInst(ln))
			left--
		case strings.HasPrefix(ln, "-"):
			kv := strings.SplitN(ln[1:], "=", 2)
			key, val := strings.TrimSpace(kv[0]), strings.TrimSpace(kv[1])
			i64 := func() int64 {
				if strings.HasPrefix(val, "0x") {
					return int64(hexU(val))
				}
				v, _ := strconv.ParseInt(val, 10, 64)
				return v
			}
			d3 := func() [3]int32 {
				var d [3]int32
				p := strings.Split(strings.Trim(val, "()"), ",")
				for i := 0; i < 3 && i < len(p); i++ {
					v, _ := strconv.Atoi(strings.TrimSpace(p[i]))
					d[i] = int32(v)
				}
				return d
			}
			switch key {
			case "kernel name":
				k.Name = val
			case "kernel id":
				k.KernelID = int32(i64())
			case "grid dim":
				k.Grid = d3()
			case "block dim":
				k.Block = d3()
			case "shmem":
				k.Shmem = int32(i64())
			case "nregs":
				k.Nregs = int32(i64())
			case "binary version":
				k.BinVer = int32(i64())
			case "cuda stream id":
				k.Stream = int32(i64())
			case "shmem base_addr":
				k.ShmemBase = i64()
			case "local mem base_addr":
				k.LocalBase = i64()
			case "nvbit version":
				k.Nvbit = val
			case "accelsim tracer version":
				k.TracerVer = val
			}
		case strings.HasPrefix(ln, "thread block"):
			flushB()
			cb = &blockD{}
			p := strings.Split(strings.TrimSpace(strings.SplitN(ln, "=", 2)[1]), ",")
			for i := 0; i < 3 && i < len(p); i++ {
				v, _ := strconv.Atoi(p[i])
				cb.ID[i] = int32(v)
			}
		case strings.HasPrefix(ln, "warp"):
			flushW()
			v, _ := strconv.Atoi(strings.TrimSpace(strings.SplitN(ln, "=", 2)[1]))
			cw = &warpD{ID: int32(v)}
		case strings.HasPrefix(ln, "insts"):
			left, _ = strconv.Atoi(strings.TrimSpace(strings.SplitN(ln, "=", 2)[1]))
		}
	}
	flushB()
	return k, sc.Err()
}

// ownParseDir fills c.Execs from a trace directory with the harness' own parser.
func ownParseDir(c *caseD, dir string) error {
	b, err := os.ReadFile(filepath.Join(dir, "kernelslist.g"))
	if err != nil {
		return err
	}
	for _, ln := range strings.Split(string(b), "\n") {
		ln = strings.TrimSpace(ln)
		if ln == "" {
			continue
		}
		if strings.HasPrefix(ln, "Memcpy") {
			p := strings.Split(ln, ",")
			l, _ := strconv.ParseUint(p[2], 10, 64)
			c.Execs = append(c.Execs, execD{Dir: p[0], Addr: hexU(p[1]), Len: l})
			continue
		}
		k, err := ownParseKernel(filepath.Join(dir, ln), ln)
		if err != nil {
			return err
		}
		c.Execs = append(c.Execs, execD{Kernel: k})
	}
	return nil
}

// ---- oracle (a): the shipped reader against the description -----------------

type parseChecker struct {
	rec   vlib.Recorder
	c     *caseD
	seen  map[string]bool
	bad   bool
	found []foundV // violations, emitted by checkParse once the serialisation form has been blamed
}

type foundV struct {
	key, what string
	witness   map[string]any
}

func (p *parseChecker) viol(key, what string, extra map[string]any) {
	p.bad = true
	if p.seen[key] {
		return
	}
	p.seen[key] = true
	w := map[string]any{"case": p.c, "trace_shape": trimShape(p.c.shapeOnly())}
	for k, v := range extra {
		w[k] = v
	}
	p.found = append(p.found, foundV{key, what, w})
}

func (p *parseChecker) eq(field string, got, want any, where string, line string) {
	if fmt.Sprint(got) == fmt.Sprint(want) {
		return
	}
	p.viol("C20|parse|field-"+field, fmt.Sprintf("%s: reader returned %s = %s, the serialised trace says %s", where, field, clip(fmt.Sprint(got)), clip(fmt.Sprint(want))),
		map[string]any{"where": where, "line": clip(line), "got": clip(fmt.Sprint(got)), "want": clip(fmt.Sprint(want))})
}

func regNames(rs []*nvidiaconfig.Register) []string {
	out := []string{}
	for _, r := range rs {
		if r == nil {
			out = append(out, "<nil>")
		} else {
			out = append(out, r.String())
		}
	}
	return out
}

func regID(name string) (int32, bool) {
	v, err := strconv.Atoi(strings.TrimPrefix(name, "R"))
	return int32(v), err == nil
}

func (p *parseChecker) inst(got *tracereader.Instruction, want *instD, where string) {
	line := instLine(want)
	p.rec.Count("parse_instructions_compared", 1)
	p.eq("PC", got.PC, want.PC, where, line)
	p.eq("Mask", got.Mask, int64(want.Mask), where, line)
	p.eq("DestNum", got.DestNum, len(want.Dst), where, line)
	p.eq("DestRegs", regNames(got.DestRegs), append([]string{}, want.Dst...), where, line)
	p.eq("SrcNum", got.SrcNum, len(want.Src), where, line)
	p.eq("SrcRegs", regNames(got.SrcRegs), append([]string{}, want.Src...), where, line)
	for i, r := range append(append([]*nvidiaconfig.Register{}, got.DestRegs...), got.SrcRegs...) {
		names := append(append([]string{}, want.Dst...), want.Src...)
		if r == nil || i >= len(names) {
			continue
		}
		if id, ok := regID(names[i]); ok {
			p.eq("Register.ID", r.ID(), id, where, line)
			p.eq("Register.IsZeroRegister", r.IsZeroRegister(), names[i] == "R255", where, line)
		}
	}
	// OpCode: the shipped reader leaves the field nil (the assignment is
	// commented out in extractInst). nil is accepted and counted; a non-nil
	// value must be the serialised opcode.
	if got.OpCode == nil {
		p.rec.Count("parse_opcode_field_nil", 1)
	} else {
		p.eq("OpCode", got.OpCode.String(), want.Op, where, line)
	}
	p.eq("MemWidth", got.MemWidth, want.Width, where, line)
	p.eq("Immediate", got.Immediate, want.Imm, where, line)
	if want.Width == 0 {
		p.eq("AddressCompress", got.AddressCompress, 0, where, line)
		p.eq("MemAddress", got.MemAddress, 0, where, line)
		p.eq("MemAddressSuffix1", got.MemAddressSuffix1, 0, where, line)
		p.eq("MemAddressSuffix2.len", len(got.MemAddressSuffix2), 0, where, line)
		return
	}
	p.rec.Count(fmt.Sprintf("parse_mem_insts_mode%d", want.Mode), 1)
	if len(want.Dst) == 0 {
		p.rec.Count("parse_mem_insts_without_dest", 1)
	} else {
		p.rec.Count("parse_mem_insts_with_dest", 1)
	}
	p.eq("AddressCompress", got.AddressCompress, want.Mode, where, line)
	if len(want.Addrs) > 0 {
		wa := int64(want.Addrs[0])
		if got.MemAddress != wa {
			if got.MemAddress == 0 {
				p.viol("C20|parse|mem-address-with-0x-prefix-read-as-0",
					fmt.Sprintf("%s: memory address %#x (written as accel-sim writes it, with a 0x prefix) is returned as MemAddress = 0", where, wa),
					map[string]any{"where": where, "line": line, "got": got.MemAddress, "want": wa})
			} else {
				p.eq("MemAddress", got.MemAddress, wa, where, line)
			}
		} else {
			p.rec.Count("parse_mem_addresses_equal", 1)
		}
	}
	switch want.Mode {
	case 1:
		p.eq("MemAddressSuffix1", got.MemAddressSuffix1, want.Stride, where, line)
		p.eq("MemAddressSuffix2.len", len(got.MemAddressSuffix2), 0, where, line)
	case 2:
		p.eq("MemAddressSuffix1", got.MemAddressSuffix1, 0, where, line)
		p.eq("MemAddressSuffix2", fmt.Sprint(got.MemAddressSuffix2), fmt.Sprint(append([]int32{}, want.Deltas...)), where, line)
	default:
		p.eq("MemAddressSuffix1", got.MemAddressSuffix1, 0, where, line)
		p.eq("MemAddressSuffix2.len", len(got.MemAddressSuffix2), 0, where, line)
	}
}

func trimShape(s [][][]int) any {
	n := 0
	for _, k := range s {
		for _, b := range k {
			n += len(b)
		}
	}
	if n > 400 {
		return fmt.Sprintf("(%d warps; regenerate from seed and index)", n)
	}
	return s
}

// panicText renders a recovered value (logrus panics with *logrus.Entry).
func panicText(v any) string {
	s := fmt.Sprintf("%+v", v)
	if len(s) > 600 {
		s = s[:600]
	}
	return s
}

func usesUnknownRegister(c *caseD) bool {
	for _, e := range c.Execs {
		if e.Kernel == nil {
			continue
		}
		for _, b := range e.Kernel.Blocks {
			for _, w := range b.Warps {
				for _, in := range w.Insts {
					for _, r := range append(append([]string{}, in.Dst...), in.Src...) {
						id, ok := regID(r)
						if !ok || !(id < 32 || id == 255) {
							return true
						}
					}
				}
			}
		}
	}
	return false
}

// checkParse is oracle (a). It returns false when the simulation part cannot
// be judged (reader crashed, execution list differs). A violation on a trace
// written in a non-canonical serialisation form is attributed to the
// responsible form dimension: key C20|parse|form:<dimension>|...
func checkParse(rec vlib.Recorder, c *caseD, dir string) bool {
	p, ok := parseProbe(rec, c, dir)
	if len(p.found) == 0 {
		if ok && !c.Shipped {
			countForm(rec, c)
		}
		return ok
	}
	tag := ""
	if !c.Shipped && !c.Style.Form.canonical() {
		tag = blameForm(c, func(d string) bool {
			q, _ := parseProbe(nullRec{}, c, d)
			return len(q.found) > 0
		})
	}
	for _, v := range p.found {
		if tag != "" {
			v.witness["form_blamed"] = tag
			v.what = "[serialisation form " + tag + "] " + v.what
		}
		rec.Violation(formKey(v.key, "C20|parse|", tag), v.what, v.witness)
	}
	return ok
}

// parseProbe runs tracereader on dir and compares every exported field with
// the description; violations are collected in the returned checker.
func parseProbe(rec vlib.Recorder, c *caseD, dir string) (p *parseChecker, ok bool) {
	p = &parseChecker{rec: rec, c: c, seen: map[string]bool{}}
	defer func() {
		if r := recover(); r != nil {
			txt := panicText(r)
			if strings.Contains(txt, "Unknown register") && usesUnknownRegister(c) {
				p.viol("C20|parse|register-outside-R0-R31-R255-panics",
					"the reader panics (\"Unknown register\") on a register operand other than R0..R31 and R255", map[string]any{"panic": txt})
			} else {
				p.viol("C20|parse|reader-panics", "the reader panicked on a well-formed trace: "+txt, map[string]any{"panic": txt})
			}
			ok = false
		}
	}()
	reader := new(tracereader.TraceReaderBuilder).WithTraceDirectory(dir).Build()
	metas := reader.GetExecMetas()
	if len(metas) != len(c.Execs) {
		p.viol("C20|parse|exec-count", fmt.Sprintf("kernelslist.g has %d executions, reader returned %d", len(c.Execs), len(metas)), nil)
		return p, false
	}
	for i, m := range metas {
		e := &c.Execs[i]
		where := fmt.Sprintf("exec %d", i)
		if e.Kernel == nil {
			rec.Count("parse_memcpy_lines_compared", 1)
			p.eq("ExecType", m.ExecType(), nvidiaconfig.ExecMemcpy, where, "")
			p.eq("Memcpy.Direction", string(m.Direction), e.Dir, where, "")
			p.eq("Memcpy.Address", m.Address, e.Addr, where, "")
			p.eq("Memcpy.Length", m.Length, e.Len, where, "")
			continue
		}
		p.eq("ExecType", m.ExecType(), nvidiaconfig.ExecKernel, where, "")
		if m.ExecType() != nvidiaconfig.ExecKernel {
			continue
		}
		k := e.Kernel
		t := tracereader.ReadTrace(m)
		rec.Count("parse_kernels_compared", 1)
		h := t.FileHeader
		where = k.File + " header"
		p.eq("KernelName", h.KernelName, k.nameWritten(), where, "")
		p.eq("KernelID", h.KernelID, k.KernelID, where, "")
		p.eq("GridDim", h.GridDim, k.Grid, where, "")
		p.eq("BlockDim", h.BlockDim, k.Block, where, "")
		p.eq("Shmem", h.Shmem, k.Shmem, where, "")
		p.eq("Nregs", h.Nregs, k.Nregs, where, "")
		p.eq("BinaryVersion", h.BinaryVersion, k.BinVer, where, "")
		p.eq("CudaStreamID", h.CudaStreamID, k.Stream, where, "")
		p.eq("ShmemBaseAddr", h.ShmemBaseAddr, k.ShmemBase, where, "")
		p.eq("LocalMemBaseAddr", h.LocalMemBaseAddr, k.LocalBase, where, "")
		p.eq("NvbitVersion", h.NvbitVersion, k.Nvbit, where, "")
		p.eq("AccelsimTracerVersion", h.AccelsimTracerVersion, k.TracerVer, where, "")
		p.eq("EnableLineinfo", h.EnableLineinfo, false, where, "")
		p.eq("ThreadblocksCount", t.ThreadblocksCount(), len(k.Blocks), k.File, "")
		if int(t.ThreadblocksCount()) != len(k.Blocks) {
			continue
		}
		for bi := range k.Blocks {
			bd := &k.Blocks[bi]
			tb := t.Threadblock(int64(bi))
			where := fmt.Sprintf("%s block #%d (%d,%d,%d)", k.File, bi, bd.ID[0], bd.ID[1], bd.ID[2])
			p.eq("WarpsCount", tb.WarpsCount(), len(bd.Warps), where, "")
			if int(tb.WarpsCount()) != len(bd.Warps) {
				continue
			}
			for wi := range bd.Warps {
				wd := &bd.Warps[wi]
				wp := tb.Warp(int64(wi))
				wh := fmt.Sprintf("%s warp %d", where, wd.ID)
				p.eq("InstsCount", wp.InstsCount, len(wd.Insts), wh, "")
				p.eq("InstructionsCount", wp.InstructionsCount(), len(wd.Insts), wh, "")
				if int(wp.InstructionsCount()) != len(wd.Insts) {
					continue
				}
				for ii := range wd.Insts {
					p.inst(wp.Instructions[ii], &wd.Insts[ii], fmt.Sprintf("%s inst %d", wh, ii))
				}
			}
		}
	}
	if !p.bad {
		rec.Count("parse_cases_fully_equal", 1)
	}
	return p, true
}
