package main

import (
	"fmt"
	"os"
	"path/filepath"
	"strings"

	"verifharness/vlib"
)

// Serialisation to the accel-sim text format, laid out exactly like the trace
// shipped in /repo/nvidia/data/simple-trace-example (tracer version 5):
//
//	kernelslist.g : one line per execution, "MemcpyHtoD,0x<16 hex>,<dec>" or
//	                "kernel-<n>.traceg"
//	kernel-n.traceg: "-key = value" header lines, a blank line, the
//	                "#traces format = ..." line, then per thread block
//	                "#BEGIN_TB", "thread block = x,y,z", per warp "warp = n",
//	                "insts = n" and n instruction lines, "#END_TB".
//	instruction   : PC(%04x) mask(%08x) dest_num [regs] opcode src_num [regs]
//	                mem_width [address_mode addresses...] immediate, every
//	                field followed by one blank; addresses are written with a
//	                0x prefix (as accel-sim's tracer does and its parser,
//	                `ss >> std::hex`, accepts).

func instLine(in *instD) string {
	var b strings.Builder
	fmt.Fprintf(&b, "%04x %08x %d ", in.PC, in.Mask, len(in.Dst))
	for _, r := range in.Dst {
		b.WriteString(r + " ")
	}
	fmt.Fprintf(&b, "%s %d ", in.Op, len(in.Src))
	for _, r := range in.Src {
		b.WriteString(r + " ")
	}
	fmt.Fprintf(&b, "%d ", in.Width)
	if in.Width != 0 {
		fmt.Fprintf(&b, "%d ", in.Mode)
		switch in.Mode {
		case 0:
			for _, a := range in.Addrs {
				fmt.Fprintf(&b, "0x%x ", a)
			}
		case 1:
			fmt.Fprintf(&b, "0x%x %d ", in.Addrs[0], in.Stride)
		case 2:
			fmt.Fprintf(&b, "0x%x ", in.Addrs[0])
			for _, d := range in.Deltas {
				fmt.Fprintf(&b, "%d ", d)
			}
		}
	}
	fmt.Fprintf(&b, "%d ", in.Imm)
	return b.String()
}

// ln is one logical line of a kernel trace file.
type ln struct {
	kind byte // 'h' header, 'c' comment (#...), 't' thread block, 'w' warp, 'n' insts, 'i' instruction, 'b' blank
	s    string
}

// kernelLines is the layout of the shipped sample trace (the canonical form).
func kernelLines(k *kernelD, st styleD) []ln {
	var out []ln
	add := func(kind byte, f string, a ...any) { out = append(out, ln{kind, fmt.Sprintf(f, a...)}) }
	blank := func(n int) {
		for i := 0; i < n; i++ {
			out = append(out, ln{'b', ""})
		}
	}
	add('h', "-kernel name = %s", k.nameWritten())
	add('h', "-kernel id = %d", k.KernelID)
	add('h', "-grid dim = (%d,%d,%d)", k.Grid[0], k.Grid[1], k.Grid[2])
	add('h', "-block dim = (%d,%d,%d)", k.Block[0], k.Block[1], k.Block[2])
	add('h', "-shmem = %d", k.Shmem)
	add('h', "-nregs = %d", k.Nregs)
	add('h', "-binary version = %d", k.BinVer)
	add('h', "-cuda stream id = %d", k.Stream)
	add('h', "-shmem base_addr = 0x%016x", k.ShmemBase)
	add('h', "-local mem base_addr = 0x%016x", k.LocalBase)
	add('h', "-nvbit version = %s", k.Nvbit)
	add('h', "-accelsim tracer version = %s", k.TracerVer)
	add('h', "-enable lineinfo = 0")
	blank(1)
	add('c', "#traces format = [line_num] PC mask dest_num [reg_dests] opcode src_num [reg_srcs] mem_width [adrrescompress?] [mem_addresses] immediate")
	blank(1)
	for bi := range k.Blocks {
		bd := &k.Blocks[bi]
		blank(2)
		add('c', "#BEGIN_TB")
		blank(1)
		add('t', "thread block = %d,%d,%d", bd.ID[0], bd.ID[1], bd.ID[2])
		blank(1)
		for wi := range bd.Warps {
			w := &bd.Warps[wi]
			add('w', "warp = %d", w.ID)
			add('n', "insts = %d", len(w.Insts))
			for ii := range w.Insts {
				out = append(out, ln{'i', instLine(&w.Insts[ii])})
			}
			blank(st.BlankAfterWarp)
		}
		add('c', "#END_TB")
	}
	return out
}

// kernelText serialises k in the byte-level form st.Form (form.go). Every form
// is one the shipped reader accepts by construction of its own code:
// bufio.ScanLines (LF or CRLF, last line with or without terminator, lines
// below 64 KiB), empty lines skipped everywhere, '#' lines only where the
// reader is looking for the next "thread block" line, strings.TrimSpace on
// header values, Sscanf on "thread block" / "warp" / "insts" lines (trailing
// text ignored), strings.Fields on instruction lines.
func kernelText(k *kernelD, st styleD) string {
	f := st.Form
	pr := vlib.NewPRNG(uint64(k.KernelID)*7919 + uint64(len(k.Blocks))*31 + 12345)
	lines := kernelLines(k, st)
	var tmp []ln
	switch f.Comments {
	case "none":
		for _, l := range lines {
			if l.kind != 'c' {
				tmp = append(tmp, l)
			}
		}
		lines = tmp
	case "extra":
		for _, l := range lines {
			tmp = append(tmp, l)
			if l.kind == 'c' && l.s != "#BEGIN_TB" { // after the format line and after every #END_TB
				tmp = append(tmp, ln{'c', "#post-processed by accel-sim trace tools"}, ln{'c', "# " + fmt.Sprint(pr.Intn(1000))})
			}
		}
		lines = append(tmp, ln{'c', "#END_OF_TRACE"})
	}
	tmp = nil
	switch f.Blank {
	case "none":
		for _, l := range lines {
			if l.kind != 'b' {
				tmp = append(tmp, l)
			}
		}
		lines = tmp
	case "many":
		for i, n := 0, 1+pr.Intn(3); i < n; i++ {
			tmp = append(tmp, ln{'b', ""})
		}
		for _, l := range lines {
			tmp = append(tmp, l)
			for i, n := 0, pr.Intn(3); i < n; i++ {
				tmp = append(tmp, ln{'b', ""})
			}
		}
		lines = append(tmp, ln{'b', ""}, ln{'b', ""})
	}
	eol := "\n"
	if f.CRLF {
		eol = "\r\n"
	}
	var b strings.Builder
	for _, l := range lines {
		s := l.s
		if l.kind == 'i' && f.InstLead {
			fs := strings.Fields(s)
			s = []string{" ", "\t", "   "}[pr.Intn(3)]
			for i, x := range fs {
				if i > 0 {
					s += []string{" ", " ", "  ", "\t"}[pr.Intn(4)]
				}
				s += x
			}
			s += " "
		}
		if l.kind != 'b' && f.Trailing {
			s += []string{" ", "\t", " \t "}[pr.Intn(3)]
		}
		b.WriteString(s)
		b.WriteString(eol)
	}
	out := b.String()
	if f.NoFinalNL {
		out = strings.TrimRight(out, "\r\n")
	}
	return out
}

// listText serialises kernelslist.g. The reader takes the lines of
// bufio.ScanLines, skips empty ones, recognises an entry by its prefix (so no
// leading blanks), takes a kernel line verbatim as the file name (so no
// trailing blanks there) and reads a memcpy line with Sscanf (trailing blanks
// are ignored).
func listText(c *caseD) string {
	f := c.Style.Form
	pr := vlib.NewPRNG(uint64(len(c.Execs))*131 + 977)
	eol := "\n"
	if f.ListCRLF {
		eol = "\r\n"
	}
	var b strings.Builder
	blanks := func(max int) {
		if f.ListBlank {
			for i, n := 0, pr.Intn(max+1); i < n; i++ {
				b.WriteString(eol)
			}
		}
	}
	if f.ListBlank {
		b.WriteString(eol)
	}
	for i := range c.Execs {
		e := &c.Execs[i]
		if e.Kernel == nil {
			fmt.Fprintf(&b, "%s,0x%016x,%d", e.Dir, e.Addr, e.Len)
			if f.ListMemcpyWS {
				b.WriteString([]string{" ", "\t", " \t "}[pr.Intn(3)])
			}
		} else {
			b.WriteString(e.Kernel.fileWritten())
		}
		b.WriteString(eol)
		if i < len(c.Execs)-1 {
			blanks(2)
		}
	}
	if f.ListBlank && !f.ListNoFinalNL {
		b.WriteString(eol)
		b.WriteString(eol)
	}
	out := b.String()
	if f.ListNoFinalNL {
		out = strings.TrimRight(out, "\r\n")
	}
	return out
}

// writeTrace serialises c into dir in the form c.Style.Form and, when blocks
// are shuffled in the file, reorders c's description (once) to the order of the
// file (the order the reader must return). It records in every kernel the file
// name and kernel name actually written.
func writeTrace(c *caseD, dir string) error {
	f := c.Style.Form
	nK := 0
	for i := range c.Execs {
		if c.Execs[i].Kernel != nil {
			nK++
		}
	}
	j := 0
	for i := range c.Execs {
		k := c.Execs[i].Kernel
		if k == nil {
			continue
		}
		j++
		k.wFile, k.wName = k.File, k.Name
		switch f.Names {
		case "multi-digit":
			k.wFile = fmt.Sprintf("kernel-%d.traceg", 9+97*j)
		case "descending":
			k.wFile = fmt.Sprintf("kernel-%d.traceg", nK-j+1)
		}
		if f.LongName {
			k.wName = k.Name + "_" + strings.Repeat("Z", 50000) // one line of ~50 KB, below bufio.Scanner's 64 KiB
		}
		if c.Style.ShuffleBlocks && !k.shuffled {
			p := vlib.NewPRNG(uint64(len(k.Blocks))*977 + uint64(k.KernelID)).Perm(len(k.Blocks))
			nb := make([]blockD, len(k.Blocks))
			for j, src := range p {
				nb[j] = k.Blocks[src]
			}
			k.Blocks = nb
			k.shuffled = true
		}
		if err := os.WriteFile(filepath.Join(dir, k.wFile), []byte(kernelText(k, c.Style)), 0o644); err != nil {
			return err
		}
	}
	return os.WriteFile(filepath.Join(dir, "kernelslist.g"), []byte(listText(c)), 0o644)
}
