package main

import (
	"fmt"
	"os"
	"path/filepath"
	"strings"

	"verifharness/vlib"
)

// Serialisation to the accel-sim text format, laid out exactly like the trace
// shipped in /repo/nvidia/data/simple-trace-example (tracer version 5):
//
//	kernelslist.g : one line per execution, "MemcpyHtoD,0x<16 hex>,<dec>" or
//	                "kernel-<n>.traceg"
//	kernel-n.traceg: "-key = value" header lines, a blank line, the
//	                "#traces format = ..." line, then per thread block
//	                "#BEGIN_TB", "thread block = x,y,z", per warp "warp = n",
//	                "insts = n" and n instruction lines, "#END_TB".
//	instruction   : PC(%04x) mask(%08x) dest_num [regs] opcode src_num [regs]
//	                mem_width [address_mode addresses...] immediate, every
//	                field followed by one blank; addresses are written with a
//	                0x prefix (as accel-sim's tracer does and its parser,
//	                `ss >> std::hex`, accepts).

func instLine(in *instD) string {
	var b strings.Builder
	fmt.Fprintf(&b, "%04x %08x %d ", in.PC, in.Mask, len(in.Dst))
	for _, r := range in.Dst {
		b.WriteString(r + " ")
	}
	fmt.Fprintf(&b, "%s %d ", in.Op, len(in.Src))
	for _, r := range in.Src {
		b.WriteString(r + " ")
	}
	fmt.Fprintf(&b, "%d ", in.Width)
	if in.Width != 0 {
		fmt.Fprintf(&b, "%d ", in.Mode)
		switch in.Mode {
		case 0:
			for _, a := range in.Addrs {
				fmt.Fprintf(&b, "0x%x ", a)
			}
		case 1:
			fmt.Fprintf(&b, "0x%x %d ", in.Addrs[0], in.Stride)
		case 2:
			fmt.Fprintf(&b, "0x%x ", in.Addrs[0])
			for _, d := range in.Deltas {
				fmt.Fprintf(&b, "%d ", d)
			}
		}
	}
	fmt.Fprintf(&b, "%d ", in.Imm)
	return b.String()
}

func kernelText(k *kernelD, st styleD, r *vlib.PRNG) string {
	var b strings.Builder
	fmt.Fprintf(&b, "-kernel name = %s\n", k.Name)
	fmt.Fprintf(&b, "-kernel id = %d\n", k.KernelID)
	fmt.Fprintf(&b, "-grid dim = (%d,%d,%d)\n", k.Grid[0], k.Grid[1], k.Grid[2])
	fmt.Fprintf(&b, "-block dim = (%d,%d,%d)\n", k.Block[0], k.Block[1], k.Block[2])
	fmt.Fprintf(&b, "-shmem = %d\n", k.Shmem)
	fmt.Fprintf(&b, "-nregs = %d\n", k.Nregs)
	fmt.Fprintf(&b, "-binary version = %d\n", k.BinVer)
	fmt.Fprintf(&b, "-cuda stream id = %d\n", k.Stream)
	fmt.Fprintf(&b, "-shmem base_addr = 0x%016x\n", k.ShmemBase)
	fmt.Fprintf(&b, "-local mem base_addr = 0x%016x\n", k.LocalBase)
	fmt.Fprintf(&b, "-nvbit version = %s\n", k.Nvbit)
	fmt.Fprintf(&b, "-accelsim tracer version = %s\n", k.TracerVer)
	fmt.Fprintf(&b, "-enable lineinfo = 0\n")
	b.WriteString("\n#traces format = [line_num] PC mask dest_num [reg_dests] opcode src_num [reg_srcs] mem_width [adrrescompress?] [mem_addresses] immediate\n\n")
	order := make([]int, len(k.Blocks))
	for i := range order {
		order[i] = i
	}
	if st.ShuffleBlocks && r != nil {
		order = r.Perm(len(k.Blocks))
	}
	for _, bi := range order {
		bd := &k.Blocks[bi]
		b.WriteString("\n\n#BEGIN_TB\n\n")
		fmt.Fprintf(&b, "thread block = %d,%d,%d\n\n", bd.ID[0], bd.ID[1], bd.ID[2])
		for wi := range bd.Warps {
			w := &bd.Warps[wi]
			fmt.Fprintf(&b, "warp = %d\ninsts = %d\n", w.ID, len(w.Insts))
			for ii := range w.Insts {
				b.WriteString(instLine(&w.Insts[ii]))
				b.WriteByte('\n')
			}
			for i := 0; i < st.BlankAfterWarp; i++ {
				b.WriteByte('\n')
			}
		}
		b.WriteString("#END_TB\n")
	}
	return b.String()
}

// writeTrace serialises c into dir and, when blocks are shuffled in the file,
// reorders c's description to the order of the file (the order the reader
// must return).
func writeTrace(c *caseD, dir string) error {
	var list strings.Builder
	for i := range c.Execs {
		e := &c.Execs[i]
		if e.Kernel == nil {
			fmt.Fprintf(&list, "%s,0x%016x,%d\n", e.Dir, e.Addr, e.Len)
			continue
		}
		k := e.Kernel
		if c.Style.ShuffleBlocks {
			p := vlib.NewPRNG(uint64(len(k.Blocks))*977 + uint64(k.KernelID)).Perm(len(k.Blocks))
			nb := make([]blockD, len(k.Blocks))
			for j, src := range p {
				nb[j] = k.Blocks[src]
			}
			k.Blocks = nb
		}
		st := c.Style
		st.ShuffleBlocks = false
		if err := os.WriteFile(filepath.Join(dir, k.File), []byte(kernelText(k, st, nil)), 0o644); err != nil {
			return err
		}
		list.WriteString(k.File + "\n")
	}
	return os.WriteFile(filepath.Join(dir, "kernelslist.g"), []byte(list.String()), 0o644)
}
