package main

import (
	"os"
	"sort"
	"strings"

	"verifharness/vlib"
)

// formD is the byte-level serialisation form of a trace directory. Every
// dimension is a variation the shipped reader accepts by its own code (see
// kernelText / listText); forms it rejects by design are not generated:
// blank-only lines that contain spaces, leading blanks on list / header /
// "thread block" / "warp" lines, trailing blanks on a kernel line of the list
// (the line is the file name), '#' lines between the warps of a block, and
// lines of 64 KiB or more (bufio.Scanner's token limit).
type formD struct {
	// kernelslist.g
	ListCRLF      bool   `json:"list_crlf,omitempty"`
	ListNoFinalNL bool   `json:"list_no_final_newline,omitempty"`
	ListBlank     bool   `json:"list_blank_lines,omitempty"`      // empty lines before, between and after the entries
	ListMemcpyWS  bool   `json:"list_memcpy_trailing_ws,omitempty"` // blanks / tabs after memcpy entries
	Names         string `json:"names,omitempty"`                  // "" kernel-1.. in list order, "multi-digit" (106, 203, ...), "descending"
	// kernel-N.traceg
	CRLF      bool   `json:"crlf,omitempty"`
	NoFinalNL bool   `json:"no_final_newline,omitempty"`
	Blank     string `json:"blank,omitempty"`    // "" as accel-sim, "none", "many"
	Trailing  bool   `json:"trailing_ws,omitempty"`
	InstLead  bool   `json:"inst_leading_ws_and_tabs,omitempty"` // instruction lines: leading blanks, tabs / double blanks between fields
	Comments  string `json:"comments,omitempty"`                 // "" as accel-sim, "none" (no '#' line at all), "extra"
	LongName  bool   `json:"long_line_below_64KiB,omitempty"`
}

func (f formD) canonical() bool { return f == formD{} }

var formDims = []string{"list-crlf", "list-no-final-newline", "list-blank-lines", "list-memcpy-trailing-ws", "names-multi-digit", "names-descending",
	"crlf", "no-final-newline", "blank-none", "blank-many", "trailing-ws", "inst-leading-ws-and-tabs", "comments-none", "comments-extra", "long-line-below-64KiB"}

// dims lists the non-canonical dimensions of f.
func (f formD) dims() []string {
	var d []string
	add := func(on bool, n string) {
		if on {
			d = append(d, n)
		}
	}
	add(f.ListCRLF, "list-crlf")
	add(f.ListNoFinalNL, "list-no-final-newline")
	add(f.ListBlank, "list-blank-lines")
	add(f.ListMemcpyWS, "list-memcpy-trailing-ws")
	add(f.Names != "", "names-"+f.Names)
	add(f.CRLF, "crlf")
	add(f.NoFinalNL, "no-final-newline")
	add(f.Blank != "", "blank-"+f.Blank)
	add(f.Trailing, "trailing-ws")
	add(f.InstLead, "inst-leading-ws-and-tabs")
	add(f.Comments != "", "comments-"+f.Comments)
	add(f.LongName, "long-line-below-64KiB")
	sort.Strings(d)
	return d
}

// singleForm is the form with exactly one non-canonical dimension.
func singleForm(dim string) formD {
	var f formD
	switch dim {
	case "list-crlf":
		f.ListCRLF = true
	case "list-no-final-newline":
		f.ListNoFinalNL = true
	case "list-blank-lines":
		f.ListBlank = true
	case "list-memcpy-trailing-ws":
		f.ListMemcpyWS = true
	case "names-multi-digit":
		f.Names = "multi-digit"
	case "names-descending":
		f.Names = "descending"
	case "crlf":
		f.CRLF = true
	case "no-final-newline":
		f.NoFinalNL = true
	case "blank-none":
		f.Blank = "none"
	case "blank-many":
		f.Blank = "many"
	case "trailing-ws":
		f.Trailing = true
	case "inst-leading-ws-and-tabs":
		f.InstLead = true
	case "comments-none":
		f.Comments = "none"
	case "comments-extra":
		f.Comments = "extra"
	case "long-line-below-64KiB":
		f.LongName = true
	default:
		panic("w_c20: unknown form dimension " + dim)
	}
	return f
}

func genForm(r *vlib.PRNG) formD {
	var f formD
	if r.Chance(1, 6) {
		return f // the canonical form stays covered
	}
	f.ListCRLF = r.Chance(1, 4)
	f.ListNoFinalNL = r.Chance(1, 3)
	f.ListBlank = r.Chance(1, 4)
	f.ListMemcpyWS = r.Chance(1, 4)
	f.Names = []string{"", "", "multi-digit", "descending"}[r.Intn(4)]
	f.CRLF = r.Chance(1, 4)
	f.NoFinalNL = r.Chance(1, 3)
	f.Blank = []string{"", "", "none", "many"}[r.Intn(4)]
	f.Trailing = r.Chance(1, 4)
	f.InstLead = r.Chance(1, 4)
	f.Comments = []string{"", "", "none", "extra"}[r.Intn(4)]
	f.LongName = r.Chance(1, 10)
	return f
}

// blameForm finds the serialisation dimension responsible for a failure of a
// trace written in a non-canonical form: "" when the canonical form fails as
// well (the form is not the cause), the first single dimension that fails on
// its own, otherwise "combo:<dims>". fails(dir) re-runs the failing check on a
// freshly written directory.
func blameForm(c *caseD, fails func(dir string) bool) string {
	orig := c.Style.Form
	defer func() { c.Style.Form = orig }()
	try := func(f formD) bool {
		c.Style.Form = f
		d, err := os.MkdirTemp(".", "blame-")
		if err != nil {
			return false
		}
		defer os.RemoveAll(d)
		if writeTrace(c, d) != nil {
			return false
		}
		return fails(d)
	}
	if try(formD{}) {
		return ""
	}
	dims := orig.dims()
	if len(dims) == 1 {
		return dims[0]
	}
	for _, d := range dims {
		if try(singleForm(d)) {
			return d
		}
	}
	return "combo:" + strings.Join(dims, "+")
}

// formKey inserts the form tag after the given key prefix.
func formKey(key, prefix, tag string) string {
	if tag == "" || !strings.HasPrefix(key, prefix) {
		return key
	}
	return prefix + "form:" + tag + "|" + key[len(prefix):]
}

// countForm counts one trace directory that was read back equal, per dimension.
func countForm(rec vlib.Recorder, c *caseD) {
	f := c.Style.Form
	if f.canonical() {
		rec.Count("form_canonical_read_equal", 1)
	}
	for _, d := range f.dims() {
		rec.Count("form_"+d+"_read_equal", 1)
	}
	if f.ListNoFinalNL && len(c.Execs) > 0 {
		if c.Execs[len(c.Execs)-1].Kernel != nil {
			rec.Count("form_list_last_entry_unterminated_kernel_read_equal", 1)
		} else {
			rec.Count("form_list_last_entry_unterminated_memcpy_read_equal", 1)
		}
		if len(c.Execs) == 1 {
			rec.Count("form_list_single_unterminated_line_read_equal", 1)
		}
	}
	rec.Distinct("form", strings.Join(f.dims(), "+"))
}

// nullRec swallows everything (probe runs while blaming a form).
type nullRec struct{}

func (nullRec) Eval()                                   {}
func (nullRec) Count(string, int64)                     {}
func (nullRec) Distinct(string, string)                 {}
func (nullRec) Nontrivial(string)                       {}
func (nullRec) Sample(any)                              {}
func (nullRec) Violation(string, string, any)           {}
func (nullRec) ViolationFP(string, string, string, any) {}
func (nullRec) Inconclusive(string)                     {}
