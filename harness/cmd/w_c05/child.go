package main

import (
	"crypto/sha256"
	"encoding/hex"
	"encoding/json"
	"flag"
	"fmt"
	"math"
	"math/rand"
	"os"
	"runtime"
	"strconv"
	"strings"
	"sync"
	"sync/atomic"
	"time"

	"github.com/sarchlab/akita/v4/mem/mem"
	"github.com/sarchlab/akita/v4/sim"
	"github.com/sarchlab/akita/v4/tracing"
	"github.com/sarchlab/mgpusim/v4/amd/benchmarks"
	"github.com/sarchlab/mgpusim/v4/amd/driver"
	"github.com/sarchlab/mgpusim/v4/amd/samples/runner"
	"github.com/sarchlab/mgpusim/v4/amd/timing/mem/simplebankedmemory"

	"verifharness/vlib"
)

// ---------------------------------------------------------------------------
// descriptors shared by parent and child

// caseDesc is one (workload, inputs, platform configuration).
type caseDesc struct {
	Name       string         `json:"name"`
	Workload   string         `json:"workload"`
	Params     map[string]int `json:"params,omitempty"`
	Timing     bool           `json:"timing"`
	GPUType    string         `json:"gpu_type,omitempty"` // r9nano (default) | mi300a
	Arch       string         `json:"arch,omitempty"`     // gcn3 (default) | cdna3
	GPUs       []int          `json:"gpus"`
	Unified    bool           `json:"unified_gpus,omitempty"`
	UnifiedMem bool           `json:"unified_memory,omitempty"`
	MagicCopy  bool           `json:"magic_memory_copy,omitempty"`
	RandSeed   int64          `json:"rand_seed"`
}

// runDesc is one execution of a case: the host conditions and the schedule
// family. Nothing in it is an input of the simulation.
type runDesc struct {
	Family     string `json:"family"`     // "A" quiescent hand-off, "B" adversarial hand-off, "P" parallel engine
	Delays     bool   `json:"delays"`     // PRNG delays at the yield points
	DelaySeed  uint64 `json:"delay_seed"` // differs per run on purpose
	GOMAXPROCS int    `json:"gomaxprocs"`
	CPUs       string `json:"taskset_cpus,omitempty"` // "" = not pinned
	GOGC       string `json:"gogc"`
	Race       bool   `json:"race_build"`
	Parallel   bool   `json:"parallel_engine,omitempty"`
	// Reps > 1: the child executes the same simulation Reps times in this one
	// process, each time on a fresh runner.Runner / simulation exactly as
	// amd/tests/deterministic does (flags parsed once). State that survives
	// between simulations (package-level variables, caches, id generators,
	// process ids) differs for repetitions 2.. from a fresh process.
	Reps int `json:"repetitions_in_one_process,omitempty"`
	// CopyEndStallUS > 0: a tracer attached to the Driver (like the runner's own
	// kernel-time tracer) sleeps this many microseconds when the task of a
	// host<->device copy command ends, i.e. the host holds the engine goroutine
	// right where the driver reports the command complete.
	CopyEndStallUS int `json:"stall_us_at_copy_command_end,omitempty"`
	// IDOffset: this many ids are taken from akita's process-wide sequential id
	// generator before the platform is built (before every repetition).
	IDOffset int64 `json:"id_generator_offset,omitempty"`
	// IDCrossDigits d > 0 (with Reps >= 2): before the LAST repetition so many ids
	// are consumed that the id counter passes 10^d while the chosen kernel
	// (first or middle one) of that repetition is being dispatched: IDCrossAfter
	// ids after the kernel's launch command started (work-groups and wavefronts
	// get their ids in the first few thousand ids of a kernel), clipped to the
	// kernel's id span as measured in repetition 1.
	IDCrossDigits int   `json:"id_counter_crosses_10_to_the,omitempty"`
	IDCrossAfter  int64 `json:"id_cross_point_ids_after_kernel_launch,omitempty"`
	IDCrossMiddle bool  `json:"id_cross_in_middle_kernel,omitempty"`
}

func (r runDesc) hostKey() string {
	return fmt.Sprintf("P%d|cpus=%s|gogc=%s|race=%v|fam=%s|delays=%v|par=%v|reps=%d|copystall=%d|idoff=%d|idcross=%d", r.GOMAXPROCS, r.CPUs, r.GOGC, r.Race, r.Family, r.Delays, r.Parallel, r.Reps, r.CopyEndStallUS, r.IDOffset, r.IDCrossDigits)
}

type childJob struct {
	Case caseDesc `json:"case"`
	Run  runDesc  `json:"run"`
}

// bufRec is the read-back of one live device buffer.
type bufRec struct {
	Ctx  int    `json:"ctx"`
	PID  uint64 `json:"pid"`
	Ptr  uint64 `json:"ptr"`
	Size uint64 `json:"size"`
	SHA  string `json:"sha256"`
}

// childResult is the part of the observable record produced inside the child.
type childResult struct {
	Rep            int              `json:"repetition"`
	Buffers        []bufRec         `json:"buffers"`
	BufDigest      string           `json:"buf_digest"`
	BufDigestNoPID string           `json:"buf_digest_without_pid"`
	BufBytes       uint64           `json:"buf_bytes"`
	TimeRunBits    uint64           `json:"time_after_program_bits"` // Engine.CurrentTime() when the program's last command returned
	TimeDumpBits   uint64           `json:"time_after_dump_bits"`    // ... after the read-back copies
	TimeEndBits    uint64           `json:"time_end_bits"`           // ... after Runner.Run() returned
	Handoffs       int64            `json:"handoffs"`                // enqueue signals received by runAsync
	Yields         map[string]int64 `json:"yields"`
	HoldsWaited    int64            `json:"holds_waited"`
	HoldsExpired   int64            `json:"holds_expired"`
	NonQuiescent   int64            `json:"non_quiescent_injections"` // enqueue signal taken while the engine goroutine was running
	Quiescent      bool             `json:"quiescent"`
	DelaySchedule  string           `json:"delay_schedule"` // hash of the delay decisions taken
	Sleeps         int64            `json:"sleeps"`
	Goscheds       int64            `json:"goscheds"`
	EngineStalls   int64            `json:"engine_stalls"`
	NotifyInEvent  int64            `json:"completions_notified_inside_event"`
	SQLite         string           `json:"sqlite"`
	Copies         []copyRec        `json:"copies,omitempty"`            // copy hand-off programs: one record per observed blocking copy
	CopyEnds       map[string]int64 `json:"copy_command_ends,omitempty"` // every copy command of the run, by "<command>|<last reply>"
	CopyEndStalls  int64            `json:"copy_end_stalls,omitempty"`
	IDStart        int64            `json:"id_counter_at_start"`           // value of akita's id counter when this execution began
	KernelIDSpans  [][2]int64       `json:"kernel_id_spans,omitempty"`     // id counter at start and end of every kernel launch command
	IDsConsumed    int64            `json:"ids_consumed_before_execution"` // by the harness (offset / crossing)
	Contention     map[string]int64 `json:"contention,omitempty"`          // per kind (dram, l2): ports metered, requests retrieved, cycles with >= 2 requests retrieved at one port
	GoMaxProcs     int              `json:"gomaxprocs_seen"`
	NumCPU         int              `json:"numcpu_seen"`
}

// ---------------------------------------------------------------------------
// yield-point monitor

var pointNames = []string{
	"drain.subscribed", "drain.signalled", "drain.return", "drain.beforeWait", "drain.afterWait",
	"async.idle", "async.signal", "async.ticked", "engine.runReturned", "engine.exit", "listener.notify",
}

const (
	pDrainSubscribed = iota
	pDrainSignalled
	pDrainReturn
	pDrainBeforeWait
	pDrainAfterWait
	pAsyncIdle
	pAsyncSignal
	pAsyncTicked
	pEngineRunReturned
	pEngineExit
	pNotify
	numPoints
)

var pointIdx = func() map[string]int {
	m := map[string]int{}
	for i, n := range pointNames {
		m[n] = i
	}
	return m
}()

type monitor struct {
	cnt    [numPoints]atomic.Int64
	family string
	delays bool
	drv    atomic.Pointer[driver.Driver]

	mu    sync.Mutex
	rng   *vlib.PRNG
	sched uint64

	inEvent     atomic.Bool  // engine goroutine is inside an event handler
	stallEvents atomic.Int64 // events left that the engine thread stalls after
	stalls      atomic.Int64
	notifyInEvt atomic.Int64 // completion notifications issued from inside an event

	// contention bookkeeping (engine goroutine only): the ticking components
	// seen as event handlers; DRAM controllers and L2 caches get a meter on
	// their Top port the first time they handle an event
	eng    sim.Engine
	seenTC map[*sim.TickingComponent]struct{}
	meters []*portMeter

	holdsWaited  atomic.Int64
	holdsExpired atomic.Int64
	nonQuiescent atomic.Int64
	sleeps       atomic.Int64
	goscheds     atomic.Int64
}

// holdSpinBound bounds every hold (scheduling aid only; when it expires the
// run is recorded as not fully quiescent and is not judged under family A).
const holdSpinBound = 400000
const holdIdlePolls = 3000

func (m *monitor) engineRunning() bool {
	d := m.drv.Load()
	if d == nil {
		return false
	}
	running, _ := d.VerifEngineState()
	return running
}

// asyncSettled: runAsync has handled every enqueue signal that was sent (the
// channel is unbuffered, so sent = received; "drain.signalled" is counted by
// the sending goroutine right after the send) and is back at its select, so
// the engine goroutine has been started for each of them.
func (m *monitor) asyncSettled() bool {
	// robust against other senders on the enqueue-signal channel: every signal
	// runAsync received has been handled (it is back at its select) and it
	// received at least the ones DrainCommandQueue sent
	sig := m.cnt[pAsyncSignal].Load()
	return m.cnt[pAsyncIdle].Load() == sig+1 && sig >= m.cnt[pDrainSignalled].Load()
}

// holdProgress: something observable moved (engine time or any yield counter).
func (m *monitor) holdProgress() uint64 {
	var h uint64
	if m.eng != nil {
		h = math.Float64bits(float64(m.eng.CurrentTime()))
	}
	for i := range m.cnt {
		h = h*1099511628211 + uint64(m.cnt[i].Load())
	}
	return h
}

func (m *monitor) hold(cond func() bool) {
	if cond() {
		return
	}
	m.holdsWaited.Add(1)
	last, idle := m.holdProgress(), 0
	for k := 0; k < holdSpinBound; k++ {
		if k < 200 {
			runtime.Gosched()
		} else {
			time.Sleep(200 * time.Microsecond)
		}
		if cond() {
			return
		}
		// the hold is a scheduling aid: when nothing observable has moved for
		// holdIdlePolls consecutive polls the condition will not come true by
		// waiting; give up (the run is then not judged under family A)
		if p := m.holdProgress(); p != last {
			last, idle = p, 0
		} else if idle++; idle >= holdIdlePolls {
			break
		}
	}
	m.holdsExpired.Add(1)
}

func (m *monitor) hook(point string) {
	i, ok := pointIdx[point]
	if !ok {
		return
	}
	m.cnt[i].Add(1) // counted on entry, before any hold or delay
	if i == pAsyncSignal && m.engineRunning() {
		// observed before any hold: was this command about to be injected
		// into a running engine?
		if m.family != "A" {
			m.nonQuiescent.Add(1)
		}
	}
	if i == pNotify { // called with the queue's listener mutex held: never delay here
		if m.inEvent.Load() {
			// a command completed inside the current event: the application is
			// about to be woken while the engine still has the tail events of
			// this command to run. Stall the engine thread after the next few
			// events (as an OS preemption would) so that the application's next
			// enqueue lands at different points of that tail.
			m.notifyInEvt.Add(1)
			if m.delays {
				m.mu.Lock()
				n := m.rng.Intn(8)
				m.mu.Unlock()
				m.stallEvents.Store(int64(n))
			}
		}
		return
	}
	if m.family == "A" {
		switch i {
		case pAsyncSignal:
			// runAsync received an enqueue signal: keep it from touching the
			// engine until the engine goroutine has left runEngine.
			m.hold(func() bool { return !m.engineRunning() })
			if m.engineRunning() {
				m.nonQuiescent.Add(1)
			}
		case pDrainReturn:
			// the application is about to continue (and to enqueue its next
			// command): keep it until runAsync is back at its select and the
			// engine goroutine has run out of events and exited.
			m.hold(func() bool { return m.asyncSettled() && !m.engineRunning() })
		}
	}
	if m.delays {
		m.randomDelay(i)
	}
}

func (m *monitor) randomDelay(point int) {
	m.mu.Lock()
	dice := m.rng.Intn(1000)
	us := m.rng.Intn(2001)
	m.sched = (m.sched ^ uint64(point+1) ^ uint64(dice)<<8) * 1099511628211
	m.mu.Unlock()
	switch {
	case dice < 400:
	case dice < 700:
		m.goscheds.Add(1)
		runtime.Gosched()
	case dice < 850:
		m.goscheds.Add(1)
		for k := 0; k < 1+us%50; k++ {
			runtime.Gosched()
		}
	default:
		m.sleeps.Add(1)
		time.Sleep(time.Duration(us) * time.Microsecond)
	}
}

// Func is the engine hook (sim.Hook): it observes event boundaries and, when
// delays are on, stalls the engine goroutine after events that follow a
// completion notification. It never touches simulation state.
func (m *monitor) Func(ctx sim.HookCtx) {
	switch ctx.Pos {
	case sim.HookPosBeforeEvent:
		m.inEvent.Store(true)
		if evt, ok := ctx.Item.(sim.Event); ok && m.seenTC != nil {
			if tc, ok := evt.Handler().(*sim.TickingComponent); ok {
				if _, seen := m.seenTC[tc]; !seen {
					m.seenTC[tc] = struct{}{}
					m.attachMeter(tc)
				}
			}
		}
	case sim.HookPosAfterEvent:
		m.inEvent.Store(false)
		if m.stallEvents.Load() > 0 {
			m.stallEvents.Add(-1)
			m.stalls.Add(1)
			m.randomDelay(numPoints)
		}
	}
}

// portMeter is a hook on the Top port of a DRAM controller or an L2 cache. It
// counts the cycles in which the component retrieved two or more requests from
// that port, i.e. in which at least two requests are pending inside the
// component at once and its scheduling order among them matters.
type portMeter struct {
	eng      sim.Engine
	kind     string // "dram" | "l2"
	last     sim.VTimeInSec
	inCycle  int
	cycles2  int64
	requests int64
	other    int64

	conv            mem.AddressConverter // set for simplebankedmemory controllers
	banks           [16]int
	rows            [16]uint64
	sameBankHit     bool
	diffRowHit      bool
	cycles2SameBank int64
	cycles2DiffRow  int64
}

func (p *portMeter) Func(ctx sim.HookCtx) {
	if ctx.Pos != sim.HookPosPortMsgRetrieveIncoming {
		return
	}
	msg, _ := ctx.Item.(sim.Msg)
	if msg != nil && p.kind == "dram" && !strings.Contains(string(msg.Meta().Src), "L2Cache") {
		p.other++ // DMA engine traffic (host<->device copies): streams, not kernel contention
		return
	}
	p.requests++
	t := p.eng.CurrentTime()
	if t != p.last {
		p.last, p.inCycle, p.sameBankHit, p.diffRowHit = t, 0, false, false
		for k := range p.banks {
			p.banks[k] = 0
		}
	}
	p.inCycle++
	if p.inCycle == 2 {
		p.cycles2++
	}
	// the bank the request goes to, for the banked DRAM model of the mi300a
	// platform: bank = (converted address >> log2 interleave) % banks with the
	// values timingconfig/mi300a configures (64-byte interleave, 16 banks)
	if p.conv != nil {
		if ar, ok := msg.(mem.AccessReq); ok {
			addr := p.conv.ConvertExternalToInternal(ar.GetAddress())
			bank := (addr >> 6) % uint64(len(p.banks))
			row := (((addr>>6)/uint64(len(p.banks)))<<6 | addr&63) >> 11 // 2 KiB rows of the bank-local address
			p.banks[bank]++
			if p.banks[bank] == 1 {
				p.rows[bank] = row
			}
			if p.banks[bank] >= 2 && !p.sameBankHit {
				p.sameBankHit = true
				p.cycles2SameBank++
			}
			if p.banks[bank] >= 2 && row != p.rows[bank] && !p.diffRowHit {
				p.diffRowHit = true
				p.cycles2DiffRow++
			}
		}
	}
}

type identityConverter struct{}

func (identityConverter) ConvertExternalToInternal(a uint64) uint64 { return a }
func (identityConverter) ConvertInternalToExternal(a uint64) uint64 { return a }

func (m *monitor) attachMeter(tc *sim.TickingComponent) {
	name := tc.Name()
	kind := ""
	switch {
	case strings.Contains(name, ".DRAM["):
		kind = "dram"
	case strings.Contains(name, ".L2Cache["):
		kind = "l2"
	default:
		return
	}
	for _, port := range tc.Ports() {
		if strings.HasSuffix(port.Name(), "TopPort") || strings.HasSuffix(port.Name(), "Top") {
			pm := &portMeter{eng: m.eng, kind: kind, last: -1}
			if sb, ok := port.Component().(*simplebankedmemory.Comp); ok {
				pm.conv = sb.BankAddressConverter
				if pm.conv == nil {
					pm.conv = sb.AddressConverter
				}
				if pm.conv == nil {
					pm.conv = identityConverter{}
				}
			}
			port.AcceptHook(pm)
			m.meters = append(m.meters, pm)
		}
	}
}

// ---------------------------------------------------------------------------
// copyTracer is a tracing.Tracer on the Driver. It observes, at the driver's
// tracing boundary, which reply was the last one the driver received for every
// host<->device copy command (the requests of a command are "req_out" tasks
// whose parent is the command's task), and it can hold the engine goroutine
// for a moment when a copy command's task ends (where logCmdComplete fires).

type copyTracer struct {
	mu        sync.Mutex
	cmdWhat   map[string]string // command task id -> command type
	reqWhat   map[string]string // request task id -> request type
	reqParent map[string]string // request task id -> command task id
	lastReply map[string]string // command task id -> type of the request whose reply arrived last
	ends      map[string]int64  // "<command>|<last reply>" -> count
	lastEnd   [2]string         // most recent copy command that ended: type, last reply
	stallUS   int
	stalls    atomic.Int64

	kernStart map[string]int64 // launch-kernel command task id -> id counter at its start
	kernSpans [][2]int64
}

// idNow reads akita's sequential id counter (by taking one id).
func idNow() int64 {
	v, err := strconv.ParseInt(sim.GetIDGenerator().Generate(), 10, 64)
	if err != nil {
		return -1
	}
	return v
}

func consumeIDs(k int64) {
	g := sim.GetIDGenerator()
	for i := int64(0); i < k; i++ {
		g.Generate()
	}
}

func newCopyTracer(stallUS int) *copyTracer {
	return &copyTracer{cmdWhat: map[string]string{}, reqWhat: map[string]string{}, reqParent: map[string]string{},
		lastReply: map[string]string{}, ends: map[string]int64{}, stallUS: stallUS, kernStart: map[string]int64{}}
}

func (t *copyTracer) StartTask(task tracing.Task) {
	t.mu.Lock()
	switch task.What {
	case "*driver.LaunchKernelCommand", "*driver.LaunchUnifiedMultiGPUKernelCommand":
		t.kernStart[task.ID] = idNow()
	case "*driver.MemCopyD2HCommand", "*driver.MemCopyH2DCommand":
		t.cmdWhat[task.ID] = task.What
	case "*protocol.FlushReq", "*protocol.MemCopyD2HReq", "*protocol.MemCopyH2DReq":
		// the driver starts the request tasks of a copy command before the
		// command's own task, so the parent may not be known yet
		t.reqWhat[task.ID] = task.What
		t.reqParent[task.ID] = task.ParentID
	}
	t.mu.Unlock()
}

func (t *copyTracer) StepTask(tracing.Task)          {}
func (t *copyTracer) AddMilestone(tracing.Milestone) {}

func (t *copyTracer) EndTask(task tracing.Task) {
	t.mu.Lock()
	isCmd := false
	if what, ok := t.reqWhat[task.ID]; ok {
		t.lastReply[t.reqParent[task.ID]] = what
		delete(t.reqWhat, task.ID)
		delete(t.reqParent, task.ID)
	} else if st, ok := t.kernStart[task.ID]; ok {
		t.kernSpans = append(t.kernSpans, [2]int64{st, idNow()})
		delete(t.kernStart, task.ID)
	} else if what, ok := t.cmdWhat[task.ID]; ok {
		isCmd = true
		last := t.lastReply[task.ID]
		t.ends[what+"|"+last]++
		t.lastEnd = [2]string{what, last}
		delete(t.cmdWhat, task.ID)
		delete(t.lastReply, task.ID)
	}
	t.mu.Unlock()
	if isCmd && t.stallUS > 0 {
		t.stalls.Add(1)
		time.Sleep(time.Duration(t.stallUS) * time.Microsecond)
	}
}

// last returns the type and the last reply of the copy command that ended most
// recently (called by the application right after its blocking copy returned).
func (t *copyTracer) last() (string, string) {
	t.mu.Lock()
	defer t.mu.Unlock()
	return t.lastEnd[0], t.lastEnd[1]
}

// copyRec is one blocking copy observed by a copy hand-off program.
type copyRec struct {
	Round       int    `json:"round"`
	Op          string `json:"op"` // "d2h-after-kernel", "h2d-after-kernel", "d2h-check"
	GPU         int    `json:"gpu"`
	KernelGPU   int    `json:"kernel_gpu"`
	Size        int    `json:"size"`
	CompletedOn string `json:"completed_on"` // last reply the driver received for the command
	Immediate   string `json:"sha_immediately_after_return,omitempty"`
	Settled     string `json:"sha_after_quiescent_point,omitempty"`
	Expected    string `json:"sha_expected,omitempty"`
}

// childEnv is what a workload may use of the harness.
type childEnv struct {
	mon    *monitor
	tracer *copyTracer
	res    *childResult
}

// settle waits (bounded) until runAsync is back at its select and the engine
// goroutine has run out of events and exited: a quiescent point.
func (e *childEnv) settle() {
	e.mon.hold(func() bool { return e.mon.asyncSettled() && !e.mon.engineRunning() })
}

// ---------------------------------------------------------------------------
// wrapper benchmark: inner program, then read back every live buffer

type wrapper struct {
	inner benchmarks.Benchmark
	d     *driver.Driver
	eng   sim.Engine
	res   *childResult
}

func (w *wrapper) SelectGPU(g []int) { w.inner.SelectGPU(g) }
func (w *wrapper) SetUnifiedMemory() { w.inner.SetUnifiedMemory() }
func (w *wrapper) Verify()           {}

func (w *wrapper) Run() {
	w.inner.Run()
	w.res.TimeRunBits = math.Float64bits(float64(w.eng.CurrentTime()))
	h := sha256.New()
	h2 := sha256.New()
	for ci, ctx := range w.d.VerifContexts() {
		for _, b := range ctx.VerifBuffers() {
			if b.Freed || b.Size == 0 {
				continue
			}
			data := make([]byte, b.Size)
			w.d.MemCopyD2H(ctx, data, b.Ptr)
			s := sha256.Sum256(data)
			w.res.Buffers = append(w.res.Buffers, bufRec{Ctx: ci, PID: uint64(b.PID), Ptr: uint64(b.Ptr), Size: b.Size, SHA: hex.EncodeToString(s[:])})
			fmt.Fprintf(h, "%d|%d|%d|%d|%x\n", ci, b.PID, b.Ptr, b.Size, s)
			fmt.Fprintf(h2, "%d|%d|%d|%x\n", ci, b.Ptr, b.Size, s)
			w.res.BufBytes += b.Size
		}
	}
	w.res.BufDigest = hex.EncodeToString(h.Sum(nil))
	w.res.BufDigestNoPID = hex.EncodeToString(h2.Sum(nil))
	w.res.TimeDumpBits = math.Float64bits(float64(w.eng.CurrentTime()))
}

// ---------------------------------------------------------------------------

func setFlags(c caseDesc, r runDesc) {
	args := []string{"-disable-rtm"}
	if c.Timing {
		args = append(args, "-timing", "-report-all")
	}
	if c.GPUType != "" {
		args = append(args, "-gpu="+c.GPUType)
	}
	if c.Arch != "" {
		args = append(args, "-arch="+c.Arch)
	}
	ids := make([]string, len(c.GPUs))
	for i, g := range c.GPUs {
		ids[i] = strconv.Itoa(g)
	}
	if len(ids) > 0 {
		if c.Unified {
			args = append(args, "-unified-gpus="+strings.Join(ids, ","))
		} else {
			args = append(args, "-gpus="+strings.Join(ids, ","))
		}
	}
	if c.UnifiedMem {
		args = append(args, "-use-unified-memory")
	}
	if c.MagicCopy {
		args = append(args, "-magic-memory-copy")
	}
	if r.Parallel {
		args = append(args, "-parallel")
	}
	if err := flag.CommandLine.Parse(args); err != nil {
		panic(err)
	}
}

// ---------------------------------------------------------------------------
// stall monitor: a hang is decided by state, not by the wall clock. The
// simulation is stalled when, over stallObservations consecutive samples, the
// engine time and every yield-point counter are unchanged AND every goroutine
// that executes simulator, driver or workload code is parked (blocked in a
// channel operation, select, WaitGroup, semaphore, mutex or condition
// variable). A goroutine that is running, runnable, sleeping (harness holds
// and delays sleep) or in a syscall can still change the state: no verdict.

var (
	curMon atomic.Pointer[monitor]
	curEng atomic.Value // sim.Engine
	curRep atomic.Int64
)

const (
	stallSamplePeriod = 250 * time.Millisecond
	stallObservations = 40
	exitStalled       = 7
)

func progressSignature() string {
	var b strings.Builder
	fmt.Fprintf(&b, "rep%d", curRep.Load())
	if e, ok := curEng.Load().(sim.Engine); ok && e != nil {
		fmt.Fprintf(&b, "|t%x", math.Float64bits(float64(e.CurrentTime())))
	}
	if m := curMon.Load(); m != nil {
		for i := range m.cnt {
			fmt.Fprintf(&b, "|%d", m.cnt[i].Load())
		}
		fmt.Fprintf(&b, "|s%d", m.stalls.Load()+m.sleeps.Load()+m.goscheds.Load())
	}
	return b.String()
}

// allParked inspects a full goroutine dump (see w_c12): every goroutine with a
// frame of the simulator, the driver or the workload must be parked -- except
// the stall monitor itself.
func allParked(dump string) bool {
	relevantSeen := false
	for _, blk := range strings.Split(dump, "\n\n") {
		nl := strings.IndexByte(blk, '\n')
		if nl < 0 {
			continue
		}
		head, body := blk[:nl], blk[nl:]
		if strings.Contains(body, "main.stallMonitor") {
			continue
		}
		relevant := strings.Contains(body, "mgpusim/v4/") || strings.Contains(body, "akita/v4/") || strings.Contains(body, "main.")
		if !relevant {
			continue
		}
		relevantSeen = true
		lb, rb := strings.IndexByte(head, '['), strings.IndexByte(head, ']')
		if lb < 0 || rb < lb {
			return false
		}
		state := head[lb+1 : rb]
		if c := strings.IndexByte(state, ','); c >= 0 {
			state = state[:c]
		}
		switch state {
		case "chan receive", "chan send", "select", "sync.WaitGroup.Wait", "semacquire", "sync.Mutex.Lock", "sync.RWMutex.Lock", "sync.RWMutex.RLock",
			"sync.Cond.Wait", "chan receive (nil chan)", "select (no cases)":
		default:
			return false
		}
	}
	return relevantSeen
}

func stallMonitor(rec *vlib.ChildRecorder) {
	last, same := "", 0
	for {
		time.Sleep(stallSamplePeriod)
		sig := progressSignature()
		if sig != last {
			last, same = sig, 0
			continue
		}
		buf := make([]byte, 4<<20)
		buf = buf[:runtime.Stack(buf, true)]
		if !allParked(string(buf)) {
			same = 0
			continue
		}
		same++
		if same < stallObservations {
			continue
		}
		if progressSignature() != sig {
			last, same = "", 0
			continue
		}
		dump := string(buf)
		if len(dump) > 60000 {
			dump = dump[:60000]
		}
		rec.Note("stalled", map[string]any{"repetition": curRep.Load(), "observations": same, "period_ms": stallSamplePeriod.Milliseconds(),
			"progress_signature": sig, "goroutines": dump})
		os.Exit(exitStalled)
	}
}

func childMain() {
	rec := vlib.ChildRec()
	raw, err := os.ReadFile(os.Args[2])
	if err != nil {
		panic(err)
	}
	var job childJob
	if err := json.Unmarshal(raw, &job); err != nil {
		panic(err)
	}
	sim.GetIDGenerator() // lazily initialised without synchronisation
	setFlags(job.Case, job.Run)
	rec.Note("started", true)
	go stallMonitor(rec)
	reps := job.Run.Reps
	if reps < 1 {
		reps = 1
	}
	var first *childResult
	for rep := 0; rep < reps; rep++ {
		consumed := int64(0)
		if job.Run.IDOffset > 0 {
			consumeIDs(job.Run.IDOffset)
			consumed += job.Run.IDOffset
		}
		if d := job.Run.IDCrossDigits; d > 0 && rep == reps-1 && first != nil && len(first.KernelIDSpans) > 0 {
			// make the id counter pass 10^d inside the chosen kernel of this
			// repetition, using the id consumption measured in repetition 1
			span := first.KernelIDSpans[0]
			if job.Run.IDCrossMiddle {
				span = first.KernelIDSpans[len(first.KernelIDSpans)/2]
			}
			relL, relE := span[0]-first.IDStart, span[1]-first.IDStart
			m := job.Run.IDCrossAfter
			if m > (relE-relL)/2 {
				m = (relE - relL) / 2
			}
			if m < 1 {
				m = 1
			}
			pow := int64(1)
			for i := 0; i < d; i++ {
				pow *= 10
			}
			for cur := idNow(); pow-relL-m <= cur+1; pow *= 10 { // already past: next power of ten
			}
			k := pow - relL - m - idNow() - 1
			consumeIDs(k)
			consumed += k
		}
		curRep.Store(int64(rep))
		res := runOnce(job, rep)
		res.IDsConsumed = consumed
		if rep == 0 {
			first = res
		}
		res.Rep = rep
		if rep == 0 {
			rec.Note("result", res) // written at once: a crash in a later repetition keeps it
		} else {
			rec.Note(fmt.Sprintf("rep%d", rep), res)
		}
	}
	rec.Note("done", true)
	os.Exit(0)
}

// runOnce builds a platform, runs the program on it through runner.Runner and
// returns the child's part of the observable record.
func runOnce(job childJob, pass int) *childResult {
	c, r := job.Case, job.Run
	before, _ := filepathGlob("akita_sim_*.sqlite3")

	rand.Seed(c.RandSeed) // benchmark inputs come from the global math/rand (randseednop=0)
	idStart := idNow()

	mon := &monitor{family: r.Family, delays: r.Delays, rng: vlib.NewPRNG(r.DelaySeed).ForkN("c05-delays", pass), sched: 1469598103934665603}
	driver.VerifSetYieldHook(mon.hook)

	rn := new(runner.Runner).Init()
	d := rn.Driver()
	mon.drv.Store(d)
	curMon.Store(mon)
	curEng.Store(rn.Engine())
	if !r.Parallel {
		mon.eng = rn.Engine()
		mon.seenTC = map[*sim.TickingComponent]struct{}{}
		rn.Engine().AcceptHook(mon)
	}

	res := &childResult{GoMaxProcs: runtime.GOMAXPROCS(0), NumCPU: runtime.NumCPU()}
	tr := newCopyTracer(r.CopyEndStallUS)
	tracing.CollectTrace(d, tr)
	inner := makeWorkload(c, rn, &childEnv{mon: mon, tracer: tr, res: res})
	w := &wrapper{inner: inner, d: d, eng: rn.Engine(), res: res}
	rn.AddBenchmark(w)

	rn.Run()

	res.TimeEndBits = math.Float64bits(float64(rn.Engine().CurrentTime()))
	res.Yields = map[string]int64{}
	for i, n := range pointNames {
		res.Yields[n] = mon.cnt[i].Load()
	}
	res.Handoffs = mon.cnt[pAsyncSignal].Load()
	res.HoldsWaited = mon.holdsWaited.Load()
	res.HoldsExpired = mon.holdsExpired.Load()
	res.NonQuiescent = mon.nonQuiescent.Load()
	res.Quiescent = r.Family == "A" && res.HoldsExpired == 0 && res.NonQuiescent == 0
	mon.mu.Lock()
	res.DelaySchedule = strconv.FormatUint(mon.sched, 16)
	mon.mu.Unlock()
	res.Sleeps = mon.sleeps.Load()
	res.Goscheds = mon.goscheds.Load()
	res.EngineStalls = mon.stalls.Load()
	res.NotifyInEvent = mon.notifyInEvt.Load()
	tr.mu.Lock()
	res.CopyEnds = map[string]int64{}
	for k, v := range tr.ends {
		res.CopyEnds[k] = v
	}
	tr.mu.Unlock()
	res.CopyEndStalls = tr.stalls.Load()
	res.IDStart = idStart
	res.KernelIDSpans = tr.kernSpans
	res.Contention = map[string]int64{}
	for _, pm := range mon.meters { // the engine goroutine has stopped: Runner.Run() returned
		res.Contention[pm.kind+"_ports"]++
		res.Contention[pm.kind+"_requests"] += pm.requests
		if pm.other > 0 {
			res.Contention[pm.kind+"_requests_not_from_l2"] += pm.other
		}
		res.Contention[pm.kind+"_cycles_with_2_or_more_pending"] += pm.cycles2
		if pm.conv != nil {
			res.Contention[pm.kind+"_cycles_with_2_or_more_pending_same_bank"] += pm.cycles2SameBank
			res.Contention[pm.kind+"_cycles_with_2_or_more_pending_same_bank_different_rows"] += pm.cycles2DiffRow
		}
	}
	after, _ := filepathGlob("akita_sim_*.sqlite3")
	old := map[string]bool{}
	for _, f := range before {
		old[f] = true
	}
	for _, f := range after {
		if !old[f] {
			res.SQLite = f
		}
	}
	return res
}
