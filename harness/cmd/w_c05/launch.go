package main

import (
	"database/sql"
	"encoding/json"
	"fmt"
	"math"
	"os"
	"os/exec"
	"path/filepath"
	"sort"
	"strconv"
	"sync"
	"sync/atomic"
	"syscall"
	"time"

	// the sqlite3 database/sql driver is registered by akita's data recorder
	_ "github.com/sarchlab/akita/v4/datarecording"

	"verifharness/vlib"
)

func filepathGlob(p string) ([]string, error) { return filepath.Glob(p) }

// ---------------------------------------------------------------------------
// the two builds of this worker

type binaries struct {
	plain string
	race  string

	once    sync.Once
	raceErr error
	raceLog string
}

func newBinaries() *binaries {
	exe, err := os.Executable()
	if err != nil {
		panic(err)
	}
	return &binaries{plain: exe}
}

// ensureRace builds the -race variant of this worker next to the running
// binary through bin/vbuild (same sources, same repository checkout, same
// tags; vbuild honours VERIF_REPO / VERIF_BUILD_DIR exported by vcheck).
func (b *binaries) ensureRace() error {
	b.once.Do(func() {
		root := os.Getenv("VERIF_ROOT")
		if root == "" {
			root = "/verif"
		}
		cmd := exec.Command(filepath.Join(root, "bin", "vbuild"), "w_c05", "race")
		out, err := cmd.CombinedOutput()
		b.raceLog = string(out)
		if err != nil {
			b.raceErr = fmt.Errorf("building the -race variant failed: %v: %s", err, tailStr(string(out), 800))
			return
		}
		p := filepath.Join(filepath.Dir(b.plain), "w_c05-race")
		if _, err := os.Stat(p); err != nil {
			b.raceErr = fmt.Errorf("race binary not found at %s", p)
			return
		}
		b.race = p
	})
	return b.raceErr
}

func tailStr(s string, n int) string {
	if len(s) > n {
		return s[len(s)-n:]
	}
	return s
}

// ---------------------------------------------------------------------------
// child processes (own launcher: taskset, environment and binary vary per run)

type childOut struct {
	Dir      string
	OutPath  string
	RecPath  string
	ExitCode int
	TimedOut bool
	Dur      time.Duration
}

var childSerial int64

func runJob(bins *binaries, base string, job childJob, timeout time.Duration) childOut {
	n := atomic.AddInt64(&childSerial, 1)
	dir := filepath.Join(base, fmt.Sprintf("run-%05d", n))
	_ = os.MkdirAll(dir, 0o755)
	res := childOut{Dir: dir, OutPath: filepath.Join(dir, "out.txt"), RecPath: filepath.Join(dir, "rec.jsonl")}
	jobPath := filepath.Join(dir, "job.json")
	jb, _ := json.MarshalIndent(job, "", " ")
	if err := os.WriteFile(jobPath, jb, 0o644); err != nil { // descriptor on disk before execution
		panic(err)
	}
	bin := bins.plain
	if job.Run.Race {
		bin = bins.race
	}
	argv := []string{bin, "child", jobPath}
	if job.Run.CPUs != "" {
		argv = append([]string{"taskset", "-c", job.Run.CPUs}, argv...)
	}
	out, err := os.Create(res.OutPath)
	if err != nil {
		panic(err)
	}
	defer out.Close()
	cmd := exec.Command(argv[0], argv[1:]...)
	cmd.Dir = dir
	cmd.Stdout = out
	cmd.Stderr = out
	env := []string{}
	for _, e := range os.Environ() {
		if len(e) >= 11 && e[:11] == "GOMAXPROCS=" || len(e) >= 5 && e[:5] == "GOGC=" || len(e) >= 7 && e[:7] == "GORACE=" {
			continue
		}
		env = append(env, e)
	}
	env = append(env, vlib.ChildEnvRec+"="+res.RecPath,
		"GOMAXPROCS="+strconv.Itoa(job.Run.GOMAXPROCS),
		"GOGC="+job.Run.GOGC,
		"GORACE=halt_on_error=0 exitcode=0 log_path="+filepath.Join(dir, "race"))
	if job.Run.GOGC == "off" {
		env = append(env, "GOMEMLIMIT=6GiB") // GC off, with a safety net against exhausting the shared machine
	}
	cmd.Env = env
	cmd.SysProcAttr = &syscall.SysProcAttr{Setpgid: true}
	start := time.Now()
	if err := cmd.Start(); err != nil {
		res.ExitCode = -1
		fmt.Fprintf(out, "cannot start child: %v\n", err)
		return res
	}
	done := make(chan error, 1)
	go func() { done <- cmd.Wait() }()
	select {
	case err = <-done:
	case <-time.After(timeout):
		res.TimedOut = true
		_ = syscall.Kill(-cmd.Process.Pid, syscall.SIGQUIT) // goroutine dump into out.txt
		select {
		case err = <-done:
		case <-time.After(10 * time.Second):
			_ = syscall.Kill(-cmd.Process.Pid, syscall.SIGKILL)
			err = <-done
		}
	}
	res.Dur = time.Since(start)
	if err != nil {
		if ee, ok := err.(*exec.ExitError); ok {
			res.ExitCode = ee.ExitCode()
		} else {
			res.ExitCode = -1
		}
	}
	return res
}

// ---------------------------------------------------------------------------
// mgpusim_metrics

type metricRow struct {
	Location string  `json:"location"`
	What     string  `json:"what"`
	Value    float64 `json:"value"`
	Bits     uint64  `json:"bits"`
	Unit     string  `json:"unit"`
}

func (m metricRow) key() string { return m.Location + "\x00" + m.What }

// readMetrics returns the rows of mgpusim_metrics sorted by (location, what)
// (then value bits, for duplicate keys). Only this table is read.
func readMetrics(path string) ([]metricRow, error) {
	db, err := sql.Open("sqlite3", "file:"+path+"?mode=ro")
	if err != nil {
		return nil, err
	}
	defer db.Close()
	rows, err := db.Query("SELECT Location, What, Value, Unit FROM mgpusim_metrics")
	if err != nil {
		return nil, err
	}
	defer rows.Close()
	var out []metricRow
	for rows.Next() {
		var r metricRow
		var v sql.NullFloat64
		if err := rows.Scan(&r.Location, &r.What, &v, &r.Unit); err != nil {
			return nil, err
		}
		if v.Valid {
			r.Value = v.Float64
		} else {
			r.Value = math.NaN() // NaN / Inf are stored as NULL by sqlite
		}
		r.Bits = math.Float64bits(r.Value)
		if !v.Valid {
			r.Bits = 0x7ff8000000000001
		}
		out = append(out, r)
	}
	sort.SliceStable(out, func(i, j int) bool {
		if out[i].Location != out[j].Location {
			return out[i].Location < out[j].Location
		}
		if out[i].What != out[j].What {
			return out[i].What < out[j].What
		}
		return out[i].Bits < out[j].Bits
	})
	return out, rows.Err()
}
