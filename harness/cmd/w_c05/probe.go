package main

import (
	"encoding/json"
	"fmt"
	"math"
	"os"
	"strconv"

	"verifharness/vlib"
)

// probeMain is a developer aid: `w_c05 probe '<case json>' [family] [delays] [gomaxprocs] [k]`
// runs one case k times and prints what was observed.
func probeMain() {
	var c caseDesc
	if err := json.Unmarshal([]byte(os.Args[2]), &c); err != nil {
		panic(err)
	}
	fam := "B"
	if len(os.Args) > 3 {
		fam = os.Args[3]
	}
	delays := len(os.Args) > 4 && os.Args[4] == "1"
	gmp := 4
	if len(os.Args) > 5 {
		gmp, _ = strconv.Atoi(os.Args[5])
	}
	k := 1
	if len(os.Args) > 6 {
		k, _ = strconv.Atoi(os.Args[6])
	}
	scratch, cleanup := vlib.Scratch("c05probe")
	defer cleanup()
	bins := newBinaries()
	recs := make([]runRecord, k)
	vlib.Parallel(k, 8, func(i int) {
		r := runDesc{Family: fam, Delays: delays, DelaySeed: uint64(1000 + i), GOMAXPROCS: gmp, GOGC: "100", Parallel: fam == "P"}
		if os.Getenv("C05_PROBE_RACE") != "" {
			r.Race = true
		}
		if v, _ := strconv.Atoi(os.Getenv("C05_PROBE_COPYSTALL")); v > 0 {
			r.CopyEndStallUS = v
		}
		if v, _ := strconv.Atoi(os.Getenv("C05_PROBE_IDCROSS")); v > 0 {
			r.Reps, r.IDCrossDigits, r.IDCrossAfter = 2, v, []int64{500, 1500, 4000, 9000}[i%4]
		}
		if os.Getenv("C05_PROBE_REPEAT") != "" && i%2 == 1 {
			r.Reps = 2
		}
		if os.Getenv("C05_PROBE_VARY") != "" {
			r.GOMAXPROCS = []int{1, 2, 4, 16}[i%4]
			if i%3 == 1 {
				r.CPUs = strconv.Itoa(i % 16)
			}
		}
		recs[i] = execRun(bins, scratch, childJob{Case: c, Run: r})
	})
	for i, rr := range recs {
		if !rr.OK {
			fmt.Printf("run %d FAILED: %s\n", i, rr.Fail)
			continue
		}
		fmt.Printf("run %d: wall=%.1fs P=%d cpus=%q handoffs=%d rows=%d bufs=%d bytes=%d digest=%s t_prog=%.9e t_dump=%.9e t_end=%.9e holds=%d/%d nonq=%d sleeps=%d races=%d\n",
			i, rr.Dur, rr.Job.Run.GOMAXPROCS, rr.Job.Run.CPUs, rr.Res.Handoffs, rr.NumRows, len(rr.Res.Buffers), rr.Res.BufBytes, rr.Res.BufDigest[:12],
			math.Float64frombits(rr.Res.TimeRunBits), math.Float64frombits(rr.Res.TimeDumpBits), math.Float64frombits(rr.Res.TimeEndBits),
			rr.Res.HoldsWaited, rr.Res.HoldsExpired, rr.Res.NonQuiescent, rr.Res.Sleeps, rr.Races)
	}
	for i, rr := range recs {
		if rr.OK {
			fmt.Printf("run %d contention: %v\n", i, rr.Res.Contention)
		}
		if len(rr.Res.Copies) > 0 {
			bad := 0
			for _, cp := range rr.Res.Copies {
				if cp.Immediate != cp.Settled || (cp.Expected != "" && cp.Settled != cp.Expected) {
					bad++
				}
			}
			fmt.Printf("run %d copies: ends=%v stalls=%d observed=%d immediate!=settled/expected: %d\n", i, rr.Res.CopyEnds, rr.Res.CopyEndStalls, len(rr.Res.Copies), bad)
			for _, cp := range rr.Res.Copies {
				fmt.Printf("   r%d %-17s gpu%d kernel@%d size=%d completed on %s imm==settled:%v settled==expected:%v\n", cp.Round, cp.Op, cp.GPU, cp.KernelGPU, cp.Size, cp.CompletedOn, cp.Immediate == cp.Settled, cp.Expected == "" || cp.Settled == cp.Expected)
			}
		}
		for k2, rp := range rr.Reps {
			d := diffMetrics(rr.Metrics, rp.Metrics)
			fmt.Printf("run %d repetition %d id start %d consumed %d spans %v (first run spans %v)\n", i, k2+2, rp.Res.IDStart, rp.Res.IDsConsumed, rp.Res.KernelIDSpans, rr.Res.KernelIDSpans)
			fmt.Printf("run %d repetition %d vs 1: t_end %.9e vs %.9e, bufs equal=%v, %d metric rows differ; by what: %v %s\n", i, k2+2,
				math.Float64frombits(rp.Res.TimeEndBits), math.Float64frombits(rr.Res.TimeEndBits), rp.Res.BufDigestNoPID == rr.Res.BufDigestNoPID, d.total, d.byWhat, rr.RepFail)
		}
	}
	if k > 1 {
		for i := 1; i < k; i++ {
			if !recs[0].OK || !recs[i].OK {
				continue
			}
			d := diffMetrics(recs[0].Metrics, recs[i].Metrics)
			fmt.Printf("run 0 vs %d: %d metric rows differ; by what: %v\n", i, d.total, d.byWhat)
		}
	}
	if os.Getenv("C05_PROBE_DUMP") != "" && recs[0].OK {
		seen := map[string]int{}
		for _, m := range recs[0].Metrics {
			seen[m.What+" ["+m.Unit+"]"]++
		}
		fmt.Println(seen)
	}
}
