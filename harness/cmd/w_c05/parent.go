package main

import (
	"encoding/json"
	"fmt"
	"math"
	"os"
	"regexp"
	"runtime"
	"sort"
	"strconv"
	"strings"
	"sync"

	"verifharness/vlib"
)

// ---------------------------------------------------------------------------
// metric comparison

type metricDiff struct {
	total  int
	byWhat map[string]int
	first  map[string][2]metricRow
}

// diffMetrics compares two row lists sorted by (location, what); a row missing
// on one side counts as a difference of its "what".
func diffMetrics(a, b []metricRow) metricDiff {
	d := metricDiff{byWhat: map[string]int{}, first: map[string][2]metricRow{}}
	i, j := 0, 0
	note := func(w string, x, y metricRow) {
		d.total++
		d.byWhat[w]++
		if _, ok := d.first[w]; !ok {
			d.first[w] = [2]metricRow{x, y}
		}
	}
	for i < len(a) || j < len(b) {
		switch {
		case j >= len(b) || (i < len(a) && a[i].key() < b[j].key()):
			note("row-set:"+a[i].What, a[i], metricRow{})
			i++
		case i >= len(a) || a[i].key() > b[j].key():
			note("row-set:"+b[j].What, metricRow{}, b[j])
			j++
		default:
			if a[i].Bits != b[j].Bits || a[i].Unit != b[j].Unit {
				note(a[i].What, a[i], b[j])
			}
			i++
			j++
		}
	}
	return d
}

// Metric classes. The reporters give every metric that is computed from
// simulated time stamps the unit "second" or "cycles/inst" (classTime).
// classMemEvents are the event counters of the memory-hierarchy timing model:
// whether an access hits, merges into an outstanding miss (mshr hit) or misses
// -- and therefore how many transactions and bytes reach the next level, the
// DRAM and the RDMA engines -- depends on the relative timing of the accesses,
// so these counters are functions of simulated time although their unit is
// "count"/"bytes". Everything else (instruction counts, unknown units, and the
// set of rows itself) is functional.
const (
	classFunctional = iota
	classTime
	classMemEvents
)

var memEventWhats = map[string]bool{
	"hit": true, "miss": true, "mshr-hit": true,
	"read-hit": true, "read-miss": true, "read-mshr-hit": true,
	"write-hit": true, "write-miss": true, "write-mshr-hit": true,
	"read_trans_count": true, "write_trans_count": true, "read_size": true, "write_size": true,
	"incoming_trans_count": true, "outgoing_trans_count": true,
}

func metricClass(what string, rows [2]metricRow) int {
	if strings.HasPrefix(what, "row-set:") {
		return classFunctional
	}
	u := rows[0].Unit
	if u == "" {
		u = rows[1].Unit
	}
	if u == "second" || u == "cycles/inst" {
		return classTime
	}
	if memEventWhats[what] && (u == "count" || u == "bytes") {
		return classMemEvents
	}
	return classFunctional
}

// ---------------------------------------------------------------------------
// case generation: a pure function of (seed, tier)

type caseRuns struct {
	Case      caseDesc  `json:"case"`
	Runs      []runDesc `json:"runs"`
	Canonical bool      `json:"canonical,omitempty"`
	// Contended: the case exists because its kernel makes several requests wait
	// at one DRAM controller of the mi300a platform in the same cycle for the
	// same bank; executions without that are counted as having missed the point
	Contended bool `json:"needs_dram_bank_contention,omitempty"`
}

var gomaxprocsPool = []int{1, 2, 4, 16}

func hostCond(r *vlib.PRNG, idx int, perm []int) runDesc {
	h := runDesc{GOMAXPROCS: gomaxprocsPool[perm[idx%len(perm)]]}
	ncpu := runtime.NumCPU()
	switch r.Intn(3) {
	case 0: // not pinned
	case 1:
		h.CPUs = strconv.Itoa(r.Intn(ncpu))
	case 2:
		a := r.Intn(ncpu)
		b := (a + 1 + r.Intn(ncpu-1)) % ncpu
		h.CPUs = fmt.Sprintf("%d,%d", a, b)
	}
	if ncpu < 2 {
		h.CPUs = ""
	}
	if r.Bool() {
		h.GOGC = "10"
	} else {
		h.GOGC = "off"
	}
	return h
}

// makeRuns builds the K runs of a case: half under family A, half under B;
// B's first run is the natural schedule (no injected delays), all others use
// PRNG delays with a seed of their own; raceRuns of them use the -race build.
func makeRuns(r *vlib.PRNG, k, raceRuns, reps int, cross bool) []runDesc {
	return makeRunsSplit(r, k, k/2, raceRuns, reps, cross)
}

// makeRunsSplit: the first nA of the k runs are family A.
// The k fresh-process runs are followed by one more family-A child that
// executes the simulation reps times in one process.
func makeRunsSplit(r *vlib.PRNG, k, nA, raceRuns, reps int, cross bool) []runDesc {
	perm := r.Perm(len(gomaxprocsPool))
	runs := make([]runDesc, 0, k)
	racePick := r.Perm(k)
	isRace := map[int]bool{}
	for _, i := range racePick {
		if len(isRace) < raceRuns {
			isRace[i] = true
		}
	}
	for i := 0; i < k; i++ {
		h := hostCond(r, i, perm)
		if i < nA {
			h.Family = "A"
			h.Delays = true
		} else {
			h.Family = "B"
			h.Delays = i != nA
		}
		h.DelaySeed = r.Uint64()
		h.Race = isRace[i]
		runs = append(runs, h)
	}
	if reps > 1 {
		h := hostCond(r, k, perm) // plain build: the -race build is ~10x slower and this child runs the program reps times
		h.Family, h.Delays, h.DelaySeed, h.Reps = "A", true, r.Uint64(), reps
		h.IDOffset = int64(pick(r, 1, 12345, 999990)) // ids taken from akita's generator before every platform build
		if cross {                                    // one more execution, with the id counter passing a power of ten inside a kernel
			h.Reps++
			h.IDCrossDigits, h.IDCrossAfter, h.IDCrossMiddle = pick(r, 5, 6, 7), int64(pick(r, 500, 1500, 4000)), r.Bool()
		}
		runs = append(runs, h)
	}
	return runs
}

func pick(r *vlib.PRNG, xs ...int) int { return xs[r.Intn(len(xs))] }

// shipped multi-kernel workloads at small sizes (acceptance sizes or near
// them) that still put several wavefronts on every compute unit, all on the
// gcn3 / r9nano timing platform.
func shippedCase(r *vlib.PRNG, which int) (string, map[string]int) {
	switch which % 16 {
	case 0:
		return "kmeans", map[string]int{"points": pick(r, 512, 1024), "features": 8, "clusters": pick(r, 3, 5), "max_iter": pick(r, 2, 3)}
	case 1:
		n := pick(r, 64, 128)
		return "pagerank", map[string]int{"node": n, "connections": n * n / pick(r, 2, 4), "iterations": pick(r, 2, 3, 4)}
	case 2:
		return "stencil2d", map[string]int{"row": pick(r, 64, 128), "col": pick(r, 64, 128), "iter": pick(r, 2, 3, 5)}
	case 3:
		return "fir", map[string]int{"length": pick(r, 4096, 8192, 16384), "taps": 16}
	case 4:
		return "nw", map[string]int{"length": pick(r, 64, 128)}
	case 5:
		return "fft", map[string]int{"bytes": pick(r, 65536, 131072), "passes": 2}
	case 6:
		return "bitonicsort", map[string]int{"length": pick(r, 512, 1024)}
	case 7:
		return "floydwarshall", map[string]int{"node": pick(r, 24, 32)}
	case 8:
		return "nbody", map[string]int{"particles": pick(r, 256, 512), "iter": pick(r, 2, 3)}
	case 9:
		return "fastwalshtransform", map[string]int{"length": pick(r, 2048, 4096)}
	case 10:
		return "atax", map[string]int{"x": 128, "y": pick(r, 64, 128)}
	case 11:
		return "bicg", map[string]int{"x": 128, "y": pick(r, 64, 128)}
	case 12:
		return "aes", map[string]int{"length": pick(r, 4096, 8192, 16384)}
	case 13:
		return "matrixtranspose", map[string]int{"width": pick(r, 64, 128, 256)}
	case 14:
		return "matrixmultiplication", map[string]int{"x": 64, "y": 64, "z": 64}
	default:
		return "spmv", map[string]int{"dim": pick(r, 256, 512), "sparsity_permille": pick(r, 10, 20)}
	}
}

// genCase fills one slot of a round.
func genCase(r *vlib.PRNG, round, slot int) caseDesc {
	c := caseDesc{Timing: true, GPUs: []int{1}, RandSeed: int64(1 + r.Intn(1000))}
	switch slot {
	case 0: // amd/tests/deterministic/empty_kernel, launched several times
		c.Workload = "emptykernel"
		c.Params = map[string]int{"launches": r.Range(10, 24), "num_wg": pick(r, 16, 64, 256), "wf_per_wg": pick(r, 1, 2, 4)}
		if r.Chance(1, 3) {
			c.GPUs = []int{1, 2}
		}
	case 1: // amd/tests/deterministic/memcopy
		c.Workload = "memcopy"
		c.Params = map[string]int{"bytes": pick(r, 65536, 262144, 1048576)}
		if r.Chance(1, 4) {
			c.GPUs = []int{2}
		}
	case 2: // shipped multi-kernel workload, one GPU
		c.Workload, c.Params = shippedCase(r, round*3+r.Intn(16))
	case 3: // shipped multi-kernel workload with one queue per GPU on the two-GPU platform
		c.Workload, c.Params = shippedCase(r, []int{0, 3, 9, 10, 11, 12, 13, 0}[(round+r.Intn(8))%8])
		c.GPUs = []int{1, 2}
	case 4: // generated program of many tiny kernels
		c.Workload = "tinykernels"
		c.Params = map[string]int{"kernels": r.Range(20, 32), "elems": pick(r, 128, 256, 512), "big_elems": pick(r, 8192, 16384),
			"concurrent": r.Range(6, 10), "seed": r.Intn(1 << 20)}
		if round%2 == 0 {
			c.GPUs = []int{1, 2}
		}
	case 6: // unified multi-GPU device of four GPUs; the grid does not divide evenly over them
		switch (round + r.Intn(3)) % 3 {
		case 0:
			c.Workload, c.Params = "fir", map[string]int{"length": pick(r, 8256, 16640), "taps": 16}
		case 1:
			c.Workload, c.Params = "kmeans", map[string]int{"points": pick(r, 576, 1088), "features": 8, "clusters": pick(r, 3, 5), "max_iter": 2}
		default:
			c.Workload, c.Params = "vectoradd", map[string]int{"width": pick(r, 8256, 16448), "height": 1}
			c.GPUType, c.Arch = "mi300a", "cdna3"
		}
		c.GPUs, c.Unified = []int{1, 2, 3, 4}, true
	case 5: // mi300a (cdna3 code object)
		c.Workload = "vectoradd"
		c.GPUType, c.Arch = "mi300a", "cdna3"
		c.Params = map[string]int{"width": pick(r, 8192, 16384), "height": 1}
		if r.Chance(1, 3) {
			c.GPUs, c.Unified = []int{1, 2}, true
		}
	}
	ids := make([]string, len(c.GPUs))
	for i, g := range c.GPUs {
		ids[i] = strconv.Itoa(g)
	}
	ps := make([]string, 0, len(c.Params))
	for k, v := range c.Params {
		ps = append(ps, fmt.Sprintf("%s=%d", k, v))
	}
	sort.Strings(ps)
	gt := "r9nano"
	if c.GPUType != "" {
		gt = c.GPUType
	}
	c.Name = fmt.Sprintf("r%d-s%d-%s[%s]-%s-gpus%s", round, slot, c.Workload, strings.Join(ps, ","), gt, strings.Join(ids, "+"))
	if c.Unified {
		c.Name += "-unified"
	}
	return c
}

// canonicalCases do not depend on the seed. The first one is the program of
// the design-phase spike (200 x (4 KiB H2D, D2H) from one goroutine on the
// default r9nano timing platform).
func canonicalCases(reps, nB2 int) []caseRuns {
	c := caseDesc{Name: "canon-copyloop-200x4KiB-r9nano", Workload: "copyloop", Params: map[string]int{"n": 200, "bytes": 4096},
		Timing: true, GPUs: []int{1}, RandSeed: 1}
	runs := []runDesc{
		{Family: "A", Delays: true, DelaySeed: 0xC05A1, GOMAXPROCS: 1, GOGC: "10"},
		{Family: "A", Delays: true, DelaySeed: 0xC05A2, GOMAXPROCS: 16, GOGC: "off", CPUs: "0,1"},
		{Family: "B", Delays: false, DelaySeed: 0, GOMAXPROCS: 1, GOGC: "100"},
		{Family: "B", Delays: false, DelaySeed: 0, GOMAXPROCS: 16, GOGC: "100"},
		{Family: "B", Delays: true, DelaySeed: 0xC05B1, GOMAXPROCS: 4, GOGC: "10"},
		{Family: "B", Delays: true, DelaySeed: 0xC05B2, GOMAXPROCS: 2, GOGC: "off"},
	}
	runs = append(runs, runDesc{Family: "A", Delays: true, DelaySeed: 0xC05A5, GOMAXPROCS: 4, GOGC: "100", Reps: reps})
	if runtime.NumCPU() < 2 {
		runs[1].CPUs = ""
	}
	// second canonical case: the program on which the SIMD instruction counter
	// and the TLB hit / mshr-hit split were seen to differ under the adversarial
	// hand-off (each in roughly every second run with engine-thread stalls)
	c2 := caseDesc{Name: "canon-vectoradd-16384-mi300a-unified-gpus1+2", Workload: "vectoradd", Params: map[string]int{"width": 16384, "height": 1},
		Timing: true, GPUType: "mi300a", Arch: "cdna3", GPUs: []int{1, 2}, Unified: true, RandSeed: 1}
	runs2 := []runDesc{
		{Family: "A", Delays: true, DelaySeed: 0xC05A3, GOMAXPROCS: 2, GOGC: "10"},
		{Family: "A", Delays: true, DelaySeed: 0xC05A4, GOMAXPROCS: 4, GOGC: "off"},
	}
	for i := 0; i < nB2; i++ {
		runs2 = append(runs2, runDesc{Family: "B", Delays: true, DelaySeed: 0xC05B10 + uint64(i), GOMAXPROCS: gomaxprocsPool[i%4], GOGC: "100"})
	}
	runs2 = append(runs2, runDesc{Family: "A", Delays: true, DelaySeed: 0xC05A6, GOMAXPROCS: 2, GOGC: "100", Reps: reps})
	out := []caseRuns{{Case: c, Runs: runs, Canonical: true}, {Case: c2, Runs: runs2, Canonical: true}}
	// mi300a with contended DRAM traffic: matrix transpose 256x256 with the gcn3
	// kernel and 128x128 with the cdna3 kernel put two or more requests for the
	// same bank into one controller's pending list in the same cycle (the
	// vectoradd cases above do so far less and never with an effect on order)
	for i, cc := range []caseDesc{
		{Name: "canon-matrixtranspose-256-gcn3-kernel-mi300a", Workload: "matrixtranspose", Params: map[string]int{"width": 256}, Timing: true, GPUType: "mi300a", GPUs: []int{1}, RandSeed: 1},
		{Name: "canon-matrixtranspose-128-mi300a", Workload: "matrixtranspose", Params: map[string]int{"width": 128}, Timing: true, GPUType: "mi300a", Arch: "cdna3", GPUs: []int{1}, RandSeed: 1},
	} {
		s := uint64(0xC05D0 + 16*i)
		out = append(out, caseRuns{Case: cc, Canonical: true, Contended: true, Runs: []runDesc{
			{Family: "A", Delays: true, DelaySeed: s + 1, GOMAXPROCS: 2, GOGC: "100"},
			{Family: "A", Delays: true, DelaySeed: s + 2, GOMAXPROCS: 16, GOGC: "10"},
			{Family: "B", Delays: true, DelaySeed: s + 3, GOMAXPROCS: 4, GOGC: "off"},
			{Family: "A", Delays: true, DelaySeed: s + 4, GOMAXPROCS: 4, GOGC: "100", Reps: reps + 1, IDOffset: 12345, IDCrossDigits: 5 + i, IDCrossAfter: 1500},
		}})
	}
	// id-generator offsets: FIR with 96 work-groups of four wavefronts (some
	// compute units hold two wavefronts per SIMD, created around the crossing)
	fir := caseDesc{Name: "canon-fir-24576-r9nano-id-offsets", Workload: "fir", Params: map[string]int{"length": 24576, "taps": 16}, Timing: true, GPUs: []int{1}, RandSeed: 1}
	out = append(out, caseRuns{Case: fir, Canonical: true, Runs: []runDesc{
		{Family: "A", Delays: true, DelaySeed: 0xC05F1, GOMAXPROCS: 4, GOGC: "100"},
		{Family: "A", Delays: true, DelaySeed: 0xC05F2, GOMAXPROCS: 2, GOGC: "100", IDOffset: 999990},
		{Family: "A", Delays: true, DelaySeed: 0xC05F3, GOMAXPROCS: 4, GOGC: "100", Reps: 2, IDOffset: 1, IDCrossDigits: 5, IDCrossAfter: 1500},
		{Family: "A", Delays: true, DelaySeed: 0xC05F4, GOMAXPROCS: 16, GOGC: "100", Reps: 2, IDOffset: 12345, IDCrossDigits: 6, IDCrossAfter: 4000},
	}})
	return append(out, copyHandoffCanon()...)
}

// copyHandoffCanon: the seed-independent cases of the "copy hand-off" family
// (r9nano timing, 2 and 4 plain GPUs, and a platform with a unified device).
// The host program makes blocking copies complete on an L2 flush reply and
// looks at its destination buffer immediately when the call returns; the host
// conditions add a stall of the engine goroutine where the driver reports the
// copy command complete (tracer on the Driver at task end), GOMAXPROCS >= 2,
// and the -race build.
func copyHandoffCanon() []caseRuns {
	mk := func(name string, gpus []int, unified bool, params map[string]int, runs []runDesc) caseRuns {
		return caseRuns{Case: caseDesc{Name: name, Workload: "copyhandoff", Params: params, Timing: true, GPUs: gpus, Unified: unified, RandSeed: 1},
			Runs: runs, Canonical: true}
	}
	return []caseRuns{
		mk("canon-copyhandoff-r9nano-gpus1+2", []int{1, 2}, false, map[string]int{"rounds": 2, "h2d_every": 2, "kernel_bytes": 655360, "seed": 1}, []runDesc{
			{Family: "A", Delays: true, DelaySeed: 0xC05C1, GOMAXPROCS: 4, GOGC: "100"},
			{Family: "B", Delays: false, GOMAXPROCS: 2, GOGC: "10", CopyEndStallUS: 3000},
			{Family: "B", Delays: true, DelaySeed: 0xC05C2, GOMAXPROCS: 16, GOGC: "off", CopyEndStallUS: 1500},
		}),
		mk("canon-copyhandoff-r9nano-gpus1+2+3+4", []int{1, 2, 3, 4}, false, map[string]int{"rounds": 2, "h2d_every": 9, "kernel_bytes": 524288, "seed": 2}, []runDesc{
			{Family: "A", Delays: true, DelaySeed: 0xC05C3, GOMAXPROCS: 2, GOGC: "100"},
			{Family: "B", Delays: false, GOMAXPROCS: 4, GOGC: "100", CopyEndStallUS: 3000},
		}),
		mk("canon-copyhandoff-r9nano-unified1+2", []int{1, 2}, true, map[string]int{"rounds": 1, "h2d_every": 9, "kernel_bytes": 524288, "seed": 3}, []runDesc{
			{Family: "A", Delays: true, DelaySeed: 0xC05C5, GOMAXPROCS: 4, GOGC: "100"},
			{Family: "B", Delays: false, GOMAXPROCS: 4, GOGC: "100", CopyEndStallUS: 3000},
		}),
		// shortest program for the (about ten times slower) -race build
		mk("canon-copyhandoff-short-r9nano-gpus1+2", []int{1, 2}, false, map[string]int{"rounds": 2, "h2d_every": 9, "kernel_bytes": 458752, "seed": 1}, []runDesc{
			{Family: "A", Delays: true, DelaySeed: 0xC05C6, GOMAXPROCS: 2, GOGC: "100"},
			{Family: "B", Delays: false, GOMAXPROCS: 4, GOGC: "100", Race: true, CopyEndStallUS: 2000},
		}),
	}
}

func buildCases(c *vlib.Check) (cases []caseRuns, par []caseRuns) {
	reps := c.N(2, 3)
	cases = canonicalCases(reps, c.N(2, 5))
	base := c.Rand("cases")
	rounds := c.N(1, 5)
	k := c.N(4, 8)
	race := c.N(1, 2)
	for round := 0; round < rounds; round++ {
		for slot := 0; slot < 7; slot++ {
			r := base.ForkN(fmt.Sprintf("round%d", round), slot)
			cd := genCase(r, round, slot)
			slotRace := race
			if (slot == 0 || slot == 4 || slot == 6) && !c.Thorough() {
				// quick: no -race run for the empty-kernel, tiny-kernel and unified
				// 4-GPU programs (the longest children); the copy hand-off family has
				// a race run instead, slots 1, 2, 3 and 5 keep theirs
				slotRace = 0
			}
			cross := c.Thorough() || slot == 2 || slot == 3
			runs := makeRuns(r.Fork("runs"), k, slotRace, reps, cross)
			if slot == 6 {
				// the member order of a unified device is decided once per process:
				// more runs (thorough), most of them judged bit for bit; the
				// in-process repetitions draw the order again
				extra := c.N(0, 2)
				runs = makeRunsSplit(r.Fork("runs"), k+extra, k/2+1+extra/2, slotRace, reps, cross)
			}
			cases = append(cases, caseRuns{Case: cd, Runs: runs})
		}
		if c.Thorough() { // seeded members of the copy hand-off family
			r := base.ForkN(fmt.Sprintf("round%d", round), 7)
			gp := [][]int{{1, 2}, {1, 2, 3, 4}, {1, 2}, {1, 2, 3, 4}, {1, 2}}[round%5]
			unified := round%5 == 2
			cd := caseDesc{Workload: "copyhandoff", Timing: true, GPUs: gp, Unified: unified, RandSeed: int64(1 + r.Intn(1000)),
				Params: map[string]int{"rounds": r.Range(3, 5), "h2d_every": pick(r, 2, 3), "kernel_bytes": pick(r, 524288, 655360), "seed": r.Intn(1000)}}
			cd.Name = fmt.Sprintf("r%d-s7-copyhandoff[kernel_bytes=%d,rounds=%d,seed=%d]-r9nano-gpus%d-unified=%v", round, cd.Params["kernel_bytes"], cd.Params["rounds"], cd.Params["seed"], len(gp), unified)
			perm := r.Perm(len(gomaxprocsPool))
			var runs []runDesc
			for i := 0; i < 5; i++ {
				h := hostCond(r, i, perm)
				h.DelaySeed = r.Uint64()
				switch i {
				case 0:
					h.Family, h.Delays = "A", true
				case 1:
					h.Family = "B"
				default:
					h.Family, h.Delays, h.CopyEndStallUS = "B", i == 3, pick(r, 500, 1500, 3000)
					if h.GOMAXPROCS < 2 {
						h.GOMAXPROCS = 2
					}
				}
				h.Race = i == 4 && !unified && len(gp) == 2
				runs = append(runs, h)
			}
			cases = append(cases, caseRuns{Case: cd, Runs: runs})
		}
	}
	// parallel engine: functional comparison (buffers only) against the serial
	// runs of the same case; race-free workloads only
	npar := c.N(2, 10)
	cnt := 0
	for i := 1; i < len(cases) && cnt < npar; i++ {
		w := cases[i].Case.Workload
		if w != "tinykernels" && w != "memcopy" && w != "vectoradd" && w != "fir" && w != "stencil2d" && w != "atax" && w != "bicg" &&
			w != "aes" && w != "fastwalshtransform" && w != "nbody" && w != "emptykernel" {
			continue
		}
		r := base.ForkN("parallel", i)
		var runs []runDesc
		for j := 0; j < 2; j++ {
			runs = append(runs, runDesc{Family: "P", Parallel: true, Delays: j == 1, DelaySeed: r.Uint64(), GOMAXPROCS: []int{4, 16}[j], GOGC: "100"})
		}
		par = append(par, caseRuns{Case: cases[i].Case, Runs: runs})
		cnt++
	}
	return cases, par
}

// ---------------------------------------------------------------------------
// judging one case

var reAddr = regexp.MustCompile(`0x[0-9a-f]+|\+0x[0-9a-f]+|:\d+|goroutine \d+|\d+`)

func crashClass(fail string) string {
	for _, l := range strings.Split(fail, "\n") {
		if strings.Contains(l, "panic:") || strings.Contains(l, "fatal error:") || strings.Contains(l, "Panic:") {
			s := reAddr.ReplaceAllString(strings.TrimSpace(l), "")
			if len(s) > 100 {
				s = s[:100]
			}
			return s
		}
	}
	return "unknown"
}

func ftime(bits uint64) string { return strconv.FormatFloat(math.Float64frombits(bits), 'e', 9, 64) }

type judge struct {
	c  *vlib.Check
	mu sync.Mutex
	// per key: first witness only is kept by vlib; we add occurrence counts
	handoffObserved map[string]int // by what differed
	noraceReported  bool
	maxSameBank     map[string]int64 // per platform: most same-bank contention cycles seen in one execution
}

func runSummary(rr runRecord) map[string]any {
	return map[string]any{
		"run": rr.Job.Run, "buf_digest": rr.Res.BufDigest,
		"time_after_program": ftime(rr.Res.TimeRunBits), "time_after_dump": ftime(rr.Res.TimeDumpBits), "time_end": ftime(rr.Res.TimeEndBits),
		"handoffs": rr.Res.Handoffs, "metric_rows": rr.NumRows, "quiescent": rr.Res.Quiescent,
		"injections_into_running_engine": rr.Res.NonQuiescent, "engine_stalls": rr.Res.EngineStalls,
	}
}

func (j *judge) witness(cr caseRuns, ref, other runRecord, extra map[string]any) map[string]any {
	w := map[string]any{"case": cr.Case, "runs": cr.Runs, "canonical": cr.Canonical,
		"reference_run": runSummary(ref), "differing_run": runSummary(other)}
	for k, v := range extra {
		w[k] = v
	}
	return w
}

func diffExamples(d metricDiff, only []string, max int) []map[string]any {
	whats := only
	if whats == nil {
		for w := range d.first {
			whats = append(whats, w)
		}
		sort.Strings(whats)
	}
	var out []map[string]any
	for _, w := range whats {
		if len(out) >= max {
			break
		}
		p, ok := d.first[w]
		if !ok {
			continue
		}
		out = append(out, map[string]any{"what": w, "rows_differing": d.byWhat[w],
			"reference": fmt.Sprintf("%s %s = %v %s", p[0].Location, p[0].What, p[0].Value, p[0].Unit),
			"other":     fmt.Sprintf("%s %s = %v %s", p[1].Location, p[1].What, p[1].Value, p[1].Unit)})
	}
	return out
}

// sameBuffers compares the buffer digests of two first-in-process executions
// (process ids are part of the digest).
func sameBuffers(a, b runRecord) bool { return a.Res.BufDigest == b.Res.BufDigest }

func bufDiff(a, b childResult) string {
	if len(a.Buffers) != len(b.Buffers) {
		return fmt.Sprintf("%d live buffers vs %d", len(a.Buffers), len(b.Buffers))
	}
	for i := range a.Buffers {
		if a.Buffers[i] != b.Buffers[i] {
			return fmt.Sprintf("buffer %d: %+v vs %+v", i, a.Buffers[i], b.Buffers[i])
		}
	}
	return "digest differs"
}

// judgeCase compares the records of one case. recs[i] belongs to cr.Runs[i].
func (j *judge) judgeCase(cr caseRuns, recs []runRecord, serialRef *runRecord) {
	c := j.c
	c.Eval()
	c.Count("cases", 1)
	var ok, stalledRuns []runRecord
	crashed := 0
	for _, rr := range recs {
		c.Count("runs", 1)
		switch {
		case rr.OK:
			ok = append(ok, rr)
		case rr.Fail == "watchdog":
			c.Inconclusive(fmt.Sprintf("case %s run %s: watchdog fired (no verdict)", cr.Case.Name, rr.Job.Run.hostKey()))
		case strings.HasPrefix(rr.Fail, "norace:"):
			j.mu.Lock()
			if !j.noraceReported {
				c.Inconclusive(rr.Fail)
			}
			j.noraceReported = true
			j.mu.Unlock()
		case strings.HasPrefix(rr.Fail, "stalled:"):
			stalledRuns = append(stalledRuns, rr)
		default:
			crashed++
		}
	}
	if len(stalledRuns) > 0 {
		c.Count("executions_stalled_by_state", int64(len(stalledRuns)))
		if len(ok) > 0 {
			c.Violation("C05|outcome-differs-between-identical-executions|completed-vs-deadlocked|"+cr.Case.Name,
				fmt.Sprintf("case %s: %d of %d executions of the same program, inputs and configuration completed, %d deadlocked (engine time and all driver yield counters unchanged and every simulator / driver / application goroutine parked for %d consecutive samples): whether the simulation terminates depends on host scheduling",
					cr.Case.Name, len(ok), len(recs), len(stalledRuns), stallObservations),
				map[string]any{"case": cr.Case, "runs": cr.Runs, "stalled_run": stalledRuns[0].Job.Run, "completed_run": ok[0].Job.Run, "stall_record": stalledRuns[0].Fail})
		} else {
			c.Inconclusive(fmt.Sprintf("case %s: every execution deadlocked (decided by state); not a reproducibility verdict", cr.Case.Name))
		}
	}
	if crashed > 0 {
		var crashRec runRecord
		for _, rr := range recs {
			if !rr.OK && rr.Fail != "watchdog" && !strings.HasPrefix(rr.Fail, "norace:") && !strings.HasPrefix(rr.Fail, "stalled:") {
				crashRec = rr
				break
			}
		}
		if len(ok) == 0 {
			c.Inconclusive(fmt.Sprintf("case %s: every run ended without a record (%s); not a reproducibility verdict", cr.Case.Name, crashClass(crashRec.Fail)))
		} else {
			c.Violation("C05|outcome|some-runs-crash|"+crashClass(crashRec.Fail),
				fmt.Sprintf("case %s: %d of %d runs of the same program ended without a result record while the others completed", cr.Case.Name, crashed, len(recs)),
				map[string]any{"case": cr.Case, "runs": cr.Runs, "crashed_run": crashRec.Job.Run, "output_tail": crashRec.Fail})
		}
	}
	if len(ok) == 0 {
		return
	}
	for _, rr := range ok {
		r := rr.Job.Run
		c.Count("runs_completed", 1)
		c.Count("runs_family_"+r.Family, 1)
		if r.Race {
			c.Count("runs_race_build", 1)
		}
		if r.CPUs != "" {
			c.Count("runs_taskset_pinned", 1)
		}
		if r.Reps > 1 {
			c.Count("runs_with_in_process_repetitions", 1)
		}
		if r.Delays {
			c.Count("runs_with_injected_delays", 1)
			c.Distinct("delay_schedule", rr.Res.DelaySchedule)
		}
		c.Count("handoffs", rr.Res.Handoffs)
		c.Count("yield_point_events", sumYields(rr.Res.Yields))
		c.Count("holds_waited", rr.Res.HoldsWaited)
		c.Count("engine_stalls_injected", rr.Res.EngineStalls)
		c.Count("race_reports_seen", int64(rr.Races))
		if r.Family == "B" {
			c.Count("B_injections_into_running_engine", rr.Res.NonQuiescent)
		}
		if r.Family == "A" {
			if rr.Res.Quiescent {
				c.Count("A_runs_fully_quiescent", 1)
			} else {
				c.Count("A_runs_not_quiescent_not_judged_under_A", 1)
			}
		}
		c.Count("buffers_hashed", int64(len(rr.Res.Buffers)))
		c.Count("buffer_bytes_hashed", int64(rr.Res.BufBytes))
		c.Distinct("host_condition", fmt.Sprintf("P%d|cpus=%s|gogc=%s|race=%v", r.GOMAXPROCS, r.CPUs, r.GOGC, r.Race))
		c.Distinct("gomaxprocs", strconv.Itoa(r.GOMAXPROCS))
		c.Distinct("workload", cr.Case.Workload)
		c.Distinct("platform", fmt.Sprintf("%s|%s|gpus=%v|unified=%v", cr.Case.GPUType, cr.Case.Arch, cr.Case.GPUs, cr.Case.Unified))
	}

	// ---- how contended were the memory controllers (every execution, incl. repetitions) ----
	if cr.Runs[0].Family != "P" {
		plat := "r9nano"
		if cr.Case.GPUType != "" {
			plat = cr.Case.GPUType
		}
		for _, rr := range ok {
			execs := []map[string]int64{rr.Res.Contention}
			for _, rp := range rr.Reps {
				execs = append(execs, rp.Res.Contention)
			}
			for _, ct := range execs {
				for k, v := range ct {
					if strings.Contains(k, "_cycles_with_2_or_more_pending") {
						c.Count(plat+"_"+k, v)
					}
				}
				c.Count(plat+"_executions_metered", 1)
				sb := ct["dram_cycles_with_2_or_more_pending_same_bank"]
				j.mu.Lock()
				if sb > j.maxSameBank[plat] {
					j.maxSameBank[plat] = sb
				}
				j.mu.Unlock()
				if cr.Contended {
					if sb >= 8 { // the two contended cases show 30-40 such cycles; small kernel-argument / layout changes in /repo move that number
						c.Count("mi300a_contended_case_executions_with_same_bank_contention", 1)
					} else {
						c.Count("mi300a_contended_case_executions_without_same_bank_contention", 1)
					}
				}
			}
		}
	}

	// ---- copy hand-off programs and host races on application buffers ----
	j.judgeCopies(cr, ok)
	for _, rr := range ok {
		if rr.Job.Run.Race && rr.Races > 0 {
			j.judgeRaceReports(cr, rr)
		}
	}

	// ---- repetitions inside one process: repetition k against repetition 1 ----
	for _, rr := range ok {
		if rr.Job.Run.Reps > 1 {
			j.judgeRepetitions(cr, rr)
		}
	}

	// ---- parallel engine: buffers only ----
	if cr.Runs[0].Family == "P" {
		ref := ok[0]
		if serialRef != nil {
			ref = *serialRef
		}
		for _, rr := range ok {
			if rr.Out.Dir == ref.Out.Dir {
				continue
			}
			c.Count("parallel_engine_buffer_comparisons", 1)
			if !sameBuffers(ref, rr) {
				c.Violation("C05|parallel|buffer",
					fmt.Sprintf("case %s: final device memory of a parallel-engine run differs from the reference run: %s", cr.Case.Name, bufDiff(ref.Res, rr.Res)),
					j.witness(cr, ref, rr, nil))
			}
		}
		return
	}

	// ---- reference: the first fully quiescent family-A run ----
	refIdx := -1
	for i, rr := range ok {
		if rr.Job.Run.Family == "A" && rr.Res.Quiescent {
			refIdx = i
			break
		}
	}
	if refIdx < 0 {
		c.Inconclusive(fmt.Sprintf("case %s: no fully quiescent family-A run to compare against", cr.Case.Name))
		refIdx = 0
	}
	ref := ok[refIdx]
	if len(ok) < 2 {
		return
	}
	for i, rr := range ok {
		// non-triviality of the (case, host condition) pair
		if rr.Res.Handoffs >= 10 && rr.NumRows >= 100 {
			c.Nontrivial(cr.Case.Name + "|" + rr.Job.Run.hostKey())
		}
		if i == refIdx {
			continue
		}
		strict := rr.Job.Run.Family == "A" && rr.Res.Quiescent && ref.Res.Quiescent
		d := diffMetrics(ref.Metrics, rr.Metrics)
		c.Count("metric_rows_compared", int64(len(ref.Metrics)))
		c.Count("run_pairs_compared", 1)
		timeDiff := ref.Res.TimeRunBits != rr.Res.TimeRunBits || ref.Res.TimeDumpBits != rr.Res.TimeDumpBits || ref.Res.TimeEndBits != rr.Res.TimeEndBits
		bufDiffers := !sameBuffers(ref, rr)
		fam := rr.Job.Run.Family
		if strict {
			c.Count("A_pairs_compared_bit_for_bit", 1)
			aPre := "C05|A|"
			if rr.Job.Run.IDOffset != ref.Job.Run.IDOffset {
				// the two fresh processes differ (also) in how many ids were taken
				// from akita's id generator before the platform was built
				aPre = "C05|id-offset|"
				c.Count("id_offset_fresh_process_pairs_compared", 1)
				c.Distinct("id_offset", strconv.FormatInt(rr.Job.Run.IDOffset, 10))
			}
			if bufDiffers {
				c.Violation(aPre+"buffer", fmt.Sprintf("case %s: final device memory differs between two quiescent-hand-off runs: %s", cr.Case.Name, bufDiff(ref.Res, rr.Res)),
					j.witness(cr, ref, rr, nil))
			}
			if timeDiff {
				c.Violation(aPre+"engine-time", fmt.Sprintf("case %s: Engine.CurrentTime() differs between two quiescent-hand-off runs (after program %s vs %s, after read-back %s vs %s, end %s vs %s)",
					cr.Case.Name, ftime(ref.Res.TimeRunBits), ftime(rr.Res.TimeRunBits), ftime(ref.Res.TimeDumpBits), ftime(rr.Res.TimeDumpBits), ftime(ref.Res.TimeEndBits), ftime(rr.Res.TimeEndBits)),
					j.witness(cr, ref, rr, nil))
			}
			whats, rowSet := splitRowSet(sortedKeys(d.byWhat))
			if len(rowSet) > 0 {
				c.Violation(aPre+"metric-row-set", fmt.Sprintf("case %s: two quiescent-hand-off runs report different sets of mgpusim_metrics rows (rows present in only one of them, by 'what': %v)", cr.Case.Name, rowSet),
					j.witness(cr, ref, rr, map[string]any{"examples": diffExamples(d, prefixed(rowSet), 8)}))
			}
			for _, w := range whats {
				c.Violation(aPre+"metric|"+w, fmt.Sprintf("case %s: %d rows of mgpusim_metrics '%s' differ between two quiescent-hand-off runs", cr.Case.Name, d.byWhat[w], w),
					j.witness(cr, ref, rr, map[string]any{"examples": diffExamples(d, []string{w}, 8)}))
			}
			continue
		}
		// family B (or an A run whose holds expired): functional part must match
		c.Count("B_pairs_compared_functionally", 1)
		if bufDiffers {
			c.Violation("C05|"+fam+"|buffer", fmt.Sprintf("case %s: final device memory differs between runs that differ only in host conditions: %s", cr.Case.Name, bufDiff(ref.Res, rr.Res)),
				j.witness(cr, ref, rr, nil))
		}
		var timeWhats, memWhats []string
		plainWhats, rowSet := splitRowSet(sortedKeys(d.byWhat))
		if len(rowSet) > 0 {
			c.Violation("C05|"+fam+"|metric-row-set", fmt.Sprintf("case %s: runs that differ only in host conditions report different sets of mgpusim_metrics rows (rows present in only one of them, by 'what': %v)", cr.Case.Name, rowSet),
				j.witness(cr, ref, rr, map[string]any{"examples": diffExamples(d, prefixed(rowSet), 8)}))
		}
		for _, w := range plainWhats {
			switch metricClass(w, d.first[w]) {
			case classTime:
				timeWhats = append(timeWhats, w)
			case classMemEvents:
				memWhats = append(memWhats, w)
			default:
				c.Violation("C05|"+fam+"|functional-metric|"+w,
					fmt.Sprintf("case %s: %d rows of the functional metric '%s' differ between runs that differ only in host conditions", cr.Case.Name, d.byWhat[w], w),
					j.witness(cr, ref, rr, map[string]any{"examples": diffExamples(d, []string{w}, 8)}))
			}
		}
		if len(memWhats) > 0 {
			c.Count("B_runs_with_memory_event_count_differences", 1)
			j.mu.Lock()
			for _, w := range memWhats {
				j.handoffObserved[w] += d.byWhat[w]
			}
			j.mu.Unlock()
			c.Violation("C05|handoff-window|memory-event-counts",
				fmt.Sprintf("case %s: event counters of the memory-hierarchy timing model depend on host scheduling: %v differ (end time %s with quiescent hand-off vs %s)", cr.Case.Name, memWhats,
					ftime(ref.Res.TimeEndBits), ftime(rr.Res.TimeEndBits)),
				j.witness(cr, ref, rr, map[string]any{"memory_event_counters_differing": memWhats, "examples": diffExamples(d, memWhats, 8)}))
		}
		if timeDiff || len(timeWhats) > 0 {
			c.Count("B_runs_with_time_derived_differences", 1)
			j.mu.Lock()
			if timeDiff {
				j.handoffObserved["Engine.CurrentTime"]++
			}
			for _, w := range timeWhats {
				j.handoffObserved[w] += d.byWhat[w]
			}
			j.mu.Unlock()
			c.Violation("C05|handoff-window|time-derived-only",
				fmt.Sprintf("case %s: simulated times depend on host scheduling: end time %s (quiescent hand-off) vs %s; time-derived metrics differing: %v", cr.Case.Name,
					ftime(ref.Res.TimeEndBits), ftime(rr.Res.TimeEndBits), timeWhats),
				j.witness(cr, ref, rr, map[string]any{"time_derived_metrics_differing": timeWhats, "examples": diffExamples(d, timeWhats, 6)}))
		}
	}
}

// splitRowSet separates "row-set:<what>" entries (rows present in only one of
// the two runs) from value differences.
func splitRowSet(whats []string) (plain, rowSet []string) {
	for _, w := range whats {
		if strings.HasPrefix(w, "row-set:") {
			rowSet = append(rowSet, strings.TrimPrefix(w, "row-set:"))
		} else {
			plain = append(plain, w)
		}
	}
	return plain, rowSet
}

func prefixed(whats []string) []string {
	out := make([]string, len(whats))
	for i, w := range whats {
		out[i] = "row-set:" + w
	}
	return out
}

// judgeCopies: every blocking D2H observed by a copy hand-off program must have
// delivered its data when the call returned (the snapshot the application took
// immediately equals the one taken after a quiescent point) and the delivered
// data must be the same in every run of the case.
func (j *judge) judgeCopies(cr caseRuns, ok []runRecord) {
	c := j.c
	var ref *runRecord
	for i := range ok {
		if len(ok[i].Res.Copies) > 0 && (ref == nil || (ok[i].Job.Run.Family == "A" && ref.Job.Run.Family != "A")) {
			ref = &ok[i]
		}
	}
	if ref == nil {
		return
	}
	for _, rr := range ok {
		for k, v := range rr.Res.CopyEnds {
			if strings.HasSuffix(k, "|*protocol.FlushReq") {
				c.Count("copy_commands_completed_on_flush_reply", v)
			}
			c.Count("copy_commands_traced", v)
		}
		c.Count("engine_stalls_at_copy_command_end", rr.Res.CopyEndStalls)
		if len(rr.Res.Copies) == 0 {
			continue
		}
		if rr.Job.Run.CopyEndStallUS > 0 && rr.Job.Run.GOMAXPROCS >= 2 {
			c.Count("copy_handoff_runs_with_stall_and_gomaxprocs_ge_2", 1)
		}
		if len(rr.Res.Copies) != len(ref.Res.Copies) {
			c.Violation("C05|copy-handoff|different-number-of-copies", fmt.Sprintf("case %s: runs observed %d vs %d blocking copies", cr.Case.Name, len(ref.Res.Copies), len(rr.Res.Copies)),
				j.witness(cr, *ref, rr, nil))
			continue
		}
		for k, cp := range rr.Res.Copies {
			onFlush := cp.CompletedOn == "*protocol.FlushReq"
			if cp.Immediate == "" { // H2D: nothing to read back at this point
				if onFlush {
					c.Count("observed_h2d_completed_on_flush_reply", 1)
				}
				continue
			}
			c.Count("observed_d2h_copies", 1)
			if onFlush {
				c.Count("observed_d2h_completed_on_flush_reply", 1)
				if rr.Job.Run.CopyEndStallUS > 0 && rr.Job.Run.GOMAXPROCS >= 2 {
					c.Count("observed_d2h_on_flush_reply_with_stall", 1)
				}
				c.Nontrivial(fmt.Sprintf("%s|%s|copy%d", cr.Case.Name, rr.Job.Run.hostKey(), k))
			}
			wit := func() map[string]any {
				return j.witness(cr, *ref, rr, map[string]any{"copy": cp, "copy_in_reference_run": ref.Res.Copies[k]})
			}
			if cp.Immediate != cp.Settled {
				c.Violation("C05|A|buffer|differs-immediately-after-return",
					fmt.Sprintf("case %s: the destination of a blocking MemCopyD2H (%d bytes from GPU %d, command completed on %s) read immediately after the call returned differs from the same buffer after a quiescent point: the call returned before the data was delivered, so what the application sees depends on host scheduling",
						cr.Case.Name, cp.Size, cp.GPU, cp.CompletedOn), wit())
			}
			if cp.Settled != ref.Res.Copies[k].Settled {
				c.Violation("C05|A|buffer|d2h-destination-differs-between-runs",
					fmt.Sprintf("case %s: the data delivered by a blocking MemCopyD2H (%d bytes from GPU %d) differs between runs that differ only in host conditions", cr.Case.Name, cp.Size, cp.GPU), wit())
			}
		}
	}
}

var reRaceAccess = regexp.MustCompile(`(?m)^(Read|Write|Previous read|Previous write|Atomic read|Atomic write|Previous atomic read|Previous atomic write) at 0x[0-9a-f]+ by [^\n]*:\n((?:  .*\n)+)`)
var reRaceFunc = regexp.MustCompile(`(?m)^  ([^\s()]+(?:\([^)]*\))?[^\s()]*)\(\)`)

// judgeRaceReports: the race detector is a host condition, not the oracle of
// this property -- except for one kind of report: application (harness
// workload) code touching its own host buffer after a blocking driver call
// returned, racing with driver code touching the same buffer. Then the
// host-visible result depends on host scheduling.
func (j *judge) judgeRaceReports(cr caseRuns, rr runRecord) {
	c := j.c
	files, _ := filepathGlob(rr.Out.Dir + "/race.*")
	for _, f := range files {
		data, err := os.ReadFile(f)
		if err != nil {
			continue
		}
		for _, rep := range strings.Split(string(data), "==================") {
			if !strings.Contains(rep, "WARNING: DATA RACE") {
				continue
			}
			c.Count("race_reports_parsed", 1)
			acc := reRaceAccess.FindAllStringSubmatch(rep, -1)
			if len(acc) < 2 {
				continue
			}
			appIdx, drvIdx := -1, -1
			for i, a := range acc[:2] {
				if strings.Contains(a[2], "  main.(*copyHandoff)") || strings.Contains(a[2], "  main.(*wrapper)") || strings.Contains(a[2], "  main.(*tinyKernels)") ||
					strings.Contains(a[2], "  main.(*copyLoop)") || strings.Contains(a[2], "  main.(*memCopy)") {
					appIdx = i
				} else if strings.Contains(a[2], "mgpusim/v4/amd/driver.") {
					drvIdx = i
				}
			}
			if appIdx < 0 || drvIdx < 0 {
				continue
			}
			drvFn := "?"
			for _, m := range reRaceFunc.FindAllStringSubmatch(acc[drvIdx][2], -1) {
				if strings.Contains(m[1], "mgpusim/v4/amd/driver.") {
					drvFn = m[1][strings.LastIndex(m[1], "/")+1:]
					break
				}
			}
			appFn := "?"
			for _, m := range reRaceFunc.FindAllStringSubmatch(acc[appIdx][2], -1) {
				if strings.HasPrefix(m[1], "main.") {
					appFn = m[1]
					break
				}
			}
			key := "C05|host-race|" + appFn + "|" + drvFn
			what := fmt.Sprintf("case %s: race detector: application code (%s, %s) and driver code (%s, %s) access the same host buffer without synchronisation", cr.Case.Name, appFn, strings.ToLower(acc[appIdx][1]), drvFn, strings.ToLower(acc[drvIdx][1]))
			if strings.Contains(strings.ToLower(acc[drvIdx][1]), "write") && strings.Contains(acc[drvIdx][2], "encoding/binary.Read") {
				key = "C05|host-race|d2h-destination-written-after-return"
				what = fmt.Sprintf("case %s: race detector: the driver (%s) writes the destination buffer of a blocking MemCopyD2H without synchronisation with the application reading it after the call returned (%s): the data the application sees depends on host scheduling", cr.Case.Name, drvFn, appFn)
			}
			if len(rep) > 5000 {
				rep = rep[:5000]
			}
			c.Violation(key, what, map[string]any{"case": cr.Case, "runs": cr.Runs, "run": rr.Job.Run, "race_report": rep})
		}
	}
}

// ---------------------------------------------------------------------------
// parallel engine, emulation: "with the parallel engine the functional results
// remain identical". Kernels that use LDS (per work-group state inside the
// emulation compute unit / ALU), one serial-engine run as the reference and
// parallel-engine runs at several GOMAXPROCS, one of them under the -race build.

func emuRuns() []runDesc {
	return []runDesc{
		{Family: "A", Delays: true, DelaySeed: 0xC05E1, GOMAXPROCS: 4, GOGC: "100"},
		{Family: "P", Parallel: true, GOMAXPROCS: 4, GOGC: "100"},
		{Family: "P", Parallel: true, Delays: true, DelaySeed: 0xC05E2, GOMAXPROCS: 16, GOGC: "10"},
		{Family: "P", Parallel: true, GOMAXPROCS: 4, GOGC: "100", Race: true},
	}
}

func emuParallelCanon() []caseRuns {
	mk := func(name, wl, archName string, params map[string]int) caseRuns {
		return caseRuns{Case: caseDesc{Name: name, Workload: wl, Params: params, Timing: false, Arch: archName, GPUs: []int{1}, RandSeed: 1}, Runs: emuRuns(), Canonical: true}
	}
	return []caseRuns{
		mk("canon-emu-matrixtranspose-512-gcn3", "matrixtranspose", "", map[string]int{"width": 512}),
		mk("canon-emu-matrixtranspose-256-cdna3", "matrixtranspose", "cdna3", map[string]int{"width": 256}),
		mk("canon-emu-matrixmultiplication-128-gcn3", "matrixmultiplication", "", map[string]int{"x": 128, "y": 128, "z": 128}),
	}
}

func emuParallelCases(c *vlib.Check) []caseRuns {
	out := emuParallelCanon()
	base := c.Rand("emu-parallel")
	for i := 0; i < c.N(1, 6); i++ {
		r := base.ForkN("case", i)
		cd := caseDesc{Timing: false, GPUs: []int{1}, RandSeed: int64(1 + r.Intn(1000))}
		switch r.Intn(5) {
		case 0:
			cd.Workload, cd.Params = "matrixtranspose", map[string]int{"width": pick(r, 128, 256, 1024)}
			if r.Bool() {
				cd.Arch = "cdna3"
			}
		case 1:
			n := pick(r, 64, 128, 256)
			cd.Workload, cd.Params = "matrixmultiplication", map[string]int{"x": n, "y": pick(r, 64, 128), "z": n}
		case 2:
			cd.Workload, cd.Params = "fft", map[string]int{"bytes": pick(r, 65536, 262144), "passes": 2}
		case 3:
			cd.Workload, cd.Params = "nbody", map[string]int{"particles": pick(r, 256, 1024), "iter": pick(r, 2, 4)}
		default:
			cd.Workload, cd.Params = "stencil2d", map[string]int{"row": pick(r, 64, 256), "col": pick(r, 64, 256), "iter": pick(r, 2, 5)}
		}
		ps := make([]string, 0, len(cd.Params))
		for k, v := range cd.Params {
			ps = append(ps, fmt.Sprintf("%s=%d", k, v))
		}
		sort.Strings(ps)
		cd.Name = fmt.Sprintf("emu%d-%s[%s]-arch=%s", i, cd.Workload, strings.Join(ps, ","), cd.Arch)
		out = append(out, caseRuns{Case: cd, Runs: emuRuns()})
	}
	return out
}

func (j *judge) judgeParallelEmu(cr caseRuns, recs []runRecord) {
	c := j.c
	c.Eval()
	c.Count("cases", 1)
	var ref *runRecord
	for i := range recs {
		c.Count("runs", 1)
		if recs[i].OK {
			c.Count("runs_completed", 1)
			if recs[i].Job.Run.Race {
				c.Count("runs_race_build", 1)
			}
			c.Distinct("workload", "emu:"+cr.Case.Workload)
			if !recs[i].Job.Run.Parallel && ref == nil {
				ref = &recs[i]
			}
		}
	}
	if ref == nil {
		c.Inconclusive(fmt.Sprintf("case %s: the serial-engine emulation run ended without a record: %s", cr.Case.Name, firstLineOf(recs[0].Fail)))
		return
	}
	c.Count("serial_emulation_reference_runs", 1)
	for _, rr := range recs {
		if !rr.Job.Run.Parallel {
			continue
		}
		switch {
		case rr.Fail == "watchdog":
			c.Inconclusive(fmt.Sprintf("case %s parallel-engine run: watchdog fired", cr.Case.Name))
			continue
		case strings.HasPrefix(rr.Fail, "norace:"):
			c.Inconclusive(rr.Fail)
			continue
		case !rr.OK:
			c.Violation("C05|parallel-engine|emu|run-crashed|"+crashClass(rr.Fail),
				fmt.Sprintf("case %s: the emulation completes under the serial engine but a parallel-engine run ended without a result record", cr.Case.Name),
				map[string]any{"case": cr.Case, "runs": cr.Runs, "run": rr.Job.Run, "output_tail": rr.Fail})
			continue
		}
		c.Count("parallel_emulation_runs_of_lds_kernels", 1)
		c.Count("parallel_engine_buffer_comparisons", 1)
		c.Count("buffers_hashed", int64(len(rr.Res.Buffers)))
		c.Count("buffer_bytes_hashed", int64(rr.Res.BufBytes))
		c.Distinct("gomaxprocs", strconv.Itoa(rr.Job.Run.GOMAXPROCS))
		c.Nontrivial(cr.Case.Name + "|" + rr.Job.Run.hostKey())
		if rr.Res.BufDigest != ref.Res.BufDigest {
			c.Violation("C05|parallel-engine|emu|buffer-differs-from-serial-engine",
				fmt.Sprintf("case %s: final device memory of an emulation run under the parallel engine differs from the serial-engine run: %s", cr.Case.Name, bufDiff(ref.Res, rr.Res)),
				j.witness(cr, *ref, rr, nil))
		}
		if rr.Job.Run.Race && rr.Races > 0 {
			j.judgeParallelRaces(cr, rr)
		}
	}
}

// judgeParallelRaces: a race report of a parallel-engine emulation run is a
// violation when both racing accesses are made by mgpusim code (the innermost
// non-runtime frame of each access is in github.com/sarchlab/mgpusim/v4/):
// two simulated components touching the same host memory concurrently. Races
// whose accesses are inside akita (its parallel engine, ports, id generator)
// are counted, not judged.
func (j *judge) judgeParallelRaces(cr caseRuns, rr runRecord) {
	c := j.c
	files, _ := filepathGlob(rr.Out.Dir + "/race.*")
	for _, f := range files {
		data, err := os.ReadFile(f)
		if err != nil {
			continue
		}
		for _, rep := range strings.Split(string(data), "==================") {
			if !strings.Contains(rep, "WARNING: DATA RACE") {
				continue
			}
			c.Count("parallel_emulation_race_reports", 1)
			acc := reRaceAccess.FindAllStringSubmatch(rep, -1)
			if len(acc) < 2 {
				continue
			}
			var tops []string
			for _, a := range acc[:2] {
				top := ""
				for _, m := range reRaceFunc.FindAllStringSubmatch(a[2], -1) {
					fn := m[1]
					if strings.HasPrefix(fn, "runtime.") || strings.HasPrefix(fn, "sync.") || strings.HasPrefix(fn, "sync/atomic.") || strings.HasPrefix(fn, "internal/") {
						continue
					}
					top = fn
					break
				}
				tops = append(tops, top)
			}
			if !strings.Contains(tops[0], "sarchlab/mgpusim/v4/") || !strings.Contains(tops[1], "sarchlab/mgpusim/v4/") {
				c.Count("parallel_emulation_race_reports_outside_mgpusim_not_judged", 1)
				c.Distinct("race_outside_mgpusim", tops[0]+" <-> "+tops[1])
				continue
			}
			short := func(s string) string { return s[strings.LastIndex(s, "/")+1:] }
			// key: the two objects (package.(*Type)) whose methods race; the
			// methods themselves are named in the description and the witness
			owner := func(s string) string {
				s = short(s)
				if i := strings.Index(s, ")."); i >= 0 {
					return s[:i+1]
				}
				if i := strings.Index(s, "."); i >= 0 {
					return s[:i]
				}
				return s
			}
			fns := []string{short(tops[0]), short(tops[1])}
			sort.Strings(fns)
			ks := []string{owner(tops[0]), owner(tops[1])}
			sort.Strings(ks)
			if len(rep) > 5000 {
				rep = rep[:5000]
			}
			c.Violation("C05|parallel-engine|data-race|"+ks[0]+" <-> "+ks[1],
				fmt.Sprintf("case %s: race detector, emulation under the parallel engine: %s and %s access the same memory without synchronisation", cr.Case.Name, fns[0], fns[1]),
				map[string]any{"case": cr.Case, "runs": cr.Runs, "run": rr.Job.Run, "race_report": rep})
		}
	}
}

// judgeRepetitions compares the 2nd.. execution of a simulation inside one
// process with the first execution in that process (which itself is compared
// with the fresh-process runs of the case like every family-A run). Every
// execution builds its own runner.Runner / simulation / engine and writes its
// own sqlite file, so engine times are absolute and metric rows are
// attributed to their repetition by file.
func (j *judge) judgeRepetitions(cr caseRuns, rr runRecord) {
	c := j.c
	pre := "C05|in-process-repetition|"
	first := rr
	wit := func(k int, other repRecord, extra map[string]any) map[string]any {
		o := rr
		o.Res, o.NumRows = other.Res, len(other.Metrics)
		w := j.witness(cr, first, o, extra)
		w["repetition"] = k + 1
		w["compared_with"] = "repetition 1 of the same process"
		return w
	}
	if strings.HasPrefix(rr.RepFail, "stalled:") {
		c.Count("executions_stalled_by_state", 1)
		c.Violation("C05|outcome-differs-between-identical-executions|completed-vs-deadlocked|"+cr.Case.Name,
			fmt.Sprintf("case %s: the first execution of the simulation in a process completed, a later one in the same process deadlocked (decided by state)", cr.Case.Name),
			map[string]any{"case": cr.Case, "runs": cr.Runs, "run": rr.Job.Run, "stall_record": rr.RepFail})
	} else if rr.RepFail != "" {
		c.Violation(pre+"crash|"+crashClass(rr.RepFail),
			fmt.Sprintf("case %s: the first execution of the simulation in a process completed, a later one in the same process did not: %s", cr.Case.Name, firstLineOf(rr.RepFail)),
			map[string]any{"case": cr.Case, "runs": cr.Runs, "run": rr.Job.Run, "output_tail": rr.RepFail})
	}
	for k, rp := range rr.Reps {
		if !first.Res.Quiescent || !rp.Res.Quiescent {
			c.Count("in_process_repetitions_not_quiescent_not_judged", 1)
			continue
		}
		pre = "C05|in-process-repetition|"
		if rr.Job.Run.IDCrossDigits > 0 && k == len(rr.Reps)-1 {
			// the last execution ran with the id counter moved so that it passes a
			// power of ten while a kernel is being dispatched
			pre = "C05|id-offset|"
			c.Count("id_offset_crossing_executions_compared", 1)
			crossed := false
			for _, sp := range rp.Res.KernelIDSpans {
				for pow := int64(100000); pow <= 100000000; pow *= 10 {
					if sp[0] < pow && pow <= sp[1] {
						crossed = true
					}
				}
			}
			if crossed {
				c.Count("id_offset_runs_crossing_a_power_of_ten_during_a_kernel", 1)
			} else {
				c.Count("id_offset_runs_that_missed_the_crossing", 1)
			}
		} else {
			c.Count("in_process_repetition_pairs_compared", 1)
		}
		c.Count("metric_rows_compared", int64(len(first.Metrics)))
		if rp.Res.Handoffs >= 10 && len(rp.Metrics) >= 100 {
			c.Nontrivial(fmt.Sprintf("%s|%s|repetition%d", cr.Case.Name, rr.Job.Run.hostKey(), k+2))
		}
		if first.Res.BufDigestNoPID != rp.Res.BufDigestNoPID {
			c.Violation(pre+"buffer", fmt.Sprintf("case %s: final device memory of execution %d inside one process differs from execution 1: %s", cr.Case.Name, k+2, bufDiff(first.Res, rp.Res)),
				wit(k+1, rp, nil))
		}
		if first.Res.TimeRunBits != rp.Res.TimeRunBits || first.Res.TimeDumpBits != rp.Res.TimeDumpBits || first.Res.TimeEndBits != rp.Res.TimeEndBits {
			c.Violation(pre+"engine-time", fmt.Sprintf("case %s: Engine.CurrentTime() of execution %d inside one process differs from execution 1 (after program %s vs %s, after read-back %s vs %s, end %s vs %s)",
				cr.Case.Name, k+2, ftime(first.Res.TimeRunBits), ftime(rp.Res.TimeRunBits), ftime(first.Res.TimeDumpBits), ftime(rp.Res.TimeDumpBits), ftime(first.Res.TimeEndBits), ftime(rp.Res.TimeEndBits)),
				wit(k+1, rp, nil))
		}
		d := diffMetrics(first.Metrics, rp.Metrics)
		whats, rowSet := splitRowSet(sortedKeys(d.byWhat))
		if len(rowSet) > 0 {
			c.Violation(pre+"metric-row-set", fmt.Sprintf("case %s: execution %d inside one process reports a different set of mgpusim_metrics rows than execution 1 (by 'what': %v)", cr.Case.Name, k+2, rowSet),
				wit(k+1, rp, map[string]any{"examples": diffExamples(d, prefixed(rowSet), 8)}))
		}
		for _, w := range whats {
			key := pre + "metric|" + w
			if w == "kernel_time" {
				key = pre + "kernel-time"
			}
			c.Violation(key, fmt.Sprintf("case %s: %d rows of mgpusim_metrics '%s' of execution %d inside one process differ from execution 1", cr.Case.Name, d.byWhat[w], w, k+2),
				wit(k+1, rp, map[string]any{"examples": diffExamples(d, []string{w}, 8)}))
		}
	}
}

func firstLineOf(s string) string {
	if i := strings.IndexByte(s, '\n'); i >= 0 {
		s = s[:i]
	}
	if len(s) > 200 {
		s = s[:200]
	}
	return s
}

func sumYields(m map[string]int64) int64 {
	var s int64
	for _, v := range m {
		s += v
	}
	return s
}

func sortedKeys(m map[string]int) []string {
	ks := make([]string, 0, len(m))
	for k := range m {
		ks = append(ks, k)
	}
	sort.Strings(ks)
	return ks
}

// ---------------------------------------------------------------------------

func parentMain() {
	// --replay <file>: re-execute exactly the case of a violation (read before
	// vlib.Start, which deletes stale replays of the same tier and seed)
	var replay *caseRuns
	for i, a := range os.Args {
		if a == "--replay" && i+1 < len(os.Args) {
			data, err := os.ReadFile(os.Args[i+1])
			if err != nil {
				fmt.Printf("[C05] cannot read replay file: %v\n", err)
				os.Exit(2)
			}
			var rp struct {
				Witness caseRuns `json:"witness"`
			}
			if err := json.Unmarshal(data, &rp); err != nil || len(rp.Witness.Runs) == 0 {
				fmt.Printf("[C05] replay file has no case/runs: %v\n", err)
				os.Exit(2)
			}
			replay = &rp.Witness
		}
	}
	c := vlib.Start("C05")
	scratch, cleanup := vlib.Scratch("c05")
	defer cleanup()
	bins := newBinaries()

	cases, par := buildCases(c)
	emu := emuParallelCases(c)
	if replay != nil {
		cases, par, emu = []caseRuns{*replay}, nil, nil
		if !replay.Case.Timing {
			cases, emu = nil, []caseRuns{*replay}
		}
	}
	if os.Getenv("C05_ONLY_CANONICAL") != "" {
		cases, par = canonicalCases(c.N(2, 3), c.N(2, 5)), nil
		emu = emuParallelCanon()
	}
	needRace := false
	for _, cr := range append(append([]caseRuns{}, cases...), emu...) {
		for _, r := range cr.Runs {
			needRace = needRace || r.Race
		}
	}
	if needRace {
		go func() { _ = bins.ensureRace() }() // built while the plain runs execute
	}

	type jobRef struct{ ci, ri int }
	all := append(append(append([]caseRuns{}, cases...), par...), emu...)
	recs := make([][]runRecord, len(all))
	var plainJobs, raceJobs []jobRef
	for ci, cr := range all {
		recs[ci] = make([]runRecord, len(cr.Runs))
		for ri, r := range cr.Runs {
			if r.Race {
				raceJobs = append(raceJobs, jobRef{ci, ri})
			} else {
				plainJobs = append(plainJobs, jobRef{ci, ri})
			}
		}
	}
	// race-build runs are the slowest: start them first on a few workers of
	// their own, the rest fills up with plain runs
	jobs := append(raceJobs, plainJobs...)
	workers := runtime.NumCPU() / 2
	if workers < 2 {
		workers = 2
	}
	if workers > 8 {
		workers = 8
	}
	vlib.Parallel(len(jobs), workers, func(i int) {
		jr := jobs[i]
		if watchdogsFired.Load() >= 2 { // bound the run: do not launch further children
			recs[jr.ci][jr.ri] = runRecord{Job: childJob{Case: all[jr.ci].Case, Run: all[jr.ci].Runs[jr.ri]}, Fail: "skipped"}
			return
		}
		recs[jr.ci][jr.ri] = execRun(bins, scratch, childJob{Case: all[jr.ci].Case, Run: all[jr.ci].Runs[jr.ri]})
	})

	if n := watchdogsFired.Load(); n >= 2 {
		cleanup()
		c.Inconclusive(fmt.Sprintf("%d children hit the %v watchdog without a logical verdict; no further children were launched and nothing is judged", n, childWatchdog))
		c.Finish(vlib.FinishOpts{Rule: "run abandoned after two watchdog firings", MinNontrivial: 2})
	}
	j := &judge{c: c, handoffObserved: map[string]int{}, maxSameBank: map[string]int64{}}
	serialRef := map[string]*runRecord{}
	for ci, cr := range cases {
		j.judgeCase(cr, recs[ci], nil)
		for i := range recs[ci] {
			rr := recs[ci][i]
			if rr.OK && rr.Job.Run.Family == "A" && rr.Res.Quiescent && serialRef[cr.Case.Name] == nil {
				serialRef[cr.Case.Name] = &recs[ci][i]
			}
		}
	}
	for pi, cr := range par {
		j.judgeCase(cr, recs[len(cases)+pi], serialRef[cr.Case.Name])
	}
	for ei, cr := range emu {
		j.judgeParallelEmu(cr, recs[len(cases)+len(par)+ei])
	}
	// literal samples
	for ci, cr := range cases {
		if ci < 4 {
			var rs []map[string]any
			for _, rr := range recs[ci] {
				if rr.OK {
					rs = append(rs, runSummary(rr))
				}
			}
			c.Sample(map[string]any{"case": cr.Case, "runs": rs})
		}
	}
	var runList []map[string]any
	for ci, cr := range all {
		for _, rr := range recs[ci] {
			r := rr.Job.Run
			runList = append(runList, map[string]any{"case": cr.Case.Name, "family": r.Family, "delays": r.Delays, "gomaxprocs": r.GOMAXPROCS,
				"taskset_cpus": r.CPUs, "gogc": r.GOGC, "race_build": r.Race, "completed": rr.OK, "wall_s": math.Round(rr.Dur*10) / 10,
				"handoffs": rr.Res.Handoffs, "metric_rows": rr.NumRows, "quiescent": rr.Res.Quiescent,
				"injections_into_running_engine": rr.Res.NonQuiescent, "end_time": ftime(rr.Res.TimeEndBits)})
		}
	}
	c.Set("runs", runList)
	c.Set("max_dram_same_bank_contention_cycles_in_one_execution", j.maxSameBank)
	c.Set("handoff_finding_observables_differing", j.handoffObserved)
	c.Set("metric_classes", "time-derived: unit 'second' or 'cycles/inst'; memory-event counts: cache/TLB hit, miss, mshr-hit splits, DRAM and RDMA transaction counts and sizes; functional: everything else (instruction counts, unknown units) and the set of rows")

	cleanup()
	restricted := replay != nil || os.Getenv("C05_ONLY_CANONICAL") != ""
	minNT := c.N(12, 100)
	minC := map[string]int64{
		"runs_completed": int64(c.N(20, 200)), "A_pairs_compared_bit_for_bit": int64(c.N(6, 80)), "B_pairs_compared_functionally": int64(c.N(8, 100)),
		"metric_rows_compared": int64(c.N(5000, 100000)), "handoffs": int64(c.N(500, 5000)), "B_injections_into_running_engine": int64(c.N(20, 200)),
		"runs_race_build": int64(c.N(3, 30)), "runs_taskset_pinned": int64(c.N(3, 30)), "parallel_engine_buffer_comparisons": int64(c.N(2, 10)),
		"in_process_repetition_pairs_compared": int64(c.N(7, 60)),
		// the copy hand-off family reached its target: blocking D2H copies whose command completed on a flush reply
		// contention at the DRAM controllers was observed, not hoped for
		"mi300a_dram_cycles_with_2_or_more_pending": int64(c.N(8000, 20000)), "mi300a_dram_cycles_with_2_or_more_pending_same_bank": int64(c.N(150, 400)),
		"mi300a_contended_case_executions_with_same_bank_contention": int64(c.N(4, 5)),
		"id_offset_runs_crossing_a_power_of_ten_during_a_kernel":     int64(c.N(4, 30)), "id_offset_fresh_process_pairs_compared": int64(c.N(6, 30)),
		"parallel_emulation_runs_of_lds_kernels":  int64(c.N(10, 24)),
		"r9nano_l2_cycles_with_2_or_more_pending": int64(c.N(5000, 50000)),
		"observed_d2h_completed_on_flush_reply":   int64(c.N(8, 60)), "observed_d2h_on_flush_reply_with_stall": int64(c.N(4, 30)),
	}
	if restricted { // a single case: only require that it was compared at all
		minNT = 2
		minC = map[string]int64{"runs_completed": 2, "run_pairs_compared": 1}
	}
	c.Finish(vlib.FinishOpts{
		Rule: "case = (workload, inputs, platform configuration); every case runs K times in separate processes that differ only in host conditions " +
			"(GOMAXPROCS, taskset pinning, GOGC, plain or -race build, PRNG delays at the driver's yield points and engine-thread stalls after completion notifications). " +
			"Family A (quiescent hand-off, every command injected into an idle engine): buffers, engine times and every mgpusim_metrics row bit-identical; " +
			"family B (adversarial hand-off): buffers, instruction counts (every count/bytes metric that is not a memory-hierarchy event counter) and the set of rows identical; " +
			"differences of time-valued metrics and of memory-hierarchy event counters under B are reported under the two hand-off keys. " +
			"distinct_nontrivial = distinct (case, host condition) pairs of completed runs with >= 10 application->engine hand-offs and >= 100 metric rows, compared against another run of the same case",
		Assumptions: []string{
			"in-process repetitions: one family-A child per case executes the simulation 2 (thorough: 3) times on a fresh runner.Runner each, flags parsed once, as amd/tests/deterministic does; execution k is compared with execution 1 of that process (buffers without process ids, absolute engine times of the per-simulation engine, every metric row of the per-simulation sqlite file), execution 1 with the fresh-process runs",
			"id-generator offsets: ids are taken from akita's process-wide sequential generator before a platform build (fresh processes: 1, 12345, 999990) or before the last in-process repetition so that the counter passes 10^5..10^7 a few hundred to a few thousand ids after a kernel's launch command started (calibrated on repetition 1 of the same process; the crossing is verified on the recorded id span of the kernel); reading the counter takes one id, in every run alike",
			"contention bookkeeping: a hook on the Top port of every DRAM controller / L2 cache counts the cycles in which the component retrieved >= 2 requests (DMA-engine requests excluded at the DRAM); for the mi300a banked DRAM model also those with >= 2 requests for the same bank (bank = (converted address >> 6) % 16, the values timingconfig/mi300a configures). This is a necessary condition for the controller's order among pending requests to matter, not a sufficient one; requests left pending from earlier cycles are not visible at the port",
			"copy hand-off family: the last reply of a copy command is observed through a tracer on the Driver (request tasks of the command's task); a blocking D2H must have delivered its data when it returns: the application's immediate snapshot of the destination equals the snapshot after a quiescent point and the one of the plain run; race reports are judged only when application code and driver code touch the same host buffer",
			"one application goroutine per simulation (runner.Run with one benchmark); serial engine except in the parallel-engine comparison, where only buffers are compared",
			"identical inputs: //go:debug randseednop=0 + rand.Seed(case seed) in every child; fresh process per run",
			"only Engine.CurrentTime(), the rows (location, what, value, unit) of mgpusim_metrics and the live device buffers are compared; wall-clock fields, ids and exec_info are not",
			"family A holds the application at 'drain.return' and runAsync at 'async.signal' until runAsync is back at its select and the engine goroutine has exited; a run whose hold expired is not judged under A",
			"differences of time-valued metrics (unit second, cycles/inst) and of memory-hierarchy event counters (hit/miss/mshr-hit splits, DRAM/RDMA transaction counts and sizes) under family B are attributed to the hand-off finding; family A, where they must be bit-identical, is what excludes other causes",
			"the read-back of all live buffers (blocking D2H copies after the program's last command) is part of every run alike",
		},
		MinNontrivial: minNT,
		MinCounters:   minC,
	})
}
