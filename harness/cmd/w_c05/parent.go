package main

type metricDiff struct {
	total  int
	byWhat map[string]int
	first  map[string][2]metricRow
}

// diffMetrics compares two sorted row lists position-independently by
// (location, what); a row missing on one side counts as a difference of its
// "what".
func diffMetrics(a, b []metricRow) metricDiff {
	d := metricDiff{byWhat: map[string]int{}, first: map[string][2]metricRow{}}
	i, j := 0, 0
	note := func(w string, x, y metricRow) {
		d.total++
		d.byWhat[w]++
		if _, ok := d.first[w]; !ok {
			d.first[w] = [2]metricRow{x, y}
		}
	}
	for i < len(a) || j < len(b) {
		switch {
		case j >= len(b) || (i < len(a) && a[i].key() < b[j].key()):
			note(a[i].What, a[i], metricRow{})
			i++
		case i >= len(a) || a[i].key() > b[j].key():
			note(b[j].What, metricRow{}, b[j])
			j++
		default:
			if a[i].Bits != b[j].Bits || a[i].Unit != b[j].Unit {
				note(a[i].What, a[i], b[j])
			}
			i++
			j++
		}
	}
	return d
}

func parentMain() {}
