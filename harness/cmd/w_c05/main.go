// w_c05: simulations are reproducible bit-for-bit (DESIGN.md C05).
//
// Every case (workload, inputs, platform configuration) is executed K times in
// separate child processes that differ only in host conditions (GOMAXPROCS,
// taskset pinning, GOGC, plain vs -race build of this worker, PRNG delays at
// the driver's yield points). The observable record of each run -- SHA-256 of
// every live device buffer read back after the program's last command,
// Engine.CurrentTime() as float bits, every row of mgpusim_metrics written by
// runner.Runner's reporters with -report-all -- is compared for equality.
//
//go:debug randseednop=0
package main

import (
	"bytes"
	"encoding/json"
	"fmt"
	"os"
	"sync/atomic"
	"time"

	"verifharness/vlib"
)

// runRecord is the full observable record of one run plus bookkeeping.
type runRecord struct {
	Job     childJob    `json:"job"`
	OK      bool        `json:"ok"`
	Fail    string      `json:"fail,omitempty"`
	Res     childResult `json:"result"`
	Metrics []metricRow `json:"-"`
	NumRows int         `json:"metric_rows"`
	Dur     float64     `json:"wall_s"`
	Races   int         `json:"race_reports"`
	Out     childOut    `json:"-"`
	// repetitions 2.. of a run with Reps > 1 (repetition 1 is Res / Metrics)
	Reps    []repRecord `json:"-"`
	RepFail string      `json:"repetition_fail,omitempty"`
}

type repRecord struct {
	Res     childResult
	Metrics []metricRow
}

// childWatchdog is generous against the observed maxima (a child takes <= 45 s
// on an idle machine, a few minutes on a heavily loaded one); its firing is
// inconclusive, and after two of them no further children are launched.
const childWatchdog = 6 * time.Minute

var watchdogsFired atomic.Int64

func execRun(bins *binaries, scratch string, job childJob) runRecord {
	rr := runRecord{Job: job}
	if job.Run.Race {
		if err := bins.ensureRace(); err != nil {
			rr.Fail = "norace: " + err.Error()
			return rr
		}
	}
	out := runJob(bins, scratch, job, childWatchdog)
	rr.Out = out
	rr.Dur = out.Dur.Seconds()
	notes := absorbNotes(out.RecPath)
	if files, _ := filepathGlob(out.Dir + "/race.*"); len(files) > 0 {
		rr.Races = len(files)
	}
	if out.TimedOut {
		rr.Fail = "watchdog"
		watchdogsFired.Add(1)
		return rr
	}
	stalledNote, stalled := notes["stalled"]
	rv, ok := notes["result"]
	if !ok && stalled {
		rr.Fail = "stalled: " + tailStr(string(stalledNote), 6000)
		return rr
	}
	if !ok {
		rr.Fail = "crash: " + tailStr(vlib.Tail(out.OutPath, 1500), 1500)
		return rr
	}
	if err := json.Unmarshal(rv, &rr.Res); err != nil {
		rr.Fail = "bad result record: " + err.Error()
		return rr
	}
	if rr.Res.SQLite == "" {
		rr.Fail = "the run wrote no akita sqlite file"
		return rr
	}
	if job.Case.Timing {
		m, err := readMetrics(out.Dir + "/" + rr.Res.SQLite)
		if err != nil {
			rr.Fail = "cannot read mgpusim_metrics: " + err.Error()
			return rr
		}
		rr.Metrics = m
		rr.NumRows = len(m)
	}
	for k := 1; k < job.Run.Reps; k++ {
		rv, ok := notes[fmt.Sprintf("rep%d", k)]
		if !ok && stalled {
			rr.RepFail = fmt.Sprintf("stalled: repetition %d: %s", k+1, tailStr(string(stalledNote), 6000))
			break
		}
		if !ok {
			rr.RepFail = fmt.Sprintf("repetition %d ended without a record: %s", k+1, tailStr(vlib.Tail(out.OutPath, 1500), 1500))
			break
		}
		var rp repRecord
		if err := json.Unmarshal(rv, &rp.Res); err != nil || rp.Res.SQLite == "" {
			rr.RepFail = fmt.Sprintf("repetition %d: bad record or no sqlite file", k+1)
			break
		}
		if job.Case.Timing {
			mm, err := readMetrics(out.Dir + "/" + rp.Res.SQLite)
			if err != nil {
				rr.RepFail = fmt.Sprintf("repetition %d: cannot read mgpusim_metrics: %v", k+1, err)
				break
			}
			rp.Metrics = mm
		}
		rr.Reps = append(rr.Reps, rp)
	}
	rr.OK = true
	return rr
}

// absorbNotes reads the free-form notes of a child record file (the child
// reports nothing else through the recorder).
func absorbNotes(path string) map[string]json.RawMessage {
	out := map[string]json.RawMessage{}
	data, err := os.ReadFile(path)
	if err != nil {
		return out
	}
	dec := json.NewDecoder(bytes.NewReader(data))
	for {
		var m struct {
			T string          `json:"t"`
			V json.RawMessage `json:"v"`
		}
		if err := dec.Decode(&m); err != nil {
			break
		}
		out[m.T] = m.V
	}
	return out
}

func main() {
	if len(os.Args) > 1 && os.Args[1] == "child" {
		childMain()
		return
	}
	if len(os.Args) > 1 && os.Args[1] == "probe" {
		probeMain()
		return
	}
	parentMain()
}
