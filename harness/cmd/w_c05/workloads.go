package main

import (
	"crypto/sha256"
	"encoding/binary"
	"encoding/hex"
	"fmt"
	"math/rand"
	"os"
	"path/filepath"

	"github.com/sarchlab/mgpusim/v4/amd/arch"
	"github.com/sarchlab/mgpusim/v4/amd/benchmarks"
	"github.com/sarchlab/mgpusim/v4/amd/benchmarks/amdappsdk/bitonicsort"
	"github.com/sarchlab/mgpusim/v4/amd/benchmarks/amdappsdk/fastwalshtransform"
	"github.com/sarchlab/mgpusim/v4/amd/benchmarks/amdappsdk/floydwarshall"
	"github.com/sarchlab/mgpusim/v4/amd/benchmarks/amdappsdk/matrixmultiplication"
	"github.com/sarchlab/mgpusim/v4/amd/benchmarks/amdappsdk/matrixtranspose"
	"github.com/sarchlab/mgpusim/v4/amd/benchmarks/amdappsdk/nbody"
	"github.com/sarchlab/mgpusim/v4/amd/benchmarks/amdappsdk/simpleconvolution"
	"github.com/sarchlab/mgpusim/v4/amd/benchmarks/amdappsdk/vectoradd"
	"github.com/sarchlab/mgpusim/v4/amd/benchmarks/dnn/layer_benchmarks/relu"
	"github.com/sarchlab/mgpusim/v4/amd/benchmarks/heteromark/aes"
	"github.com/sarchlab/mgpusim/v4/amd/benchmarks/heteromark/fir"
	"github.com/sarchlab/mgpusim/v4/amd/benchmarks/heteromark/kmeans"
	"github.com/sarchlab/mgpusim/v4/amd/benchmarks/heteromark/pagerank"
	"github.com/sarchlab/mgpusim/v4/amd/benchmarks/polybench/atax"
	"github.com/sarchlab/mgpusim/v4/amd/benchmarks/polybench/bicg"
	"github.com/sarchlab/mgpusim/v4/amd/benchmarks/rodinia/nw"
	"github.com/sarchlab/mgpusim/v4/amd/benchmarks/shoc/fft"
	"github.com/sarchlab/mgpusim/v4/amd/benchmarks/shoc/spmv"
	"github.com/sarchlab/mgpusim/v4/amd/benchmarks/shoc/stencil2d"
	"github.com/sarchlab/mgpusim/v4/amd/driver"
	"github.com/sarchlab/mgpusim/v4/amd/insts"
	"github.com/sarchlab/mgpusim/v4/amd/samples/runner"

	"verifharness/vlib/kern"
)

func repoDir() string {
	if d := os.Getenv("VERIF_REPO_DIR"); d != "" {
		return d
	}
	return "/repo"
}

// ---------------------------------------------------------------------------
// copyLoop: N x (blocking H2D, blocking D2H) of Bytes bytes from one
// goroutine -- the program of the design-phase spike.

type copyLoop struct {
	d     *driver.Driver
	ctx   *driver.Context
	gpu   int
	N     int
	Bytes int
}

func (b *copyLoop) SelectGPU(g []int) { b.gpu = g[0] }
func (b *copyLoop) SetUnifiedMemory() {}
func (b *copyLoop) Verify()           {}
func (b *copyLoop) Run() {
	b.ctx = b.d.Init()
	b.d.SelectGPU(b.ctx, b.gpu)
	buf := b.d.AllocateMemory(b.ctx, uint64(b.Bytes))
	data := make([]byte, b.Bytes)
	back := make([]byte, b.Bytes)
	for i := 0; i < b.N; i++ {
		for j := range data {
			data[j] = byte(i*7 + j)
		}
		b.d.MemCopyH2D(b.ctx, buf, data)
		b.d.MemCopyD2H(b.ctx, back, buf)
	}
}

// ---------------------------------------------------------------------------
// emptyKernel: amd/tests/deterministic/empty_kernel (same code object file,
// same launch), optionally launched several times.

type emptyKernelArgs struct {
	HiddenGlobalOffsetX int64
	HiddenGlobalOffsetY int64
	HiddenGlobalOffsetZ int64
}

type emptyKernel struct {
	d        *driver.Driver
	ctx      *driver.Context
	hsaco    *insts.KernelCodeObject
	WfPerWG  int
	NumWG    int
	Launches int
}

func (b *emptyKernel) SelectGPU([]int)   {}
func (b *emptyKernel) SetUnifiedMemory() {}
func (b *emptyKernel) Verify()           {}
func (b *emptyKernel) Run() {
	b.ctx = b.d.Init()
	b.hsaco = insts.LoadKernelCodeObjectFromFS(
		filepath.Join(repoDir(), "amd/tests/deterministic/empty_kernel/kernels.hsaco"), "")
	for i := 0; i < b.Launches; i++ {
		args := emptyKernelArgs{}
		b.d.LaunchKernel(b.ctx, b.hsaco,
			[3]uint32{uint32(64 * b.WfPerWG * b.NumWG), 1, 1},
			[3]uint16{uint16(64 * b.WfPerWG), 1, 1}, &args)
	}
}

// ---------------------------------------------------------------------------
// memCopy: amd/tests/deterministic/memcopy

type memCopy struct {
	d        *driver.Driver
	ctx      *driver.Context
	gpu      int
	ByteSize uint64
	unified  bool
}

func (b *memCopy) SelectGPU(g []int) { b.gpu = g[0] }
func (b *memCopy) SetUnifiedMemory() { b.unified = true }
func (b *memCopy) Verify()           {}
func (b *memCopy) Run() {
	b.d.SelectGPU(b.ctx, b.gpu)
	data := make([]byte, b.ByteSize)
	ret := make([]byte, b.ByteSize)
	for i := uint64(0); i < b.ByteSize; i++ {
		data[i] = byte(rand.Int())
	}
	gpuData := b.d.AllocateMemory(b.ctx, b.ByteSize)
	if b.unified {
		gpuData = b.d.AllocateUnifiedMemory(b.ctx, b.ByteSize)
	}
	b.d.MemCopyH2D(b.ctx, gpuData, data)
	b.d.MemCopyD2H(b.ctx, ret, gpuData)
}

// ---------------------------------------------------------------------------
// tinyKernels: a generated program of many element-wise kernels (add/mul/xor,
// hand assembled, race free): (1) a chain of blocking launches over a small
// buffer per GPU with copies in between (many application<->engine
// hand-offs), every sixth launch over a large buffer (many wavefronts per
// compute unit, so that the schedulers inside a CU have to arbitrate);
// (2) with two GPUs, a phase with one queue per GPU, both filled before either
// is drained (two queues in flight from one application goroutine).

type tinyKernels struct {
	d          *driver.Driver
	ctx        *driver.Context
	gpus       []int
	Kernels    int
	Elems      int
	BigElems   int
	Concurrent int
	Seed       int
}

func (b *tinyKernels) SelectGPU(g []int) { b.gpus = g }
func (b *tinyKernels) SetUnifiedMemory() {}
func (b *tinyKernels) Verify()           {}
func (b *tinyKernels) Run() {
	b.ctx = b.d.Init()
	newCOs := func() [3]*insts.KernelCodeObject {
		return [3]*insts.KernelCodeObject{kern.ElemKernel(kern.OpAdd), kern.ElemKernel(kern.OpMul), kern.ElemKernel(kern.OpXor)}
	}
	cos := newCOs()
	bufs := make([]driver.Ptr, len(b.gpus))
	bigs := make([]driver.Ptr, len(b.gpus))
	host := make([]uint32, b.Elems)
	for gi, g := range b.gpus {
		b.d.SelectGPU(b.ctx, g)
		bufs[gi] = b.d.AllocateMemory(b.ctx, uint64(4*b.Elems))
		for i := range host {
			host[i] = uint32(gi)<<28 | uint32(i)*2654435761
		}
		b.d.MemCopyH2D(b.ctx, bufs[gi], host)
		if b.BigElems > 0 {
			bigs[gi] = b.d.AllocateMemory(b.ctx, uint64(4*b.BigElems))
			bh := make([]uint32, b.BigElems)
			for i := range bh {
				bh[i] = uint32(i)*40503 + uint32(gi)
			}
			b.d.MemCopyH2D(b.ctx, bigs[gi], bh)
		}
	}
	x := uint32(b.Seed)*2654435761 + 12345
	for k := 0; k < b.Kernels; k++ {
		x = x*1664525 + 1013904223
		gi := k % len(b.gpus)
		b.d.SelectGPU(b.ctx, b.gpus[gi])
		buf, n := bufs[gi], b.Elems
		if b.BigElems > 0 && k%6 == 5 {
			buf, n = bigs[gi], b.BigElems
		}
		args := kern.ElemArgs{Buf: buf, C: (x >> 8) | 1}
		b.d.LaunchKernel(b.ctx, cos[(x>>4)%3], [3]uint32{uint32(n), 1, 1}, [3]uint16{64, 1, 1}, &args)
		if k%8 == 7 {
			b.d.MemCopyD2H(b.ctx, host, bufs[gi])
		}
	}
	if len(b.gpus) >= 2 && b.Concurrent > 0 {
		// one queue per GPU, each with code objects of its own (a code object
		// shared by two queues of one context is the open C12 finding)
		qs := make([]*driver.CommandQueue, len(b.gpus))
		qcos := make([][3]*insts.KernelCodeObject, len(b.gpus))
		for gi, g := range b.gpus {
			b.d.SelectGPU(b.ctx, g)
			qs[gi] = b.d.CreateCommandQueue(b.ctx)
			qcos[gi] = newCOs()
		}
		// rounds as in kmeans: every queue gets a copy and a kernel, then all
		// queues are drained; the queues advance in lock step, so the driver has
		// to choose between them again and again
		for r := 0; r < b.Concurrent; r++ {
			for gi := range b.gpus {
				x = x*1664525 + 1013904223
				src := make([]uint32, b.Elems) // owned by the command from now on
				for i := range src {
					src[i] = x + uint32(i)*uint32(gi+3)
				}
				b.d.EnqueueMemCopyH2D(qs[gi], bufs[gi], src)
				args := kern.ElemArgs{Buf: bufs[gi], C: (x >> 8) | 1}
				b.d.EnqueueLaunchKernel(qs[gi], qcos[gi][(x>>4)%3], [3]uint32{uint32(b.Elems), 1, 1}, [3]uint16{64, 1, 1}, &args)
			}
			for _, q := range qs {
				b.d.DrainCommandQueue(q)
			}
		}
		for gi := range b.gpus {
			b.d.MemCopyD2H(b.ctx, host, bufs[gi])
		}
	}
}

// ---------------------------------------------------------------------------
// copyHandoff: blocking copies whose command completes on an L2 flush reply.
// A copy kernel on GPU j leaves much dirty data in GPU j's L2; then a small
// buffer living on another GPU i is read back (and, after another kernel,
// written). Every GPU is asked to flush; GPU i returns the small data quickly,
// GPU j's flush reply is the last reply of the command. The application looks
// at its destination buffer immediately when the blocking call returns and
// again after a quiescent point; after a blocking H2D it reuses (overwrites)
// its source buffer at once, as any application may.

type copyHandoff struct {
	d           *driver.Driver
	env         *childEnv
	ctx         *driver.Context
	gpus        []int
	Rounds      int
	KernelBytes int
	H2DEvery    int // the H2D-after-kernel phase runs in rounds H2DEvery-1, 2*H2DEvery-1, ...
	Seed        int
}

func (b *copyHandoff) SelectGPU(g []int) { b.gpus = g }
func (b *copyHandoff) SetUnifiedMemory() {}
func (b *copyHandoff) Verify()           {}

func shaHex(b []byte) string {
	s := sha256.Sum256(b)
	return hex.EncodeToString(s[:])
}

func (b *copyHandoff) pattern(n int, salt uint32) []byte {
	out := make([]byte, n)
	x := uint32(b.Seed)*2654435761 + salt*40503 + 1
	for i := range out {
		x = x*1664525 + 1013904223
		out[i] = byte(x>>24) | 1 // never zero: an unwritten destination is recognisable
	}
	return out
}

// lineKernel is kern.ElemKernel(OpAdd) with the address shift changed from 2 to
// 6: work-item g adds c to the first dword of the g-th 64-byte line, so every
// work-item leaves one dirty cache line behind (many dirty L2 lines for little
// simulated work).
func lineKernel() *insts.KernelCodeObject {
	co := kern.ElemKernel(kern.OpAdd)
	data := append([]byte(nil), co.Data...)
	found := 0
	for k := 0; k+4 <= len(data); k += 4 {
		if binary.LittleEndian.Uint32(data[k:]) == 0x24000082 { // v_lshlrev_b32 v0, 2, v0
			binary.LittleEndian.PutUint32(data[k:], 0x24000086) // v_lshlrev_b32 v0, 6, v0
			found++
		}
	}
	if found != 1 {
		panic("lineKernel: shift instruction not found exactly once in kern.ElemKernel")
	}
	co.Data = data
	return co
}

func (b *copyHandoff) Run() {
	d := b.d
	b.ctx = d.Init()
	nPhys := d.GetNumGPUs()
	bigs := map[int]driver.Ptr{}
	cos := map[int]*insts.KernelCodeObject{}
	lines := b.KernelBytes / 64 / 64 * 64 // one work-item per line, whole work-groups
	sizes := []int{1024, 64, 256, 4096, 128, 512}
	for r := 0; r < b.Rounds; r++ {
		// kd: the device the kernel is launched on (a selected plain GPU, or the
		// unified device); jm: the physical GPU whose memory (and therefore L2)
		// the kernel dirties; i: the physical GPU the small buffer lives on
		kd := b.gpus[(r+1)%len(b.gpus)]
		jm := kd
		if kd > nPhys {
			jm = 1 + (r+1)%nPhys
		}
		i := 1 + r%nPhys
		if i == jm {
			i = 1 + (r+1)%nPhys
		}
		size := sizes[(r+b.Seed)%len(sizes)]
		if _, ok := bigs[jm]; !ok {
			d.SelectGPU(b.ctx, jm)
			bigs[jm] = d.AllocateMemory(b.ctx, uint64(lines*64)) // not initialised: fresh device memory reads as zero
		}
		if _, ok := cos[kd]; !ok {
			cos[kd] = lineKernel()
		}
		dirty := func(c uint32) {
			d.SelectGPU(b.ctx, kd)
			args := kern.ElemArgs{Buf: bigs[jm], C: c}
			d.LaunchKernel(b.ctx, cos[kd], [3]uint32{uint32(lines), 1, 1}, [3]uint16{64, 1, 1}, &args)
		}
		d.SelectGPU(b.ctx, i)
		small := d.AllocateMemory(b.ctx, uint64(size))
		a := b.pattern(size, uint32(2*r))
		d.MemCopyH2D(b.ctx, small, a)

		// kernel dirtying GPU jm's L2, then read the small buffer on GPU i back
		dirty(uint32(2*r + 1))
		d.SelectGPU(b.ctx, i)
		b.observedD2H(r, "d2h-after-kernel", i, jm, small, a)

		if r%b.H2DEvery != b.H2DEvery-1 {
			continue
		}
		// kernel again, then overwrite the small buffer on GPU i; the source is
		// reused right after the blocking call returned
		dirty(uint32(2*r + 2))
		d.SelectGPU(b.ctx, i)
		a2 := b.pattern(size, uint32(2*r+1))
		src := append([]byte(nil), a2...)
		d.MemCopyH2D(b.ctx, small, src)
		_, last := b.env.tracer.last()
		for k := range src {
			src[k] = 0
		}
		b.env.res.Copies = append(b.env.res.Copies, copyRec{Round: r, Op: "h2d-after-kernel", GPU: i, KernelGPU: jm, Size: size, CompletedOn: last})
		b.observedD2H(r, "d2h-check", i, jm, small, a2)
	}
	// the large scratch buffers are released; the read-back of live buffers
	// after the program covers the small ones
	for _, ptr := range bigs {
		_ = d.FreeMemory(b.ctx, ptr)
	}
}

// observedD2H: blocking D2H; the destination is copied immediately when the
// call returns, and hashed again after a quiescent point.
func (b *copyHandoff) observedD2H(round int, op string, gpu, kernelGPU int, ptr driver.Ptr, expected []byte) {
	host := make([]byte, len(expected))
	b.d.MemCopyD2H(b.ctx, host, ptr)
	imm := append([]byte(nil), host...) // the application reads its buffer as soon as the call has returned
	_, last := b.env.tracer.last()
	b.env.settle()
	b.env.res.Copies = append(b.env.res.Copies, copyRec{Round: round, Op: op, GPU: gpu, KernelGPU: kernelGPU, Size: len(expected), CompletedOn: last,
		Immediate: shaHex(imm), Settled: shaHex(host), Expected: shaHex(expected)})
}

// ---------------------------------------------------------------------------

func p(c caseDesc, name string, def int) int {
	if v, ok := c.Params[name]; ok {
		return v
	}
	return def
}

func makeWorkload(c caseDesc, rn *runner.Runner, env *childEnv) benchmarks.Benchmark {
	d := rn.Driver()
	at := rn.ArchType
	_ = arch.GCN3
	switch c.Workload {
	case "copyhandoff":
		return &copyHandoff{d: d, env: env, Rounds: p(c, "rounds", 3), KernelBytes: p(c, "kernel_bytes", 458752), H2DEvery: max(1, p(c, "h2d_every", 2)), Seed: p(c, "seed", 1)}
	case "copyloop":
		return &copyLoop{d: d, N: p(c, "n", 200), Bytes: p(c, "bytes", 4096)}
	case "emptykernel":
		return &emptyKernel{d: d, WfPerWG: p(c, "wf_per_wg", 1), NumWG: p(c, "num_wg", 1), Launches: p(c, "launches", 1)}
	case "memcopy":
		return &memCopy{d: d, ctx: d.Init(), ByteSize: uint64(p(c, "bytes", 1048576))}
	case "tinykernels":
		return &tinyKernels{d: d, Kernels: p(c, "kernels", 40), Elems: p(c, "elems", 256), BigElems: p(c, "big_elems", 0),
			Concurrent: p(c, "concurrent", 0), Seed: p(c, "seed", 1)}
	case "kmeans":
		b := kmeans.NewBenchmark(d)
		b.Arch = at
		b.NumPoints, b.NumClusters, b.NumFeatures, b.MaxIter = p(c, "points", 256), p(c, "clusters", 5), p(c, "features", 16), p(c, "max_iter", 3)
		return b
	case "pagerank":
		b := pagerank.NewBenchmark(d)
		b.Arch = at
		n := p(c, "node", 64)
		b.NumNodes = uint32(n)
		b.NumConnections = uint32(p(c, "connections", n*n/2))
		b.MaxIterations = uint32(p(c, "iterations", 3))
		return b
	case "fft":
		b := fft.NewBenchmark(d)
		b.Arch = at
		if v := p(c, "bytes", 0); v > 0 {
			b.Bytes, b.BytesMode = int64(v), true
		} else {
			b.Bytes = int64(p(c, "mb", 1))
		}
		b.Passes = int32(p(c, "passes", 2))
		return b
	case "stencil2d":
		b := stencil2d.NewBenchmark(d)
		b.Arch = at
		b.NumIteration = p(c, "iter", 3)
		b.NumRows = p(c, "row", 64) + 2
		b.NumCols = p(c, "col", 64) + 2
		return b
	case "nw":
		b := nw.NewBenchmark(d)
		b.Arch = at
		b.SetLength(p(c, "length", 64))
		return b
	case "fir":
		b := fir.NewBenchmark(d)
		b.Arch = at
		b.Length = p(c, "length", 2048)
		b.NumTapsParam = p(c, "taps", 16)
		return b
	case "aes":
		b := aes.NewBenchmark(d)
		b.Arch = at
		b.Length = p(c, "length", 4096)
		return b
	case "atax":
		b := atax.NewBenchmark(d)
		b.Arch = at
		b.NX, b.NY = p(c, "x", 64), p(c, "y", 64)
		return b
	case "bicg":
		b := bicg.NewBenchmark(d)
		b.Arch = at
		b.NX, b.NY = p(c, "x", 64), p(c, "y", 64)
		return b
	case "matrixtranspose":
		b := matrixtranspose.NewBenchmark(d)
		b.Arch = at
		b.Width = p(c, "width", 64)
		return b
	case "matrixmultiplication":
		b := matrixmultiplication.NewBenchmark(d)
		b.Arch = at
		b.X, b.Y, b.Z = uint32(p(c, "x", 32)), uint32(p(c, "y", 32)), uint32(p(c, "z", 32))
		return b
	case "relu":
		b := relu.NewBenchmark(d)
		b.Arch = at
		b.Length = p(c, "length", 4096)
		return b
	case "floydwarshall":
		b := floydwarshall.NewBenchmark(d)
		b.Arch = at
		b.NumNodes = uint32(p(c, "node", 16))
		b.NumIterations = uint32(p(c, "iter", 0))
		return b
	case "simpleconvolution":
		b := simpleconvolution.NewBenchmark(d)
		b.Arch = at
		b.Width, b.Height = uint32(p(c, "width", 62)), uint32(p(c, "height", 62))
		b.SetMaskSize(uint32(p(c, "mask", 3)))
		return b
	case "spmv":
		b := spmv.NewBenchmark(d)
		b.Arch = at
		b.Dim = int32(p(c, "dim", 128))
		b.Sparsity = float64(p(c, "sparsity_permille", 10)) / 1000
		return b
	case "fastwalshtransform":
		b := fastwalshtransform.NewBenchmark(d)
		b.Arch = at
		b.Length = uint32(p(c, "length", 1024))
		return b
	case "nbody":
		b := nbody.NewBenchmark(d)
		b.Arch = at
		b.NumIterations = int32(p(c, "iter", 2))
		b.NumParticles = int32(p(c, "particles", 256))
		return b
	case "bitonicsort": // known to fail verification in gcn3 timing; results are only compared between runs
		b := bitonicsort.NewBenchmark(d)
		b.Arch = at
		b.Length = p(c, "length", 256)
		b.OrderAscending = true
		return b
	case "vectoradd": // gfx942 code object: cdna3 / mi300a only
		b := vectoradd.NewBenchmark(d)
		b.Width, b.Height = uint32(p(c, "width", 4096)), uint32(p(c, "height", 1))
		return b
	}
	panic(fmt.Sprintf("unknown workload %q", c.Workload))
}
