package main

import (
	"bytes"
	"fmt"

	"github.com/sarchlab/akita/v4/mem/mem"
	"github.com/sarchlab/akita/v4/mem/vm"
	"github.com/sarchlab/akita/v4/sim"

	"verifharness/vlib/simkit"
)

func buildReq(o op, src, dst sim.RemotePort) sim.Msg {
	if o.Write {
		wb := mem.WriteReqBuilder{}.WithSrc(src).WithDst(dst).WithPID(vm.PID(o.PID)).
			WithAddress(o.Addr).WithData(append([]byte(nil), o.Data...))
		if o.Mask != nil {
			wb = wb.WithDirtyMask(append([]bool(nil), o.Mask...))
		}
		return wb.Build()
	}
	return mem.ReadReqBuilder{}.WithSrc(src).WithDst(dst).WithPID(vm.PID(o.PID)).
		WithAddress(o.Addr).WithByteSize(uint64(o.Size)).Build()
}

type violation struct {
	key, what string
	extra     map[string]any
}

type stats struct {
	viol    *violation
	harness string

	accepted, responded, reads, writes, masked, forwards, bigOffset int64
	lookups, coalesced, hazard, trOOO, memOOO                       int64
	flushes, flushesInflight, discarded, dropped                    int64
	servedAfterRestart, stale                                       int64

	// accesses whose span [addr, addr+size) runs past the end of their page
	strReads, strWrites, strMasked, strReadRsp, lenCompared int64
	strShapes                                               map[string]bool
}

type treq struct {
	op        int
	id        string
	msg       mem.AccessReq
	vpage     uint64
	offset    uint64
	wantAddr  uint64 // page.PAddr + offset for the page of its own (PID, virtual page)
	over      uint64 // bytes of the access that lie beyond the end of its page (0 = inside the page)
	recvSeq   int
	accSeq    int
	dropSeq   int
	discarded bool
	epoch     int
	fwd       *fwd
	rspSeq    int
	delivered int
}

type fwd struct {
	seq    int
	msg    mem.AccessReq
	t      *treq
	rspSeq int
	rsp    sim.Msg
}

type lookup struct {
	id      string
	pid     vm.PID
	vpage   uint64
	replied bool
	dead    bool // sent before a flush
}

func maskEq(a, b []bool) bool {
	if len(a) == 0 && len(b) == 0 {
		return true
	}
	if len(a) != len(b) {
		return false
	}
	for i := range a {
		if a[i] != b[i] {
			return false
		}
	}
	return true
}

// diffPayload names the first field other than the address in which the
// forwarded request differs from the original ("" = kind, size, data and mask
// are unchanged).
func diffPayload(orig, copy mem.AccessReq) string {
	switch o := orig.(type) {
	case *mem.ReadReq:
		c, ok := copy.(*mem.ReadReq)
		if !ok {
			return "kind"
		}
		if c.AccessByteSize != o.AccessByteSize {
			return "size"
		}
	case *mem.WriteReq:
		c, ok := copy.(*mem.WriteReq)
		if !ok {
			return "kind"
		}
		switch {
		case len(c.Data) != len(o.Data):
			return "size"
		case !bytes.Equal(c.Data, o.Data):
			return "data"
		case !maskEq(c.DirtyMask, o.DirtyMask):
			return "mask"
		}
	}
	return ""
}

func describe(m mem.AccessReq) string {
	switch q := m.(type) {
	case *mem.ReadReq:
		return fmt.Sprintf("read pid=%d addr=0x%x size=%d", q.PID, q.Address, q.AccessByteSize)
	case *mem.WriteReq:
		return fmt.Sprintf("write pid=%d addr=0x%x size=%d masked=%v", q.PID, q.Address, len(q.Data), q.DirtyMask != nil)
	}
	return fmt.Sprintf("%T", m)
}

func check(s scenario, out *runOut) (st stats) {
	fail := func(key, what string, extra map[string]any) stats {
		st.viol = &violation{key: key, what: what, extra: extra}
		return st
	}
	c := s.Cfg
	pageSize := uint64(1) << c.Log2PageSize
	type pk struct {
		pid   uint32
		vpage uint64
	}
	table := map[pk]uint64{}
	for _, p := range s.Pages {
		table[pk{p.PID, p.VPage}] = p.PAddr
	}
	byID := map[string]*treq{}
	byWant := map[uint64]*treq{}
	all := make([]*treq, len(s.Ops))
	for i, id := range out.idOfOp {
		o := s.Ops[i]
		t := &treq{op: i, id: id, recvSeq: -1, accSeq: -1, dropSeq: -1, rspSeq: -1}
		t.vpage = o.Addr &^ (pageSize - 1)
		t.offset = o.Addr & (pageSize - 1)
		pa, ok := table[pk{o.PID, t.vpage}]
		if !ok {
			st.harness = fmt.Sprintf("op %d accesses an unmapped page", i)
			return st
		}
		t.wantAddr = pa + t.offset
		if end := t.offset + uint64(o.Size); end > pageSize {
			t.over = end - pageSize
		}
		if byWant[t.wantAddr] != nil {
			st.harness = "two ops share an expected physical address"
			return st
		}
		byWant[t.wantAddr] = t
		byID[id] = t
		all[i] = t
	}
	if len(out.unmapped) > 0 {
		return fail("C16|lookup-for-unmapped-page",
			"the translator asked the translation service for a (PID, page) that no injected request touches: "+out.unmapped[0], map[string]any{"lookups": out.unmapped})
	}
	fwdByID := map[string]*fwd{}
	lookupByID := map[string]*lookup{}
	var lookups []*lookup
	var fwds []*fwd
	inflight := map[*treq]bool{} // accepted, not answered, not discarded
	var waiting []*treq
	flushing := false
	epoch := 0
	acks := 0
	prevWasLookup := false

	for _, e := range out.events {
		wasLookup := false
		switch e.Port {
		case "Top":
			switch e.Kind {
			case simkit.KRecv:
				t := byID[e.Msg.Meta().ID]
				if t == nil {
					st.harness = "unknown message arrived at the Top port"
					return st
				}
				t.recvSeq = e.Seq
				t.msg = e.Msg.(mem.AccessReq)
				waiting = append(waiting, t)
			case simkit.KRetrieve:
				t := byID[e.Msg.Meta().ID]
				if t == nil || len(waiting) == 0 || waiting[0] != t {
					st.harness = "Top port retrieve does not match the port FIFO"
					return st
				}
				waiting = waiting[1:]
				if flushing {
					t.dropSeq = e.Seq
					st.dropped++
					break
				}
				t.accSeq = e.Seq
				t.epoch = epoch
				st.accepted++
				if epoch > 0 {
					st.servedAfterRestart++
				}
				if !prevWasLookup {
					st.coalesced++
				}
				for q := range inflight {
					if q.fwd == nil && q.vpage == t.vpage && q.msg.GetPID() != t.msg.GetPID() {
						st.hazard++
						break
					}
				}
				inflight[t] = true
			case simkit.KSend:
				rsp, ok := e.Msg.(mem.AccessRsp)
				if !ok {
					return fail("C16|top-port-sends-non-response", fmt.Sprintf("Top port sent a %T", e.Msg), map[string]any{"cycle": e.Cycle})
				}
				to := rsp.GetRspTo()
				t := byID[to]
				if t == nil {
					if f := fwdByID[to]; f != nil && f.t != nil {
						return fail("C16|respondto-is-forwarded-request-id",
							fmt.Sprintf("response at the Top port answers id %s, which is the id of the request forwarded for op %d, not the requester's id %s", to, f.t.op, f.t.id),
							map[string]any{"op": f.t.op, "cycle": e.Cycle})
					}
					return fail("C16|respondto-unknown", fmt.Sprintf("response at the Top port answers unknown id %s", to), map[string]any{"cycle": e.Cycle})
				}
				x := map[string]any{"op": t.op, "cycle": e.Cycle}
				switch {
				case t.rspSeq >= 0:
					return fail("C16|duplicate-response", fmt.Sprintf("op %d answered a second time", t.op), x)
				case t.discarded:
					return fail("C16|response-for-discarded-request",
						fmt.Sprintf("op %d was in flight when DiscardTransactions was processed, yet a response for it is sent afterwards", t.op), x)
				case t.dropSeq >= 0:
					return fail("C16|response-for-request-dropped-at-restart",
						fmt.Sprintf("op %d was taken from the Top port between DiscardTransactions and Restart (dropped), yet it is answered", t.op), x)
				case t.accSeq < 0:
					return fail("C16|response-before-acceptance", fmt.Sprintf("op %d answered before it was taken from the Top port", t.op), x)
				}
				t.rspSeq = e.Seq
				delete(inflight, t)
				st.responded++
				if t.fwd == nil {
					return fail("C16|response-without-forwarded-request", fmt.Sprintf("op %d answered although it was never forwarded to memory", t.op), x)
				}
				if t.fwd.rspSeq < 0 {
					return fail("C16|response-before-memory-answer", fmt.Sprintf("op %d answered before memory answered its forwarded request", t.op), x)
				}
				if rsp.Meta().Dst != t.msg.Meta().Src {
					return fail("C16|wrong-destination", fmt.Sprintf("response for op %d addressed to %s, requester is %s", t.op, rsp.Meta().Dst, t.msg.Meta().Src), x)
				}
				switch q := t.msg.(type) {
				case *mem.ReadReq:
					st.reads++
					dr, ok := rsp.(*mem.DataReadyRsp)
					if !ok {
						return fail("C16|wrong-response-type", fmt.Sprintf("read op %d answered by %T", t.op, rsp), x)
					}
					mr, ok := t.fwd.rsp.(*mem.DataReadyRsp)
					if !ok {
						st.harness = "fake memory answered a read with something else than data"
						return st
					}
					want := mr.Data
					// the whole requested size comes back: as many bytes as the requester asked for, which is
					// what the fake memory returns for a faithfully forwarded request
					st.lenCompared++
					if uint64(len(dr.Data)) != q.AccessByteSize {
						x["got_bytes"], x["requested_bytes"], x["memory_returned_bytes"] = len(dr.Data), q.AccessByteSize, len(want)
						x["bytes_beyond_page_end"] = t.over
						return fail("C16|response-data-length-differs",
							fmt.Sprintf("read op %d asked for %d bytes at v0x%x (%d of them beyond the end of its page), the response carries %d bytes (memory returned %d for the forwarded request)",
								t.op, q.AccessByteSize, q.Address, t.over, len(dr.Data), len(want)), x)
					}
					if t.over > 0 {
						st.strReadRsp++
					}
					if !bytes.Equal(dr.Data, want) {
						x["got"], x["want"] = dr.Data, want
						return fail("C16|wrong-payload",
							fmt.Sprintf("read op %d (%d bytes at v0x%x) answered with data that is not what memory returned for its forwarded request", t.op, q.AccessByteSize, q.Address), x)
					}
				case *mem.WriteReq:
					st.writes++
					if q.DirtyMask != nil {
						st.masked++
					}
					if _, ok := rsp.(*mem.WriteDoneRsp); !ok {
						return fail("C16|wrong-response-type", fmt.Sprintf("write op %d answered by %T", t.op, rsp), x)
					}
				}
			}
		case "Translation":
			switch e.Kind {
			case simkit.KSend:
				q, ok := e.Msg.(*vm.TranslationReq)
				if !ok {
					return fail("C16|translation-port-sends-non-lookup", fmt.Sprintf("Translation port sent a %T", e.Msg), map[string]any{"cycle": e.Cycle})
				}
				l := &lookup{id: q.ID, pid: q.PID, vpage: q.VAddr &^ (pageSize - 1)}
				lookupByID[q.ID] = l
				lookups = append(lookups, l)
				st.lookups++
				wasLookup = true
				if q.DeviceID != c.DeviceID {
					return fail("C16|lookup-wrong-device-id", fmt.Sprintf("lookup carries device id %d, translator was built with %d", q.DeviceID, c.DeviceID), map[string]any{"cycle": e.Cycle})
				}
			case simkit.KRecv:
				r, ok := e.Msg.(*vm.TranslationRsp)
				if !ok {
					st.harness = "non-reply delivered to the Translation port"
					return st
				}
				l := lookupByID[r.RespondTo]
				if l == nil || l.replied {
					st.harness = "fake translation service answered a lookup the translator never sent, or answered twice"
					return st
				}
				l.replied = true
				if l.dead {
					st.stale++
					break
				}
				for _, o := range lookups {
					if o == l {
						break
					}
					if !o.replied && !o.dead {
						st.trOOO++
						break
					}
				}
			}
		case "Bottom":
			switch e.Kind {
			case simkit.KSend:
				req, ok := e.Msg.(mem.AccessReq)
				if !ok {
					return fail("C16|bottom-port-sends-non-request", fmt.Sprintf("Bottom port sent a %T", e.Msg), map[string]any{"cycle": e.Cycle})
				}
				f := &fwd{seq: e.Seq, msg: req, rspSeq: -1}
				fwdByID[req.Meta().ID] = f
				fwds = append(fwds, f)
				addr := req.GetAddress()
				t := byWant[addr]
				if t == nil {
					x := map[string]any{"cycle": e.Cycle, "forwarded_addr": addr}
					// which accepted, not yet forwarded request could this be?
					for _, q := range all {
						if q.accSeq < 0 || q.fwd != nil || q.discarded {
							continue
						}
						own := q.wantAddr - q.offset
						if addr == own {
							x["op"] = q.op
							return fail("C16|forwarded-address-lost-page-offset",
								fmt.Sprintf("forwarded address 0x%x is the page base of op %d without its offset 0x%x", addr, q.op, q.offset), x)
						}
						if addr&^(pageSize-1) == own && addr&(pageSize-1) != q.offset && (addr&(pageSize-1))&0xfff == q.offset&0xfff {
							x["op"] = q.op
							return fail("C16|forwarded-address-offset-truncated",
								fmt.Sprintf("forwarded address 0x%x lies in op %d's physical page but with offset 0x%x instead of 0x%x", addr, q.op, addr&(pageSize-1), q.offset), x)
						}
						for _, p := range s.Pages {
							if p.VPage == q.vpage && p.PID != uint32(q.msg.GetPID()) && addr == p.PAddr+q.offset {
								x["op"], x["page_of_pid"] = q.op, p.PID
								return fail("C16|forwarded-address-from-other-process-page",
									fmt.Sprintf("op %d (PID %d, v0x%x) forwarded to 0x%x, which is PID %d's mapping of that virtual page", q.op, q.msg.GetPID(), q.msg.GetAddress(), addr, p.PID), x)
							}
						}
					}
					return fail("C16|forwarded-address-matches-no-request",
						fmt.Sprintf("forwarded address 0x%x is not page.PAddr+offset of any injected request", addr), x)
				}
				x := map[string]any{"op": t.op, "cycle": e.Cycle}
				switch {
				case t.fwd != nil:
					// is a request of another process to the same virtual address still waiting? (then it probably rode on this request's translation)
					for _, q := range all {
						if q != t && q.accSeq >= 0 && q.fwd == nil && !q.discarded && q.msg.GetAddress() == t.msg.GetAddress() && q.msg.GetPID() != t.msg.GetPID() {
							x["starved_op"] = q.op
							return fail("C16|forwarded-twice|same-vaddr-other-pid-request-starved",
								fmt.Sprintf("physical address 0x%x of op %d (PID %d) forwarded a second time while op %d (PID %d, same virtual address) is still unforwarded", addr, t.op, t.msg.GetPID(), q.op, q.msg.GetPID()), x)
						}
					}
					return fail("C16|forwarded-twice", fmt.Sprintf("op %d forwarded to memory twice", t.op), x)
				case t.accSeq < 0:
					return fail("C16|forwarded-before-acceptance", fmt.Sprintf("op %d forwarded before it was taken from the Top port", t.op), x)
				case t.discarded:
					return fail("C16|forwarded-for-discarded-request", fmt.Sprintf("op %d was discarded by a flush, yet it is forwarded to memory afterwards", t.op), x)
				}
				if d := diffPayload(t.msg, req); d != "" {
					x["original"], x["forwarded"] = describe(t.msg), describe(req)
					x["bytes_beyond_page_end"] = t.over
					return fail("C16|forwarded-request-differs|"+d,
						fmt.Sprintf("forwarded request of op %d (%s, %d of its bytes lie beyond the end of its %d-byte page) differs from the original in %s: forwarded %s",
							t.op, describe(t.msg), t.over, pageSize, d, describe(req)), x)
				}
				if t.over > 0 {
					size := uint64(s.Ops[t.op].Size)
					switch q := t.msg.(type) {
					case *mem.ReadReq:
						st.strReads++
					case *mem.WriteReq:
						st.strWrites++
						if q.DirtyMask != nil {
							st.strMasked++
						}
					}
					if st.strShapes == nil {
						st.strShapes = map[string]bool{}
					}
					st.strShapes[fmt.Sprintf("p=%d,size=%d,over=%d", c.Log2PageSize, size, t.over)] = true
				}
				t.fwd = f
				f.t = t
				st.forwards++
				if t.offset >= 4096 {
					st.bigOffset++
				}
			case simkit.KRecv:
				rsp, ok := e.Msg.(mem.AccessRsp)
				if !ok {
					st.harness = "non-response delivered to the Bottom port"
					return st
				}
				f := fwdByID[rsp.GetRspTo()]
				if f == nil || f.rspSeq >= 0 {
					st.harness = "fake memory answered a request the translator never sent, or answered twice"
					return st
				}
				f.rspSeq = e.Seq
				f.rsp = rsp
				if f.t == nil || f.t.discarded {
					st.stale++
					break
				}
				for _, o := range fwds {
					if o == f {
						break
					}
					if o.rspSeq < 0 && o.t != nil && !o.t.discarded {
						st.memOOO++
						break
					}
				}
			}
		case "Control":
			switch e.Kind {
			case simkit.KRetrieve:
				cm, ok := e.Msg.(*mem.ControlMsg)
				if !ok {
					st.harness = "non-control message on the Control port"
					return st
				}
				switch {
				case cm.DiscardTransations:
					st.flushes++
					if len(inflight) > 0 {
						st.flushesInflight++
					}
					for q := range inflight {
						q.discarded = true
						st.discarded++
					}
					inflight = map[*treq]bool{}
					for _, l := range lookups {
						l.dead = true
					}
					flushing = true
				case cm.Restart:
					if !flushing {
						st.harness = "Restart without preceding DiscardTransactions"
						return st
					}
					flushing = false
					epoch++
				}
			case simkit.KSend:
				cm, ok := e.Msg.(*mem.ControlMsg)
				if !ok || !cm.NotifyDone || cm.Meta().Dst != out.ctl.Port.AsRemote() {
					return fail("C16|bad-control-acknowledgement", fmt.Sprintf("Control port sent %T %+v", e.Msg, e.Msg), map[string]any{"cycle": e.Cycle})
				}
				acks++
			}
		}
		prevWasLookup = wasLookup
	}

	// ---- quiescence
	if !out.ctl.Done() || acks != 2*len(s.Flushes) || out.ctl.Unexpected > 0 {
		return fail("C16|stuck|control-handshake-incomplete",
			fmt.Sprintf("engine idle but only %d of %d control acknowledgements were sent", acks, 2*len(s.Flushes)), map[string]any{"records": out.ctl.Records})
	}
	for i, rq := range out.reqs {
		if !rq.Done() {
			return fail("C16|stuck|top-port-never-drained",
				fmt.Sprintf("engine idle, requester %d could send only %d of %d requests", i, rq.Sent(), len(rq.Plan)), nil)
		}
	}
	for _, t := range all {
		if t.recvSeq < 0 || (t.accSeq < 0 && t.dropSeq < 0) {
			return fail("C16|stuck|request-at-top-port", fmt.Sprintf("engine idle, op %d was never taken from the Top port", t.op), map[string]any{"op": t.op})
		}
	}
	for _, t := range all { // deterministic order
		if !inflight[t] {
			continue
		}
		x := map[string]any{"op": t.op, "unanswered": len(inflight), "accepted_after_restarts": t.epoch}
		switch {
		case t.fwd == nil:
			replied := false
			for _, l := range lookups {
				if !l.dead && l.replied && l.pid == t.msg.GetPID() && l.vpage == t.vpage {
					replied = true
				}
			}
			x["translation_reply_seen_for_its_page"] = replied
			return fail("C16|stuck|accepted-request-never-forwarded",
				fmt.Sprintf("engine idle, op %d (PID %d, v0x%x) accepted but never forwarded to memory", t.op, t.msg.GetPID(), t.msg.GetAddress()), x)
		case t.fwd.rspSeq >= 0:
			return fail("C16|stuck|memory-answer-never-returned", fmt.Sprintf("engine idle, memory answered op %d's forwarded request but no response was sent to the requester", t.op), x)
		default:
			x["memory_pending"] = out.memory.Pending()
			return fail("C16|stuck|memory-answer-never-taken", fmt.Sprintf("engine idle, op %d forwarded but its memory answer never reached the translator", t.op), x)
		}
	}
	if out.memory.Pending() > 0 || out.memory.Port.PeekIncoming() != nil {
		return fail("C16|stuck|bottom-port-not-drained", "engine idle while memory still holds answers it cannot deliver", nil)
	}
	if out.tr.Pending() > 0 || out.tr.Port.PeekIncoming() != nil {
		return fail("C16|stuck|translation-port-not-drained", "engine idle while the translation service still holds replies it cannot deliver", nil)
	}
	for i, rq := range out.reqs {
		for _, g := range rq.Got {
			r, ok := g.Msg.(sim.Rsp)
			if !ok {
				return fail("C16|requester-received-non-response", fmt.Sprintf("requester %d received a %T", i, g.Msg), nil)
			}
			t := byID[r.GetRspTo()]
			if t == nil || s.Ops[t.op].Who != i {
				return fail("C16|wrong-destination", fmt.Sprintf("requester %d received a response (to %s) that is not for one of its requests", i, r.GetRspTo()), nil)
			}
			t.delivered++
		}
	}
	for _, t := range all {
		want := 0
		if t.rspSeq >= 0 {
			want = 1
		}
		if t.delivered != want {
			return fail(fmt.Sprintf("C16|responses-delivered=%d-sent=%d", t.delivered, want),
				fmt.Sprintf("op %d: %d responses delivered to its requester, %d sent at the Top port", t.op, t.delivered, want), map[string]any{"op": t.op})
		}
	}
	return st
}
