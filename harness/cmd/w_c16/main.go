// w_c16: the real address translator (amd/timing/mem/addresstranslator, public
// Builder) between fake requesters, a fake translation service that owns the
// page table and a fake memory; both lower-level peers delay, reorder and
// back-pressure. An offline checker over the events recorded at the
// translator's Top, Bottom, Translation and Control ports decides C16
// (DESIGN.md, C16).
package main

import (
	"encoding/json"
	"fmt"
	"os"
	"sort"

	"github.com/sarchlab/akita/v4/mem/mem"
	"github.com/sarchlab/akita/v4/mem/vm"
	"github.com/sarchlab/akita/v4/sim"
	"github.com/sarchlab/mgpusim/v4/amd/timing/mem/addresstranslator"

	"verifharness/vlib"
	"verifharness/vlib/memkit"
	"verifharness/vlib/simkit"
)

type config struct {
	NumReqPerCycle int           `json:"num_req_per_cycle"`
	Log2PageSize   uint64        `json:"log2_page_size"`
	DeviceID       uint64        `json:"device_id"`
	NReq           int           `json:"requesters"`
	ReqInBuf       int           `json:"requester_in_buf"`
	ReqOutBuf      int           `json:"requester_out_buf"`
	ReqStallPct    int           `json:"requester_stall_pct"`
	ReqMaxTake     int           `json:"requester_max_take"`
	Mem            memkit.Policy `json:"memory"`
	Tr             memkit.Policy `json:"translation_service"`
}

type page struct {
	PID   uint32 `json:"pid"`
	VPage uint64 `json:"vpage"`
	PAddr uint64 `json:"paddr"`
}

type op struct {
	Gap   int    `json:"gap"`
	Who   int    `json:"who"`
	Write bool   `json:"write"`
	PID   uint32 `json:"pid"`
	Addr  uint64 `json:"vaddr"`
	Size  int    `json:"size"`
	Data  []byte `json:"data,omitempty"`
	Mask  []bool `json:"mask,omitempty"`
}

type scenario struct {
	Name    string            `json:"name"`
	Cfg     config            `json:"cfg"`
	Pages   []page            `json:"pages"`
	Ops     []op              `json:"ops"`
	Flushes []memkit.CtrlStep `json:"flushes"`
}

func pick(r *vlib.PRNG, xs ...int) int { return xs[r.Intn(len(xs))] }

func genPolicy(r *vlib.PRNG, memory bool) memkit.Policy {
	p := memkit.Policy{
		Seed:         r.Uint64(),
		InBuf:        pick(r, 1, 1, 2, 4, 16),
		OutBuf:       pick(r, 1, 2, 4, 16),
		LatLo:        r.Intn(4),
		StragglerPct: pick(r, 0, 0, 10, 30),
		BigLo:        50,
		TakeStallPct: pick(r, 0, 0, 30),
		SendStallPct: pick(r, 0, 0, 30, 60),
		TakePerCycle: pick(r, 0, 0, 1, 2),
		SendPerCycle: pick(r, 0, 0, 1, 3),
		MaxPending:   pick(r, 0, 0, 0, 2, 8),
		Newest:       r.Chance(1, 4),
	}
	p.LatHi = p.LatLo + pick(r, 0, 5, 20, 60)
	p.BigHi = p.BigLo + pick(r, 50, 150)
	if memory && r.Chance(1, 2) {
		// a slow memory front end keeps the translator's Bottom port full
		p.InBuf = 1
		p.TakeStallPct = pick(r, 50, 70, 90)
		p.TakePerCycle = 1
	}
	return p
}

func genScenario(r *vlib.PRNG, idx int) scenario {
	c := config{
		NumReqPerCycle: pick(r, 1, 1, 2, 2, 3, 4, 4, 5, 6, 7, 8, 16, 32),
		Log2PageSize:   uint64(12 + r.Intn(5)),
		DeviceID:       uint64(1 + r.Intn(4)),
		NReq:           1 + r.Intn(2),
		ReqInBuf:       pick(r, 1, 2, 4, 16),
		ReqOutBuf:      pick(r, 1, 2, 4, 16),
		ReqStallPct:    pick(r, 0, 0, 30, 70),
		ReqMaxTake:     pick(r, 0, 0, 1, 2),
		Mem:            genPolicy(r, true),
		Tr:             genPolicy(r, false),
	}
	s := scenario{Name: fmt.Sprintf("s%d", idx), Cfg: c}
	pageSize := uint64(1) << c.Log2PageSize
	// accesses whose span runs past the end of their page come from a generator
	// of their own (Fork does not advance r), so the rest of the scenario is the
	// same with and without them
	rs := r.Fork("straddle")
	straddleDen := pick(rs, 0, 4, 6, 6, 10)
	nV, nPID := 1+r.Intn(5), 1+r.Intn(4)
	if r.Chance(1, 2) && nPID < 2 {
		nPID = 2
	}
	var vpages []uint64
	seenV := map[uint64]bool{}
	for len(vpages) < nV {
		v := (r.Uint64() >> 28) &^ (pageSize - 1)
		if r.Chance(1, 3) && len(vpages) > 0 { // neighbouring page
			v = vpages[len(vpages)-1] + pageSize
		}
		if !seenV[v] {
			seenV[v] = true
			vpages = append(vpages, v)
		}
	}
	seenP := map[uint64]bool{}
	for pid := 0; pid < nPID; pid++ {
		for _, v := range vpages {
			var pa uint64
			for {
				pa = uint64(1+r.Intn(1<<20)) << c.Log2PageSize
				if !seenP[pa] {
					seenP[pa] = true
					break
				}
			}
			s.Pages = append(s.Pages, page{PID: uint32(pid), VPage: v, PAddr: pa})
		}
	}
	// offsets reused across processes and pages: the same virtual address under
	// different PIDs is the coalescing hazard
	hotOff := make([]uint64, 4)
	for i := range hotOff {
		hotOff[i] = uint64(r.Intn(int(pageSize/64))) * 64
	}
	type key struct {
		pid  uint32
		addr uint64
	}
	used := map[key]bool{}
	n := 20 + r.Intn(130)
	curPID, curV := uint32(r.Intn(nPID)), vpages[r.Intn(nV)]
	span := 0
	for len(s.Ops) < n {
		switch r.Intn(10) {
		case 0, 1, 2: // same page, another process
			curPID = uint32(r.Intn(nPID))
		case 3, 4, 5: // same process, same page again
		case 6: // same process, another page
			curV = vpages[r.Intn(nV)]
		default:
			curPID, curV = uint32(r.Intn(nPID)), vpages[r.Intn(nV)]
		}
		burst := 1 + r.Intn(8)
		alternate := r.Chance(1, 4)
		gap := 0
		switch r.Intn(8) {
		case 0:
			gap = r.Intn(60)
		case 1, 2:
			gap = r.Intn(6)
		case 3:
			gap = 1
		}
		for b := 0; b < burst && len(s.Ops) < n; b++ {
			o := op{Gap: gap, Who: r.Intn(c.NReq), Write: r.Chance(9, 20)}
			gap = 0
			if r.Chance(1, 6) {
				gap = 1
			}
			span += o.Gap
			o.Size = pick(r, 1, 2, 4, 8, 16, 32, 64, 64, 1+r.Intn(64))
			o.PID = curPID
			if alternate {
				o.PID = uint32(r.Intn(nPID))
			}
			for try := 0; ; try++ {
				lineOff := hotOff[r.Intn(len(hotOff))] + uint64(r.Intn(3))*64
				if try > 3 || r.Chance(1, 3) {
					lineOff = uint64(r.Intn(int(pageSize/64))) * 64
				}
				lineOff %= pageSize
				intra := 0
				if o.Size < 64 {
					intra = r.Intn(64 - o.Size + 1)
				}
				o.Addr = curV + lineOff + uint64(intra)
				if !used[key{o.PID, o.Addr}] {
					used[key{o.PID, o.Addr}] = true
					break
				}
			}
			if straddleDen > 0 && o.Size >= 2 && rs.Chance(1, straddleDen) {
				// the last `over` bytes (1..size-1) lie beyond the end of the page
				for try := 0; try < 4; try++ {
					over := 1 + rs.Intn(o.Size-1)
					if rs.Chance(1, 4) {
						over = pick(rs, 1, o.Size-1)
					}
					a := curV + pageSize - uint64(o.Size-over)
					if !used[key{o.PID, a}] {
						used[key{o.PID, a}] = true
						o.Addr = a
						break
					}
				}
			}
			if o.Write {
				o.Data = make([]byte, o.Size)
				r.Bytes(o.Data)
				if r.Chance(2, 5) {
					o.Mask = make([]bool, o.Size)
					for j := range o.Mask {
						o.Mask[j] = r.Bool()
					}
				}
			}
			s.Ops = append(s.Ops, o)
		}
	}
	span += n + c.Mem.LatHi + c.Tr.LatHi
	nf := pick(r, 0, 0, 1, 1, 2, 3)
	for i := 0; i < nf; i++ {
		s.Flushes = append(s.Flushes, memkit.CtrlStep{At: int64(1 + r.Intn(span)), Gap: pick(r, 0, 1, 5, 30, r.Intn(100))})
	}
	sort.Slice(s.Flushes, func(i, j int) bool { return s.Flushes[i].At < s.Flushes[j].At })
	return s
}

// canonical scenarios do not depend on the seed.
func canonical() []scenario {
	rd := func(gap int, pid uint32, addr uint64, size int) op {
		return op{Gap: gap, PID: pid, Addr: addr, Size: size}
	}
	wr := func(gap int, pid uint32, addr uint64, size int, masked bool) op {
		o := op{Gap: gap, Write: true, PID: pid, Addr: addr, Size: size, Data: make([]byte, size)}
		for i := range o.Data {
			o.Data[i] = byte(addr>>6) + byte(i) + byte(pid)
		}
		if masked {
			o.Mask = make([]bool, size)
			for i := range o.Mask {
				o.Mask[i] = i%3 != 0
			}
		}
		return o
	}
	base := config{NumReqPerCycle: 4, Log2PageSize: 12, DeviceID: 1, NReq: 1, ReqInBuf: 8, ReqOutBuf: 8,
		Mem: memkit.Policy{Seed: 1, InBuf: 4, OutBuf: 4, LatLo: 2, LatHi: 9},
		Tr:  memkit.Policy{Seed: 2, InBuf: 4, OutBuf: 4, LatLo: 10, LatHi: 10}}
	pages := func(log2 uint64, v ...uint64) []page {
		var out []page
		for pid := uint32(0); pid < 3; pid++ {
			for i, vp := range v {
				out = append(out, page{PID: pid, VPage: vp, PAddr: uint64(0x100+int(pid)*0x10+i) << log2})
			}
		}
		return out
	}
	// 1: the same virtual addresses under two processes, back to back
	var samePage []op
	for i := 0; i < 8; i++ {
		samePage = append(samePage, rd(0, uint32(i%2), 0x7000+uint64(i/2)*64, 64))
	}
	// 2: replies of the translation service meet a full Bottom port
	slow := base
	slow.NumReqPerCycle = 1
	slow.Mem = memkit.Policy{Seed: 3, InBuf: 1, OutBuf: 1, LatLo: 1, LatHi: 4, TakeStallPct: 80, TakePerCycle: 1}
	slow.Tr = memkit.Policy{Seed: 4, InBuf: 4, OutBuf: 4, LatLo: 3, LatHi: 6}
	var burst []op
	for i := 0; i < 16; i++ {
		if i%3 == 2 {
			burst = append(burst, wr(0, uint32(i%3), 0x7000+uint64(i)*64, 32, i%2 == 0))
		} else {
			burst = append(burst, rd(0, uint32(i%3), 0x7000+uint64(i%4)*0x1000+uint64(i)*64, 16))
		}
	}
	// 3: 64 KiB pages, offsets beyond 4 KiB
	big := base
	big.Log2PageSize = 16
	var far []op
	for i := 0; i < 12; i++ {
		far = append(far, rd(i%2, uint32(i%3), 0x30000+uint64(i)*0x1404, 4))
	}
	// 4: flush in mid-stream with slow lower levels
	fl := base
	fl.NumReqPerCycle = 2
	fl.NReq = 2
	fl.Mem = memkit.Policy{Seed: 5, InBuf: 2, OutBuf: 2, LatLo: 3, LatHi: 30, StragglerPct: 25, BigLo: 60, BigHi: 120}
	fl.Tr = memkit.Policy{Seed: 6, InBuf: 2, OutBuf: 2, LatLo: 2, LatHi: 25, StragglerPct: 20, BigLo: 40, BigHi: 90}
	var long []op
	for i := 0; i < 60; i++ {
		g := 0
		if i%7 == 6 {
			g = 3
		}
		var o op
		if i%2 == 0 {
			o = rd(g, uint32(i%3), 0x7000+uint64(i%4)*0x1000+uint64(i)*32, 32)
		} else {
			o = wr(g, uint32(i%3), 0x7000+uint64(i%4)*0x1000+uint64(i)*32, 24, i%4 == 1)
		}
		o.Who = i % 2
		long = append(long, o)
	}
	// 5: accesses that start in a page and end beyond it, for every page size:
	// reads, writes and masked writes, 1 .. size-1 bytes over the end; the
	// following virtual page is mapped for PID 0 and 1 (to a physical page that
	// is not the next one) and unmapped for PID 2
	var straddling []scenario
	for log2 := uint64(12); log2 <= 16; log2++ {
		ps := uint64(1) << log2
		v0 := uint64(0x40000)
		pg := pages(log2, v0, v0+ps)
		pg = pg[:len(pg)-1] // PID 2: second page unmapped
		for j := range pg {
			if pg[j].VPage != v0 { // physically not behind the first page
				pg[j].PAddr += 0x40 << log2
			}
		}
		sc := base
		sc.Log2PageSize = log2
		sc.NumReqPerCycle = 1 + int(log2)%3
		var ops []op
		type pa struct {
			pid  uint32
			addr uint64
		}
		taken := map[pa]bool{}
		add := func(o op) {
			if !taken[pa{o.PID, o.Addr}] {
				taken[pa{o.PID, o.Addr}] = true
				ops = append(ops, o)
			}
		}
		i := 0
		for _, size := range []int{64, 32, 16, 8, 4, 2, 37} {
			for _, over := range []int{1, size / 2, size - 1, size - 4, 8} {
				if over < 1 || over > size-1 {
					continue
				}
				pid := uint32(i % 3)
				a := v0 + ps - uint64(size-over)
				switch i % 3 {
				case 0:
					add(rd(i%2, pid, a, size))
					add(wr(0, (pid+1)%3, a, size, i%2 == 0)) // the same span under another process
				case 1:
					add(wr(0, pid, a, size, false))
					add(rd(0, (pid+1)%3, a, size))
				default:
					add(wr(0, pid, a, size, true))
					add(rd(0, (pid+1)%3, a, size))
				}
				i++
			}
		}
		// control: accesses that end exactly at the page end or start at the next page
		add(rd(1, 0, v0+ps-64, 64))
		add(wr(0, 1, v0+ps-32, 32, true))
		add(rd(0, 0, v0+ps, 64))
		add(wr(0, 1, v0+ps, 16, false))
		straddling = append(straddling, scenario{Name: fmt.Sprintf("canon-page-straddling-accesses-log2page-%d", log2), Cfg: sc, Pages: pg, Ops: ops})
	}
	v4k := []uint64{0x7000, 0x8000, 0x9000, 0xa000}
	return append([]scenario{
		{Name: "canon-same-vaddr-two-processes", Cfg: base, Pages: pages(12, v4k...), Ops: samePage},
		{Name: "canon-translation-reply-meets-full-bottom-port", Cfg: slow, Pages: pages(12, v4k...), Ops: burst},
		{Name: "canon-64k-pages-large-offsets", Cfg: big, Pages: pages(16, 0x30000, 0x40000), Ops: far},
		{Name: "canon-flush-midstream", Cfg: fl, Pages: pages(12, v4k...), Ops: long, Flushes: []memkit.CtrlStep{{At: 10, Gap: 5}, {At: 45, Gap: 0}}},
	}, straddling...)
}

// ---------------------------------------------------------------------------

type runOut struct {
	events    []simkit.Event
	reqs      []*simkit.Requester
	memory    *memkit.Responder
	tr        *memkit.Responder
	ctl       *memkit.Controller
	idOfOp    []string
	nEvents   int64
	livelock  bool
	pv        any
	unmapped  []string
	replyFull int64 // translator ticks that began with a translation reply waiting and a full Bottom outgoing buffer
	topFull   int64
	occAt     map[int][2]int
}

func runReal(s scenario) *runOut {
	c := s.Cfg
	engine := sim.NewSerialEngine()
	freq := 1 * sim.GHz
	out := &runOut{occAt: map[int][2]int{}}

	table := map[memkit.PageKey]vm.Page{}
	for _, p := range s.Pages {
		table[memkit.PageKey{PID: vm.PID(p.PID), VPage: p.VPage}] = vm.Page{
			PID: vm.PID(p.PID), VAddr: p.VPage, PAddr: p.PAddr, PageSize: 1 << c.Log2PageSize, Valid: true, DeviceID: c.DeviceID}
	}
	memory := memkit.NewResponder("Mem", engine, freq, c.Mem)
	memory.MakeRsp = memkit.MemoryRsp
	tr := memkit.NewResponder("MMU", engine, freq, c.Tr)
	tr.MakeRsp = memkit.TranslationRsp(table, c.Log2PageSize, func(q *vm.TranslationReq) {
		out.unmapped = append(out.unmapped, fmt.Sprintf("pid=%d vaddr=0x%x", q.PID, q.VAddr))
	})
	at := addresstranslator.MakeBuilder().WithEngine(engine).WithFreq(freq).
		WithNumReqPerCycle(c.NumReqPerCycle).WithLog2PageSize(c.Log2PageSize).WithDeviceID(c.DeviceID).
		WithTranslationProvider(tr.Port.AsRemote()).
		WithMemoryProviderMapper(&mem.SinglePortMapper{Port: memory.Port.AsRemote()}).
		Build("AT")
	top, bottom := at.GetPortByName("Top"), at.GetPortByName("Bottom")
	trans, control := at.GetPortByName("Translation"), at.GetPortByName("Control")
	ctl := memkit.NewController("Ctl", engine, freq, control.AsRemote(), s.Flushes)
	out.memory, out.tr, out.ctl = memory, tr, ctl

	topPorts := []sim.Port{top}
	for i := 0; i < c.NReq; i++ {
		rq := simkit.NewRequester(fmt.Sprintf("Req%d", i), engine, freq, c.ReqInBuf, c.ReqOutBuf)
		rq.MaxTake = c.ReqMaxTake
		if c.ReqStallPct > 0 {
			st := vlib.NewPRNG(c.Mem.Seed*31 + uint64(i) + 17)
			pct := c.ReqStallPct
			rq.StallFn = func(int64) bool { return st.Intn(100) < pct }
		}
		out.reqs = append(out.reqs, rq)
		topPorts = append(topPorts, rq.Out)
	}
	simkit.Connect(engine, freq, "TopConn", topPorts...)
	simkit.Connect(engine, freq, "BottomConn", bottom, memory.Port)
	simkit.Connect(engine, freq, "TransConn", trans, tr.Port)
	simkit.Connect(engine, freq, "CtrlConn", control, ctl.Port)

	topOcc := memkit.TrackOut(top, c.NumReqPerCycle)
	botOcc := memkit.TrackOut(bottom, c.NumReqPerCycle)
	log := simkit.NewLog(engine, freq)
	log.Attach(top, "Top")
	log.Attach(bottom, "Bottom")
	log.Attach(trans, "Translation")
	log.Attach(control, "Control")
	repliesWaiting, flushing := 0, false
	log.OnEvent = func(e simkit.Event) {
		switch e.Port {
		case "Translation":
			switch e.Kind {
			case simkit.KRecv:
				repliesWaiting++
			case simkit.KRetrieve:
				repliesWaiting--
			}
		case "Control":
			out.occAt[e.Seq] = [2]int{topOcc.N, botOcc.N}
			if cm, ok := e.Msg.(*mem.ControlMsg); ok && e.Kind == simkit.KRetrieve {
				flushing = cm.DiscardTransations
			}
		}
	}
	memkit.ProbeTicks(engine, at.TickingComponent, func() {
		if !flushing && repliesWaiting > 0 && botOcc.Full() {
			out.replyFull++
		}
		if topOcc.Full() {
			out.topFull++
		}
	})

	cycle := int64(1)
	for _, o := range s.Ops {
		cycle += int64(o.Gap)
		rq := out.reqs[o.Who]
		m := buildReq(o, rq.Out.AsRemote(), top.AsRemote())
		out.idOfOp = append(out.idOfOp, m.Meta().ID)
		rq.Plan = append(rq.Plan, simkit.Planned{NotBefore: cycle, Msg: m})
	}
	maxAt := int64(0)
	for _, f := range s.Flushes {
		maxAt = max(maxAt, f.At+int64(f.Gap))
	}
	for _, rq := range out.reqs {
		rq.TickLater()
	}
	ctl.TickLater()

	perReq := int64(c.Mem.LatHi + c.Mem.BigHi + c.Tr.LatHi + c.Tr.BigHi + 60)
	limit := 60*(cycle+maxAt+int64(len(s.Ops))*perReq*3) + 300000
	out.nEvents, out.livelock, out.pv = simkit.RunBounded(engine, limit)
	out.events = log.Snapshot()
	return out
}

func runScenario(rec vlib.Recorder, s scenario) {
	rec.Eval()
	out := runReal(s)
	rec.Count("engine_events", out.nEvents)
	wit := func(extra map[string]any) map[string]any {
		m := map[string]any{"scenario": s}
		for k, v := range extra {
			m[k] = v
		}
		return m
	}
	if out.pv != nil {
		rec.Violation("C16|crash", fmt.Sprintf("address translator (or a peer) panicked on a protocol-conforming run: %v", out.pv), wit(nil))
		return
	}
	if out.livelock {
		rec.Violation("C16|no-termination", "engine exceeded the event bound (traffic never completed)", wit(nil))
		return
	}
	st := check(s, out)
	if st.harness != "" {
		rec.Inconclusive("scenario " + s.Name + ": " + st.harness)
		return
	}
	if st.viol != nil {
		rec.Violation(st.viol.key, st.viol.what, wit(st.viol.extra))
		return
	}
	rec.Count("requests_accepted", st.accepted)
	rec.Count("responses_checked", st.responded)
	rec.Count("reads", st.reads)
	rec.Count("writes", st.writes)
	rec.Count("masked_writes", st.masked)
	rec.Count("forwarded_requests_compared", st.forwards)
	rec.Count("forwarded_with_offset_ge_4k", st.bigOffset)
	rec.Count("page_straddling_reads_forwarded", st.strReads)
	rec.Count("page_straddling_writes_forwarded", st.strWrites)
	rec.Count("page_straddling_masked_writes_forwarded", st.strMasked)
	rec.Count("page_straddling_read_responses_checked", st.strReadRsp)
	rec.Count("read_response_lengths_compared", st.lenCompared)
	for k := range st.strShapes {
		rec.Distinct("straddle_log2page_x_size_x_bytes_over", k)
	}
	rec.Count("lookups", st.lookups)
	rec.Count("coalesced_lookups", st.coalesced)
	rec.Count("same_vpage_other_pid_lookup_pending", st.hazard)
	rec.Count("translation_replies_out_of_order", st.trOOO)
	rec.Count("memory_responses_out_of_order", st.memOOO)
	rec.Count("ticks_translation_reply_meets_full_bottom_port", out.replyFull)
	rec.Count("ticks_with_full_top_port", out.topFull)
	rec.Count("flushes", st.flushes)
	rec.Count("flushes_with_transactions_in_flight", st.flushesInflight)
	rec.Count("discarded_transactions", st.discarded)
	rec.Count("dropped_at_restart", st.dropped)
	rec.Count("served_after_restart", st.servedAfterRestart)
	rec.Count("stale_replies_after_flush", st.stale)
	rec.Distinct("width_x_log2page", fmt.Sprintf("w=%d,p=%d", s.Cfg.NumReqPerCycle, s.Cfg.Log2PageSize))
	pids := map[uint32]bool{}
	for _, p := range s.Pages {
		pids[p.PID] = true
	}
	rec.Distinct("pids_x_vpages", fmt.Sprintf("%dx%d", len(pids), len(s.Pages)/max(1, len(pids))))
	for _, m := range []memkit.Policy{s.Cfg.Mem, s.Cfg.Tr} {
		rec.Distinct("lower_level_policy", fmt.Sprintf("in=%d,newest=%v,sendstall=%d,takestall=%d,maxpend=%d,straggler=%d", m.InBuf, m.Newest, m.SendStallPct, m.TakeStallPct, m.MaxPending, m.StragglerPct))
	}
	if st.coalesced > 0 && out.replyFull > 0 {
		rec.Nontrivial(s.Name)
	}
	if st.hazard > 0 {
		rec.Count("scenarios_with_pid_hazard", 1)
	}
	rec.Sample(map[string]any{"name": s.Name, "cfg": s.Cfg, "pages": len(s.Pages), "ops": len(s.Ops), "flushes": s.Flushes,
		"coalesced": st.coalesced, "reply_meets_full_bottom_port_ticks": out.replyFull})
}

func main() {
	for i, a := range os.Args {
		if a == "--replay" && i+1 < len(os.Args) {
			// a replay must not overwrite the evidence of the real run
			if os.Getenv("VERIF_OUT_ROOT") == "" {
				os.Setenv("VERIF_OUT_ROOT", os.TempDir()+"/verif-replay-C16")
			}
			replay(vlib.Start("C16"), os.Args[i+1])
			return
		}
	}
	c := vlib.Start("C16")
	n := c.N(15000, 400000)
	scs := canonical()
	base := c.Rand("scenarios")
	for i := 0; i < n; i++ {
		scs = append(scs, genScenario(base.ForkN("s", i), i))
	}
	sim.GetIDGenerator() // akita initialises it lazily without synchronisation; do it before going parallel
	vlib.Parallel(len(scs), 0, func(i int) { runScenario(c, scs[i]) })
	c.Finish(finishOpts(false))
}

func finishOpts(replay bool) vlib.FinishOpts {
	o := vlib.FinishOpts{
		Rule: "scenario = (per-cycle width = port-buffer size, page size 2^12..2^16, page table with every virtual page mapped under every PID to " +
			"distinct physical pages, 1-2 requesters, bursty timed stream of reads / writes / masked writes of 1-64 bytes with unique " +
			"(PID,virtual address), in most scenarios 1/4..1/10 of them placed so that the last 1..size-1 bytes lie beyond the end of the page, delay/reorder/back-pressure policies of translation service and memory, flush+restart points); generated " +
			"from VERIF_SEED plus a fixed canonical battery; non-trivial = distinct scenario with >= 1 coalesced lookup and >= 1 translator " +
			"tick that began with a translation reply waiting while the Bottom outgoing buffer was full",
		Assumptions: []string{
			"peers follow akita's port protocol; every injected request has a unique id and a unique (PID, virtual address)",
			"an access whose span runs past the end of its page (a share of the ops in most scenarios, 1..size-1 bytes over) is judged like any other: the component's documented behaviour is to translate the page of the first byte and forward the access unsplit, and the property asks for exactly that (forwarded once, only the address translated, size / data / mask unchanged, the whole requested size answered); whether such an access ought to be split is not judged; the page behind need not be mapped",
			"every accessed (PID, virtual page) is mapped; physical pages are distinct, so a forwarded physical address identifies its request",
			"control handshake as the command processor drives it: DiscardTransactions, wait for NotifyDone, Restart, wait for NotifyDone",
			"accepted = retrieved from the Top port while not between a DiscardTransactions and the following Restart; requests retrieved in that interval (dropped by Restart) need no response and must get none",
			"discarded by a flush = accepted and not yet answered at the Top port when the DiscardTransactions message is retrieved",
			"single memory port and single translation port (single-port mappers), direct connections",
		},
		MinNontrivial: 3000,
		MinCounters: map[string]int64{"requests_accepted": 100000, "responses_checked": 100000, "reads": 30000, "writes": 30000,
			"masked_writes": 5000, "coalesced_lookups": 10000, "same_vpage_other_pid_lookup_pending": 2000,
			"translation_replies_out_of_order": 5000, "ticks_translation_reply_meets_full_bottom_port": 5000,
			"forwarded_with_offset_ge_4k": 5000,
			"page_straddling_reads_forwarded": 10000, "page_straddling_writes_forwarded": 10000, "page_straddling_masked_writes_forwarded": 3000,
			"page_straddling_read_responses_checked": 8000, "read_response_lengths_compared": 30000, "flushes": 1000, "discarded_transactions": 3000, "served_after_restart": 10000},
	}
	if replay {
		o.MinNontrivial = 0
		o.MinCounters = nil
	}
	return o
}

func replay(c *vlib.Check, path string) {
	b, err := os.ReadFile(path)
	if err != nil {
		c.Inconclusive("cannot read replay file: " + err.Error())
		c.Finish(finishOpts(true))
	}
	var f struct {
		Witness struct {
			Scenario scenario `json:"scenario"`
		} `json:"witness"`
	}
	if err := json.Unmarshal(b, &f); err != nil || len(f.Witness.Scenario.Ops) == 0 {
		c.Inconclusive(fmt.Sprintf("replay file has no scenario (%v)", err))
		c.Finish(finishOpts(true))
	}
	runScenario(c, f.Witness.Scenario)
	if c.NumNewViolations() == 0 {
		c.Inconclusive("replayed scenario did not violate the property (or only reproduced a listed finding)")
	}
	c.Finish(finishOpts(true))
}
