package vlib

import (
	"bufio"
	"encoding/json"
	"fmt"
	"os"
	"path/filepath"
	"sort"
	"strconv"
	"sync"
	"time"
)

// Recorder is what monitors report to. It is implemented by *Check (the
// process that owns the verdict) and by *ChildRecorder (a worker child that
// streams its observations to the owning process as JSON lines).
type Recorder interface {
	// Eval counts one generated case / execution.
	Eval()
	// Count adds n to a named event counter.
	Count(name string, n int64)
	// Distinct records membership of key in the named set.
	Distinct(set, key string)
	// Nontrivial records a distinct non-trivial case (by the check's rule).
	Nontrivial(key string)
	// Sample offers a literal case for the evidence file (first few kept).
	Sample(v any)
	// Violation reports a refuting observation. key identifies *this*
	// violation finely enough that a different one gets a different key.
	Violation(key, what string, witness any)
	// ViolationFP is Violation with a behaviour fingerprint (see DESIGN 1.6).
	ViolationFP(key, fingerprint, what string, witness any)
	// Inconclusive records that part of the run could not be judged.
	Inconclusive(reason string)
}

// KnownFinding is one entry of /verif/known_findings.json.
type KnownFinding struct {
	Property    string `json:"property"`
	Key         string `json:"key"`
	What        string `json:"what"`
	Status      string `json:"status"` // "open" or "fixed"
	Commit      string `json:"commit,omitempty"`
	Fingerprint string `json:"fingerprint,omitempty"`
	Witness     any    `json:"witness,omitempty"`
}

type violation struct {
	Key     string `json:"key"`
	FP      string `json:"fingerprint,omitempty"`
	What    string `json:"what"`
	Witness any    `json:"witness,omitempty"`
	Replay  string `json:"replay,omitempty"`
	Count   int    `json:"count"`
}

// Check owns the verdict of one property check run.
type Check struct {
	ID   string
	Tier string
	Seed int64
	Root string

	start time.Time
	mu    sync.Mutex

	evals      int64
	counters   map[string]int64
	distinct   map[string]map[string]struct{}
	nontrivial map[string]struct{}
	samples    []any
	maxSamples int

	newViol   map[string]*violation
	newOrder  []string
	knownHit  map[string]*violation
	knownList []KnownFinding
	inconcl   []string
	extra     map[string]any
}

// Start creates the Check for property id. Tier and seed come from the
// command line (args[1] = tier) or VERIF_TIER / VERIF_SEED.
func Start(id string) *Check {
	c := &Check{
		ID:         id,
		Tier:       "quick",
		Seed:       1,
		start:      time.Now(),
		counters:   map[string]int64{},
		distinct:   map[string]map[string]struct{}{},
		nontrivial: map[string]struct{}{},
		newViol:    map[string]*violation{},
		knownHit:   map[string]*violation{},
		extra:      map[string]any{},
		maxSamples: 6,
	}
	if t := os.Getenv("VERIF_TIER"); t == "quick" || t == "thorough" {
		c.Tier = t
	}
	for _, a := range os.Args[1:] {
		if a == "quick" || a == "thorough" {
			c.Tier = a
		}
	}
	if s := os.Getenv("VERIF_SEED"); s != "" {
		if v, err := strconv.ParseInt(s, 10, 64); err == nil {
			c.Seed = v
		}
	}
	c.Root = os.Getenv("VERIF_ROOT")
	if c.Root == "" {
		c.Root = "/verif"
	}
	c.loadKnown()
	// VERIF_OUT_ROOT redirects evidence and replays (self-validation runs
	// against a scratch checkout must not overwrite the real evidence).
	if o := os.Getenv("VERIF_OUT_ROOT"); o != "" {
		c.Root = o
	}
	// replays of an earlier run with the same (tier, seed) are stale
	old, _ := filepath.Glob(filepath.Join(c.Root, "replays", c.ID, fmt.Sprintf("%s-seed%d-*.json", c.Tier, c.Seed)))
	for _, f := range old {
		_ = os.Remove(f)
	}
	fmt.Printf("[%s] tier=%s seed=%d\n", c.ID, c.Tier, c.Seed)
	return c
}

// Thorough reports whether the thorough tier was requested.
func (c *Check) Thorough() bool { return c.Tier == "thorough" }

// N picks the case count for the tier.
func (c *Check) N(quick, thorough int) int {
	if c.Thorough() {
		return thorough
	}
	return quick
}

// Rand returns the PRNG for a labelled purpose; a pure function of
// (seed, tier-independent label).
func (c *Check) Rand(label string) *PRNG {
	return NewPRNG(uint64(c.Seed)).Fork(c.ID + "/" + label)
}

func (c *Check) loadKnown() {
	b, err := os.ReadFile(filepath.Join(c.Root, "known_findings.json"))
	if err != nil {
		return
	}
	var all []KnownFinding
	if err := json.Unmarshal(b, &all); err != nil {
		fmt.Printf("[%s] cannot parse known_findings.json: %v\n", c.ID, err)
		os.Exit(2)
	}
	for _, k := range all {
		if k.Property == c.ID {
			c.knownList = append(c.knownList, k)
		}
	}
}

// Eval implements Recorder.
func (c *Check) Eval() { c.mu.Lock(); c.evals++; c.mu.Unlock() }

// Evals adds n evaluations.
func (c *Check) Evals(n int64) { c.mu.Lock(); c.evals += n; c.mu.Unlock() }

// Count implements Recorder.
func (c *Check) Count(name string, n int64) { c.mu.Lock(); c.counters[name] += n; c.mu.Unlock() }

// Distinct implements Recorder.
func (c *Check) Distinct(set, key string) {
	c.mu.Lock()
	m := c.distinct[set]
	if m == nil {
		m = map[string]struct{}{}
		c.distinct[set] = m
	}
	m[key] = struct{}{}
	c.mu.Unlock()
}

// DistinctCount returns the size of a distinct set.
func (c *Check) DistinctCount(set string) int {
	c.mu.Lock()
	defer c.mu.Unlock()
	return len(c.distinct[set])
}

// Nontrivial implements Recorder.
func (c *Check) Nontrivial(key string) { c.mu.Lock(); c.nontrivial[key] = struct{}{}; c.mu.Unlock() }

// Sample implements Recorder.
func (c *Check) Sample(v any) {
	c.mu.Lock()
	if len(c.samples) < c.maxSamples {
		c.samples = append(c.samples, v)
	}
	c.mu.Unlock()
}

// Set stores an extra key in the evidence coverage object.
func (c *Check) Set(key string, v any) { c.mu.Lock(); c.extra[key] = v; c.mu.Unlock() }

// Inconclusive implements Recorder.
func (c *Check) Inconclusive(reason string) {
	c.mu.Lock()
	if len(c.inconcl) < 50 {
		c.inconcl = append(c.inconcl, reason)
	}
	c.mu.Unlock()
	fmt.Printf("[%s] INCONCLUSIVE: %s\n", c.ID, reason)
}

// Violation implements Recorder.
func (c *Check) Violation(key, what string, witness any) { c.ViolationFP(key, "", what, witness) }

// ViolationFP implements Recorder.
func (c *Check) ViolationFP(key, fp, what string, witness any) {
	c.mu.Lock()
	defer c.mu.Unlock()
	for _, k := range c.knownList {
		if k.Status == "open" && k.Key == key {
			if k.Fingerprint != "" && fp != "" && k.Fingerprint != fp {
				key = key + "|behaviour-changed"
				what = what + " (differs from the recorded known finding: fingerprint " + fp + " != " + k.Fingerprint + ")"
				break
			}
			v := c.knownHit[key]
			if v == nil {
				v = &violation{Key: key, FP: fp, What: k.What, Witness: witness}
				c.knownHit[key] = v
			}
			v.Count++
			return
		}
	}
	v := c.newViol[key]
	if v == nil {
		v = &violation{Key: key, FP: fp, What: what, Witness: witness}
		c.newViol[key] = v
		c.newOrder = append(c.newOrder, key)
		if len(c.newOrder) <= 40 {
			v.Replay = c.writeReplay(len(c.newOrder), v)
			fmt.Printf("VIOLATION property=%s replay=%s\n", c.ID, v.Replay)
			fmt.Printf("[%s]   key=%s : %s\n", c.ID, key, what)
		}
	}
	v.Count++
}

func (c *Check) writeReplay(n int, v *violation) string {
	dir := filepath.Join(c.Root, "replays", c.ID)
	_ = os.MkdirAll(dir, 0o755)
	p := filepath.Join(dir, fmt.Sprintf("%s-seed%d-%03d.json", c.Tier, c.Seed, n))
	b, _ := json.MarshalIndent(map[string]any{
		"property": c.ID, "tier": c.Tier, "seed": c.Seed,
		"key": v.Key, "fingerprint": v.FP, "what": v.What, "witness": v.Witness,
	}, "", " ")
	_ = os.WriteFile(p, b, 0o644)
	return p
}

// NumNewViolations returns the number of distinct unlisted violations so far.
func (c *Check) NumNewViolations() int { c.mu.Lock(); defer c.mu.Unlock(); return len(c.newViol) }

// FinishOpts tunes Finish.
type FinishOpts struct {
	Rule        string
	Assumptions []string
	// MinNontrivial is the check's own minimum of distinct non-trivial cases
	// below which the run is inconclusive (at least 2).
	MinNontrivial int
	// MinCounters are counters that must be at least the given value,
	// otherwise the run is inconclusive (hook never reached, too few events).
	MinCounters map[string]int64
}

// Finish writes the evidence file, prints the verdict lines and exits:
// 0 held (known findings listed), 1 unlisted violation, 2 inconclusive.
func (c *Check) Finish(o FinishOpts) {
	c.mu.Lock()
	if o.MinNontrivial < 2 {
		o.MinNontrivial = 2
	}
	if len(c.nontrivial) < o.MinNontrivial {
		c.inconcl = append(c.inconcl, fmt.Sprintf("only %d distinct non-trivial cases observed (minimum %d)", len(c.nontrivial), o.MinNontrivial))
	}
	names := make([]string, 0, len(o.MinCounters))
	for n := range o.MinCounters {
		names = append(names, n)
	}
	sort.Strings(names)
	for _, n := range names {
		if c.counters[n] < o.MinCounters[n] {
			c.inconcl = append(c.inconcl, fmt.Sprintf("counter %s = %d below minimum %d", n, c.counters[n], o.MinCounters[n]))
		}
	}

	cov := map[string]any{}
	for k, v := range c.extra {
		cov[k] = v
	}
	cov["evaluations"] = c.evals
	cov["distinct_nontrivial"] = len(c.nontrivial)
	cov["rule"] = o.Rule
	samples := c.samples
	if len(samples) == 0 {
		samples = []any{}
	}
	cov["samples"] = samples
	cov["events"] = c.counters
	dc := map[string]int{}
	for s, m := range c.distinct {
		dc[s] = len(m)
	}
	cov["distinct"] = dc
	cov["exhaustive"] = false

	var knownKeys []string
	for k := range c.knownHit {
		knownKeys = append(knownKeys, k)
	}
	sort.Strings(knownKeys)
	kf := []any{}
	for _, k := range knownKeys {
		v := c.knownHit[k]
		kf = append(kf, map[string]any{"key": k, "what": v.What, "observations": v.Count})
	}
	cov["known_findings_observed"] = kf
	var notSeen []string
	for _, k := range c.knownList {
		if k.Status == "open" {
			if _, ok := c.knownHit[k.Key]; !ok {
				notSeen = append(notSeen, k.Key)
			}
		}
	}
	cov["known_findings_not_observed_this_run"] = notSeen
	nv := []any{}
	for _, k := range c.newOrder {
		v := c.newViol[k]
		nv = append(nv, map[string]any{"key": k, "what": v.What, "observations": v.Count, "replay": v.Replay})
	}
	cov["new_violations"] = nv
	cov["inconclusive"] = c.inconcl

	ev := map[string]any{
		"property_id": c.ID,
		"tier":        c.Tier,
		"seed":        c.Seed,
		"level":       "exploration",
		"coverage":    cov,
		"assumptions": o.Assumptions,
		"wall_s":      time.Since(c.start).Seconds(),
		"violations":  len(c.newViol),
	}
	if ev["assumptions"] == nil {
		ev["assumptions"] = []string{}
	}
	dir := filepath.Join(c.Root, "evidence")
	_ = os.MkdirAll(dir, 0o755)
	b, err := json.MarshalIndent(ev, "", " ")
	if err != nil {
		fmt.Printf("[%s] cannot marshal evidence: %v\n", c.ID, err)
		os.Exit(2)
	}
	if err := os.WriteFile(filepath.Join(dir, c.ID+".json"), b, 0o644); err != nil {
		fmt.Printf("[%s] cannot write evidence: %v\n", c.ID, err)
		os.Exit(2)
	}

	for _, k := range knownKeys {
		v := c.knownHit[k]
		fmt.Printf("KNOWN-FINDING: property=%s %s [key=%s, observed %d times]\n", c.ID, v.What, k, v.Count)
	}
	for _, k := range notSeen {
		fmt.Printf("[%s] note: listed finding %s was not observed in this run\n", c.ID, k)
	}
	fmt.Printf("[%s] evaluations=%d distinct_nontrivial=%d new_violations=%d known_findings_observed=%d wall=%.1fs\n",
		c.ID, c.evals, len(c.nontrivial), len(c.newViol), len(c.knownHit), time.Since(c.start).Seconds())
	cn := make([]string, 0, len(c.counters))
	for n := range c.counters {
		cn = append(cn, n)
	}
	sort.Strings(cn)
	for _, n := range cn {
		fmt.Printf("[%s]   %s=%d\n", c.ID, n, c.counters[n])
	}
	dn := make([]string, 0, len(dc))
	for n := range dc {
		dn = append(dn, n)
	}
	sort.Strings(dn)
	for _, n := range dn {
		fmt.Printf("[%s]   distinct %s=%d\n", c.ID, n, dc[n])
	}
	code := 0
	if len(c.newViol) > 0 {
		for i, k := range c.newOrder {
			if i >= 40 {
				break
			}
			v := c.newViol[k]
			fmt.Printf("VIOLATION property=%s replay=%s\n", c.ID, v.Replay)
		}
		code = 1
	} else if len(c.inconcl) > 0 {
		for _, r := range c.inconcl {
			fmt.Printf("[%s] inconclusive: %s\n", c.ID, r)
		}
		code = 2
	} else {
		fmt.Printf("[%s] HELD on everything explored\n", c.ID)
	}
	c.mu.Unlock()
	os.Stdout.Sync()
	os.Exit(code)
}

// ---------------------------------------------------------------------------
// child side

type childMsg struct {
	T   string `json:"t"`
	K   string `json:"k,omitempty"`
	S   string `json:"s,omitempty"`
	N   int64  `json:"n,omitempty"`
	FP  string `json:"fp,omitempty"`
	W   string `json:"w,omitempty"`
	Wit any    `json:"wit,omitempty"`
	V   any    `json:"v,omitempty"`
}

// ChildRecorder streams observations as JSON lines to a file; the owning
// process merges them with Check.AbsorbFile. Every line is flushed at once so
// that a crash of the child loses nothing already observed.
type ChildRecorder struct {
	mu sync.Mutex
	f  *os.File
}

// NewChildRecorder appends to path.
func NewChildRecorder(path string) *ChildRecorder {
	f, err := os.OpenFile(path, os.O_CREATE|os.O_WRONLY|os.O_APPEND, 0o644)
	if err != nil {
		panic(err)
	}
	return &ChildRecorder{f: f}
}

func (r *ChildRecorder) put(m childMsg) {
	b, err := json.Marshal(m)
	if err != nil {
		b, _ = json.Marshal(childMsg{T: "inconclusive", W: "unmarshalable child message: " + err.Error()})
	}
	r.mu.Lock()
	r.f.Write(append(b, '\n'))
	r.mu.Unlock()
}

// Eval implements Recorder.
func (r *ChildRecorder) Eval() { r.put(childMsg{T: "eval", N: 1}) }

// Count implements Recorder.
func (r *ChildRecorder) Count(name string, n int64) { r.put(childMsg{T: "count", K: name, N: n}) }

// Distinct implements Recorder.
func (r *ChildRecorder) Distinct(set, key string) { r.put(childMsg{T: "distinct", S: set, K: key}) }

// Nontrivial implements Recorder.
func (r *ChildRecorder) Nontrivial(key string) { r.put(childMsg{T: "nontrivial", K: key}) }

// Sample implements Recorder.
func (r *ChildRecorder) Sample(v any) { r.put(childMsg{T: "sample", V: v}) }

// Violation implements Recorder.
func (r *ChildRecorder) Violation(key, what string, witness any) {
	r.put(childMsg{T: "viol", K: key, W: what, Wit: witness})
}

// ViolationFP implements Recorder.
func (r *ChildRecorder) ViolationFP(key, fp, what string, witness any) {
	r.put(childMsg{T: "viol", K: key, FP: fp, W: what, Wit: witness})
}

// Inconclusive implements Recorder.
func (r *ChildRecorder) Inconclusive(reason string) { r.put(childMsg{T: "inconclusive", W: reason}) }

// Note writes a free-form record (ignored by AbsorbFile except "done").
func (r *ChildRecorder) Note(kind string, v any) { r.put(childMsg{T: kind, V: v}) }

// AbsorbFile merges a child's record file. It returns the free-form notes by
// kind (e.g. "done", "result") for the caller to interpret.
func (c *Check) AbsorbFile(path string) map[string][]any {
	notes := map[string][]any{}
	f, err := os.Open(path)
	if err != nil {
		return notes
	}
	defer f.Close()
	sc := bufio.NewScanner(f)
	sc.Buffer(make([]byte, 1<<20), 1<<28)
	for sc.Scan() {
		var m childMsg
		if err := json.Unmarshal(sc.Bytes(), &m); err != nil {
			continue
		}
		switch m.T {
		case "eval":
			c.Evals(m.N)
		case "count":
			c.Count(m.K, m.N)
		case "distinct":
			c.Distinct(m.S, m.K)
		case "nontrivial":
			c.Nontrivial(m.K)
		case "sample":
			c.Sample(m.V)
		case "viol":
			c.ViolationFP(m.K, m.FP, m.W, m.Wit)
		case "inconclusive":
			c.Inconclusive(m.W)
		default:
			notes[m.T] = append(notes[m.T], m.V)
		}
	}
	return notes
}
