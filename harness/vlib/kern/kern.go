// Package kern holds a few hand-assembled GCN3 kernels (code-object V3
// register conventions) used by driver-level workloads. They are launched
// through the real driver and executed by the real emulator / timing model.
package kern

import (
	"encoding/binary"

	"github.com/sarchlab/mgpusim/v4/amd/driver"
	"github.com/sarchlab/mgpusim/v4/amd/insts"
)

// Op is the element-wise operation of an ElemKernel.
type Op int

// The operations do not commute with each other, so the final value of an
// element identifies the order in which a chain of kernels took effect.
const (
	OpAdd Op = iota // x = x + c
	OpMul           // x = x * c (low 32 bits)
	OpXor           // x = x ^ c
)

func (o Op) String() string { return [...]string{"add", "mul", "xor"}[o] }

// Apply is the host-side definition of the kernel's effect on one element.
func (o Op) Apply(x, c uint32) uint32 {
	switch o {
	case OpAdd:
		return x + c
	case OpMul:
		return x * c
	default:
		return x ^ c
	}
}

// ElemArgs is the kernel argument block of an ElemKernel.
type ElemArgs struct {
	Buf driver.Ptr
	C   uint32
	Pad uint32
}

func words(ws ...uint32) []byte {
	b := make([]byte, 4*len(ws))
	for i, w := range ws {
		binary.LittleEndian.PutUint32(b[4*i:], w)
	}
	return b
}

// ElemKernel returns a kernel computing buf[gid] = op(buf[gid], c) for one
// uint32 per work-item; launch with work-group size 64x1x1 and a grid that is
// a multiple of 64 (there is no bounds check in the kernel).
//
//	s[0:1] kernarg pointer, s2 work-group id x, v0 work-item id x
func ElemKernel(op Op) *insts.KernelCodeObject {
	var opWords []uint32
	switch op {
	case OpAdd:
		opWords = []uint32{0x32040406} // v_add_u32 v2, vcc, s6, v2
	case OpMul:
		opWords = []uint32{0xD2850002, 0x00020406} // v_mul_lo_u32 v2, s6, v2
	case OpXor:
		opWords = []uint32{0x2A040406} // v_xor_b32 v2, s6, v2
	}
	ws := []uint32{
		0xC0060100, 0x00000000, // s_load_dwordx2 s[4:5], s[0:1], 0x0
		0xC0020180, 0x00000008, // s_load_dword s6, s[0:1], 0x8
		0xBF8C007F,             // s_waitcnt lgkmcnt(0)
		0x8E028602,             // s_lshl_b32 s2, s2, 6
		0x32000002,             // v_add_u32 v0, vcc, s2, v0
		0x24000082,             // v_lshlrev_b32 v0, 2, v0
		0x7E020205,             // v_mov_b32 v1, s5
		0x32000004,             // v_add_u32 v0, vcc, s4, v0
		0x38020280,             // v_addc_u32 v1, vcc, 0, v1, vcc
		0xDC500000, 0x02000000, // flat_load_dword v2, v[0:1]
		0xBF8C0070, // s_waitcnt vmcnt(0) lgkmcnt(0)
	}
	ws = append(ws, opWords...)
	ws = append(ws,
		0xDC700000, 0x00000200, // flat_store_dword v[0:1], v2
		0xBF810000, // s_endpgm
	)
	meta := &insts.KernelCodeObjectMeta{
		ComputePgmRsrc1:             1 | (1 << 6), // 8 VGPRs, 16 SGPRs (granulated)
		ComputePgmRsrc2:             1 << 7,       // work-group id x
		KernargSegmentByteSize:      16,
		EnableSgprKernargSegmentPtr: true,
		WFSgprCount:                 16,
		WIVgprCount:                 8,
	}
	return &insts.KernelCodeObject{KernelCodeObjectMeta: meta, Data: words(ws...), Version: insts.CodeObjectV3}
}

// Disassemble returns the printed instructions of a code object using the
// real decoder (used by self-tests of the hand assembly).
func Disassemble(co *insts.KernelCodeObject) ([]string, error) {
	d := insts.NewDisassembler()
	var out []string
	buf := co.Data
	for len(buf) > 0 {
		inst, err := d.Decode(buf)
		if err != nil {
			return out, err
		}
		out = append(out, insts.NewInstPrinter(nil).Print(inst))
		buf = buf[inst.ByteSize:]
	}
	return out, nil
}
