import re, sys, zlib
data=open(sys.argv[1],'rb').read()
def pdfstr(raw):
    out=bytearray(); i=0
    while i<len(raw):
        c=raw[i]
        if c==0x5c:
            i+=1; n=raw[i]
            m={ord('n'):10,ord('r'):13,ord('t'):9,ord('b'):8,ord('f'):12,ord('('):40,ord(')'):41,0x5c:0x5c}
            if n in m: out.append(m[n]); i+=1
            elif 48<=n<=55:
                j=i; v=0
                while j<len(raw) and j<i+3 and 48<=raw[j]<=55: v=v*8+raw[j]-48; j+=1
                out.append(v&255); i=j
            elif n in (10,13): i+=1
            else: out.append(n); i+=1
        else: out.append(c); i+=1
    return bytes(out)
pages=[]
for m in re.finditer(rb'(\d+) (\d+) obj\r?\n?<<(.*?)>>\s*stream\r?\n', data, re.S):
    d=m.group(3)
    lm=re.search(rb'/Length (\d+)', d)
    if not lm: continue
    L=int(lm.group(1)); raw=data[m.end():m.end()+L]
    dec=raw
    if b'/FlateDecode' in d:
        try: dec=zlib.decompressobj().decompress(raw)
        except Exception as e: continue
    if b'BT' in dec and (b'TJ' in dec or b'Tj' in dec):
        pages.append(dec)
print('content',len(pages),file=sys.stderr)
out=[]
for s in pages:
    parts=[]
    for mm in re.finditer(rb'\[((?:[^\]\\]|\\.)*)\]\s*TJ|\(((?:[^)\\]|\\.)*)\)\s*Tj|(T\*|[-\d.]+\s+[-\d.]+\s+T[dD]|ET)', s, re.S):
        if mm.group(1) is not None:
            seg=b''
            for k in re.finditer(rb'\(((?:[^)\\]|\\.)*)\)|(-?\d+\.?\d*)', mm.group(1), re.S):
                if k.group(1) is not None: seg+=pdfstr(k.group(1))
                else:
                    try:
                        if float(k.group(2))<-200: seg+=b' '
                    except: pass
            parts.append(seg)
        elif mm.group(2) is not None: parts.append(pdfstr(mm.group(2)))
        else: parts.append(b'\n')
    out.append(b''.join(parts))
sys.stdout.buffer.write(b'\n=====PAGE\n'.join(out))
