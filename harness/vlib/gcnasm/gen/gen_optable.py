import json
g=json.load(open('gcn3_ops.json')); c=json.load(open('cdna3_ops.json'))
pref={'SOP2':'S_','SOPK':'S_','SOP1':'S_','SOPC':'S_','SOPP':'S_','SMEM':'S_','VOP2':'V_','VOP1':'V_','VOPC':'V_','VOP3a':'V_','VOP3b':'V_','DS':'DS_','FLAT':'FLAT_'}
def G(f): return {int(k):v for k,v in g.get(f,{}).items() if v.startswith(pref[f])}
def C(f): return {int(k):v for k,v in c.get(f,{}).items()}
gc={}; cd={}
for f in ['SOP2','SOPK','SOP1','SOPC','SOPP','SMEM','VOP2','VOP1','DS']:
    gc[f]=G(f); cd[f]=C(f)
gc['VOPC']=C('VOPC'); cd['VOPC']=C('VOPC')
# GCN3 VOP3: VOPC at 0.., VOP2 at 256.., VOP1 at 320.., VOP3-only from the manual's VOP3a/VOP3b tables
v3={}
for k,v in gc['VOPC'].items(): v3[k]=v
for k,v in gc['VOP2'].items():
    if k not in (23,24): v3[256+k]=v   # madmk/madak have no VOP3 form
for k,v in gc['VOP1'].items(): v3[320+k]=v
for k,v in G('VOP3a').items():
    if k>=448: v3[k]=v
for k,v in G('VOP3b').items():
    if k>=448: v3[k]=v
gc['VOP3']=v3
cv=C('VOP3A'); cv.update(C('VOP3B')); cd['VOP3']=cv
# FLAT: GCN3 manual numbers loads 8..15 (Sea Islands numbering, a known manual error); VI hardware and
# LLVM use 16..31 like GFX9. Atomics: manual numbering (48.., 80..) kept for GCN3.
gf={k:v for k,v in C('FLAT').items() if k<48}
gf.update({k:v for k,v in G('FLAT').items() if k>=48})
gc['FLAT']=gf; cd['FLAT']=C('FLAT')
cd['GLOBAL']=C('GLOBAL'); cd['SCRATCH']=C('SCRATCH'); gc['GLOBAL']={}; gc['SCRATCH']={}
cd['VOP3P']=C('VOP3P'); gc['VOP3P']={}
out=['// Code generated from the opcode tables of docs/cdna3_insts.pdf (chapter 13) and the',
'// GCN3 ISA manual (chapter 13) by /tmp/c04/gen_optable.py; DO NOT EDIT.','','package gcnasm','',
'// OpName holds the manual names of one opcode number (empty = not assigned in that ISA).',
'type OpName struct{ GCN3, CDNA3 string }','',
'// opNames[table][opcode]; tables: SOP2 SOPK SOP1 SOPC SOPP SMEM VOP2 VOP1 VOPC VOP3 VOP3P DS FLAT GLOBAL SCRATCH.',
'// VOP3 covers VOP3a and VOP3b (10-bit opcode); VOP3P opcodes are the 7-bit OP field.',
'var opNames = map[string]map[int]OpName{']
for f in ['SOP2','SOPK','SOP1','SOPC','SOPP','SMEM','VOP2','VOP1','VOPC','VOP3','VOP3P','DS','FLAT','GLOBAL','SCRATCH']:
    out.append('\t"%s": {'%f)
    ks=sorted(set(gc[f])|set(cd[f]))
    for k in ks:
        out.append('\t\t%d: {"%s", "%s"},'%(k,gc[f].get(k,'').lower(),cd[f].get(k,'').lower()))
    out.append('\t},')
out.append('}')
open('/verif/harness/vlib/gcnasm/optable_gen.go','w').write('\n'.join(out)+'\n')
print(sum(len(set(gc[f])|set(cd[f])) for f in gc))
