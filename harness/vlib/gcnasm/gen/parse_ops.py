import re,sys,json
lines=open('/tmp/c04/cdna3.txt',encoding='latin-1').read().split('\n')
tables={}
cur=None
i=0
pending=None
skip=0
for ln in lines:
    ln=ln.strip()
    if ln.startswith('"AMD Instinct'):
        skip=2; continue
    if skip>0:
        skip-=1; continue
    if ln.startswith('=====PAGE') or ln=='': continue
    m=re.match(r'Table \d+\. (\S+) Opcodes',ln)
    if m:
        cur=m.group(1); tables.setdefault(cur,{}); pending=None; continue
    if re.match(r'^\d+\.\d+(\.\d+)*\. ',ln) or re.match(r'Table \d+\. ',ln):
        cur=None; continue
    if cur is None: continue
    if re.match(r'^\d+$',ln):
        pending=int(ln); continue
    if re.match(r'^[A-Z][A-Z0-9_]+$',ln) and pending is not None and '_' in ln:
        tables[cur][pending]=ln; pending=None
for k,v in tables.items():
    print(k,len(v),file=sys.stderr)
json.dump({k:{str(a):b for a,b in sorted(v.items())} for k,v in tables.items()},open('/tmp/c04/cdna3_ops.json','w'),indent=0)
