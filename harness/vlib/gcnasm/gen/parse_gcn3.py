import re,json,sys
lines=open('/tmp/c04/gcn3.txt',encoding='latin-1').read().split('\n')
start=18823
cur=None; tables={}; pending=None
i=start
while i<len(lines):
    ln=lines[i].strip()
    if ln=='Format' and i+1<len(lines):
        nxt=lines[i+1].strip()
        if nxt.split()[0] in ('SOP2','SOPK','SOP1','SOPC','SOPP','SMEM','VOP2','VOP1','VOPC','VOP3a','VOP3b','VOP3','VINTRP','DS','MUBUF','MTBUF','MIMG','EXP','FLAT'):
            cur=nxt.split()[0]; tables.setdefault(cur,{}); pending=None
            i+=2; continue
    if cur:
        m=re.match(r'^(\d+)$',ln)
        if m: pending=int(m.group(1))
        else:
            m2=re.match(r'^(\d+)\s+([A-Z][A-Z0-9_]+)',ln)
            if m2 and '_' in m2.group(2):
                tables[cur].setdefault(int(m2.group(1)),m2.group(2)); pending=None
            elif re.match(r'^[A-Z][A-Z0-9_]+$',ln) and '_' in ln and pending is not None:
                tables[cur].setdefault(pending,ln); pending=None
            elif ln not in('',):
                pending=None
    i+=1
for k,v in tables.items(): print(k,len(v),sorted(v)[:3],sorted(v)[-3:],file=sys.stderr)
json.dump({k:{str(a):b for a,b in sorted(v.items())} for k,v in tables.items()},open('/tmp/c04/gcn3_ops.json','w'),indent=0)
