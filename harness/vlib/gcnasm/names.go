package gcnasm

import (
	"fmt"
	"sort"
)

// tableOf maps a format (and FLAT segment) to the opcode-name table key.
func tableOf(f Format, seg uint8) string {
	switch f {
	case SOP2:
		return "SOP2"
	case SOPK:
		return "SOPK"
	case SOP1:
		return "SOP1"
	case SOPC:
		return "SOPC"
	case SOPP:
		return "SOPP"
	case SMEM:
		return "SMEM"
	case VOP2:
		return "VOP2"
	case VOP1:
		return "VOP1"
	case VOPC:
		return "VOPC"
	case VOP3a, VOP3b:
		return "VOP3"
	case VOP3P:
		return "VOP3P"
	case DS:
		return "DS"
	case FLAT:
		switch seg {
		case SegGlobal:
			return "GLOBAL"
		case SegScratch:
			return "SCRATCH"
		}
		return "FLAT"
	}
	return ""
}

// NamesOf returns the manual names of an opcode number (either may be empty).
func NamesOf(f Format, opcode int) OpName {
	return opNames[tableOf(f, 0)][opcode]
}

// NameOf returns the manual name of an opcode for one architecture ("" if the
// number is unassigned there).
func NameOf(arch Arch, f Format, opcode int) string {
	n := NamesOf(f, opcode)
	if arch == CDNA3 {
		return n.CDNA3
	}
	return n.GCN3
}

// Opcode looks a mnemonic up (lower case, without _e32/_e64 suffix) in the
// opcode table of a format: e.g. Opcode(GCN3, SOP2, "s_add_u32") = 0. For
// VOP3a/VOP3b the 10-bit VOP3 opcode is returned. ok=false if the name does
// not exist in that architecture's table.
func Opcode(arch Arch, f Format, name string) (int, bool) {
	name = NormName(name)
	for op, n := range opNames[tableOf(f, 0)] {
		if (arch == CDNA3 && n.CDNA3 == name) || (arch == GCN3 && n.GCN3 == name) {
			return op, true
		}
	}
	return 0, false
}

// MustOpcode is Opcode that panics when the name is unknown.
func MustOpcode(arch Arch, f Format, name string) int {
	op, ok := Opcode(arch, f, name)
	if !ok {
		panic(fmt.Sprintf("gcnasm: no %s instruction %q in the %s table", f, name, arch))
	}
	return op
}

// Opcodes lists the assigned opcode numbers of a format (union of both
// architectures), ascending.
func Opcodes(f Format) []int {
	var out []int
	for op := range opNames[tableOf(f, 0)] {
		out = append(out, op)
	}
	sort.Ints(out)
	return out
}

// IsVOP3bOpcode reports whether a 10-bit VOP3 opcode uses the VOP3b layout
// (scalar destination): the carry-out adds/subs and V_DIV_SCALE; on CDNA3 also
// V_MAD_U64_U32 / V_MAD_I64_I32.
func IsVOP3bOpcode(arch Arch, opcode int) bool {
	switch opcode {
	case 281, 282, 283, 284, 285, 286, 480, 481:
		return true
	case 488, 489:
		return arch == CDNA3
	}
	return false
}

// OpcodeFieldBits is the width of the OP field per format.
func OpcodeFieldBits(f Format) int {
	switch f {
	case SOP2, SOPC, SOPP, VOP3P, FLAT:
		return 7
	case SOPK:
		return 5
	case SOP1, SMEM, VOP1, VOPC, DS:
		return 8
	case VOP2:
		return 6
	case VOP3a, VOP3b:
		return 10
	}
	return 0
}
