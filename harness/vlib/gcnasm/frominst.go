package gcnasm

import (
	"encoding/binary"
	"fmt"

	"github.com/sarchlab/mgpusim/v4/amd/insts"
)

// specialCodeOf maps the simulator's special register types to operand codes
// (SSRC0 table of the manuals).
var specialCodeOf = map[insts.RegType]int{
	insts.FlatSratchLo: CodeFlatScrLo, insts.FlatSratchHi: CodeFlatScrHi,
	insts.XnackMaskLo: CodeXnackMaskLo, insts.XnackMaskHi: CodeXnackMaskHi,
	insts.VCCLO: CodeVCCLo, insts.VCCHI: CodeVCCHi,
	insts.TbaLo: CodeTBALo, insts.TbaHi: CodeTBAHi, insts.TmaLo: CodeTMALo, insts.TmaHi: CodeTMAHi,
	insts.Timp0: 112, insts.Timp1: 113, insts.Timp2: 114, insts.Timp3: 115, insts.Timp4: 116, insts.Timp5: 117,
	insts.Timp6: 118, insts.Timp7: 119, insts.Timp8: 120, insts.Timp9: 121, insts.Timp10: 122, insts.Timp11: 123,
	insts.M0: CodeM0, insts.EXECLO: CodeEXECLo, insts.EXECHI: CodeEXECHi,
	insts.VCCZ: CodeVCCZ, insts.EXECZ: CodeEXECZ, insts.SCC: CodeSCC,
}

// SpecialRegType is the inverse: operand code -> simulator register type
// (ok=false if the simulator has no such register).
func SpecialRegType(code int) (insts.RegType, bool) {
	for rt, c := range specialCodeOf {
		if c == code {
			return rt, true
		}
	}
	return 0, false
}

// OperandFromInst converts a decoded operand. A nil operand gives KNone.
func OperandFromInst(o *insts.Operand) (Operand, error) {
	if o == nil {
		return Operand{}, nil
	}
	switch o.OperandType {
	case insts.RegOperand:
		if o.Register == nil {
			return Operand{}, fmt.Errorf("gcnasm: register operand without register")
		}
		w := o.RegCount
		if w < 1 {
			w = 1
		}
		switch {
		case o.Register.IsSReg():
			return SRange(o.Register.RegIndex(), w), nil
		case o.Register.IsVReg():
			return VRange(o.Register.RegIndex(), w), nil
		}
		c, ok := specialCodeOf[o.Register.RegType]
		if !ok {
			return Operand{}, fmt.Errorf("gcnasm: no operand code for register %s", o.Register.Name)
		}
		return Special(c, w), nil
	case insts.IntOperand:
		return Imm(int(o.IntValue)), nil
	case insts.FloatOperand:
		return F(o.FloatValue), nil
	case insts.LiteralConstant:
		return Lit(o.LiteralConstant), nil
	}
	return Operand{}, fmt.Errorf("gcnasm: operand of unknown type %d", o.OperandType)
}

func selCode(m insts.SDWASelect) (uint8, error) {
	switch m {
	case insts.SDWASelectByte0:
		return SelByte0, nil
	case insts.SDWASelectByte1:
		return SelByte1, nil
	case insts.SDWASelectByte2:
		return SelByte2, nil
	case insts.SDWASelectByte3:
		return SelByte3, nil
	case insts.SDWASelectWord0:
		return SelWord0, nil
	case insts.SDWASelectWord1:
		return SelWord1, nil
	case insts.SDWASelectDWord:
		return SelDWord, nil
	}
	return 0, fmt.Errorf("gcnasm: unknown SDWA select mask %#x", uint32(m))
}

// Unrepresented reports which encoding fields FromInst had to take from the
// raw bytes because *insts.Inst has no place for them.
type Unrepresented struct {
	Fields []string
}

// FromInst builds the description of a decoded instruction. raw (the
// instruction's bytes, may be nil) supplies the few encoding fields the
// simulator's Inst cannot represent (FLAT SEG/LDS/SC1, SMEM NV/SOE/SOFFSET and
// offset sign bit, DS ACC, VOP3a OPSEL, VOP3P NEG_HI/OPSEL_HI2, SDWA OMOD);
// every non-zero use is listed in the second result.
//
//nolint:gocyclo,funlen
func FromInst(in *insts.Inst, arch Arch, raw []byte) (Desc, Unrepresented, error) {
	var un Unrepresented
	var lo, hi uint32
	if len(raw) >= 4 {
		lo = binary.LittleEndian.Uint32(raw)
	}
	if len(raw) >= 8 {
		hi = binary.LittleEndian.Uint32(raw[4:])
	}
	bits := func(w uint32, l, h uint) uint32 { return (w >> l) & (1<<(h-l+1) - 1) }
	rawField := func(name string, v uint32) uint32 {
		if v != 0 {
			un.Fields = append(un.Fields, name)
		}
		return v
	}
	d := Desc{Arch: arch, Opcode: int(in.Opcode), Name: in.InstName}
	var err error
	op := func(dst *Operand, o *insts.Operand) {
		if err != nil {
			return
		}
		*dst, err = OperandFromInst(o)
	}
	switch in.FormatType {
	case insts.SOP2:
		d.Format = SOP2
		op(&d.Dst, in.Dst)
		op(&d.Src0, in.Src0)
		op(&d.Src1, in.Src1)
	case insts.SOPK:
		d.Format = SOPK
		op(&d.Dst, in.Dst)
		d.SImm16 = uint16(in.SImm16.IntValue)
	case insts.SOP1:
		d.Format = SOP1
		op(&d.Dst, in.Dst)
		op(&d.Src0, in.Src0)
	case insts.SOPC:
		d.Format = SOPC
		op(&d.Src0, in.Src0)
		op(&d.Src1, in.Src1)
	case insts.SOPP:
		d.Format = SOPP
		d.SImm16 = uint16(in.SImm16.IntValue)
	case insts.SMEM:
		d.Format = SMEM
		op(&d.Base, in.Base)
		op(&d.Data, in.Data)
		d.GLC = in.GlobalLevelCoherent
		d.Imm = in.Imm
		if in.Imm {
			d.Offset = in.Offset.IntValue
		} else {
			op(&d.SOffset, in.Offset)
		}
		if arch == CDNA3 && raw != nil {
			d.NV = rawField("SMEM.NV", bits(lo, 15, 15)) != 0
			d.SOE = rawField("SMEM.SOE", bits(lo, 14, 14)) != 0
			if in.Imm && rawField("SMEM.OFFSET[20]", bits(hi, 20, 20)) != 0 {
				d.Offset -= 1 << 21
				d.Offset += 1 << 20
			}
			if d.SOE {
				d.SOffset, _ = OperandOfCode(int(bits(hi, 25, 31)), arch)
			}
		}
	case insts.VOP2, insts.VOP1, insts.VOPC:
		switch in.FormatType {
		case insts.VOP2:
			d.Format = VOP2
			op(&d.Dst, in.Dst)
			op(&d.Src1, in.Src1)
			if in.Src2 != nil {
				op(&d.Src2, in.Src2)
			}
		case insts.VOP1:
			d.Format = VOP1
			op(&d.Dst, in.Dst)
		case insts.VOPC:
			d.Format = VOPC
			op(&d.Src1, in.Src1)
		}
		op(&d.Src0, in.Src0)
		if in.IsSdwa {
			s := SDWA{Src0Sext: in.Src0Sext, Src0Neg: in.Src0Neg, Src0Abs: in.Src0Abs,
				Src1Sext: in.Src1Sext, Src1Neg: in.Src1Neg, Src1Abs: in.Src1Abs, DstUnused: uint8(in.DstUnused)}
			var e1, e2, e3 error
			s.DstSel, e1 = selCode(in.DstSel)
			s.Src0Sel, e2 = selCode(in.Src0Sel)
			s.Src1Sel, e3 = selCode(in.Src1Sel)
			for _, e := range []error{e1, e2, e3} {
				if e != nil && err == nil {
					err = e
				}
			}
			if arch == CDNA3 && raw != nil {
				s.Omod = uint8(rawField("SDWA.OMOD", bits(hi, 14, 15)))
			}
			d.SDWA = &s
		}
	case insts.VOP3a:
		d.Format = VOP3a
		op(&d.Dst, in.Dst)
		op(&d.Src0, in.Src0)
		op(&d.Src1, in.Src1)
		op(&d.Src2, in.Src2)
		d.Abs, d.Neg, d.Omod, d.Clamp = uint8(in.Abs), uint8(in.Neg), uint8(in.Omod), in.Clamp
		if in.Opcode >= 896 { // ENCODING 110100111: VOP3P
			d.Format = VOP3P
			d.Opcode = int(in.Opcode) - 896
			d.NegHi, d.Abs = d.Abs, 0       // bits [10:8] are NEG_HI in VOP3P
			d.OpSelHi, d.Omod = d.Omod&3, 0 // bits [60:59] are OPSEL_HI in VOP3P
			d.OpSel = uint8(in.OpSel)
			d.OpSelHi |= uint8(in.OpSelHi) & 4
			if raw != nil {
				d.OpSel = uint8(bits(lo, 11, 13))
				d.OpSelHi = d.OpSelHi&3 | uint8(bits(lo, 14, 14))<<2
			}
		} else if arch == CDNA3 && raw != nil {
			d.OpSel = uint8(rawField("VOP3a.OPSEL", bits(lo, 11, 14)))
		}
	case insts.VOP3b:
		d.Format = VOP3b
		op(&d.Dst, in.Dst)
		op(&d.SDst, in.SDst)
		op(&d.Src0, in.Src0)
		op(&d.Src1, in.Src1)
		op(&d.Src2, in.Src2)
		d.Neg, d.Omod, d.Clamp = uint8(in.Neg), uint8(in.Omod), in.Clamp
	case insts.DS:
		d.Format = DS
		op(&d.Addr, in.Addr)
		op(&d.Data, in.Data)
		op(&d.Data1, in.Data1)
		op(&d.Dst, in.Dst)
		d.Offset0, d.Offset1 = uint8(in.Offset0), uint8(in.Offset1)
		d.GDS = in.GDS
		if arch == CDNA3 && raw != nil {
			d.ACC = rawField("DS.ACC", bits(lo, 25, 25)) != 0
		}
	case insts.FLAT:
		d.Format = FLAT
		op(&d.Addr, in.Addr)
		op(&d.Data, in.Data)
		op(&d.Dst, in.Dst)
		d.GLC, d.SLC, d.TFE = in.GlobalLevelCoherent, in.SystemLevelCoherent, in.TextureFailEnable
		if arch == CDNA3 {
			d.Offset = int64(int32(in.Offset0))
			if in.SAddr != nil {
				d.SAddr = Raw(int(in.SAddr.IntValue))
			}
			if raw != nil {
				d.Seg = uint8(rawField("FLAT.SEG", bits(lo, 14, 15)))
				d.LDS = rawField("FLAT.LDS", bits(lo, 13, 13)) != 0
				d.SC1 = rawField("FLAT.SC1", bits(lo, 25, 25)) != 0
			}
		}
	default:
		return d, un, fmt.Errorf("gcnasm: format %s not supported", in.FormatName)
	}
	return d, un, err
}
