package gcnasm

import (
	"bytes"
	"debug/elf"
	"fmt"
	"io/fs"
	"os"
	"path/filepath"
	"strings"
	"testing"

	"github.com/sarchlab/mgpusim/v4/amd/insts"
)

func repoDir() string {
	if d := os.Getenv("VERIF_REPO_DIR"); d != "" {
		return d
	}
	return "/repo"
}

// TestKnownEncodings checks a few words whose assembly is documented in the
// manuals / LLVM MC tests (independent of the simulator).
func TestKnownEncodings(t *testing.T) {
	cases := []struct {
		d    Desc
		want string
	}{
		{MkSOP2(0, S(0), S(1), S(2)), "01020080"},                                           // s_add_u32 s0, s1, s2
		{MkSOP1(0, S(5), Lit(0x12345678)), "ff0085be78563412"},                              // s_mov_b32 s5, 0x12345678
		{MkSOPP(OpSEndpgm, 0), "000081bf"},                                                  // s_endpgm
		{MkSOPP(OpSWaitcnt, 0x007f), "7f008cbf"},                                            // s_waitcnt lgkmcnt(0)
		{MkSOPK(0, S(3), 0xffff), "ffff03b0"},                                               // s_movk_i32 s3, -1
		{MkSOPC(0, S(1), Imm(0)), "018000bf"},                                               // s_cmp_eq_i32 s1, 0
		{MkVOP1(1, V(1), V(2)), "0203027e"},                                                 // v_mov_b32 v1, v2
		{MkVOP2(1, V(0), V(1), V(2)), "01050002"},                                           // v_add_f32 v0, v1, v2
		{MkVOPC(0xCA, V(0), V(1)), "0003947d"},                                              // v_cmp_eq_u32 vcc, v0, v1
		{SMEMLoadImm(OpSLoadDwordx2, SRange(0, 2), SRange(4, 2), 0x10), "020006c010000000"}, // s_load_dwordx2 s[0:1], s[4:5], 0x10
		{FlatLoad(OpFlatLoadDword, V(1), VRange(2, 2)), "000050dc02000001"},                 // flat_load_dword v1, v[2:3]
		{FlatStore(OpFlatStoreDword, VRange(2, 2), V(1)), "000070dc02010000"},               // flat_store_dword v[2:3], v1
		{DSRead(OpDSReadB32, V(1), V(2), 4), "04006cd802000001"},                            // ds_read_b32 v1, v2 offset:4
		{MkVOP3a(449, V(0), V(1), V(2), V(3)), "0000c1d101050e04"},                          // v_mad_f32 v0, v1, v2, v3
		{GlobalLoad(OpFlatLoadDword, V(1), VRange(2, 2), Off, 4), "048050dc02007f01"},       // global_load_dword v1, v[2:3], off offset:4
	}
	for _, c := range cases {
		b, err := Encode(c.d)
		if err != nil {
			t.Errorf("%+v: %v", c.d, err)
			continue
		}
		if got := fmt.Sprintf("%x", b); got != c.want {
			t.Errorf("%s op %d: got %s want %s", c.d.Format, c.d.Opcode, got, c.want)
		}
	}
}

func TestProgramLabels(t *testing.T) {
	p := NewProgram(GCN3)
	p.Label("top").Add(Nop(0), Branch(OpSCbranchSCC1, "end"), Branch(OpSBranch, "top")).Label("end").Add(Endpgm())
	b := p.MustBytes()
	if got, want := fmt.Sprintf("%x", b), "000080bf"+"010085bf"+"fdff82bf"+"000081bf"; got != want {
		t.Fatalf("got %s want %s", got, want)
	}
}

// TestCorpusRoundTrip: encode(FromInst(decode(word))) == word for every
// instruction of every kernel in every shipped .hsaco.
func TestCorpusRoundTrip(t *testing.T) {
	var files []string
	_ = filepath.WalkDir(filepath.Join(repoDir(), "amd"), func(p string, d fs.DirEntry, err error) error {
		if err == nil && !d.IsDir() && strings.HasSuffix(p, ".hsaco") {
			files = append(files, p)
		}
		return nil
	})
	if len(files) == 0 {
		t.Skip("no hsaco files")
	}
	total, bad := 0, 0
	for _, f := range files {
		data, err := os.ReadFile(f)
		if err != nil {
			t.Fatal(err)
		}
		ef, err := elf.NewFile(bytes.NewReader(data))
		if err != nil {
			t.Fatal(err)
		}
		arch := GCN3
		if len(data) >= 52 && data[48] == 0x4c { // e_flags & EF_AMDGPU_MACH = GFX942
			arch = CDNA3
		}
		syms, _ := ef.Symbols()
		text := ef.Section(".text")
		for _, s := range syms {
			if s.Size == 0 || int(s.Section) >= len(ef.Sections) || ef.Sections[s.Section] != text {
				continue
			}
			co := insts.LoadKernelCodeObjectFromBytes(data, s.Name)
			dis := insts.NewDisassembler()
			dis.IsCDNA3 = arch == CDNA3
			buf := co.Data
			for pc := 0; pc < len(buf); {
				in, err := dis.Decode(buf[pc:])
				if err != nil {
					t.Errorf("%s %s pc=%#x: %v", filepath.Base(f), s.Name, pc, err)
					break
				}
				raw := buf[pc : pc+in.ByteSize]
				d, _, err := FromInst(in, arch, raw)
				total++
				if err != nil {
					t.Errorf("%s %s pc=%#x %s: FromInst: %v", filepath.Base(f), s.Name, pc, in.InstName, err)
					bad++
				} else if enc, err := Encode(d); err != nil || !bytes.Equal(enc, raw) {
					bad++
					if bad < 4000 {
						t.Errorf("%s %s pc=%#x %s: encode=%x err=%v raw=%x", filepath.Base(f), s.Name, pc, in.InstName, enc, err, raw)
					}
				}
				pc += in.ByteSize
			}
		}
	}
	t.Logf("files=%d instructions=%d mismatches=%d", len(files), total, bad)
}
