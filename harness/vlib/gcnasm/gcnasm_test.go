package gcnasm

import (
	"bytes"
	"debug/elf"
	"encoding/json"
	"fmt"
	"io/fs"
	"os"
	"path/filepath"
	"strings"
	"testing"

	"github.com/sarchlab/mgpusim/v4/amd/insts"
)

func repoDir() string {
	if d := os.Getenv("VERIF_REPO_DIR"); d != "" {
		return d
	}
	return "/repo"
}

// TestKnownEncodings checks a few words whose assembly is documented in the
// manuals / LLVM MC tests (independent of the simulator).
func TestKnownEncodings(t *testing.T) {
	cases := []struct {
		d    Desc
		want string
	}{
		{MkSOP2(0, S(0), S(1), S(2)), "01020080"},                                           // s_add_u32 s0, s1, s2
		{MkSOP1(0, S(5), Lit(0x12345678)), "ff0085be78563412"},                              // s_mov_b32 s5, 0x12345678
		{MkSOPP(OpSEndpgm, 0), "000081bf"},                                                  // s_endpgm
		{MkSOPP(OpSWaitcnt, 0x007f), "7f008cbf"},                                            // s_waitcnt lgkmcnt(0)
		{MkSOPK(0, S(3), 0xffff), "ffff03b0"},                                               // s_movk_i32 s3, -1
		{MkSOPC(0, S(1), Imm(0)), "018000bf"},                                               // s_cmp_eq_i32 s1, 0
		{MkVOP1(1, V(1), V(2)), "0203027e"},                                                 // v_mov_b32 v1, v2
		{MkVOP2(1, V(0), V(1), V(2)), "01050002"},                                           // v_add_f32 v0, v1, v2
		{MkVOPC(0xCA, V(0), V(1)), "0003947d"},                                              // v_cmp_eq_u32 vcc, v0, v1
		{SMEMLoadImm(OpSLoadDwordx2, SRange(0, 2), SRange(4, 2), 0x10), "020006c010000000"}, // s_load_dwordx2 s[0:1], s[4:5], 0x10
		{FlatLoad(OpFlatLoadDword, V(1), VRange(2, 2)), "000050dc02000001"},                 // flat_load_dword v1, v[2:3]
		{FlatStore(OpFlatStoreDword, VRange(2, 2), V(1)), "000070dc02010000"},               // flat_store_dword v[2:3], v1
		{DSRead(OpDSReadB32, V(1), V(2), 4), "04006cd802000001"},                            // ds_read_b32 v1, v2 offset:4
		{MkVOP3a(449, V(0), V(1), V(2), V(3)), "0000c1d101050e04"},                          // v_mad_f32 v0, v1, v2, v3
		{GlobalLoad(OpFlatLoadDword, V(1), VRange(2, 2), Off, 4), "048050dc02007f01"},       // global_load_dword v1, v[2:3], off offset:4
		// LLVM MC (vop_sdwa.s, vop_dpp.s, gfx90a packed fp32, gfx9 smem)
		{MkVOP1(1, V(1), V(2)).WithSDWA(SDWA{DstSel: SelByte0, DstUnused: UnusedPreserve, Src0Sel: SelDWord}), "f902027e02100600"},                // v_mov_b32_sdwa v1, v2 dst_sel:BYTE_0 dst_unused:UNUSED_PRESERVE src0_sel:DWORD
		{Desc{Format: VOP1, Opcode: 1, Dst: V(0), Src0: V(0), DPP: &DPP{Ctrl: 0x58, BankMask: 0xf, RowMask: 0xf}}, "fa02007e005800ff"},            // v_mov_b32_dpp v0, v0 quad_perm:[0,2,1,1] row_mask:0xf bank_mask:0xf
		{Desc{Arch: CDNA3, Format: VOP3P, Opcode: 50, Dst: VRange(0, 2), Src0: VRange(2, 2), Src1: VRange(4, 2), OpSelHi: 7}, "0040b2d302090218"}, // v_pk_add_f32 v[0:1], v[2:3], v[4:5]
		{SMEMLoadImm(OpSLoadDword, S(5), SRange(2, 2), 0x10).For(CDNA3), "410102c010000000"},                                                      // s_load_dword s5, s[2:3], 0x10
		{MkVOP3b(481, VRange(0, 2), VCC, VRange(2, 2), VRange(4, 2), VRange(6, 2)), "006ae1d102091a04"},                                           // v_div_scale_f64 v[0:1], vcc, v[2:3], v[4:5], v[6:7]
		{MkVOP3a(0xca, SRange(10, 2), V(1), Imm(0), Operand{}), "0a00cad001010100"},                                                               // v_cmp_eq_u32_e64 s[10:11], v1, 0
	}
	for _, c := range cases {
		b, err := Encode(c.d)
		if err != nil {
			t.Errorf("%+v: %v", c.d, err)
			continue
		}
		if got := fmt.Sprintf("%x", b); got != c.want {
			t.Errorf("%s op %d: got %s want %s", c.d.Format, c.d.Opcode, got, c.want)
		}
	}
}

func TestProgramLabels(t *testing.T) {
	p := NewProgram(GCN3)
	p.Label("top").Add(Nop(0), Branch(OpSCbranchSCC1, "end"), Branch(OpSBranch, "top")).Label("end").Add(Endpgm())
	b := p.MustBytes()
	if got, want := fmt.Sprintf("%x", b), "000080bf"+"010085bf"+"fdff82bf"+"000081bf"; got != want {
		t.Fatalf("got %s want %s", got, want)
	}
}

// TestCorpusRoundTrip: encode(FromInst(decode(word))) == word for every
// instruction of every kernel in every shipped .hsaco.
func TestCorpusRoundTrip(t *testing.T) {
	var files []string
	_ = filepath.WalkDir(filepath.Join(repoDir(), "amd"), func(p string, d fs.DirEntry, err error) error {
		if err == nil && !d.IsDir() && strings.HasSuffix(p, ".hsaco") {
			files = append(files, p)
		}
		return nil
	})
	if len(files) == 0 {
		t.Skip("no hsaco files")
	}
	total, bad := 0, 0
	lossy := map[string]int{}
	for _, f := range files {
		data, err := os.ReadFile(f)
		if err != nil {
			t.Fatal(err)
		}
		ef, err := elf.NewFile(bytes.NewReader(data))
		if err != nil {
			t.Fatal(err)
		}
		arch := GCN3
		if len(data) >= 52 && data[48] == 0x4c { // e_flags & EF_AMDGPU_MACH = GFX942
			arch = CDNA3
		}
		syms, _ := ef.Symbols()
		text := ef.Section(".text")
		for _, s := range syms {
			if s.Size == 0 || int(s.Section) >= len(ef.Sections) || ef.Sections[s.Section] != text {
				continue
			}
			co := insts.LoadKernelCodeObjectFromBytes(data, s.Name)
			dis := insts.NewDisassembler()
			dis.IsCDNA3 = arch == CDNA3
			buf := co.Data
			for pc := 0; pc < len(buf); {
				in, err := dis.Decode(buf[pc:])
				if err != nil {
					t.Logf("%s %s pc=%#x: decoder stops: %v (finding of check C04)", filepath.Base(f), s.Name, pc, err)
					break
				}
				raw := buf[pc : pc+in.ByteSize]
				d, _, err := FromInst(in, arch, raw)
				total++
				if err != nil {
					t.Errorf("%s %s pc=%#x %s: FromInst: %v", filepath.Base(f), s.Name, pc, in.InstName, err)
					bad++
				} else if enc, err := Encode(d); err != nil {
					bad++
					t.Errorf("%s %s pc=%#x %s: encode: %v", filepath.Base(f), s.Name, pc, in.InstName, err)
				} else if !bytes.Equal(enc, raw) {
					// The encoder is at fault only if the simulator can tell the two
					// encodings apart; if both decode to the same image, the image
					// (not the encoder) lost or invented the differing bits. Those
					// cases are findings of check C04, not failures of this package.
					in2, err2 := dis.Decode(enc)
					if err2 == nil && sameImage(in, in2) {
						lossy[in.InstName]++
					} else {
						bad++
						if bad < 40 {
							t.Errorf("%s %s pc=%#x %s: encode=%x raw=%x", filepath.Base(f), s.Name, pc, in.InstName, enc, raw)
						}
					}
				}
				pc += in.ByteSize
			}
		}
	}
	t.Logf("files=%d instructions=%d encoder mismatches=%d, decoder-lossy re-encodings by mnemonic: %v", len(files), total, bad, lossy)
	if total < 30000 {
		t.Errorf("only %d instructions in the corpus", total)
	}
}

// sameImage compares the fields FromInst reads.
func sameImage(a, b *insts.Inst) bool {
	da, _, ea := FromInst(a, CDNA3, nil)
	db, _, eb := FromInst(b, CDNA3, nil)
	if ea != nil || eb != nil {
		return false
	}
	ja, _ := json.Marshal(da)
	jb, _ := json.Marshal(db)
	return string(ja) == string(jb) && a.ByteSize == b.ByteSize
}
