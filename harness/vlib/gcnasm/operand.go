// Package gcnasm is an instruction encoder ("assembler back end") for the AMD
// GCN3 / CDNA3 microcode formats that sarchlab/mgpusim decodes: SOP2, SOPK,
// SOP1, SOPC, SOPP, SMEM, VOP2, VOP1, VOPC, VOP3a, VOP3b, VOP3P, DS and
// FLAT/GLOBAL/SCRATCH, including the SDWA / DPP second dword and 32-bit
// literal constants.
//
// It is written from the field tables of the ISA manuals (docs/cdna3_insts.pdf
// chapter 13 "Microcode Formats"; GCN3 ISA manual chapter 13), not from the
// simulator's decoder, so that it can serve as the inverse in
// decode(encode(d)) = d checks. encode.go and operand.go do not import the
// simulator; only frominst.go (Inst -> Desc) does.
package gcnasm

import (
	"fmt"
	"math"
)

// Arch selects the ISA generation where the microcode differs.
type Arch int

// Architectures.
const (
	GCN3  Arch = iota // gfx803 ("Volcanic Islands")
	CDNA3             // gfx942 (GFX9 encoding family)
)

func (a Arch) String() string {
	if a == CDNA3 {
		return "cdna3"
	}
	return "gcn3"
}

// Operand codes of the 8/9-bit source operand fields (SSRC/SRC) as listed in
// the manuals' SSRC0/SRC0 tables.
const (
	CodeSGPR0       = 0 // .. 101
	CodeSGPRMax     = 101
	CodeFlatScrLo   = 102
	CodeFlatScrHi   = 103
	CodeXnackMaskLo = 104
	CodeXnackMaskHi = 105
	CodeVCCLo       = 106
	CodeVCCHi       = 107
	CodeTBALo       = 108 // GCN3; CDNA3: TTMP0
	CodeTBAHi       = 109
	CodeTMALo       = 110
	CodeTMAHi       = 111
	CodeTTMP0       = 112 // GCN3 TTMP0..TTMP11 = 112..123
	CodeTTMP11      = 123
	CodeM0          = 124
	CodeEXECLo      = 126
	CodeEXECHi      = 127
	CodeInt0        = 128 // 128 = 0, 129..192 = 1..64
	CodeIntPosMax   = 192
	CodeIntNeg1     = 193 // 193..208 = -1..-16
	CodeIntNegMax   = 208
	CodeSharedBase  = 235 // CDNA3 only
	CodeSharedLimit = 236
	CodePrivBase    = 237
	CodePrivLimit   = 238
	CodeFloatHalf   = 240 // 0.5, -0.5, 1.0, -1.0, 2.0, -2.0, 4.0, -4.0
	CodeInv2Pi      = 248
	CodeSDWA        = 249
	CodeDPP         = 250
	CodeVCCZ        = 251
	CodeEXECZ       = 252
	CodeSCC         = 253
	CodeLDSDirect   = 254
	CodeLiteral     = 255
	CodeVGPR0       = 256 // .. 511
)

// Kind is the kind of an operand.
type Kind uint8

// Operand kinds.
const (
	KNone    Kind = iota // operand absent
	KSGPR                // s<Index> .. s<Index+Width-1>
	KVGPR                // v<Index> .. v<Index+Width-1>
	KSpecial             // special register with operand code Index (VCC_LO, M0, ...)
	KInt                 // inline integer constant -16..64 (Int)
	KFloat               // inline float constant (Float): ±0.5 ±1 ±2 ±4, 1/(2π)
	KLiteral             // 32-bit literal constant (Lit) following the instruction
	KRaw                 // raw operand code Index (for ill-formed encodings)
)

// Operand describes one operand of an instruction description.
type Operand struct {
	Kind  Kind    `json:"kind"`
	Index int     `json:"index,omitempty"`
	Int   int64   `json:"int,omitempty"`
	Float float64 `json:"float,omitempty"`
	Lit   uint32  `json:"lit,omitempty"`
	// Width is the number of consecutive 32-bit registers the operand covers
	// (0 = unspecified / 1). It is not encoded; it is what the opcode implies.
	Width int `json:"width,omitempty"`
}

// S is SGPR n.
func S(n int) Operand { return Operand{Kind: KSGPR, Index: n, Width: 1} }

// SRange is s[n : n+w-1].
func SRange(n, w int) Operand { return Operand{Kind: KSGPR, Index: n, Width: w} }

// V is VGPR n.
func V(n int) Operand { return Operand{Kind: KVGPR, Index: n, Width: 1} }

// VRange is v[n : n+w-1].
func VRange(n, w int) Operand { return Operand{Kind: KVGPR, Index: n, Width: w} }

// Special is the special register with the given operand code.
func Special(code, width int) Operand { return Operand{Kind: KSpecial, Index: code, Width: width} }

// Frequently used special registers.
var (
	VCC    = Special(CodeVCCLo, 2)
	VCCLo  = Special(CodeVCCLo, 1)
	VCCHi  = Special(CodeVCCHi, 1)
	EXEC   = Special(CodeEXECLo, 2)
	EXECLo = Special(CodeEXECLo, 1)
	EXECHi = Special(CodeEXECHi, 1)
	M0     = Special(CodeM0, 1)
	SCC    = Special(CodeSCC, 1)
	VCCZ   = Special(CodeVCCZ, 1)
	EXECZ  = Special(CodeEXECZ, 1)
	// Off is the "no scalar address" value of the FLAT SADDR field (0x7F).
	Off = Operand{Kind: KRaw, Index: 0x7F}
)

// Imm is the inline integer constant i (-16..64).
func Imm(i int) Operand { return Operand{Kind: KInt, Int: int64(i)} }

// F is the inline float constant f (±0.5, ±1, ±2, ±4, or Inv2Pi).
func F(f float64) Operand { return Operand{Kind: KFloat, Float: f} }

// Inv2Pi is the value of inline constant 248.
const Inv2Pi = 1.0 / (2.0 * math.Pi)

// Lit is a 32-bit literal constant.
func Lit(v uint32) Operand { return Operand{Kind: KLiteral, Lit: v} }

// Raw is an operand given by its raw field code.
func Raw(code int) Operand { return Operand{Kind: KRaw, Index: code} }

// IsLiteral reports whether the operand needs a trailing literal dword.
func (o Operand) IsLiteral() bool {
	return o.Kind == KLiteral || (o.Kind == KRaw && o.Index == CodeLiteral)
}

// W returns the operand width in registers, at least 1.
func (o Operand) W() int {
	if o.Width < 1 {
		return 1
	}
	return o.Width
}

// WithWidth returns a copy with the width set.
func (o Operand) WithWidth(w int) Operand { o.Width = w; return o }

var inlineFloats = []float64{0.5, -0.5, 1.0, -1.0, 2.0, -2.0, 4.0, -4.0, Inv2Pi}

// SrcCode returns the 9-bit source-operand code (SRC0 of the vector formats;
// the scalar formats use the low 8 bits and cannot name VGPRs).
func (o Operand) SrcCode() (int, error) {
	switch o.Kind {
	case KSGPR:
		if o.Index < 0 || o.Index+o.W()-1 > CodeSGPRMax {
			return 0, fmt.Errorf("gcnasm: SGPR s[%d:%d] out of range", o.Index, o.Index+o.W()-1)
		}
		return o.Index, nil
	case KVGPR:
		if o.Index < 0 || o.Index+o.W()-1 > 255 {
			return 0, fmt.Errorf("gcnasm: VGPR v[%d:%d] out of range", o.Index, o.Index+o.W()-1)
		}
		return CodeVGPR0 + o.Index, nil
	case KSpecial, KRaw:
		if o.Index < 0 || o.Index > 511 {
			return 0, fmt.Errorf("gcnasm: operand code %d out of range", o.Index)
		}
		return o.Index, nil
	case KInt:
		switch {
		case o.Int >= 0 && o.Int <= 64:
			return CodeInt0 + int(o.Int), nil
		case o.Int >= -16 && o.Int < 0:
			return CodeIntPosMax + int(-o.Int), nil
		}
		return 0, fmt.Errorf("gcnasm: %d is not an inline integer constant", o.Int)
	case KFloat:
		for i, f := range inlineFloats {
			if f == o.Float {
				return CodeFloatHalf + i, nil
			}
		}
		return 0, fmt.Errorf("gcnasm: %v is not an inline float constant", o.Float)
	case KLiteral:
		return CodeLiteral, nil
	}
	return 0, fmt.Errorf("gcnasm: operand missing")
}

// OperandOfCode is the inverse of SrcCode for well-defined codes (ok=false for
// reserved codes). Width is left 1. arch matters only for codes 235..238.
func OperandOfCode(code int, arch Arch) (Operand, bool) {
	switch {
	case code >= 0 && code <= CodeSGPRMax:
		return S(code), true
	case code >= CodeFlatScrLo && code <= CodeTTMP11, code == CodeM0, code == CodeEXECLo, code == CodeEXECHi:
		return Special(code, 1), true
	case code >= CodeInt0 && code <= CodeIntPosMax:
		return Imm(code - CodeInt0), true
	case code >= CodeIntNeg1 && code <= CodeIntNegMax:
		return Imm(-(code - CodeIntPosMax)), true
	case code >= CodeSharedBase && code <= CodePrivLimit:
		return Special(code, 1), arch == CDNA3
	case code >= CodeFloatHalf && code <= CodeInv2Pi:
		return F(inlineFloats[code-CodeFloatHalf]), true
	case code == CodeVCCZ, code == CodeEXECZ, code == CodeSCC:
		return Special(code, 1), true
	case code == CodeLiteral:
		return Lit(0), true
	case code >= CodeVGPR0 && code <= 511:
		return V(code - CodeVGPR0), true
	}
	return Raw(code), false
}

func (o Operand) String() string {
	switch o.Kind {
	case KNone:
		return "-"
	case KSGPR:
		if o.W() > 1 {
			return fmt.Sprintf("s[%d:%d]", o.Index, o.Index+o.W()-1)
		}
		return fmt.Sprintf("s%d", o.Index)
	case KVGPR:
		if o.W() > 1 {
			return fmt.Sprintf("v[%d:%d]", o.Index, o.Index+o.W()-1)
		}
		return fmt.Sprintf("v%d", o.Index)
	case KSpecial:
		return fmt.Sprintf("special(%d)x%d", o.Index, o.W())
	case KInt:
		return fmt.Sprintf("%d", o.Int)
	case KFloat:
		return fmt.Sprintf("%g", o.Float)
	case KLiteral:
		return fmt.Sprintf("lit(0x%x)", o.Lit)
	case KRaw:
		return fmt.Sprintf("raw(%d)", o.Index)
	}
	return "?"
}
