package gcnasm

import "fmt"

// Program is a list of instructions and labels that assembles to bytes.
// Branch instructions (SOPP with Desc.Target, also SOPK S_CALL_B64 /
// S_CBRANCH_I_FORK) get SIMM16 = (label - (pc+4)) / 4.
type Program struct {
	Arch  Arch
	items []progItem
}

type progItem struct {
	label string
	raw   []byte
	d     *Desc
}

// NewProgram creates an empty program for an architecture; the architecture
// is stamped on every Desc added.
func NewProgram(arch Arch) *Program { return &Program{Arch: arch} }

// Add appends instructions.
func (p *Program) Add(ds ...Desc) *Program {
	for i := range ds {
		d := ds[i]
		d.Arch = p.Arch
		p.items = append(p.items, progItem{d: &d})
	}
	return p
}

// Label defines a label at the current position.
func (p *Program) Label(name string) *Program {
	p.items = append(p.items, progItem{label: name})
	return p
}

// Raw appends raw bytes (data words, deliberately ill-formed encodings).
func (p *Program) Raw(b ...byte) *Program {
	p.items = append(p.items, progItem{raw: append([]byte(nil), b...)})
	return p
}

// Len returns the number of instructions (labels and raw blocks excluded).
func (p *Program) Len() int {
	n := 0
	for _, it := range p.items {
		if it.d != nil {
			n++
		}
	}
	return n
}

// Assemble returns the code and the byte offset of every instruction (in Add
// order) and of every label.
func (p *Program) Assemble() (code []byte, instOffsets []int, labels map[string]int, err error) {
	// pass 1: sizes (SIMM16 does not change the size)
	labels = map[string]int{}
	pc := 0
	for _, it := range p.items {
		switch {
		case it.label != "":
			if _, dup := labels[it.label]; dup {
				return nil, nil, nil, fmt.Errorf("gcnasm: label %q defined twice", it.label)
			}
			labels[it.label] = pc
		case it.raw != nil:
			pc += len(it.raw)
		default:
			b, e := Encode(*it.d)
			if e != nil {
				return nil, nil, nil, fmt.Errorf("gcnasm: instruction at 0x%x: %w", pc, e)
			}
			pc += len(b)
		}
	}
	// pass 2
	pc = 0
	for _, it := range p.items {
		switch {
		case it.label != "":
		case it.raw != nil:
			code = append(code, it.raw...)
			pc += len(it.raw)
		default:
			d := *it.d
			if d.Target != "" {
				t, ok := labels[d.Target]
				if !ok {
					return nil, nil, nil, fmt.Errorf("gcnasm: undefined label %q", d.Target)
				}
				delta := t - (pc + 4)
				if delta%4 != 0 || delta/4 < -32768 || delta/4 > 32767 {
					return nil, nil, nil, fmt.Errorf("gcnasm: branch to %q out of range", d.Target)
				}
				d.SImm16 = uint16(int16(delta / 4))
			}
			b, e := Encode(d)
			if e != nil {
				return nil, nil, nil, e
			}
			instOffsets = append(instOffsets, pc)
			code = append(code, b...)
			pc += len(b)
		}
	}
	return code, instOffsets, labels, nil
}

// Bytes assembles the program.
func (p *Program) Bytes() ([]byte, error) {
	b, _, _, err := p.Assemble()
	return b, err
}

// MustBytes is Bytes that panics on error.
func (p *Program) MustBytes() []byte {
	b, err := p.Bytes()
	if err != nil {
		panic(err)
	}
	return b
}
