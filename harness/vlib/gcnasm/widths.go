package gcnasm

import (
	"regexp"
	"strconv"
	"strings"
)

// Widths are the operand sizes an opcode implies, in 32-bit registers
// (0 = the instruction does not use that operand). They are derived from the
// instruction name following the manuals' naming scheme
// (<op>_<dst type>[_<src type>], b/i/u/f + bit count) plus the explicit
// exceptions the instruction descriptions state. Known=false means the rule
// set does not cover the instruction (no expectation).
type Widths struct {
	Known                      bool
	Dst, Src0, Src1, Src2      int
	SDst                       int // VOP3b scalar destination
	Addr, Data, Data1, MemDst  int // DS / FLAT / SMEM (Data = SDATA)
	DstIsSGPR, Src1IsLaneSel   bool
	ImplicitVCCDst, NoVOP3Src2 bool
}

var typeTok = regexp.MustCompile(`^[biuf](4|8|16|24|32|64|96|128)$`)

func tokWidth(t string) int {
	n, _ := strconv.Atoi(t[1:])
	if n <= 32 {
		return 1
	}
	return n / 32
}

// nameTypes returns the widths of the type tokens in the name, in order.
func nameTypes(name string) []int {
	var out []int
	for _, p := range strings.Split(name, "_") {
		if typeTok.MatchString(p) {
			out = append(out, tokWidth(p))
		}
	}
	return out
}

// NormName lower-cases a mnemonic and strips encoding suffixes (_e32, _e64,
// _sdwa, _dpp).
func NormName(n string) string {
	n = strings.ToLower(n)
	for _, s := range []string{"_e32", "_e64", "_sdwa", "_dpp"} {
		n = strings.TrimSuffix(n, s)
	}
	return n
}

func has(name string, subs ...string) bool {
	for _, s := range subs {
		if strings.Contains(name, s) {
			return true
		}
	}
	return false
}

// WidthsOf returns the operand widths implied by the instruction name in the
// given format. For VOP3a/VOP3b pass the (promoted) instruction's name and
// opcode: opcodes 0..255 are VOPC promotions (64-bit SGPR destination),
// 256..319 VOP2 promotions, 320..447 VOP1 promotions.
func WidthsOf(f Format, opcode int, name string) Widths {
	n := NormName(name)
	ty := nameTypes(n)
	dstT, srcT := 1, 1
	if len(ty) >= 1 {
		dstT, srcT = ty[0], ty[0]
	}
	if len(ty) >= 2 {
		srcT = ty[len(ty)-1]
	}
	w := Widths{Known: true}
	switch f {
	case SOP2:
		w.Dst, w.Src0, w.Src1 = dstT, srcT, srcT
		switch {
		case has(n, "s_lshl_b64", "s_lshr_b64", "s_ashr_i64"), has(n, "s_bfe_u64", "s_bfe_i64"):
			w.Src1 = 1 // shift count / (offset,width) are 32-bit
		case has(n, "s_bfm_b64"):
			w.Src0, w.Src1 = 1, 1
		case has(n, "s_cbranch_g_fork"):
			w.Dst, w.Src0, w.Src1 = 0, 2, 2
		case has(n, "s_rfe_restore_b64"):
			w.Dst, w.Src0, w.Src1 = 0, 2, 1
		case has(n, "s_pack_"):
			w.Dst, w.Src0, w.Src1 = 1, 1, 1
		}
	case SOP1:
		w.Dst, w.Src0 = dstT, srcT
		switch {
		case has(n, "s_bitset0_b64", "s_bitset1_b64"):
			w.Src0 = 1
		case has(n, "s_getpc_b64"):
			w.Src0 = 0
		case has(n, "s_setpc_b64", "s_rfe_b64"):
			w.Dst = 0
		case has(n, "s_cbranch_join", "s_set_gpr_idx_idx"):
			w.Dst, w.Src0 = 0, 1
		case has(n, "s_bitreplicate_b64_b32"):
			w.Dst, w.Src0 = 2, 1
		}
	case SOPC:
		w.Src0, w.Src1 = srcT, srcT
		switch {
		case has(n, "s_bitcmp0_b64", "s_bitcmp1_b64"):
			w.Src1 = 1
		case has(n, "s_setvskip", "s_set_gpr_idx_on"):
			w.Src0, w.Src1 = 1, 1
		}
	case SOPK:
		w.Dst = 1
		switch {
		case has(n, "s_call_b64", "s_cbranch_i_fork"):
			w.Dst = 2
		case has(n, "s_setreg_imm32_b32"):
			w.Dst = 0
		}
	case SOPP:
	case SMEM:
		w.Addr = 2
		switch {
		case has(n, "s_buffer_"):
			w.Addr = 4
		}
		switch {
		case has(n, "dwordx16"):
			w.Data = 16
		case has(n, "dwordx8"):
			w.Data = 8
		case has(n, "dwordx4"):
			w.Data = 4
		case has(n, "dwordx2"), has(n, "s_memtime", "s_memrealtime"):
			w.Data = 2
		case has(n, "dword"):
			w.Data = 1
		case has(n, "s_dcache"):
			w.Data, w.Addr = 0, 0
		default:
			w.Known = false // atomics, scratch, probes: not modelled
		}
		if has(n, "s_memtime", "s_memrealtime") {
			w.Addr = 0
		}
	case VOP1, VOP2, VOPC, VOP3a, VOP3b, VOP3P:
		w = valuWidths(f, opcode, n, ty, dstT, srcT)
	case DS:
		w = dsWidths(n, ty)
	case FLAT:
		w = flatWidths(n)
	default:
		w.Known = false
	}
	return w
}

//nolint:gocyclo
func valuWidths(f Format, opcode int, n string, ty []int, dstT, srcT int) Widths {
	w := Widths{Known: true, Dst: dstT, Src0: srcT, Src1: srcT}
	isCmp := strings.HasPrefix(n, "v_cmp_") || strings.HasPrefix(n, "v_cmpx_")
	// names the rules below do not cover
	if has(n, "interp", "mfma", "smfmac", "fp8", "bf8", "accvgpr", "v_dot", "_pk_") && !has(n, "v_pk_fma_f32", "v_pk_mul_f32", "v_pk_add_f32", "v_pk_mov_b32", "v_cvt_pk") && !has(n, "qsad") {
		return Widths{}
	}
	switch {
	case isCmp:
		w.Dst = 0
		w.ImplicitVCCDst = true
		if has(n, "_class_") {
			w.Src1 = 1 // class mask is 32-bit
		}
		if f == VOP3a || f == VOP3b {
			w.Dst, w.DstIsSGPR = 2, true
		}
	case n == "v_nop", n == "v_clrexcp":
		w.Dst, w.Src0, w.Src1 = 0, 0, 0
	case n == "v_readfirstlane_b32":
		w.DstIsSGPR = true
	case n == "v_readlane_b32":
		w.DstIsSGPR, w.Src1IsLaneSel = true, true
	case n == "v_writelane_b32":
		w.Src1IsLaneSel = true
	case has(n, "v_cvt_pk"), has(n, "v_cvt_pknorm", "v_cvt_pkrtz", "v_cvt_pkaccum"):
		w.Dst, w.Src0, w.Src1 = 1, 1, 1
	case has(n, "v_lshlrev_b64", "v_lshrrev_b64", "v_ashrrev_i64"):
		w.Dst, w.Src0, w.Src1 = 2, 1, 2
	case has(n, "v_lshl_b64", "v_lshr_b64", "v_ashr_i64"):
		w.Dst, w.Src0, w.Src1 = 2, 2, 1
	case has(n, "v_ldexp_f64", "v_trig_preop_f64"):
		w.Dst, w.Src0, w.Src1 = 2, 2, 1
	case has(n, "v_mad_u64_u32", "v_mad_i64_i32"):
		w.Dst, w.Src0, w.Src1, w.Src2, w.SDst = 2, 1, 1, 2, 2
		return w
	case has(n, "v_mqsad_u32_u8"):
		w.Dst, w.Src0, w.Src1, w.Src2 = 4, 2, 1, 4
		return w
	case has(n, "v_qsad_pk_u16_u8", "v_mqsad_pk_u16_u8"):
		w.Dst, w.Src0, w.Src1, w.Src2 = 2, 2, 1, 2
		return w
	case has(n, "v_lshl_add_u64"):
		w.Dst, w.Src0, w.Src1, w.Src2 = 2, 2, 1, 2
		return w
	case has(n, "v_div_scale_f32"):
		w.Dst, w.Src0, w.Src1, w.Src2, w.SDst = 1, 1, 1, 1, 2
		return w
	case has(n, "v_div_scale_f64"):
		w.Dst, w.Src0, w.Src1, w.Src2, w.SDst = 2, 2, 2, 2, 2
		return w
	case has(n, "v_div_fmas_f32"):
		w.Dst, w.Src0, w.Src1, w.Src2 = 1, 1, 1, 1
		return w
	case has(n, "v_div_fmas_f64"):
		w.Dst, w.Src0, w.Src1, w.Src2 = 2, 2, 2, 2
		return w
	case has(n, "v_pk_fma_f32"):
		w.Dst, w.Src0, w.Src1, w.Src2 = 2, 2, 2, 2
		return w
	case has(n, "v_pk_mul_f32", "v_pk_add_f32", "v_pk_mov_b32"):
		w.Dst, w.Src0, w.Src1 = 2, 2, 2
		return w
	case has(n, "v_mbcnt", "v_bcnt"):
		w.Dst, w.Src0, w.Src1 = 1, 1, 1
	}
	switch f {
	case VOP1:
		w.Src1 = 0
	case VOPC:
	case VOP2:
		if has(n, "v_madmk", "v_madak", "v_fmamk", "v_fmaak") {
			w.Src2 = 1 // the literal K
		}
	case VOP3a, VOP3b, VOP3P:
		switch {
		case opcode >= 320 && opcode < 448 && f != VOP3P: // VOP1 promotions
			w.Src1 = 0
		case opcode >= 256 && opcode < 320 && f != VOP3P: // VOP2 promotions
			switch {
			case n == "v_cndmask_b32":
				w.Src2 = 2 // lane mask SGPR pair
			case has(n, "v_addc_", "v_subb_", "v_subbrev_"):
				w.Src2, w.SDst = 2, 2 // carry in / carry out
			case has(n, "v_add_u32", "v_sub_u32", "v_subrev_u32", "v_add_co_u32", "v_sub_co_u32", "v_subrev_co_u32"):
				if f == VOP3b {
					w.SDst = 2
				}
			case has(n, "v_mac_", "v_fmac_"):
				// accumulate into VDST: no SRC2 field use
			}
		case opcode >= 448 || f == VOP3P:
			if isCmp {
				break
			}
			three := has(n, "v_mad_", "v_fma_", "v_cube", "v_bfe_", "v_bfi_", "v_lerp_", "v_alignbit", "v_alignbyte",
				"v_min3_", "v_max3_", "v_med3_", "v_sad_", "v_msad_", "v_cvt_pk_u8_f32", "v_div_fixup", "v_perm_b32",
				"v_lshl_add_", "v_add_lshl_", "v_add3_", "v_lshl_or_", "v_and_or_", "v_or3_", "v_xad_", "v_mad_legacy")
			if three {
				w.Src2 = srcT
				if has(n, "v_cvt_pk_u8_f32") {
					w.Src2 = 1
				}
			}
		}
	}
	return w
}

func dsWidths(n string, ty []int) Widths {
	w := Widths{Known: true, Addr: 1}
	t := 1
	if len(ty) > 0 {
		t = ty[len(ty)-1]
	}
	rtn := has(n, "_rtn_")
	switch {
	case n == "ds_nop":
		w.Addr = 0
	case has(n, "ds_gws_", "ds_ordered_count", "ds_consume", "ds_append", "addtid", "_src2_", "condxchg", "ds_swizzle", "d16", "ds_pk_", "ds_wrap"):
		return Widths{} // not modelled
	case has(n, "ds_read2"):
		w.MemDst = 2 * t
	case has(n, "ds_read_"):
		w.MemDst = t
	case has(n, "ds_write2"):
		w.Data, w.Data1 = t, t
	case has(n, "ds_write_"):
		w.Data = t
	case has(n, "ds_wrxchg2"):
		w.Data, w.Data1, w.MemDst = t, t, 2*t
	case has(n, "ds_cmpst_", "ds_mskor_"):
		w.Data, w.Data1 = t, t
		if rtn {
			w.MemDst = t
		}
	case has(n, "ds_permute_b32", "ds_bpermute_b32"):
		w.Data, w.MemDst = 1, 1
	default: // add/sub/rsub/inc/dec/min/max/and/or/xor/wrxchg[_rtn]
		w.Data = t
		if rtn {
			w.MemDst = t
		}
	}
	return w
}

func flatWidths(n string) Widths {
	w := Widths{Known: true, Addr: 2}
	n = strings.Replace(strings.Replace(n, "global_", "flat_", 1), "scratch_", "flat_", 1)
	cnt := 1
	switch {
	case has(n, "dwordx4"):
		cnt = 4
	case has(n, "dwordx3"):
		cnt = 3
	case has(n, "dwordx2"):
		cnt = 2
	}
	switch {
	case has(n, "_lds_"), has(n, "d16"):
		return Widths{}
	case has(n, "flat_load_"):
		w.MemDst = cnt
	case has(n, "flat_store_"):
		w.Data = cnt
	case has(n, "flat_atomic_"):
		t := 1
		if has(n, "_x2") || has(n, "f64") {
			t = 2
		}
		w.Data, w.MemDst = t, t
		if has(n, "cmpswap") {
			w.Data = 2 * t
		}
	default:
		return Widths{}
	}
	return w
}
