package gcnasm

import (
	"encoding/binary"
	"fmt"
)

// Format is a microcode format.
type Format int

// Formats the encoder supports.
const (
	SOP2 Format = iota
	SOPK
	SOP1
	SOPC
	SOPP
	SMEM
	VOP2
	VOP1
	VOPC
	VOP3a
	VOP3b
	VOP3P // CDNA3 packed math; occupies VOP3 opcodes 896+OP in the 10-bit view
	DS
	FLAT // FLAT, GLOBAL and SCRATCH (field Seg)
	NumFormats
)

var formatNames = [...]string{"sop2", "sopk", "sop1", "sopc", "sopp", "smem", "vop2", "vop1", "vopc", "vop3a", "vop3b", "vop3p", "ds", "flat"}

func (f Format) String() string {
	if f >= 0 && int(f) < len(formatNames) {
		return formatNames[f]
	}
	return fmt.Sprintf("format(%d)", int(f))
}

// SDWA select values (DST_SEL, SRC0_SEL, SRC1_SEL).
const (
	SelByte0 = 0
	SelByte1 = 1
	SelByte2 = 2
	SelByte3 = 3
	SelWord0 = 4
	SelWord1 = 5
	SelDWord = 6
)

// SDWA DST_UNUSED values.
const (
	UnusedPad      = 0
	UnusedSext     = 1
	UnusedPreserve = 2
)

// SDWA is the sub-dword-addressing second dword of VOP1/VOP2/VOPC (SRC0 of
// the first dword = 249). The real source 0 is Desc.Src0 (VGPR, or SGPR on
// CDNA3 which sets the S0 bit; likewise Src1/S1 for VOP2/VOPC).
type SDWA struct {
	DstSel    uint8 `json:"dst_sel"`
	DstUnused uint8 `json:"dst_unused"`
	Clamp     bool  `json:"clamp,omitempty"`
	Omod      uint8 `json:"omod,omitempty"` // CDNA3 only
	Src0Sel   uint8 `json:"src0_sel"`
	Src0Sext  bool  `json:"src0_sext,omitempty"`
	Src0Neg   bool  `json:"src0_neg,omitempty"`
	Src0Abs   bool  `json:"src0_abs,omitempty"`
	Src1Sel   uint8 `json:"src1_sel"`
	Src1Sext  bool  `json:"src1_sext,omitempty"`
	Src1Neg   bool  `json:"src1_neg,omitempty"`
	Src1Abs   bool  `json:"src1_abs,omitempty"`
	// VOPC on CDNA3 (SDWAB layout): scalar destination. SD=false means VCC.
	SD   bool    `json:"sd,omitempty"`
	SDst Operand `json:"sdst,omitempty"`
}

// DPP is the data-parallel-primitives second dword (SRC0 of the first dword = 250).
type DPP struct {
	Ctrl      uint16 `json:"ctrl"` // 9 bits
	BoundCtrl bool   `json:"bound_ctrl,omitempty"`
	Src0Neg   bool   `json:"src0_neg,omitempty"`
	Src0Abs   bool   `json:"src0_abs,omitempty"`
	Src1Neg   bool   `json:"src1_neg,omitempty"`
	Src1Abs   bool   `json:"src1_abs,omitempty"`
	BankMask  uint8  `json:"bank_mask"`
	RowMask   uint8  `json:"row_mask"`
}

// FLAT segment values (CDNA3 SEG field).
const (
	SegFlat    = 0
	SegScratch = 1
	SegGlobal  = 2
)

// Desc is the description of one instruction. Only the fields of the chosen
// Format are used; Encode rejects values that do not fit their field.
type Desc struct {
	Arch   Arch   `json:"arch"`
	Format Format `json:"format"`
	Opcode int    `json:"opcode"`
	Name   string `json:"name,omitempty"` // informational

	// ALU operands. VOPC has no Dst (VCC implied); VOP3 promotions of VOPC put
	// the SGPR-pair destination into Dst. VOP3b: Dst = VDST, SDst = SDST.
	Dst  Operand `json:"dst,omitempty"`
	Src0 Operand `json:"src0,omitempty"`
	Src1 Operand `json:"src1,omitempty"`
	Src2 Operand `json:"src2,omitempty"`
	SDst Operand `json:"sdst,omitempty"`

	// VOP3a/VOP3b/VOP3P modifiers. Abs/Neg/NegHi/OpSel: bit i = source i.
	Abs     uint8 `json:"abs,omitempty"`
	Neg     uint8 `json:"neg,omitempty"`
	Clamp   bool  `json:"clamp,omitempty"`
	Omod    uint8 `json:"omod,omitempty"`
	OpSel   uint8 `json:"op_sel,omitempty"`    // VOP3a (CDNA3): 4 bits [14:11]; VOP3P: 3 bits [13:11]
	OpSelHi uint8 `json:"op_sel_hi,omitempty"` // VOP3P: bit0,1 = [59],[60]; bit2 = [14]
	NegHi   uint8 `json:"neg_hi,omitempty"`    // VOP3P [10:8]

	SDWA *SDWA `json:"sdwa,omitempty"`
	DPP  *DPP  `json:"dpp,omitempty"`

	// SOPK / SOPP. If Target is set, Program resolves SImm16 as a branch offset.
	SImm16 uint16 `json:"simm16,omitempty"`
	Target string `json:"target,omitempty"`
	// Literal32 follows S_SETREG_IMM32_B32 (SOPK) when HasLiteral32 is set.
	HasLiteral32 bool   `json:"has_literal32,omitempty"`
	Literal32    uint32 `json:"literal32,omitempty"`

	// Memory formats.
	Addr    Operand `json:"addr,omitempty"`    // DS ADDR, FLAT ADDR (VGPR)
	Data    Operand `json:"data,omitempty"`    // SMEM SDATA, DS DATA0, FLAT DATA
	Data1   Operand `json:"data1,omitempty"`   // DS DATA1
	Base    Operand `json:"base,omitempty"`    // SMEM SBASE (even-aligned SGPR pair/quad)
	SAddr   Operand `json:"saddr,omitempty"`   // FLAT SADDR (CDNA3): SGPR pair or Off
	SOffset Operand `json:"soffset,omitempty"` // SMEM: SGPR/M0 offset register (IMM=0), CDNA3 also SOE
	Imm     bool    `json:"imm,omitempty"`     // SMEM IMM bit: Offset is an immediate
	SOE     bool    `json:"soe,omitempty"`     // SMEM CDNA3: SOFFSET_EN together with an immediate
	Offset  int64   `json:"offset,omitempty"`  // SMEM immediate (GCN3 20 bit unsigned, CDNA3 21 bit signed); FLAT 13 bit signed (CDNA3)
	Offset0 uint8   `json:"offset0,omitempty"` // DS
	Offset1 uint8   `json:"offset1,omitempty"` // DS
	GDS     bool    `json:"gds,omitempty"`
	GLC     bool    `json:"glc,omitempty"` // SMEM/FLAT bit 16 (CDNA3 FLAT: SC0)
	SLC     bool    `json:"slc,omitempty"` // FLAT bit 17 (CDNA3: NT)
	TFE     bool    `json:"tfe,omitempty"` // FLAT bit 55 (GCN3 TFE; CDNA3 ACC)
	NV      bool    `json:"nv,omitempty"`  // SMEM bit 15 (CDNA3)
	LDS     bool    `json:"lds,omitempty"` // FLAT bit 13 (CDNA3)
	SC1     bool    `json:"sc1,omitempty"` // FLAT bit 25 (CDNA3)
	ACC     bool    `json:"acc,omitempty"` // DS bit 25 (CDNA3)
	Seg     uint8   `json:"seg,omitempty"` // FLAT SEG (CDNA3)
}

type word struct {
	v   uint64
	err error
}

func (w *word) put(name string, lo, hi uint, val uint64) {
	n := hi - lo + 1
	if val >= 1<<n {
		if w.err == nil {
			w.err = fmt.Errorf("gcnasm: value %d does not fit field %s[%d:%d]", val, name, hi, lo)
		}
		return
	}
	w.v |= val << lo
}

func b2u(b bool) uint64 {
	if b {
		return 1
	}
	return 0
}

// encoder state for the optional second / literal dword of 32-bit formats.
type tail struct {
	has bool
	val uint32
	err error
}

func (t *tail) set(v uint32, what string) {
	if t.has && t.val != v {
		if t.err == nil {
			t.err = fmt.Errorf("gcnasm: instruction needs two different trailing dwords (%s)", what)
		}
		return
	}
	t.has, t.val = true, v
}

// ssrc encodes an 8-bit scalar source.
func ssrc(w *word, t *tail, name string, lo uint, o Operand) {
	c, err := o.SrcCode()
	if err != nil {
		if w.err == nil {
			w.err = fmt.Errorf("%s: %w", name, err)
		}
		return
	}
	if c > 255 {
		if w.err == nil {
			w.err = fmt.Errorf("gcnasm: %s cannot be a VGPR (code %d)", name, c)
		}
		return
	}
	w.put(name, lo, lo+7, uint64(c))
	if o.Kind == KLiteral {
		t.set(o.Lit, name)
	}
}

// sdst encodes a 7-bit scalar destination.
func sdst(w *word, name string, lo uint, o Operand) {
	if o.Kind == KNone {
		return // field stays 0 (instructions without destination)
	}
	c, err := o.SrcCode()
	if err != nil {
		if w.err == nil {
			w.err = fmt.Errorf("%s: %w", name, err)
		}
		return
	}
	w.put(name, lo, lo+6, uint64(c))
}

// src9 encodes a 9-bit vector source.
func src9(w *word, t *tail, name string, lo uint, o Operand, allowLit bool) {
	if o.Kind == KNone {
		return
	}
	c, err := o.SrcCode()
	if err != nil {
		if w.err == nil {
			w.err = fmt.Errorf("%s: %w", name, err)
		}
		return
	}
	if o.Kind == KLiteral {
		if !allowLit {
			if w.err == nil {
				w.err = fmt.Errorf("gcnasm: %s cannot be a literal in this format", name)
			}
			return
		}
		t.set(o.Lit, name)
	}
	w.put(name, lo, lo+8, uint64(c))
}

// vgpr8 encodes an 8-bit VGPR field. KNone leaves 0.
func vgpr8(w *word, name string, lo uint, o Operand) {
	switch o.Kind {
	case KNone:
		return
	case KVGPR:
		if o.Index < 0 || o.Index+o.W()-1 > 255 {
			if w.err == nil {
				w.err = fmt.Errorf("gcnasm: %s v[%d:%d] out of range", name, o.Index, o.Index+o.W()-1)
			}
			return
		}
		w.put(name, lo, lo+7, uint64(o.Index))
	case KRaw:
		w.put(name, lo, lo+7, uint64(o.Index))
	default:
		if w.err == nil {
			w.err = fmt.Errorf("gcnasm: %s must be a VGPR, got %v", name, o)
		}
	}
}

// Encode returns the machine code of d (4 or 8 bytes, little endian dwords).
func Encode(d Desc) ([]byte, error) {
	var w word
	var t tail
	size := 4
	switch d.Format {
	case SOP2:
		ssrc(&w, &t, "SSRC0", 0, d.Src0)
		ssrc(&w, &t, "SSRC1", 8, d.Src1)
		sdst(&w, "SDST", 16, d.Dst)
		w.put("OP", 23, 29, uint64(d.Opcode))
		w.put("ENCODING", 30, 31, 0b10)
	case SOPK:
		w.put("SIMM16", 0, 15, uint64(d.SImm16))
		sdst(&w, "SDST", 16, d.Dst)
		w.put("OP", 23, 27, uint64(d.Opcode))
		w.put("ENCODING", 28, 31, 0b1011)
		if d.HasLiteral32 {
			t.set(d.Literal32, "IMM32")
		}
	case SOP1:
		if d.Src0.Kind != KNone {
			ssrc(&w, &t, "SSRC0", 0, d.Src0)
		}
		w.put("OP", 8, 15, uint64(d.Opcode))
		sdst(&w, "SDST", 16, d.Dst)
		w.put("ENCODING", 23, 31, 0b101111101)
	case SOPC:
		ssrc(&w, &t, "SSRC0", 0, d.Src0)
		ssrc(&w, &t, "SSRC1", 8, d.Src1)
		w.put("OP", 16, 22, uint64(d.Opcode))
		w.put("ENCODING", 23, 31, 0b101111110)
	case SOPP:
		w.put("SIMM16", 0, 15, uint64(d.SImm16))
		w.put("OP", 16, 22, uint64(d.Opcode))
		w.put("ENCODING", 23, 31, 0b101111111)
	case SMEM:
		size = 8
		encodeSMEM(&w, d)
	case VOP2:
		encodeVSrc0(&w, &t, d)
		vgpr8orSGPRForSDWA(&w, "VSRC1", 9, d, d.Src1)
		vgpr8(&w, "VDST", 17, d.Dst)
		w.put("OP", 25, 30, uint64(d.Opcode))
		w.put("ENCODING", 31, 31, 0)
		// V_MADMK/V_MADAK (V_FMAMK/V_FMAAK) carry their constant K in Src2.
		if d.Src2.Kind == KLiteral {
			t.set(d.Src2.Lit, "K")
		} else if d.Src2.Kind != KNone {
			w.err = fmt.Errorf("gcnasm: VOP2 Src2 can only be the literal K of madmk/madak")
		}
	case VOP1:
		if d.Src0.Kind != KNone || d.SDWA != nil || d.DPP != nil {
			encodeVSrc0(&w, &t, d)
		}
		w.put("OP", 9, 16, uint64(d.Opcode))
		// V_READFIRSTLANE_B32 writes an SGPR: VDST then holds the SGPR number.
		switch d.Dst.Kind {
		case KSGPR, KSpecial:
			c, err := d.Dst.SrcCode()
			if err != nil {
				w.err = err
			}
			w.put("VDST", 17, 24, uint64(c))
		default:
			vgpr8(&w, "VDST", 17, d.Dst)
		}
		w.put("ENCODING", 25, 31, 0b0111111)
	case VOPC:
		encodeVSrc0(&w, &t, d)
		vgpr8orSGPRForSDWA(&w, "VSRC1", 9, d, d.Src1)
		w.put("OP", 17, 24, uint64(d.Opcode))
		w.put("ENCODING", 25, 31, 0b0111110)
	case VOP3a, VOP3b, VOP3P:
		size = 8
		encodeVOP3(&w, d)
	case DS:
		size = 8
		w.put("OFFSET0", 0, 7, uint64(d.Offset0))
		w.put("OFFSET1", 8, 15, uint64(d.Offset1))
		w.put("GDS", 16, 16, b2u(d.GDS))
		w.put("OP", 17, 24, uint64(d.Opcode))
		if d.ACC {
			if d.Arch != CDNA3 {
				w.err = fmt.Errorf("gcnasm: DS ACC exists on CDNA3 only")
			}
			w.put("ACC", 25, 25, 1)
		}
		w.put("ENCODING", 26, 31, 0b110110)
		vgpr8(&w, "ADDR", 32, d.Addr)
		vgpr8(&w, "DATA0", 40, d.Data)
		vgpr8(&w, "DATA1", 48, d.Data1)
		vgpr8(&w, "VDST", 56, d.Dst)
	case FLAT:
		size = 8
		encodeFLAT(&w, d)
	default:
		return nil, fmt.Errorf("gcnasm: unknown format %d", int(d.Format))
	}
	if w.err != nil {
		return nil, w.err
	}
	if t.err != nil {
		return nil, t.err
	}
	if size == 8 {
		out := make([]byte, 8)
		binary.LittleEndian.PutUint64(out, w.v)
		return out, nil
	}
	out := make([]byte, 4, 8)
	binary.LittleEndian.PutUint32(out, uint32(w.v))
	if t.has {
		out = binary.LittleEndian.AppendUint32(out, t.val)
	}
	return out, nil
}

// MustEncode is Encode that panics on error.
func MustEncode(d Desc) []byte {
	b, err := Encode(d)
	if err != nil {
		panic(err)
	}
	return b
}

// encodeVSrc0 encodes SRC0[8:0] of VOP1/VOP2/VOPC including the SDWA / DPP
// escape (the real source 0 then lives in the second dword).
func encodeVSrc0(w *word, t *tail, d Desc) {
	switch {
	case d.SDWA != nil && d.DPP != nil:
		w.err = fmt.Errorf("gcnasm: SDWA and DPP are mutually exclusive")
	case d.SDWA != nil:
		w.put("SRC0", 0, 8, CodeSDWA)
		v, err := encodeSDWA(d)
		if err != nil {
			w.err = err
			return
		}
		t.set(v, "SDWA")
	case d.DPP != nil:
		w.put("SRC0", 0, 8, CodeDPP)
		v, err := encodeDPP(d)
		if err != nil {
			w.err = err
			return
		}
		t.set(v, "DPP")
	default:
		src9(w, t, "SRC0", 0, d.Src0, true)
	}
}

// vgpr8orSGPRForSDWA: VSRC1 is a VGPR, except that a CDNA3 SDWA instruction
// may name an SGPR there (S1 bit of the SDWA dword).
func vgpr8orSGPRForSDWA(w *word, name string, lo uint, d Desc, o Operand) {
	if d.SDWA != nil && (o.Kind == KSGPR || o.Kind == KSpecial) {
		if d.Arch != CDNA3 {
			w.err = fmt.Errorf("gcnasm: SGPR as SDWA %s needs CDNA3", name)
			return
		}
		c, err := o.SrcCode()
		if err != nil || c > 255 {
			w.err = fmt.Errorf("gcnasm: bad SDWA scalar %s", name)
			return
		}
		w.put(name, lo, lo+7, uint64(c))
		return
	}
	vgpr8(w, name, lo, o)
}

func sdwaSrc(o Operand, arch Arch, which string) (code uint64, scalar bool, err error) {
	switch o.Kind {
	case KVGPR:
		if o.Index < 0 || o.Index > 255 {
			return 0, false, fmt.Errorf("gcnasm: SDWA %s VGPR out of range", which)
		}
		return uint64(o.Index), false, nil
	case KRaw:
		return uint64(o.Index & 0xff), false, nil
	case KSGPR, KSpecial, KInt, KFloat:
		if arch != CDNA3 {
			return 0, false, fmt.Errorf("gcnasm: SDWA %s must be a VGPR on GCN3", which)
		}
		c, e := o.SrcCode()
		if e != nil || c > 255 {
			return 0, false, fmt.Errorf("gcnasm: bad SDWA scalar %s", which)
		}
		return uint64(c), true, nil
	}
	return 0, false, fmt.Errorf("gcnasm: SDWA %s missing", which)
}

func encodeSDWA(d Desc) (uint32, error) {
	s := d.SDWA
	var w word
	c0, s0, err := sdwaSrc(d.Src0, d.Arch, "SRC0")
	if err != nil {
		return 0, err
	}
	w.put("SDWA.SRC0", 0, 7, c0)
	if d.Format == VOPC && d.Arch == CDNA3 {
		// SDWAB: scalar destination instead of DST_SEL/DST_U/CLMP/OMOD.
		if s.SD {
			c, e := s.SDst.SrcCode()
			if e != nil || c > 127 {
				return 0, fmt.Errorf("gcnasm: bad SDWAB SDST")
			}
			w.put("SDWA.SDST", 8, 14, uint64(c))
			w.put("SDWA.SD", 15, 15, 1)
		}
	} else {
		w.put("SDWA.DST_SEL", 8, 10, uint64(s.DstSel))
		w.put("SDWA.DST_U", 11, 12, uint64(s.DstUnused))
		w.put("SDWA.CLMP", 13, 13, b2u(s.Clamp))
		if s.Omod != 0 {
			if d.Arch != CDNA3 {
				return 0, fmt.Errorf("gcnasm: SDWA OMOD exists on CDNA3 only")
			}
			w.put("SDWA.OMOD", 14, 15, uint64(s.Omod))
		}
	}
	w.put("SDWA.SRC0_SEL", 16, 18, uint64(s.Src0Sel))
	w.put("SDWA.SRC0_SEXT", 19, 19, b2u(s.Src0Sext))
	w.put("SDWA.SRC0_NEG", 20, 20, b2u(s.Src0Neg))
	w.put("SDWA.SRC0_ABS", 21, 21, b2u(s.Src0Abs))
	w.put("SDWA.S0", 23, 23, b2u(s0))
	w.put("SDWA.SRC1_SEL", 24, 26, uint64(s.Src1Sel))
	w.put("SDWA.SRC1_SEXT", 27, 27, b2u(s.Src1Sext))
	w.put("SDWA.SRC1_NEG", 28, 28, b2u(s.Src1Neg))
	w.put("SDWA.SRC1_ABS", 29, 29, b2u(s.Src1Abs))
	if d.Format != VOP1 && (d.Src1.Kind == KSGPR || d.Src1.Kind == KSpecial) {
		w.put("SDWA.S1", 31, 31, 1)
	}
	return uint32(w.v), w.err
}

func encodeDPP(d Desc) (uint32, error) {
	p := d.DPP
	var w word
	if d.Src0.Kind != KVGPR && d.Src0.Kind != KRaw {
		return 0, fmt.Errorf("gcnasm: DPP SRC0 must be a VGPR")
	}
	w.put("DPP.SRC0", 0, 7, uint64(d.Src0.Index))
	w.put("DPP.DPP_CTRL", 8, 16, uint64(p.Ctrl))
	w.put("DPP.BC", 19, 19, b2u(p.BoundCtrl))
	w.put("DPP.SRC0_NEG", 20, 20, b2u(p.Src0Neg))
	w.put("DPP.SRC0_ABS", 21, 21, b2u(p.Src0Abs))
	w.put("DPP.SRC1_NEG", 22, 22, b2u(p.Src1Neg))
	w.put("DPP.SRC1_ABS", 23, 23, b2u(p.Src1Abs))
	w.put("DPP.BANK_MASK", 24, 27, uint64(p.BankMask))
	w.put("DPP.ROW_MASK", 28, 31, uint64(p.RowMask))
	return uint32(w.v), w.err
}

func encodeSMEM(w *word, d Desc) {
	// SBASE: SGPR pair (or quad for buffer ops); the LSB of the SGPR number is dropped.
	switch d.Base.Kind {
	case KSGPR, KSpecial:
		c, err := d.Base.SrcCode()
		if err != nil {
			w.err = err
			return
		}
		if c%2 != 0 || c > 127 {
			w.err = fmt.Errorf("gcnasm: SMEM SBASE must be an even-aligned SGPR, got code %d", c)
			return
		}
		w.put("SBASE", 0, 5, uint64(c/2))
	case KRaw:
		w.put("SBASE", 0, 5, uint64(d.Base.Index))
	case KNone:
	default:
		w.err = fmt.Errorf("gcnasm: bad SMEM SBASE %v", d.Base)
		return
	}
	switch d.Data.Kind {
	case KNone:
	case KRaw:
		w.put("SDATA", 6, 12, uint64(d.Data.Index))
	default:
		c, err := d.Data.SrcCode()
		if err != nil {
			w.err = err
			return
		}
		w.put("SDATA", 6, 12, uint64(c))
	}
	w.put("GLC", 16, 16, b2u(d.GLC))
	w.put("IMM", 17, 17, b2u(d.Imm))
	w.put("OP", 18, 25, uint64(d.Opcode))
	w.put("ENCODING", 26, 31, 0b110000)
	soff := func() (uint64, bool) {
		c, err := d.SOffset.SrcCode()
		if err != nil || c > 127 {
			w.err = fmt.Errorf("gcnasm: SMEM offset register must be an SGPR or M0")
			return 0, false
		}
		return uint64(c), true
	}
	if d.Arch == GCN3 {
		if d.NV || d.SOE {
			w.err = fmt.Errorf("gcnasm: SMEM NV/SOE exist on CDNA3 only")
			return
		}
		if d.Imm {
			if d.Offset < 0 {
				w.err = fmt.Errorf("gcnasm: GCN3 SMEM immediate offset is unsigned")
				return
			}
			w.put("OFFSET", 32, 51, uint64(d.Offset))
		} else if d.SOffset.Kind != KNone {
			if c, ok := soff(); ok {
				w.put("OFFSET", 32, 51, c)
			}
		}
		return
	}
	w.put("NV", 15, 15, b2u(d.NV))
	w.put("SOE", 14, 14, b2u(d.SOE))
	if d.Imm {
		if d.Offset < -(1<<20) || d.Offset >= 1<<20 {
			w.err = fmt.Errorf("gcnasm: CDNA3 SMEM immediate offset is a signed 21-bit value")
			return
		}
		w.put("OFFSET", 32, 52, uint64(d.Offset)&(1<<21-1))
		if d.SOE {
			if c, ok := soff(); ok {
				w.put("SOFFSET", 57, 63, c)
			}
		}
	} else if d.SOffset.Kind != KNone {
		// IMM=0: OFFSET holds the SGPR number.
		if c, ok := soff(); ok {
			w.put("OFFSET", 32, 52, c)
		}
	}
}

func encodeVOP3(w *word, d Desc) {
	var t tail // VOP3 cannot carry literals
	// VDST: VGPR, or for compares / v_readlane an SGPR code in the 8-bit field.
	switch d.Dst.Kind {
	case KNone:
	case KVGPR, KRaw:
		vgpr8(w, "VDST", 0, d.Dst)
	default:
		c, err := d.Dst.SrcCode()
		if err != nil || c > 255 {
			w.err = fmt.Errorf("gcnasm: bad VOP3 scalar VDST")
			return
		}
		w.put("VDST", 0, 7, uint64(c))
	}
	switch d.Format {
	case VOP3a:
		w.put("ABS", 8, 10, uint64(d.Abs))
		if d.OpSel != 0 {
			if d.Arch != CDNA3 {
				w.err = fmt.Errorf("gcnasm: VOP3a OPSEL exists on CDNA3 only")
				return
			}
			w.put("OPSEL", 11, 14, uint64(d.OpSel))
		}
	case VOP3b:
		if d.Abs != 0 {
			w.err = fmt.Errorf("gcnasm: VOP3b has no ABS field")
			return
		}
		sdst(w, "SDST", 8, d.SDst)
	case VOP3P:
		w.put("NEG_HI", 8, 10, uint64(d.NegHi))
		w.put("OPSEL", 11, 13, uint64(d.OpSel))
		w.put("OPSEL_HI2", 14, 14, uint64(d.OpSelHi>>2)&1)
	}
	w.put("CLMP", 15, 15, b2u(d.Clamp))
	if d.Format == VOP3P {
		w.put("OP", 16, 22, uint64(d.Opcode))
		w.put("ENCODING", 23, 31, 0b110100111)
	} else {
		w.put("OP", 16, 25, uint64(d.Opcode))
		w.put("ENCODING", 26, 31, 0b110100)
	}
	src9(w, &t, "SRC0", 32, d.Src0, false)
	src9(w, &t, "SRC1", 41, d.Src1, false)
	src9(w, &t, "SRC2", 50, d.Src2, false)
	if d.Format == VOP3P {
		if d.Omod != 0 {
			w.err = fmt.Errorf("gcnasm: VOP3P has no OMOD field")
			return
		}
		w.put("OPSEL_HI", 59, 60, uint64(d.OpSelHi)&3)
	} else {
		w.put("OMOD", 59, 60, uint64(d.Omod))
	}
	w.put("NEG", 61, 63, uint64(d.Neg))
}

func encodeFLAT(w *word, d Desc) {
	if d.Arch == GCN3 {
		if d.Offset != 0 || d.Seg != 0 || d.LDS || d.SC1 || d.SAddr.Kind != KNone {
			w.err = fmt.Errorf("gcnasm: FLAT OFFSET/SEG/LDS/SC1/SADDR exist on CDNA3 only")
			return
		}
	} else {
		if d.Offset < -(1<<12) || d.Offset >= 1<<12 {
			w.err = fmt.Errorf("gcnasm: FLAT offset is a signed 13-bit value")
			return
		}
		if d.Seg == SegFlat && d.Offset < 0 {
			w.err = fmt.Errorf("gcnasm: FLAT (SEG=0) offset is unsigned 12 bit")
			return
		}
		w.put("OFFSET", 0, 12, uint64(d.Offset)&(1<<13-1))
		w.put("LDS", 13, 13, b2u(d.LDS))
		w.put("SEG", 14, 15, uint64(d.Seg))
		w.put("SC1", 25, 25, b2u(d.SC1))
		switch d.SAddr.Kind {
		case KNone:
			// FLAT segment: field unused; GLOBAL/SCRATCH: no scalar base = 0x7F
			if d.Seg != SegFlat {
				w.put("SADDR", 48, 54, 0x7F)
			}
		case KRaw:
			w.put("SADDR", 48, 54, uint64(d.SAddr.Index))
		default:
			c, err := d.SAddr.SrcCode()
			if err != nil || c > 127 {
				w.err = fmt.Errorf("gcnasm: bad FLAT SADDR")
				return
			}
			w.put("SADDR", 48, 54, uint64(c))
		}
	}
	w.put("GLC", 16, 16, b2u(d.GLC))
	w.put("SLC", 17, 17, b2u(d.SLC))
	w.put("OP", 18, 24, uint64(d.Opcode))
	w.put("ENCODING", 26, 31, 0b110111)
	vgpr8(w, "ADDR", 32, d.Addr)
	vgpr8(w, "DATA", 40, d.Data)
	w.put("TFE", 55, 55, b2u(d.TFE))
	vgpr8(w, "VDST", 56, d.Dst)
}
