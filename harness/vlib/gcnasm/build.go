package gcnasm

// Convenience constructors. They return a Desc for GCN3 (Arch zero value);
// Program.Add stamps the program's architecture, or use Desc.For(arch).
// Opcodes are numbers; use MustOpcode(arch, format, "name") to look them up,
// or the *N variants below that take the manual mnemonic.

// For returns a copy of d for the given architecture.
func (d Desc) For(a Arch) Desc { d.Arch = a; return d }

// MkSOP2 builds "op sdst, ssrc0, ssrc1".
func MkSOP2(op int, dst, s0, s1 Operand) Desc {
	return Desc{Format: SOP2, Opcode: op, Dst: dst, Src0: s0, Src1: s1}
}

// MkSOP1 builds "op sdst, ssrc0".
func MkSOP1(op int, dst, s0 Operand) Desc {
	return Desc{Format: SOP1, Opcode: op, Dst: dst, Src0: s0}
}

// MkSOPC builds "op ssrc0, ssrc1" (writes SCC).
func MkSOPC(op int, s0, s1 Operand) Desc {
	return Desc{Format: SOPC, Opcode: op, Src0: s0, Src1: s1}
}

// MkSOPK builds "op sdst, simm16".
func MkSOPK(op int, dst Operand, simm16 uint16) Desc {
	return Desc{Format: SOPK, Opcode: op, Dst: dst, SImm16: simm16}
}

// MkSOPP builds "op simm16".
func MkSOPP(op int, simm16 uint16) Desc { return Desc{Format: SOPP, Opcode: op, SImm16: simm16} }

// SOPP opcodes used by every kernel (identical on GCN3 and CDNA3).
const (
	OpSNop         = 0
	OpSEndpgm      = 1
	OpSBranch      = 2
	OpSCbranchSCC0 = 4
	OpSCbranchSCC1 = 5
	OpSCbranchVCCZ = 6
	OpSCbranchVCNZ = 7
	OpSCbranchEXZ  = 8
	OpSCbranchEXNZ = 9
	OpSBarrier     = 10
	OpSWaitcnt     = 12
)

// Branch builds a SOPP branch to a Program label.
func Branch(op int, label string) Desc { return Desc{Format: SOPP, Opcode: op, Target: label} }

// Endpgm is s_endpgm.
func Endpgm() Desc { return MkSOPP(OpSEndpgm, 0) }

// Barrier is s_barrier.
func Barrier() Desc { return MkSOPP(OpSBarrier, 0) }

// Nop is s_nop n.
func Nop(n uint16) Desc { return MkSOPP(OpSNop, n) }

// Waitcnt builds s_waitcnt with the GCN3 SIMM16 layout: vmcnt [3:0],
// expcnt [6:4], lgkmcnt [11:8] (CDNA3 additionally has vmcnt bits [15:14];
// pass values < 16 for portability). Use 15/7/15 for "do not wait".
func Waitcnt(vmcnt, expcnt, lgkmcnt int) Desc {
	return MkSOPP(OpSWaitcnt, uint16(vmcnt&0xf|(expcnt&7)<<4|(lgkmcnt&0xf)<<8))
}

// WaitcntAll is s_waitcnt vmcnt(0) expcnt(0) lgkmcnt(0).
func WaitcntAll() Desc { return MkSOPP(OpSWaitcnt, 0) }

// MkVOP2 builds "op vdst, src0, vsrc1".
func MkVOP2(op int, vdst, src0, vsrc1 Operand) Desc {
	return Desc{Format: VOP2, Opcode: op, Dst: vdst, Src0: src0, Src1: vsrc1}
}

// MkVOP2K builds v_madmk/v_madak style instructions with the constant K.
func MkVOP2K(op int, vdst, src0, vsrc1 Operand, k uint32) Desc {
	return Desc{Format: VOP2, Opcode: op, Dst: vdst, Src0: src0, Src1: vsrc1, Src2: Lit(k)}
}

// MkVOP1 builds "op vdst, src0".
func MkVOP1(op int, vdst, src0 Operand) Desc {
	return Desc{Format: VOP1, Opcode: op, Dst: vdst, Src0: src0}
}

// MkVOPC builds "op vcc, src0, vsrc1".
func MkVOPC(op int, src0, vsrc1 Operand) Desc {
	return Desc{Format: VOPC, Opcode: op, Src0: src0, Src1: vsrc1}
}

// MkVOP3a builds a VOP3a instruction; pass Operand{} for an unused src2. Set
// Abs/Neg/Clamp/Omod on the result as needed.
func MkVOP3a(op int, vdst, src0, src1, src2 Operand) Desc {
	return Desc{Format: VOP3a, Opcode: op, Dst: vdst, Src0: src0, Src1: src1, Src2: src2}
}

// MkVOP3b builds a VOP3b instruction (vdst, sdst, src0, src1, src2).
func MkVOP3b(op int, vdst, sdst, src0, src1, src2 Operand) Desc {
	return Desc{Format: VOP3b, Opcode: op, Dst: vdst, SDst: sdst, Src0: src0, Src1: src1, Src2: src2}
}

// WithSDWA attaches an SDWA dword (VOP1/VOP2/VOPC).
func (d Desc) WithSDWA(s SDWA) Desc { d.SDWA = &s; return d }

// DefaultSDWA selects full dwords and UNUSED_PAD (an SDWA no-op).
func DefaultSDWA() SDWA {
	return SDWA{DstSel: SelDWord, DstUnused: UnusedPad, Src0Sel: SelDWord, Src1Sel: SelDWord}
}

// SMEM opcodes (identical on GCN3 and CDNA3).
const (
	OpSLoadDword    = 0
	OpSLoadDwordx2  = 1
	OpSLoadDwordx4  = 2
	OpSLoadDwordx8  = 3
	OpSLoadDwordx16 = 4
)

// SMEMLoadImm builds "s_load_dword[xN] sdata, sbase, imm" (op = OpSLoadDword...).
func SMEMLoadImm(op int, sdata, sbase Operand, offset int64) Desc {
	return Desc{Format: SMEM, Opcode: op, Data: sdata, Base: sbase, Imm: true, Offset: offset}
}

// SMEMLoadSGPR builds "s_load_dword[xN] sdata, sbase, soffset".
func SMEMLoadSGPR(op int, sdata, sbase, soffset Operand) Desc {
	return Desc{Format: SMEM, Opcode: op, Data: sdata, Base: sbase, SOffset: soffset}
}

// FLAT opcodes (VI and GFX9 numbering).
const (
	OpFlatLoadUbyte    = 16
	OpFlatLoadSbyte    = 17
	OpFlatLoadUshort   = 18
	OpFlatLoadSshort   = 19
	OpFlatLoadDword    = 20
	OpFlatLoadDwordx2  = 21
	OpFlatLoadDwordx3  = 22
	OpFlatLoadDwordx4  = 23
	OpFlatStoreByte    = 24
	OpFlatStoreShort   = 26
	OpFlatStoreDword   = 28
	OpFlatStoreDwordx2 = 29
	OpFlatStoreDwordx3 = 30
	OpFlatStoreDwordx4 = 31
)

// FlatLoad builds "flat_load_* vdst, v[addr:addr+1]" (GCN3 form: no offset).
func FlatLoad(op int, vdst, addr Operand) Desc {
	return Desc{Format: FLAT, Opcode: op, Dst: vdst, Addr: addr}
}

// FlatStore builds "flat_store_* v[addr:addr+1], vdata".
func FlatStore(op int, addr, data Operand) Desc {
	return Desc{Format: FLAT, Opcode: op, Addr: addr, Data: data}
}

// GlobalLoad builds the CDNA3 "global_load_* vdst, vaddr, saddr|off offset:n".
// saddr = Off (or Operand{}) selects a 64-bit VGPR address.
func GlobalLoad(op int, vdst, addr, saddr Operand, offset int64) Desc {
	if saddr.Kind == KNone {
		saddr = Off
	}
	return Desc{Arch: CDNA3, Format: FLAT, Seg: SegGlobal, Opcode: op, Dst: vdst, Addr: addr, SAddr: saddr, Offset: offset}
}

// GlobalStore builds the CDNA3 "global_store_* vaddr, vdata, saddr|off offset:n".
func GlobalStore(op int, addr, data, saddr Operand, offset int64) Desc {
	if saddr.Kind == KNone {
		saddr = Off
	}
	return Desc{Arch: CDNA3, Format: FLAT, Seg: SegGlobal, Opcode: op, Addr: addr, Data: data, SAddr: saddr, Offset: offset}
}

// DS opcodes used most (identical on GCN3 and CDNA3).
const (
	OpDSAddU32    = 0
	OpDSWriteB32  = 13
	OpDSWrite2B32 = 14
	OpDSReadB32   = 54
	OpDSRead2B32  = 55
	OpDSWriteB64  = 77
	OpDSWrite2B64 = 78
	OpDSReadB64   = 118
	OpDSRead2B64  = 119
)

// DSRead builds "ds_read_* vdst, vaddr offset:off16".
func DSRead(op int, vdst, addr Operand, off16 uint16) Desc {
	return Desc{Format: DS, Opcode: op, Dst: vdst, Addr: addr, Offset0: uint8(off16), Offset1: uint8(off16 >> 8)}
}

// DSWrite builds "ds_write_* vaddr, vdata offset:off16".
func DSWrite(op int, addr, data Operand, off16 uint16) Desc {
	return Desc{Format: DS, Opcode: op, Addr: addr, Data: data, Offset0: uint8(off16), Offset1: uint8(off16 >> 8)}
}

// DSRead2 builds "ds_read2_* vdst, vaddr offset0:o0 offset1:o1".
func DSRead2(op int, vdst, addr Operand, o0, o1 uint8) Desc {
	return Desc{Format: DS, Opcode: op, Dst: vdst, Addr: addr, Offset0: o0, Offset1: o1}
}

// DSWrite2 builds "ds_write2_* vaddr, vdata0, vdata1 offset0:o0 offset1:o1".
func DSWrite2(op int, addr, d0, d1 Operand, o0, o1 uint8) Desc {
	return Desc{Format: DS, Opcode: op, Addr: addr, Data: d0, Data1: d1, Offset0: o0, Offset1: o1}
}

// N looks an opcode up by manual mnemonic and sets it on a Desc built with
// op = 0: gcnasm.MkSOP2(0, d, a, b).N(gcnasm.GCN3, "s_add_u32").
func (d Desc) N(arch Arch, name string) Desc {
	d.Arch = arch
	d.Opcode = MustOpcode(arch, d.Format, name)
	d.Name = NormName(name)
	return d
}
