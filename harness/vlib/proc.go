package vlib

import (
	"fmt"
	"os"
	"os/exec"
	"path/filepath"
	"runtime"
	"sync"
	"sync/atomic"
	"syscall"
	"time"
)

// ChildResult describes one finished child process.
type ChildResult struct {
	ExitCode int
	TimedOut bool
	OutPath  string // stdout+stderr
	RecPath  string // ChildRecorder file
	Dur      time.Duration
	Dir      string
}

var childSerial int64

// ChildEnvRec is the environment variable naming the child's record file.
const ChildEnvRec = "VERIF_CHILD_REC"

// IsChild reports whether this process was started by RunChild.
func IsChild() bool { return os.Getenv(ChildEnvRec) != "" }

// ChildRec returns the recorder of a child process.
func ChildRec() *ChildRecorder { return NewChildRecorder(os.Getenv(ChildEnvRec)) }

// RunChild re-executes this binary with args in its own scratch directory
// under base (cwd of the child, so akita_sim_*.sqlite3 files land there).
// The wall-clock timeout is a watchdog only: TimedOut means inconclusive.
func RunChild(base string, timeout time.Duration, env []string, args ...string) ChildResult {
	n := atomic.AddInt64(&childSerial, 1)
	dir := filepath.Join(base, fmt.Sprintf("child-%05d", n))
	_ = os.MkdirAll(dir, 0o755)
	res := ChildResult{
		OutPath: filepath.Join(dir, "out.txt"),
		RecPath: filepath.Join(dir, "rec.jsonl"),
		Dir:     dir,
	}
	exe, err := os.Executable()
	if err != nil {
		panic(err)
	}
	out, err := os.Create(res.OutPath)
	if err != nil {
		panic(err)
	}
	defer out.Close()
	cmd := exec.Command(exe, args...)
	cmd.Dir = dir
	cmd.Stdout = out
	cmd.Stderr = out
	cmd.Env = append(os.Environ(), ChildEnvRec+"="+res.RecPath)
	cmd.Env = append(cmd.Env, env...)
	cmd.SysProcAttr = &syscall.SysProcAttr{Setpgid: true}
	start := time.Now()
	if err := cmd.Start(); err != nil {
		panic(err)
	}
	done := make(chan error, 1)
	go func() { done <- cmd.Wait() }()
	select {
	case err = <-done:
	case <-time.After(timeout):
		res.TimedOut = true
		_ = cmd.Process.Signal(syscall.SIGQUIT) // goroutine dump into out.txt
		select {
		case err = <-done:
		case <-time.After(10 * time.Second):
			_ = syscall.Kill(-cmd.Process.Pid, syscall.SIGKILL)
			err = <-done
		}
	}
	res.Dur = time.Since(start)
	if err != nil {
		if ee, ok := err.(*exec.ExitError); ok {
			res.ExitCode = ee.ExitCode()
		} else {
			res.ExitCode = -1
		}
	}
	return res
}

// Tail returns the last n bytes of a file as a string.
func Tail(path string, n int) string {
	b, err := os.ReadFile(path)
	if err != nil {
		return ""
	}
	if len(b) > n {
		b = b[len(b)-n:]
	}
	return string(b)
}

// Scratch creates a scratch directory outside /repo and /verif; the returned
// function removes it.
func Scratch(id string) (string, func()) {
	dir, err := os.MkdirTemp("", "verif-"+id+"-")
	if err != nil {
		panic(err)
	}
	return dir, func() { _ = os.RemoveAll(dir) }
}

// Parallel runs f(i) for i in [0,n) on up to workers goroutines (0 = NumCPU).
func Parallel(n, workers int, f func(i int)) {
	if workers <= 0 {
		workers = runtime.NumCPU()
	}
	if workers > n {
		workers = n
	}
	var next int64 = -1
	var wg sync.WaitGroup
	for w := 0; w < workers; w++ {
		wg.Add(1)
		go func() {
			defer wg.Done()
			for {
				i := int(atomic.AddInt64(&next, 1))
				if i >= n {
					return
				}
				f(i)
			}
		}()
	}
	wg.Wait()
}
