// Package simkit provides fake peers (real akita components with real ports
// on a real engine) and port recorders, so that a real mgpusim component can
// be run inside an adversarial environment and judged from its port traffic.
package simkit

import (
	"fmt"
	"math"
	"sync"

	"github.com/sarchlab/akita/v4/sim"
	"github.com/sarchlab/akita/v4/sim/directconnection"
)

// Cycle converts simulated time to a cycle number at the given frequency.
func Cycle(t sim.VTimeInSec, f sim.Freq) int64 {
	return int64(math.Round(float64(t) * float64(f)))
}

// ---------------------------------------------------------------------------
// port event log

// Kind of port event.
const (
	KSend     = "send"     // component pushed msg into the port's outgoing buffer
	KRecv     = "recv"     // msg delivered into the port's incoming buffer
	KRetrieve = "retrieve" // component took msg from the incoming buffer
)

// Event is one observation at a port.
type Event struct {
	Seq   int
	Time  sim.VTimeInSec
	Cycle int64
	Port  string
	Kind  string
	Msg   sim.Msg
}

// Log is an ordered log of port events. It is safe for concurrent use (the
// engine is single threaded, but the log may be read from the harness).
type Log struct {
	mu     sync.Mutex
	engine sim.Engine
	freq   sim.Freq
	Events []Event
	// OnEvent, if set, is called for every event (online monitors).
	OnEvent func(e Event)
}

// NewLog creates a log that timestamps with engine.
func NewLog(engine sim.Engine, freq sim.Freq) *Log {
	return &Log{engine: engine, freq: freq}
}

type portHook struct {
	log  *Log
	name string
}

func (h *portHook) Func(ctx sim.HookCtx) {
	var kind string
	switch ctx.Pos {
	case sim.HookPosPortMsgSend:
		kind = KSend
	case sim.HookPosPortMsgRecvd:
		kind = KRecv
	case sim.HookPosPortMsgRetrieveIncoming:
		kind = KRetrieve
	default:
		return
	}
	msg, _ := ctx.Item.(sim.Msg)
	l := h.log
	l.mu.Lock()
	now := l.engine.CurrentTime()
	e := Event{Seq: len(l.Events), Time: now, Cycle: Cycle(now, l.freq), Port: h.name, Kind: kind, Msg: msg}
	l.Events = append(l.Events, e)
	cb := l.OnEvent
	l.mu.Unlock()
	if cb != nil {
		cb(e)
	}
}

// Attach records the events of port p under the given label.
func (l *Log) Attach(p sim.Port, label string) {
	p.AcceptHook(&portHook{log: l, name: label})
}

// Snapshot returns a copy of the events so far.
func (l *Log) Snapshot() []Event {
	l.mu.Lock()
	defer l.mu.Unlock()
	out := make([]Event, len(l.Events))
	copy(out, l.Events)
	return out
}

// ---------------------------------------------------------------------------
// generic agent

// Agent is a ticking component whose behaviour is a closure.
type Agent struct {
	*sim.TickingComponent
	Freq   sim.Freq
	TickFn func(a *Agent) bool
	ports  map[string]sim.Port
}

// NewAgent creates an agent; set TickFn before running.
func NewAgent(name string, engine sim.Engine, freq sim.Freq) *Agent {
	a := &Agent{Freq: freq, ports: map[string]sim.Port{}}
	a.TickingComponent = sim.NewTickingComponent(name, engine, freq, a)
	return a
}

// Tick implements sim.Ticker.
func (a *Agent) Tick() bool {
	if a.TickFn == nil {
		return false
	}
	return a.TickFn(a)
}

// NewPort adds a port with the given buffer capacities.
func (a *Agent) NewPort(name string, inCap, outCap int) sim.Port {
	p := sim.NewPort(a, inCap, outCap, a.Name()+"."+name)
	a.AddPort(name, p)
	a.ports[name] = p
	return p
}

// Port returns a port by its short name.
func (a *Agent) Port(name string) sim.Port { return a.ports[name] }

// NowCycle returns the current cycle.
func (a *Agent) NowCycle() int64 { return Cycle(a.Engine.CurrentTime(), a.Freq) }

// Connect plugs the ports into a fresh direct connection.
func Connect(engine sim.Engine, freq sim.Freq, name string, ports ...sim.Port) *directconnection.Comp {
	c := directconnection.MakeBuilder().WithEngine(engine).WithFreq(freq).Build(name)
	for _, p := range ports {
		c.PlugIn(p)
	}
	return c
}

// ---------------------------------------------------------------------------
// scripted requester

// Planned is a message to be sent no earlier than cycle NotBefore.
type Planned struct {
	NotBefore int64
	Msg       sim.Msg
}

// Received is a message taken from the requester's port.
type Received struct {
	Cycle int64
	Time  sim.VTimeInSec
	Msg   sim.Msg
}

// Requester sends a plan of messages through one port, in plan order, and
// collects everything that comes back. Back-pressure on the way back is
// produced by StallFn (return true to not retrieve this cycle).
type Requester struct {
	*Agent
	Out      sim.Port
	Plan     []Planned
	next     int
	Got      []Received
	SentAt   map[string]int64 // msg ID -> cycle of successful Send
	StallFn  func(cycle int64) bool
	MaxTake  int // max messages retrieved per cycle (0 = unlimited)
	OnRecv   func(r Received)
	stalling bool
}

// NewRequester builds a requester with one port "Out".
func NewRequester(name string, engine sim.Engine, freq sim.Freq, inCap, outCap int) *Requester {
	r := &Requester{SentAt: map[string]int64{}}
	r.Agent = NewAgent(name, engine, freq)
	r.Out = r.Agent.NewPort("Out", inCap, outCap)
	r.Agent.TickFn = r.tick
	return r
}

func (r *Requester) tick(a *Agent) bool {
	progress := false
	now := a.NowCycle()
	for r.next < len(r.Plan) {
		p := r.Plan[r.next]
		if p.NotBefore > now {
			progress = true // keep ticking until the plan is exhausted
			break
		}
		if err := r.Out.Send(p.Msg); err != nil {
			break
		}
		r.SentAt[p.Msg.Meta().ID] = now
		r.next++
		progress = true
	}
	if r.StallFn != nil && r.StallFn(now) {
		if r.Out.PeekIncoming() != nil {
			progress = true // try again next cycle
		}
		return progress
	}
	taken := 0
	for {
		if r.MaxTake > 0 && taken >= r.MaxTake {
			if r.Out.PeekIncoming() != nil {
				progress = true
			}
			break
		}
		m := r.Out.RetrieveIncoming()
		if m == nil {
			break
		}
		rc := Received{Cycle: now, Time: a.Engine.CurrentTime(), Msg: m}
		r.Got = append(r.Got, rc)
		if r.OnRecv != nil {
			r.OnRecv(rc)
		}
		taken++
		progress = true
	}
	return progress
}

// Done reports whether the whole plan was sent.
func (r *Requester) Done() bool { return r.next >= len(r.Plan) }

// Sent returns how many planned messages were sent.
func (r *Requester) Sent() int { return r.next }

// ---------------------------------------------------------------------------
// event counting / bounded run

// EventCounter counts engine events and can stop a livelocked run.
type EventCounter struct {
	N     int64
	Limit int64
	Over  bool
}

// Func implements sim.Hook.
func (c *EventCounter) Func(ctx sim.HookCtx) {
	if ctx.Pos != sim.HookPosBeforeEvent {
		return
	}
	c.N++
	if c.Limit > 0 && c.N > c.Limit {
		c.Over = true
		panic(ErrEventLimit{N: c.N})
	}
}

// ErrEventLimit is the panic value raised when the event bound is exceeded.
type ErrEventLimit struct{ N int64 }

func (e ErrEventLimit) Error() string { return fmt.Sprintf("event limit exceeded after %d events", e.N) }

// RunBounded runs the engine until it has no more events; it returns
// (eventsHandled, livelock, panicValue). A panic other than the event limit
// is returned to the caller for classification.
func RunBounded(engine sim.Engine, limit int64) (n int64, livelock bool, pv any) {
	var ec *EventCounter
	if h, ok := engine.(sim.Hookable); ok {
		for _, hk := range h.Hooks() {
			if e, ok := hk.(*EventCounter); ok {
				ec = e
			}
		}
		if ec == nil {
			ec = &EventCounter{}
			h.AcceptHook(ec)
		}
	}
	if ec != nil {
		ec.Limit = ec.N + limit
	}
	start := int64(0)
	if ec != nil {
		start = ec.N
	}
	func() {
		defer func() {
			if r := recover(); r != nil {
				if _, ok := r.(ErrEventLimit); ok {
					livelock = true
					return
				}
				pv = r
			}
		}()
		if err := engine.Run(); err != nil {
			pv = err
		}
	}()
	if ec != nil {
		n = ec.N - start
	}
	return n, livelock, pv
}
