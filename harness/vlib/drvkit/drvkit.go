// Package drvkit builds a real amd/driver.Driver on a serial engine together
// with fake command processors (real akita ports on a simkit.Agent) so that
// the driver's own code can be run in isolation: the allocation API needs no
// running engine; command processing is run by ticking the driver on the
// caller's goroutine (simkit.RunBounded), which also contains panics.
//
// Owned by the C10/C08 workers.
package drvkit

import (
	"fmt"
	"runtime/debug"

	"github.com/sarchlab/akita/v4/mem/mem"
	"github.com/sarchlab/akita/v4/mem/vm"
	"github.com/sarchlab/akita/v4/sim"
	"github.com/sarchlab/mgpusim/v4/amd/driver"
	"github.com/sarchlab/mgpusim/v4/amd/insts"
	"github.com/sarchlab/mgpusim/v4/amd/protocol"

	"verifharness/vlib/simkit"
)

// CPUBytes is the size of the CPU memory the driver builder registers as
// device 0 (amd/driver/builder.go createCPU: 4 * mem.GB).
const CPUBytes = uint64(4) << 30

// Rig is a driver with its surroundings.
type Rig struct {
	Engine    sim.Engine
	Freq      sim.Freq
	Driver    *driver.Driver
	PageTable vm.PageTable
	Storage   *mem.Storage
	Log2Page  uint64
	CP        *FakeCPs
	// MMU is the fake MMU on the driver's "MMU" port (Options.Migration).
	MMU *FakeMMU

	ec *simkit.EventCounter
}

// Options for NewRig.
type Options struct {
	Log2Page uint64
	// MagicCopy selects the global-storage copy middleware (copies complete
	// inside the driver); otherwise the default middleware sends DMA requests
	// to the command processors.
	MagicCopy bool
	GPUs      []driver.DeviceProperties
	// Connected: build fake command processors and connect them to the
	// driver's GPU port. If false the GPUs are registered with dummy,
	// unconnected ports (enough for the allocation API).
	Connected bool
	// Migration (implies Connected): additionally give every fake command
	// processor a PMC port (Driver.RemotePMCPorts) and connect a fake MMU to
	// the driver's MMU port, so that the page-migration handshake
	// (vm.PageMigrationReqToDriver -> RDMA drain -> shootdown -> page copy ->
	// GPU restart -> RDMA restart -> vm.PageMigrationRspFromDriver) can be run
	// with Rig.Migrate.
	Migration bool
}

// NewRig builds the driver. Call after driver.VerifUseBuddyAllocator if the
// buddy allocator is wanted (the CPU device is created inside Build).
func NewRig(o Options) *Rig {
	r := &Rig{Freq: 1 * sim.GHz, Log2Page: o.Log2Page}
	r.Engine = sim.NewSerialEngine()
	r.PageTable = vm.NewPageTable(o.Log2Page)
	r.Storage = mem.NewStorage(uint64(64) << 30)
	b := driver.MakeBuilder().
		WithEngine(r.Engine).
		WithFreq(r.Freq).
		WithLog2PageSize(o.Log2Page).
		WithPageTable(r.PageTable).
		WithGlobalStorage(r.Storage)
	if o.MagicCopy {
		b = b.WithMagicMemoryCopyMiddleware()
	}
	r.Driver = b.Build("Driver")
	if o.Connected || o.Migration {
		r.CP = newFakeCPs(r, o.GPUs)
		if o.Migration {
			for i := range o.GPUs {
				pmc := r.CP.Agent.NewPort(fmt.Sprintf("PMC%d", i+1), 1, 1)
				r.CP.PMCPorts = append(r.CP.PMCPorts, pmc)
				r.Driver.RemotePMCPorts = append(r.Driver.RemotePMCPorts, pmc)
			}
			r.MMU = newFakeMMU(r)
		}
	} else {
		for i, p := range o.GPUs {
			port := sim.NewPort(nil, 1, 1, fmt.Sprintf("DummyCP%d.ToDriver", i+1))
			r.Driver.RegisterGPU(port, p)
		}
	}
	return r
}

// FakeCPs answers everything the driver sends to its GPUs and records the
// kernel launch requests.
type FakeCPs struct {
	Agent *simkit.Agent
	Ports []sim.Port
	// Launches are the LaunchKernelReqs in arrival order; LaunchGPU[i] is the
	// 1-based GPU id of the port Launches[i] arrived at.
	Launches  []*protocol.LaunchKernelReq
	LaunchGPU []int
	// PMCPorts[i] is the page-migration-controller port of GPU i+1
	// (Options.Migration). Copies are the PageMigrationReqToCP messages in
	// arrival order; CopyGPU[i] is the 1-based GPU id Copies[i] arrived at.
	PMCPorts []sim.Port
	Copies   []*protocol.PageMigrationReqToCP
	CopyGPU  []int
	Counts   map[string]int
	Unknown  []string

	drvGPU sim.Port
}

func newFakeCPs(r *Rig, gpus []driver.DeviceProperties) *FakeCPs {
	f := &FakeCPs{Counts: map[string]int{}}
	f.Agent = simkit.NewAgent("FakeCP", r.Engine, r.Freq)
	f.drvGPU = r.Driver.GetPortByName("GPU")
	ports := []sim.Port{f.drvGPU}
	for i, p := range gpus {
		port := f.Agent.NewPort(fmt.Sprintf("ToDriver%d", i+1), 64, 64)
		f.Ports = append(f.Ports, port)
		r.Driver.RegisterGPU(port, p)
		ports = append(ports, port)
	}
	simkit.Connect(r.Engine, r.Freq, "DriverToCPs", ports...)
	f.Agent.TickFn = f.tick
	return f
}

func (f *FakeCPs) tick(a *simkit.Agent) bool {
	progress := false
	for i, p := range f.Ports {
		for {
			m := p.PeekIncoming()
			if m == nil {
				break
			}
			var rsp sim.Msg
			switch req := m.(type) {
			case *protocol.LaunchKernelReq:
				rsp = protocol.NewLaunchKernelRsp(p.AsRemote(), req.Src, req.ID)
			case *protocol.FlushReq, *protocol.MemCopyH2DReq, *protocol.MemCopyD2HReq:
				rsp = sim.GeneralRspBuilder{}.WithSrc(p.AsRemote()).WithDst(m.Meta().Src).WithOriginalReq(m).Build()
			// the command-processor side of the page-migration handshake
			case *protocol.RDMADrainCmdFromDriver:
				rsp = protocol.NewRDMADrainRspToDriver(p, f.drvGPU)
			case *protocol.ShootDownCommand:
				rsp = protocol.NewShootdownCompleteRsp(p, f.drvGPU)
			case *protocol.PageMigrationReqToCP:
				rsp = protocol.NewPageMigrationRspToDriver(p, f.drvGPU)
			case *protocol.GPURestartReq:
				rsp = protocol.NewGPURestartRsp(p, f.drvGPU)
			case *protocol.RDMARestartCmdFromDriver:
				rsp = protocol.NewRDMARestartRspToDriver(p, f.drvGPU)
			}
			if rsp != nil {
				if err := p.Send(rsp); err != nil {
					break
				}
			}
			p.RetrieveIncoming()
			progress = true
			f.Counts[fmt.Sprintf("%T", m)]++
			switch req := m.(type) {
			case *protocol.LaunchKernelReq:
				f.Launches = append(f.Launches, req)
				f.LaunchGPU = append(f.LaunchGPU, i+1)
			case *protocol.PageMigrationReqToCP:
				f.Copies = append(f.Copies, req)
				f.CopyGPU = append(f.CopyGPU, i+1)
			case *protocol.FlushReq, *protocol.MemCopyH2DReq, *protocol.MemCopyD2HReq,
				*protocol.RDMADrainCmdFromDriver, *protocol.ShootDownCommand, *protocol.GPURestartReq,
				*protocol.RDMARestartCmdFromDriver:
			default:
				f.Unknown = append(f.Unknown, fmt.Sprintf("%T", m))
			}
		}
	}
	return progress
}

// FakeMMU plays the MMU's migration port: it sends the queued migration
// requests to the driver and collects the driver's replies.
type FakeMMU struct {
	Agent   *simkit.Agent
	Port    sim.Port
	DrvPort sim.Port
	out     []sim.Msg
	Replies []*vm.PageMigrationRspFromDriver
	Unknown []string
}

func newFakeMMU(r *Rig) *FakeMMU {
	m := &FakeMMU{}
	m.Agent = simkit.NewAgent("FakeMMU", r.Engine, r.Freq)
	m.Port = m.Agent.NewPort("Migration", 4, 4)
	m.DrvPort = r.Driver.GetPortByName("MMU")
	simkit.Connect(r.Engine, r.Freq, "DriverToMMU", m.DrvPort, m.Port)
	m.Agent.TickFn = func(a *simkit.Agent) bool {
		progress := false
		for len(m.out) > 0 {
			if err := m.Port.Send(m.out[0]); err != nil {
				break
			}
			m.out = m.out[1:]
			progress = true
		}
		for {
			in := m.Port.RetrieveIncoming()
			if in == nil {
				break
			}
			progress = true
			if rsp, ok := in.(*vm.PageMigrationRspFromDriver); ok {
				m.Replies = append(m.Replies, rsp)
			} else {
				m.Unknown = append(m.Unknown, fmt.Sprintf("%T", in))
			}
		}
		return progress
	}
	return m
}

// NewMigrationReq returns an empty migration request addressed to the driver.
func (r *Rig) NewMigrationReq() *vm.PageMigrationReqToDriver {
	req := vm.NewPageMigrationReqToDriver(r.MMU.Port.AsRemote(), r.MMU.DrvPort.AsRemote())
	req.MigrationInfo = &vm.PageMigrationInfo{GPUReqToVAddrMap: map[uint64][]uint64{}}
	req.PageSize = uint64(1) << r.Log2Page
	return req
}

// Migrate sends one migration request from the fake MMU and runs the engine
// until it is idle (see RunDriver for the results). The replies that arrived
// and the page copies the command processors were asked for are appended to
// r.MMU.Replies and r.CP.Copies.
func (r *Rig) Migrate(req *vm.PageMigrationReqToDriver, limit int64) (n int64, livelock bool, pv any, stack string) {
	r.MMU.out = append(r.MMU.out, req)
	r.MMU.Agent.TickLater()
	return r.RunDriver(limit)
}

// RunDriver ticks the driver and runs the engine on the caller's goroutine
// until it is idle (bounded by limit events). It returns the number of events
// handled, whether the bound was hit, and the value and stack of a panic
// raised by the code under test (nil/"" if none).
func (r *Rig) RunDriver(limit int64) (n int64, livelock bool, pv any, stack string) {
	r.Driver.TickLater()
	if r.ec == nil {
		r.ec = &simkit.EventCounter{}
		r.Engine.(sim.Hookable).AcceptHook(r.ec)
	}
	start := r.ec.N
	r.ec.Limit = start + limit
	func() {
		defer func() {
			if x := recover(); x != nil {
				if _, ok := x.(simkit.ErrEventLimit); ok {
					livelock = true
					return
				}
				pv = x
				stack = string(debug.Stack())
			}
		}()
		if err := r.Engine.Run(); err != nil {
			pv = err
		}
	}()
	return r.ec.N - start, livelock, pv, stack
}

// TinyKernel returns a hand-built code object that the driver can enqueue
// (nothing executes it here). Its kernarg segment is 16 bytes: pass
// &TinyArgs{}.
func TinyKernel() *insts.KernelCodeObject {
	return &insts.KernelCodeObject{
		KernelCodeObjectMeta: &insts.KernelCodeObjectMeta{
			KernargSegmentByteSize:    16,
			KernelCodeEntryByteOffset: 0,
		},
		// s_endpgm
		Data:    []byte{0x00, 0x00, 0x81, 0xBF},
		Version: insts.CodeObjectV3,
	}
}

// TinyArgs is the kernel argument block of TinyKernel.
type TinyArgs struct {
	A, B uint64
}
