// Package memkit provides the hostile lower-level peers shared by the
// reorder-buffer (C15) and address-translator (C16) workers: a responder that
// answers requests with random latency and in permuted order while applying
// back-pressure (used as fake memory and as fake translation service), a
// controller that drives the DiscardTransactions / Restart handshake on a
// component's Control port, and a port-buffer occupancy tracker.
//
// All peers are real akita components with real ports, follow akita's port
// protocol (Send may fail -> retry when the port frees; responses are addressed
// to the Src of the request from the peer's own port) and are driven from the
// single engine goroutine, so their records need no locking.
package memkit

import (
	"github.com/sarchlab/akita/v4/mem/mem"
	"github.com/sarchlab/akita/v4/mem/vm"
	"github.com/sarchlab/akita/v4/sim"

	"verifharness/vlib"
	"verifharness/vlib/simkit"
)

// ---------------------------------------------------------------------------
// payload function

func mix(x uint64) uint64 {
	x += 0x9e3779b97f4a7c15
	x = (x ^ (x >> 30)) * 0xbf58476d1ce4e5b9
	x = (x ^ (x >> 27)) * 0x94d049bb133111eb
	return x ^ (x >> 31)
}

// DataFor is the fake memory's payload: n bytes that are a pure function of
// (address, serial). The serial is unique per request served, so two requests
// never get the same payload (up to the width of the read).
func DataFor(addr, serial uint64, n int) []byte {
	out := make([]byte, n)
	for i := 0; i < n; i += 8 {
		v := mix(addr*0x100000001b3 ^ mix(serial) ^ uint64(i/8)*0xd6e8feb86659fd93)
		for j := 0; j < 8 && i+j < n; j++ {
			out[i+j] = byte(v >> (8 * j))
		}
	}
	return out
}

// ---------------------------------------------------------------------------
// responder

// Policy describes how a Responder delays, reorders and back-pressures.
type Policy struct {
	Seed         uint64 `json:"seed"`
	InBuf        int    `json:"in_buf"`         // capacity of the incoming port buffer
	OutBuf       int    `json:"out_buf"`        // capacity of the outgoing port buffer
	LatLo        int    `json:"lat_lo"`         // ordinary latency range, cycles
	LatHi        int    `json:"lat_hi"`         //
	StragglerPct int    `json:"straggler_pct"`  // % of requests that get a latency from [BigLo,BigHi]
	BigLo        int    `json:"big_lo"`         //
	BigHi        int    `json:"big_hi"`         //
	TakeStallPct int    `json:"take_stall_pct"` // % of cycles in which nothing is taken from the port
	SendStallPct int    `json:"send_stall_pct"` // % of cycles in which nothing is sent
	TakePerCycle int    `json:"take_per_cycle"` // max requests taken per cycle (0 = unlimited)
	SendPerCycle int    `json:"send_per_cycle"` // max responses sent per cycle (0 = unlimited)
	MaxPending   int    `json:"max_pending"`    // max requests held unanswered (0 = unlimited)
	Newest       bool   `json:"newest_first"`   // among ready responses send the newest first (else random)
}

// Served is the record of one request the responder took from its port.
type Served struct {
	Serial    uint64
	Req       sim.Msg
	Rsp       sim.Msg
	RecvCycle int64
	ReadyAt   int64
	SentCycle int64 // -1 while the response has not been pushed into the port
}

// Responder answers every request arriving at its single port "Top".
type Responder struct {
	*simkit.Agent
	Port sim.Port
	Pol  Policy
	// MakeRsp builds the response for req (Src/Dst are filled by the responder).
	MakeRsp func(req sim.Msg, serial uint64) sim.Msg

	Served  []*Served
	ByReqID map[string]*Served
	pending []*Served
	rng     *vlib.PRNG
	serial  uint64
}

// NewResponder creates a responder; set MakeRsp before running.
func NewResponder(name string, engine sim.Engine, freq sim.Freq, pol Policy) *Responder {
	if pol.InBuf < 1 {
		pol.InBuf = 1
	}
	if pol.OutBuf < 1 {
		pol.OutBuf = 1
	}
	r := &Responder{Pol: pol, ByReqID: map[string]*Served{}, rng: vlib.NewPRNG(pol.Seed ^ 0x5eed)}
	r.Agent = simkit.NewAgent(name, engine, freq)
	r.Port = r.Agent.NewPort("Top", pol.InBuf, pol.OutBuf)
	r.Agent.TickFn = r.tick
	return r
}

func (r *Responder) latency() int {
	p := r.Pol
	if p.StragglerPct > 0 && r.rng.Intn(100) < p.StragglerPct {
		return p.BigLo + r.rng.Intn(max(1, p.BigHi-p.BigLo+1))
	}
	return p.LatLo + r.rng.Intn(max(1, p.LatHi-p.LatLo+1))
}

func (r *Responder) tick(a *simkit.Agent) bool {
	progress := false
	now := a.NowCycle()
	p := r.Pol

	// ---- send ready responses, in an order unrelated to arrival order
	sendStalled := p.SendStallPct > 0 && len(r.pending) > 0 && r.rng.Intn(100) < p.SendStallPct
	if sendStalled {
		progress = true // try again next cycle
	} else {
		sent := 0
		for p.SendPerCycle == 0 || sent < p.SendPerCycle {
			var ready []int
			for i, s := range r.pending {
				if s.ReadyAt <= now {
					ready = append(ready, i)
				}
			}
			if len(ready) == 0 {
				break
			}
			pick := ready[len(ready)-1]
			if !p.Newest {
				pick = ready[r.rng.Intn(len(ready))]
			}
			s := r.pending[pick]
			if err := r.Port.Send(s.Rsp); err != nil {
				break // port full: akita wakes us through NotifyPortFree
			}
			s.SentCycle = now
			r.pending = append(r.pending[:pick], r.pending[pick+1:]...)
			sent++
			progress = true
		}
	}

	// ---- take new requests
	takeStalled := p.TakeStallPct > 0 && r.Port.PeekIncoming() != nil && r.rng.Intn(100) < p.TakeStallPct
	if takeStalled {
		progress = true
	} else {
		taken := 0
		for (p.TakePerCycle == 0 || taken < p.TakePerCycle) && (p.MaxPending == 0 || len(r.pending) < p.MaxPending) {
			m := r.Port.RetrieveIncoming()
			if m == nil {
				break
			}
			r.serial++
			rsp := r.MakeRsp(m, r.serial)
			rsp.Meta().Src = r.Port.AsRemote()
			rsp.Meta().Dst = m.Meta().Src
			s := &Served{Serial: r.serial, Req: m, Rsp: rsp, RecvCycle: now, ReadyAt: now + int64(r.latency()), SentCycle: -1}
			r.Served = append(r.Served, s)
			r.ByReqID[m.Meta().ID] = s
			r.pending = append(r.pending, s)
			taken++
			progress = true
		}
		if r.Port.PeekIncoming() != nil && (p.TakePerCycle > 0 && taken >= p.TakePerCycle) {
			progress = true // more to take next cycle
		}
	}

	// time has to pass for responses that are not ready yet
	for _, s := range r.pending {
		if s.ReadyAt > now {
			progress = true
			break
		}
	}
	return progress
}

// Pending returns how many requests were taken but not answered yet.
func (r *Responder) Pending() int { return len(r.pending) }

// MemoryRsp is the MakeRsp of the fake memory: reads return
// DataFor(address, serial, size), writes return WriteDone.
func MemoryRsp(req sim.Msg, serial uint64) sim.Msg {
	switch q := req.(type) {
	case *mem.ReadReq:
		return mem.DataReadyRspBuilder{}.WithRspTo(q.ID).WithData(DataFor(q.Address, serial, int(q.AccessByteSize))).Build()
	case *mem.WriteReq:
		return mem.WriteDoneRspBuilder{}.WithRspTo(q.ID).Build()
	}
	panic("memkit: fake memory received a message that is not a read or write request")
}

// PageKey identifies a page-table entry.
type PageKey struct {
	PID   vm.PID
	VPage uint64 // page-aligned virtual address
}

// TranslationRsp returns the MakeRsp of a fake translation service that owns
// the given page table. log2 is the page size exponent.
func TranslationRsp(table map[PageKey]vm.Page, log2 uint64, onUnmapped func(req *vm.TranslationReq)) func(sim.Msg, uint64) sim.Msg {
	return func(req sim.Msg, _ uint64) sim.Msg {
		q, ok := req.(*vm.TranslationReq)
		if !ok {
			panic("memkit: fake translation service received a message that is not a translation request")
		}
		key := PageKey{PID: q.PID, VPage: (q.VAddr >> log2) << log2}
		page, found := table[key]
		if !found {
			if onUnmapped != nil {
				onUnmapped(q)
			}
			page = vm.Page{PID: q.PID, VAddr: key.VPage, PageSize: 1 << log2, Valid: false}
		}
		return vm.TranslationRspBuilder{}.WithRspTo(q.ID).WithPage(page).Build()
	}
}

// ---------------------------------------------------------------------------
// flush / restart controller

// CtrlStep is one flush: DiscardTransactions is sent no earlier than cycle At;
// Gap cycles after its acknowledgement Restart is sent.
type CtrlStep struct {
	At  int64 `json:"at"`
	Gap int   `json:"gap"`
}

// CtrlRecord is what happened for one step (cycles; -1 = did not happen).
type CtrlRecord struct {
	FlushSent, FlushAcked, RestartSent, RestartAcked int64
}

// Controller drives the control handshake the command processor uses
// (amd/timing/cp/ctrlMiddleware.go): send DiscardTransactions, wait for the
// NotifyDone reply, later send Restart, wait for its NotifyDone reply. It never
// has two control messages outstanding.
type Controller struct {
	*simkit.Agent
	Port    sim.Port
	Target  sim.RemotePort
	Steps   []CtrlStep
	Records []CtrlRecord
	// Unexpected counts messages that are not NotifyDone control messages.
	Unexpected int

	step    int
	state   int // 0 waiting for At, 1 flush sent, 2 gap, 3 restart sent
	gapTill int64
}

// NewController creates the controller with one port "Ctrl".
func NewController(name string, engine sim.Engine, freq sim.Freq, target sim.RemotePort, steps []CtrlStep) *Controller {
	c := &Controller{Target: target, Steps: steps}
	c.Agent = simkit.NewAgent(name, engine, freq)
	c.Port = c.Agent.NewPort("Ctrl", 2, 2)
	c.Agent.TickFn = c.tick
	for range steps {
		c.Records = append(c.Records, CtrlRecord{-1, -1, -1, -1})
	}
	return c
}

// Done reports whether every step completed (both acknowledgements seen).
func (c *Controller) Done() bool { return c.step >= len(c.Steps) }

func (c *Controller) takeDone() bool {
	m := c.Port.RetrieveIncoming()
	if m == nil {
		return false
	}
	if cm, ok := m.(*mem.ControlMsg); !ok || !cm.NotifyDone {
		c.Unexpected++
		return false
	}
	return true
}

func (c *Controller) tick(a *simkit.Agent) bool {
	if c.step >= len(c.Steps) {
		for c.Port.RetrieveIncoming() != nil {
			c.Unexpected++
		}
		return false
	}
	now := a.NowCycle()
	st := c.Steps[c.step]
	rec := &c.Records[c.step]
	switch c.state {
	case 0:
		if now < st.At {
			return true
		}
		m := mem.ControlMsgBuilder{}.WithSrc(c.Port.AsRemote()).WithDst(c.Target).ToDiscardTransactions().Build()
		if err := c.Port.Send(m); err != nil {
			return false
		}
		rec.FlushSent = now
		c.state = 1
		return true
	case 1:
		if !c.takeDone() {
			return false // woken by NotifyRecv
		}
		rec.FlushAcked = now
		c.gapTill = now + int64(st.Gap)
		c.state = 2
		return true
	case 2:
		if now < c.gapTill {
			return true
		}
		m := mem.ControlMsgBuilder{}.WithSrc(c.Port.AsRemote()).WithDst(c.Target).ToRestart().Build()
		if err := c.Port.Send(m); err != nil {
			return false
		}
		rec.RestartSent = now
		c.state = 3
		return true
	case 3:
		if !c.takeDone() {
			return false
		}
		rec.RestartAcked = now
		c.state = 0
		c.step++
		return true
	}
	return false
}

// ---------------------------------------------------------------------------
// outgoing-buffer occupancy of a port

// OutOcc tracks how many messages sit in a port's outgoing buffer (pushed by
// Send, not yet taken by the connection).
type OutOcc struct {
	Cap       int
	N         int
	Max       int
	FullTimes int // number of Send events that filled the buffer
}

// Func implements sim.Hook.
func (o *OutOcc) Func(ctx sim.HookCtx) {
	switch ctx.Pos {
	case sim.HookPosPortMsgSend:
		o.N++
		if o.N > o.Max {
			o.Max = o.N
		}
		if o.N >= o.Cap {
			o.FullTimes++
		}
	case sim.HookPosPortMsgRetrieveOutgoing:
		o.N--
	}
}

// Full reports whether the outgoing buffer is full right now.
func (o *OutOcc) Full() bool { return o.N >= o.Cap }

// TrackOut attaches an occupancy tracker to p, whose outgoing buffer holds cap
// messages. Attach it before any simkit.Log so that the log's OnEvent callback
// sees the occupancy including the event being logged.
func TrackOut(p sim.Port, cap int) *OutOcc {
	o := &OutOcc{Cap: cap}
	p.AcceptHook(o)
	return o
}

// ---------------------------------------------------------------------------
// tick probe

// TickProbe is an engine hook that calls Fn right before every event handled
// by Target (i.e. at the start of each of the component's ticks), so that a
// monitor can sample boundary state (port occupancies) at exactly the moments
// the component looks at it.
type TickProbe struct {
	Target sim.Handler
	Fn     func()
}

// Func implements sim.Hook.
func (t *TickProbe) Func(ctx sim.HookCtx) {
	if ctx.Pos != sim.HookPosBeforeEvent {
		return
	}
	if ev, ok := ctx.Item.(sim.Event); ok && ev.Handler() == t.Target {
		t.Fn()
	}
}

// ProbeTicks installs a TickProbe on the engine.
func ProbeTicks(engine sim.Engine, target sim.Handler, fn func()) {
	if h, ok := engine.(sim.Hookable); ok {
		h.AcceptHook(&TickProbe{Target: target, Fn: fn})
	}
}
