// Package plat builds the same platforms runner.Runner builds (emulation and
// timing) on an own simulation.Simulation, so that workers can reach the
// driver, the engine and every component.
package plat

import (
	"github.com/sarchlab/akita/v4/sim"
	"github.com/sarchlab/akita/v4/simulation"
	"github.com/sarchlab/mgpusim/v4/amd/arch"
	"github.com/sarchlab/mgpusim/v4/amd/driver"
	"github.com/sarchlab/mgpusim/v4/amd/samples/runner/emusystem"
	"github.com/sarchlab/mgpusim/v4/amd/samples/runner/timingconfig"
	"github.com/sarchlab/mgpusim/v4/amd/sampling"
)

// Config selects a platform.
type Config struct {
	Timing    bool   `json:"timing"`
	Arch      string `json:"arch"`     // "gcn3" (default) or "cdna3" (emulation only)
	GPUType   string `json:"gpu_type"` // timing: "r9nano" (default) or "mi300a"
	NumGPUs   int    `json:"num_gpus"`
	MagicCopy bool   `json:"magic_copy"` // timing only
	Parallel  bool   `json:"parallel"`
}

// Platform is a built platform.
type Platform struct {
	Cfg    Config
	Sim    *simulation.Simulation
	Driver *driver.Driver
	Engine sim.Engine
}

// Build creates the platform. It drops an akita_sim_*.sqlite3 into cwd.
func Build(cfg Config) *Platform {
	if cfg.NumGPUs <= 0 {
		cfg.NumGPUs = 1
	}
	b := simulation.MakeBuilder().WithoutMonitoring()
	if cfg.Parallel {
		b = b.WithParallelEngine()
	}
	s := b.Build()
	if cfg.Timing {
		sampling.InitSampledEngine()
		gt := cfg.GPUType
		if gt == "" {
			gt = "r9nano"
		}
		tb := timingconfig.MakeBuilder().WithSimulation(s).WithNumGPUs(cfg.NumGPUs).WithGPUType(gt)
		if cfg.MagicCopy {
			tb = tb.WithMagicMemoryCopy()
		}
		tb.Build()
	} else {
		at := arch.GCN3
		if cfg.Arch == "cdna3" {
			at = arch.CDNA3
		}
		emusystem.MakeBuilder().WithSimulation(s).WithNumGPUs(cfg.NumGPUs).WithArchitecture(at).Build()
	}
	d := s.GetComponentByName("Driver").(*driver.Driver)
	return &Platform{Cfg: cfg, Sim: s, Driver: d, Engine: s.GetEngine()}
}
