// Package batch runs an indexed case list in child processes (one child per
// contiguous index range), so that code under test which calls log.Fatal /
// os.Exit, prints to stdout or keeps package-level state cannot disturb the
// process that owns the verdict. Cases are identified by index only: the case
// list must be a pure function of (seed, tier, index), so parent and children
// regenerate the same case from the same index.
//
// Child protocol: the child is this binary re-executed with the arguments
// "<tier> child <lo> <hi>". It records through vlib.ChildRec() and brackets
// every case with Begin/End notes. A child that dies inside case i (begin
// without end) makes the parent call OnCrash(i, ...) - which normally files a
// violation, since the inputs are valid - and the remaining indices are handed
// to a fresh child.
package batch

import (
	"fmt"
	"os"
	"strconv"
	"time"

	"verifharness/vlib"
)

// SeedTier reads VERIF_SEED / VERIF_TIER / the tier argument exactly like
// vlib.Start does. Children use it instead of vlib.Start (which owns
// side effects on the evidence and replay directories).
func SeedTier() (seed int64, tier string) {
	seed, tier = 1, "quick"
	if t := os.Getenv("VERIF_TIER"); t == "quick" || t == "thorough" {
		tier = t
	}
	for _, a := range os.Args[1:] {
		if a == "quick" || a == "thorough" {
			tier = a
		}
	}
	if s := os.Getenv("VERIF_SEED"); s != "" {
		if v, err := strconv.ParseInt(s, 10, 64); err == nil {
			seed = v
		}
	}
	return
}

// Rand is Check.Rand without a Check: a pure function of (id, seed, label).
func Rand(id string, seed int64, label string) *vlib.PRNG {
	return vlib.NewPRNG(uint64(seed)).Fork(id + "/" + label)
}

// ChildRange returns the index range this process has to execute if it was
// started as a batch child.
func ChildRange() (lo, hi int, ok bool) {
	if !vlib.IsChild() {
		return 0, 0, false
	}
	a := os.Args[1:]
	for i := 0; i+2 < len(a); i++ {
		if a[i] == "child" {
			l, e1 := strconv.Atoi(a[i+1])
			h, e2 := strconv.Atoi(a[i+2])
			if e1 == nil && e2 == nil {
				return l, h, true
			}
		}
	}
	return 0, 0, false
}

// RunChild executes cases lo..hi-1 with f, bracketing each with begin/end
// notes, then exits 0. Panics inside f are NOT recovered here: f decides which
// panics are observations (and recovers them) and which are harness bugs.
func RunChild(lo, hi int, f func(rec *vlib.ChildRecorder, i int)) {
	rec := vlib.ChildRec()
	for i := lo; i < hi; i++ {
		rec.Note("begin", i)
		f(rec, i)
		rec.Note("end", i)
	}
	os.Exit(0)
}

// Crash describes a child that died inside a case.
type Crash struct {
	Index    int
	ExitCode int
	TimedOut bool
	Tail     string // last bytes of the child's stdout+stderr
}

// Opts configures Run.
type Opts struct {
	N        int           // number of cases (indices 0..N-1)
	First    int           // indices 0..First-1 (the canonical battery) run in one child before all others, so that their witnesses are recorded first
	PerChild int           // indices per child
	Workers  int           // concurrent children (0 = NumCPU)
	Timeout  time.Duration // watchdog per child (inconclusive when it fires)
	OnCrash  func(cr Crash)
}

func toInt(v any) (int, bool) {
	switch x := v.(type) {
	case float64:
		return int(x), true
	case int:
		return x, true
	}
	return 0, false
}

// Run executes all cases in children and merges their records into c.
func Run(c *vlib.Check, o Opts) {
	if o.PerChild <= 0 {
		o.PerChild = 1
	}
	if o.Timeout == 0 {
		o.Timeout = 20 * time.Minute
	}
	base, cleanup := vlib.Scratch(c.ID)
	defer cleanup()
	type rng struct{ lo, hi int }
	var rs []rng
	if o.First > o.N {
		o.First = o.N
	}
	for lo := o.First; lo < o.N; lo += o.PerChild {
		hi := lo + o.PerChild
		if hi > o.N {
			hi = o.N
		}
		rs = append(rs, rng{lo, hi})
	}
	runRange := func(lo, hi int) {
		for lo < hi {
			res := vlib.RunChild(base, o.Timeout, nil, c.Tier, "child", strconv.Itoa(lo), strconv.Itoa(hi))
			notes := c.AbsorbFile(res.RecPath)
			ended := map[int]bool{}
			begun := map[int]bool{}
			for _, v := range notes["end"] {
				if i, ok := toInt(v); ok {
					ended[i] = true
				}
			}
			for _, v := range notes["begin"] {
				if i, ok := toInt(v); ok {
					begun[i] = true
				}
			}
			first := -1
			for i := lo; i < hi; i++ {
				if !ended[i] {
					first = i
					break
				}
			}
			if first < 0 {
				break
			}
			tail := vlib.Tail(res.OutPath, 3000)
			if res.TimedOut {
				c.Inconclusive(fmt.Sprintf("child for cases %d..%d hit the wall-clock watchdog inside case %d", lo, hi-1, first))
				lo = first + 1
				continue
			}
			if !begun[first] {
				c.Inconclusive(fmt.Sprintf("child for cases %d..%d exited (code %d) before starting case %d: %s", lo, hi-1, res.ExitCode, first, tail))
				break
			}
			if o.OnCrash != nil {
				o.OnCrash(Crash{Index: first, ExitCode: res.ExitCode, TimedOut: res.TimedOut, Tail: tail})
			} else {
				c.Inconclusive(fmt.Sprintf("child died inside case %d (exit %d): %s", first, res.ExitCode, tail))
			}
			lo = first + 1
		}
	}
	if o.First > 0 {
		runRange(0, o.First)
	}
	vlib.Parallel(len(rs), o.Workers, func(k int) { runRange(rs[k].lo, rs[k].hi) })
}
