// Package c18rdma is the RDMA component part of property C18: 2-4 real
// rdma.Comp engines wired to each other the way timingconfig wires them
// (shared banked address table -> RDMADataOutside of the owner), each with
// fake L1 requesters, fake L2 memories (random latency, reordering,
// back-pressure, data = f(address, serial)) and a control peer that drains
// and restarts all engines the way driver + command processor do. The port
// trace of every engine is judged offline.
package c18rdma

import (
	"bytes"
	"encoding/json"
	"fmt"
	"sort"

	"github.com/sarchlab/akita/v4/mem/mem"
	"github.com/sarchlab/akita/v4/sim"
	"github.com/sarchlab/mgpusim/v4/amd/timing/rdma"

	"verifharness/vlib"
	"verifharness/vlib/simkit"
)

// Cfg is the configuration of one scenario.
type Cfg struct {
	N           int    `json:"engines"`
	BankSize    uint64 `json:"bank_size"`
	BufSize     int    `json:"buf_size"`
	PerCycle    [4]int `json:"per_cycle"` // incoming req/rsp, outgoing req/rsp
	L1PerEngine int    `json:"l1_per_engine"`
	L2PerEngine int    `json:"l2_per_engine"`
	L1InBuf     int    `json:"l1_in_buf"`
	L1StallPct  int    `json:"l1_stall_pct"`
	L2Latency   int    `json:"l2_latency"`
	L2Jitter    int    `json:"l2_jitter"`
	L2TopBuf    int    `json:"l2_top_buf"`
	L2StallPct  int    `json:"l2_stall_pct"`
	CtrlStall   int    `json:"ctrl_stall_pct"`
	Seed        uint64 `json:"seed"`
}

// Op is one access issued by an L1 of some engine to another engine's memory.
type Op struct {
	Gap   int    `json:"gap"`
	L1    int    `json:"l1"`
	Write bool   `json:"write"`
	Addr  uint64 `json:"addr"`
	Size  int    `json:"size"`
	Data  []byte `json:"data,omitempty"`
	Mask  []bool `json:"mask,omitempty"`
}

// Round is one drain / restart cycle of all engines.
type Round struct {
	At      int64 `json:"at"`      // cycle at which the first DrainReq is sent (not before the previous round ended)
	Stagger int   `json:"stagger"` // cycles between the commands to consecutive engines
	Hold    int   `json:"hold"`    // cycles between the last DrainRsp and the first RestartReq
}

// Scenario is a replayable case.
type Scenario struct {
	Name   string  `json:"name"`
	Cfg    Cfg     `json:"cfg"`
	Ops    [][]Op  `json:"ops"` // per engine
	Rounds []Round `json:"rounds"`
}

func gen(r *vlib.PRNG, idx int) Scenario {
	c := Cfg{N: 2 + r.Intn(3), BankSize: 1 << 20, BufSize: []int{1, 2, 4, 128, 128}[r.Intn(5)],
		L1PerEngine: 1 + r.Intn(2), L2PerEngine: 1 + r.Intn(2), L1InBuf: []int{1, 2, 8}[r.Intn(3)],
		L1StallPct: []int{0, 0, 30, 60}[r.Intn(4)], L2Latency: []int{0, 1, 5, 30, 100}[r.Intn(5)],
		L2Jitter: []int{0, 3, 20, 80}[r.Intn(4)], L2TopBuf: []int{1, 2, 16}[r.Intn(3)],
		L2StallPct: []int{0, 0, 30, 60}[r.Intn(4)], CtrlStall: []int{0, 0, 50}[r.Intn(3)], Seed: r.Uint64()}
	for i := range c.PerCycle {
		c.PerCycle[i] = 1
		if idx%4 == 3 {
			c.PerCycle[i] = 1 + r.Intn(4)
		}
	}
	s := Scenario{Name: fmt.Sprintf("r%d", idx), Cfg: c, Ops: make([][]Op, c.N)}
	line := 0
	var span int64
	for e := 0; e < c.N; e++ {
		nOps := 5 + r.Intn(60)
		if r.Chance(1, 8) {
			nOps = 0 // an engine that only serves
		}
		var t int64
		for k := 0; k < nOps; k++ {
			owner := r.Intn(c.N - 1)
			if owner >= e {
				owner++
			}
			size := []int{4, 8, 16, 32, 64, 64, 64, 1 + r.Intn(64)}[r.Intn(8)]
			off := 0
			if size < 64 {
				off = r.Intn(64 - size + 1)
			}
			line++
			o := Op{Gap: []int{0, 0, 1, r.Intn(8), r.Intn(60)}[r.Intn(5)], L1: r.Intn(c.L1PerEngine),
				Addr: uint64(owner+1)*c.BankSize + uint64(line)*64 + uint64(off), Size: size, Write: r.Chance(2, 5)}
			if o.Write {
				o.Data = make([]byte, size)
				r.Bytes(o.Data)
				if r.Chance(1, 3) {
					o.Mask = make([]bool, size)
					for j := range o.Mask {
						o.Mask[j] = r.Bool()
					}
				}
			}
			t += int64(o.Gap)
			s.Ops[e] = append(s.Ops[e], o)
		}
		if t > span {
			span = t
		}
	}
	span += int64(c.L2Latency + 20)
	nRounds := r.Intn(4)
	if idx%2 == 0 && nRounds == 0 {
		nRounds = 1
	}
	for k := 0; k < nRounds; k++ {
		s.Rounds = append(s.Rounds, Round{At: int64(r.Intn(int(span) + 1)), Stagger: r.Intn(3), Hold: []int{0, 5, 50, 300}[r.Intn(4)]})
	}
	sort.Slice(s.Rounds, func(a, b int) bool { return s.Rounds[a].At < s.Rounds[b].At })
	return s
}

func canonical() []Scenario {
	mkc := func(n int) Cfg {
		return Cfg{N: n, BankSize: 1 << 20, BufSize: 128, PerCycle: [4]int{1, 1, 1, 1}, L1PerEngine: 2, L2PerEngine: 1,
			L1InBuf: 8, L2Latency: 30, L2Jitter: 20, L2TopBuf: 16, Seed: 42}
	}
	rd := func(gap, l1 int, addr uint64) Op { return Op{Gap: gap, L1: l1, Addr: addr, Size: 64} }
	wr := func(gap, l1 int, addr uint64, b byte) Op {
		return Op{Gap: gap, L1: l1, Write: true, Addr: addr, Size: 64, Data: bytes.Repeat([]byte{b}, 64)}
	}
	const B = 1 << 20
	return []Scenario{
		{Name: "canon-two-engines-cross-traffic", Cfg: mkc(2), Ops: [][]Op{
			{rd(0, 0, 2*B+0x40), wr(0, 1, 2*B+0x80, 0xA1), rd(1, 1, 2*B+0xC0), rd(0, 0, 2*B+0x100)},
			{wr(0, 0, 1*B+0x40, 0xB2), rd(0, 1, 1*B+0x80), rd(3, 0, 1*B+0xC0)}}},
		{Name: "canon-drain-while-transactions-open-then-restart", Cfg: mkc(3), Ops: [][]Op{
			{rd(0, 0, 2*B+0x40), rd(0, 1, 3*B+0x40), rd(0, 0, 2*B+0x80), rd(8, 1, 3*B+0x80), rd(0, 0, 2*B+0xC0), wr(30, 1, 3*B+0xC0, 1)},
			{rd(0, 0, 1*B+0x40), wr(0, 0, 3*B+0x100, 2), rd(12, 1, 1*B+0x80), rd(40, 1, 1*B+0xC0)},
			{rd(2, 0, 1*B+0x100), rd(2, 0, 2*B+0x100), rd(20, 0, 1*B+0x140)}},
			Rounds: []Round{{At: 5, Stagger: 1, Hold: 50}, {At: 200, Stagger: 0, Hold: 5}}},
	}
}

// ---------------------------------------------------------------------------

type l2Rec struct {
	serial int
	data   []byte
}

type l2Pending struct {
	due    int64
	req    mem.AccessReq
	serial int
}

type fakeL2 struct {
	*simkit.Agent
	Top       sim.Port
	cfg       Cfg
	rng       *vlib.PRNG
	pending   []l2Pending
	serial    int
	served    map[string]l2Rec // by id of the request received
	Reordered int64
	Stalls    int64
	SendFails int64
}

func l2Data(addr uint64, serial int, n uint64) []byte {
	b := make([]byte, n)
	vlib.NewPRNG(addr*1000003 + uint64(serial)).Bytes(b)
	return b
}

func (m *fakeL2) tick(a *simkit.Agent) bool {
	now := a.NowCycle()
	progress := false
	for {
		var due []int
		for i, p := range m.pending {
			if p.due <= now {
				due = append(due, i)
			}
		}
		if len(due) == 0 {
			break
		}
		j := due[m.rng.Intn(len(due))]
		p := m.pending[j]
		var rsp sim.Msg
		var data []byte
		switch r := p.req.(type) {
		case *mem.ReadReq:
			data = l2Data(r.Address, p.serial, r.AccessByteSize)
			rsp = mem.DataReadyRspBuilder{}.WithSrc(m.Top.AsRemote()).WithDst(r.Src).WithRspTo(r.ID).WithData(append([]byte(nil), data...)).Build()
		case *mem.WriteReq:
			rsp = mem.WriteDoneRspBuilder{}.WithSrc(m.Top.AsRemote()).WithDst(r.Src).WithRspTo(r.ID).Build()
		}
		if m.Top.Send(rsp) != nil {
			m.SendFails++
			break
		}
		m.served[p.req.Meta().ID] = l2Rec{serial: p.serial, data: data}
		if j != 0 {
			m.Reordered++
		}
		m.pending = append(m.pending[:j], m.pending[j+1:]...)
		progress = true
	}
	if m.cfg.L2StallPct > 0 && m.rng.Intn(100) < m.cfg.L2StallPct {
		m.Stalls++
	} else {
		for {
			msg := m.Top.RetrieveIncoming()
			if msg == nil {
				break
			}
			ar, ok := msg.(mem.AccessReq)
			if !ok {
				panic(fmt.Sprintf("fake L2 got %T", msg))
			}
			d := now + int64(m.cfg.L2Latency)
			if m.cfg.L2Jitter > 0 {
				d += int64(m.rng.Intn(m.cfg.L2Jitter + 1))
			}
			m.serial++
			m.pending = append(m.pending, l2Pending{due: d, req: ar, serial: m.serial})
			progress = true
		}
	}
	return progress || len(m.pending) > 0 || m.Top.PeekIncoming() != nil
}

type payload struct {
	write bool
	addr  uint64
	size  uint64
	data  []byte
	mask  []bool
}

func payloadOf(m sim.Msg) (payload, bool) {
	switch r := m.(type) {
	case *mem.ReadReq:
		return payload{addr: r.Address, size: r.AccessByteSize}, true
	case *mem.WriteReq:
		return payload{write: true, addr: r.Address, size: uint64(len(r.Data)), data: r.Data, mask: r.DirtyMask}, true
	}
	return payload{}, false
}

func (p payload) equal(q payload) bool {
	if p.write != q.write || p.addr != q.addr || p.size != q.size || !bytes.Equal(p.data, q.data) || len(p.mask) != len(q.mask) {
		return false
	}
	for i := range p.mask {
		if p.mask[i] != q.mask[i] {
			return false
		}
	}
	return true
}

// txn is the monitor's view of one L1 request.
type txn struct {
	engine, opIdx int
	op            Op
	orig          mem.AccessReq
	origin        sim.RemotePort // the L1 port
	owner         int

	outSends  int // forwarded on an engine's RDMARequestOutside
	outMsg    mem.AccessReq
	outEngine int
	inSends   int // forwarded on an engine's RDMADataInside
	inMsg     mem.AccessReq
	inEngine  int
	rspOut    int // answers on the owner's RDMADataOutside
	rspIn     int // answers on the originator's RDMARequestInside
	rspInMsg  sim.Msg
	delivered int // taken by the L1
}

// Run generates and executes `scenarios` seeded scenarios plus the canonical
// battery and reports to rec. Keys start with "C18|rdma|".
func Run(rec vlib.Recorder, rng *vlib.PRNG, scenarios int) {
	for _, s := range canonical() {
		RunScenario(rec, s)
	}
	scs := make([]Scenario, scenarios)
	for i := range scs {
		scs[i] = gen(rng.ForkN("s", i), i)
	}
	vlib.Parallel(len(scs), 0, func(i int) { RunScenario(rec, scs[i]) })
}

// Replay re-executes the RDMA scenario stored in a replay file (its bytes,
// read before vlib.Start removes stale replays); it returns false if the
// file holds no RDMA scenario.
func Replay(rec vlib.Recorder, b []byte) bool {
	var f struct {
		Witness struct {
			Part     string   `json:"part"`
			Scenario Scenario `json:"scenario"`
		} `json:"witness"`
	}
	if json.Unmarshal(b, &f) != nil || f.Witness.Part != "rdma" {
		return false
	}
	RunScenario(rec, f.Witness.Scenario)
	return true
}

// MinCounters are the evidence minimums of this part for a quick run.
func MinCounters() map[string]int64 {
	return map[string]int64{
		"rdma_transactions_checked":           2000,
		"rdma_drain_acks_checked":             100,
		"rdma_drains_issued_with_open_txn":    20,
		"rdma_l2_reordered_replies":           200,
		"rdma_requests_held_while_drained":    20,
		"rdma_requests_resumed_after_restart": 20,
		"rdma_backpressure_send_failures_l2":  20,
	}
}

// RunScenario executes one scenario and judges its trace.
func RunScenario(rec vlib.Recorder, s Scenario) {
	rec.Eval()
	c := s.Cfg
	engine := sim.NewSerialEngine()
	freq := 1 * sim.GHz
	log := simkit.NewLog(engine, freq)
	rng := vlib.NewPRNG(c.Seed)

	table := &mem.BankedAddressPortMapper{BankSize: c.BankSize}
	table.LowModules = append(table.LowModules, sim.RemotePort("CPU"))
	outside := simkit.Connect(engine, freq, "PCIe")
	engines := make([]*rdma.Comp, c.N)
	l1s := make([][]*simkit.Requester, c.N)
	l2s := make([][]*fakeL2, c.N)
	finders := make([]*mem.InterleavedAddressPortMapper, c.N)
	cp := simkit.NewAgent("CP", engine, freq)
	cpPorts := make([]sim.Port, c.N)
	for e := 0; e < c.N; e++ {
		finders[e] = mem.NewInterleavedAddressPortMapper(4096)
		engines[e] = rdma.MakeBuilder().WithEngine(engine).WithFreq(freq).WithBufferSize(c.BufSize).
			WithLocalModules(finders[e]).WithRemoteModules(table).
			WithIncomingReqPerCycle(c.PerCycle[0]).WithIncomingRspPerCycle(c.PerCycle[1]).
			WithOutgoingReqPerCycle(c.PerCycle[2]).WithOutgoingRspPerCycle(c.PerCycle[3]).
			Build(fmt.Sprintf("GPU%d.RDMA", e+1))
		table.LowModules = append(table.LowModules, engines[e].RDMADataOutside.AsRemote())
		outside.PlugIn(engines[e].RDMARequestOutside)
		outside.PlugIn(engines[e].RDMADataOutside)
		inner := simkit.Connect(engine, freq, fmt.Sprintf("GPU%d.L1ToL2", e+1), engines[e].RDMARequestInside, engines[e].RDMADataInside)
		for k := 0; k < c.L2PerEngine; k++ {
			m := &fakeL2{cfg: c, rng: rng.ForkN(fmt.Sprintf("l2-%d", e), k), served: map[string]l2Rec{}}
			m.Agent = simkit.NewAgent(fmt.Sprintf("GPU%d.L2x%d", e+1, k), engine, freq)
			m.Top = m.Agent.NewPort("Top", c.L2TopBuf, c.L2TopBuf)
			m.Agent.TickFn = m.tick
			inner.PlugIn(m.Top)
			finders[e].LowModules = append(finders[e].LowModules, m.Top.AsRemote())
			l2s[e] = append(l2s[e], m)
		}
		for k := 0; k < c.L1PerEngine; k++ {
			q := simkit.NewRequester(fmt.Sprintf("GPU%d.L1x%d", e+1, k), engine, freq, c.L1InBuf, 4)
			if c.L1StallPct > 0 {
				sr := rng.ForkN(fmt.Sprintf("l1-%d", e), k)
				q.StallFn = func(int64) bool { return sr.Intn(100) < c.L1StallPct }
			}
			inner.PlugIn(q.Out)
			l1s[e] = append(l1s[e], q)
		}
		cpPorts[e] = cp.NewPort(fmt.Sprintf("ToRDMA%d", e+1), 4, 4)
		simkit.Connect(engine, freq, fmt.Sprintf("GPU%d.Internal", e+1), cpPorts[e], engines[e].CtrlPort)
		log.Attach(engines[e].RDMARequestInside, fmt.Sprintf("%d.ReqIn", e))
		log.Attach(engines[e].RDMARequestOutside, fmt.Sprintf("%d.ReqOut", e))
		log.Attach(engines[e].RDMADataOutside, fmt.Sprintf("%d.DataOut", e))
		log.Attach(engines[e].RDMADataInside, fmt.Sprintf("%d.DataIn", e))
		log.Attach(engines[e].CtrlPort, fmt.Sprintf("%d.Ctrl", e))
	}

	// L1 plans
	var txns []*txn
	byOrigID := map[string]*txn{}
	byAddr := map[uint64]*txn{}
	for e := 0; e < c.N; e++ {
		cycle := int64(1)
		for k, o := range s.Ops[e] {
			cycle += int64(o.Gap)
			q := l1s[e][o.L1%len(l1s[e])]
			var m mem.AccessReq
			if o.Write {
				wb := mem.WriteReqBuilder{}.WithSrc(q.Out.AsRemote()).WithDst(engines[e].RDMARequestInside.AsRemote()).
					WithAddress(o.Addr).WithData(append([]byte(nil), o.Data...)).WithPID(1)
				if o.Mask != nil {
					wb = wb.WithDirtyMask(append([]bool(nil), o.Mask...))
				}
				m = wb.Build()
			} else {
				m = mem.ReadReqBuilder{}.WithSrc(q.Out.AsRemote()).WithDst(engines[e].RDMARequestInside.AsRemote()).
					WithAddress(o.Addr).WithByteSize(uint64(o.Size)).WithPID(1).Build()
			}
			t := &txn{engine: e, opIdx: k, op: o, orig: m, origin: q.Out.AsRemote(), owner: int(o.Addr/c.BankSize) - 1, outEngine: -1, inEngine: -1}
			txns = append(txns, t)
			byOrigID[m.Meta().ID] = t
			byAddr[o.Addr] = t
			q.Plan = append(q.Plan, simkit.Planned{NotBefore: cycle, Msg: m})
		}
	}
	for e := range l1s {
		for _, q := range l1s[e] {
			q.TickLater()
		}
	}

	// control peer: drains and restarts all engines, like driver + CP
	type roundRun struct {
		Round
		drainReqs, restartReqs []sim.Msg
		drainRsps, restartRsps int
	}
	rounds := make([]*roundRun, len(s.Rounds))
	for i, r := range s.Rounds {
		rounds[i] = &roundRun{Round: r}
	}
	cur, phase, sentN := 0, 0, 0 // phase: 0 wait, 1 sending drains, 2 waiting drain rsps, 3 hold, 4 sending restarts, 5 waiting restart rsps
	var nextAt int64
	var ctrlUnexpected string
	cstall := rng.Fork("ctrl-stall")
	cp.TickFn = func(a *simkit.Agent) bool {
		now := a.NowCycle()
		if cur >= len(rounds) {
			for e := range cpPorts {
				if m := cpPorts[e].RetrieveIncoming(); m != nil {
					ctrlUnexpected = fmt.Sprintf("%T after the last round", m)
				}
			}
			return false
		}
		r := rounds[cur]
		if !(c.CtrlStall > 0 && cstall.Intn(100) < c.CtrlStall) {
			for e := range cpPorts {
				for {
					m := cpPorts[e].RetrieveIncoming()
					if m == nil {
						break
					}
					switch m.(type) {
					case *rdma.DrainRsp:
						r.drainRsps++
					case *rdma.RestartRsp:
						r.restartRsps++
					default:
						ctrlUnexpected = fmt.Sprintf("%T", m)
					}
				}
			}
		}
		switch phase {
		case 0:
			if now >= r.At {
				phase, sentN, nextAt = 1, 0, now
			}
		case 1:
			if now >= nextAt {
				m := rdma.DrainReqBuilder{}.WithSrc(cpPorts[sentN].AsRemote()).WithDst(engines[sentN].CtrlPort.AsRemote()).Build()
				if cpPorts[sentN].Send(m) == nil {
					r.drainReqs = append(r.drainReqs, m)
					sentN++
					nextAt = now + int64(r.Stagger)
				}
				if sentN == c.N {
					phase = 2
				}
			}
		case 2:
			if r.drainRsps >= c.N {
				phase, nextAt = 3, now+int64(r.Hold)
			}
		case 3:
			if now >= nextAt {
				phase, sentN = 4, 0
			}
		case 4:
			if now >= nextAt {
				m := rdma.RestartReqBuilder{}.WithSrc(cpPorts[sentN].AsRemote()).WithDst(engines[sentN].CtrlPort.AsRemote()).Build()
				if cpPorts[sentN].Send(m) == nil {
					r.restartReqs = append(r.restartReqs, m)
					sentN++
					nextAt = now + int64(r.Stagger)
				}
				if sentN == c.N {
					phase = 5
				}
			}
		case 5:
			if r.restartRsps >= c.N {
				cur++
				phase = 0
			}
		}
		// waiting phases are woken by the arrival of the answers
		return phase == 0 || phase == 1 || phase == 3 || phase == 4 || (phase == 2 || phase == 5) && anyIncoming(cpPorts)
	}
	if len(rounds) > 0 {
		cp.TickLater()
	}

	var nOps int64
	for e := range s.Ops {
		nOps += int64(len(s.Ops[e]))
	}
	var holdSum int64
	for _, r := range s.Rounds {
		holdSum += r.At + int64(r.Hold) + 100
	}
	limit := nOps*int64(4000+40*(c.L2Latency+c.L2Jitter)) + holdSum*40 + 300000
	nEv, livelock, pv := simkit.RunBounded(engine, limit)
	rec.Count("rdma_engine_events", nEv)

	wit := func(extra map[string]any) map[string]any {
		m := map[string]any{"part": "rdma", "scenario": s}
		for k, v := range extra {
			m[k] = v
		}
		return m
	}
	seen := map[string]bool{}
	viol := func(key, what string, extra map[string]any) {
		if seen[key] {
			return
		}
		seen[key] = true
		rec.Violation("C18|rdma|"+key, s.Name+": "+what, wit(extra))
	}
	if pv != nil {
		viol("crash", fmt.Sprintf("RDMA engine panicked on in-protocol traffic: %v", pv), nil)
		return
	}
	if livelock {
		viol("livelock", "engine exceeded the event bound", nil)
		return
	}
	if ctrlUnexpected != "" {
		viol("unexpected-control-answer", "control peer received "+ctrlUnexpected, nil)
	}

	// ---- offline checker ----
	portName := func(p sim.Port) sim.RemotePort { return p.AsRemote() }
	outIDs := map[string]*txn{}           // id of the clone on RDMARequestOutside
	inIDs := map[string]*txn{}            // id of the clone on RDMADataInside
	openIn := make([]map[*txn]bool, c.N)  // inside-originated, open at the originating engine
	openOut := make([]map[*txn]bool, c.N) // outside-originated, open at the owning engine
	for e := range openIn {
		openIn[e], openOut[e] = map[*txn]bool{}, map[*txn]bool{}
	}
	drained := make([]bool, c.N)   // between DrainRsp sent and RestartReq delivered
	paused := make([]bool, c.N)    // between DrainReq taken and RestartRsp sent
	heldWhile := make([]bool, c.N) // a request waited in RDMARequestInside while paused
	pendingIn := make([]int, c.N)  // requests delivered to RDMARequestInside and not yet taken
	drainReqSeen := make([]int, c.N)
	drainRspSeen := make([]int, c.N)
	restartReqSeen := make([]int, c.N)
	restartRspSeen := make([]int, c.N)
	var drainAcks, drainsWithOpen, held, resumed int64
	for _, ev := range log.Snapshot() {
		var e int
		var pn string
		fmt.Sscanf(ev.Port, "%d.%s", &e, &pn)
		switch pn {
		case "Ctrl":
			switch m := ev.Msg.(type) {
			case *rdma.DrainReq:
				if ev.Kind == simkit.KRecv {
					drainReqSeen[e]++
					if len(openIn[e])+len(openOut[e]) > 0 {
						drainsWithOpen++
					}
				}
				if ev.Kind == simkit.KRetrieve {
					paused[e] = true
				}
			case *rdma.DrainRsp:
				if ev.Kind != simkit.KSend {
					continue
				}
				drainRspSeen[e]++
				drainAcks++
				if drainRspSeen[e] > drainReqSeen[e] {
					viol("drain-ack-without-request", fmt.Sprintf("engine %d sent a DrainRsp with no DrainReq outstanding", e), nil)
				}
				if m.Dst != portName(cpPorts[e]) {
					viol("drain-ack-to-wrong-port", fmt.Sprintf("engine %d sent its DrainRsp to %s", e, m.Dst), nil)
				}
				if n := len(openIn[e]) + len(openOut[e]); n > 0 {
					var ex *txn
					for t := range openIn[e] {
						ex = t
					}
					for t := range openOut[e] {
						ex = t
					}
					viol("drain-acknowledged-with-transaction-in-flight",
						fmt.Sprintf("engine %d sent DrainRsp while %d of its transactions were open (%d from its L1s awaiting the remote answer, %d from other engines awaiting its L2), e.g. the access to 0x%x issued by engine %d",
							e, n, len(openIn[e]), len(openOut[e]), ex.op.Addr, ex.engine), map[string]any{"engine": e, "addr": ex.op.Addr})
				}
				drained[e] = true
			case *rdma.RestartReq:
				if ev.Kind == simkit.KRecv {
					restartReqSeen[e]++
					drained[e] = false
				}
			case *rdma.RestartRsp:
				if ev.Kind != simkit.KSend {
					continue
				}
				restartRspSeen[e]++
				if restartRspSeen[e] > restartReqSeen[e] {
					viol("restart-ack-without-request", fmt.Sprintf("engine %d sent a RestartRsp with no RestartReq outstanding", e), nil)
				}
				if m.Dst != portName(cpPorts[e]) {
					viol("restart-ack-to-wrong-port", fmt.Sprintf("engine %d sent its RestartRsp to %s", e, m.Dst), nil)
				}
				paused[e] = false
			}
		case "ReqIn":
			switch ev.Kind {
			case simkit.KRecv:
				if _, ok := ev.Msg.(mem.AccessReq); ok {
					pendingIn[e]++
					if paused[e] {
						heldWhile[e] = true
						held++
					}
				}
			case simkit.KRetrieve:
				if _, ok := ev.Msg.(mem.AccessReq); ok {
					pendingIn[e]--
					if heldWhile[e] && !paused[e] {
						resumed++
						if pendingIn[e] == 0 {
							heldWhile[e] = false
						}
					}
				}
			case simkit.KSend: // answer to an L1
				rsp, ok := ev.Msg.(mem.AccessRsp)
				if !ok {
					viol("non-response-to-l1", fmt.Sprintf("engine %d sent %T to its inside", e, ev.Msg), nil)
					continue
				}
				t := byOrigID[rsp.GetRspTo()]
				if t == nil {
					viol("answer-with-unknown-id", fmt.Sprintf("engine %d answered its inside with RspTo=%s, which is no L1 request's id", e, rsp.GetRspTo()), nil)
					continue
				}
				t.rspIn++
				t.rspInMsg = ev.Msg
				if e != t.engine {
					viol("answer-at-wrong-engine", fmt.Sprintf("engine %d answered a request issued at engine %d", e, t.engine), nil)
				}
				if rsp.Meta().Dst != t.origin {
					viol("answer-to-wrong-originator", fmt.Sprintf("access to 0x%x was issued by %s but its answer was sent to %s", t.op.Addr, t.origin, rsp.Meta().Dst), map[string]any{"addr": t.op.Addr})
				}
				delete(openIn[t.engine], t)
			}
		case "ReqOut":
			switch ev.Kind {
			case simkit.KSend: // forwarded request
				ar, ok := ev.Msg.(mem.AccessReq)
				if !ok {
					viol("non-request-forwarded", fmt.Sprintf("engine %d sent %T on RDMARequestOutside", e, ev.Msg), nil)
					continue
				}
				t := byAddr[ar.GetAddress()]
				if t == nil {
					viol("forwarded-unknown-request", fmt.Sprintf("engine %d forwarded an access to 0x%x that no L1 issued", e, ar.GetAddress()), nil)
					continue
				}
				t.outSends++
				t.outMsg, t.outEngine = ar, e
				outIDs[ar.Meta().ID] = t
				openIn[e][t] = true
				if drained[e] {
					viol("new-remote-transaction-while-drained", fmt.Sprintf("engine %d forwarded the access to 0x%x after acknowledging a drain and before being restarted", e, ar.GetAddress()), map[string]any{"addr": ar.GetAddress()})
				}
			}
		case "DataOut":
			switch ev.Kind {
			case simkit.KRetrieve:
				if ar, ok := ev.Msg.(mem.AccessReq); ok {
					if t := outIDs[ar.Meta().ID]; t != nil {
						openOut[e][t] = true
					}
				}
			case simkit.KSend:
				rsp, ok := ev.Msg.(mem.AccessRsp)
				if !ok {
					continue
				}
				t := outIDs[rsp.GetRspTo()]
				if t == nil {
					viol("remote-answer-with-unknown-id", fmt.Sprintf("engine %d answered on RDMADataOutside with RspTo=%s, which is no forwarded request's id", e, rsp.GetRspTo()), nil)
					continue
				}
				t.rspOut++
				if rsp.Meta().Dst != t.outMsg.Meta().Src {
					viol("remote-answer-to-wrong-engine", fmt.Sprintf("answer for 0x%x sent to %s, the request came from %s", t.op.Addr, rsp.Meta().Dst, t.outMsg.Meta().Src), nil)
				}
				delete(openOut[e], t)
			}
		case "DataIn":
			if ev.Kind == simkit.KSend {
				ar, ok := ev.Msg.(mem.AccessReq)
				if !ok {
					continue
				}
				t := byAddr[ar.GetAddress()]
				if t == nil {
					viol("l2-access-unknown", fmt.Sprintf("engine %d sent its L2 an access to 0x%x that no L1 issued", e, ar.GetAddress()), nil)
					continue
				}
				t.inSends++
				t.inMsg, t.inEngine = ar, e
				inIDs[ar.Meta().ID] = t
				openOut[e][t] = true
			}
		}
	}

	// per transaction
	delivered := map[string]int{}
	deliveredMsg := map[string]sim.Msg{}
	for e := range l1s {
		for _, q := range l1s[e] {
			for _, g := range q.Got {
				if r, ok := g.Msg.(sim.Rsp); ok {
					delivered[r.GetRspTo()+"@"+string(q.Out.AsRemote())]++
					deliveredMsg[r.GetRspTo()] = g.Msg
				}
			}
			if !q.Done() {
				viol("l1-request-never-accepted", fmt.Sprintf("engine went idle with %d of %d requests of %s accepted", q.Sent(), len(q.Plan), q.Name()), nil)
			}
		}
	}
	var checked int64
	for _, t := range txns {
		ex := map[string]any{"engine": t.engine, "op": t.opIdx, "addr": t.op.Addr}
		want, _ := payloadOf(t.orig)
		id := t.orig.Meta().ID
		if _, sent := l1s[t.engine][t.op.L1%len(l1s[t.engine])].SentAt[id]; !sent {
			continue // reported above
		}
		if t.outSends != 1 {
			key := fmt.Sprintf("forwarded-outside=%d", t.outSends)
			if t.outSends == 0 {
				key = "deadlock|request-never-forwarded"
			}
			viol(key, fmt.Sprintf("access to 0x%x by engine %d appeared %d times on an RDMARequestOutside port (engine idle)", t.op.Addr, t.engine, t.outSends), ex)
			continue
		}
		if t.outEngine != t.engine || t.outMsg.Meta().Dst != engines[t.owner].RDMADataOutside.AsRemote() {
			viol("forwarded-to-wrong-engine", fmt.Sprintf("access to 0x%x (owner engine %d) was forwarded by engine %d to %s", t.op.Addr, t.owner, t.outEngine, t.outMsg.Meta().Dst), ex)
		}
		if p, _ := payloadOf(t.outMsg); !p.equal(want) {
			viol("payload-changed-outside", fmt.Sprintf("access to 0x%x: payload on RDMARequestOutside differs from the L1's (%+v vs %+v)", t.op.Addr, brief(p), brief(want)), ex)
		}
		if t.inSends != 1 {
			key := fmt.Sprintf("forwarded-to-l2=%d", t.inSends)
			if t.inSends == 0 {
				key = "deadlock|request-never-reached-l2"
			}
			viol(key, fmt.Sprintf("access to 0x%x appeared %d times at an L2 side (engine idle)", t.op.Addr, t.inSends), ex)
			continue
		}
		if t.inEngine != t.owner || t.inMsg.Meta().Dst != finders[t.owner].Find(t.op.Addr) {
			viol("l2-access-at-wrong-place", fmt.Sprintf("access to 0x%x (owner engine %d) reached L2 port %s of engine %d", t.op.Addr, t.owner, t.inMsg.Meta().Dst, t.inEngine), ex)
		}
		if p, _ := payloadOf(t.inMsg); !p.equal(want) {
			viol("payload-changed-at-l2", fmt.Sprintf("access to 0x%x: payload at the owner's L2 differs from the L1's (%+v vs %+v)", t.op.Addr, brief(p), brief(want)), ex)
		}
		if t.rspOut != 1 || t.rspIn != 1 {
			key := fmt.Sprintf("answers|remote=%d|inside=%d", t.rspOut, t.rspIn)
			if t.rspOut == 0 || t.rspIn == 0 {
				key = "deadlock|transaction-never-answered"
			}
			viol(key, fmt.Sprintf("access to 0x%x: %d answers on the owner's outside, %d answers to the L1 side (engine idle)", t.op.Addr, t.rspOut, t.rspIn), ex)
			continue
		}
		if n := delivered[id+"@"+string(t.origin)]; n != 1 {
			viol(fmt.Sprintf("delivered-to-originator=%d", n), fmt.Sprintf("access to 0x%x: its L1 received %d answers", t.op.Addr, n), ex)
			continue
		}
		// type and data
		var rec2 *l2Rec
		for _, m := range l2s[t.owner] {
			if r, ok := m.served[t.inMsg.Meta().ID]; ok {
				rec2 = &r
			}
		}
		if rec2 == nil {
			viol("l2-never-served", fmt.Sprintf("access to 0x%x was answered although no L2 served it", t.op.Addr), ex)
			continue
		}
		switch r := deliveredMsg[id].(type) {
		case *mem.DataReadyRsp:
			if t.op.Write || !bytes.Equal(r.Data, rec2.data) {
				viol("answer-data-differs-from-l2", fmt.Sprintf("access to 0x%x: the L1 received other data than the owner's L2 produced for this request (serial %d)", t.op.Addr, rec2.serial), ex)
			}
		case *mem.WriteDoneRsp:
			if !t.op.Write {
				viol("answer-type", fmt.Sprintf("read of 0x%x answered with a write acknowledgement", t.op.Addr), ex)
			}
		default:
			viol("answer-type", fmt.Sprintf("access to 0x%x answered with %T", t.op.Addr, r), ex)
		}
		checked++
	}
	for e := 0; e < c.N; e++ {
		if drainRspSeen[e] != drainReqSeen[e] || restartRspSeen[e] != restartReqSeen[e] {
			viol("deadlock|control-request-unanswered", fmt.Sprintf("engine %d: %d DrainReq / %d DrainRsp, %d RestartReq / %d RestartRsp (engine idle)",
				e, drainReqSeen[e], drainRspSeen[e], restartReqSeen[e], restartRspSeen[e]), nil)
		}
		if n := len(openIn[e]) + len(openOut[e]); n > 0 && len(seen) == 0 {
			viol("deadlock|open-transaction-at-idle", fmt.Sprintf("engine %d has %d open transactions although the simulation is idle", e, n), nil)
		}
	}
	if cur < len(rounds) {
		viol("deadlock|drain-round-incomplete", fmt.Sprintf("round %d stopped in phase %d: %d/%d DrainRsp, %d/%d RestartRsp (engine idle)",
			cur, phase, rounds[cur].drainRsps, c.N, rounds[cur].restartRsps, c.N), nil)
	}

	rec.Count("rdma_transactions_checked", checked)
	rec.Count("rdma_drain_acks_checked", drainAcks)
	rec.Count("rdma_drains_issued_with_open_txn", drainsWithOpen)
	rec.Count("rdma_requests_held_while_drained", held)
	rec.Count("rdma_requests_resumed_after_restart", resumed)
	var reord int64
	for e := range l2s {
		for _, m := range l2s[e] {
			reord += m.Reordered
			rec.Count("rdma_backpressure_send_failures_l2", m.SendFails)
			rec.Count("rdma_l2_stalls", m.Stalls)
		}
	}
	rec.Count("rdma_l2_reordered_replies", reord)
	rec.Distinct("rdma_config", fmt.Sprintf("%+v", struct {
		A, B, C, D, E, F, G, H int
		P                      [4]int
	}{c.N, c.BufSize, c.L1PerEngine, c.L2PerEngine, c.L2Latency, c.L2Jitter, c.L2StallPct, c.L1StallPct, c.PerCycle}))
	if len(seen) == 0 && checked > 0 && reord > 0 && drainsWithOpen > 0 {
		rec.Nontrivial("rdma:" + s.Name)
	}
	rec.Sample(map[string]any{"part": "rdma", "name": s.Name, "cfg": c, "rounds": s.Rounds, "ops_engine0": s.Ops[0][:min(3, len(s.Ops[0]))]})
}

func anyIncoming(ps []sim.Port) bool {
	for _, p := range ps {
		if p.PeekIncoming() != nil {
			return true
		}
	}
	return false
}

func brief(p payload) string {
	return fmt.Sprintf("{write:%v addr:0x%x size:%d data:%d bytes mask:%d}", p.write, p.addr, p.size, len(p.data), len(p.mask))
}
