package isaspec

import (
	"math"
	"math/big"
)

// Floating point helpers. Rounding is round-to-nearest-even (the reset value
// of MODE.round and what "exactly rounded" means in the property); everything
// that depends on MODE.denorm / MODE.ieee / MODE.dx10_clamp is reported as
// loose, never as one demanded value.

const (
	minNormal32 = 0x00800000
	qnan32      = 0x7fc00000
	qnan64      = 0x7ff8000000000000
	minNormal64 = 0x0010000000000000
)

func isNaN32(b uint32) bool  { return b&0x7f800000 == 0x7f800000 && b&0x007fffff != 0 }
func isSNaN32(b uint32) bool { return isNaN32(b) && b&0x00400000 == 0 }
func isInf32(b uint32) bool  { return b&0x7fffffff == 0x7f800000 }
func isDen32(b uint32) bool  { return b&0x7f800000 == 0 && b&0x007fffff != 0 }
func isZero32(b uint32) bool { return b&0x7fffffff == 0 }
func isNaN64(b uint64) bool {
	return b&0x7ff0000000000000 == 0x7ff0000000000000 && b&0x000fffffffffffff != 0
}
func isSNaN64(b uint64) bool { return isNaN64(b) && b&0x0008000000000000 == 0 }
func isInf64(b uint64) bool  { return b&0x7fffffffffffffff == 0x7ff0000000000000 }
func isDen64(b uint64) bool {
	return b&0x7ff0000000000000 == 0 && b&0x000fffffffffffff != 0
}
func isZero64(b uint64) bool { return b&0x7fffffffffffffff == 0 }

func f32(b uint32) float32 { return math.Float32frombits(b) }
func b32(f float32) uint32 { return math.Float32bits(f) }
func f64(b uint64) float64 { return math.Float64frombits(b) }
func b64(f float64) uint64 { return math.Float64bits(f) }

// fk classifies a computed float result.
type fk int

const (
	fkExact fk = iota // the value is THE result
	fkNaN             // result is a NaN (any NaN conforms)
	fkMode            // result depends on MODE (denormal in or out): not judged
)

// fr is a float result: bits + classification.
type fr32 struct {
	v uint32
	k fk
}
type fr64 struct {
	v uint64
	k fk
}

// round32 classifies the f32 rounding r of the (higher precision) value x.
func round32(x float64) fr32 {
	r := float32(x) // Go: IEEE round-to-nearest-even conversion
	rb := b32(r)
	switch {
	case isNaN32(rb):
		return fr32{qnan32, fkNaN}
	case isDen32(rb):
		return fr32{rb, fkMode}
	case rb&0x7fffffff == minNormal32 && math.Abs(x) < float64(f32(minNormal32)):
		return fr32{rb, fkMode} // underflows before rounding: flush-to-zero hardware may deliver 0
	case isZero32(rb) && x != 0:
		return fr32{rb, fkMode} // total underflow: sign/flush handling is mode dependent only in sign-preserving ways, but keep it out
	}
	return fr32{rb, fkExact}
}

func classify64(r float64, tiny bool) fr64 {
	rb := b64(r)
	switch {
	case isNaN64(rb):
		return fr64{qnan64, fkNaN}
	case isDen64(rb) || tiny:
		return fr64{rb, fkMode}
	}
	return fr64{rb, fkExact}
}

func anyDen32(xs ...uint32) bool {
	for _, x := range xs {
		if isDen32(x) {
			return true
		}
	}
	return false
}

func anyDen64(xs ...uint64) bool {
	for _, x := range xs {
		if isDen64(x) {
			return true
		}
	}
	return false
}

func anyNaN32(xs ...uint32) bool {
	for _, x := range xs {
		if isNaN32(x) {
			return true
		}
	}
	return false
}

func anyNaN64(xs ...uint64) bool {
	for _, x := range xs {
		if isNaN64(x) {
			return true
		}
	}
	return false
}

// addF32: D.f = S0.f + S1.f (V_ADD_F32), exactly rounded. The sum of two
// f32 values computed in f64 is either exact or so far from an f32 rounding
// boundary that the second rounding cannot differ from a single one.
func addF32(a, b uint32) fr32 {
	if anyNaN32(a, b) {
		return fr32{qnan32, fkNaN}
	}
	if anyDen32(a, b) {
		return fr32{0, fkMode}
	}
	return round32(float64(f32(a)) + float64(f32(b)))
}

// mulF32: D.f = S0.f * S1.f (V_MUL_F32): the f64 product of two f32 is exact.
func mulF32(a, b uint32) fr32 {
	if anyNaN32(a, b) {
		return fr32{qnan32, fkNaN}
	}
	if anyDen32(a, b) {
		return fr32{0, fkMode}
	}
	return round32(float64(f32(a)) * float64(f32(b)))
}

// fmaF32: D.f = S0.f * S1.f + S2.f with a single rounding (V_FMA_F32,
// V_FMAC_F32). math.FMA in f64 rounds the exact value once to 53 bits; only if
// that lands exactly on the midpoint of two adjacent f32 values can the second
// rounding go wrong, then the exact value is taken from math/big.
func fmaF32(a, b, c uint32) fr32 {
	if anyNaN32(a, b, c) {
		return fr32{qnan32, fkNaN}
	}
	if anyDen32(a, b, c) {
		return fr32{0, fkMode}
	}
	x, y, z := float64(f32(a)), float64(f32(b)), float64(f32(c))
	s := math.FMA(x, y, z)
	if math.IsInf(s, 0) || math.IsNaN(s) || s == 0 {
		return round32(s)
	}
	if b64(s)&0x1fffffff == 0x10000000 {
		// possible double rounding: decide with exact arithmetic
		var p, q big.Float
		p.SetPrec(400).SetFloat64(x)
		q.SetPrec(400).SetFloat64(y)
		p.Mul(&p, &q)
		q.SetFloat64(z)
		p.Add(&p, &q)
		r, _ := p.Float32()
		rb := b32(r)
		if isDen32(rb) || rb&0x7fffffff <= minNormal32 {
			return fr32{rb, fkMode}
		}
		return fr32{rb, fkExact}
	}
	return round32(s)
}

// madF32: V_MAD_F32 / V_MAC_F32 / V_MADAK / V_MADMK: "Gives same result as ADD
// after MUL_IEEE": the product is rounded to f32, then the sum is rounded.
func madF32(a, b, c uint32) fr32 {
	p := mulF32(a, b)
	if p.k == fkNaN {
		return p
	}
	if p.k == fkMode {
		if isNaN32(c) {
			return fr32{qnan32, fkNaN}
		}
		return fr32{0, fkMode}
	}
	return addF32(p.v, c)
}

func addF64(a, b uint64) fr64 {
	if anyNaN64(a, b) {
		return fr64{qnan64, fkNaN}
	}
	if anyDen64(a, b) {
		return fr64{0, fkMode}
	}
	r := f64(a) + f64(b)
	return classify64(r, b64(r)&0x7fffffffffffffff == minNormal64)
}

func mulF64(a, b uint64) fr64 {
	if anyNaN64(a, b) {
		return fr64{qnan64, fkNaN}
	}
	if anyDen64(a, b) {
		return fr64{0, fkMode}
	}
	r := f64(a) * f64(b)
	rb := b64(r)
	tiny := rb&0x7fffffffffffffff == minNormal64 || (isZero64(rb) && !isZero64(a) && !isZero64(b))
	return classify64(r, tiny)
}

func fmaF64(a, b, c uint64) fr64 {
	if anyNaN64(a, b, c) {
		return fr64{qnan64, fkNaN}
	}
	if anyDen64(a, b, c) {
		return fr64{0, fkMode}
	}
	r := math.FMA(f64(a), f64(b), f64(c))
	rb := b64(r)
	tiny := rb&0x7fffffffffffffff == minNormal64 || (isZero64(rb) && !isZero64(a) && !isZero64(b))
	return classify64(r, tiny)
}

// omod / clamp (6.2.2, 6.5): result * {1,2,4,0.5}, then clamp to [0.0, 1.0].
// OMOD: 0 none, 1 *2, 2 *4, 3 /2.
func outMod32(r fr32, omod uint8, clamp bool) fr32 {
	if omod == 0 && !clamp {
		return r
	}
	if r.k == fkMode {
		return r
	}
	if r.k == fkNaN {
		if clamp {
			return fr32{0, fkMode} // DX10_CLAMP decides between 0 and NaN
		}
		return r
	}
	x := float64(f32(r.v))
	switch omod {
	case 1:
		x *= 2
	case 2:
		x *= 4
	case 3:
		x /= 2
	}
	out := round32(x)
	if out.k != fkExact {
		return out
	}
	if clamp {
		v := f32(out.v)
		switch {
		case v < 0 || isZero32(out.v):
			// -0 clamps to +0 or stays -0: not spelled out
			if out.v == 0x80000000 {
				return fr32{0, fkMode}
			}
			return fr32{0, fkExact}
		case v > 1:
			return fr32{0x3f800000, fkExact}
		}
	}
	return out
}

func outMod64(r fr64, omod uint8, clamp bool) fr64 {
	if omod == 0 && !clamp {
		return r
	}
	if r.k == fkMode {
		return r
	}
	if r.k == fkNaN {
		if clamp {
			return fr64{0, fkMode}
		}
		return r
	}
	x := f64(r.v)
	switch omod {
	case 1:
		x *= 2
	case 2:
		x *= 4
	case 3:
		x /= 2
	}
	out := classify64(x, b64(x)&0x7fffffffffffffff <= minNormal64 && x != 0)
	if out.k != fkExact {
		return out
	}
	if clamp {
		switch {
		case x < 0 || x == 0:
			if out.v == 0x8000000000000000 {
				return fr64{0, fkMode}
			}
			return fr64{0, fkExact}
		case x > 1:
			return fr64{b64(1), fkExact}
		}
	}
	return out
}

// inMod32 / inMod64: VOP3 ABS then NEG on the raw bits (sign bit only).
func inMod32(v uint32, abs, neg bool) uint32 {
	if abs {
		v &^= 0x80000000
	}
	if neg {
		v ^= 0x80000000
	}
	return v
}

func inMod64(v uint64, abs, neg bool) uint64 {
	if abs {
		v &^= 0x8000000000000000
	}
	if neg {
		v ^= 0x8000000000000000
	}
	return v
}
