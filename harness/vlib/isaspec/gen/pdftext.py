#!/usr/bin/env python3
# pdftext.py <gcn3 pdf> — text of the (encrypted) GCN3 manual, like
# /verif/tools/pdfdec.py but with a real content-stream tokenizer, so that
# formulas containing '[' ']' or ')' inside string operands ("S1.u[4:0]") are
# kept. Reading aid for vlib/isaspec; not used at run time.
import sys, re
src = open('/verif/tools/pdfdec.py').read()
exec(src[:src.index("def unesc(b)")])   # decryption + page stream collection -> pages

def tokens(s):
    i = 0; n = len(s)
    while i < n:
        c = s[i]
        if c in b' \t\r\n\x00\x0c': i += 1; continue
        if c == 0x25:  # comment
            while i < n and s[i] not in b'\r\n': i += 1
            continue
        if c == 0x28:  # literal string
            j = i + 1; depth = 1; buf = bytearray()
            while j < n:
                d = s[j]
                if d == 0x5c:
                    buf += s[j:j+2]; j += 2; continue
                if d == 0x28: depth += 1
                elif d == 0x29:
                    depth -= 1
                    if depth == 0: break
                buf.append(d); j += 1
            yield ('str', pdfstr(bytes(buf))); i = j + 1; continue
        if c == 0x3c and i + 1 < n and s[i+1] != 0x3c:  # hex string
            j = s.index(b'>', i)
            h = re.sub(rb'\s', b'', s[i+1:j])
            if len(h) % 2: h += b'0'
            try: yield ('str', bytes.fromhex(h.decode()))
            except Exception: yield ('str', b'')
            i = j + 1; continue
        if c == 0x5b: yield ('[', None); i += 1; continue
        if c == 0x5d: yield (']', None); i += 1; continue
        if s[i:i+2] in (b'<<', b'>>'): yield ('op', s[i:i+2]); i += 2; continue
        j = i
        while j < n and s[j] not in b' \t\r\n\x00\x0c()[]<>/%' : j += 1
        if j == i:
            j = i + 1
            while j < n and s[j] not in b' \t\r\n\x00\x0c()[]<>/%': j += 1
        yield ('op', s[i:j]); i = j

out = []
for _, s in pages:
    parts = []; arr = None; last = []
    for kind, v in tokens(s):
        if kind == '[': arr = []; continue
        if kind == ']':
            last = [('arr', arr)]; arr = None; continue
        if arr is not None:
            if kind == 'str': arr.append(v)
            else:
                try:
                    if float(v) < -200: arr.append(b' ')
                except Exception: pass
            continue
        if kind == 'str': last = [('str', v)]; continue
        if v == b'TJ' and last and last[0][0] == 'arr': parts.append(b''.join(last[0][1]))
        elif v in (b'Tj', b"'", b'"') and last and last[0][0] == 'str': parts.append(last[0][1])
        elif v in (b'T*', b'Td', b'TD', b'ET'): parts.append(b'\n')
        if kind == 'op': last = []
    out.append(b''.join(parts))
sys.stdout.buffer.write(b'\n=====PAGE\n'.join(out))
