package isaspec

import "verifharness/vlib/gcnasm"

// SDWA (GCN3 manual 13.x "VOP_SDWA": SRCn_SEL selects data[7:0] .. data[31:0],
// SRCn_SEXT sign- or zero-extends it, SRCn_NEG/ABS are the float modifiers,
// DST_SEL places the result, DST_UNUSED = PAD "pad all unused bits with 0",
// SEXT "sign-extend upper bits; pad lower bits with 0", PRESERVE keeps them).
// Judged for 32-bit integer/bit operations with any selects and for f32
// operations with DWORD selects (a sub-dword float operand would be f16).

func sdwaSel(v uint32, sel uint8, sx bool) uint32 {
	var w, sh uint
	switch sel {
	case gcnasm.SelByte0, gcnasm.SelByte1, gcnasm.SelByte2, gcnasm.SelByte3:
		w, sh = 8, 8*uint(sel)
	case gcnasm.SelWord0:
		w, sh = 16, 0
	case gcnasm.SelWord1:
		w, sh = 16, 16
	case gcnasm.SelDWord:
		return v
	default:
		bail("reserved SDWA select %d", sel)
	}
	x := v >> sh & (1<<w - 1)
	if sx {
		x = uint32(sext(uint64(x), w))
	}
	return x
}

func sdwaDst(old, r uint32, sel, unused uint8) uint32 {
	var w, sh uint
	switch sel {
	case gcnasm.SelByte0, gcnasm.SelByte1, gcnasm.SelByte2, gcnasm.SelByte3:
		w, sh = 8, 8*uint(sel)
	case gcnasm.SelWord0:
		w, sh = 16, 0
	case gcnasm.SelWord1:
		w, sh = 16, 16
	case gcnasm.SelDWord:
		return r
	default:
		bail("reserved SDWA select %d", sel)
	}
	fm := uint32(1<<w-1) << sh
	val := r << sh & fm
	switch unused {
	case gcnasm.UnusedPad:
		return val
	case gcnasm.UnusedSext:
		if val>>(sh+w-1)&1 == 1 {
			return val | ^uint32(0)<<(sh+w-1)
		}
		return val
	case gcnasm.UnusedPreserve:
		return old&^fm | val
	}
	bail("reserved DST_UNUSED %d", unused)
	return 0
}

func execSDWA(key string, sp vspec, d *gcnasm.Desc, st *State, out *Outcome) {
	S := d.SDWA
	if d.Format != gcnasm.VOP2 && d.Format != gcnasm.VOP1 {
		bail("SDWA on %v not modelled", d.Format)
	}
	if sp.dw != 1 || sp.w[2] != 0 || (sp.w[0] != 1) || (sp.w[1] > 1) {
		bail("SDWA with %s: operand sizes not 32 bit", key)
	}
	if S.Clamp || S.Omod != 0 {
		bail("SDWA clamp/omod not modelled")
	}
	isF := sp.dk == kF32
	if isF && (S.Src0Sel != gcnasm.SelDWord || (sp.w[1] == 1 && S.Src1Sel != gcnasm.SelDWord) || S.DstSel != gcnasm.SelDWord) {
		bail("sub-dword float operands are f16: no exact reference")
	}
	if !isF && (S.Src0Neg || S.Src0Abs || S.Src1Neg || S.Src1Abs) {
		bail("float modifiers on an integer SDWA instruction")
	}
	if sp.rd || sp.sel {
		bail("SDWA on accumulating / select instruction not modelled")
	}
	oldVCC := st.VCC
	var newCarry uint64
	type wr struct {
		ln int
		l  lane
	}
	var ws []wr
	for ln := 0; ln < NumLanes; ln++ {
		if !st.Active(ln) {
			continue
		}
		l := lane{id: ln, exec: st.EXEC}
		a := sdwaSel(st.vsrc32(d.Src0, ln), S.Src0Sel, S.Src0Sext)
		if isF {
			a = inMod32(a, S.Src0Abs, S.Src0Neg)
		}
		l.s[0] = uint64(a)
		if sp.w[1] == 1 {
			b := sdwaSel(st.vsrc32(d.Src1, ln), S.Src1Sel, S.Src1Sext)
			if isF {
				b = inMod32(b, S.Src1Abs, S.Src1Neg)
			}
			l.s[1] = uint64(b)
		}
		if sp.cin {
			l.cin = uint32(oldVCC >> uint(ln) & 1)
		}
		sp.f(&l)
		if sp.cout && l.cout != 0 {
			newCarry |= 1 << uint(ln)
		}
		ws = append(ws, wr{ln, l})
	}
	if d.Dst.Kind != gcnasm.KVGPR {
		bail("vector destination is not a VGPR")
	}
	for _, w := range ws {
		l := w.l
		c0 := VCell(w.ln, d.Dst.Index)
		old := st.V(w.ln, d.Dst.Index)
		st.SetV(w.ln, d.Dst.Index, sdwaDst(old, uint32(l.d), S.DstSel, S.DstUnused))
		switch {
		case l.k == fkMode || l.mask != 0 || len(l.alt) > 0 || l.anyNaN:
			out.loose(c0, Loose{Mask: 0xffffffff, Why: "MODE-dependent or open result under SDWA"})
		case l.k == fkNaN:
			out.loose(c0, Loose{NaN32: true})
		}
	}
	if sp.cout {
		st.VCC = newCarry
	}
}
